(* Chan/JoinVarProofs.v — variadic deriveJoin(c0, ..., c(n-1)), any n >= 1: every action from a
   canonical state leads to a canonical state and decreases the measure. *)
From Coq Require Import List Arith Bool Lia.
Import ListNotations.
From Verif Require Import Chan.Sem Chan.Expected Chan.Lemmas Chan.JoinVar.

Local Arguments Nat.ltb : simpl never.
Local Arguments JoinVar.N : simpl never.
Local Arguments joinvar_main : simpl never.
Local Arguments menv_of : simpl never.
Local Arguments pc_of : simpl never.

Ltac inv_some :=
  match goal with
  | H : Some _ = Some ?s |- _ => injection H as H; subst s
  | H : None = Some _ |- _ => discriminate H
  end.

Ltac show_goal := match goal with |- ?G => idtac "GOAL:" G end.

Section ListAccess.
Context {A : Type}.
Variables (l : list A) (a b : A) (n : nat).
Hypothesis HL : length l = n.

Lemma at_main : nth_error (l ++ [a; b]) n = Some a.
Proof. rewrite (nth_error_app_at _ _ _ 0) by lia. reflexivity. Qed.
Lemma at_cons : nth_error (l ++ [a; b]) (S n) = Some b.
Proof. rewrite (nth_error_app_at _ _ _ 1) by lia. reflexivity. Qed.
Lemma at_in i : i < n -> nth_error (l ++ [a; b]) i = nth_error l i.
Proof. intros. apply nth_error_app1. lia. Qed.
Lemma at_none k : S n < k -> nth_error (l ++ [a; b]) k = None.
Proof. intros. apply nth_error_None. rewrite app_length. cbn. lia. Qed.
Lemma upd_at_main x : upd (l ++ [a; b]) n x = l ++ [x; b].
Proof. replace n with (length l + 0) by lia. rewrite upd_app_r. reflexivity. Qed.
Lemma upd_at_cons x : upd (l ++ [a; b]) (S n) x = l ++ [a; x].
Proof. replace (S n) with (length l + 1) by lia. rewrite upd_app_r. reflexivity. Qed.
Lemma upd_at_in i x : i < n -> upd (l ++ [a; b]) i x = upd l i x ++ [a; b].
Proof. intros. apply upd_app_l. lia. Qed.

Lemma at_out : nth_error (l ++ [a]) n = Some a.
Proof. rewrite (nth_error_app_at _ _ _ 0) by lia. reflexivity. Qed.
Lemma at_in1 i : i < n -> nth_error (l ++ [a]) i = nth_error l i.
Proof. intros. apply nth_error_app1. lia. Qed.
Lemma upd_at_out x : upd (l ++ [a]) n x = l ++ [x].
Proof. replace n with (length l + 0) by lia. rewrite upd_app_r. reflexivity. Qed.
Lemma upd_at_in1 i x : i < n -> upd (l ++ [a]) i x = upd l i x ++ [a].
Proof. intros. apply upd_app_l. lia. Qed.
End ListAccess.

Section JVP.
Variable f : item -> item.
Variable inputs : list (nat * list item).
Variable cout : nat.

Notation N := (N inputs).
Notation PV := (PV inputs).
Notation mk := (mk inputs cout).
Notation Cond := (Cond inputs cout).
Notation PoolV := (PoolV inputs).
Notation LocI := (LocI inputs).
Notation mu := (mu inputs).

Definition Good (p:params) (s':state) : Prop :=
  exists p', s' = mk p' /\ Cond p' /\ mu p' < mu p.

Ltac open_cond C :=
  unfold JoinVar.Cond in C; cbn [prods chans mpc menv ob oc log cd ploc cs vo cv cok dls] in C;
  destruct C as (HLp & HLc & HLd & HLs & HLv & Hpc & Hwf & Henv & HP & HL & HM & Hoc & Hcd & Hlo).

Ltac open_p p :=
  destruct p as [prods0 chans0 mpc0 menv0 ob0 oc0 log0 cd0 loc0 cs0 vo0 cv0 cok0 dls0];
  cbn [prods chans mpc menv ob oc log cd ploc cs vo cv cok dls] in *.

(* PoolV only looks at index j of the lists and at what main holds of input j *)
Lemma poolv_frame p p' j :
  nth_error (prods p') j = nth_error (prods p) j ->
  nth_error (chans p') j = nth_error (chans p) j ->
  nth_error (dls p') j = nth_error (dls p) j ->
  nth_error (cs p') j = nth_error (cs p) j ->
  hold (ploc p') (cv p') (cok p') j = hold (ploc p) (cv p) (cok p) j ->
  PoolV p j -> PoolV p' j.
Proof.
  intros E1 E2 E3 E4 E5 (cp & its & r & d & ch & dl & slot & H).
  exists cp, its, r, d, ch, dl, slot. rewrite E1, E2, E3, E4, E5. exact H.
Qed.

Lemma hold_other i off v ok j : i <> j -> hold (LCase i off) v ok j = [].
Proof.
  intros H. apply Nat.eqb_neq in H. unfold hold.
  destruct off as [|[|[|[|off]]]]; try reflexivity; rewrite H; reflexivity.
Qed.

(* the split of Cond into its 14 conjuncts *)
Ltac split_cond :=
  unfold JoinVar.Cond; cbn [prods chans mpc menv ob oc log cd ploc cs vo cv cok dls];
  split; [|split; [|split; [|split; [|split; [|split; [|split; [|split; [|split; [|split; [|split; [|split; [|split]]]]]]]]]]]].

Ltac light :=
  try assumption; try reflexivity; try (intros; reflexivity); try lia; try discriminate; try congruence;
  try solve [intros; repeat split; auto; try discriminate; try lia].

(* ---------- producer k ---------- *)
Lemma step_prod p k s' :
  k < N -> Cond p -> step f PV (mk p) (Tau k) = Some s' -> Good p s'.
Proof.
  intros Hk C H. pose proof C as C0. open_p p. open_cond C.
  unfold step in H; cbn [panicked JoinVar.mk thr chs wg] in H.
  rewrite (at_in _ _ _ _ HLp) in H by exact Hk.
  destruct (HP k Hk) as (cp & its & r & d & ch & dl & slot & E1 & E2 & E3 & E4 & E5 & E6 & E7 & E8 & E9 & E10 & E11).
  cbn [prods chans dls cs ploc cv cok] in *.
  rewrite E2 in H. destruct ch as [chcap chbuf chcl]. cbn in E4, E7, E8, E9, E10, E11. subst chcap d.
  destruct chcl; [destruct r; cbn in H; discriminate|].
  destruct r as [|x r]; cbn in H; rewrite (at_in1 _ _ _ HLc) in H by exact Hk; rewrite E3 in H; cbn in H.
  - (* close *)
    inv_some. unfold set_ch, set_thr, JoinVar.mk; cbn [thr chs wg panicked prods chans mpc menv ob oc log cd].
    rewrite (upd_at_in _ _ _ _ HLp) by exact Hk. rewrite (upd_at_in1 _ _ _ HLc) by exact Hk.
    pose proof (sumw_upd (prodw N) prods0 k _ (TProd k [] true) E2) as Hw1. cbn in Hw1.
    pose proof (sumw_upd (chw N) chans0 k _ {| cap := cp; buf := chbuf; closed := true |} E3) as Hw2. cbn in Hw2.
    exists {| prods := upd prods0 k (TProd k [] true);
              chans := upd chans0 k {| cap := cp; buf := chbuf; closed := true |};
              mpc := mpc0; menv := menv0; ob := ob0; oc := oc0; log := log0; cd := cd0;
              ploc := loc0; cs := cs0; vo := vo0; cv := cv0; cok := cok0; dls := dls0 |}.
    split; [reflexivity|]. split.
    + split_cond; light; try (rewrite upd_length; assumption).
      * intros j Hj. destruct (Nat.eq_dec j k) as [ -> |Hne].
        -- exists cp, its, [], true, {| cap := cp; buf := chbuf; closed := true |}, dl, slot.
           cbn [prods chans dls cs ploc cv cok].
           rewrite !nth_error_upd_eq by lia. repeat split; auto.
           destruct E10 as [E10|(E10 & Hx & _)]; [left; exact E10|discriminate Hx].
        -- apply (poolv_frame _ _ j) with (6 := HP j Hj); cbn [prods chans dls cs ploc cv cok]; auto;
             apply nth_error_upd_neq; auto.
      * (* LocI: the clause about the closed channel of the current case *)
        unfold JoinVar.LocI in *; cbn [ploc cs vo cv cok chans prods] in *.
        destruct loc0 as [t| |i off| | |]; auto.
        destruct HL as (L1 & L2 & L3 & L4 & L5 & L6 & L7 & L8). repeat split; auto.
        intros Ho Hc. destruct (L8 Ho Hc) as (ch' & r' & d' & X1 & X2 & X3 & X4 & X5).
        destruct (Nat.eq_dec i k) as [ -> |Hne].
        -- rewrite E3 in X1. inversion X1; subst ch'. cbn in X3. discriminate.
        -- exists ch', r', d'. rewrite !nth_error_upd_neq by auto. auto.
    + unfold JoinVar.mu; cbn [prods chans cs ploc cok ob cd]. lia.
  - (* send through the buffer *)
    destruct (length chbuf <? cp) eqn:E; cbn in H; [|discriminate].
    inv_some. unfold set_ch, set_thr, JoinVar.mk; cbn [thr chs wg panicked prods chans mpc menv ob oc log cd].
    rewrite (upd_at_in _ _ _ _ HLp) by exact Hk. rewrite (upd_at_in1 _ _ _ HLc) by exact Hk.
    pose proof (sumw_upd (prodw N) prods0 k _ (TProd k r false) E2) as Hw1. cbn in Hw1.
    pose proof (sumw_upd (chw N) chans0 k _ {| cap := cp; buf := chbuf ++ [x]; closed := false |} E3) as Hw2.
    cbn in Hw2. rewrite app_length in Hw2. cbn in Hw2.
    apply Nat.ltb_lt in E.
    exists {| prods := upd prods0 k (TProd k r false);
              chans := upd chans0 k {| cap := cp; buf := chbuf ++ [x]; closed := false |};
              mpc := mpc0; menv := menv0; ob := ob0; oc := oc0; log := log0; cd := cd0;
              ploc := loc0; cs := cs0; vo := vo0; cv := cv0; cok := cok0; dls := dls0 |}.
    split; [reflexivity|]. split.
    + split_cond; light; try (rewrite upd_length; assumption).
      * intros j Hj. destruct (Nat.eq_dec j k) as [ -> |Hne].
        -- exists cp, its, r, false, {| cap := cp; buf := chbuf ++ [x]; closed := false |}, dl, slot.
           cbn [prods chans dls cs ploc cv cok].
           rewrite !nth_error_upd_eq by lia. repeat split; auto; try discriminate.
           ++ cbn. rewrite app_length. cbn. lia.
           ++ destruct E10 as [E10|(E10 & Hx & _)]; [left; exact E10|discriminate Hx].
           ++ cbn. rewrite E11. rewrite <- !app_assoc. reflexivity.
        -- apply (poolv_frame _ _ j) with (6 := HP j Hj); cbn [prods chans dls cs ploc cv cok]; auto;
             apply nth_error_upd_neq; auto.
      * unfold JoinVar.LocI in *; cbn [ploc cs vo cv cok chans prods] in *.
        destruct loc0 as [t| |i off| | |]; auto.
        destruct HL as (L1 & L2 & L3 & L4 & L5 & L6 & L7 & L8). repeat split; auto.
        intros Ho Hc. destruct (L8 Ho Hc) as (ch' & r' & d' & X1 & X2 & X3 & X4 & X5).
        destruct (Nat.eq_dec i k) as [ -> |Hne].
        -- rewrite E3 in X1. inversion X1; subst ch'. cbn in X3. discriminate.
        -- exists ch', r', d'. rewrite !nth_error_upd_neq by auto. auto.
    + unfold JoinVar.mu; cbn [prods chans cs ploc cok ob cd]. lia.
Qed.

Hypothesis HN : 0 < N.

(* the slot of input i in main's environment *)
Definition slot_cid (v:value) : option cid := match v with VC c => c | _ => None end.

Lemma getc_slot cs0 vo0 i : length cs0 = N -> i < N ->
  getc (menv_of N cs0 vo0) i = match nth_error cs0 i with Some v => slot_cid v | None => None end.
Proof.
  intros L H. unfold getc. rewrite (env_c N cs0 vo0 L i H).
  destruct (nth_error cs0 i) as [[ | | | ]|]; reflexivity.
Qed.

(* what main wants, by location *)
Definition main_want (l:loc) (cs0:list value) (v:item) : want :=
  match l with
  | LSel => WSel (map (fun '(c,_,_,_) => getc (menv_of N cs0 []) c) (sel_cases N))
  | LCase _ 3 => WSend N v
  | LClose => WClose N
  | LHalt => WNone
  | _ => WLocal
  end.

Lemma sel_slots cs0 vo0 : length cs0 = N ->
  map (fun '(c,_,_,_) => getc (menv_of N cs0 vo0) c) (sel_cases N)
  = map (fun i => match nth_error cs0 i with Some v => slot_cid v | None => None end) (seq 0 N).
Proof.
  intros L. unfold sel_cases. rewrite map_map. apply map_ext_in. intros i Hi.
  apply in_seq in Hi. apply getc_slot; [exact L|lia].
Qed.

Lemma main_wants p : Cond p ->
  wants PV (TProg 0 (mpc p) (menv p)) =
  match ploc p with
  | LSel => WSel (map (fun i => match nth_error (cs p) i with Some v => slot_cid v | None => None end) (seq 0 N))
  | LCase _ 3 => WSend N (cv p)
  | LClose => WClose N
  | LHalt => WNone
  | _ => WLocal
  end.
Proof.
  intros C. open_p p. open_cond C.
  unfold wants, instr_at, code, JoinVar.PV. cbn [nth].
  rewrite Hpc, (instr_at_loc N loc0 Hwf). subst menv0.
  destruct loc0 as [t| |i off| | |]; cbn [main_instr]; try reflexivity.
  - rewrite (sel_slots cs0 vo0 HLs). reflexivity.
  - destruct off as [|[|[|[|off]]]]; try reflexivity.
    unfold getc, geti. rewrite (env_out N cs0 vo0 HLs).
    unfold JoinVar.LocI in HL; cbn [ploc vo cv cok cs prods chans] in HL. destruct HL as (L1 & L2 & L3 & L4 & _).
    replace (N + 1 + 2 * i) with (N + 1 + (2 * i)) by lia. rewrite (env_vo N cs0 vo0 HLs), L3. reflexivity.
  - unfold getc. rewrite (env_out N cs0 vo0 HLs). reflexivity.
Qed.

(* all PoolV facts survive when no list changes and main holds the same *)
Lemma poolv_same p p' :
  prods p' = prods p -> chans p' = chans p -> dls p' = dls p -> cs p' = cs p ->
  (forall j, j < N -> hold (ploc p') (cv p') (cok p') j = hold (ploc p) (cv p) (cok p) j) ->
  (forall j, j < N -> PoolV p j) -> forall j, j < N -> PoolV p' j.
Proof.
  intros E1 E2 E3 E4 E5 HP j Hj. apply (poolv_frame p p' j); try congruence; auto.
Qed.

(* ---------- the consumer ---------- *)
Lemma step_cons p s' : Cond p -> step f PV (mk p) (Tau (S N)) = Some s' -> Good p s'.
Proof.
  intros C H. pose proof C as C0. open_p p. open_cond C.
  unfold step in H; cbn [panicked JoinVar.mk thr chs wg] in H.
  rewrite (at_cons _ _ _ _ HLp) in H. cbn in H.
  destruct cd0; [discriminate|]. cbn in H. unfold recv_buf in H.
  unfold JoinVar.mk in H; cbn [thr chs wg panicked prods chans mpc menv ob oc log cd] in H.
  rewrite (at_out _ _ _ HLc) in H. cbn in H.
  destruct ob0 as [|x r].
  - destruct oc0; [|discriminate]. inv_some.
    unfold set_thr, JoinVar.mk; cbn [thr chs wg panicked prods chans mpc menv ob oc log cd].
    rewrite (upd_at_cons _ _ _ _ HLp).
    exists {| prods := prods0; chans := chans0; mpc := mpc0; menv := menv0; ob := []; oc := true;
              log := log0; cd := true; ploc := loc0; cs := cs0; vo := vo0; cv := cv0; cok := cok0; dls := dls0 |}.
    split; [reflexivity|]. split.
    + split_cond; light.
    + unfold JoinVar.mu; cbn. lia.
  - inv_some.
    unfold set_thr, set_ch, JoinVar.mk; cbn [thr chs wg panicked prods chans mpc menv ob oc log cd].
    rewrite (upd_at_cons _ _ _ _ HLp), (upd_at_out _ _ _ HLc).
    exists {| prods := prods0; chans := chans0; mpc := mpc0; menv := menv0; ob := r; oc := oc0;
              log := log0 ++ [x]; cd := false; ploc := loc0; cs := cs0; vo := vo0; cv := cv0; cok := cok0; dls := dls0 |}.
    split; [reflexivity|]. split.
    + split_cond; light.
      * rewrite <- app_assoc. exact HM.
      * cbn in Hlo. lia.
    + unfold JoinVar.mu; cbn. lia.
Qed.

(* ---------- the main goroutine ---------- *)
Definition with_main (p:params) pc env l cs' vo' v ok : params :=
  {| prods := prods p; chans := chans p; mpc := pc; menv := env; ob := ob p; oc := oc p;
     log := log p; cd := cd p; ploc := l; cs := cs'; vo := vo'; cv := v; cok := ok; dls := dls p |}.

Ltac open_cond' C :=
  unfold JoinVar.Cond in C;
  destruct C as (HLp & HLc & HLd & HLs & HLv & Hpc & Hwf & Henv & HP & HL & HM & Hoc & Hcd & Hlo).

Ltac pcgoal := unfold pc_of, var_case_pc, var_end in *; try lia.

(* the state after a local step of main *)
Lemma main_local p pc' :
  length (prods p) = N ->
  set_thr (mk p) N (TProg 0 pc' (menv p)) =
  mk (with_main p pc' (menv p) (ploc p) (cs p) (vo p) (cv p) (cok p)).
Proof.
  intros HLp. unfold set_thr, JoinVar.mk, with_main; cbn [thr chs wg panicked prods chans mpc menv ob oc log cd].
  rewrite (upd_at_main _ _ _ _ HLp). reflexivity.
Qed.

Definition with_all (p:params) pc env ob' oc' l cs' vo' v ok dls' : params :=
  {| prods := prods p; chans := chans p; mpc := pc; menv := env; ob := ob'; oc := oc';
     log := log p; cd := cd p; ploc := l; cs := cs'; vo := vo'; cv := v; cok := ok; dls := dls' |}.

Lemma main_env p pc' env' l cs' vo' v ok :
  length (prods p) = N ->
  set_thr (mk p) N (TProg 0 pc' env') = mk (with_main p pc' env' l cs' vo' v ok).
Proof.
  intros HLp. unfold set_thr, JoinVar.mk, with_main; cbn [thr chs wg panicked prods chans mpc menv ob oc log cd].
  rewrite (upd_at_main _ _ _ _ HLp). reflexivity.
Qed.

Lemma main_out p pc' env' ob' oc' l cs' vo' v ok dls' :
  length (prods p) = N -> length (chans p) = N ->
  set_ch (set_thr (mk p) N (TProg 0 pc' env')) N {| cap := cout; buf := ob'; closed := oc' |}
  = mk (with_all p pc' env' ob' oc' l cs' vo' v ok dls').
Proof.
  intros HLp HLc. unfold set_ch, set_thr, JoinVar.mk, with_all;
    cbn [thr chs wg panicked prods chans mpc menv ob oc log cd].
  rewrite (upd_at_main _ _ _ _ HLp), (upd_at_out _ _ _ HLc). reflexivity.
Qed.

Lemma main_local_step p : Cond p ->
  local_step f PV (TProg 0 (mpc p) (menv p)) =
  match main_instr N (ploc p) with
  | Br b pt pf => TProg 0 (if getb (menv p) b then pt else pf) (menv p)
  | BrNil c pn pnn => TProg 0 (match getc (menv p) c with None => pn | Some _ => pnn end) (menv p)
  | Jmp pc' => TProg 0 pc' (menv p)
  | SetNil c => TProg 0 (S (mpc p)) (upd (menv p) c (VC None))
  | _ => TProg 0 (mpc p) (menv p)
  end.
Proof.
  intros C. open_cond' C.
  unfold local_step, instr_at, code, JoinVar.PV. cbn [nth].
  rewrite Hpc at 1. rewrite (instr_at_loc N (ploc p) Hwf).
  destruct (ploc p) as [t| |i off| | |]; cbn [main_instr]; try reflexivity.
  destruct off as [|[|[|[|off]]]]; reflexivity.
Qed.

Lemma hold_nocase l v ok j :
  (forall i off, l <> LCase i off) -> hold l v ok j = [] .
Proof. intros H. destruct l; try reflexivity. exfalso. eapply H; eauto. Qed.

(* after splitting Cond: discharge everything that is unchanged *)
Ltac cond_auto p HP Hoc El :=
  unfold JoinVar.Cond, with_main; cbn [prods chans mpc menv ob oc log cd ploc cs vo cv cok dls];
  repeat match goal with |- _ /\ _ => split end; light;
  try solve [cbn; lia]; try solve [pcgoal];
  try solve [intros j Hj; apply (poolv_frame p _ j); cbn [prods chans dls cs ploc cv cok with_main]; auto;
             rewrite El; reflexivity];
  try solve [try rewrite El in Hoc; split; intros X; [apply Hoc in X; discriminate|discriminate]].

Ltac mu_auto El :=
  unfold JoinVar.mu, with_main; cbn [prods chans cs ploc cok ob cd]; rewrite ?El; cbn [locw]; try lia.

Lemma step_main p s' : Cond p -> step f PV (mk p) (Tau N) = Some s' -> Good p s'.
Proof.
  intros C H. pose proof C as C0. pose proof (main_wants p C) as W.
  pose proof (main_local_step p C) as LS.
  open_cond' C.
  unfold step in H; cbn [panicked JoinVar.mk thr chs wg] in H.
  rewrite (at_main _ _ _ _ HLp) in H. rewrite W in H. clear W.
  unfold JoinVar.LocI in HL.
  destruct (ploc p) as [k| |i off| | |] eqn:El; cbn [main_instr wf_loc] in *.
  - (* nil test k *)
    destruct HL as [Hk Hnil]. rewrite LS in H. clear LS. inv_some.
    rewrite Henv at 1. rewrite (getc_slot _ _ k HLs Hk).
    destruct (HP k Hk) as (cp & its & r & d & ch & dl & slot & E1 & E2 & E3 & E4 & E5 & E6 & E7 & E8 & E9 & E10 & E11).
    rewrite E6. destruct E10 as [->|(-> & _)]; cbn [slot_cid]; rewrite main_local by exact HLp.
    + (* non-nil: go to the select *)
      exists (with_main p N (menv p) LSel (cs p) (vo p) (cv p) (cok p)).
      split; [reflexivity|]. split.
      * cond_auto p HP Hoc El.
        unfold JoinVar.LocI; cbn [ploc cs]. exists k. auto.
      * mu_auto El.
    + (* nil: next test, or leave the loop *)
      change (match N with 0 => false | S m' => k =? m' end) with (S k =? N).
      destruct (S k =? N) eqn:Ek.
      * apply Nat.eqb_eq in Ek.
        exists (with_main p (S (var_end N)) (menv p) LClose (cs p) (vo p) (cv p) (cok p)).
        split; [reflexivity|]. split.
        -- cond_auto p HP Hoc El.
           unfold JoinVar.LocI, all_nil; cbn [ploc cs]. intros j Hj.
           destruct (Nat.eq_dec j k) as [ -> |Hne]; [exact E6|apply Hnil; lia].
        -- mu_auto El.
      * apply Nat.eqb_neq in Ek.
        exists (with_main p (S k) (menv p) (LTest (S k)) (cs p) (vo p) (cv p) (cok p)).
        split; [reflexivity|]. split.
        -- cond_auto p HP Hoc El.
           unfold JoinVar.LocI; cbn [ploc cs]. split; [lia|]. intros j Hj.
           destruct (Nat.eq_dec j k) as [ -> |Hne]; [exact E6|apply Hnil; lia].
        -- mu_auto El.
  - discriminate.
  - (* inside the case block of input i *)
    destruct HL as (Hi & Ho & Lv & Lok & L3 & L1 & Lslot & Lcl).
    assert (Hocf : oc p = false).
    { destruct (oc p); [|reflexivity]. destruct Hoc as [Hoc1 _]. specialize (Hoc1 eq_refl). discriminate. }
    destruct off as [|[|[|[|[|off]]]]]; try lia; cbn [main_instr] in *.
    + (* 0: if !ok *)
      rewrite LS in H. clear LS. inv_some.
      assert (Hb : getb (menv p) (N + 2 + 2 * i) = cok p).
      { unfold getb. rewrite Henv. replace (N + 2 + 2 * i) with (N + 1 + (2 * i + 1)) by lia.
        rewrite (env_vo N _ _ HLs), Lok. reflexivity. }
      change (i + (i + 0)) with (2 * i). rewrite Hb. destruct (cok p) eqn:Eok.
      * rewrite (main_env p _ _ (LCase i 3) (cs p) (vo p) (cv p) true) by exact HLp.
        eexists; split; [reflexivity|]. split.
        -- cond_auto p HP Hoc El.
           ++ intros j Hj. apply (poolv_frame p _ j); cbn [prods chans dls cs ploc cv cok with_main]; auto.
              rewrite El, Eok. cbn [hold]. rewrite andb_true_r. reflexivity.
        -- mu_auto El. rewrite Eok. lia.
      * rewrite (main_env p _ _ (LCase i 1) (cs p) (vo p) (cv p) false) by exact HLp.
        eexists; split; [reflexivity|]. split.
        -- cond_auto p HP Hoc El.
           ++ intros j Hj. apply (poolv_frame p _ j); cbn [prods chans dls cs ploc cv cok with_main]; auto.
              rewrite El, Eok. cbn [hold]. rewrite andb_false_r. reflexivity.
        -- mu_auto El. rewrite Eok. lia.
    + (* 1: c_i = nil *)
      rewrite LS in H. clear LS. inv_some.
      specialize (L1 eq_refl). assert (L01 : 1 <= 1) by lia.
      destruct (Lcl L01 L1) as (ch' & r' & d' & X1 & X2 & X3 & X4 & X5).
      rewrite Henv at 1. rewrite (env_upd_c N _ _ HLs i (VC None) Hi).
      rewrite (main_env p _ _ (LCase i 2) (upd (cs p) i (VC None)) (vo p) (cv p) (cok p)) by exact HLp.
      pose proof (sumw_upd (slotw N) (cs p) i _ (VC None) (Lslot L01)) as Hw. cbn in Hw.
      eexists; split; [reflexivity|]. split.
      * cond_auto p HP Hoc El.
        -- rewrite upd_length. exact HLs.
        -- intros j Hj. destruct (Nat.eq_dec j i) as [ -> |Hne].
           ++ destruct (HP i Hi) as (cp & its & r & d & ch & dl & slot & E1 & E2 & E3 & E4 & E5 & E6 & E7 & E8 & E9 & E10 & E11).
              rewrite X1 in E3. injection E3 as <-. rewrite X2 in E2. injection E2 as <- <-.
              exists cp, its, r', d', ch', dl, (VC None).
              cbn [prods chans dls cs ploc cv cok with_main].
              rewrite nth_error_upd_eq by lia.
              repeat split; auto.
              rewrite E11; rewrite ?El; reflexivity.
           ++ apply (poolv_frame p _ j); cbn [prods chans dls cs ploc cv cok with_main]; auto.
              ** apply nth_error_upd_neq; auto.
              ** rewrite El. rewrite !hold_other by auto. reflexivity.
      * mu_auto El.
    + (* 2: end of the if *)
      rewrite LS in H. clear LS. inv_some.
      rewrite (main_env p _ _ (LCase i 4) (cs p) (vo p) (cv p) (cok p)) by exact HLp.
      eexists; split; [reflexivity|]. split.
      * cond_auto p HP Hoc El.
      * mu_auto El.
    + (* 3: out <- v_i *)
      cbn [chs JoinVar.mk] in H. rewrite (at_out _ _ _ HLc) in H. cbn [closed buf cap] in H.
      rewrite Hocf in H.
      destruct (length (ob p) <? cout) eqn:E; [|discriminate]. inv_some. cbn [after_send].
      destruct (HP i Hi) as (cp & its & r & d & ch & dl & slot & E1 & E2 & E3 & E4 & E5 & E6 & E7 & E8 & E9 & E10 & E11).
      rewrite (main_out p _ _ _ _ (LCase i 4) (cs p) (vo p) (cv p) (cok p) (upd (dls p) i (dl ++ [cv p]))) by assumption.
      apply Nat.ltb_lt in E.
      eexists; split; [reflexivity|]. split.
      * unfold JoinVar.Cond, with_all; cbn [prods chans mpc menv ob oc log cd ploc cs vo cv cok dls].
        repeat match goal with |- _ /\ _ => split end; light; try solve [pcgoal].
        -- rewrite upd_length. exact HLd.
        -- intros j Hj. destruct (Nat.eq_dec j i) as [ -> |Hne].
           ++ exists cp, its, r, d, ch, (dl ++ [cv p]), slot.
              cbn [prods chans dls cs ploc cv cok with_all].
              rewrite nth_error_upd_eq by lia. repeat split; auto.
              rewrite E11; rewrite ?El; cbn [hold]. rewrite Nat.eqb_refl. rewrite <- !app_assoc. reflexivity.
           ++ apply (poolv_frame p _ j); cbn [prods chans dls cs ploc cv cok with_all]; auto.
              ** apply nth_error_upd_neq; auto.
              ** rewrite El. rewrite !hold_other by auto. reflexivity.
        -- rewrite app_assoc. apply Merge_snoc; assumption.
        -- intros X. destruct (Hcd X) as [Y _]. rewrite Hocf in Y. discriminate.
        -- rewrite app_length. cbn. lia.
      * unfold JoinVar.mu, with_all; cbn [prods chans cs ploc cok ob cd]. rewrite El. cbn [locw].
        rewrite app_length. cbn. lia.
    + (* 4: end of the case *)
      rewrite LS in H. clear LS. inv_some.
      rewrite (main_env p _ _ LEnd (cs p) (vo p) (cv p) (cok p)) by exact HLp.
      eexists; split; [reflexivity|]. split.
      * cond_auto p HP Hoc El.
      * mu_auto El.
  - (* end of the loop body *)
    rewrite LS in H. clear LS. inv_some.
    rewrite (main_env p _ _ (LTest 0) (cs p) (vo p) (cv p) (cok p)) by exact HLp.
    eexists; split; [reflexivity|]. split.
    + cond_auto p HP Hoc El.
    + mu_auto El.
  - (* close(out) *)
    assert (Hocf : oc p = false).
    { destruct (oc p); [|reflexivity]. destruct Hoc as [Hoc1 _]. specialize (Hoc1 eq_refl). discriminate. }
    cbn [chs JoinVar.mk] in H. rewrite (at_out _ _ _ HLc) in H. cbn [closed buf cap] in H.
    rewrite Hocf in H. inv_some. cbn [after_close].
    rewrite (main_out p _ _ _ _ LHalt (cs p) (vo p) (cv p) (cok p) (dls p)) by assumption.
    eexists; split; [reflexivity|]. split.
    + unfold JoinVar.Cond, with_all; cbn [prods chans mpc menv ob oc log cd ploc cs vo cv cok dls].
      repeat match goal with |- _ /\ _ => split end; light; try solve [pcgoal].
      * intros j Hj. apply (poolv_frame p _ j); cbn [prods chans dls cs ploc cv cok with_all]; auto.
        rewrite El. reflexivity.
      * intros X. destruct (Hcd X) as [Y _]. rewrite Hocf in Y. discriminate.
    + unfold JoinVar.mu, with_all; cbn [prods chans cs ploc cok ob cd]. rewrite El. cbn [locw]. lia.
  - discriminate.
Qed.

(* ---------- the select fires on case k (buffered item, or closed and drained) ---------- *)
Definition with_sel (p:params) prods' chans' pc env l vo' v ok : params :=
  {| prods := prods'; chans := chans'; mpc := pc; menv := env; ob := ob p; oc := oc p;
     log := log p; cd := cd p; ploc := l; cs := cs p; vo := vo'; cv := v; cok := ok; dls := dls p |}.

Lemma main_in p k pc' env' ch' l vo' v ok :
  length (prods p) = N -> length (chans p) = N -> k < N ->
  set_ch (set_thr (mk p) N (TProg 0 pc' env')) k ch'
  = mk (with_sel p (prods p) (upd (chans p) k ch') pc' env' l vo' v ok).
Proof.
  intros HLp HLc Hk. unfold set_ch, set_thr, JoinVar.mk, with_sel;
    cbn [thr chs wg panicked prods chans mpc menv ob oc log cd].
  rewrite (upd_at_main _ _ _ _ HLp), (upd_at_in1 _ _ _ HLc) by exact Hk. reflexivity.
Qed.

Lemma after_sel_main p k x ok : Cond p -> ploc p = LSel -> k < N ->
  after_sel PV (TProg 0 (mpc p) (menv p)) k x ok =
  TProg 0 (var_case_pc N k)
        (menv_of N (cs p) (upd (upd (vo p) (2 * k) (VI x)) (2 * k + 1) (VB ok))).
Proof.
  intros C El Hk. open_cond' C.
  unfold after_sel, instr_at, code, JoinVar.PV. cbn [nth].
  rewrite Hpc, El. rewrite (instr_at_loc N LSel I). cbn [main_instr].
  rewrite (sel_cases_nth N k Hk). rewrite Henv.
  replace (N + 1 + 2 * k) with (N + 1 + (2 * k)) by lia. rewrite (env_upd_vo N _ _ HLs).
  replace (N + 2 + 2 * k) with (N + 1 + (2 * k + 1)) by lia. rewrite (env_upd_vo N _ _ HLs).
  reflexivity.
Qed.

Lemma vo_after (vo0:list value) k x ok : length vo0 = 2 * N -> k < N ->
  let vo' := upd (upd vo0 (2 * k) (VI x)) (2 * k + 1) (VB ok) in
  length vo' = 2 * N /\ nth_error vo' (2 * k) = Some (VI x) /\ nth_error vo' (2 * k + 1) = Some (VB ok).
Proof.
  intros L Hk. cbn zeta. rewrite !upd_length. split; [exact L|]. split.
  - rewrite nth_error_upd_neq by lia. apply nth_error_upd_eq. lia.
  - apply nth_error_upd_eq. rewrite upd_length. lia.
Qed.

(* the new state after main (at the select) received x / closed on case k *)
Lemma sel_arrive p k (x:item) (ok:bool) prods' chans' :
  Cond p -> ploc p = LSel -> k < N ->
  length chans' = N ->
  (forall j, j <> k -> nth_error chans' j = nth_error (chans p) j) ->
  length prods' = N ->
  (forall j, j <> k -> nth_error prods' j = nth_error (prods p) j) ->
  (exists cp its r d ch dl,
     nth_error inputs k = Some (cp, its) /\ nth_error prods' k = Some (TProd k r d) /\
     nth_error chans' k = Some ch /\ cap ch = cp /\ nth_error (dls p) k = Some dl /\
     nth_error (cs p) k = Some (VC (Some k)) /\
     d = closed ch /\ (d = true -> r = []) /\ length (buf ch) <= cp /\
     its = dl ++ (if ok then [x] else @nil item) ++ buf ch ++ r /\
     (ok = false -> closed ch = true /\ buf ch = [] /\ r = [])) ->
  Cond (with_sel p prods' chans' (var_case_pc N k)
          (menv_of N (cs p) (upd (upd (vo p) (2 * k) (VI x)) (2 * k + 1) (VB ok)))
          (LCase k 0) (upd (upd (vo p) (2 * k) (VI x)) (2 * k + 1) (VB ok)) x ok).
Proof.
  intros C El Hk HLc' Hoth HLp' Hothp (cp & its & r & d & ch & dl & E1 & E2 & E3 & E4 & E5 & E6 & E7 & E8 & E9 & E11 & E12).
  open_cond' C.
  destruct (vo_after (vo p) k x ok HLv Hk) as (V1 & V2 & V3).
  unfold JoinVar.Cond, with_sel; cbn [prods chans mpc menv ob oc log cd ploc cs vo cv cok dls].
  repeat match goal with |- _ /\ _ => split end; light; try solve [pcgoal].
  - intros j Hj. destruct (Nat.eq_dec j k) as [ -> |Hne].
    + exists cp, its, r, d, ch, dl, (VC (Some k)).
      cbn [prods chans dls cs ploc cv cok with_sel]. repeat split; auto.
      cbn [hold]. rewrite Nat.eqb_refl. cbn [andb]. exact E11.
    + apply (poolv_frame p _ j); cbn [prods chans dls cs ploc cv cok with_sel]; auto.
      rewrite El. rewrite hold_other by auto. reflexivity.
  - unfold JoinVar.LocI; cbn [ploc cs vo cv cok chans prods].
    repeat split; auto; intros; try lia; try discriminate.
    exists ch, r, d. destruct (E12 H0) as (X1 & X2 & X3). auto.
  - rewrite El in Hoc. split; intros X; [apply Hoc in X; discriminate|discriminate].
Qed.

Lemma step_sel p k s' : Cond p -> step f PV (mk p) (TauSel N k) = Some s' -> Good p s'.
Proof.
  intros C H. pose proof C as C0. pose proof (main_wants p C) as W.
  open_cond' C.
  unfold step in H; cbn [panicked JoinVar.mk thr chs wg] in H.
  rewrite (at_main _ _ _ _ HLp) in H. rewrite W in H. clear W.
  destruct (ploc p) as [t| |i off| | |] eqn:El; try discriminate.
  2:{ destruct off as [|[|[|[|off]]]]; discriminate. }
  destruct (Nat.lt_ge_cases k N) as [Hk|Hk].
  2:{ assert (E : nth_error (map (fun i => match nth_error (cs p) i with Some v => slot_cid v | None => None end) (seq 0 N)) k = None)
        by (apply nth_error_None; rewrite map_length, seq_length; exact Hk).
      rewrite E in H. discriminate. }
  erewrite map_nth_error in H; [|apply nth_error_seq; exact Hk]. cbn [Nat.add] in H.
  destruct (HP k Hk) as (cp & its & r & d & ch & dl & slot & E1 & E2 & E3 & E4 & E5 & E6 & E7 & E8 & E9 & E10 & E11).
  rewrite E6 in H. destruct E10 as [->|(-> & _)]; cbn [slot_cid] in H; [|discriminate].
  unfold recv_buf in H. cbn [chs JoinVar.mk] in H. rewrite (at_in1 _ _ _ HLc) in H by exact Hk.
  rewrite E3 in H. rewrite El in E11. cbn [hold app] in E11.
  destruct ch as [chcap chbuf chcl]. cbn [buf closed cap] in *. subst chcap.
  destruct chbuf as [|x rest].
  - (* closed and drained *)
    destruct chcl; [|discriminate]. inv_some.
    match goal with |- Good p (set_thr _ _ ?t) => change t with (after_sel PV (TProg 0 (mpc p) (menv p)) k 0 false) end.
    rewrite (after_sel_main p k 0 false C0 El Hk).
    assert (Hr : r = []) by (apply E8; exact E7). 
    erewrite (main_env p _ _ (LCase k 0) (cs p) _ 0 false) by exact HLp.
    eexists; split; [reflexivity|]. split.
    + apply (sel_arrive p k 0 false (prods p) (chans p) C0 El Hk HLc); [reflexivity|exact HLp|reflexivity|].
      exists cp, its, r, d, {| cap := cp; buf := []; closed := true |}, dl. repeat split; auto.
    + unfold JoinVar.mu, with_main; cbn [prods chans cs ploc cok ob cd]. rewrite El. cbn [locw]. lia.
  - (* an item from the buffer *)
    inv_some.
    match goal with |- Good p (set_ch (set_thr _ _ ?t) _ _) => change t with (after_sel PV (TProg 0 (mpc p) (menv p)) k x true) end.
    rewrite (after_sel_main p k x true C0 El Hk).
    erewrite (main_in p k _ _ _ (LCase k 0) _ x true) by assumption.
    pose proof (sumw_upd (chw N) (chans p) k _ {| cap := cp; buf := rest; closed := chcl |} E3) as Hw. cbn in Hw.
    eexists; split; [reflexivity|]. split.
    + apply (sel_arrive p k x true (prods p) _ C0 El Hk).
      * rewrite upd_length. exact HLc.
      * intros j Hj. apply nth_error_upd_neq. auto.
      * exact HLp.
      * reflexivity.
      * exists cp, its, r, d, {| cap := cp; buf := rest; closed := chcl |}, dl.
        rewrite nth_error_upd_eq by lia. cbn [buf closed cap]. repeat split; auto.
        -- cbn in E9. lia.
        -- discriminate.
        -- discriminate.
        -- discriminate.
    + unfold JoinVar.mu, with_sel; cbn [prods chans cs ploc cok ob cd]. rewrite El. cbn [locw]. lia.
Qed.

(* ---------- rendezvous: main (out <- v_i) -> consumer ---------- *)
Definition with_log (p:params) pc env l log' dls' : params :=
  {| prods := prods p; chans := chans p; mpc := pc; menv := env; ob := ob p; oc := oc p;
     log := log'; cd := cd p; ploc := l; cs := cs p; vo := vo p; cv := cv p; cok := cok p; dls := dls' |}.

Lemma main_cons p pc' env' log' l dls' :
  length (prods p) = N -> cd p = false ->
  set_thr (set_thr (mk p) N (TProg 0 pc' env')) (S N) (TCons N log' false)
  = mk (with_log p pc' env' l log' dls').
Proof.
  intros HLp Hcd. unfold set_thr, JoinVar.mk, with_log;
    cbn [thr chs wg panicked prods chans mpc menv ob oc log cd].
  rewrite (upd_at_main _ _ _ _ HLp).
  rewrite (upd_at_cons _ _ _ _ HLp). rewrite Hcd. reflexivity.
Qed.

Lemma step_sync_main_cons p s' : Cond p -> step f PV (mk p) (Sync N (S N)) = Some s' -> Good p s'.
Proof.
  intros C H. pose proof C as C0. pose proof (main_wants p C) as W.
  open_cond' C.
  unfold step in H; cbn [panicked JoinVar.mk thr chs wg] in H.
  assert (En : (N =? S N) = false) by (apply Nat.eqb_neq; lia). rewrite En in H.
  rewrite (at_main _ _ _ _ HLp), (at_cons _ _ _ _ HLp) in H. rewrite W in H. clear W.
  unfold JoinVar.LocI in HL.
  destruct (ploc p) as [t| |i off| | |] eqn:El; try discriminate.
  destruct off as [|[|[|[|off]]]]; try discriminate.
  destruct HL as (Hi & Ho & Lv & Lok & L3 & L1 & Lslot & Lcl).
  cbn [wants] in H. destruct (cd p) eqn:Ecd; [discriminate|].
  rewrite Nat.eqb_refl in H. rewrite (at_out _ _ _ HLc) in H. cbn [closed cap] in H.
  assert (Hocf : oc p = false).
  { destruct (oc p); [|reflexivity]. destruct Hoc as [Hoc1 _]. specialize (Hoc1 eq_refl). discriminate. }
  rewrite Hocf in H. cbn [orb] in H.
  destruct (cout =? 0) eqn:E0; cbn [negb] in H; [|discriminate]. apply Nat.eqb_eq in E0.
  assert (Hob : ob p = []) by (destruct (ob p); [reflexivity|cbn in Hlo; lia]).
  inv_some. cbn [after_send after_recv].
  destruct (HP i Hi) as (cp & its & r & d & ch & dl & slot & E1 & E2 & E3 & E4 & E5 & E6 & E7 & E8 & E9 & E10 & E11).
  rewrite (main_cons p _ _ _ (LCase i 4) (upd (dls p) i (dl ++ [cv p]))) by assumption.
  eexists; split; [reflexivity|]. split.
  - unfold JoinVar.Cond, with_log; cbn [prods chans mpc menv ob oc log cd ploc cs vo cv cok dls].
    repeat match goal with |- _ /\ _ => split end; light; try solve [pcgoal].
    + rewrite upd_length. exact HLd.
    + intros j Hj. destruct (Nat.eq_dec j i) as [ -> |Hne].
      * exists cp, its, r, d, ch, (dl ++ [cv p]), slot.
        cbn [prods chans dls cs ploc cv cok with_log].
        rewrite nth_error_upd_eq by lia. repeat split; auto.
        rewrite E11; rewrite ?El; cbn [hold]. rewrite Nat.eqb_refl. rewrite <- !app_assoc. reflexivity.
      * apply (poolv_frame p _ j); cbn [prods chans dls cs ploc cv cok with_log]; auto.
        -- apply nth_error_upd_neq; auto.
        -- rewrite ?El. rewrite !hold_other by auto. reflexivity.
    + rewrite Hob in *. rewrite app_nil_r in *. apply Merge_snoc; assumption.
    + split; intros X; [rewrite Hocf in X|]; discriminate.
  - unfold JoinVar.mu, with_log; cbn [prods chans cs ploc cok ob cd]. rewrite ?El. cbn [locw]. lia.
Qed.

(* ---------- rendezvous: producer k -> main's select, case k ---------- *)
Lemma main_prod p k t' pc' env' l vo' v ok :
  length (prods p) = N -> k < N ->
  set_thr (set_thr (mk p) k t') N (TProg 0 pc' env')
  = mk (with_sel p (upd (prods p) k t') (chans p) pc' env' l vo' v ok).
Proof.
  intros HLp Hk. unfold set_thr, JoinVar.mk, with_sel;
    cbn [thr chs wg panicked prods chans mpc menv ob oc log cd].
  rewrite (upd_at_in _ _ _ _ HLp) by exact Hk.
  assert (L : length (upd (prods p) k t') = N) by (rewrite upd_length; exact HLp).
  rewrite (upd_at_main _ _ _ _ L). reflexivity.
Qed.

Lemma step_syncsel p k s' : k < N -> Cond p -> step f PV (mk p) (SyncSel k N k) = Some s' -> Good p s'.
Proof.
  intros Hk C H. pose proof C as C0. pose proof (main_wants p C) as W.
  open_cond' C.
  unfold step in H; cbn [panicked JoinVar.mk thr chs wg] in H.
  assert (En : (k =? N) = false) by (apply Nat.eqb_neq; lia). rewrite En in H.
  rewrite (at_in _ _ _ _ HLp) in H by exact Hk. rewrite (at_main _ _ _ _ HLp) in H. rewrite W in H. clear W.
  destruct (HP k Hk) as (cp & its & r & d & ch & dl & slot & E1 & E2 & E3 & E4 & E5 & E6 & E7 & E8 & E9 & E10 & E11).
  rewrite E2 in H. cbn [wants] in H.
  destruct r as [|x r]; [destruct d; discriminate|]. destruct d; [discriminate|].
  destruct (ploc p) as [t| |i off| | |] eqn:El; try discriminate.
  2:{ destruct off as [|[|[|[|off]]]]; discriminate. }
  erewrite map_nth_error in H; [|apply nth_error_seq; exact Hk]. cbn [Nat.add] in H.
  rewrite E6 in H. destruct E10 as [->|(-> & _)]; cbn [slot_cid] in H; [|discriminate].
  rewrite Nat.eqb_refl in H. cbn [chs JoinVar.mk] in H. rewrite (at_in1 _ _ _ HLc) in H by exact Hk.
  rewrite E3 in H. rewrite <- E7 in H. cbn [orb] in H.
  destruct (cap ch =? 0) eqn:E0; cbn [negb] in H; [|discriminate]. apply Nat.eqb_eq in E0.
  assert (Hb : buf ch = []) by (destruct (buf ch); [reflexivity|cbn in E9; lia]).
  inv_some. cbn [after_send].
  match goal with |- Good p (set_thr _ _ ?t) => change t with (after_sel PV (TProg 0 (mpc p) (menv p)) k x true) end.
  rewrite (after_sel_main p k x true C0 El Hk).
  erewrite (main_prod p k _ _ _ (LCase k 0) _ x true) by assumption.
  pose proof (sumw_upd (prodw N) (prods p) k _ (TProd k r false) E2) as Hw. cbn in Hw.
  rewrite ?El in E11. cbn [hold app] in E11. rewrite Hb in E11. cbn [app] in E11.
  eexists; split; [reflexivity|]. split.
  - apply (sel_arrive p k x true _ (chans p) C0 El Hk HLc); [reflexivity| | |].
    + rewrite upd_length. exact HLp.
    + intros j Hj. apply nth_error_upd_neq. auto.
    + exists cp, its, r, false, ch, dl. rewrite nth_error_upd_eq by lia. rewrite Hb.
      repeat split; auto; try discriminate. cbn. lia.
  - unfold JoinVar.mu, with_sel; cbn [prods chans cs ploc cok ob cd]. rewrite El. cbn [locw]. lia.
Qed.

(* ---------- dispatcher ---------- *)
Lemma thr_class p t th : Cond p -> nth_error (thr (mk p)) t = Some th ->
  (t < N /\ exists r d, th = TProd t r d) \/ (t = N /\ th = TProg 0 (mpc p) (menv p))
  \/ (t = S N /\ th = TCons N (log p) (cd p)).
Proof.
  intros C E. open_cond' C. cbn [thr JoinVar.mk] in E.
  destruct (lt_eq_lt_dec t N) as [[L| -> ]|L].
  - left. split; [exact L|]. rewrite (at_in _ _ _ _ HLp) in E by exact L.
    destruct (HP t L) as (cp & its & r & d & ch & dl & slot & _ & E2 & _). rewrite E2 in E. inversion E. eauto.
  - right; left. rewrite (at_main _ _ _ _ HLp) in E. inversion E. auto.
  - right; right. destruct (Nat.eq_dec t (S N)) as [ -> |Hne].
    + rewrite (at_cons _ _ _ _ HLp) in E. inversion E. auto.
    + rewrite (at_none _ _ _ _ HLp) in E by lia. discriminate.
Qed.

Lemma prod_wants_send c0 r d c i : wants PV (TProd c0 r d) = WSend c i -> c = c0.
Proof. destruct d, r; cbn; intros W; try discriminate. inversion W; auto. Qed.
Lemma prod_wants_recv c0 r d c : wants PV (TProd c0 r d) = WRecv c -> False.
Proof. destruct d, r; cbn; intros W; discriminate. Qed.
Lemma prod_wants_sel c0 r d cs0 : wants PV (TProd c0 r d) = WSel cs0 -> False.
Proof. destruct d, r; cbn; intros W; discriminate. Qed.
Lemma cons_wants_send c0 l d c i : wants PV (TCons c0 l d) = WSend c i -> False.
Proof. destruct d; cbn; intros W; discriminate. Qed.
Lemma cons_wants_recv c0 l d c : wants PV (TCons c0 l d) = WRecv c -> c = c0.
Proof. destruct d; cbn; intros W; try discriminate. inversion W; auto. Qed.
Lemma cons_wants_sel c0 l d cs0 : wants PV (TCons c0 l d) = WSel cs0 -> False.
Proof. destruct d; cbn; intros W; discriminate. Qed.
Lemma main_wants_recv p c : Cond p -> wants PV (TProg 0 (mpc p) (menv p)) = WRecv c -> False.
Proof.
  intros C W. rewrite (main_wants p C) in W.
  destruct (ploc p) as [t| |i off| | |]; try discriminate. destruct off as [|[|[|[|off]]]]; discriminate.
Qed.
Lemma main_wants_send p c x : Cond p -> wants PV (TProg 0 (mpc p) (menv p)) = WSend c x -> c = N.
Proof.
  intros C W. rewrite (main_wants p C) in W.
  destruct (ploc p) as [t| |i off| | |]; try discriminate. destruct off as [|[|[|[|off]]]]; try discriminate.
  inversion W; auto.
Qed.

Lemma syncsel_inv2 s sn rn k s' :
  step f PV s (SyncSel sn rn k) = Some s' ->
  sn <> rn /\ exists ts tr c i cs0,
    nth_error (thr s) sn = Some ts /\ nth_error (thr s) rn = Some tr /\
    wants PV ts = WSend c i /\ wants PV tr = WSel cs0 /\ nth_error cs0 k = Some (Some c).
Proof.
  unfold step. destruct (panicked s); [discriminate|].
  destruct (sn =? rn) eqn:E; [discriminate|]. apply Nat.eqb_neq in E.
  destruct (nth_error (thr s) sn) as [ts|]; [|discriminate].
  destruct (nth_error (thr s) rn) as [tr|]; [|discriminate].
  destruct (wants PV ts) eqn:Ws; try discriminate.
  destruct (wants PV tr) eqn:Wr; try discriminate.
  destruct (nth_error cs k) as [[c'|]|] eqn:Ek; try discriminate.
  destruct (c =? c') eqn:Ec; [|discriminate]. apply Nat.eqb_eq in Ec; subst c'.
  intros _. split; [exact E|]. exists ts, tr, c, i, cs. auto.
Qed.

Lemma step_any p a s' : Cond p -> step f PV (mk p) a = Some s' -> Good p s'.
Proof.
  intros C H. destruct a as [t | sn rn | t k | sn rn k].
  - destruct (lt_eq_lt_dec t N) as [[L| -> ]|L].
    + apply (step_prod p t s' L C H).
    + apply (step_main p s' C H).
    + destruct (Nat.eq_dec t (S N)) as [ -> |Hne]; [apply (step_cons p s' C H)|].
      exfalso. pose proof C as C'. open_cond' C'.
      unfold step in H; cbn [panicked JoinVar.mk thr] in H.
      rewrite (at_none _ _ _ _ HLp) in H by lia. discriminate.
  - pose proof H as H0. apply sync_inv in H0.
    destruct H0 as (Hne & ts & tr & c & i & ch & Es & Er & Ws & Wr & _).
    destruct (thr_class p rn tr C Er) as [(L & r & d & ->)|[(-> & ->)|(-> & ->)]].
    + exfalso. eapply prod_wants_recv; eauto.
    + exfalso. eapply main_wants_recv; eauto.
    + apply cons_wants_recv in Wr. subst c.
      destruct (thr_class p sn ts C Es) as [(L & r & d & ->)|[(-> & ->)|(-> & ->)]].
      * apply prod_wants_send in Ws. lia.
      * apply (step_sync_main_cons p s' C H).
      * exfalso. eapply cons_wants_send; eauto.
  - destruct (Nat.eq_dec t N) as [ -> |Hne]; [apply (step_sel p k s' C H)|].
    exfalso. apply tausel_inv in H. destruct H as (th & cs0 & E & W).
    destruct (thr_class p t th C E) as [(L & r & d & ->)|[(-> & ->)|(-> & ->)]].
    + eapply prod_wants_sel; eauto.
    + auto.
    + eapply cons_wants_sel; eauto.
  - pose proof H as H0. apply syncsel_inv2 in H0.
    destruct H0 as (Hne & ts & tr & c & i & cs0 & Es & Er & Ws & Wr & Ek).
    destruct (thr_class p rn tr C Er) as [(L & r & d & ->)|[(-> & ->)|(-> & ->)]].
    + exfalso. eapply prod_wants_sel; eauto.
    + (* main at the select: case k is input k *)
      rewrite (main_wants p C) in Wr.
      destruct (ploc p) as [t| |i0 off| | |] eqn:El; try discriminate.
      2:{ destruct off as [|[|[|[|off]]]]; discriminate. }
      inversion Wr; subst cs0. clear Wr.
      assert (Hk : k < N).
      { apply nth_error_lt in Ek. rewrite map_length, seq_length in Ek. exact Ek. }
      erewrite map_nth_error in Ek; [|apply nth_error_seq; exact Hk]. cbn [Nat.add] in Ek.
      pose proof C as C'. open_cond' C'.
      destruct (HP k Hk) as (cp & its & r & d & ch & dl & slot & E1 & E2 & E3 & E4 & E5 & E6 & E7 & E8 & E9 & E10 & E11).
      rewrite E6 in Ek. destruct E10 as [->|(-> & _)]; cbn [slot_cid] in Ek; [|discriminate].
      inversion Ek; subst c.
      destruct (thr_class p sn ts C Es) as [(L & r' & d' & ->)|[(-> & ->)|(-> & ->)]].
      * apply prod_wants_send in Ws. subst sn. apply (step_syncsel p k s' Hk C H).
      * congruence.
      * exfalso. eapply cons_wants_send; eauto.
    + exfalso. eapply cons_wants_sel; eauto.
Qed.

End JVP.
