(* Chan/Alias.v — two further classes of input of the join forms (hardening round 5):

   (1) SHARED channels: the inputs a join is given need not be pairwise distinct channels.  The same inner
       channel may arrive twice on the channel of channels, occur twice in the slice, be passed for two
       parameters of the variadic form, or be returned by the second stage of a pipeline for two different
       items.  [init_alias] is Explore.init_state with the hand-over sequence [order] (indexes of the n distinct
       channels, each with its own producer) in place of the identity sequence: the expected IR then runs
       several forwarders (or two select cases) on one channel.  What the property demands of such a run
       ([alias_spec]): every item exactly once, the output closed, and per channel the order is preserved by
       every one of its k receivers, i.e. the output restricted to the items of a channel given k times
       splits into at most k increasing subsequences (for k = 1: the order of the channel).
   (2) ZERO items: the zero value of the element type (0, a nil error, a nil pointer, ...) is an item like
       any other and may be sent several times, so the item lists are no longer duplicate free.  [ileave] is
       the interleaving check that copes with equal items (for duplicate-free pairwise disjoint lists it is
       Explore.interleaved).

   Both are used by Eval19 (specification of the new histories; the model side is trace inclusion against
   [init_alias] / [init_state]), and the bounded statement at the end explores the expected IR on shared
   channels exhaustively.  The all-sizes theorems of JoinCC/JoinSl/JoinVar are about pairwise distinct
   channels; shared channels are covered by the bounded statement and the real-runtime battery only. *)
From Coq Require Import List Arith Bool NArith FSets.FSetPositive.
Import ListNotations.
From Verif Require Import Chan.Sem Chan.Expected Chan.Explore.

(* ---------- (1) shared channels ---------- *)

(* index of the main goroutine in Explore.init_state *)
Definition main_idx (k:kind) (n:nat) : nat :=
  match k with KJoinSl => 0 | KJoinCC => 1 | _ => n end.

(* the channel ids of the n distinct inputs *)
Definition alias_ids (k:kind) (d:fn) (n:nat) : list cid :=
  match k with
  | KFmap | KDup | KJoinVar => seq 0 n
  | _ => seq (nparamch k n + length (fn_outs d)) n
  end.

(* init_state of the n distinct channels of [cfg], handed over in the sequence [order]:
   chan-of-chan form: the outer producer sends that sequence; slice form: the slice is that sequence;
   variadic form (d = exp_join_var (length order)): parameter i is channel order[i] *)
Definition init_alias (k:kind) (d:fn) (cfg:config) (order:list nat) : state :=
  let s0 := init_state k d cfg in
  let n := length (c_inputs cfg) in
  let ids := map (fun o => nth o (alias_ids k d n) 0) order in
  let patch_main (f:list value -> list value) (t:thread) : thread :=
    match t with TProg tm pc e => TProg tm pc (f e) | _ => t end in
  let thr' :=
    match k with
    | KJoinCC => upd (thr s0) 0 (TProd 0 ids false)
    | KJoinSl => upd (thr s0) 0 (patch_main (fun e => upd e 0 (VS ids)) (nth 0 (thr s0) (TProd 0 [] true)))
    | KJoinVar => upd (thr s0) n (patch_main (fun e => map (fun i => VC (Some i)) ids ++ skipn n e)
                                            (nth n (thr s0) (TProd 0 [] true)))
    | _ => thr s0
    end in
  {| thr := thr'; chs := chs s0; wg := wg s0; panicked := panicked s0 |}.

(* the identity sequence is the ordinary initial state *)
Example init_alias_identity :
  let cfg := {| c_inputs := [(0, [11;12]); (1, [21]); (2, [])]; c_outer := 1 |} in
  init_alias KJoinCC exp_join_cc cfg [0;1;2] = init_state KJoinCC exp_join_cc cfg /\
  init_alias KJoinSl exp_join_sl cfg [0;1;2] = init_state KJoinSl exp_join_sl cfg /\
  init_alias KJoinVar (exp_join_var 3) cfg [0;1;2] = init_state KJoinVar (exp_join_var 3) cfg.
Proof. vm_compute. repeat split; reflexivity. Qed.

(* [order] names only the n channels and names every one of them *)
Definition valid_alias (n:nat) (order:list nat) : bool :=
  forallb (fun o => o <? n) order && forallb (fun j => mem_nat j order) (seq 0 n).

Fixpoint increasing (l:list nat) : bool :=
  match l with
  | x :: ((y :: _) as t) => (x <? y) && increasing t
  | _ => true
  end.

(* patience: [tops] (descending) are the last items of the increasing subsequences built so far; x goes on the
   subsequence with the largest last item below x, else it starts a new one.  The number of subsequences is
   minimal (= the longest decreasing subsequence). *)
Fixpoint place (tops:list nat) (x:nat) : list nat :=
  match tops with
  | [] => [x]
  | t :: r => if t <? x then x :: r else t :: place r x
  end.
Definition piles (l:list nat) : nat := length (fold_left place l []).

Example piles_examples :
  piles [] = 0 /\ piles [1;2;3] = 1 /\ piles [2;1;3] = 2 /\ piles [3;1;2] = 2 /\ piles [3;2;1] = 3 /\
  piles [2;1;4;3;6;5] = 2 /\ piles [1;3;2;5;4;7;6] = 2 /\ piles [4;5;6;1;2;3] = 2 /\ piles [5;3;4;1;2] = 3.
Proof. vm_compute. repeat split; reflexivity. Qed.

(* log against n distinct channels (pairwise disjoint, duplicate-free, increasing item lists) of which channel
   j is given (count of j in order) times *)
Definition alias_spec (log:list item) (ins:list (list item)) (order:list nat) : bool :=
  (length log =? length (concat ins)) &&
  forallb (fun '(j, l) =>
             let r := filter (fun x => mem_nat x l) log in
             forallb (fun x => mem_nat x r) l && (piles r <=? count_occ Nat.eq_dec order j))
          (combine (seq 0 (length ins)) ins).

(* with every channel given once it is the interleaving check *)
Example alias_spec_once :
  forallb (fun log => Bool.eqb (alias_spec log [[11;12];[21;22]] [0;1]) (interleaved log [[11;12];[21;22]]))
          [[11;12;21;22]; [21;11;22;12]; [12;11;21;22]; [11;21;22]; [11;12;21;22;22]; [21;22;11;12]; [11;22;21;12]] = true.
Proof. vm_compute. reflexivity. Qed.
Example alias_spec_twice :
  alias_spec [12;11;21;13] [[11;12;13];[21]] [0;1;0] = true /\      (* two receivers on channel 0 *)
  alias_spec [13;12;11;21] [[11;12;13];[21]] [0;1;0] = false /\     (* would need three *)
  alias_spec [12;11;21] [[11;12;13];[21]] [0;1;0] = false /\        (* 13 lost *)
  alias_spec [11;12;13;21;21] [[11;12;13];[21]] [0;1;0] = false /\  (* 21 twice *)
  alias_spec [11;12;21;13] [[11;12;13];[21]] [1;0;1] = true /\
  alias_spec [12;11;21;13] [[11;12;13];[21]] [1;0;1] = false.       (* channel 0 given once: its order *)
Proof. vm_compute. repeat split; reflexivity. Qed.

Definition good_alias (k:kind) (d:fn) (cfg:config) (order:list nat) (s:state) : bool :=
  let ins := map snd (c_inputs cfg) in
  let ci := S (main_idx k (length ins)) in
  alias_spec (cons_log s ci) ins order && cons_done s ci.

Definition search_alias (k:kind) (d:fn) (cfg:config) (order:list nat) (fuel:nat) : sstate :=
  dfs fx (fn_progs d) (good_alias k d cfg order) fuel (init_alias k d cfg order) []
      PositiveSet.empty {| black := PositiveSet.empty; found := None; count := 0%N |}.

Definition alias_some (k:kind) (d:fn) (cases:list (config * list nat)) (fuel:nat)
  : option (config * list nat * nat * list action) :=
  fold_left (fun acc '(cfg, order) =>
    match acc with
    | Some _ => acc
    | None => match found (search_alias k d cfg order fuel) with
              | Some (why, sched) => Some (cfg, order, why, sched)
              | None => None
              end
    end) cases None.

Definition none_found' {A} (o:option A) : bool := match o with None => true | Some _ => false end.

(* ---------- (2) equal items ---------- *)

Definition is_nil {A} (l:list A) : bool := match l with [] => true | _ => false end.

(* log is an interleaving of the lists ins (equal items allowed: every choice of the input an item is taken
   from is tried) *)
Fixpoint ileave (log:list item) (ins:list (list item)) : bool :=
  match log with
  | [] => forallb is_nil ins
  | x :: log' =>
      existsb (fun j => match nth j ins [] with
                        | y :: r => (x =? y) && ileave log' (upd ins j r)
                        | [] => false
                        end) (seq 0 (length ins))
  end.

Example ileave_is_interleaved :
  forallb (fun log => Bool.eqb (ileave log [[11;12];[21;22];[]]) (interleaved log [[11;12];[21;22];[]]))
          [[11;12;21;22]; [21;11;22;12]; [12;11;21;22]; [11;21;22]; [11;12;21;22;22]; [21;22;11;12]; [11;22;21;12]; []] = true.
Proof. vm_compute. reflexivity. Qed.
Example ileave_equal_items :
  ileave [0;0;11;0;21;0] [[0;11;0];[0;21];[0]] = true /\
  ileave [0;0;0;11;0;21] [[0;11;0];[0;21];[0]] = true /\
  ileave [11;0;0;0;0;21] [[0;11;0];[0;21];[0]] = false /\      (* 11 before the zero in front of it *)
  ileave [0;0;11;0;21] [[0;11;0];[0;21];[0]] = false /\        (* a zero lost *)
  ileave [0;0;11;0;21;0;0] [[0;11;0];[0;21];[0]] = false /\    (* one too many *)
  ileave [0;0;0] [[0;0;0]] = true /\ ileave [] [[];[]] = true /\ ileave [] [[0]] = false.
Proof. vm_compute. repeat split; reflexivity. Qed.

(* duplicate freedom of the non-zero items *)
Definition nonzero (l:list item) : list item := filter (fun x => negb (x =? 0)) l.

(* ---------- bounded statement: the expected IR on shared channels ---------- *)
(* every interleaving of: one channel given twice / three times, a shared and an unshared channel in every
   position, buffered and unbuffered, 0..2 items; nothing is lost or duplicated, the output is closed, nothing
   panics (in particular the WaitGroup counter), nobody is left, and the order is that of alias_spec *)
Definition mkcfg (caps:list nat) (lens:list nat) (outer:nat) : config :=
  {| c_inputs := map (fun '(j, (c, m)) => (c, items_of j m)) (combine (seq 0 (length lens)) (combine caps lens));
     c_outer := outer |}.

Definition alias_cases_cc : list (config * list nat) :=
  [ (mkcfg [0] [0] 0, [0;0]); (mkcfg [0] [1] 0, [0;0]); (mkcfg [0] [2] 0, [0;0]); (mkcfg [1] [2] 1, [0;0]);
    (mkcfg [0] [2] 0, [0;0;0]); (mkcfg [2] [2] 2, [0;0;0]);
    (mkcfg [0;0] [2;1] 0, [0;1;0]); (mkcfg [0;0] [1;1] 1, [0;0;1]); (mkcfg [0;1] [1;2] 0, [1;0;1]) ].
Definition alias_cases_sl : list (config * list nat) :=
  [ (mkcfg [0] [0] 0, [0;0]); (mkcfg [0] [1] 0, [0;0]); (mkcfg [0] [2] 0, [0;0]); (mkcfg [1] [2] 0, [0;0]);
    (mkcfg [0] [2] 0, [0;0;0]); (mkcfg [2] [2] 0, [0;0;0]);
    (mkcfg [0;0] [2;1] 0, [0;1;0]); (mkcfg [0;0] [1;1] 0, [0;0;1]); (mkcfg [0;1] [1;2] 0, [1;0;1]) ].
Definition alias_cases_v2 : list (config * list nat) :=
  [ (mkcfg [0] [0] 0, [0;0]); (mkcfg [0] [1] 0, [0;0]); (mkcfg [0] [2] 0, [0;0]); (mkcfg [1] [3] 0, [0;0]) ].
Definition alias_cases_v3 : list (config * list nat) :=
  [ (mkcfg [0] [2] 0, [0;0;0]); (mkcfg [0;0] [2;1] 0, [0;1;0]); (mkcfg [0;1] [1;1] 0, [0;0;1]);
    (mkcfg [1;0] [1;2] 0, [1;0;1]) ].

Example alias_cases_valid :
  forallb (fun '(cfg, order) => valid_alias (length (c_inputs cfg)) order)
          (alias_cases_cc ++ alias_cases_sl ++ alias_cases_v2 ++ alias_cases_v3) = true.
Proof. vm_compute. reflexivity. Qed.

Lemma join_alias_bounded :
  none_found' (alias_some KJoinCC exp_join_cc alias_cases_cc 2000) = true /\
  none_found' (alias_some KJoinSl exp_join_sl alias_cases_sl 2000) = true /\
  none_found' (alias_some KJoinVar (exp_join_var 2) alias_cases_v2 2000) = true /\
  none_found' (alias_some KJoinVar (exp_join_var 3) alias_cases_v3 2000) = true.
Proof. vm_cast_no_check (conj (eq_refl true) (conj (eq_refl true) (conj (eq_refl true) (eq_refl true)))). Qed.
