(* Chan/Expected.v — the IR that the translator (harness/internal/c19) is expected to produce
   from the channel combinators emitted by the current goderive, and about which the theorems
   of this directory are proved.  Each run re-translates the freshly generated derived.gen.go
   and checks  translated = expected  inside Coq (eq_refl).

   Layout rules of the translator (canonical, independent of identifier names):
   * variables of the goroutine started by the derived function are numbered: the non-function
     parameters in order, the channels made by the function in order, then the locals of the
     goroutine in order of declaration (a `range` over a channel declares its variable and
     then a hidden `ok`);  a nested `go func(){..}()` is a further template whose variables are
     the captured variables in order of first use, then its locals;
   * `for x := range ch {S}`    =>  h: Recv ch x ok; Br ok (h+2) exit; S; Jmp h; exit:
   * `for _, x := range sl {S}` =>  h: Next sl x (h+1) exit; S; Jmp h; exit:
   * `for a != nil || b != nil {S}` => h: BrNil a (h+1) body; BrNil b exit body; body: S; Jmp h; exit:
   * `select {case v, ok := <-c: S ...}` => Select [(c,v,ok,p0);...]; p0: S0; Jmp end; p1: S1; Jmp end; end:
   * `if !ok {A} else {B}`      =>  Br ok pB pA; pA: A; Jmp end; pB: B; end:
   * the WaitGroup declaration emits nothing; Add(1)/Done()/Wait() => WgAdd/WgDone/WgWait;
   * the end of a goroutine body => Halt. *)
From Coq Require Import List Arith.
Import ListNotations.
From Verif Require Import Chan.Sem.

Inductive capspec := CapZero | CapOf (param:nat).      (* make(chan T)  |  make(chan T, cap(p)) *)
Inductive pkind := PChan | PChanChan | PSliceChan.      (* kind of a non-function parameter *)

(* a derived function:  outs := make...; go template 0; return outs *)
Record fn := {
  fn_params : list pkind;
  fn_outs : list capspec;
  fn_nloc : nat;
  fn_ret : list var;
  fn_progs : list prog }.

(* deriveFmap(f, in <-chan A) <-chan B      vars: 0 in, 1 out, 2 a, 3 ok, 4 b *)
Definition fmap_main : prog :=
  [ Recv 0 2 3; Br 3 2 5; App 4 2; Send 1 4; Jmp 0; Close 1; Halt ].
Definition exp_fmap : fn :=
  {| fn_params := [PChan]; fn_outs := [CapOf 0]; fn_nloc := 3; fn_ret := [1];
     fn_progs := [fmap_main] |}.

(* deriveDup(c chan T) (c1, c2 <-chan T)    vars: 0 c, 1 cc1, 2 cc2, 3 v, 4 ok *)
Definition dup_main : prog :=
  [ Recv 0 3 4; Br 4 2 5; Send 1 3; Send 2 3; Jmp 0; Close 1; Close 2; Halt ].
Definition exp_dup : fn :=
  {| fn_params := [PChan]; fn_outs := [CapOf 0; CapOf 0]; fn_nloc := 2; fn_ret := [1; 2];
     fn_progs := [dup_main] |}.

(* the forwarding goroutine of the WaitGroup forms    vars: 0 res, 1 out, 2 r, 3 ok *)
Definition fwd_prog : prog :=
  [ Recv 0 2 3; Br 3 2 4; Send 1 2; Jmp 0; WgDone; Halt ].

(* deriveJoin(in <-chan (<-chan T)) <-chan T    vars: 0 in, 1 out, 2 c, 3 ok, 4 res *)
Definition joincc_main : prog :=
  [ RecvC 0 2 3; Br 3 2 6; WgAdd; Mov 4 2; Spawn 1 [4; 1] 2; Jmp 0; WgWait; Close 1; Halt ].
Definition exp_join_cc : fn :=
  {| fn_params := [PChanChan]; fn_outs := [CapZero]; fn_nloc := 3; fn_ret := [1];
     fn_progs := [joincc_main; fwd_prog] |}.

(* deriveJoin(in []<-chan T) <-chan T           vars: 0 in, 1 out, 2 c, 3 res *)
Definition joinsl_main : prog :=
  [ Next 0 2 1 5; WgAdd; Mov 3 2; Spawn 1 [3; 1] 2; Jmp 0; WgWait; Close 1; Halt ].
Definition exp_join_sl : fn :=
  {| fn_params := [PSliceChan]; fn_outs := [CapZero]; fn_nloc := 2; fn_ret := [1];
     fn_progs := [joinsl_main; fwd_prog] |}.

(* deriveJoin(c0 chan T, ..., c(n-1) chan T) <-chan T
   vars: i = c_i (i<n), n = out, n+1+2i = v_i, n+2+2i = ok_i
   pcs:  0..n-1 the nil tests; n the select; case i at n+1+5i; n+1+5n: Jmp 0; then Close; Halt *)
Definition var_case_pc (n i:nat) : nat := n + 1 + 5 * i.
Definition var_end (n:nat) : nat := n + 1 + 5 * n.
Definition var_nil_tests (n:nat) : list instr :=
  map (fun i => BrNil i (if S i =? n then S (var_end n) else S i) n) (seq 0 n).
Definition var_case (n i:nat) : list instr :=
  let b := var_case_pc n i in
  [ Br (n + 2 + 2 * i) (b + 3) (b + 1);      (* if !ok_i *)
    SetNil i; Jmp (b + 4);                   (*   c_i = nil *)
    Send n (n + 1 + 2 * i);                  (* else out <- v_i *)
    Jmp (var_end n) ].                       (* end of the case *)
Definition joinvar_main (n:nat) : prog :=
  var_nil_tests n ++
  [ Select (map (fun i => (i, n + 1 + 2 * i, n + 2 + 2 * i, var_case_pc n i)) (seq 0 n)) ] ++
  flat_map (var_case n) (seq 0 n) ++
  [ Jmp 0; Close n; Halt ].
Definition exp_join_var (n:nat) : fn :=
  {| fn_params := repeat PChan n; fn_outs := [CapZero]; fn_nloc := 2 * n; fn_ret := [n];
     fn_progs := [joinvar_main n] |}.

(* derivePipeline(f, g) = func(a) { b := f(a); return deriveJoin(deriveFmap(g, b)) }:
   the translator checks that shape and reports the two callees' translations *)
Definition exp_pipeline : fn * fn := (exp_join_cc, exp_fmap).

(* the concrete variadic programs generated in the scratch package *)
Example joinvar2 : joinvar_main 2 =
  [ BrNil 0 1 2; BrNil 1 14 2;
    Select [(0,3,4,3); (1,5,6,8)];
    Br 4 6 4; SetNil 0; Jmp 7; Send 2 3; Jmp 13;
    Br 6 11 9; SetNil 1; Jmp 12; Send 2 5; Jmp 13;
    Jmp 0; Close 2; Halt ].
Proof. reflexivity. Qed.
