(* Chan/JoinCCProofs.v — deriveJoin(in <-chan (<-chan T)): invariant preservation and measure
   decrease for every action, for all N, all item lists, all capacities, all interleavings. *)
From Coq Require Import List Arith Bool Lia.
Import ListNotations.
From Verif Require Import Chan.Sem Chan.Expected Chan.Lemmas Chan.JoinCC.

Local Arguments Nat.ltb : simpl never.

Ltac inv_some :=
  match goal with
  | H : Some _ = Some _ |- _ => cbn in H; inversion H; subst; clear H
  | H : None = Some _ |- _ => discriminate H
  end.

Ltac light :=
  try assumption; try reflexivity; try (intros; reflexivity); try lia; try discriminate;
  try congruence.
Ltac light2 := try solve [intros; repeat split; light].
Ltac keep_main b HMain :=
  try solve [exists b; split; [assumption|split;
             [first [assumption | (rewrite <- ?app_assoc; assumption)] | exact HMain]]].
Ltac show_goal := match goal with |- ?G => idtac "GOAL:" G end.

Ltac side :=
  intros; subst; rewrite ?app_length in *; cbn [length] in *;
  repeat match goal with
  | E : (_ <? _) = true |- _ => apply Nat.ltb_lt in E
  | E : (_ =? _) = true |- _ => apply Nat.eqb_eq in E
  end;
  try discriminate; try lia;
  repeat match goal with
  | H : ?x = ?x -> _ |- _ => specialize (H eq_refl)
  | H : ?a <= ?b -> _ |- _ => let L := fresh in assert (L : a <= b) by lia; specialize (H L); clear L
  | H : _ /\ _ |- _ => destruct H
  | H : _ <-> _ |- _ => destruct H
  end;
  subst; try discriminate; try lia; try congruence; auto;
  try solve [intuition (subst; try discriminate; try lia; try congruence)].

Ltac open_inv H :=
  let p := fresh "p" in let C := fresh "C" in
  intros [p [-> C]] H;
  destruct C as (HLp & HLc & HLd & HK & HP & HM & (b & Hb & Hseq & HMain) & Hpd & Hrem & Hpc & Hoc & Hcd & Hw & H7 & Hli & Hlo);
  destruct p as [orem0 opd0 ibuf0 ic0 mpc0 mc0 mok0 mres0 ob0 oc0 log0 cd0 w0 prods0 chans0 fwds0 dls0];
  cbn [orem opd ibuf ic mpc mc mok mres ob oc log cd w prods chans fwds dls] in *.

Ltac new_state d :=
  eexists (Build_params _ _ _ _ _ _ _ _ _ _ _ _ _ _ _ _ d); split; [unfold mk; cbn; reflexivity|].

Tactic Notation "new_state4" uconstr(P) uconstr(C) uconstr(F) uconstr(D) :=
  eexists (Build_params _ _ _ _ _ _ _ _ _ _ _ _ _ P C F D); split;
  [unfold mk, add_thr, set_thr, set_ch, set_wg; cbn; rewrite <- ?app_assoc; cbn; reflexivity|].

(* the 16 conjuncts of Cond, in order *)
Ltac split_cond :=
  unfold Cond; cbn [orem opd ibuf ic mpc mc mok mres ob oc log cd w prods chans fwds dls];
  cbn [wg set_thr set_ch set_wg add_thr];
  split; [|split; [|split; [|split; [|split; [|split; [|split; [|split; [|split; [|split; [|split; [|split; [|split; [|split; [|split]]]]]]]]]]]]]].

Ltac pcs9 pc0 := destruct pc0 as [|[|[|[|[|[|[|[|[|pc0]]]]]]]]]; try lia.

Ltac mu_base := unfold mu, mk; cbn [thr chs]; unfold sumw; cbn; rewrite ?map_app, ?list_sum_app; cbn;
  rewrite ?app_length; cbn; try lia.

Section JCCP.
Variable f : item -> item.
Variable inputs : list (nat * list item).
Variables cin cout : nat.

Notation Inv := (Inv inputs cin cout).
Notation mk := (mk cin cout).
Notation N := (N inputs).

Lemma seq_cons_inv a n i r l : i :: r ++ l = seq a n -> i = a /\ r ++ l = seq (S a) (n - 1) /\ 1 <= n.
Proof. destruct n; cbn; intros H; [discriminate|]. inversion H; subst. rewrite Nat.sub_0_r. auto with arith. Qed.

(* ---------- the outer producer ---------- *)
Lemma step_outer s s' : Inv s -> step f PJ s (Tau 0) = Some s' -> Inv s' /\ mu s' < mu s.
Proof.
  open_inv H. unfold step in H; cbn [panicked mk] in H. cbn in H.
  destruct opd0; [destruct orem0; cbn in H; discriminate|].
  destruct orem0 as [|i r]; cbn in H.
  - destruct ic0; [discriminate Hpd|]. inv_some. split.
    + new_state dls0. split_cond. all: light.
      exists b. repeat split; auto. unfold MainI in *; cbn in *.
      pcs9 mpc0; try assumption; try solve [side].
      destruct (match mok0 with VB b0 => b0 | _ => false end); side.
    + mu_base.
  - destruct ic0; [discriminate Hpd|].
    destruct (length ibuf0 <? cin) eqn:E; cbn in H; [|discriminate]. inv_some. split.
    + new_state dls0. split_cond. all: light.
      * exists b. repeat split; auto.
        -- rewrite <- app_assoc. exact Hseq.
        -- unfold MainI in *; cbn in *.
           pcs9 mpc0; try assumption; try solve [side].
           destruct (match mok0 with VB b0 => b0 | _ => false end); side.
      * side.
    + mu_base.
Qed.

(* ---------- the consumer ---------- *)
Lemma step_cons s s' : Inv s -> step f PJ s (Tau 2) = Some s' -> Inv s' /\ mu s' < mu s.
Proof.
  open_inv H. unfold step in H; cbn [panicked mk] in H. cbn in H.
  destruct cd0; [discriminate|]. cbn in H.
  destruct ob0 as [|i r].
  - destruct oc0; [|discriminate]. inv_some. split.
    + new_state dls0. split_cond. all: light. all: light2. all: keep_main b HMain. all: show_goal.
    + mu_base.
  - inv_some. split.
    + new_state dls0. split_cond. all: light. all: light2. all: keep_main b HMain.
      * rewrite <- app_assoc. exact HM.
      * cbn in Hlo. lia.
    + mu_base.
Qed.

(* ---------- the goroutine started by deriveJoin ---------- *)
Lemma fwds_snoc_pool prods0 chans0 fwds0 dls0 j :
  j < N -> length fwds0 < N ->
  PoolI inputs prods0 chans0 fwds0 dls0 j ->
  PoolI inputs prods0 chans0 (fwds0 ++ [fwd_thr (length fwds0) 0 0 (VI 0)]) dls0 j.
Proof.
  intros Hj HK (cp & its & r & d & ch & dl & E1 & E2 & E3 & E4 & E5 & E6 & E7 & E8 & HF).
  exists cp, its, r, d, ch, dl. repeat split; auto.
  destruct (Nat.lt_trichotomy j (length fwds0)) as [L|[L|L]].
  - rewrite nth_error_app1 by auto. exact HF.
  - subst j. rewrite nth_error_snoc.
    assert (En : nth_error fwds0 (length fwds0) = None) by (apply nth_error_None; lia).
    rewrite En in HF. cbn in HF. destruct HF as [-> ->].
    cbn. exists 0, 0, (VI 0). repeat split; auto; try lia; intros; try lia; discriminate.
  - assert (En : nth_error fwds0 j = None) by (apply nth_error_None; lia).
    rewrite En in HF.
    assert (En' : nth_error (fwds0 ++ [fwd_thr (length fwds0) 0 0 (VI 0)]) j = None).
    { apply nth_error_None. rewrite app_length. cbn. lia. }
    rewrite En'. exact HF.
Qed.

Ltac main_case b HMain :=
  unfold MainI in *; cbn in *; exists b; repeat split; auto; try lia; try solve [side].

Ltac auto_cond b HMain :=
  split_cond; [> light; light2; try solve [cbn; lia]; try solve [main_case b HMain]; try solve [side] ..].

Lemma step_main s s' : Inv s -> step f PJ s (Tau 1) = Some s' -> Inv s' /\ mu s' < mu s.
Proof.
  open_inv H. unfold step in H; cbn [panicked mk] in H. cbn in H.
  pcs9 mpc0; cbn in H.
  - (* 0: c, ok := <-in *)
    destruct ibuf0 as [|i r].
    + destruct ic0; [|discriminate]. inv_some. split.
      * new_state dls0. split_cond. all: light. all: light2.
        -- main_case b HMain.
        -- side.
      * mu_base.
    + inv_some. cbn in Hseq. apply seq_cons_inv in Hseq. destruct Hseq as (Hi & Hseq & Hn1). split.
      * new_state dls0. split_cond. all: light. all: light2.
        -- unfold MainI in *; cbn in *. exists (S b). subst i.
           repeat split; auto; try lia.
           replace (N - S b) with (N - b - 1) by lia. exact Hseq.
           rewrite HMain. reflexivity.
        -- side.
        -- cbn in Hli. lia.
      * mu_base.
  - (* 1: if ok *)
    inv_some. split.
    + new_state dls0. split_cond. all: light. all: light2.
      * unfold MainI in *; cbn in *. exists b.
        destruct (match mok0 with VB b0 => b0 | _ => false end); cbn; repeat split; auto; side.
      * destruct (match mok0 with VB b0 => b0 | _ => false end); cbn; lia.
      * destruct (match mok0 with VB b0 => b0 | _ => false end); cbn; side.
      * destruct (match mok0 with VB b0 => b0 | _ => false end); cbn; reflexivity.
      * destruct (match mok0 with VB b0 => b0 | _ => false end); cbn; side.
    + mu_base. destruct (match mok0 with VB b0 => b0 | _ => false end); cbn; lia.
  - (* 2: wait.Add(1) *)
    inv_some. split.
    + new_state dls0. auto_cond b HMain.
    + mu_base.
  - (* 3: res := c *)
    inv_some. split.
    + new_state dls0. auto_cond b HMain.
    + mu_base.
  - (* 4: go forwarder(res) *)
    inv_some. unfold MainI in HMain; cbn in HMain. destruct HMain as [HSK Hres]. subst mres0. split.
    + new_state4 prods0 chans0 (fwds0 ++ [fwd_thr (length fwds0) 0 0 (VI 0)]) dls0.
      split_cond. all: light. all: light2.
      * rewrite app_length; cbn; lia.
      * intros j Hj. apply fwds_snoc_pool; auto. lia.
      * unfold MainI; cbn. exists b. rewrite app_length; cbn. repeat split; auto; lia.
      * side.
      * unfold sumw; rewrite map_app, list_sum_app; cbn; lia.
    + mu_base.
  - (* 5: loop *)
    inv_some. split.
    + new_state dls0. auto_cond b HMain.
    + mu_base.
  - (* 6: wait.Wait() *)
    destruct w0 eqn:Ew; [|discriminate]. inv_some. split.
    + new_state dls0. auto_cond b HMain. all: show_goal.
    + mu_base.
  - (* 7: close(out) *)
    destruct oc0; [side|]. inv_some. split.
    + new_state dls0. auto_cond b HMain. all: show_goal.
    + mu_base.
  - discriminate.
Qed.

End JCCP.
