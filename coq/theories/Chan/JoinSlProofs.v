(* Chan/JoinSlProofs.v — deriveJoin(in []<-chan T): invariant preservation and measure decrease for
   every action, for all N, all item lists, all capacities, all interleavings
   (a port of JoinCCProofs.v: no outer channel; `Next` pops the slice). *)
From Coq Require Import List Arith Bool Lia.
Import ListNotations.
From Verif Require Import Chan.Sem Chan.Expected Chan.Lemmas Chan.JoinSl.

Local Arguments Nat.ltb : simpl never.
Local Arguments JoinSl.N : simpl never.

Ltac inv_some :=
  match goal with
  | H : Some _ = Some _ |- _ => cbn in H; inversion H; subst; clear H
  | H : None = Some _ |- _ => discriminate H
  end.

Ltac light :=
  try assumption; try reflexivity; try (intros; reflexivity); try lia; try discriminate;
  try congruence.
Ltac light2 := try solve [intros; repeat split; light].
Ltac norm_state :=
  unfold set_ch, set_thr, set_wg, add_thr, JoinSl.mk;
  cbn [thr chs wg panicked upd srem mpc mc mres ob oc log cd w prods chans fwds dls].
Ltac show_goal := match goal with |- ?G => idtac "GOAL:" G end.

Ltac side :=
  intros; subst; rewrite ?app_length in *; cbn [length] in *;
  repeat match goal with
  | E : (_ <? _) = true |- _ => apply Nat.ltb_lt in E
  | E : (_ =? _) = true |- _ => apply Nat.eqb_eq in E
  end;
  try discriminate; try lia;
  repeat match goal with
  | H : ?x = ?x -> _ |- _ => specialize (H eq_refl)
  | H : ?a <= ?b -> _ |- _ => let L := fresh in assert (L : a <= b) by lia; specialize (H L); clear L
  | H : _ /\ _ |- _ => destruct H
  | H : _ <-> _ |- _ => destruct H
  end;
  subst; try discriminate; try lia; try congruence; auto;
  try solve [intuition (subst; try discriminate; try lia; try congruence)].

Ltac open_inv H :=
  let p := fresh "p" in let C := fresh "C" in
  intros [p [-> C]] H;
  destruct C as (HLp & HLc & HLd & HK & HP & HM & (b & Hb & Hseq & HMain) & Hpc & Hoc & Hcd & Hw & H7 & Hlo);
  destruct p as [srem0 mpc0 mc0 mres0 ob0 oc0 log0 cd0 w0 prods0 chans0 fwds0 dls0];
  cbn [srem mpc mc mres ob oc log cd w prods chans fwds dls] in *.

Ltac new_state d :=
  eexists (Build_params _ _ _ _ _ _ _ _ _ _ _ _ d); split; [unfold mk; cbn; reflexivity|].

Tactic Notation "new_state4" uconstr(P) uconstr(C) uconstr(F) uconstr(D) :=
  eexists (Build_params _ _ _ _ _ _ _ _ _ P C F D); split;
  [unfold mk, add_thr, set_thr, set_ch, set_wg; cbn; rewrite <- ?app_assoc; cbn; reflexivity|].

(* the 13 conjuncts of Cond, in order *)
Ltac split_cond :=
  unfold Cond; cbn [srem mpc mc mres ob oc log cd w prods chans fwds dls];
  cbn [wg set_thr set_ch set_wg add_thr];
  split; [|split; [|split; [|split; [|split; [|split; [|split; [|split; [|split; [|split; [|split; [|split]]]]]]]]]]].

Ltac pcs8 pc0 := destruct pc0 as [|[|[|[|[|[|[|[|pc0]]]]]]]]; try lia.
Ltac pcs6 pc0 := destruct pc0 as [|[|[|[|[|[|pc0]]]]]]; try lia.

Ltac mu_base := unfold fwd_thr in *; cbn [Nat.add] in *; unfold mu, mk; cbn [thr chs]; unfold sumw; cbn; rewrite ?map_app, ?list_sum_app; cbn;
  rewrite ?app_length; cbn; try lia.

Ltac main_case b HMain :=
  unfold MainI in *; cbn in *; exists b; repeat split; auto; try lia; try solve [side].

Ltac auto_cond b HMain :=
  split_cond; [> unfold sumw in *; light; light2; try solve [cbn; lia]; try solve [main_case b HMain]; try solve [side] ..].

Section JSLP.
Variable f : item -> item.
Variable inputs : list (nat * list item).
Variable cout : nat.

Notation Inv := (Inv inputs cout).
Notation mk := (mk cout).
Notation N := (N inputs).

Lemma seq_cons_inv a n i r : i :: r = seq a n -> i = a /\ r = seq (S a) (n - 1) /\ 1 <= n.
Proof. destruct n; cbn; intros H; [discriminate|]. inversion H; subst. rewrite Nat.sub_0_r. auto with arith. Qed.

(* ---------- the consumer ---------- *)
Lemma step_cons s s' : Inv s -> step f PS s (Tau 1) = Some s' -> Inv s' /\ mu s' < mu s.
Proof.
  open_inv H. unfold step in H; cbn [panicked mk] in H. cbn in H.
  destruct cd0; [discriminate|]. cbn in H.
  destruct ob0 as [|i r].
  - destruct oc0; [|discriminate]. inv_some. split.
    + new_state dls0. auto_cond b HMain.
    + mu_base.
  - inv_some. split.
    + new_state dls0. auto_cond b HMain.
      * rewrite <- app_assoc. exact HM.
    + mu_base.
Qed.

Lemma fwds_snoc_pool prods0 chans0 fwds0 dls0 j :
  j < N -> length fwds0 < N ->
  PoolI inputs prods0 chans0 fwds0 dls0 j ->
  PoolI inputs prods0 chans0 (fwds0 ++ [fwd_thr (length fwds0) 0 0 (VI 0)]) dls0 j.
Proof.
  intros Hj HK (cp & its & r & d & ch & dl & E1 & E2 & E3 & E4 & E5 & E6 & E7 & E8 & HF).
  exists cp, its, r, d, ch, dl. repeat split; auto.
  destruct (Nat.lt_trichotomy j (length fwds0)) as [L|[L|L]].
  - rewrite nth_error_app1 by auto. exact HF.
  - subst j. rewrite nth_error_snoc.
    assert (En : nth_error fwds0 (length fwds0) = None) by (apply nth_error_None; lia).
    rewrite En in HF. cbn in HF. destruct HF as [-> ->].
    cbn. exists 0, 0, (VI 0). repeat split; auto; try lia; intros; try lia; discriminate.
  - assert (En : nth_error fwds0 j = None) by (apply nth_error_None; lia).
    rewrite En in HF.
    assert (En' : nth_error (fwds0 ++ [fwd_thr (length fwds0) 0 0 (VI 0)]) j = None).
    { apply nth_error_None. rewrite app_length. cbn. lia. }
    rewrite En'. exact HF.
Qed.

(* ---------- the goroutine started by deriveJoin ---------- *)
Lemma step_main s s' : Inv s -> step f PS s (Tau 0) = Some s' -> Inv s' /\ mu s' < mu s.
Proof.
  open_inv H. unfold step in H; cbn [panicked mk] in H. cbn in H.
  pcs8 mpc0; cbn in H.
  - (* 0: for _, c := range in *)
    destruct srem0 as [|i r].
    + inv_some. split.
      * new_state dls0. auto_cond b HMain.
      * mu_base.
    + inv_some. apply seq_cons_inv in Hseq. destruct Hseq as (Hi & Hseq & Hn1). split.
      * new_state dls0. split_cond. all: light. all: light2.
        -- unfold MainI in *; cbn in *. exists (S b). subst i.
           repeat split; auto; try lia.
           replace (N - S b) with (N - b - 1) by lia. exact Hseq.
           rewrite HMain. reflexivity.
        -- side.
      * mu_base.
  - (* 1: wait.Add(1) *)
    inv_some. split.
    + new_state dls0. auto_cond b HMain.
    + mu_base.
  - (* 2: res := c *)
    inv_some. split.
    + new_state dls0. auto_cond b HMain.
    + mu_base.
  - (* 3: go forwarder(res) *)
    inv_some. unfold MainI in HMain; cbn in HMain. destruct HMain as [HSK Hres]. subst mres0. split.
    + new_state4 prods0 chans0 (fwds0 ++ [fwd_thr (length fwds0) 0 0 (VI 0)]) dls0.
      split_cond. all: light. all: light2.
      * rewrite app_length; cbn; lia.
      * intros j Hj. apply fwds_snoc_pool; auto. lia.
      * unfold MainI; cbn. exists b. rewrite app_length; cbn. repeat split; auto; lia.
      * side.
      * unfold sumw; rewrite map_app, list_sum_app; cbn; lia.
    + mu_base.
  - (* 4: loop *)
    inv_some. split.
    + new_state dls0. auto_cond b HMain.
    + mu_base.
  - (* 5: wait.Wait() *)
    destruct w0 eqn:Ew; [|discriminate]. inv_some. split.
    + new_state dls0. auto_cond b HMain.
    + mu_base.
  - (* 6: close(out) *)
    destruct oc0; [side|]. inv_some. split.
    + new_state dls0. auto_cond b HMain.
    + mu_base.
  - discriminate.
Qed.

(* ---------- frame: an update at index n leaves the pool invariant of j <> n intact ---------- *)
Definition oupd {A} (l:list A) (n:nat) (o:option A) : list A :=
  match o with Some a => upd l n a | None => l end.

Lemma nth_error_oupd_neq {A} (l:list A) n m o : n <> m -> nth_error (oupd l n o) m = nth_error l m.
Proof. intros H. destruct o; cbn; [apply nth_error_upd_neq; auto|reflexivity]. Qed.

Lemma pool_frame prods0 chans0 fwds0 dls0 n op oc of od j :
  j <> n -> PoolI inputs prods0 chans0 fwds0 dls0 j ->
  PoolI inputs (oupd prods0 n op) (oupd chans0 n oc) (oupd fwds0 n of) (oupd dls0 n od) j.
Proof.
  intros Hne (cp & its & r & d & ch & dl & E1 & E2 & E3 & E4 & E5 & E6 & E7 & E8 & HF).
  exists cp, its, r, d, ch, dl. rewrite !nth_error_oupd_neq by auto. repeat split; auto.
Qed.

Ltac frame_or n :=
  let j := fresh "j" in let Hj := fresh "Hj" in let Hne := fresh "Hne" in
  intros j Hj; destruct (Nat.eq_dec j n) as [->|Hne];
  [|match goal with
    | HP : forall j, j < _ -> PoolI _ ?p ?c ?fw ?d j |- PoolI _ ?p' ?c' ?fw' ?d' _ =>
        first [ exact (pool_frame p c fw d n None None None None j Hne (HP j Hj))
              | exact (pool_frame p c fw d n (Some _) None None None j Hne (HP j Hj))
              | exact (pool_frame p c fw d n (Some _) (Some _) None None j Hne (HP j Hj))
              | exact (pool_frame p c fw d n None (Some _) (Some _) None j Hne (HP j Hj))
              | exact (pool_frame p c fw d n None None (Some _) None j Hne (HP j Hj))
              | exact (pool_frame p c fw d n None None (Some _) (Some _) j Hne (HP j Hj))
              | exact (pool_frame p c fw d n (Some _) None (Some _) None j Hne (HP j Hj)) ]
    end].

(* ---------- inner producer n ---------- *)
Lemma step_prod s s' n :
  n < N -> Inv s -> step f PS s (Tau (2 + n)) = Some s' -> Inv s' /\ mu s' < mu s.
Proof.
  intros Hn. open_inv H. unfold step in H; cbn [panicked mk] in H. cbn in H.
  rewrite nth_error_app1 in H by lia.
  destruct (HP n Hn) as (cp & its & r & d & ch & dl & E1 & E2 & E3 & E4 & E5 & E6 & E7 & E8 & HF).
  rewrite E2 in H. cbn in H. destruct ch as [chcap chbuf chcl]. cbn in E4, E6, E7, E8. subst chcap d.
  destruct chcl; [destruct r; cbn in H; discriminate|].
  destruct r as [|i r]; cbn in H; rewrite E3 in H; cbn in H.
  - (* close *)
    inv_some. norm_state. rewrite !upd_app_l by lia.
    pose proof (sumw_upd tw prods0 n _ (TProd (S n) [] true) E2) as Htw.
    pose proof (sumw_upd cw chans0 n _ {| cap := cp; buf := chbuf; closed := true |} E3) as Hcw.
    unfold sumw in Htw, Hcw; cbn in Htw, Hcw.
    split.
    + new_state4 (upd prods0 n (TProd (S n) [] true))
                 (upd chans0 n {| cap := cp; buf := chbuf; closed := true |}) fwds0 dls0.
      auto_cond b HMain.
      * rewrite upd_length; assumption.
      * rewrite upd_length; assumption.
      * frame_or n.
        exists cp, its, [], true, {| cap := cp; buf := chbuf; closed := true |}, dl.
        rewrite !nth_error_upd_eq by lia. repeat split; auto.
        destruct (nth_error fwds0 n) as [t|]; cbn in *; [|exact HF].
        destruct HF as (fpc & fr & fok & Ht & Hf5 & Hits & Hf1 & Hf4).
        exists fpc, fr, fok. repeat split; auto; intros; try (destruct Hf1; auto; discriminate);
          try (destruct Hf4; auto; discriminate).
    + mu_base.
  - (* send through the buffer *)
    destruct (length chbuf <? cp) eqn:E; cbn in H; [|discriminate].
    inv_some. norm_state. rewrite !upd_app_l by lia.
    pose proof (sumw_upd tw prods0 n _ (TProd (S n) r false) E2) as Htw.
    pose proof (sumw_upd cw chans0 n _ {| cap := cp; buf := chbuf ++ [i]; closed := false |} E3) as Hcw.
    unfold sumw in Htw, Hcw; cbn in Htw, Hcw. rewrite app_length in Hcw; cbn in Hcw.
    split.
    + new_state4 (upd prods0 n (TProd (S n) r false))
                 (upd chans0 n {| cap := cp; buf := chbuf ++ [i]; closed := false |}) fwds0 dls0.
      auto_cond b HMain.
      * rewrite upd_length; assumption.
      * rewrite upd_length; assumption.
      * frame_or n.
        exists cp, its, r, false, {| cap := cp; buf := chbuf ++ [i]; closed := false |}, dl.
        rewrite !nth_error_upd_eq by lia. apply Nat.ltb_lt in E.
        repeat split; auto; try discriminate.
        { cbn. rewrite app_length; cbn; lia. }
        destruct (nth_error fwds0 n) as [t|]; cbn in *.
        -- destruct HF as (fpc & fr & fok & Ht & Hf5 & Hits & Hf1 & Hf4).
           exists fpc, fr, fok. repeat split; auto; intros;
             try (destruct Hf1 as (X & _ & _); auto; discriminate);
             try (destruct Hf4 as (X & _ & _); auto; discriminate).
           rewrite Hits. rewrite <- !app_assoc. reflexivity.
        -- destruct HF as [-> ->]. split; auto. rewrite <- app_assoc. reflexivity.
    + mu_base.
Qed.

(* ---------- forwarder m ---------- *)
Ltac fwd_facts fwds0 m Ef T' :=
  let Hact := fresh "Hact" in let Htw := fresh "Htw" in
  pose proof (sumw_upd act fwds0 m _ T' Ef) as Hact;
  pose proof (sumw_upd tw fwds0 m _ T' Ef) as Htw;
  unfold sumw in Hact, Htw; cbn in Hact, Htw.


Lemma step_fwd s s' m :
  Inv s -> step f PS s (Tau (2 + N + m)) = Some s' -> Inv s' /\ mu s' < mu s.
Proof.
  open_inv H. unfold step in H; cbn [panicked mk] in H. cbn in H.
  rewrite <- HLp in H. rewrite nth_error_app_r in H.
  destruct (nth_error fwds0 m) as [t|] eqn:Ef; [|discriminate].
  assert (Hm : m < N) by (apply nth_error_lt in Ef; lia).
  destruct (HP m Hm) as (cp & its & r & d & ch & dl & E1 & E2 & E3 & E4 & E5 & E6 & E7 & E8 & HF).
  rewrite Ef in HF. cbn in HF. destruct HF as (fpc & fr & fok & Ht & Hf5 & Hits & Hf1 & Hf4). subst t.
  destruct ch as [chcap chbuf chcl]. cbn in E4, E6, E7, E8, Hits, Hf1, Hf4. subst chcap d.
  assert (Hlen : length prods0 + m = length prods0 + m) by reflexivity.
  pcs6 fpc; cbn in H.
  - (* 0: r, ok := <-res *)
    unfold recv_buf in H; cbn in H. rewrite E3 in H. cbn in H. destruct chbuf as [|i rest].
    + destruct chcl; [|discriminate]. inv_some. norm_state. rewrite upd_app_r.
      fwd_facts fwds0 m Ef (fwd_thr m 1 0 (VB false)). split.
      * new_state4 prods0 chans0 (upd fwds0 m (fwd_thr m 1 0 (VB false))) dls0.
        auto_cond b HMain.
        -- rewrite upd_length; assumption.
        -- frame_or m.
           eexists cp, _, r, true, {| cap := cp; buf := []; closed := true |}, dl.
           rewrite !nth_error_upd_eq by (apply nth_error_lt in Ef; lia).
           repeat split; auto; [exact E1|]. cbn.
           exists 1, 0, (VB false). assert (Hr : r = []) by auto. subst r. repeat split; auto; try lia.
        -- unfold MainI in *; cbn in *. rewrite upd_length. exists b. repeat split; auto.
      * mu_base.
    + inv_some. norm_state. rewrite upd_app_r.
      fwd_facts fwds0 m Ef (fwd_thr m 1 i (VB true)).
      pose proof (sumw_upd cw chans0 m _ {| cap := cp; buf := rest; closed := chcl |} E3) as Hcw.
      unfold sumw in Hcw; cbn in Hcw. split.
      * new_state4 prods0 (upd chans0 m {| cap := cp; buf := rest; closed := chcl |})
                   (upd fwds0 m (fwd_thr m 1 i (VB true))) dls0.
        auto_cond b HMain.
        -- rewrite upd_length; assumption.
        -- rewrite upd_length; assumption.
        -- frame_or m.
           eexists cp, _, r, chcl, {| cap := cp; buf := rest; closed := chcl |}, dl.
           rewrite !nth_error_upd_eq by (apply nth_error_lt in Ef; lia).
           repeat split; auto; [exact E1| cbn in *; lia |]. cbn.
           exists 1, i, (VB true). repeat split; auto; try lia; try discriminate.
        -- unfold MainI in *; cbn in *. rewrite upd_length. exists b. repeat split; auto.
      * mu_base.
  - (* 1: if ok *)
    inv_some. norm_state. rewrite upd_app_r.
    destruct (match fok with VB b0 => b0 | _ => false end) eqn:Eok.
    + fwd_facts fwds0 m Ef (fwd_thr m 2 fr fok). split.
      * new_state4 prods0 chans0 (upd fwds0 m (fwd_thr m 2 fr fok)) dls0.
        auto_cond b HMain.
        -- rewrite upd_length; assumption.
        -- frame_or m.
           eexists cp, _, r, chcl, {| cap := cp; buf := chbuf; closed := chcl |}, dl.
           rewrite !nth_error_upd_eq by (apply nth_error_lt in Ef; lia).
           repeat split; auto; [exact E1|]. cbn.
           exists 2, fr, fok. repeat split; auto; try lia; try discriminate.
           rewrite Eok. reflexivity.
        -- unfold MainI in *; cbn in *. rewrite upd_length. exists b. repeat split; auto.
      * mu_base. rewrite Eok in Htw. lia.
    + fwd_facts fwds0 m Ef (fwd_thr m 4 fr fok).
      destruct (Hf1 eq_refl eq_refl) as (Hc1 & Hc2 & Hc3). subst chcl chbuf r. split.
      * new_state4 prods0 chans0 (upd fwds0 m (fwd_thr m 4 fr fok)) dls0.
        auto_cond b HMain.
        -- rewrite upd_length; assumption.
        -- frame_or m.
           eexists cp, _, [], true, {| cap := cp; buf := []; closed := true |}, dl.
           rewrite !nth_error_upd_eq by (apply nth_error_lt in Ef; lia).
           repeat split; auto; [exact E1|]. cbn.
           exists 4, fr, fok. repeat split; auto; try lia; try discriminate.
           rewrite Eok. reflexivity.
        -- unfold MainI in *; cbn in *. rewrite upd_length. exists b. repeat split; auto.
      * mu_base. rewrite Eok in Htw. lia.
  - (* 2: out <- r *)
    assert (Hocf : oc0 = false).
    { destruct oc0; [exfalso|reflexivity]. destruct Hoc as [Hoc _]. specialize (Hoc eq_refl). subst mpc0.
      pose proof (sumw_ge act fwds0 m _ Ef) as G. cbn in G. assert (L : 6 <= 7) by lia.
      specialize (H7 L). lia. }
    subst oc0. cbn in H.
    destruct (length ob0 <? cout) eqn:E; cbn in H; [|discriminate].
    inv_some. norm_state. rewrite upd_app_r.
    fwd_facts fwds0 m Ef (fwd_thr m 3 fr fok). split.
    + new_state4 prods0 chans0 (upd fwds0 m (fwd_thr m 3 fr fok)) (upd dls0 m (dl ++ [fr])).
      auto_cond b HMain.
      * rewrite upd_length; assumption.
      * rewrite upd_length; assumption.
      * frame_or m.
        eexists cp, _, r, chcl, {| cap := cp; buf := chbuf; closed := chcl |}, (dl ++ [fr]).
        rewrite !nth_error_upd_eq by (apply nth_error_lt in Ef; lia).
        repeat split; auto; [exact E1|]. cbn.
        exists 3, fr, fok. repeat split; auto; try lia; try discriminate.
        rewrite <- !app_assoc. reflexivity.
      * rewrite app_assoc. apply Merge_snoc; assumption.
      * unfold MainI in *; cbn in *. rewrite upd_length. exists b. repeat split; auto.
    + mu_base.
  - (* 3: loop *)
    inv_some. norm_state. rewrite upd_app_r.
    fwd_facts fwds0 m Ef (fwd_thr m 0 fr fok). split.
    + new_state4 prods0 chans0 (upd fwds0 m (fwd_thr m 0 fr fok)) dls0.
      auto_cond b HMain.
      * rewrite upd_length; assumption.
      * frame_or m.
        eexists cp, _, r, chcl, {| cap := cp; buf := chbuf; closed := chcl |}, dl.
        rewrite !nth_error_upd_eq by (apply nth_error_lt in Ef; lia).
        repeat split; auto; [exact E1|]. cbn.
        exists 0, fr, fok. repeat split; auto; try lia; try discriminate.
      * unfold MainI in *; cbn in *. rewrite upd_length. exists b. repeat split; auto.
    + mu_base.
  - (* 4: wait.Done() *)
    pose proof (sumw_ge act fwds0 m _ Ef) as G. cbn in G.
    destruct w0 as [|k]; [exfalso; lia|].
    assert (L4 : 4 <= 4) by lia. destruct (Hf4 L4) as (Hc1 & Hc2 & Hc3). cbn in Hc1, Hc2. subst chcl chbuf r.
    inv_some. norm_state. rewrite upd_app_r.
    fwd_facts fwds0 m Ef (fwd_thr m 5 fr fok). split.
    + new_state4 prods0 chans0 (upd fwds0 m (fwd_thr m 5 fr fok)) dls0.
      auto_cond b HMain.
      * rewrite upd_length; assumption.
      * frame_or m.
        eexists cp, _, [], true, {| cap := cp; buf := []; closed := true |}, dl.
        rewrite !nth_error_upd_eq by (apply nth_error_lt in Ef; lia).
        repeat split; auto; [exact E1|]. cbn.
        exists 5, fr, fok. repeat split; auto; try lia; try discriminate.
      * unfold MainI in *; cbn in *. rewrite upd_length. exists b. repeat split; auto.
    + mu_base.
  - discriminate.
Qed.

(* ---------- rendezvous: forwarder m -> consumer ---------- *)
Lemma step_sync_fwd_cons s s' m :
  Inv s -> step f PS s (Sync (2 + N + m) 1) = Some s' -> Inv s' /\ mu s' < mu s.
Proof.
  open_inv H. unfold step in H; cbn [panicked mk] in H. cbn in H.
  rewrite <- HLp in H. rewrite nth_error_app_r in H.
  destruct (nth_error fwds0 m) as [t|] eqn:Ef; [|discriminate].
  assert (Hm : m < N) by (apply nth_error_lt in Ef; lia).
  destruct (HP m Hm) as (cp & its & r & d & ch & dl & E1 & E2 & E3 & E4 & E5 & E6 & E7 & E8 & HF).
  rewrite Ef in HF. cbn in HF. destruct HF as (fpc & fr & fok & Ht & Hf5 & Hits & Hf1 & Hf4). subst t.
  destruct ch as [chcap chbuf chcl]. cbn in E4, E6, E7, E8, Hits, Hf1, Hf4. subst chcap d.
  pcs6 fpc; cbn in H; try discriminate.
  destruct cd0; cbn in H; [discriminate|].
  destruct oc0; cbn in H; [discriminate|].
  destruct (cout =? 0) eqn:E; cbn in H; [|discriminate]. apply Nat.eqb_eq in E.
  destruct ob0; [|cbn in Hlo; lia].
  inv_some. norm_state. rewrite upd_app_r.
  fwd_facts fwds0 m Ef (fwd_thr m 3 fr fok). split.
  - new_state4 prods0 chans0 (upd fwds0 m (fwd_thr m 3 fr fok)) (upd dls0 m (dl ++ [fr])).
    auto_cond b HMain.
    + rewrite upd_length; assumption.
    + rewrite upd_length; assumption.
    + frame_or m.
      eexists cp, _, r, chcl, {| cap := cp; buf := chbuf; closed := chcl |}, (dl ++ [fr]).
      rewrite !nth_error_upd_eq by (apply nth_error_lt in Ef; lia).
      repeat split; auto; [exact E1|]. cbn.
      exists 3, fr, fok. repeat split; auto; try lia; try discriminate.
      rewrite <- !app_assoc. reflexivity.
    + rewrite app_nil_r in *. apply Merge_snoc; assumption.
    + unfold MainI in *; cbn in *. rewrite upd_length. exists b. repeat split; auto.
  - mu_base.
Qed.

(* ---------- rendezvous: inner producer j -> forwarder j ---------- *)
Lemma step_sync_prod_fwd s s' j :
  j < N -> Inv s -> step f PS s (Sync (2 + j) (2 + N + j)) = Some s' -> Inv s' /\ mu s' < mu s.
Proof.
  intros Hn. open_inv H. unfold step in H; cbn [panicked mk] in H. cbn in H.
  destruct (j =? N + j) eqn:Ejj; [discriminate|].
  rewrite nth_error_app1 in H by lia.
  rewrite <- HLp in H. rewrite nth_error_app_r in H. rewrite HLp in H.
  destruct (HP j Hn) as (cp & its & r & d & ch & dl & E1 & E2 & E3 & E4 & E5 & E6 & E7 & E8 & HF).
  rewrite E2 in H.
  destruct (nth_error fwds0 j) as [t|] eqn:Ef; [|discriminate].
  cbn in HF. destruct HF as (fpc & fr & fok & Ht & Hf5 & Hits & Hf1 & Hf4). subst t.
  destruct ch as [chcap chbuf chcl]. cbn in E4, E6, E7, E8, Hits, Hf1, Hf4. subst chcap d.
  cbn in H. destruct chcl; [destruct r; cbn in H; discriminate|].
  destruct r as [|i r]; cbn in H; [pcs6 fpc; cbn in H; discriminate|].
  pcs6 fpc; cbn in H; try discriminate.
  rewrite Nat.eqb_refl in H. rewrite E3 in H. cbn in H.
  destruct (cp =? 0) eqn:E; cbn in H; [|discriminate]. apply Nat.eqb_eq in E.
  destruct chbuf; [|cbn in E8; lia].
  inv_some. norm_state.
  rewrite upd_app_l by lia.
  replace (N + j) with (length (upd prods0 j (TProd (S j) r false)) + j) by (rewrite upd_length; lia).
  rewrite upd_app_r.
  fwd_facts fwds0 j Ef (fwd_thr j 1 i (VB true)).
  pose proof (sumw_upd tw prods0 j _ (TProd (S j) r false) E2) as Htw2.
  unfold sumw in Htw2; cbn in Htw2.
  split.
  - new_state4 (upd prods0 j (TProd (S j) r false)) chans0 (upd fwds0 j (fwd_thr j 1 i (VB true))) dls0.
    auto_cond b HMain.
    + rewrite upd_length; assumption.
    + rewrite upd_length; assumption.
    + frame_or j.
      eexists 0, _, r, false, {| cap := 0; buf := []; closed := false |}, dl.
      rewrite !nth_error_upd_eq by (try (apply nth_error_lt in Ef); lia).
      repeat split; auto; [exact E1| discriminate |]. cbn.
      exists 1, i, (VB true). repeat split; auto; try lia; try discriminate.
    + unfold MainI in *; cbn in *. rewrite upd_length. exists b. repeat split; auto.
  - mu_base.
Qed.

(* ---------- classification of the threads of a canonical state ---------- *)
Inductive tclass (p:params) (n:nat) (t:thread) : Prop :=
| C_main : n = 0 -> t = TProg 0 (mpc p) [VS (srem p); VC (Some 0); mc p; mres p] -> tclass p n t
| C_cons : n = 1 -> t = TCons 0 (log p) (cd p) -> tclass p n t
| C_prod j r d : n = 2 + j -> j < N -> t = TProd (1 + j) r d -> tclass p n t
| C_fwd m fpc fr fok : n = 2 + N + m -> m < N -> fpc <= 5 -> nth_error (fwds p) m = Some t ->
                       t = fwd_thr m fpc fr fok -> tclass p n t.

Lemma classify p n t : Cond inputs cout p -> nth_error (thr (mk p)) n = Some t -> tclass p n t.
Proof.
  intros C E.
  destruct C as (HLp & HLc & HLd & HK & HP & _).
  destruct n as [|[|n]]; cbn in E.
  - inversion E. apply C_main; auto.
  - inversion E. apply C_cons; auto.
  - apply nth_error_app_cases in E. destruct E as [[L E]|[m [-> E]]].
    + rewrite HLp in L.
      destruct (HP n L) as (cp & its & r & d & ch & dl & E1 & E2 & _).
      rewrite E2 in E. inversion E. apply (C_prod _ _ _ n r d); auto.
    + assert (Hm : m < N) by (apply nth_error_lt in E; lia).
      destruct (HP m Hm) as (cp & its & r & d & ch & dl & E1 & E2 & E3 & E4 & E5 & E6 & E7 & E8 & HF).
      rewrite E in HF. cbn in HF. destruct HF as (fpc & fr & fok & Ht & Hf5 & _).
      apply (C_fwd _ _ _ m fpc fr fok); auto. rewrite HLp. reflexivity.
Qed.

Lemma fwd_wants_send m fpc fr fok c i :
  fpc <= 5 -> wants PS (fwd_thr m fpc fr fok) = WSend c i -> fpc = 2 /\ c = 0.
Proof. intros L W. pcs6 fpc; cbn in W; try discriminate. inversion W; auto. Qed.
Lemma fwd_wants_recv m fpc fr fok c :
  fpc <= 5 -> wants PS (fwd_thr m fpc fr fok) = WRecv c -> fpc = 0 /\ c = 1 + m.
Proof. intros L W. pcs6 fpc; cbn in W; try discriminate. inversion W; auto. Qed.
Lemma fwd_wants_sel m fpc fr fok cs :
  fpc <= 5 -> wants PS (fwd_thr m fpc fr fok) = WSel cs -> False.
Proof. intros L W. pcs6 fpc; cbn in W; discriminate. Qed.
Lemma main_wants_send pc sr mc0 mres0 c i :
  pc <= 7 -> wants PS (TProg 0 pc [VS sr; VC (Some 0); mc0; mres0]) = WSend c i -> False.
Proof. intros L W. pcs8 pc; cbn in W; discriminate. Qed.
Lemma main_wants_recv pc sr mc0 mres0 c :
  pc <= 7 -> wants PS (TProg 0 pc [VS sr; VC (Some 0); mc0; mres0]) = WRecv c -> False.
Proof. intros L W. pcs8 pc; cbn in W; discriminate. Qed.
Lemma main_wants_sel pc sr mc0 mres0 cs :
  pc <= 7 -> wants PS (TProg 0 pc [VS sr; VC (Some 0); mc0; mres0]) = WSel cs -> False.
Proof. intros L W. pcs8 pc; cbn in W; discriminate. Qed.
Lemma prod_wants_send c0 r d c i : wants PS (TProd c0 r d) = WSend c i -> c = c0.
Proof. destruct d, r; cbn; intros W; try discriminate. inversion W; auto. Qed.
Lemma prod_wants_recv c0 r d c : wants PS (TProd c0 r d) = WRecv c -> False.
Proof. destruct d, r; cbn; intros W; discriminate. Qed.
Lemma prod_wants_sel c0 r d cs : wants PS (TProd c0 r d) = WSel cs -> False.
Proof. destruct d, r; cbn; intros W; discriminate. Qed.
Lemma cons_wants_send c0 l d c i : wants PS (TCons c0 l d) = WSend c i -> False.
Proof. destruct d; cbn; intros W; discriminate. Qed.
Lemma cons_wants_recv c0 l d c : wants PS (TCons c0 l d) = WRecv c -> c = c0.
Proof. destruct d; cbn; intros W; try discriminate. inversion W; auto. Qed.
Lemma cons_wants_sel c0 l d cs : wants PS (TCons c0 l d) = WSel cs -> False.
Proof. destruct d; cbn; intros W; discriminate. Qed.

Lemma no_sel p n t cs : Cond inputs cout p -> nth_error (thr (mk p)) n = Some t -> wants PS t = WSel cs -> False.
Proof.
  intros C E W. pose proof C as C'.
  destruct C' as (_ & _ & _ & _ & _ & _ & _ & Hpc & _).
  destruct (classify p n t C E) as [? ->|? ->|j r d ? ? ->|m fpc fr fok ? ? ? ? ->].
  - eapply main_wants_sel; eauto.
  - eapply cons_wants_sel; eauto.
  - eapply prod_wants_sel; eauto.
  - eapply fwd_wants_sel; eauto.
Qed.

Lemma step_sync s s' sn rn : Inv s -> step f PS s (Sync sn rn) = Some s' -> Inv s' /\ mu s' < mu s.
Proof.
  intros HI H. pose proof H as H0. apply sync_inv in H0.
  destruct H0 as (Hne & ts & tr & c & i & ch & Es & Er & Ws & Wr & Ech & Ecl & Ecap & _).
  destruct HI as [p [-> C]]. assert (HI : Inv (mk p)) by (exists p; auto).
  pose proof C as C'. destruct C' as (_ & _ & _ & _ & _ & _ & _ & Hpc & _).
  destruct (classify p rn tr C Er) as [? ->|? ->|j r d ? ? ->|m fpc fr fok ? ? ? ? ->].
  - exfalso. eapply main_wants_recv; eauto.
  - (* the consumer receives: the sender is a forwarder *)
    apply cons_wants_recv in Wr. subst c.
    destruct (classify p sn ts C Es) as [? ->|? ->|j r d ? ? ->|m fpc fr fok ? ? ? ? ->].
    + exfalso. eapply main_wants_send; eauto.
    + exfalso. eapply cons_wants_send; eauto.
    + apply prod_wants_send in Ws. lia.
    + subst. eapply step_sync_fwd_cons; eauto.
  - exfalso. eapply prod_wants_recv; eauto.
  - (* forwarder m receives: the sender is producer m *)
    apply fwd_wants_recv in Wr; [|assumption]. destruct Wr as [_ ->].
    destruct (classify p sn ts C Es) as [? ->|? ->|j r d ? ? ->|m' fpc' fr' fok' ? ? ? ? ->].
    + exfalso. eapply main_wants_send; eauto.
    + exfalso. eapply cons_wants_send; eauto.
    + apply prod_wants_send in Ws. assert (j = m) by lia. subst. eapply step_sync_prod_fwd; eauto.
    + apply fwd_wants_send in Ws; [|assumption]. lia.
Qed.

Lemma inv_step s act s' : Inv s -> step f PS s act = Some s' -> Inv s' /\ mu s' < mu s.
Proof.
  intros HI H. destruct act as [n | sn rn | n k | sn rn k].
  - destruct n as [|[|n]].
    + apply step_main; auto.
    + apply step_cons; auto.
    + destruct (Nat.lt_ge_cases n N) as [L|L].
      * apply (step_prod s s' n L HI H).
      * replace (S (S n)) with (2 + N + (n - N)) in H by lia.
        apply (step_fwd s s' (n - N) HI H).
  - apply (step_sync s s' sn rn HI H).
  - exfalso. destruct HI as [p [-> C]].
    apply tausel_inv in H. destruct H as (t & cs & E & W). eapply no_sel; eauto.
  - exfalso. destruct HI as [p [-> C]].
    apply syncsel_inv in H. destruct H as (t & cs & E & W). eapply no_sel; eauto.
Qed.

Lemma inv_reach s : reach f PS (init inputs cout) s -> Inv s.
Proof.
  apply (reach_inv f PS Inv); [apply inv_init|]. intros s0 a0 s1 Hi Hs.
  exact (proj1 (inv_step _ _ _ Hi Hs)).
Qed.

End JSLP.
