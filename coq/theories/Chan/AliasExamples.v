(* Chan/AliasExamples.v — the evaluator on histories of the two environments of round 5 (shared channels,
   zero items): what the specification accepts, what the model (trace inclusion against the expected IR
   started from Alias.init_alias) predicts, and the verdict on the witnesses of the two seeded regressions. *)
From Coq Require Import List Arith Bool ZArith String.
Import ListNotations.
From Verif Require Import Base Sexp Chan.Sem Chan.Expected Chan.Explore Chan.Alias Eval19.
Open Scope string_scope.

Definition ns (l : list nat) : sexp := L (map of_nat l).
Definition hist (kd : string) (hdr : list nat) (ins : list (list nat)) (outs : list (list nat)) (cl : list nat)
    (pn lk tm : nat) : sexp :=
  L [Sym "hist"; Sym kd; ns hdr; L (map ns ins); L (map ns outs); ns cl; of_nat pn; of_nat lk; of_nat tm].
Definition ok3 (v : verdict) : bool * bool * bool := (v_spec_ok v, v_model_ok v, v_guard v).

(* channel 0 (items 11 12 13) is handed over twice, channel 1 between the two: two forwarders share channel 0,
   they may swap neighbours, the model has exactly these runs *)
Example shared_in_order :
  ok3 (eval19 (hist "joincc" [0;1;0;7;1;0;1;0] [[0;11;12;13];[0;21;22]] [[11;21;12;13;22]] [1] 0 0 0)) = (true, true, true).
Proof. vm_compute. reflexivity. Qed.
Example shared_swapped :
  ok3 (eval19 (hist "joincc" [0;1;0;7;1;0;1;0] [[0;11;12;13];[0;21;22]] [[12;11;21;13;22]] [1] 0 0 0)) = (true, true, true).
Proof. vm_compute. reflexivity. Qed.
(* an item two places ahead needs a third receiver: neither the specification (three decreasing items) ... *)
Example shared_three_decreasing :
  ok3 (eval19 (hist "joinsl" [0;4;0;7;1;0;0] [[1;11;12;13]] [[13;12;11]] [1] 0 0 0)) = (false, false, true).
Proof. vm_compute. reflexivity. Qed.
(* ... nor, for 13 11 12, the model: with two forwarders 13 cannot be received before 11 or 12 is delivered
   (the specification alone would accept it: two increasing subsequences) *)
Example shared_window :
  ok3 (eval19 (hist "joinsl" [0;4;0;7;1;0;0] [[1;11;12;13]] [[13;11;12]] [1] 0 0 0)) = (true, false, true).
Proof. vm_compute. reflexivity. Qed.
(* the channel that is given once keeps its order *)
Example shared_other_channel_in_order :
  ok3 (eval19 (hist "joincc" [0;1;0;7;1;0;1;0] [[0;11;12;13];[0;21;22]] [[11;22;12;13;21]] [1] 0 0 0)) = (false, false, true).
Proof. vm_compute. reflexivity. Qed.
(* variadic form: both parameters are the same channel (NVAR = 2 parameters, one channel) *)
Example shared_variadic :
  ok3 (eval19 (hist "joinvar" [2;4;0;7;1;0;0] [[0;11;12;13]] [[11;12;13]] [1] 0 0 0)) = (true, true, true) /\
  ok3 (eval19 (hist "joinvar" [2;4;0;7;1;0;0] [[0;11;12;13]] [[12;11;13]] [1] 0 0 0)) = (true, false, true).
Proof. vm_compute. split; reflexivity. Qed.
(* the witness of the seeded regression C19-m13 (the duplicate is skipped after wait.Add(1)): everything is
   delivered, the output is never closed *)
Example shared_m13 :
  ok3 (eval19 (hist "joincc" [0;1;0;7;1;0;1;0] [[0;11;12;13];[0;21;22]] [[11;12;13;21;22]] [0] 0 1 1)) = (false, false, true).
Proof. vm_compute. reflexivity. Qed.
(* ORDER must name every channel, and only channels *)
Example shared_guard :
  v_guard (eval19 (hist "joincc" [0;1;0;7;1;0;0] [[0;11];[0;21]] [[11]] [1] 0 0 0)) = false /\
  v_guard (eval19 (hist "joincc" [0;1;0;7;1;0;2] [[0;11];[0;21]] [[11;21]] [1] 0 0 0)) = false.
Proof. vm_compute. split; reflexivity. Qed.

(* zero items (element type 1 = error, 0 = nil): equal items on several inputs *)
Example zero_items :
  ok3 (eval19 (hist "joinsl" [0;1;0;8;1;1] [[0;11;0;13];[0;0;22];[1;0]] [[0;11;0;13;22;0]] [1] 0 0 0)) = (true, true, true) /\
  ok3 (eval19 (hist "joinsl" [0;1;0;8;1;1] [[0;11;0;13];[0;0;22];[1;0]] [[11;13;22]] [1] 0 0 0)) = (false, false, true) /\
  ok3 (eval19 (hist "joinsl" [0;1;0;8;1;1] [[0;11;0;13];[0;0;22];[1;0]] [[0;0;0;13;11;22]] [1] 0 0 0)) = (false, false, true).
Proof. vm_compute. repeat split; reflexivity. Qed.
(* the witness of the seeded regression C19-m14 (nil.(error) panics in the join's goroutine) *)
Example zero_m14 :
  ok3 (eval19 (hist "joinsl" [0;1;0;8;1;1] [[0;11;12;13];[0;21;22];[0;31;0;33]] [[]] [0] 4 0 0)) = (false, false, true).
Proof. vm_compute. reflexivity. Qed.
Example zero_fmap_dup :
  ok3 (eval19 (hist "fmap" [0;4;0;8;1;1] [[1;0;12;0]] [[1000;1012;1000]] [1] 0 0 0)) = (true, true, true) /\
  ok3 (eval19 (hist "dup" [0;4;0;8;1;1] [[1;0;12;0]] [[0;12;0];[0;12]] [1;1] 0 0 0)) = (false, false, true).
Proof. vm_compute. split; reflexivity. Qed.
