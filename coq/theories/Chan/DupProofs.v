(* Chan/DupProofs.v — deriveDup(c chan T) (c1, c2 <-chan T): for ALL item lists, ALL capacities
   of the three channels and ALL interleavings, with two independent consumers: every item
   is delivered exactly once to each output in the input's order, no panic, each output is
   closed once after the input is closed and drained, no deadlock, termination, no leak. *)
From Coq Require Import List Arith Bool Lia.
Import ListNotations.
From Verif Require Import Chan.Sem Chan.Expected.

Local Arguments Nat.ltb : simpl never.

Section DUP.
Variable f : item -> item.
Variable xs : list item.
Variables cin c1 c2 : nat.

Definition PD : list prog := fn_progs exp_dup.

Record params := {
  rem : list item; pd : bool; ib : list item; ic : bool;
  pc : nat; v : item; ok : bool;
  ob1 : list item; oc1 : bool; log1 : list item; cd1 : bool;
  ob2 : list item; oc2 : bool; log2 : list item; cd2 : bool }.

Definition mk (p:params) : state :=
  {| thr := [ TProd 0 (rem p) (pd p);
              TProg 0 (pc p) [VC (Some 0); VC (Some 1); VC (Some 2); VI (v p); VB (ok p)];
              TCons 1 (log1 p) (cd1 p);
              TCons 2 (log2 p) (cd2 p) ];
     chs := [ {| cap := cin; buf := ib p; closed := ic p |};
              {| cap := c1; buf := ob1 p; closed := oc1 p |};
              {| cap := c2; buf := ob2 p; closed := oc2 p |} ];
     wg := 0;
     panicked := false |}.

Definition mid1 (p:params) : list item :=
  match pc p with
  | 1 => if ok p then [v p] else []
  | 2 => [v p]
  | _ => []
  end.
Definition mid2 (p:params) : list item :=
  match pc p with
  | 1 => if ok p then [v p] else []
  | 2 => [v p]
  | 3 => [v p]
  | _ => []
  end.

Definition Cond (p:params) : Prop :=
  xs = log1 p ++ ob1 p ++ mid1 p ++ ib p ++ rem p
  /\ xs = log2 p ++ ob2 p ++ mid2 p ++ ib p ++ rem p
  /\ pc p <= 7
  /\ (pd p = ic p)
  /\ (pd p = true -> rem p = [])
  /\ (pc p = 1 -> ok p = false -> ic p = true /\ ib p = [] /\ rem p = [])
  /\ (5 <= pc p -> ic p = true /\ ib p = [] /\ rem p = [])
  /\ (oc1 p = true <-> 6 <= pc p)
  /\ (oc2 p = true <-> pc p = 7)
  /\ (cd1 p = true -> oc1 p = true /\ ob1 p = [])
  /\ (cd2 p = true -> oc2 p = true /\ ob2 p = [])
  /\ length (ib p) <= cin /\ length (ob1 p) <= c1 /\ length (ob2 p) <= c2.

Definition Inv (s:state) : Prop := exists p, s = mk p /\ Cond p.

Definition init : state :=
  mk {| rem := xs; pd := false; ib := []; ic := false; pc := 0; v := 0; ok := false;
        ob1 := []; oc1 := false; log1 := []; cd1 := false;
        ob2 := []; oc2 := false; log2 := []; cd2 := false |}.

Lemma inv_init : Inv init.
Proof.
  eexists; split; [reflexivity|]. unfold Cond, mid1, mid2; cbn.
  repeat split; try lia; try congruence; intros; try lia; try discriminate.
Qed.

Definition pcw (pc:nat) (ok:bool) : nat :=
  match pc with
  | 0 => 4 | 1 => if ok then 10 else 3 | 2 => 9 | 3 => 7 | 4 => 5 | 5 => 2 | 6 => 1 | _ => 0
  end.
Definition b2n (b:bool) : nat := if b then 0 else 1.

Definition mu (s:state) : nat :=
  match thr s, chs s with
  | [TProd _ r d; TProg _ pc e; TCons _ _ d1; TCons _ _ d2], [ci; co1; co2] =>
      length r * 8 + b2n d + length (buf ci) * 7 + pcw pc (getb e 4)
      + length (buf co1) + length (buf co2) + b2n d1 + b2n d2
  | _, _ => 0
  end.

Ltac inv_some :=
  match goal with
  | H : Some _ = Some _ |- _ => inversion H; subst; clear H
  | H : None = Some _ |- _ => discriminate H
  end.

Ltac ord H := rewrite H; rewrite ?map_app; cbn [map app]; rewrite <- ?app_assoc; cbn [app]; reflexivity.

Ltac side :=
  intros; subst; rewrite ?app_length in *; cbn [length] in *;
  repeat match goal with
  | E : (_ <? _) = true |- _ => apply Nat.ltb_lt in E
  | E : (_ =? _) = true |- _ => apply Nat.eqb_eq in E
  end;
  try discriminate; try lia;
  repeat match goal with
  | H : ?x = ?x -> _ |- _ => specialize (H eq_refl)
  | H : ?a <= ?b -> _ |- _ => let L := fresh in assert (L : a <= b) by lia; specialize (H L); clear L
  | H : _ /\ _ |- _ => destruct H
  | H : _ <-> _ |- _ => destruct H
  end;
  subst; try discriminate; try lia; try congruence; auto;
  try solve [intuition (subst; try discriminate; try lia; try congruence)].

Ltac finish_inv H1 H2 :=
  eexists (Build_params _ _ _ _ _ _ _ _ _ _ _ _ _ _ _); split; [unfold mk; cbn; reflexivity|];
  unfold Cond, mid1, mid2 in *; cbn in *;
  repeat match goal with |- _ /\ _ => split | |- _ <-> _ => split end;
  try solve [ord H1]; try solve [ord H2]; side.

Ltac finish_mu :=
  unfold mu, mk, pcw, b2n; cbn; rewrite ?app_length; cbn; try lia.

Ltac finish H1 H2 := split; [finish_inv H1 H2 | finish_mu].

Ltac pcs pc0 := destruct pc0 as [|[|[|[|[|[|[|[|pc0]]]]]]]]; try lia.

Lemma inv_step s act s' :
  Inv s -> step f PD s act = Some s' -> Inv s' /\ mu s' < mu s.
Proof.
  intros [p [-> C]] H.
  destruct C as (Ho1 & Ho2 & Hpc & Hpd & Hrem & Hok & H5 & Hoc1 & Hoc2 & Hcd1 & Hcd2 & Hli & Hl1 & Hl2).
  destruct p as [rem0 pd0 ib0 ic0 pc0 v0 ok0 ob10 oc10 log10 cd10 ob20 oc20 log20 cd20]; cbn in *.
  unfold step in H; cbn [panicked mk] in H.
  destruct act as [n | sn rn | n k | sn rn k].
  - (* Tau *)
    destruct n as [|[|[|[|n]]]]; cbn in H.
    + (* producer *)
      destruct pd0; [destruct rem0; cbn in H; discriminate|].
      destruct rem0 as [|i r]; cbn in H.
      * destruct ic0; [discriminate Hpd|]. inv_some. finish Ho1 Ho2.
      * destruct ic0; [discriminate Hpd|].
        destruct (length ib0 <? cin) eqn:E; cbn in H; [|discriminate]. inv_some. finish Ho1 Ho2.
    + (* forwarder *)
      pcs pc0; cbn in H.
      * destruct ib0 as [|i r].
        -- destruct ic0; [|discriminate]. inv_some. finish Ho1 Ho2.
        -- inv_some. finish Ho1 Ho2.
      * inv_some. destruct ok0; cbn; finish Ho1 Ho2.
      * destruct oc10; [side|].
        destruct (length ob10 <? c1) eqn:E; cbn in H; [|discriminate]. inv_some. finish Ho1 Ho2.
      * destruct oc20; [side|].
        destruct (length ob20 <? c2) eqn:E; cbn in H; [|discriminate]. inv_some. finish Ho1 Ho2.
      * inv_some. finish Ho1 Ho2.
      * destruct oc10; [side|]. inv_some. finish Ho1 Ho2.
      * destruct oc20; [side|]. inv_some. finish Ho1 Ho2.
      * discriminate.
    + (* consumer 1 *)
      destruct cd10; [discriminate|]. cbn in H.
      destruct ob10 as [|i r].
      * destruct oc10; [|discriminate]. inv_some. finish Ho1 Ho2.
      * inv_some. finish Ho1 Ho2.
    + (* consumer 2 *)
      destruct cd20; [discriminate|]. cbn in H.
      destruct ob20 as [|i r].
      * destruct oc20; [|discriminate]. inv_some. finish Ho1 Ho2.
      * inv_some. finish Ho1 Ho2.
    + destruct n; discriminate.
  - (* Sync *)
    destruct sn as [|[|[|[|sn]]]]; destruct rn as [|[|[|[|rn]]]]; cbn in H; try discriminate.
    all: try (destruct sn; discriminate); try (destruct rn; discriminate).
    all: try (destruct (sn =? rn); [discriminate|]; destruct sn; cbn in H; discriminate).
    + (* producer -> forwarder *)
      destruct pd0; [destruct rem0; cbn in H; discriminate|].
      destruct rem0 as [|i r]; cbn in H; [pcs pc0; cbn in H; discriminate|].
      pcs pc0; cbn in H; try discriminate.
      destruct ic0; cbn in H; [discriminate|].
      destruct (cin =? 0) eqn:E; cbn in H; [|discriminate]. inv_some.
      apply Nat.eqb_eq in E. destruct ib0; [|cbn in Hli; lia].
      finish Ho1 Ho2.
    + (* producer -> consumer 1: different channels *)
      destruct pd0; [destruct rem0; cbn in H; discriminate|].
      destruct rem0 as [|i r]; cbn in H; destruct cd10; cbn in H; discriminate.
    + destruct pd0; [destruct rem0; cbn in H; discriminate|].
      destruct rem0 as [|i r]; cbn in H; destruct cd20; cbn in H; discriminate.
    + (* forwarder -> producer: producer never receives *)
      pcs pc0; cbn in H; try discriminate;
      destruct pd0; destruct rem0; cbn in H; discriminate.
    + (* forwarder -> consumer 1 *)
      pcs pc0; cbn in H; try discriminate.
      * destruct cd10; cbn in H; [discriminate|].
        destruct oc10; cbn in H; [discriminate|].
        destruct (c1 =? 0) eqn:E; cbn in H; [|discriminate]. inv_some.
        apply Nat.eqb_eq in E. destruct ob10; [|cbn in Hl1; lia].
        finish Ho1 Ho2.
      * destruct cd10; cbn in H; discriminate.
    + (* forwarder -> consumer 2 *)
      pcs pc0; cbn in H; try discriminate.
      * destruct cd20; cbn in H; discriminate.
      * destruct cd20; cbn in H; [discriminate|].
        destruct oc20; cbn in H; [discriminate|].
        destruct (c2 =? 0) eqn:E; cbn in H; [|discriminate]. inv_some.
        apply Nat.eqb_eq in E. destruct ob20; [|cbn in Hl2; lia].
        finish Ho1 Ho2.
    + destruct cd10; cbn in H; discriminate.
    + destruct cd10; cbn in H; discriminate.
    + destruct cd10; cbn in H; discriminate.
    + destruct cd20; cbn in H; discriminate.
    + destruct cd20; cbn in H; discriminate.
    + destruct cd20; cbn in H; discriminate.
  - (* TauSel: nobody selects *)
    destruct n as [|[|[|[|n]]]]; cbn in H.
    + destruct pd0; destruct rem0; cbn in H; discriminate.
    + pcs pc0; cbn in H; discriminate.
    + destruct cd10; cbn in H; discriminate.
    + destruct cd20; cbn in H; discriminate.
    + destruct n; discriminate.
  - (* SyncSel: nobody selects *)
    destruct (sn =? rn); [discriminate|].
    destruct sn as [|[|[|[|sn]]]]; destruct rn as [|[|[|[|rn]]]]; cbn in H; try discriminate.
    all: try (destruct sn; discriminate); try (destruct rn; discriminate).
    all: try (destruct pd0; destruct rem0; cbn in H; try discriminate).
    all: try (pcs pc0; cbn in H; try discriminate).
    all: try (destruct cd10; cbn in H; discriminate).
    all: try (destruct cd20; cbn in H; discriminate).
    all: try (destruct pd0; destruct rem0; cbn in H; discriminate).
Qed.

Lemma inv_reach s : reach f PD init s -> Inv s.
Proof.
  apply (reach_inv f PD Inv); [exact inv_init|]. intros s0 a0 s1 Hi Hs.
  exact (proj1 (inv_step _ _ _ Hi Hs)).
Qed.

Lemma not_true_false b : (b = true -> False) -> b = false.
Proof. destruct b; [intros H; destruct (H eq_refl)|reflexivity]. Qed.

(* ---------- deadlock freedom ---------- *)
Lemma inv_progress s : Inv s -> all_halted PD s = false -> exists act s', step f PD s act = Some s'.
Proof.
  intros [p [-> C]] Hh.
  destruct C as (Ho1 & Ho2 & Hpc & Hpd & Hrem & Hok & H5 & Hoc1 & Hoc2 & Hcd1 & Hcd2 & Hli & Hl1 & Hl2).
  destruct p as [rem0 pd0 ib0 ic0 pc0 v0 ok0 ob10 oc10 log10 cd10 ob20 oc20 log20 cd20]; cbn in *.
  unfold step; cbn [panicked mk].
  pcs pc0.
  - (* pc 0: receive from c *)
    destruct ib0 as [|i r].
    + destruct ic0.
      * exists (Tau 1); cbn; eauto.
      * subst pd0. destruct rem0 as [|i r].
        -- exists (Tau 0); cbn; eauto.
        -- destruct (0 <? cin) eqn:E.
           ++ exists (Tau 0); cbn. rewrite E. eauto.
           ++ apply Nat.ltb_ge in E. assert (Hc : cin = 0) by lia.
              exists (Sync 0 1); cbn. rewrite Hc; cbn. eauto.
    + exists (Tau 1); cbn; eauto.
  - exists (Tau 1); cbn; eauto.
  - (* pc 2: send on cc1 *)
    assert (oc10 = false) by (apply not_true_false; intros E; apply Hoc1 in E; lia). subst oc10.
    assert (cd10 = false) by (apply not_true_false; intros E; destruct (Hcd1 E); discriminate). subst cd10.
    destruct (length ob10 <? c1) eqn:E.
    + exists (Tau 1); cbn. rewrite E. eauto.
    + apply Nat.ltb_ge in E. destruct ob10 as [|o r].
      * cbn in E. assert (Hc : c1 = 0) by lia.
        exists (Sync 1 2); cbn. rewrite Hc; cbn. eauto.
      * exists (Tau 2); cbn. eauto.
  - (* pc 3: send on cc2 *)
    assert (oc20 = false) by (apply not_true_false; intros E; apply Hoc2 in E; lia). subst oc20.
    assert (cd20 = false) by (apply not_true_false; intros E; destruct (Hcd2 E); discriminate). subst cd20.
    destruct (length ob20 <? c2) eqn:E.
    + exists (Tau 1); cbn. rewrite E. eauto.
    + apply Nat.ltb_ge in E. destruct ob20 as [|o r].
      * cbn in E. assert (Hc : c2 = 0) by lia.
        exists (Sync 1 3); cbn. rewrite Hc; cbn. eauto.
      * exists (Tau 3); cbn. eauto.
  - exists (Tau 1); cbn; eauto.
  - (* pc 5: close cc1 *)
    assert (oc10 = false) by (apply not_true_false; intros E; apply Hoc1 in E; lia). subst oc10.
    exists (Tau 1); cbn; eauto.
  - (* pc 6: close cc2 *)
    assert (oc20 = false) by (apply not_true_false; intros E; apply Hoc2 in E; lia). subst oc20.
    exists (Tau 1); cbn; eauto.
  - (* pc 7: halted *)
    destruct H5 as (Hic & Hib & Hr); [lia|]. subst. cbn in Hh.
    assert (oc10 = true) by (apply Hoc1; lia). subst oc10.
    assert (oc20 = true) by (apply Hoc2; reflexivity). subst oc20.
    destruct cd10.
    + destruct cd20; [cbn in Hh; discriminate Hh|].
      exists (Tau 3); cbn. destruct ob20; eauto.
    + exists (Tau 2); cbn. destruct ob10; eauto.
Qed.

Lemma inv_obs s : Inv s ->
  panicked s = false
  /\ (exists rest, xs = cons_log s 2 ++ rest)
  /\ (exists rest, xs = cons_log s 3 ++ rest)
  /\ (ch_closed s 1 = true ->
        prod_done s 0 = true /\ ch_closed s 0 = true /\ ch_buf s 0 = [] /\ prod_rem s 0 = []
        /\ xs = cons_log s 2 ++ ch_buf s 1)
  /\ (ch_closed s 2 = true ->
        prod_done s 0 = true /\ ch_closed s 0 = true /\ ch_buf s 0 = [] /\ prod_rem s 0 = []
        /\ xs = cons_log s 3 ++ ch_buf s 2)
  /\ (all_halted PD s = true ->
        cons_log s 2 = xs /\ cons_log s 3 = xs /\ ch_closed s 1 = true /\ ch_closed s 2 = true).
Proof.
  intros [p [-> C]].
  destruct C as (Ho1 & Ho2 & Hpc & Hpd & Hrem & Hok & H5 & Hoc1 & Hoc2 & Hcd1 & Hcd2 & Hli & Hl1 & Hl2).
  destruct p as [rem0 pd0 ib0 ic0 pc0 v0 ok0 ob10 oc10 log10 cd10 ob20 oc20 log20 cd20]; cbn in *.
  split; [reflexivity|]. split; [eauto|]. split; [eauto|]. split; [|split].
  - intros ->. destruct Hoc1 as [Hoc1 _]. specialize (Hoc1 eq_refl).
    destruct H5 as (Hic & Hib & Hr); [lia|]. subst ic0 ib0 rem0. try subst pd0.
    unfold mid1 in Ho1; cbn in Ho1.
    assert (Hm : match pc0 with 1 => if ok0 then [v0] else [] | 2 => [v0] | _ => [] end = []).
    { pcs pc0; reflexivity. }
    rewrite Hm in Ho1. cbn in Ho1. rewrite app_nil_r in Ho1. repeat split; auto.
  - intros ->. destruct Hoc2 as [Hoc2 _]. specialize (Hoc2 eq_refl). subst pc0.
    destruct H5 as (Hic & Hib & Hr); [lia|]. subst ic0 ib0 rem0. try subst pd0. unfold mid2 in Ho2; cbn in Ho2.
    rewrite app_nil_r in Ho2. repeat split; auto.
  - unfold all_halted; cbn. intros Hh.
    destruct pd0; [|discriminate]. cbn in Hh.
    pcs pc0; cbn in Hh; try discriminate.
    destruct cd10; [|discriminate]. destruct cd20; [|discriminate].
    destruct H5 as (Hic & Hib & Hr); [lia|]. subst ic0 ib0 rem0. try subst pd0.
    destruct (Hcd1 eq_refl) as [-> ->]. destruct (Hcd2 eq_refl) as [-> ->].
    unfold mid1 in Ho1; unfold mid2 in Ho2; cbn in Ho1, Ho2.
    rewrite app_nil_r in Ho1, Ho2. repeat split; auto.
Qed.

End DUP.

Definition dup_init (xs:list item) (cin c1 c2:nat) : state :=
  {| thr := [ TProd 0 xs false;
              TProg 0 0 [VC (Some 0); VC (Some 1); VC (Some 2); VI 0; VB false];
              TCons 1 [] false; TCons 2 [] false ];
     chs := [ {| cap := cin; buf := []; closed := false |};
              {| cap := c1; buf := []; closed := false |};
              {| cap := c2; buf := []; closed := false |} ];
     wg := 0; panicked := false |}.

(* safety in every reachable state: no panic; what each consumer received is a prefix of xs
   (exactly once per output, whole order); an output is closed only when the input is closed
   and drained and every item is delivered to it or in its buffer *)
Theorem dup_safety f xs cin c1 c2 s :
  reach f PD (dup_init xs cin c1 c2) s ->
  panicked s = false
  /\ (exists rest, xs = cons_log s 2 ++ rest)
  /\ (exists rest, xs = cons_log s 3 ++ rest)
  /\ (ch_closed s 1 = true ->
        prod_done s 0 = true /\ ch_closed s 0 = true /\ ch_buf s 0 = [] /\ prod_rem s 0 = []
        /\ xs = cons_log s 2 ++ ch_buf s 1)
  /\ (ch_closed s 2 = true ->
        prod_done s 0 = true /\ ch_closed s 0 = true /\ ch_buf s 0 = [] /\ prod_rem s 0 = []
        /\ xs = cons_log s 3 ++ ch_buf s 2).
Proof.
  intros R. apply (inv_reach f xs cin c1 c2) in R.
  destruct (inv_obs xs cin c1 c2 s R) as (H1 & H2 & H3 & H4 & H5 & _). auto.
Qed.

Theorem dup_stuck_is_done f xs cin c1 c2 s :
  reach f PD (dup_init xs cin c1 c2) s -> stuck f PD s ->
  all_halted PD s = true /\ cons_log s 2 = xs /\ cons_log s 3 = xs
  /\ ch_closed s 1 = true /\ ch_closed s 2 = true.
Proof.
  intros R St. apply (inv_reach f xs cin c1 c2) in R.
  destruct (all_halted PD s) eqn:E.
  - destruct (inv_obs xs cin c1 c2 s R) as (_ & _ & _ & _ & _ & H6). destruct (H6 E) as (?&?&?&?). auto.
  - destruct (inv_progress f xs cin c1 c2 s R E) as (act & s' & Hs). rewrite St in Hs. discriminate.
Qed.

Theorem dup_measure_decreases f xs cin c1 c2 s act s' :
  reach f PD (dup_init xs cin c1 c2) s -> step f PD s act = Some s' -> mu s' < mu s.
Proof.
  intros R H. apply (inv_reach f xs cin c1 c2) in R.
  exact (proj2 (inv_step f xs cin c1 c2 _ _ _ R H)).
Qed.

Theorem dup_terminates f xs cin c1 c2 l s :
  run f PD (dup_init xs cin c1 c2) l = Some s -> length l <= length xs * 8 + 7.
Proof.
  intros H.
  pose proof (run_bounded f PD (Inv xs cin c1 c2) mu (inv_step f xs cin c1 c2) l _ _
                (inv_init xs cin c1 c2) H) as B.
  unfold init, mk, mu in B; cbn in B. lia.
Qed.

Example dup_example :
  let sched := [Sync 0 1; Tau 1; Sync 1 2; Tau 1; Tau 1; Tau 0; Tau 1; Tau 1; Tau 1; Tau 1;
                Tau 2; Tau 3; Tau 3] in
  match run S PD (dup_init [5] 0 0 1) sched with
  | Some s => all_halted PD s = true /\ cons_log s 2 = [5] /\ cons_log s 3 = [5] /\ enabled S PD s = []
  | None => False
  end.
Proof. vm_compute. auto. Qed.
