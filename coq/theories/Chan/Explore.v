(* Chan/Explore.v — exhaustive schedule exploration with the executable semantics of Sem.v.
   Used only as the SEARCH for a failing schedule when the translated IR is no longer the
   expected IR (DESIGN.md §5) and for the non-vacuity examples; no verdict "held" rests on it.
   Depth-first search over all interleavings with a visited set (states encoded as positives,
   FSetPositive), detecting: panic (send on closed / double close / negative WaitGroup /
   close of nil), a stuck state that is not the good terminal state (deadlock, leaked
   goroutine, lost / duplicated / reordered item), and a cycle (a schedule that never ends). *)
From Coq Require Import List Arith Bool NArith PArith FSets.FSetPositive.
Import ListNotations.
From Verif Require Import Chan.Sem Chan.Expected.

(* ---------- injective-by-construction encoding of states (prefix-free) ---------- *)
Fixpoint epos (p:positive) (k:positive) : positive :=
  match p with
  | xI q => xI (xI (epos q k))
  | xO q => xI (xO (epos q k))
  | xH => xO k
  end.
Definition enat (n:nat) (k:positive) : positive := epos (Pos.of_succ_nat n) k.
Definition ebool (b:bool) (k:positive) : positive := if b then xI k else xO k.
Definition elist {A} (e:A -> positive -> positive) (l:list A) (k:positive) : positive :=
  enat (length l) (fold_right e k l).
Definition evalue (v:value) (k:positive) : positive :=
  match v with
  | VI i => enat 0 (enat i k)
  | VC None => enat 1 k
  | VC (Some c) => enat 2 (enat c k)
  | VB b => enat 3 (ebool b k)
  | VS l => enat 4 (elist enat l k)
  end.
Definition ethread (t:thread) (k:positive) : positive :=
  match t with
  | TProg tm pc e => enat 0 (enat tm (enat pc (elist evalue e k)))
  | TProd c r d => enat 1 (enat c (elist enat r (ebool d k)))
  | TCons c l d => enat 2 (enat c (elist enat l (ebool d k)))
  end.
Definition echan (c:chan) (k:positive) : positive :=
  enat (cap c) (elist enat (buf c) (ebool (closed c) k)).
Definition encode (s:state) : positive :=
  elist ethread (thr s) (elist echan (chs s) (enat (wg s) (ebool (panicked s) xH))).

(* ---------- the search ---------- *)
(* why: 1 panic, 2 stuck but some thread not halted (deadlock / leak), 3 all halted but the
   delivery is wrong (lost / duplicated / reordered item), 4 cycle, 5 search depth exhausted *)
Record sstate := { black : PositiveSet.t; found : option (nat * list action); count : N }.

Section Search.
Variable f : item -> item.
Variable P : list prog.
Variable good : state -> bool.        (* delivery check in an all-halted state *)

Fixpoint dfs (fuel:nat) (s:state) (path:list action) (grey:PositiveSet.t) (st:sstate) : sstate :=
  match found st with Some _ => st | None =>
  let k := encode s in
  if PositiveSet.mem k (black st) then st else
  if panicked s then {| black := black st; found := Some (1, rev path); count := count st |} else
  match fuel with
  | O => {| black := black st; found := Some (5, rev path); count := count st |}
  | S fuel' =>
    match enabled f P s with
    | [] =>
        if all_halted P s
        then if good s
             then {| black := PositiveSet.add k (black st); found := None; count := N.succ (count st) |}
             else {| black := black st; found := Some (3, rev path); count := count st |}
        else {| black := black st; found := Some (2, rev path); count := count st |}
    | acts =>
        let grey' := PositiveSet.add k grey in
        let st' :=
          fold_left (fun st a =>
            match found st with Some _ => st | None =>
            match step f P s a with
            | Some s' =>
                if PositiveSet.mem (encode s') grey'
                then {| black := black st; found := Some (4, rev (a :: path)); count := count st |}
                else dfs fuel' s' (a :: path) grey' st
            | None => st
            end end) acts st in
        match found st' with
        | Some _ => st'
        | None => {| black := PositiveSet.add k (black st'); found := None; count := N.succ (count st') |}
        end
    end
  end end.
End Search.

(* ---------- configurations ---------- *)
Inductive kind := KFmap | KDup | KJoinCC | KJoinSl | KJoinVar.

(* one (capacity, items) pair per input channel; c_outer = capacity of the channel of channels *)
Record config := { c_inputs : list (nat * list item); c_outer : nat }.

Definition fx (x:item) : item := x + 100.

Definition nparamch (k:kind) (n:nat) : nat :=
  match k with KFmap | KDup | KJoinCC => 1 | KJoinSl => 0 | KJoinVar => n end.

Definition is_param_input (k:kind) : bool :=
  match k with KFmap | KDup | KJoinVar => true | _ => false end.

(* channels = parameter channels ++ outs ++ inner channels;
   threads  = parameter producers ++ [main] ++ consumers of the outs ++ inner producers *)
Definition init_state (k:kind) (d:fn) (cfg:config) : state :=
  let ins := c_inputs cfg in
  let n := length ins in
  let npc := nparamch k n in
  let nout := length (fn_outs d) in
  let inner0 := npc + nout in
  let inner_ids := seq inner0 n in
  let mkch (ci:nat * list item) := {| cap := fst ci; buf := []; closed := false |} in
  let param_chs :=
    match k with
    | KFmap | KDup | KJoinVar => map mkch ins
    | KJoinCC => [ {| cap := c_outer cfg; buf := []; closed := false |} ]
    | KJoinSl => []
    end in
  let capof (c:capspec) := match c with
                           | CapZero => 0
                           | CapOf p => match nth_error param_chs p with Some ch => cap ch | None => 0 end
                           end in
  let out_chs := map (fun c => {| cap := capof c; buf := []; closed := false |}) (fn_outs d) in
  let inner_chs := if is_param_input k then [] else map mkch ins in
  let param_prods :=
    match k with
    | KFmap | KDup | KJoinVar => map (fun '(i, ci) => TProd i (snd ci) false) (combine (seq 0 n) ins)
    | KJoinCC => [ TProd 0 inner_ids false ]
    | KJoinSl => []
    end in
  let param_vals :=
    match k with
    | KFmap | KDup | KJoinVar => map (fun i => VC (Some i)) (seq 0 n)
    | KJoinCC => [ VC (Some 0) ]
    | KJoinSl => [ VS inner_ids ]
    end in
  let env := param_vals ++ map (fun i => VC (Some i)) (seq npc nout) ++ repeat (VI 0) (fn_nloc d) in
  let conss := map (fun i => TCons i [] false) (seq npc nout) in
  let inner_prods :=
    if is_param_input k then []
    else map (fun '(i, ci) => TProd i (snd ci) false) (combine inner_ids ins) in
  {| thr := param_prods ++ [TProg 0 0 env] ++ conss ++ inner_prods;
     chs := param_chs ++ out_chs ++ inner_chs; wg := 0; panicked := false |}.

Fixpoint list_eqb (a b:list nat) : bool :=
  match a, b with
  | [], [] => true
  | x :: a', y :: b' => (x =? y) && list_eqb a' b'
  | _, _ => false
  end.
Definition mem_nat (x:nat) (l:list nat) : bool := existsb (Nat.eqb x) l.

(* [log] is an interleaving of the (pairwise disjoint, duplicate-free) lists [ins] *)
Definition interleaved (log:list item) (ins:list (list item)) : bool :=
  (length log =? length (concat ins)) &&
  forallb (fun l => list_eqb (filter (fun x => mem_nat x l) log) l) ins.

Definition good_of (k:kind) (d:fn) (cfg:config) (s:state) : bool :=
  let ins := map snd (c_inputs cfg) in
  let n := length ins in
  let npp := match k with KJoinSl => 0 | KJoinCC => 1 | _ => n end in
  let cons_idx := seq (S npp) (length (fn_outs d)) in
  match k with
  | KFmap => forallb (fun i => list_eqb (cons_log s i) (map fx (concat ins))) cons_idx
  | KDup => forallb (fun i => list_eqb (cons_log s i) (concat ins)) cons_idx
  | _ => forallb (fun i => interleaved (cons_log s i) ins) cons_idx
  end && forallb (fun i => cons_done s i) cons_idx.

Inductive sresult :=
| SFound (why:nat) (cfg:config) (sched:list action)
| SNone (configs:N) (states:N).

Definition search_one (k:kind) (d:fn) (cfg:config) (fuel:nat) : sstate :=
  dfs fx (fn_progs d) (good_of k d cfg) fuel (init_state k d cfg) [] PositiveSet.empty
      {| black := PositiveSet.empty; found := None; count := 0%N |}.

Fixpoint search_all (k:kind) (d:fn) (cfgs:list config) (fuel:nat) (nc ns:N) : sresult :=
  match cfgs with
  | [] => SNone nc ns
  | cfg :: rest =>
      let r := search_one k d cfg fuel in
      match found r with
      | Some (why, sched) => SFound why cfg sched
      | None => search_all k d rest fuel (N.succ nc) (ns + count r)%N
      end
  end.

(* items of input j: 10*(j+1) + 1 .. 10*(j+1) + m  (pairwise distinct across inputs) *)
Definition items_of (j m:nat) : list item := map (fun i => 10 * (S j) + S i) (seq 0 m).

Fixpoint tuples (n:nat) (choices:list nat) : list (list nat) :=
  match n with
  | O => [[]]
  | S n' => flat_map (fun c => map (cons c) (tuples n' choices)) choices
  end.

(* all configurations with exactly n inputs, item counts from [lens], one common capacity from [caps] *)
Definition configs_n (n:nat) (lens caps:list nat) (outers:list nat) : list config :=
  flat_map (fun ls =>
    flat_map (fun c =>
      map (fun o => {| c_inputs := map (fun '(j, m) => (c, items_of j m)) (combine (seq 0 (length ls)) ls);
                       c_outer := o |}) outers) caps)
    (tuples n lens).

Definition configs_for (k:kind) (nvar:nat) (thorough:bool) : list config :=
  match k with
  | KFmap | KDup =>
      configs_n 1 (if thorough then [0;1;2;3;4] else [0;1;2;3]) [0;1;2] [0]
  | KJoinVar =>
      if 3 <=? nvar
      then configs_n nvar (if thorough then [0;1;2] else [0;1]) (if thorough then [0;1;2] else [0;1]) [0]
      else configs_n nvar (if thorough then [0;1;2;3] else [0;1;2]) (if thorough then [0;1;2] else [0;1]) [0]
  | KJoinSl =>
      flat_map (fun n => configs_n n (if thorough then [0;1;2;3] else [0;1;2])
                                   (if thorough then [0;1;2] else [0;1]) [0])
               (if thorough then [0;1;2;3] else [0;1;2])
  | KJoinCC =>
      flat_map (fun n => configs_n n (if thorough then [0;1;2;3] else [0;1;2])
                                   (if thorough then [0;1;2] else [0;1])
                                   (if thorough then [0;1;2] else [0;1]))
               (if thorough then [0;1;2;3] else [0;1;2])
  end.

(* entry point used by the generated search files *)
Definition search (k:kind) (nvar:nat) (d:fn) (thorough:bool) : sresult :=
  search_all k d (configs_for k nvar thorough) 2000 0%N 0%N.

(* replay of a schedule found by the search: the state it leads to (for the replay file) *)
Definition replay (k:kind) (d:fn) (cfg:config) (sched:list action) : option state :=
  run fx (fn_progs d) (init_state k d cfg) sched.
