(* Chan/EnabledComplete.v — the enumeration [enabled] used by the schedule explorer is complete:
   every action that can be taken from a state is listed (so the explorer's DFS really visits
   every interleaving), and sound (Sem.enabled_sound). *)
From Coq Require Import List Arith Bool Lia.
Import ListNotations.
From Verif Require Import Chan.Sem.

Section EC.
Variable f : item -> item.
Variable P : list prog.

Lemma nth_error_lt' {A} (l:list A) n a : nth_error l n = Some a -> n < length l.
Proof. intros H. apply nth_error_Some. congruence. Qed.

Lemma wants_sel_width t cs : wants P t = WSel cs -> sel_width P t = length cs.
Proof.
  destruct t as [tm pc e|c r d|c l d]; cbn.
  - destruct (instr_at P tm pc) as [i|]; [|discriminate].
    destruct i; try discriminate;
      try (destruct (getc e c); discriminate).
    intros H. inversion H. rewrite map_length. reflexivity.
  - destruct d, r; discriminate.
  - destruct d; discriminate.
Qed.

Lemma in_seq0 k n : k < n -> In k (seq 0 n).
Proof. intros. apply in_seq. lia. Qed.

Lemma candidates_complete s a s' : step f P s a = Some s' -> In a (candidates P s).
Proof.
  unfold step, candidates. destruct (panicked s); [discriminate|].
  destruct a as [n | sn rn | n k | sn rn k]; intros H; apply in_or_app.
  - left. destruct (nth_error (thr s) n) as [t|] eqn:E; [|discriminate].
    apply in_flat_map. exists n. split; [apply in_seq0; eapply nth_error_lt'; eauto|]. left; reflexivity.
  - right. destruct (sn =? rn); [discriminate|].
    destruct (nth_error (thr s) sn) as [ts|] eqn:Es; [|discriminate].
    destruct (nth_error (thr s) rn) as [tr|] eqn:Er; [|discriminate].
    destruct (wants P ts) eqn:Ws; try discriminate.
    apply in_flat_map. exists sn. split; [apply in_seq0; eapply nth_error_lt'; eauto|].
    rewrite Es, Ws. apply in_flat_map. exists rn. split; [apply in_seq0; eapply nth_error_lt'; eauto|].
    left; reflexivity.
  - left. destruct (nth_error (thr s) n) as [t|] eqn:E; [|discriminate].
    destruct (wants P t) eqn:W; try discriminate.
    destruct (nth_error cs k) as [oc|] eqn:Ek; [|discriminate].
    apply in_flat_map. exists n. split; [apply in_seq0; eapply nth_error_lt'; eauto|].
    right. rewrite E. apply in_map. apply in_seq0. rewrite (wants_sel_width _ _ W).
    eapply nth_error_lt'; eauto.
  - right. destruct (sn =? rn); [discriminate|].
    destruct (nth_error (thr s) sn) as [ts|] eqn:Es; [|discriminate].
    destruct (nth_error (thr s) rn) as [tr|] eqn:Er; [|discriminate].
    destruct (wants P ts) eqn:Ws; try discriminate.
    destruct (wants P tr) eqn:Wr; try discriminate.
    destruct (nth_error cs k) as [oc|] eqn:Ek; [|discriminate].
    apply in_flat_map. exists sn. split; [apply in_seq0; eapply nth_error_lt'; eauto|].
    rewrite Es, Ws. apply in_flat_map. exists rn. split; [apply in_seq0; eapply nth_error_lt'; eauto|].
    right. rewrite Er. apply in_map. apply in_seq0. rewrite (wants_sel_width _ _ Wr).
    eapply nth_error_lt'; eauto.
Qed.

Theorem enabled_complete s a s' : step f P s a = Some s' -> In a (enabled f P s).
Proof.
  intros H. unfold enabled. apply filter_In. split; [eapply candidates_complete; eauto|].
  rewrite H. reflexivity.
Qed.

(* hence: no enabled action = stuck *)
Corollary enabled_nil_stuck s : enabled f P s = [] -> stuck f P s.
Proof.
  intros E a. destruct (step f P s a) eqn:H; [|reflexivity].
  apply enabled_complete in H. rewrite E in H. destruct H.
Qed.
End EC.
