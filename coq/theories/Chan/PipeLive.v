(* Chan/PipeLive.v — the composed pipeline system (Pipe.v): deadlock freedom (a reachable state that
   is not fully halted has an enabled action), what the invariant says about observations,
   and the final theorems. *)
From Coq Require Import List Arith Bool Lia NArith.
Import ListNotations.
From Verif Require Import Chan.Sem Chan.Expected Chan.Lemmas Chan.Pipe Chan.PipeProofs Chan.Explore.

Local Arguments Nat.ltb : simpl never.
Local Arguments Pipe.N : simpl never.
Local Arguments Pipe.pending : simpl never.

Lemma sumw_pos {A} (w:A -> nat) l : 0 < sumw w l -> exists n a, nth_error l n = Some a /\ 0 < w a.
Proof.
  unfold sumw. induction l as [|h t IH]; simpl; [lia|]. intros H.
  destruct (Nat.eq_dec (w h) 0) as [E|E].
  - destruct IH as (n & a & E1 & E2); [rewrite E in H; exact H|]. exists (S n), a. auto.
  - exists 0, h. simpl. split; [reflexivity|lia].
Qed.

Lemma list_ext {A} (l1 l2:list A) :
  length l1 = length l2 -> (forall j, j < length l1 -> nth_error l1 j = nth_error l2 j) -> l1 = l2.
Proof.
  revert l2; induction l1 as [|h t IH]; intros [|h2 t2] L H; cbn in *; try discriminate; auto.
  pose proof (H 0 ltac:(lia)) as H0. cbn in H0. inversion H0; subst. f_equal.
  apply IH; [lia|]. intros j Hj. apply (H (S j)). lia.
Qed.

Ltac open_cond C :=
  unfold Pipe.Cond in C;
  cbn [brem bpd bbuf bcl fpc fa fok fb ibuf ic mpc mc mok mres ob oc log cd w prods chans fwds dls] in C;
  destruct C as (HLp & HLc & HLd & HK & HP & HM & (b & Hb & Hseq & HMain) & HFm & Hpc & Hoc & Hcd & Hw & H7 & Hli & Hlo).

Ltac open_p p :=
  destruct p as [brem0 bpd0 bbuf0 bcl0 fpc0 fa0 fok0 fb0 ibuf0 ic0 mpc0 mc0 mok0 mres0 ob0 oc0 log0 cd0 w0 prods0 chans0 fwds0 dls0];
  cbn [brem bpd bbuf bcl fpc fa fok fb ibuf ic mpc mc mok mres ob oc log cd w prods chans fwds dls] in *.

Ltac pcs6 pc0 := destruct pc0 as [|[|[|[|[|[|pc0]]]]]]; try lia.
Ltac pcs7 pc0 := destruct pc0 as [|[|[|[|[|[|[|pc0]]]]]]]; try lia.
Ltac pcs9 pc0 := destruct pc0 as [|[|[|[|[|[|[|[|[|pc0]]]]]]]]]; try lia.

Section PIPEL.
Variable f : item -> item.
Variable inputs : list (nat * list item).
Variable xs : list item.
Variables cb cin cout : nat.

Notation Inv := (Inv f inputs cb cin cout).
Notation Cond := (Cond f inputs cb cin cout).
Notation mk := (mk cb cin cout).
Notation N := (N inputs).

Lemma not_true_false b : (b = true -> False) -> b = false.
Proof. destruct b; [intros H; destruct (H eq_refl)|reflexivity]. Qed.

(* an active forwarder (or the producer / consumer it waits for) can move *)
Lemma fwd_progress p m fpc fr fok :
  Cond p -> nth_error (fwds p) m = Some (fwd_thr m fpc fr fok) -> fpc <= 4 ->
  exists act s', step f PP (mk p) act = Some s'.
Proof.
  intros C Ef L4. open_p p. open_cond C.
  assert (Hm : m < N) by (apply nth_error_lt in Ef; lia).
  destruct (HP m Hm) as (cp & its & r & d & ch & dl & E1 & E2 & E3 & E4 & E5 & E6 & E7 & E8 & HF).
  rewrite Ef in HF. cbn in HF. destruct HF as (fpc' & fr' & fok' & Ht & Hf5 & Hits & Hf1 & Hf4).
  unfold fwd_thr in Ht. inversion Ht; subst fpc' fr' fok'. clear Ht.
  destruct ch as [chcap chbuf chcl]. cbn in E4, E6, E7, E8, Hits, Hf1, Hf4. subst chcap d.
  assert (Hact : 1 <= sumw act fwds0).
  { pose proof (sumw_ge act fwds0 m _ Ef) as G. cbn in G.
    destruct (fpc <=? 4) eqn:E; [lia|]. apply Nat.leb_gt in E. lia. }
  pcs6 fpc.
  - (* 0: receive from the inner channel *)
    destruct chbuf as [|i rest].
    + destruct chcl.
      * exists (Tau (4 + N + m)). unfold step; cbn [panicked Pipe.mk]; cbn.
        rewrite <- HLp, nth_error_app_r, Ef. cbn. unfold recv_buf; cbn. rewrite E3. cbn. eauto.
      * destruct r as [|i r].
        -- exists (Tau (4 + m)). unfold step; cbn [panicked Pipe.mk]; cbn.
           rewrite nth_error_app1 by lia. rewrite E2. cbn. rewrite E3. cbn. eauto.
        -- destruct (0 <? cp) eqn:E.
           ++ exists (Tau (4 + m)). unfold step; cbn [panicked Pipe.mk]; cbn.
              rewrite nth_error_app1 by lia. rewrite E2. cbn. rewrite E3. cbn. rewrite E. eauto.
           ++ apply Nat.ltb_ge in E. assert (cp = 0) by lia. subst cp.
              exists (Sync (4 + m) (4 + N + m)). unfold step; cbn [panicked Pipe.mk]; cbn.
              destruct (m =? N + m) eqn:Emm; [apply Nat.eqb_eq in Emm; lia|].
              rewrite nth_error_app1 by lia. rewrite E2.
              rewrite <- HLp, nth_error_app_r, Ef. cbn.
              rewrite Nat.eqb_refl. rewrite E3. cbn. eauto.
    + exists (Tau (4 + N + m)). unfold step; cbn [panicked Pipe.mk]; cbn.
      rewrite <- HLp, nth_error_app_r, Ef. cbn. unfold recv_buf; cbn. rewrite E3. cbn. eauto.
  - exists (Tau (4 + N + m)). unfold step; cbn [panicked Pipe.mk]; cbn.
    rewrite <- HLp, nth_error_app_r, Ef. cbn. eauto.
  - (* 2: send on out *)
    assert (Hm7 : ~ 7 <= mpc0) by (intros L; specialize (H7 L); lia).
    assert (oc0 = false) by (apply not_true_false; intros E; apply Hoc in E; lia). subst oc0.
    assert (cd0 = false) by (apply not_true_false; intros E; destruct (Hcd E); discriminate). subst cd0.
    destruct (length ob0 <? cout) eqn:E.
    + exists (Tau (4 + N + m)). unfold step; cbn [panicked Pipe.mk]; cbn.
      rewrite <- HLp, nth_error_app_r, Ef. cbn. rewrite E. eauto.
    + apply Nat.ltb_ge in E. destruct ob0 as [|o rest].
      * cbn in E, Hlo. assert (Hc : cout = 0) by lia.
        exists (Sync (4 + N + m) 3). unfold step; cbn [panicked Pipe.mk]; cbn.
        rewrite <- HLp, nth_error_app_r, Ef. cbn. rewrite Hc. cbn. eauto.
      * exists (Tau 3). unfold step; cbn [panicked Pipe.mk]; cbn. eauto.
  - exists (Tau (4 + N + m)). unfold step; cbn [panicked Pipe.mk]; cbn.
    rewrite <- HLp, nth_error_app_r, Ef. cbn. eauto.
  - (* 4: wait.Done() *)
    exists (Tau (4 + N + m)). unfold step; cbn [panicked Pipe.mk]; cbn.
    rewrite <- HLp, nth_error_app_r, Ef. cbn.
    destruct w0 as [|k]; [lia|]. eauto.
Qed.

(* in the final phase (main past wait.Wait()) everything has been forwarded *)
Lemma final_facts p :
  Cond p -> 6 <= mpc p -> sumw act (fwds p) = 0 ->
  length (fwds p) = N /\ ic p = true /\ ibuf p = [] /\ fpc p = 6 /\ bpd p = true /\ bcl p = true /\ bbuf p = [] /\
  (forall j, j < N -> exists cp its, nth_error inputs j = Some (cp, its) /\
       nth_error (prods p) j = Some (TProd (3 + j) [] true) /\
       nth_error (chans p) j = Some {| cap := cp; buf := []; closed := true |} /\
       nth_error (dls p) j = Some its /\
       exists fr fok, nth_error (fwds p) j = Some (fwd_thr j 5 fr fok)).
Proof.
  intros C L6 Hz. open_p p. open_cond C.
  assert (HMf : length fwds0 = b /\ ic0 = true /\ ibuf0 = []).
  { unfold MainI in HMain; cbn in HMain. pcs9 mpc0; exact HMain. }
  destruct HMf as (HKb & Hic0 & Hib). subst ibuf0 ic0.
  destruct HFm as (Hf6 & Hbpd & Hbrem & Hf1 & Hf5 & Hic & Hlb).
  assert (fpc0 = 6) by (apply Hic; reflexivity). subst fpc0.
  destruct Hf5 as (Hc & Hbb & Hbr); [lia|]. subst bcl0 bbuf0 brem0 bpd0.
  unfold pending in Hseq. cbn in Hseq.
  assert (b = N). { destruct (N - b) eqn:E; [lia|]. cbn in Hseq. discriminate. }
  subst b. repeat split; auto.
  intros j Hj.
  destruct (HP j Hj) as (cp & its & r & d & ch & dl & E1 & E2 & E3 & E4 & E5 & E6 & E7 & E8 & HF).
  destruct (nth_error fwds0 j) as [t|] eqn:Ef; [|apply nth_error_None in Ef; lia].
  cbn in HF. destruct HF as (fpc & fr & fok & Ht & Hf5 & Hits & Hf1' & Hf4). subst t.
  pose proof (sumw_zero act fwds0 j _ Hz Ef) as Ha. cbn in Ha.
  destruct (fpc <=? 4) eqn:E; [discriminate|]. apply Nat.leb_gt in E.
  assert (fpc = 5) by lia. subst fpc.
  destruct Hf4 as (Hc1 & Hc2 & Hc3); [lia|].
  destruct ch as [chcap chbuf chcl]. cbn in E4, E6, Hc1, Hc2, Hits.
  subst chcap chbuf chcl r d.
  assert (Hd : its = dl) by (rewrite Hits; cbn; rewrite app_nil_r; reflexivity). subst dl.
  exists cp, its. repeat split; auto. exists fr, fok. reflexivity.
Qed.

Lemma final_halted p :
  Cond p -> mpc p = 8 -> cd p = true -> all_halted PP (mk p) = true.
Proof.
  intros C E8 Ecd. pose proof C as C'.
  assert (Hz : sumw act (fwds p) = 0).
  { open_p p. open_cond C'. apply H7. lia. }
  destruct (final_facts p C ltac:(lia) Hz) as (HKN & Hic & Hib & Hfp & Hbpd & Hbcl & Hbb & HF).
  open_p p. subst. unfold all_halted. cbn. rewrite forallb_app. apply andb_true_iff. split.
  - apply forallb_forall. intros t Ht. apply In_nth_error in Ht. destruct Ht as [j Ej].
    open_cond C'. assert (Hj : j < N) by (apply nth_error_lt in Ej; lia).
    destruct (HF j Hj) as (cp & its & _ & E2 & _). rewrite E2 in Ej. inversion Ej. reflexivity.
  - apply forallb_forall. intros t Ht. apply In_nth_error in Ht. destruct Ht as [j Ej].
    assert (Hj : j < N) by (apply nth_error_lt in Ej; lia).
    destruct (HF j Hj) as (cp & its & _ & _ & _ & _ & fr & fok & Ef). rewrite Ef in Ej. inversion Ej. reflexivity.
Qed.

(* ---------- deadlock freedom ---------- *)
Lemma inv_progress s : Inv s -> all_halted PP s = false -> exists act s', step f PP s act = Some s'.
Proof.
  intros [p [-> C]] Hh. pose proof C as C0.
  destruct (Nat.eq_dec (mpc p) 8) as [E8|E8].
  { destruct (cd p) eqn:Ecd; [rewrite (final_halted p C E8 Ecd) in Hh; discriminate|].
    open_p p. open_cond C. subst mpc0.
    assert (oc0 = true) by (apply Hoc; reflexivity). subst oc0. subst cd0.
    exists (Tau 3). unfold step; cbn [panicked Pipe.mk]; cbn. destruct ob0; eauto. }
  destruct (Nat.eq_dec (mpc p) 6) as [E6|E6].
  { destruct (w p) eqn:Ew.
    - open_p p. subst. exists (Tau 2). unfold step; cbn [panicked Pipe.mk]; cbn. eauto.
    - assert (Hpos : 0 < sumw act (fwds p)).
      { open_p p. open_cond C. subst mpc0. cbn in Hw. lia. }
      destruct (sumw_pos act _ Hpos) as (m & t & Ef & Ha).
      assert (exists fpc fr fok, t = fwd_thr m fpc fr fok /\ fpc <= 4) as (fpc & fr & fok & -> & L4).
      { open_p p. open_cond C. assert (Hm : m < N) by (apply nth_error_lt in Ef; lia).
        destruct (HP m Hm) as (cp & its & r & d & ch & dl & _ & _ & _ & _ & _ & _ & _ & _ & HF).
        rewrite Ef in HF. cbn in HF. destruct HF as (fpc & fr & fok & Ht & _). subst t.
        exists fpc, fr, fok. split; [reflexivity|]. cbn in Ha.
        destruct (fpc <=? 4) eqn:E; [apply Nat.leb_le in E; exact E|lia]. }
      exact (fwd_progress p m fpc fr fok C0 Ef L4). }
  open_p p. open_cond C.
  pcs9 mpc0; try (exfalso; auto; fail).
  - (* main at 0: receive from join's input; otherwise the fmap goroutine or the producer of b moves *)
    destruct ibuf0 as [|i r]; [|exists (Tau 2); unfold step; cbn [panicked Pipe.mk]; cbn; eauto].
    destruct ic0; [exists (Tau 2); unfold step; cbn [panicked Pipe.mk]; cbn; eauto|].
    destruct HFm as (Hf6 & Hbpd & Hbrem & Hf1 & Hf5 & Hic & Hlb).
    pcs7 fpc0.
    + destruct bbuf0 as [|i r]; [|exists (Tau 1); unfold step; cbn [panicked Pipe.mk]; cbn; eauto].
      destruct bcl0; [exists (Tau 1); unfold step; cbn [panicked Pipe.mk]; cbn; eauto|].
      subst bpd0. destruct brem0 as [|i r].
      * exists (Tau 0). unfold step; cbn [panicked Pipe.mk]; cbn. eauto.
      * destruct (0 <? cb) eqn:E.
        -- exists (Tau 0). unfold step; cbn [panicked Pipe.mk]; cbn. rewrite E. eauto.
        -- apply Nat.ltb_ge in E. assert (Hc : cb = 0) by lia.
           exists (Sync 0 1). unfold step; cbn [panicked Pipe.mk]; cbn. rewrite Hc. cbn. eauto.
    + exists (Tau 1). unfold step; cbn [panicked Pipe.mk]; cbn. eauto.
    + exists (Tau 1). unfold step; cbn [panicked Pipe.mk]; cbn. eauto.
    + destruct (0 <? cin) eqn:E.
      * exists (Tau 1). unfold step; cbn [panicked Pipe.mk]; cbn. rewrite E. eauto.
      * apply Nat.ltb_ge in E. assert (Hc : cin = 0) by lia.
        exists (Sync 1 2). unfold step; cbn [panicked Pipe.mk]; cbn. rewrite Hc. cbn. eauto.
    + exists (Tau 1). unfold step; cbn [panicked Pipe.mk]; cbn. eauto.
    + exists (Tau 1). unfold step; cbn [panicked Pipe.mk]; cbn. eauto.
  - exists (Tau 2). unfold step; cbn [panicked Pipe.mk]; cbn. eauto.
  - exists (Tau 2). unfold step; cbn [panicked Pipe.mk]; cbn. eauto.
  - exists (Tau 2). unfold step; cbn [panicked Pipe.mk]; cbn. eauto.
  - exists (Tau 2). unfold step; cbn [panicked Pipe.mk]; cbn. eauto.
  - exists (Tau 2). unfold step; cbn [panicked Pipe.mk]; cbn. eauto.
  - assert (oc0 = false) by (apply not_true_false; intros E; apply Hoc in E; lia). subst oc0.
    exists (Tau 2). unfold step; cbn [panicked Pipe.mk]; cbn. eauto.
Qed.

Lemma final_merge p :
  Cond p -> 6 <= mpc p -> sumw act (fwds p) = 0 -> dls p = map snd inputs.
Proof.
  intros C L6 Hz. destruct (final_facts p C L6 Hz) as (_ & _ & _ & _ & _ & _ & _ & HF).
  open_p p. open_cond C. apply list_ext.
  - rewrite map_length. exact HLd.
  - intros j Hj. rewrite HLd in Hj. destruct (HF j Hj) as (cp & its & E1 & _ & _ & E5 & _).
    rewrite E5. symmetry. erewrite map_nth_error; [|exact E1]. reflexivity.
Qed.

Lemma inv_obs s : Inv s ->
  panicked s = false
  /\ (exists dls, length dls = N /\ Merge dls (cons_log s 3 ++ ch_buf s 2) /\
        forall j cp its dl, nth_error inputs j = Some (cp, its) -> nth_error dls j = Some dl ->
                            exists rest, its = dl ++ rest)
  /\ (ch_closed s 2 = true ->
        prod_done s 0 = true /\ ch_closed s 0 = true /\ ch_buf s 0 = []
        /\ ch_closed s 1 = true /\ ch_buf s 1 = []
        /\ option_map (halted PP) (nth_error (thr s) 1) = Some true
        /\ wg s = 0 /\ length (thr s) = 4 + N + N
        /\ (forall j, j < N -> prod_done s (4 + j) = true /\ ch_closed s (3 + j) = true /\ ch_buf s (3 + j) = []
                              /\ option_map (halted PP) (nth_error (thr s) (4 + N + j)) = Some true)
        /\ Merge (map snd inputs) (cons_log s 3 ++ ch_buf s 2))
  /\ (all_halted PP s = true -> Merge (map snd inputs) (cons_log s 3) /\ ch_closed s 2 = true).
Proof.
  intros [p [-> C]]. pose proof C as C0.
  split; [reflexivity|]. split; [|split].
  - open_p p. open_cond C. exists dls0. cbn. repeat split; auto.
    intros j cp its dl E1 E5. assert (Hj : j < N) by (apply nth_error_lt in E1; exact E1).
    destruct (HP j Hj) as (cp' & its' & r & d & ch & dl' & E1' & E2 & E3 & E4 & E5' & E6 & E7 & E8 & HF).
    rewrite E1 in E1'. inversion E1'; subst cp' its'. rewrite E5 in E5'. inversion E5'; subst dl'.
    destruct (nth_error fwds0 j); cbn in HF.
    + destruct HF as (fpc & fr & fok & _ & _ & Hits & _). eauto.
    + destruct HF as [-> Hits]. cbn. eauto.
  - intros Hc.
    assert (E8 : mpc p = 8).
    { open_p p. open_cond C. cbn in Hc. apply Hoc. exact Hc. }
    assert (Hz : sumw act (fwds p) = 0).
    { open_p p. open_cond C. apply H7. lia. }
    destruct (final_facts p C0 ltac:(lia) Hz) as (HKN & Hic & Hib & Hfp & Hbpd & Hbcl & Hbb & HF).
    pose proof (final_merge p C0 ltac:(lia) Hz) as Hd.
    open_p p. open_cond C. subst. cbn.
    repeat split; auto.
    + lia.
    + rewrite app_length. lia.
    + destruct (HF j H) as (cp & its & _ & E2 & _). unfold prod_done. cbn.
      rewrite nth_error_app1 by lia. rewrite E2. reflexivity.
    + destruct (HF j H) as (cp & its & _ & _ & E3 & _). unfold ch_closed. cbn. rewrite E3. reflexivity.
    + destruct (HF j H) as (cp & its & _ & _ & E3 & _). unfold ch_buf. cbn. rewrite E3. reflexivity.
    + destruct (HF j H) as (cp & its & _ & _ & _ & _ & fr & fok & Ef).
      rewrite <- HLp at 1. rewrite nth_error_app_r. rewrite Ef. reflexivity.
  - intros Hh. unfold all_halted in Hh.
    open_p p. cbn in Hh. apply andb_true_iff in Hh. destruct Hh as [Ho Hh].
    apply andb_true_iff in Hh. destruct Hh as [Hfm Hh].
    apply andb_true_iff in Hh. destruct Hh as [Hm Hh].
    apply andb_true_iff in Hh. destruct Hh as [Hcd' _].
    open_cond C.
    assert (E8 : mpc0 = 8) by (pcs9 mpc0; cbn in Hm; try discriminate; reflexivity).
    subst mpc0 cd0.
    assert (Hz : sumw act fwds0 = 0) by (apply H7; lia).
    pose proof (final_merge _ C0 ltac:(cbn; lia) Hz) as Hd. cbn in Hd. subst dls0.
    destruct Hcd as [Hc1 Hc2]; [reflexivity|]. subst. cbn. rewrite app_nil_r in HM. auto.
Qed.

End PIPEL.

(* ---------- the theorems ---------- *)
Definition pipe_init := Pipe.init.

(* g (here: the item function f) maps the items of b, in order, to the inner channels 3, 4, .. *)
Theorem pipeline_safety f inputs xs cb cin cout s :
  map f xs = seq 3 (length inputs) ->
  reach f PP (pipe_init inputs xs cb cin cout) s ->
  panicked s = false
  /\ (exists dls, length dls = length inputs /\ Merge dls (cons_log s 3 ++ ch_buf s 2) /\
        forall j cp its dl, nth_error inputs j = Some (cp, its) -> nth_error dls j = Some dl ->
                            exists rest, its = dl ++ rest)
  /\ (ch_closed s 2 = true ->
        prod_done s 0 = true /\ ch_closed s 0 = true /\ ch_buf s 0 = []
        /\ ch_closed s 1 = true /\ ch_buf s 1 = []
        /\ option_map (halted PP) (nth_error (thr s) 1) = Some true
        /\ wg s = 0 /\ length (thr s) = 4 + length inputs + length inputs
        /\ (forall j, j < length inputs ->
               prod_done s (4 + j) = true /\ ch_closed s (3 + j) = true /\ ch_buf s (3 + j) = []
               /\ option_map (halted PP) (nth_error (thr s) (4 + length inputs + j)) = Some true)
        /\ Merge (map snd inputs) (cons_log s 3 ++ ch_buf s 2)).
Proof.
  intros Hxs R. apply (inv_reach f inputs xs cb cin cout s Hxs) in R.
  destruct (inv_obs f inputs cb cin cout s R) as (H1 & H2 & H3 & _). auto.
Qed.

Theorem pipeline_stuck_is_done f inputs xs cb cin cout s :
  map f xs = seq 3 (length inputs) ->
  reach f PP (pipe_init inputs xs cb cin cout) s -> stuck f PP s ->
  all_halted PP s = true /\ Merge (map snd inputs) (cons_log s 3) /\ ch_closed s 2 = true.
Proof.
  intros Hxs R St. apply (inv_reach f inputs xs cb cin cout s Hxs) in R.
  destruct (all_halted PP s) eqn:E.
  - destruct (inv_obs f inputs cb cin cout s R) as (_ & _ & _ & H4). destruct (H4 E). auto.
  - destruct (inv_progress f inputs cb cin cout s R E) as (act & s' & Hs). rewrite St in Hs. discriminate.
Qed.

Theorem pipeline_measure_decreases f inputs xs cb cin cout s act s' :
  map f xs = seq 3 (length inputs) ->
  reach f PP (pipe_init inputs xs cb cin cout) s -> step f PP s act = Some s' -> Pipe.mu s' < Pipe.mu s.
Proof.
  intros Hxs R H. apply (inv_reach f inputs xs cb cin cout s Hxs) in R.
  exact (proj2 (inv_step f inputs cb cin cout _ _ _ R H)).
Qed.

Theorem pipeline_terminates f inputs xs cb cin cout l s :
  map f xs = seq 3 (length inputs) ->
  run f PP (pipe_init inputs xs cb cin cout) l = Some s ->
  length l <= Pipe.mu (pipe_init inputs xs cb cin cout).
Proof.
  intros Hxs H.
  pose proof (run_bounded f PP (Inv f inputs cb cin cout) Pipe.mu (inv_step f inputs cb cin cout) l _ _
                (inv_init f inputs xs cb cin cout Hxs) H) as B.
  unfold pipe_init. lia.
Qed.

(* non-vacuity: g = identity on channel ids, b carries the ids 3, 4; every maximal schedule of this
   configuration ends in the good terminal state (exhaustive) *)
Example pipeline_example_hyp : map (fun x => x) [3; 4] = seq 3 (length [(0, [11; 12]); (1, [21])]).
Proof. reflexivity. Qed.
Example pipeline_example_runs :
  found (dfs (fun x => x) PP
           (fun s => interleaved (cons_log s 3) [[11; 12]; [21]] && cons_done s 3) 2000
           (pipe_init [(0, [11; 12]); (1, [21])] [3; 4] 0 0 0) [] FSets.FSetPositive.PositiveSet.empty
           {| black := FSets.FSetPositive.PositiveSet.empty; found := None; count := 0%N |}) = None.
Proof. vm_compute. reflexivity. Qed.
