(* Chan/SearchSelfTest.v — the schedule search must find the failing schedule of known-bad
   variants of the combinators (regression corpus of the (T) path: these are the IRs that the
   mutation experiments of notes/C19.md produced). *)
From Coq Require Import List Arith NArith.
Import ListNotations.
From Verif Require Import Chan.Sem Chan.Expected Chan.Explore.

Definition why_of (r:sresult) : nat := match r with SFound w _ _ => w | SNone _ _ => 0 end.

(* wait.Add(1) inside the spawned goroutine: Wait can return early, close(out), then a forwarder
   sends on the closed channel *)
Definition bad_join_add_inside : fn :=
  {| fn_params := [PChanChan]; fn_outs := [CapZero]; fn_nloc := 3; fn_ret := [1];
     fn_progs := [ [RecvC 0 2 3; Br 3 2 5; Mov 4 2; Spawn 1 [4; 1] 2; Jmp 0; WgWait; Close 1; Halt];
                   [WgAdd; Recv 0 2 3; Br 3 3 5; Send 1 2; Jmp 1; WgDone; Halt] ] |}.
Example selftest_add_inside : why_of (search KJoinCC 0 bad_join_add_inside false) = 1.
Proof. vm_compute. reflexivity. Qed.

(* close(out) before wait.Wait() *)
Definition bad_joinsl_close_first : fn :=
  {| fn_params := [PSliceChan]; fn_outs := [CapZero]; fn_nloc := 2; fn_ret := [1];
     fn_progs := [ [Next 0 2 1 5; WgAdd; Mov 3 2; Spawn 1 [3; 1] 2; Jmp 0; Close 1; WgWait; Halt]; fwd_prog ] |}.
Example selftest_close_first : why_of (search KJoinSl 0 bad_joinsl_close_first false) = 1.
Proof. vm_compute. reflexivity. Qed.

(* fmap without close(out): the consumer waits forever *)
Definition bad_fmap_no_close : fn :=
  {| fn_params := [PChan]; fn_outs := [CapOf 0]; fn_nloc := 3; fn_ret := [1];
     fn_progs := [ [Recv 0 2 3; Br 3 2 5; App 4 2; Send 1 4; Jmp 0; Halt] ] |}.
Example selftest_no_close : why_of (search KFmap 0 bad_fmap_no_close false) = 2.
Proof. vm_compute. reflexivity. Qed.

(* dup sending twice on cc1: duplicated item *)
Definition bad_dup_twice : fn :=
  {| fn_params := [PChan]; fn_outs := [CapOf 0; CapOf 0]; fn_nloc := 2; fn_ret := [1; 2];
     fn_progs := [ [Recv 0 3 4; Br 4 2 6; Send 1 3; Send 1 3; Send 2 3; Jmp 0; Close 1; Close 2; Halt] ] |}.
Example selftest_dup_twice : why_of (search KDup 0 bad_dup_twice false) = 3.
Proof. vm_compute. reflexivity. Qed.

(* variadic join that forgets to nil a closed input: spins forever on the closed channel *)
Definition bad_joinvar_no_nil : fn :=
  {| fn_params := [PChan; PChan]; fn_outs := [CapZero]; fn_nloc := 4; fn_ret := [2];
     fn_progs := [ [ BrNil 0 1 2; BrNil 1 12 2;
                     Select [(0,3,4,3); (1,5,6,7)];
                     Br 4 5 4; Jmp 6; Send 2 3; Jmp 11;
                     Br 6 9 8; Jmp 10; Send 2 5; Jmp 11;
                     Jmp 0; Close 2; Halt ] ] |}.
Example selftest_no_nil : why_of (search KJoinVar 2 bad_joinvar_no_nil false) = 4.
Proof. vm_compute. reflexivity. Qed.

(* and the expected IRs pass the same searches *)
Example selftest_expected_ok :
  why_of (search KFmap 0 exp_fmap false) = 0 /\ why_of (search KDup 0 exp_dup false) = 0 /\
  why_of (search KJoinVar 2 (exp_join_var 2) false) = 0.
Proof. vm_compute. auto. Qed.
