(* Chan/Sem.v — IR for the goroutine programs emitted by goderive's channel combinators and
   an executable interleaving small-step semantics (DESIGN.md §3.5).

   A program is a list of goroutine templates (template 0 = the goroutine started by the
   derived function); a template is a list of instructions addressed by pc.  Channels are
   {cap; buf; closed}; an unbuffered channel (cap = 0) transfers by rendezvous ([Sync]),
   a buffered one through its buffer ([Tau]).  The environment (the caller's producers and
   consumers) consists of threads too: [TProd] sends a list of items and closes, [TCons]
   receives until closed and logs what it received.

   The same [step] is used in the proofs, in the schedule explorer (Explore.v) and in the
   evaluator of observed histories.  Standard library only; no axioms. *)
From Coq Require Import List Arith Bool Lia.
Import ListNotations.

Definition item := nat.
Definition var := nat.
Definition cid := nat.

Inductive value := VI (i:item) | VC (c:option cid) | VB (b:bool) | VS (l:list cid).

Inductive instr :=
| Recv (c x ok:var)                 (* x, ok := <-c          (element is a plain item) *)
| RecvC (c x ok:var)                (* x, ok := <-c          (element is a channel)    *)
| Send (c x:var)                    (* c <- x *)
| Close (c:var)                     (* close(c) *)
| App (y x:var)                     (* y := f(x) *)
| Mov (y x:var)                     (* y := x *)
| SetNil (c:var)                    (* c = nil *)
| Br (b:var) (pt pf:nat)            (* if b goto pt else pf *)
| BrNil (c:var) (pnil pnon:nat)     (* if c == nil goto pnil else pnon *)
| Jmp (pc:nat)
| Next (s c:var) (pbody pexit:nat)  (* for _, c := range s : pop the head of the slice s *)
| Select (cases:list (var*var*var*nat))  (* select { case x, ok := <-c: goto pc ... } *)
| WgAdd | WgDone | WgWait           (* the (single) sync.WaitGroup of the function *)
| Spawn (t:nat) (binds:list var) (nloc:nat)  (* go template t with captured variables *)
| Halt.

Definition prog := list instr.

Record chan := { cap : nat; buf : list item; closed : bool }.

Inductive thread :=
| TProg (t:nat) (pc:nat) (env:list value)
| TProd (c:cid) (rem:list item) (done:bool)      (* environment producer: sends rem, then closes *)
| TCons (c:cid) (log:list item) (done:bool).     (* environment consumer: receives until closed *)

Record state := { thr : list thread; chs : list chan; wg : nat; panicked : bool }.

Fixpoint upd {A} (l:list A) (n:nat) (a:A) : list A :=
  match l, n with
  | [], _ => []
  | _::t, O => a::t
  | h::t, S n => h :: upd t n a
  end.

Definition getc (e:list value) (v:var) : option cid :=
  match nth_error e v with Some (VC c) => c | _ => None end.
Definition geti (e:list value) (v:var) : item :=
  match nth_error e v with Some (VI i) => i | _ => 0 end.
Definition getb (e:list value) (v:var) : bool :=
  match nth_error e v with Some (VB b) => b | _ => false end.
Definition getv (e:list value) (v:var) : value :=
  match nth_error e v with Some x => x | None => VI 0 end.
Definition gets (e:list value) (v:var) : list cid :=
  match nth_error e v with Some (VS l) => l | _ => [] end.

(* what a thread wants to do next *)
Inductive want :=
| WSend (c:cid) (i:item) | WRecv (c:cid) | WClose (c:cid)
| WSel (cs:list (option cid))
| WAdd | WDone | WWait
| WSpawn (nt:thread)
| WPanic                  (* close of a nil channel *)
| WLocal | WNone.

Section Sem.
Variable f : item -> item.
Variable P : list prog.

Definition code (t:nat) : prog := nth t P [].
Definition instr_at (t pc:nat) : option instr := nth_error (code t) pc.

Definition wants (t:thread) : want :=
  match t with
  | TProg tm pc e =>
      match instr_at tm pc with
      | Some (Recv c _ _) => match getc e c with Some c => WRecv c | None => WNone end
      | Some (RecvC c _ _) => match getc e c with Some c => WRecv c | None => WNone end
      | Some (Send c x) => match getc e c with Some c => WSend c (geti e x) | None => WNone end
      | Some (Close c) => match getc e c with Some c => WClose c | None => WPanic end
      | Some (Select cases) => WSel (map (fun '(c,_,_,_) => getc e c) cases)
      | Some WgAdd => WAdd
      | Some WgDone => WDone
      | Some WgWait => WWait
      | Some (Spawn tn binds nloc) =>
          WSpawn (TProg tn 0 (map (getv e) binds ++ repeat (VI 0) nloc))
      | Some Halt | None => WNone
      | Some _ => WLocal
      end
  | TProd c (i::_) false => WSend c i
  | TProd c [] false => WClose c
  | TProd _ _ true => WNone
  | TCons c _ false => WRecv c
  | TCons _ _ true => WNone
  end.

(* thread continuations *)
Definition adv (t:thread) : thread :=
  match t with TProg tm pc e => TProg tm (S pc) e | _ => t end.

Definition after_send (t:thread) : thread :=
  match t with
  | TProg tm pc e => TProg tm (S pc) e
  | TProd c (_::r) d => TProd c r d
  | _ => t
  end.
Definition after_recv (t:thread) (i:item) (ok:bool) : thread :=
  match t with
  | TProg tm pc e =>
      match instr_at tm pc with
      | Some (Recv _ x okv) => TProg tm (S pc) (upd (upd e x (VI i)) okv (VB ok))
      | Some (RecvC _ x okv) =>
          TProg tm (S pc) (upd (upd e x (VC (if ok then Some i else None))) okv (VB ok))
      | _ => t
      end
  | TCons c log d => if ok then TCons c (log ++ [i]) d else TCons c log true
  | _ => t
  end.
Definition after_sel (t:thread) (k:nat) (i:item) (ok:bool) : thread :=
  match t with
  | TProg tm pc e =>
      match instr_at tm pc with
      | Some (Select cases) =>
          match nth_error cases k with
          | Some (_, x, okv, pc') => TProg tm pc' (upd (upd e x (VI i)) okv (VB ok))
          | None => t
          end
      | _ => t
      end
  | _ => t
  end.
Definition after_close (t:thread) : thread :=
  match t with
  | TProg tm pc e => TProg tm (S pc) e
  | TProd c r _ => TProd c r true
  | _ => t
  end.
Definition local_step (t:thread) : thread :=
  match t with
  | TProg tm pc e =>
      match instr_at tm pc with
      | Some (App y x) => TProg tm (S pc) (upd e y (VI (f (geti e x))))
      | Some (Mov y x) => TProg tm (S pc) (upd e y (getv e x))
      | Some (SetNil c) => TProg tm (S pc) (upd e c (VC None))
      | Some (Br b pt pf) => TProg tm (if getb e b then pt else pf) e
      | Some (BrNil c pn pnn) => TProg tm (match getc e c with None => pn | Some _ => pnn end) e
      | Some (Jmp pc') => TProg tm pc' e
      | Some (Next s c pb pe) =>
          match gets e s with
          | [] => TProg tm pe e
          | h :: r => TProg tm pb (upd (upd e c (VC (Some h))) s (VS r))
          end
      | _ => t
      end
  | _ => t
  end.

Inductive action :=
| Tau (t:nat)                (* thread t takes a step on its own *)
| Sync (s r:nat)             (* rendezvous on an unbuffered channel: s sends, r receives *)
| TauSel (t k:nat)           (* thread t takes case k of its select (buffer / closed) *)
| SyncSel (s r k:nat).       (* rendezvous into case k of r's select *)

Definition set_thr (s:state) n t :=
  {| thr := upd (thr s) n t; chs := chs s; wg := wg s; panicked := panicked s |}.
Definition add_thr (s:state) t :=
  {| thr := thr s ++ [t]; chs := chs s; wg := wg s; panicked := panicked s |}.
Definition set_ch (s:state) n c :=
  {| thr := thr s; chs := upd (chs s) n c; wg := wg s; panicked := panicked s |}.
Definition set_wg (s:state) n :=
  {| thr := thr s; chs := chs s; wg := n; panicked := panicked s |}.
Definition set_panic (s:state) :=
  {| thr := thr s; chs := chs s; wg := wg s; panicked := true |}.

(* receive from channel c through its buffer or its closed flag; k builds the receiver *)
Definition recv_buf (s:state) (n:nat) (c:cid) (k:item -> bool -> thread) : option state :=
  match nth_error (chs s) c with
  | None => None
  | Some ch =>
      match buf ch with
      | i :: r => Some (set_ch (set_thr s n (k i true)) c
                          {| cap := cap ch; buf := r; closed := closed ch |})
      | [] => if closed ch then Some (set_thr s n (k 0 false)) else None
      end
  end.

Definition step (s:state) (a:action) : option state :=
  if panicked s then None else
  match a with
  | Tau n =>
      match nth_error (thr s) n with
      | None => None
      | Some t =>
        match wants t with
        | WNone => None
        | WSel _ => None
        | WLocal => Some (set_thr s n (local_step t))
        | WPanic => Some (set_panic s)
        | WAdd => Some (set_wg (set_thr s n (adv t)) (S (wg s)))
        | WDone => match wg s with
                   | 0 => Some (set_panic s)
                   | S k => Some (set_wg (set_thr s n (adv t)) k)
                   end
        | WWait => match wg s with
                   | 0 => Some (set_thr s n (adv t))
                   | S _ => None
                   end
        | WSpawn nt => Some (add_thr (set_thr s n (adv t)) nt)
        | WClose c =>
            match nth_error (chs s) c with
            | None => None
            | Some ch => if closed ch then Some (set_panic s)
                         else Some (set_ch (set_thr s n (after_close t)) c
                                      {| cap := cap ch; buf := buf ch; closed := true |})
            end
        | WSend c i =>
            match nth_error (chs s) c with
            | None => None
            | Some ch => if closed ch then Some (set_panic s)
                         else if length (buf ch) <? cap ch
                         then Some (set_ch (set_thr s n (after_send t)) c
                                      {| cap := cap ch; buf := buf ch ++ [i]; closed := false |})
                         else None
            end
        | WRecv c => recv_buf s n c (after_recv t)
        end
      end
  | TauSel n k =>
      match nth_error (thr s) n with
      | None => None
      | Some t =>
        match wants t with
        | WSel cs => match nth_error cs k with
                     | Some (Some c) => recv_buf s n c (after_sel t k)
                     | _ => None
                     end
        | _ => None
        end
      end
  | Sync sn rn =>
      if sn =? rn then None else
      match nth_error (thr s) sn, nth_error (thr s) rn with
      | Some ts, Some tr =>
          match wants ts, wants tr with
          | WSend c i, WRecv c' =>
              if c =? c' then
                match nth_error (chs s) c with
                | Some ch => if closed ch || negb (cap ch =? 0) then None
                             else Some (set_thr (set_thr s sn (after_send ts)) rn (after_recv tr i true))
                | None => None
                end
              else None
          | _, _ => None
          end
      | _, _ => None
      end
  | SyncSel sn rn k =>
      if sn =? rn then None else
      match nth_error (thr s) sn, nth_error (thr s) rn with
      | Some ts, Some tr =>
          match wants ts, wants tr with
          | WSend c i, WSel cs =>
              match nth_error cs k with
              | Some (Some c') =>
                if c =? c' then
                  match nth_error (chs s) c with
                  | Some ch => if closed ch || negb (cap ch =? 0) then None
                               else Some (set_thr (set_thr s sn (after_send ts)) rn (after_sel tr k i true))
                  | None => None
                  end
                else None
              | _ => None
              end
          | _, _ => None
          end
      | _, _ => None
      end
  end.

Inductive reach (s0:state) : state -> Prop :=
| reach0 : reach s0 s0
| reachS s a s' : reach s0 s -> step s a = Some s' -> reach s0 s'.

Lemma reach_inv (I:state -> Prop) s0 :
  I s0 -> (forall s a s', I s -> step s a = Some s' -> I s') ->
  forall s, reach s0 s -> I s.
Proof. intros H0 HS s R. induction R; eauto. Qed.

Lemma reach_trans s0 s1 s2 : reach s0 s1 -> reach s1 s2 -> reach s0 s2.
Proof. intros R1 R2. induction R2; [assumption|]. eapply reachS; eauto. Qed.

(* an execution: the list of actions leading from s to s' *)
Fixpoint run (s:state) (l:list action) : option state :=
  match l with
  | [] => Some s
  | a :: t => match step s a with Some s' => run s' t | None => None end
  end.

Lemma run_reach s0 : forall l s s', reach s0 s -> run s l = Some s' -> reach s0 s'.
Proof.
  induction l as [|a t IH]; intros s s' R H; cbn in H.
  - inversion H; subst; assumption.
  - destruct (step s a) eqn:E; [|discriminate]. eapply IH; [|exact H]. eapply reachS; eauto.
Qed.

(* every execution is bounded by a measure that each step decreases *)
Lemma run_bounded (I:state -> Prop) (mu:state -> nat) :
  (forall s a s', I s -> step s a = Some s' -> I s' /\ mu s' < mu s) ->
  forall l s s', I s -> run s l = Some s' -> length l + mu s' <= mu s.
Proof.
  intros HS. induction l as [|a t IH]; intros s s' Hi H; cbn in H.
  - inversion H; subst. cbn. lia.
  - destruct (step s a) eqn:E; [|discriminate].
    destruct (HS _ _ _ Hi E) as [Hi' Hlt]. specialize (IH _ _ Hi' H). cbn. lia.
Qed.

(* ---------- termination status of threads ---------- *)
Definition halted (t:thread) : bool :=
  match t with
  | TProg tm pc _ => match instr_at tm pc with Some Halt => true | _ => false end
  | TProd _ _ d => d
  | TCons _ _ d => d
  end.
Definition all_halted (s:state) : bool := forallb halted (thr s).

(* no action is possible *)
Definition stuck (s:state) : Prop := forall a, step s a = None.

(* ---------- enumeration of the enabled actions (for the explorer) ---------- *)
Definition sel_width (t:thread) : nat :=
  match t with
  | TProg tm pc _ => match instr_at tm pc with Some (Select cs) => length cs | _ => 0 end
  | _ => 0
  end.

Definition candidates (s:state) : list action :=
  let n := length (thr s) in
  let idx := seq 0 n in
  flat_map (fun t =>
    Tau t ::
    map (TauSel t) (seq 0 (match nth_error (thr s) t with Some th => sel_width th | None => 0 end)))
    idx ++
  flat_map (fun sn =>
    match nth_error (thr s) sn with
    | Some ts =>
        match wants ts with
        | WSend _ _ =>
            flat_map (fun rn =>
              Sync sn rn ::
              map (SyncSel sn rn)
                  (seq 0 (match nth_error (thr s) rn with Some th => sel_width th | None => 0 end)))
              idx
        | _ => []
        end
    | None => []
    end) idx.

Definition is_some {A} (o:option A) : bool := match o with Some _ => true | None => false end.

Definition enabled (s:state) : list action :=
  filter (fun a => is_some (step s a)) (candidates s).

Lemma enabled_sound s a : In a (enabled s) -> exists s', step s a = Some s'.
Proof.
  unfold enabled. intros H. apply filter_In in H. destruct H as [_ H].
  destruct (step s a); [eauto|discriminate].
Qed.

End Sem.

(* observations on a state *)
Definition cons_log (s:state) (n:nat) : list item :=
  match nth_error (thr s) n with Some (TCons _ l _) => l | _ => [] end.
Definition cons_done (s:state) (n:nat) : bool :=
  match nth_error (thr s) n with Some (TCons _ _ d) => d | _ => false end.
Definition prod_done (s:state) (n:nat) : bool :=
  match nth_error (thr s) n with Some (TProd _ _ d) => d | _ => false end.
Definition prod_rem (s:state) (n:nat) : list item :=
  match nth_error (thr s) n with Some (TProd _ r _) => r | _ => [] end.
Definition ch_closed (s:state) (c:cid) : bool :=
  match nth_error (chs s) c with Some ch => closed ch | None => false end.
Definition ch_buf (s:state) (c:cid) : list item :=
  match nth_error (chs s) c with Some ch => buf ch | None => [] end.
