(* Chan/Bounded.v — the parts of C19 that are NOT proved for all sizes: the variadic select
   form of deriveJoin and the composition derivePipeline = Join . Fmap.  For these only a
   bounded statement is established (exhaustive exploration of ALL interleavings of the
   expected IR for the listed small configurations, by vm_compute in the kernel); the
   theorems are therefore named ..._partial.  What is missing is said at each. *)
From Coq Require Import List Arith Bool NArith FSets.FSetPositive.
Import ListNotations.
From Verif Require Import Chan.Sem Chan.Expected Chan.Explore.

(* ---------- variadic deriveJoin(c0, c1, ...) (select loop that nils out closed inputs) ---------- *)
Definition no_violation (r:sresult) : bool := match r with SNone _ _ => true | SFound _ _ _ => false end.

(* n = 2: every interleaving for all item counts 0..2 per input x capacities 0..1 (18 configurations);
   n = 3: item counts 0..1 x capacities 0..1 *)
Definition joinvar_configs2 : list config := configs_n 2 [0;1;2] [0;1] [0].
Definition joinvar_configs3 : list config := configs_n 3 [0;1] [0;1] [0].

Lemma joinvar2_bounded :
  no_violation (search_all KJoinVar (exp_join_var 2) joinvar_configs2 2000 0%N 0%N) = true.
Proof. vm_compute. reflexivity. Qed.
Lemma joinvar3_bounded :
  no_violation (search_all KJoinVar (exp_join_var 3) joinvar_configs3 2000 0%N 0%N) = true.
Proof. vm_compute. reflexivity. Qed.

(* ---------- pipeline: the goroutine of deriveFmap(g, b) feeds deriveJoin ---------- *)
(* templates: 0 join main, 1 forwarder, 2 the fmap goroutine.
   channels: 0 = fmap's out = join's in (capacity cap(b)), 1 = out, 2+j = the channel returned
   by g(x_j), 2+n = b (returned by f(a)).  g is modelled by the identity on channel ids: the
   items on b are the ids of the channels g returns; their producers exist from the start.
   threads: [fmap goroutine; join main; consumer] ++ producers of the g(x_j) ++ [producer of b] *)
Definition pipe_progs : list prog := fn_progs exp_join_cc ++ [fmap_main].

Definition pipe_init (cfg:config) : state :=
  let ins := c_inputs cfg in
  let n := length ins in
  let ids := seq 2 n in
  let bch := 2 + n in
  {| thr := [ TProg 2 0 [VC (Some bch); VC (Some 0); VI 0; VB false; VI 0];
              TProg 0 0 [VC (Some 0); VC (Some 1); VI 0; VI 0; VI 0];
              TCons 1 [] false ]
            ++ map (fun '(i, ci) => TProd i (snd ci) false) (combine ids ins)
            ++ [ TProd bch ids false ];
     chs := [ {| cap := c_outer cfg; buf := []; closed := false |};
              {| cap := 0; buf := []; closed := false |} ]
            ++ map (fun ci:nat * list item => {| cap := fst ci; buf := []; closed := false |}) ins
            ++ [ {| cap := c_outer cfg; buf := []; closed := false |} ];
     wg := 0; panicked := false |}.

Definition pipe_good (cfg:config) (s:state) : bool :=
  interleaved (cons_log s 2) (map snd (c_inputs cfg)) && cons_done s 2.

Definition pipe_search_one (cfg:config) : sstate :=
  dfs (fun x => x) pipe_progs (pipe_good cfg) 2000 (pipe_init cfg) [] PositiveSet.empty
      {| black := PositiveSet.empty; found := None; count := 0%N |}.

(* 0..1 inner channels: 0..2 items x capacities 0..1 x cap(b) 0..1; 2 inner channels: 0..1 items each
   (all capacities), and 2 items each with cap(b) = 0 *)
Definition pipe_configs : list config :=
  flat_map (fun n => configs_n n [0;1;2] [0;1] [0;1]) [0;1]
  ++ configs_n 2 [0;1] [0;1] [0;1] ++ configs_n 2 [2] [0;1] [0].

Lemma pipeline_bounded :
  forallb (fun cfg => match found (pipe_search_one cfg) with None => true | Some _ => false end)
          pipe_configs = true.
Proof. vm_compute. reflexivity. Qed.
