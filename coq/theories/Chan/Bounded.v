(* Chan/Bounded.v — bounded cross-check of the variadic select form of deriveJoin: exhaustive
   exploration of ALL interleavings of the expected IR for the listed small configurations, by
   vm_compute in the kernel.  The variadic form is NO LONGER partial: safety, termination,
   deadlock freedom, absence of leaks and "out closed only after every input is drained" are
   proved for all n >= 1, item lists, capacities and interleavings in JoinVarProofs.v /
   JoinVarLive.v / JoinVarLive2.v.  The bounded statement keeps its historical name
   (..._bounded_partial: it is partial in that it covers only these configurations); it remains
   true and is kept as an independent check of the explorer against the proved theorems. *)
From Coq Require Import List Arith Bool NArith FSets.FSetPositive.
Import ListNotations.
From Verif Require Import Chan.Sem Chan.Expected Chan.Explore.

(* ---------- variadic deriveJoin(c0, c1, ...) (select loop that nils out closed inputs) ---------- *)
Definition no_violation (r:sresult) : bool := match r with SNone _ _ => true | SFound _ _ _ => false end.

(* n = 2: every interleaving for all item counts 0..2 per input x capacities 0..1 (18 configurations);
   n = 3: item counts 0..1 x capacities 0..1 *)
Definition joinvar_configs2 : list config := configs_n 2 [0;1;2] [0;1] [0].
Definition joinvar_configs3 : list config := configs_n 3 [0;1] [0;1] [0].

Lemma joinvar2_bounded :
  no_violation (search_all KJoinVar (exp_join_var 2) joinvar_configs2 2000 0%N 0%N) = true.
Proof. vm_compute. reflexivity. Qed.
Lemma joinvar3_bounded :
  no_violation (search_all KJoinVar (exp_join_var 3) joinvar_configs3 2000 0%N 0%N) = true.
Proof. vm_compute. reflexivity. Qed.

