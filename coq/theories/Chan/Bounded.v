(* Chan/Bounded.v — the parts of C19 that are NOT proved for all sizes: the variadic select
   form of deriveJoin.  For it only a
   bounded statement is established (exhaustive exploration of ALL interleavings of the
   expected IR for the listed small configurations, by vm_compute in the kernel); the
   theorems are therefore named ..._partial.  What is missing is said at each. *)
From Coq Require Import List Arith Bool NArith FSets.FSetPositive.
Import ListNotations.
From Verif Require Import Chan.Sem Chan.Expected Chan.Explore.

(* ---------- variadic deriveJoin(c0, c1, ...) (select loop that nils out closed inputs) ---------- *)
Definition no_violation (r:sresult) : bool := match r with SNone _ _ => true | SFound _ _ _ => false end.

(* n = 2: every interleaving for all item counts 0..2 per input x capacities 0..1 (18 configurations);
   n = 3: item counts 0..1 x capacities 0..1 *)
Definition joinvar_configs2 : list config := configs_n 2 [0;1;2] [0;1] [0].
Definition joinvar_configs3 : list config := configs_n 3 [0;1] [0;1] [0].

Lemma joinvar2_bounded :
  no_violation (search_all KJoinVar (exp_join_var 2) joinvar_configs2 2000 0%N 0%N) = true.
Proof. vm_compute. reflexivity. Qed.
Lemma joinvar3_bounded :
  no_violation (search_all KJoinVar (exp_join_var 3) joinvar_configs3 2000 0%N 0%N) = true.
Proof. vm_compute. reflexivity. Qed.

