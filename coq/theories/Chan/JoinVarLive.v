(* Chan/JoinVarLive.v — variadic deriveJoin(c0, ..., c(n-1)), any n >= 1: initial state, safety
   in every reachable state, decreasing measure and termination. *)
From Coq Require Import List Arith Bool Lia.
Import ListNotations.
From Verif Require Import Chan.Sem Chan.Expected Chan.Lemmas Chan.JoinVar Chan.JoinVarProofs Chan.Explore.

Local Arguments JoinVar.N : simpl never.

Section JVL.
Variable f : item -> item.
Variable inputs : list (nat * list item).
Variable cout : nat.
Hypothesis HN : 0 < N inputs.

Notation N := (N inputs).
Notation PV := (PV inputs).
Notation mk := (mk inputs cout).
Notation Cond := (Cond inputs cout).

Lemma nth_error_combine_seq {A} (l:list A) a j x :
  nth_error l j = Some x -> nth_error (combine (seq a (length l)) l) j = Some (a + j, x).
Proof.
  revert a j; induction l as [|h t IH]; intros a [|j] H; cbn in *; try discriminate.
  - inversion H; subst. f_equal. f_equal. lia.
  - rewrite (IH (S a) j H). f_equal. f_equal. lia.
Qed.

Lemma cond_init : Cond (init_params inputs).
Proof.
  unfold JoinVar.Cond, init_params; cbn [prods chans mpc menv ob oc log cd ploc cs vo cv cok dls].
  assert (L1 : length (init_prods inputs) = N).
  { unfold init_prods. rewrite map_length, combine_length, seq_length. fold N. lia. }
  assert (L2 : length (init_chans inputs) = N) by (unfold init_chans; rewrite map_length; reflexivity).
  assert (L3 : length (init_cs inputs) = N) by (unfold init_cs; rewrite map_length, seq_length; reflexivity).
  repeat match goal with |- _ /\ _ => split end; auto; try (cbn; lia); try discriminate.
  - rewrite map_length. reflexivity.
  - rewrite repeat_length. reflexivity.
  - intros i Hi. destruct (nth_error_ex inputs i Hi) as [[cp its] E].
    exists cp, its, its, false, {| cap := cp; buf := []; closed := false |}, [], (VC (Some i)).
    cbn [prods chans dls cs ploc cv cok]. repeat split; auto; try discriminate.
    + unfold init_prods, JoinVar.N. erewrite map_nth_error; [|apply nth_error_combine_seq; exact E]. reflexivity.
    + unfold init_chans. erewrite map_nth_error; [|exact E]. reflexivity.
    + erewrite map_nth_error; [|exact E]. reflexivity.
    + unfold init_cs. erewrite map_nth_error; [|apply nth_error_seq; exact Hi]. reflexivity.
    + cbn. lia.
  - unfold JoinVar.LocI; cbn [ploc cs]. split; [exact HN|]. intros; lia.
  - apply Merge_nil. apply Forall_forall. intros l Hl. apply in_map_iff in Hl.
    destruct Hl as (x & Hx & _). auto.
  - split; intros X; discriminate.
Qed.

Definition Inv (s:state) : Prop := exists p, s = mk p /\ Cond p.

Lemma inv_reach s : reach f PV (init inputs cout) s -> Inv s.
Proof.
  apply (reach_inv f PV Inv).
  - exists (init_params inputs). split; [reflexivity|exact cond_init].
  - intros s0 a s1 (p & -> & C) Hs.
    destruct (step_any f inputs cout HN p a s1 C Hs) as (p' & -> & C' & _). exists p'. auto.
Qed.

Lemma inv_obs s : Inv s ->
  panicked s = false
  /\ (exists dls, length dls = N /\ Merge dls (cons_log s (S N) ++ ch_buf s N) /\
        forall j cp its dl, nth_error inputs j = Some (cp, its) -> nth_error dls j = Some dl ->
                            exists rest, its = dl ++ rest).
Proof.
  intros (p & -> & C). split; [reflexivity|].
  destruct C as (HLp & HLc & HLd & HLs & HLv & Hpc & Hwf & Henv & HP & HL & HM & Hoc & Hcd & Hlo).
  exists (dls p). split; [exact HLd|]. split.
  - unfold cons_log, ch_buf. cbn [thr chs JoinVar.mk].
    rewrite (at_cons _ _ _ _ HLp), (at_out _ _ _ HLc). exact HM.
  - intros j cp its dl E1 E5. assert (Hj : j < N) by (apply nth_error_lt in E1; exact E1).
    destruct (HP j Hj) as (cp' & its' & r & d & ch & dl' & slot & E1' & E2 & E3 & E4 & E5' & E6 & E7 & E8 & E9 & E10 & E11).
    rewrite E1 in E1'. inversion E1'; subst cp' its'. rewrite E5 in E5'. inversion E5'; subst dl'. eauto.
Qed.

End JVL.

Definition joinvar_init := JoinVar.init.

(* safety in every reachable state, for every number n >= 1 of inputs, all item lists, all
   capacities, all interleavings: no panic (never send on the closed output, never close
   twice); what the consumer received plus out's buffer is an interleaving of prefixes of the
   inputs (each item at most once, per-input order) *)
Theorem joinvar_safety f inputs cout s :
  0 < length inputs ->
  reach f (JoinVar.PV inputs) (joinvar_init inputs cout) s ->
  panicked s = false
  /\ (exists dls, length dls = length inputs
        /\ Merge dls (cons_log s (S (length inputs)) ++ ch_buf s (length inputs)) /\
        forall j cp its dl, nth_error inputs j = Some (cp, its) -> nth_error dls j = Some dl ->
                            exists rest, its = dl ++ rest).
Proof.
  intros HN R. apply (inv_reach f inputs cout HN) in R. exact (inv_obs inputs cout s R).
Qed.

(* every step from a reachable state decreases the measure JoinVar.mu of the canonical forms *)
Theorem joinvar_measure_decreases f inputs cout s act s' :
  0 < length inputs ->
  reach f (JoinVar.PV inputs) (joinvar_init inputs cout) s ->
  step f (JoinVar.PV inputs) s act = Some s' ->
  exists p p', s = JoinVar.mk inputs cout p /\ s' = JoinVar.mk inputs cout p'
               /\ JoinVar.mu inputs p' < JoinVar.mu inputs p.
Proof.
  intros HN R H. apply (inv_reach f inputs cout HN) in R. destruct R as (p & -> & C).
  destruct (step_any f inputs cout HN p act s' C H) as (p' & -> & C' & Hm). eauto.
Qed.

Theorem joinvar_terminates f inputs cout l s :
  0 < length inputs ->
  run f (JoinVar.PV inputs) (joinvar_init inputs cout) l = Some s ->
  length l <= JoinVar.mu inputs (init_params inputs).
Proof.
  intros HN.
  assert (G : forall l p s, JoinVar.Cond inputs cout p ->
              run f (JoinVar.PV inputs) (JoinVar.mk inputs cout p) l = Some s ->
              length l <= JoinVar.mu inputs p).
  { induction l0 as [|a t IH]; intros p s0 C H; cbn [run length] in *; [lia|].
    destruct (step f (JoinVar.PV inputs) (JoinVar.mk inputs cout p) a) as [s1|] eqn:E; [|discriminate H].
    destruct (step_any f inputs cout HN p a s1 C E) as (p' & Es1 & C' & Hm). subst s1.
    specialize (IH p' s0 C' H). lia. }
  intros H. exact (G l _ s (cond_init inputs cout HN) H).
Qed.

(* the program the theorems are about is the expected IR for every n, and the initial state is the explorer's *)
Example joinvar_progs n : JoinVar.PV (repeat (0, []) n) = fn_progs (exp_join_var n).
Proof. unfold JoinVar.PV, JoinVar.N. rewrite repeat_length. reflexivity. Qed.
Example joinvar_init_is_explorer_init :
  joinvar_init [(0, [11; 12]); (1, [21])] 0 =
  init_state KJoinVar (exp_join_var 2) {| c_inputs := [(0, [11; 12]); (1, [21])]; c_outer := 0 |}.
Proof. reflexivity. Qed.
