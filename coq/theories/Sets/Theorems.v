(* Sets/Theorems.v — the C14 statements in their final form (quoted by Properties/C14.v), and
   non-vacuity examples. *)
From Verif Require Import Go.Ty Go.Val Go.Equal Go.EqualProofs Go.Canon Go.Hash Go.HashProofs Go.KeyOrder.
From Verif Require Import Sets.Model Sets.ListSpec Sets.PredProofs Sets.EqEq Sets.HashTotal Sets.SetProofs.
From Coq Require Import Lia Permutation.
Open Scope nat_scope.
Open Scope list_scope.

(* "x and y are Equal": the structural equality that derived Equal computes (C02) *)
Definition Equal (e : tenv) (t : ty) (x y : val) : Prop := spec_eq e t x y = Some true.

Lemma eqb_Equal e t x y : D e t x -> D e t y -> (eqb e t x y = true <-> Equal e t x y).
Proof. apply eqb_true. Qed.

Theorem contains_iff_exists_equal e t lst item :
  has_type e (TSl t) lst = true -> has_type e t item = true ->
  exists es, slice_elems lst = Some es /\
    (contains_m e t lst item = Unsup \/
     exists b, contains_m e t lst item = Ok b /\ (b = true <-> exists v, In v es /\ Equal e t v item)).
Proof.
  intros Hl Hi. destruct (slice_elems_typed e t lst Hl) as (es & E & He).
  destruct (contains_spec e t lst item Hl Hi) as (es' & E' & [U|R]); rewrite E in E'; inversion E'; subst es'.
  - exists es. split; [exact E| left; exact U].
  - exists es. split; [exact E|]. right. eexists. split; [exact R|]. apply mem_iff; assumption.
Qed.

(* pairwise non-Equal, stated with Equal *)
Fixpoint pairwise_non_equal (e : tenv) (t : ty) (l : list val) : Prop :=
  match l with
  | [] => True
  | x :: r => (forall y, In y r -> ~ Equal e t x y) /\ pairwise_non_equal e t r
  end.
Lemma pw_ne_pairwise e t l : Forall (D e t) l -> pw_ne (eqb e t) l -> pairwise_non_equal e t l.
Proof.
  induction 1 as [|x l Hx Hl IH]; cbn; [trivial|]. intros [H1 H2]. split; [|apply IH; exact H2].
  intros y Hy Eq. rewrite Forall_forall in Hl. apply (eqb_Equal e t x y Hx (Hl y Hy)) in Eq.
  rewrite (H1 y Hy) in Eq. discriminate.
Qed.

(* Unique, elements not ==-comparable: the first occurrences in order ([keep_first]: an element
   stays iff no earlier element is Equal to it), pairwise non-Equal, covering every input element;
   computed inside the argument's own backing array, whose tail keeps its old contents *)
Theorem unique_hash_path e t fl ord l x es' sp :
  can_equal t = false -> has_type e (TSl t) (VSl l (x :: es') sp) = true ->
  let es := x :: es' in
  let R := keep_first (eqb e t) [] es in
  (unique_m e t fl ord (VSl l es sp) = Unsup \/
   unique_m e t fl ord (VSl l es sp) =
     Ok (VSl l R (skipn (length R) es ++ sp), VSl l (R ++ skipn (length R) es) sp))
  /\ pairwise_non_equal e t R
  /\ (forall a, In a es -> exists r, In r R /\ Equal e t r a)
  /\ (forall r, In r R -> In r es).
Proof.
  intros C H es R.
  destruct (slice_typed e t _ H) as [Hn|(l0 & es0 & sp0 & E0 & He & _)]; [discriminate|].
  inversion E0; subst l0 es0 sp0. fold es in He.
  destruct (keep_first_props e t es He) as (P1 & P2 & P3). fold R in P1, P2, P3.
  split; [exact (unique_hash_spec e t fl ord (VSl l es sp) C H)|].
  assert (HR : Forall (D e t) R).
  { rewrite Forall_forall in *. intros r Hr. apply He. apply P3. exact Hr. }
  split; [apply pw_ne_pairwise; assumption|]. split; [|exact P3].
  intros a Ha. rewrite Forall_forall in He.
  assert (M : mem (eqb e t) a R = true).
  { rewrite (P2 a (He a Ha)). apply mem_true. exists a. split; [exact Ha| apply eqb_refl; apply He; exact Ha]. }
  apply mem_true in M as (r & Hr & Er). exists r. split; [exact Hr|].
  apply (eqb_Equal e t r a); [rewrite Forall_forall in HR; apply HR; exact Hr| apply He; exact Ha| exact Er].
Qed.

(* Unique, ==-comparable elements: for every iteration order of the intermediate map, a
   permutation of the first occurrences under == (which is Equal there, C02) in a fresh array;
   the argument is not written *)
Theorem unique_comparable_path e t fl ord l x es' sp : can_equal t = true ->
  (forall ks, Permutation (ord ks) ks) -> has_type e (TSl t) (VSl l (x :: es') sp) = true ->
  exists r, unique_m e t fl ord (VSl l (x :: es') sp) = Ok (VSl fl r [], VSl l (x :: es') sp)
            /\ Permutation r (keep_first go_eqeq [] (x :: es'))
            /\ (forall a b, In a (x :: es') -> In b (x :: es') -> (go_eqeq a b = true <-> Equal e t a b)).
Proof.
  intros C Hord H.
  destruct (slice_typed e t _ H) as [Hn|(l0 & es0 & sp0 & E0 & He & _)]; [discriminate|].
  inversion E0; subst l0 es0 sp0.
  destruct (unique_comparable_spec e t fl ord l x es' sp C Hord He) as (r & R1 & R2).
  exists r. split; [exact R1|]. split; [exact R2|].
  intros a b Ha Hb. rewrite Forall_forall in He. unfold Equal.
  rewrite (go_eqeq_spec t C e a b (He a Ha) (He b Hb)).
  split; [intros ->; reflexivity| intros E; inversion E; reflexivity].
Qed.

Theorem unique_of_empty e t fl ord l sp :
  unique_m e t fl ord (VSl l [] sp) = Ok (VNilS, VSl l [] sp) /\ unique_m e t fl ord VNilS = Ok (VNilS, VNilS).
Proof. apply unique_empty. Qed.

(* Set: the keys are pairwise different under ==, and x is a key iff it is == to a list element *)
Theorem set_spec fl lst es : slice_elems lst = Some es -> Forall keyable es ->
  exists K, set_m fl lst = Ok (VMap fl (unit_entries K))
    /\ K = keep_first go_eqeq [] es
    /\ pw_ne go_eqeq K
    /\ (forall z, keyable z -> mem go_eqeq z K = mem go_eqeq z es)
    /\ (forall y, In y K -> In y es).
Proof.
  intros E Hk. destruct (set_m_spec fl lst es E Hk) as (S1 & S2 & S3 & S4).
  eexists. split; [exact S1|]. split; [reflexivity|]. auto.
Qed.
(* for ==-comparable (pointer-free) element types == is Equal *)
Theorem set_keys_equal e t es : can_equal t = true -> Forall (D e t) es ->
  Forall keyable es /\ forall a b, In a es -> In b es -> (go_eqeq a b = true <-> Equal e t a b).
Proof.
  intros C He. split; [apply (typed_keyable e t); assumption|].
  intros a b Ha Hb. rewrite Forall_forall in He. unfold Equal.
  rewrite (go_eqeq_spec t C e a b (He a Ha) (He b Hb)).
  split; [intros ->; reflexivity| intros E; inversion E; reflexivity].
Qed.

(* Union of lists: the first list, then the items of the second that are Equal to no earlier
   item, in order; as a set: z is (Equal to an element) in the result iff in one of the lists *)
Theorem union_spec e t fl this that :
  has_type e (TSl t) this = true -> has_type e (TSl t) that = true ->
  exists es1 es2, slice_elems this = Some es1 /\ slice_elems that = Some es2 /\
  (union_m e t fl this that = Unsup \/
   exists r after, union_m e t fl this that = Ok (r, after)
     /\ slice_elems r = Some (es1 ++ keep_first (eqb e t) es1 es2)
     /\ forall z, D e t z ->
          mem (eqb e t) z (es1 ++ keep_first (eqb e t) es1 es2) = mem (eqb e t) z es1 || mem (eqb e t) z es2).
Proof.
  intros H1 H2. destruct (union_m_spec e t fl this that H1 H2) as (es1 & es2 & E1 & E2 & [U|([r a] & R & P1 & P2)]).
  - exists es1, es2. split; [exact E1|]. split; [exact E2|]. left; exact U.
  - exists es1, es2. split; [exact E1|]. split; [exact E2|]. right. exists r, a. auto.
Qed.

(* Intersect of lists: the items of the first list that are Equal to an item of the second *)
Theorem intersect_spec e t fl this that :
  has_type e (TSl t) this = true -> has_type e (TSl t) that = true ->
  exists es1 es2, slice_elems this = Some es1 /\ slice_elems that = Some es2 /\
  (intersect_m e t fl this that = Unsup \/
   exists r, intersect_m e t fl this that = Ok r
     /\ slice_elems r = Some (filter (fun v => mem (eqb e t) v es2) es1)
     /\ forall z, D e t z ->
          mem (eqb e t) z (filter (fun v => mem (eqb e t) v es2) es1) = mem (eqb e t) z es1 && mem (eqb e t) z es2).
Proof.
  intros H1 H2. destruct (intersect_m_spec e t fl this that H1 H2) as (es1 & es2 & E1 & E2 & [U|(r & R & P1 & P2)]).
  - exists es1, es2. split; [exact E1|]. split; [exact E2|]. left; exact U.
  - exists es1, es2. split; [exact E1|]. split; [exact E2|]. right. exists r. auto.
Qed.

(* map[T]struct{} sets, for every iteration order *)
Theorem union_map_spec fl ord this that ks1 ks2 : (forall ks, Permutation (ord ks) ks) ->
  map_keys this = Some ks1 -> map_keys that = Some ks2 ->
  Forall keyable ks1 -> Forall keyable ks2 -> pw_ne go_eqeq ks1 ->
  exists K, union_map_m fl ord this that = Ok (VMap (map_label fl this) (unit_entries K))
    /\ pw_ne go_eqeq K
    /\ (forall z, keyable z -> mem go_eqeq z K = mem go_eqeq z ks1 || mem go_eqeq z ks2).
Proof. apply union_map_m_spec. Qed.

Theorem intersect_map_spec fl ord this that ks1 ks2 : (forall ks, Permutation (ord ks) ks) ->
  map_keys this = Some ks1 -> map_keys that = Some ks2 -> Forall keyable ks1 -> Forall keyable ks2 ->
  exists K, intersect_map_m fl ord this that = Ok (VMap fl (unit_entries K))
    /\ pw_ne go_eqeq K
    /\ (forall z, keyable z -> mem go_eqeq z K = mem go_eqeq z ks1 && mem go_eqeq z ks2).
Proof. apply intersect_map_m_spec. Qed.

(* the pinned tree before fix C14-fix-union-nil-map: Union wrote into its first map even when
   that was nil, so the union of the empty set (a nil map) with {1} panicked *)
Theorem union_map_nil_old_refuted :
  union_map_old_m 0 (fun ks => ks) VNilM (VMap 1 (unit_entries [VInt 1%Z])) = Pan
  /\ union_map_m 0 (fun ks => ks) VNilM (VMap 1 (unit_entries [VInt 1%Z])) = Ok (VMap 0 (unit_entries [VInt 1%Z])).
Proof. split; reflexivity. Qed.

(* ---------- non-vacuity ---------- *)
Definition t_sl : ty := TSl (TB (KInt 64 true)).          (* element type []int: not ==-comparable *)
Definition sl (l : N) (zs : list nat) : val := VSl l (map (fun n => VInt (Z.of_nat n)) zs) [].
Definition ex_list : val := VSl 9 [sl 1 [1]; sl 2 [2]; sl 3 [1]; VNilS; sl 4 []; sl 5 [2]; VNilS] [sl 6 [7]].

Example unique_hash_example :
  can_equal t_sl = false /\ has_type [] (TSl t_sl) ex_list = true
  /\ unique_m [] t_sl 0 (fun ks => ks) ex_list =
     Ok (VSl 9 [sl 1 [1]; sl 2 [2]; VNilS; sl 4 []] [sl 4 []; sl 5 [2]; VNilS; sl 6 [7]],
         VSl 9 [sl 1 [1]; sl 2 [2]; VNilS; sl 4 []; sl 4 []; sl 5 [2]; VNilS] [sl 6 [7]]).
Proof. repeat split; vm_compute; reflexivity. Qed.

Example contains_example :
  contains_m [] t_sl ex_list (sl 77 [2]) = Ok true /\ contains_m [] t_sl ex_list (sl 77 [3]) = Ok false
  /\ contains_m [] t_sl VNilS VNilS = Ok false.
Proof. repeat split; vm_compute; reflexivity. Qed.

Definition t_f : ty := TB KF64.
Example unique_comparable_example :
  (* +0, 1, -0, 1: keys(set(..)) under ==, here in the iteration order "reversed" *)
  unique_m [] t_f 0 (@rev val) (VSl 9 [VF false 0; VF false 1; VF true 0; VF false 1] []) =
  Ok (VSl 0 [VF false 1; VF false 0] [], VSl 9 [VF false 0; VF false 1; VF true 0; VF false 1] []).
Proof. vm_compute. reflexivity. Qed.

Example union_intersect_example :
  union_m [] t_sl 0 (VSl 9 [sl 1 [1]; sl 2 [1]] [VNilS]) (VSl 8 [sl 3 [2]; sl 4 [1]; sl 5 [2]; VNilS] []) =
    Ok (VSl 0 [sl 1 [1]; sl 2 [1]; sl 3 [2]; VNilS] [], VSl 9 [sl 1 [1]; sl 2 [1]] [sl 3 [2]])
  /\ intersect_m [] t_sl 0 (VSl 9 [sl 1 [1]; sl 2 [3]; sl 6 [1]] []) (VSl 8 [sl 3 [2]; sl 4 [1]] []) =
    Ok (VSl 0 [sl 1 [1]; sl 6 [1]] []).
Proof. split; vm_compute; reflexivity. Qed.

Example set_example :
  set_m 0 (VSl 9 [VPtr 1 (VInt 5%Z); VPtr 2 (VInt 5%Z); VPtr 1 (VInt 5%Z); VNilP] []) =
  Ok (VMap 0 (unit_entries [VPtr 1 (VInt 5%Z); VPtr 2 (VInt 5%Z); VNilP])).
Proof. reflexivity. Qed.

(* two different elements in ONE hash bucket ("Aa" and "BB" hash alike): the scan inside the
   bucket still tells them apart, and finds the later duplicate *)
Definition t_ss : ty := TSl (TB KStr).
Definition ss (l : N) (s : list N) : val := VSl l [VStr s] [].
Example unique_collision_example :
  hashm [] t_ss (ss 1 [65; 97]%N) = hashm [] t_ss (ss 2 [66; 66]%N)
  /\ unique_m [] t_ss 0 (fun ks => ks) (VSl 9 [ss 1 [65; 97]%N; ss 2 [66; 66]%N; ss 3 [65; 97]%N] []) =
     Ok (VSl 9 [ss 1 [65; 97]%N; ss 2 [66; 66]%N] [ss 3 [65; 97]%N],
         VSl 9 [ss 1 [65; 97]%N; ss 2 [66; 66]%N; ss 3 [65; 97]%N] []).
Proof. split; vm_compute; reflexivity. Qed.
