(* Sets/SetProofs.v — contains, unique, set, union, intersect: the emitted loops against
   membership / first occurrences up to the structural equality [spec_eq] (which derived Equal
   computes, C02) or Go's == (map keys) (C14). *)
From Verif Require Import Go.Ty Go.Val Go.Equal Go.EqualProofs Go.Canon Go.Hash Go.HashProofs Go.KeyOrder.
From Verif Require Import Sets.Model Sets.ListSpec Sets.PredProofs Sets.EqEq Sets.HashTotal.
From Coq Require Import Lia Permutation.
Open Scope nat_scope.
Open Scope list_scope.

(* the model returns a, unless the generator refuses the element type *)
Definition okr {A} (r : res A) (a : A) : Prop := r = Unsup \/ r = Ok a.
(* the model returns some a with P a, unless the generator refuses the element type *)
Definition okp {A} (r : res A) (P : A -> Prop) : Prop := r = Unsup \/ exists a, r = Ok a /\ P a.

Lemma okr_ok {A} (a : A) : okr (Ok a) a.
Proof. right; reflexivity. Qed.
Lemma okr_bind {A B} (r : res A) a (k : A -> res B) b : okr r a -> okr (k a) b -> okr (rbind r k) b.
Proof. intros [-> | ->] H; [left; reflexivity| exact H]. Qed.
Lemma okp_bind {A B} (r : res A) a (k : A -> res B) P : okr r a -> okp (k a) P -> okp (rbind r k) P.
Proof. intros [-> | ->] H; [left; reflexivity| exact H]. Qed.
Lemma okr_okp {A} (r : res A) a (P : A -> Prop) : okr r a -> P a -> okp r P.
Proof. intros [-> | ->] H; [left; reflexivity| right; eauto]. Qed.

Section S.
Variable e : tenv.
Variable t : ty.
Variable fl : N.

Definition D (x : val) : Prop := has_type e t x = true.
(* structural equality as a boolean (it is total on well-typed values) *)
Definition eqb (x y : val) : bool := match spec_eq e t x y with Some b => b | None => false end.

Lemma eqb_true x y : D x -> D y -> (eqb x y = true <-> spec_eq e t x y = Some true).
Proof.
  intros Hx Hy. unfold eqb. destruct (spec_total e t x y Hx Hy) as [b ->].
  split; [intros ->; reflexivity| intros H; inversion H; reflexivity].
Qed.
Lemma eqb_refl x : D x -> eqb x x = true.
Proof. intros Hx. apply eqb_true; [exact Hx|exact Hx|]. apply spec_eq_refl. exact Hx. Qed.
Lemma eqb_sym x y : D x -> D y -> eqb x y = eqb y x.
Proof. intros Hx Hy. unfold eqb. rewrite (spec_eq_sym e t x y Hx Hy). reflexivity. Qed.
Lemma eqb_trans x y z : D x -> D y -> D z -> eqb x y = true -> eqb y z = true -> eqb x z = true.
Proof.
  intros Hx Hy Hz H1 H2. apply (eqb_true x z Hx Hz).
  apply (proj1 (eqb_true x y Hx Hy)) in H1. apply (proj1 (eqb_true y z Hy Hz)) in H2.
  exact (spec_eq_trans e t x y z Hx Hy Hz H1 H2).
Qed.

Lemma eqm_ok x y : D x -> D y -> okr (Equal.eqm e Top t x y) (eqb x y).
Proof.
  intros Hx Hy. destruct (eqm_spec x e Top t y Hx Hy) as [[b Hb] [U|L]]; [left; exact U|].
  right. rewrite L. unfold eqb. rewrite Hb. reflexivity.
Qed.
Lemma elem_eq_ok x y : D x -> D y -> okr (elem_eq e t x y) (eqb x y).
Proof.
  intros Hx Hy. unfold elem_eq. destruct (can_equal t) eqn:C; [|apply eqm_ok; assumption].
  right. unfold eqb. rewrite (go_eqeq_spec t C e x y Hx Hy). reflexivity.
Qed.

(* a well-typed slice: nil, or elements and spare part well typed *)
Lemma slice_typed lst : has_type e (TSl t) lst = true ->
  lst = VNilS \/ exists l es sp, lst = VSl l es sp /\ Forall D es /\ Forall D sp.
Proof.
  intros H. rewrite has_type_unfold in H. cbn in H. destruct lst; try discriminate; [left; reflexivity|].
  right. apply andb_prop in H as [H1 H2]. apply forallb_Forall in H1, H2. eauto 8.
Qed.
Lemma slice_elems_typed lst : has_type e (TSl t) lst = true ->
  exists es, slice_elems lst = Some es /\ Forall D es.
Proof.
  intros H. destruct (slice_typed lst H) as [-> | (l & es & sp & -> & He & _)]; cbn; eauto.
Qed.

(* ---------- contains ---------- *)
Lemma contains_loop_ok l item : Forall D l -> D item -> okr (contains_loop e t l item) (mem eqb item l).
Proof.
  intros Hl Hi. induction Hl as [|v l Hv _ IH]; cbn; [apply okr_ok|].
  eapply okr_bind; [apply elem_eq_ok; assumption|].
  destruct (eqb v item); cbn; [apply okr_ok| exact IH].
Qed.

Theorem contains_spec lst item : has_type e (TSl t) lst = true -> D item ->
  exists es, slice_elems lst = Some es /\ okr (contains_m e t lst item) (mem eqb item es).
Proof.
  intros Hl Hi. destruct (slice_elems_typed lst Hl) as (es & E & He). exists es. split; [exact E|].
  unfold contains_m. rewrite E. apply contains_loop_ok; assumption.
Qed.

(* membership in the property's words *)
Lemma mem_iff item es : Forall D es -> D item ->
  (mem eqb item es = true <-> exists v, In v es /\ spec_eq e t v item = Some true).
Proof.
  intros He Hi. rewrite mem_true. rewrite Forall_forall in He.
  split; intros (v & Hv & E); exists v; (split; [exact Hv|]); apply (eqb_true v item (He v Hv) Hi); exact E.
Qed.

(* ---------- unique, hash path ---------- *)
Lemma bucket_add_spec h u tb h' :
  bucket h' (bucket_add h u tb) = if N.eqb h h' then bucket h tb ++ [u] else bucket h' tb.
Proof.
  induction tb as [|[h0 ix] tb IH]; cbn.
  - destruct (N.eqb_spec h h'); reflexivity.
  - destruct (N.eqb_spec h0 h) as [E0|N0]; cbn.
    + subst h0. destruct (N.eqb_spec h h'); reflexivity.
    + rewrite IH. destruct (N.eqb_spec h0 h') as [E1|N1]; [|reflexivity].
      subst h0. destruct (N.eqb_spec h h'); [congruence|reflexivity].
Qed.

(* the index table: only indexes of kept elements, and every kept element under its hash *)
Definition TI (tb : list (N * list nat)) (kept : list val) : Prop :=
  (forall h ix, In ix (bucket h tb) -> ix < length kept) /\
  (forall j y h, nth_error kept j = Some y -> hashm e t y = Ok h -> In j (bucket h tb)).

Lemma TI_nil : TI [] [].
Proof. split; [intros h ix []| intros [|j] y h H; discriminate]. Qed.

Lemma TI_add tb kept x h : TI tb kept -> hashm e t x = Ok h -> TI (bucket_add h (length kept) tb) (kept ++ [x]).
Proof.
  intros [T1 T2] Hh. split.
  - intros h' ix Hin. rewrite bucket_add_spec in Hin. rewrite app_length. cbn.
    destruct (N.eqb h h'); [apply in_app_or in Hin as [Hin|[<-|[]]]; [apply T1 in Hin|]; lia| apply T1 in Hin; lia].
  - intros j y h' Hn Hy. rewrite bucket_add_spec.
    destruct (Nat.lt_ge_cases j (length kept)) as [Lt|Ge].
    + rewrite nth_error_app1 in Hn by exact Lt. specialize (T2 j y h' Hn Hy).
      destruct (N.eqb h h') eqn:E; [apply N.eqb_eq in E; subst h'; apply in_or_app; left; exact T2| exact T2].
    + rewrite nth_error_app2 in Hn by exact Ge.
      destruct (j - length kept) as [|n] eqn:Ej; [|destruct n; discriminate].
      cbn in Hn. inversion Hn; subst y. rewrite Hh in Hy. inversion Hy; subst h'.
      rewrite N.eqb_refl. apply in_or_app. right. left. lia.
Qed.

Lemma scan_ok kept rest x ixs : Forall D kept -> D x -> (forall ix, In ix ixs -> ix < length kept) ->
  okr (scan e t (kept ++ rest) x ixs)
      (existsb (fun ix => match nth_error kept ix with Some y => eqb y x | None => false end) ixs).
Proof.
  intros Hk Hx. induction ixs as [|ix r IH]; intros Hlt; cbn; [apply okr_ok|].
  destruct (nth_error_some_lt kept ix (Hlt ix (or_introl eq_refl))) as [y Hy].
  unfold idx. rewrite nth_error_app1 by (apply Hlt; left; reflexivity). rewrite Hy. cbn [rbind].
  assert (Dy : D y). { rewrite Forall_forall in Hk. apply Hk. eapply nth_error_In; eauto. }
  eapply okr_bind; [apply eqm_ok; assumption|].
  destruct (eqb y x); cbn; [apply okr_ok|]. apply IH. intros ix' H. apply Hlt. right. exact H.
Qed.

(* within a bucket the scan finds exactly the kept elements equal to x *)
Lemma bucket_scan_mem tb kept x h : Forall D kept -> D x -> TI tb kept -> hashm e t x = Ok h ->
  existsb (fun ix => match nth_error kept ix with Some y => eqb y x | None => false end) (bucket h tb)
  = mem eqb x kept.
Proof.
  intros Hk Hx [T1 T2] Hh. apply eq_true_iff_eq. rewrite existsb_exists, mem_true. split.
  - intros (ix & Hin & E). destruct (nth_error kept ix) as [y|] eqn:Hy; [|discriminate].
    exists y. split; [eapply nth_error_In; eauto| exact E].
  - intros (y & Hy & E). apply In_nth_error in Hy as [j Hj]. exists j.
    assert (Dy : D y). { rewrite Forall_forall in Hk. apply Hk. eapply nth_error_In; eauto. }
    split; [|rewrite Hj; exact E]. apply (T2 j y h Hj).
    rewrite (hash_respects_equal e t y x Dy Hx); [exact Hh|]. apply eqb_true; assumption.
Qed.

Lemma uniq_loop_ok (orig : list val) : Forall D orig -> forall k i u kept tb,
  i + k = length orig -> u <= i -> length kept = u -> Forall D kept -> TI tb kept ->
  let R := dedup eqb kept (skipn i orig) in
  okr (uniq_loop e t k i u (kept ++ skipn u orig) tb)
      (u + length R, (kept ++ R) ++ skipn (u + length R) orig).
Proof.
  intros Ho. induction k as [|k IH]; intros i u kept tb Hik Hui Hk Dk HT; cbn zeta.
  - assert (skipn i orig = []) as -> by (apply skipn_all2; lia). cbn.
    rewrite !app_nil_r, Nat.add_0_r. apply okr_ok.
  - destruct (nth_error_some_lt orig i ltac:(lia)) as [x Hx].
    assert (Dx : D x). { rewrite Forall_forall in Ho. apply Ho. eapply nth_error_In; eauto. }
    rewrite (skipn_cons_nth orig i x Hx). cbn [uniq_loop dedup].
    rewrite (idx_kept_skipn kept orig u i x Hk Hui Hx). cbn [rbind].
    destruct (hash_total x e t Dx) as [Hh|[h Hh]]; rewrite Hh; [left; reflexivity|]. cbn [rbind].
    eapply okr_bind.
    { apply scan_ok; [exact Dk| exact Dx|]. intros ix Hin. destruct HT as [T1 _]. eapply T1; eauto. }
    rewrite (bucket_scan_mem tb kept x h Dk Dx HT Hh).
    destruct (mem eqb x kept) eqn:M.
    + apply IH; try assumption; lia.
    + assert (HT' : TI (bucket_add h u tb) (kept ++ [x])) by (rewrite <- Hk; apply TI_add; assumption).
      assert (Dk' : Forall D (kept ++ [x])) by (apply Forall_app; split; [exact Dk| constructor; [exact Dx|constructor]]).
      destruct (Nat.eqb_spec i u) as [E|NE].
      * subst i. cbn [rbind].
        replace (kept ++ skipn u orig) with ((kept ++ [x]) ++ skipn (S u) orig)
          by (rewrite (skipn_cons_nth orig u x Hx), <- app_assoc; reflexivity).
        specialize (IH (S u) (S u) (kept ++ [x]) (bucket_add h u tb)). cbn zeta in IH.
        replace (u + length (x :: dedup eqb (kept ++ [x]) (skipn (S u) orig)))
          with (S u + length (dedup eqb (kept ++ [x]) (skipn (S u) orig))) by (cbn [length]; lia).
        replace (kept ++ x :: dedup eqb (kept ++ [x]) (skipn (S u) orig))
          with ((kept ++ [x]) ++ dedup eqb (kept ++ [x]) (skipn (S u) orig)) by (rewrite <- app_assoc; reflexivity).
        apply IH; try assumption; try lia. rewrite app_length; cbn; lia.
      * destruct (nth_error_some_lt orig u ltac:(lia)) as [y Hy].
        rewrite (skipn_cons_nth orig u y Hy). rewrite <- Hk at 2. rewrite upd_app. cbn [rbind].
        replace (kept ++ x :: skipn (S u) orig) with ((kept ++ [x]) ++ skipn (S u) orig)
          by (rewrite <- app_assoc; reflexivity).
        specialize (IH (S i) (S u) (kept ++ [x]) (bucket_add h u tb)). cbn zeta in IH.
        replace (u + length (x :: dedup eqb (kept ++ [x]) (skipn (S i) orig)))
          with (S u + length (dedup eqb (kept ++ [x]) (skipn (S i) orig))) by (cbn [length]; lia).
        replace (kept ++ x :: dedup eqb (kept ++ [x]) (skipn (S i) orig))
          with ((kept ++ [x]) ++ dedup eqb (kept ++ [x]) (skipn (S i) orig)) by (rewrite <- app_assoc; reflexivity).
        apply IH; try assumption; try lia. rewrite app_length; cbn; lia.
Qed.

(* what Unique returns on the hash path, and what it leaves in its argument *)
Definition unique_hash_result (lst : val) : val * val :=
  match lst with
  | VSl l (x :: es') sp =>
      let es := x :: es' in
      let R := keep_first eqb [] es in
      (VSl l R (skipn (length R) es ++ sp), VSl l (R ++ skipn (length R) es) sp)
  | _ => (VNilS, lst)
  end.

Theorem unique_hash_spec ord lst : can_equal t = false -> has_type e (TSl t) lst = true ->
  okr (unique_m e t fl ord lst) (unique_hash_result lst).
Proof.
  intros C H. destruct (slice_typed lst H) as [-> | (l & es & sp & -> & He & _)]; [apply okr_ok|].
  destruct es as [|x es']; [apply okr_ok|]. set (es := x :: es') in *.
  unfold unique_m. fold es. rewrite C.
  assert (L := uniq_loop_ok es He (length es) 0 0 [] [] eq_refl (le_n 0) eq_refl (Forall_nil _) TI_nil).
  cbn zeta in L. cbn [app skipn Nat.add] in L.
  rewrite (dedup_is_keep_first eqb D eqb_trans es [] (Forall_nil _) He) in L.
  eapply okr_bind; [exact L|]. cbn beta iota.
  unfold unique_hash_result. fold es. cbn zeta.
  set (R := keep_first eqb [] es).
  rewrite firstn_app_exact, skipn_app_exact. apply okr_ok.
Qed.

(* the textbook result: pairwise different, covers the input, only input elements *)
Lemma keep_first_props es : Forall D es ->
  let R := keep_first eqb [] es in
  pw_ne eqb R /\ (forall z, D z -> mem eqb z R = mem eqb z es) /\ (forall y, In y R -> In y es).
Proof.
  intros He R. unfold R. rewrite <- (dedup_is_keep_first eqb D eqb_trans es [] (Forall_nil _) He).
  split; [apply dedup_pw|]. split; [intros z Hz; apply (dedup_cover eqb D eqb_trans); assumption|].
  intros y. apply dedup_In.
Qed.

(* ---------- set / keys / unique on the comparable path (Go's == on keys) ---------- *)
Lemma fold_insert l : forall m, fold_left map_insert l m = m ++ dedup go_eqeq m l.
Proof.
  induction l as [|x l IH]; intros m; cbn; [rewrite app_nil_r; reflexivity|].
  rewrite IH. unfold map_insert, key_in. fold (mem go_eqeq x m).
  destruct (mem go_eqeq x m); [reflexivity| rewrite <- app_assoc; reflexivity].
Qed.

Lemma eqeq_trans_k x y z : keyable x -> keyable y -> keyable z ->
  go_eqeq x y = true -> go_eqeq y z = true -> go_eqeq x z = true.
Proof. intros _ _ _. apply go_eqeq_trans. Qed.
Lemma eqeq_sym_k x y : keyable x -> keyable y -> go_eqeq x y = go_eqeq y x.
Proof. intros _ _. apply go_eqeq_sym. Qed.

Lemma set_keys_spec l : Forall keyable l -> set_keys l = keep_first go_eqeq [] l.
Proof.
  intros Hl. unfold set_keys. rewrite fold_insert. cbn.
  apply (dedup_is_keep_first go_eqeq keyable eqeq_trans_k); [constructor| exact Hl].
Qed.

Lemma map_fst_unit ks : map fst (unit_entries ks) = ks.
Proof. unfold unit_entries. rewrite map_map. cbn. apply map_id. Qed.

(* Set: the map whose keys are the first occurrences (under ==) of the list's elements *)
Theorem set_m_spec lst es : slice_elems lst = Some es -> Forall keyable es ->
  let K := keep_first go_eqeq [] es in
  set_m fl lst = Ok (VMap fl (unit_entries K))
  /\ pw_ne go_eqeq K
  /\ (forall z, keyable z -> mem go_eqeq z K = mem go_eqeq z es)
  /\ (forall y, In y K -> In y es).
Proof.
  intros E Hk K. unfold set_m. rewrite E, (set_keys_spec es Hk). split; [reflexivity|].
  unfold K. rewrite <- (dedup_is_keep_first go_eqeq keyable eqeq_trans_k es [] (Forall_nil _) Hk).
  split; [apply dedup_pw|]. split; [intros z Hz; apply (dedup_cover go_eqeq keyable eqeq_trans_k); assumption|].
  intros y. apply dedup_In.
Qed.

Lemma typed_keyable es : can_equal t = true -> Forall D es -> Forall keyable es.
Proof. intros C H. rewrite Forall_forall in *. intros x Hx. apply (keyable_typed t e x C). apply H. exact Hx. Qed.

(* Unique on ==-comparable elements: keys(set(list)); the order is the map's iteration order *)
Theorem unique_comparable_spec ord l x es' sp : can_equal t = true ->
  (forall ks, Permutation (ord ks) ks) -> Forall D (x :: es') ->
  exists r, unique_m e t fl ord (VSl l (x :: es') sp) = Ok (VSl fl r [], VSl l (x :: es') sp)
            /\ Permutation r (keep_first go_eqeq [] (x :: es')).
Proof.
  intros C Hord He. set (es := x :: es') in *.
  assert (Hk : Forall keyable es) by (apply typed_keyable; assumption).
  exists (ord (keep_first go_eqeq [] es)). split; [|apply Hord].
  unfold unique_m. fold es. rewrite C.
  destruct (set_m_spec (VSl l es sp) es eq_refl Hk) as [-> _]. cbn [rbind].
  unfold keys_m, map_keys. rewrite map_fst_unit. reflexivity.
Qed.
Lemma unique_empty ord l sp : unique_m e t fl ord (VSl l [] sp) = Ok (VNilS, VSl l [] sp)
  /\ unique_m e t fl ord VNilS = Ok (VNilS, VNilS).
Proof. split; reflexivity. Qed.

(* ---------- union / intersect on lists ---------- *)
Lemma append1_elems s es x : slice_elems s = Some es ->
  exists s', append1 fl s x = Ok s' /\ slice_elems s' = Some (es ++ [x]).
Proof.
  destruct s; cbn; intros H; try discriminate; inversion H; subst.
  - eexists; split; reflexivity.
  - destruct spare; eexists; split; reflexivity.
Qed.

Lemma union_loop_ok that : forall this es, slice_elems this = Some es -> Forall D es -> Forall D that ->
  okp (union_loop e t fl this that) (fun r => slice_elems r = Some (es ++ dedup eqb es that)).
Proof.
  induction that as [|v that IH]; intros this es E He Ht; cbn.
  - right. exists this. rewrite app_nil_r. split; [reflexivity|exact E].
  - inversion Ht as [|? ? Hv Ht']; subst.
    eapply okp_bind.
    { unfold contains_m. rewrite E. apply contains_loop_ok; assumption. }
    destruct (mem eqb v es) eqn:M; [apply IH; assumption|].
    destruct (append1_elems this es v E) as (this' & -> & E'). cbn [rbind].
    replace (es ++ v :: dedup eqb (es ++ [v]) that) with ((es ++ [v]) ++ dedup eqb (es ++ [v]) that)
      by (rewrite <- app_assoc; reflexivity).
    apply IH; [exact E'| apply Forall_app; split; [exact He| constructor; [exact Hv|constructor]]| exact Ht'].
Qed.

(* Union: the first list, then the items of the second that are new, each once, in order *)
Theorem union_m_spec this that : has_type e (TSl t) this = true -> has_type e (TSl t) that = true ->
  exists es1 es2, slice_elems this = Some es1 /\ slice_elems that = Some es2 /\
  okp (union_m e t fl this that) (fun ra =>
    slice_elems (fst ra) = Some (es1 ++ keep_first eqb es1 es2)
    /\ forall z, D z -> mem eqb z (es1 ++ keep_first eqb es1 es2) = mem eqb z es1 || mem eqb z es2).
Proof.
  intros H1 H2. destruct (slice_elems_typed this H1) as (es1 & E1 & D1).
  destruct (slice_elems_typed that H2) as (es2 & E2 & D2). exists es1, es2. split; [exact E1|]. split; [exact E2|].
  unfold union_m. rewrite E2.
  destruct (union_loop_ok es2 this es1 E1 D1 D2) as [U|(r & Er & Hr)]; [left; rewrite U; reflexivity|].
  right. rewrite Er. cbn [rbind]. eexists. split; [reflexivity|]. cbn [fst].
  rewrite <- (dedup_is_keep_first eqb D eqb_trans es2 es1 D1 D2). split; [exact Hr|].
  intros z Hz. apply (mem_dedup eqb D eqb_trans); assumption.
Qed.

Lemma intersect_loop_ok es2 that : slice_elems that = Some es2 -> Forall D es2 ->
  forall this acc a, Forall D this -> slice_elems acc = Some a ->
  okp (intersect_loop e t fl this that acc)
      (fun r => slice_elems r = Some (a ++ filter (fun v => mem eqb v es2) this)).
Proof.
  intros E2 D2. induction this as [|v this IH]; intros acc a Ht Ea; cbn.
  - right. exists acc. rewrite app_nil_r. split; [reflexivity|exact Ea].
  - inversion Ht as [|? ? Hv Ht']; subst.
    eapply okp_bind.
    { unfold contains_m. rewrite E2. apply contains_loop_ok; assumption. }
    destruct (mem eqb v es2) eqn:M; [|apply IH; assumption].
    destruct (append1_elems acc a v Ea) as (acc' & -> & Ea'). cbn [rbind].
    replace (a ++ v :: filter (fun v0 => mem eqb v0 es2) this)
      with ((a ++ [v]) ++ filter (fun v0 => mem eqb v0 es2) this) by (rewrite <- app_assoc; reflexivity).
    apply IH; assumption.
Qed.

(* Intersect: the items of the first list that have an Equal item in the second, in order *)
Theorem intersect_m_spec this that : has_type e (TSl t) this = true -> has_type e (TSl t) that = true ->
  exists es1 es2, slice_elems this = Some es1 /\ slice_elems that = Some es2 /\
  okp (intersect_m e t fl this that) (fun r =>
    slice_elems r = Some (filter (fun v => mem eqb v es2) es1)
    /\ forall z, D z -> mem eqb z (filter (fun v => mem eqb v es2) es1) = mem eqb z es1 && mem eqb z es2).
Proof.
  intros H1 H2. destruct (slice_elems_typed this H1) as (es1 & E1 & D1).
  destruct (slice_elems_typed that H2) as (es2 & E2 & D2). exists es1, es2. split; [exact E1|]. split; [exact E2|].
  unfold intersect_m. rewrite E1.
  destruct (intersect_loop_ok es2 that E2 D2 es1 (VSl fl [] []) [] D1 eq_refl) as [U|(r & Er & Hr)]; [left; exact U|].
  right. exists r. split; [exact Er|]. split; [exact Hr|].
  intros z Hz. apply (mem_filter_mem eqb D eqb_trans eqb_sym); assumption.
Qed.

(* ---------- union / intersect on map[T]struct{} sets (Go's == on keys) ---------- *)
Definition map_label (m : val) : N := match m with VMap l _ => l | _ => fl end.
Theorem union_map_m_spec ord this that ks1 ks2 : (forall ks, Permutation (ord ks) ks) ->
  map_keys this = Some ks1 -> map_keys that = Some ks2 ->
  Forall keyable ks1 -> Forall keyable ks2 -> pw_ne go_eqeq ks1 ->
  exists K, union_map_m fl ord this that = Ok (VMap (map_label this) (unit_entries K))
    /\ pw_ne go_eqeq K
    /\ (forall z, keyable z -> mem go_eqeq z K = mem go_eqeq z ks1 || mem go_eqeq z ks2).
Proof.
  intros Hord E1 E2 K1 K2 P1.
  exists (ks1 ++ dedup go_eqeq ks1 (ord ks2)). split.
  - unfold union_map_m. rewrite E2. destruct this; try discriminate; cbn in E1; inversion E1; subst ks1;
      cbn [map_label]; rewrite fold_insert; reflexivity.
  - split; [apply pw_ne_app_dedup; exact P1|].
    intros z Hz.
    assert (K2' : Forall keyable (ord ks2)).
    { rewrite Forall_forall in *. intros y Hy. apply K2. eapply Permutation_in; [apply Hord| exact Hy]. }
    rewrite (mem_dedup go_eqeq keyable eqeq_trans_k (ord ks2) ks1 z K1 K2' Hz).
    rewrite (mem_perm go_eqeq z (ord ks2) ks2 (Hord ks2)). reflexivity.
Qed.

Lemma fold_cond_insert (c : val -> bool) l : forall m,
  fold_left (fun m k => if c k then map_insert m k else m) l m = m ++ dedup go_eqeq m (filter c l).
Proof.
  induction l as [|x l IH]; intros m; cbn; [rewrite app_nil_r; reflexivity|].
  rewrite IH. destruct (c x); [|reflexivity]. cbn [dedup].
  unfold map_insert, key_in. fold (mem go_eqeq x m).
  destruct (mem go_eqeq x m); [reflexivity| rewrite <- app_assoc; reflexivity].
Qed.

Theorem intersect_map_m_spec ord this that ks1 ks2 : (forall ks, Permutation (ord ks) ks) ->
  map_keys this = Some ks1 -> map_keys that = Some ks2 -> Forall keyable ks1 -> Forall keyable ks2 ->
  exists K, intersect_map_m fl ord this that = Ok (VMap fl (unit_entries K))
    /\ pw_ne go_eqeq K
    /\ (forall z, keyable z -> mem go_eqeq z K = mem go_eqeq z ks1 && mem go_eqeq z ks2).
Proof.
  intros Hord E1 E2 K1 K2.
  exists (dedup go_eqeq [] (filter (fun v => mem go_eqeq v ks2) (ord ks1))).
  unfold intersect_map_m. rewrite E1, E2.
  change (fun (m : list val) (k : val) => if key_in k ks2 then map_insert m k else m)
    with (fun (m : list val) (k : val) => if (fun v => mem go_eqeq v ks2) k then map_insert m k else m).
  rewrite fold_cond_insert. cbn [app]. split; [reflexivity|]. split; [apply dedup_pw|].
  intros z Hz.
  assert (K1' : Forall keyable (ord ks1)).
  { rewrite Forall_forall in *. intros y Hy. apply K1. eapply Permutation_in; [apply Hord| exact Hy]. }
  rewrite (dedup_cover go_eqeq keyable eqeq_trans_k); [| |exact Hz].
  - rewrite (mem_filter_mem go_eqeq keyable eqeq_trans_k eqeq_sym_k (ord ks1) ks2 z K1' K2 Hz).
    rewrite (mem_perm go_eqeq z (ord ks1) ks1 (Hord ks1)). reflexivity.
  - rewrite Forall_forall in *. intros y Hy. apply filter_In in Hy as [Hy _]. apply K1'. exact Hy.
Qed.

End S.
