(* Sets/NaN.v — lists whose elements hold a NaN (C14, hardening round 4).

   The shared value model (Go/Val.v [has_type]) is NaN-free, and so are the theorems of C14.  C14's
   quantifier does not exclude NaN ("all supported element types x lists with duplicates, ...") and the
   property reads on such lists as on any other: a NaN is Equal to nothing, not even to itself (derived
   Equal compares float leaves with ==), so Contains never finds it, Unique keeps every occurrence, Union
   appends every NaN of the second list and Intersect drops every NaN of the first.

   This file gives the evaluator what it needs to judge observations on such lists against the textbook
   specification (Sets/ListSpec.v instantiated with [eq_nan]); the models of Sets/Model.v are not run on
   them (their == is the NaN-free [go_eqeq]).
     [nan_in e t v]  : v holds a NaN at a position derived Equal looks at (not in spare capacity);
     [denan e t v]   : v with every NaN leaf outside map keys replaced by 1.0 (for the typing guard: the
                       shape of the value is well-typed, NaN is the only thing [has_type] rejects);
     [eq_nan t x y]  : structural equality with IEEE ==  =  no NaN on either side and [spec_eq]. *)
From Verif Require Import Go.Ty Go.Val Go.Equal.
Open Scope N_scope.

Definition one32 : N := 1065353216.            (* 0x3F800000 *)
Definition one64 : N := 4607182418800017408.   (* 0x3FF0000000000000 *)

Section FieldsAny.
Variable f : ty -> val -> bool.
Fixpoint fields_any (ts : list (bool * ty)) (l : list val) {struct l} : bool :=
  match ts, l with
  | fd :: ts', x :: l' => (f (snd fd) x || fields_any ts' l')%bool
  | _, _ => false
  end.
End FieldsAny.
Section FieldsMap.
Variable f : ty -> val -> val.
Fixpoint fields_map (ts : list (bool * ty)) (l : list val) {struct l} : list val :=
  match ts, l with
  | fd :: ts', x :: l' => f (snd fd) x :: fields_map ts' l'
  | _, _ => l
  end.
End FieldsMap.

Fixpoint nan_in (e : tenv) (t : ty) (v : val) {struct v} : bool :=
  match resolve e t with
  | None => false
  | Some r =>
      let e' := r_env r in
      match r_node r, v with
      | TB KF32, VF _ m => negb (f32_ok m)
      | TB KF64, VF _ m => negb (f64_ok m)
      | TB KC64, VC _ a _ b => (negb (f32_ok a) || negb (f32_ok b))%bool
      | TB KC128, VC _ a _ b => (negb (f64_ok a) || negb (f64_ok b))%bool
      | TP t', VPtr _ v' => nan_in e' t' v'
      | TSl t', VSl _ es _ => existsb (nan_in e' t') es
      | TAr _ t', VArr es => existsb (nan_in e' t') es
      | TM tk tv, VMap _ kvs => existsb (fun kv => nan_in e' tk (fst kv) || nan_in e' tv (snd kv))%bool kvs
      | TSt fs, VSt vs => fields_any (nan_in e') fs vs
      | _, _ => false
      end
  end.

Fixpoint denan (e : tenv) (t : ty) (v : val) {struct v} : val :=
  match resolve e t with
  | None => v
  | Some r =>
      let e' := r_env r in
      match r_node r, v with
      | TB KF32, VF n m => if f32_ok m then v else VF false one32
      | TB KF64, VF n m => if f64_ok m then v else VF false one64
      | TB KC64, VC a b c d =>
          if (f32_ok b && f32_ok d)%bool then v
          else VC (a && f32_ok b) (if f32_ok b then b else one32) (c && f32_ok d) (if f32_ok d then d else one32)
      | TB KC128, VC a b c d =>
          if (f64_ok b && f64_ok d)%bool then v
          else VC (a && f64_ok b) (if f64_ok b then b else one64) (c && f64_ok d) (if f64_ok d then d else one64)
      | TP t', VPtr l v' => VPtr l (denan e' t' v')
      | TSl t', VSl l es sp => VSl l (map (denan e' t') es) (map (denan e' t') sp)
      | TAr _ t', VArr es => VArr (map (denan e' t') es)
      | TM _ tv, VMap l kvs => VMap l (map (fun kv => (fst kv, denan e' tv (snd kv))) kvs)
      | TSt fs, VSt vs => VSt (fields_map (denan e') fs vs)
      | _, _ => v
      end
  end.

(* the guard of a NaN observation: apart from its NaN leaves the value is well-typed *)
Definition typed_nan (t : ty) (v : val) : bool := has_type [] t (denan [] t v).

Definition eq_nan (t : ty) (x y : val) : bool :=
  (negb (nan_in [] t x) && negb (nan_in [] t y)
   && match spec_eq [] t x y with Some b => b | None => false end)%bool.

(* on NaN-free values this is the reference equality of the theorems *)
Lemma eq_nan_nan_free t x y :
  nan_in [] t x = false -> nan_in [] t y = false ->
  eq_nan t x y = match spec_eq [] t x y with Some b => b | None => false end.
Proof. intros Hx Hy. unfold eq_nan. rewrite Hx, Hy. reflexivity. Qed.

(* a value that holds a NaN is Equal to nothing, itself included *)
Lemma eq_nan_irrefl t x y : nan_in [] t x = true -> eq_nan t x y = false /\ eq_nan t y x = false.
Proof.
  intros H. unfold eq_nan. rewrite H. cbn. split; [reflexivity|].
  destruct (nan_in [] t y); reflexivity.
Qed.

(* ---------- examples ---------- *)
Definition qnan64 : N := 9221120237041090561.  (* 0x7FF8000000000001 *)
Example nan_leaf : nan_in [] (TB KF64) (VF false qnan64) = true /\ nan_in [] (TB KF64) (VF true 0) = false.
Proof. split; reflexivity. Qed.
Example nan_in_struct_in_slice :
  let t := TSl (TSt [(false, TB KStr); (false, TN 4 false (TB KF64))]) in
  let v := VSl 1 [VSt [VStr []; VF false one64]; VSt [VStr []; VF false qnan64]] [] in
  nan_in [] t v = true /\ has_type [] t v = false /\ typed_nan t v = true
  /\ eq_nan t v v = false.
Proof. repeat split; reflexivity. Qed.
Example nan_in_spare_is_not_looked_at :
  nan_in [] (TSl (TB KF64)) (VSl 1 [VF false 0] [VF false qnan64]) = false.
Proof. reflexivity. Qed.
