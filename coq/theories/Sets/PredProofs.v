(* Sets/PredProofs.v — filter, takewhile, all, any: the emitted loops against the textbook
   definitions, with the log of predicate calls (C14). *)
From Verif Require Import Sets.Model Sets.ListSpec.
From Coq Require Import Lia.
Open Scope nat_scope.
Open Scope list_scope.

(* ---------- small facts about slices of lists ---------- *)
Lemma nth_error_skipn {A} (l : list A) : forall j n, nth_error (skipn j l) n = nth_error l (j + n).
Proof. induction l as [|x l IH]; intros [|j] n; cbn; try reflexivity; [destruct n; reflexivity| apply IH]. Qed.

Lemma skipn_cons_nth {A} (l : list A) : forall i x, nth_error l i = Some x -> skipn i l = x :: skipn (S i) l.
Proof.
  induction l as [|y l IH]; intros [|i] x H; cbn in H; try discriminate.
  - inversion H; reflexivity.
  - cbn [skipn]. apply IH. exact H.
Qed.

Lemma nth_error_some_lt {A} (l : list A) i : i < length l -> exists x, nth_error l i = Some x.
Proof. intros H. destruct (nth_error l i) eqn:E; [eauto|]. apply nth_error_None in E. lia. Qed.

Lemma upd_app (a : list val) y b x : upd (a ++ y :: b) (length a) x = Ok (a ++ x :: b).
Proof. induction a as [|h a IH]; cbn; [reflexivity|]. rewrite IH. reflexivity. Qed.

Lemma idx_kept_skipn (kept orig : list val) j i x :
  length kept = j -> j <= i -> nth_error orig i = Some x -> idx (kept ++ skipn j orig) i = Ok x.
Proof.
  intros L Le H. unfold idx. rewrite nth_error_app2 by lia. rewrite nth_error_skipn.
  replace (j + (i - length kept)) with i by lia. rewrite H. reflexivity.
Qed.

Lemma firstn_app_exact {A} (a b : list A) : firstn (length a) (a ++ b) = a.
Proof. rewrite firstn_app, Nat.sub_diag, firstn_all. cbn. apply app_nil_r. Qed.
Lemma skipn_app_exact {A} (a b : list A) : skipn (length a) (a ++ b) = b.
Proof. rewrite skipn_app, Nat.sub_diag, skipn_all. reflexivity. Qed.

Ltac fin := cbn [length]; rewrite <- ?app_assoc; cbn [app]; rewrite ?Nat.add_succ_r; cbn [Nat.add]; reflexivity.

(* ---------- all / any ---------- *)
Section P.
Variable p : pred.

Lemma all_loop_spec l : forall log,
  all_loop p l log = (forallb (fun b => b) (answers p log l), log ++ upto_first false l (answers p log l)).
Proof.
  induction l as [|x l IH]; intros log; cbn; [rewrite app_nil_r; reflexivity|].
  destruct (p log x); cbn.
  - rewrite IH. rewrite <- app_assoc. reflexivity.
  - reflexivity.
Qed.

Lemma any_loop_spec l : forall log,
  any_loop p l log = (existsb (fun b => b) (answers p log l), log ++ upto_first true l (answers p log l)).
Proof.
  induction l as [|x l IH]; intros log; cbn; [rewrite app_nil_r; reflexivity|].
  destruct (p log x); cbn.
  - reflexivity.
  - rewrite IH. rewrite <- app_assoc. reflexivity.
Qed.

(* ---------- takewhile ---------- *)
Definition is_fresh_full (fl : N) (v : val) (es : list val) : Prop := v = VSl fl es [].

Lemma takewhile_loop_spec fl l : forall out log,
  takewhile_loop fl p l (VSl fl out []) log =
  Ok (VSl fl (out ++ take_while_by l (answers p log l)) [], log ++ upto_first false l (answers p log l)).
Proof.
  induction l as [|x l IH]; intros out log; cbn; [rewrite !app_nil_r; reflexivity|].
  destruct (p log x); cbn.
  - rewrite IH. rewrite <- !app_assoc. reflexivity.
  - rewrite app_nil_r. reflexivity.
Qed.

(* ---------- filter: the in-place compaction ---------- *)
Lemma filter_loop_spec (orig : list val) : forall k i j kept log,
  i + k = length orig -> j <= i -> length kept = j ->
  let F := filter_by (skipn i orig) (answers p log (skipn i orig)) in
  filter_loop p k i j (kept ++ skipn j orig) log =
  Ok (j + length F, (kept ++ F) ++ skipn (j + length F) orig, log ++ skipn i orig).
Proof.
  induction k as [|k IH]; intros i j kept log Hik Hji Hk; cbn zeta.
  - assert (skipn i orig = []) as -> by (apply skipn_all2; lia). cbn.
    rewrite !app_nil_r, Nat.add_0_r. reflexivity.
  - destruct (nth_error_some_lt orig i ltac:(lia)) as [x Hx].
    rewrite (skipn_cons_nth orig i x Hx). cbn [filter_loop answers filter_by].
    rewrite (idx_kept_skipn kept orig j i x Hk Hji Hx). cbn [rbind].
    destruct (p log x) eqn:P.
    + destruct (Nat.eqb_spec i j) as [E|NE].
      * subst i. cbn [rbind].
        replace (kept ++ skipn j orig) with ((kept ++ [x]) ++ skipn (S j) orig)
          by (rewrite (skipn_cons_nth orig j x Hx), <- app_assoc; reflexivity).
        rewrite (IH (S j) (S j) (kept ++ [x]) (log ++ [x])); [| lia | lia | rewrite app_length; cbn; lia].
        fin.
      * cbn [rbind]. destruct (nth_error_some_lt orig j ltac:(lia)) as [y Hy].
        rewrite (skipn_cons_nth orig j y Hy). rewrite <- Hk at 2. rewrite upd_app. cbn [rbind].
        replace (kept ++ x :: skipn (S j) orig) with ((kept ++ [x]) ++ skipn (S j) orig)
          by (rewrite <- app_assoc; reflexivity).
        rewrite (IH (S i) (S j) (kept ++ [x]) (log ++ [x])); [| lia | lia | rewrite app_length; cbn; lia].
        fin.
    + rewrite (IH (S i) j kept (log ++ [x])); [| lia | lia | exact Hk].
      fin.
Qed.

(* ---------- the four functions ---------- *)
(* Filter: the elements whose answer is true, in order; the predicate is called once on every
   element in order; the result is the front of the argument's own backing array, the rest of
   which keeps its old contents *)
Theorem filter_m_spec l es sp :
  let F := filter_by es (answers p [] es) in
  filter_m p (VSl l es sp) = Ok (VSl l F (skipn (length F) es ++ sp), VSl l (F ++ skipn (length F) es) sp, es)
  /\ filter_m p VNilS = Ok (VNilS, VNilS, []).
Proof.
  split; [|reflexivity]. unfold filter_m.
  pose proof (filter_loop_spec es (length es) 0 0 [] [] eq_refl (le_n 0) eq_refl) as L.
  cbn zeta in L. cbn [app skipn Nat.add] in L. rewrite L. cbn [rbind].
  rewrite firstn_app_exact, skipn_app_exact. reflexivity.
Qed.

Theorem takewhile_m_spec fl lst es : slice_elems lst = Some es ->
  takewhile_m fl p lst = Ok (VSl fl (take_while_by es (answers p [] es)) [], upto_first false es (answers p [] es)).
Proof. intros E. unfold takewhile_m. rewrite E. rewrite takewhile_loop_spec. reflexivity. Qed.

Theorem all_m_spec lst es : slice_elems lst = Some es ->
  all_m p lst = Ok (forallb (fun b => b) (answers p [] es), upto_first false es (answers p [] es)).
Proof. intros E. unfold all_m. rewrite E, all_loop_spec. reflexivity. Qed.

Theorem any_m_spec lst es : slice_elems lst = Some es ->
  any_m p lst = Ok (existsb (fun b => b) (answers p [] es), upto_first true es (answers p [] es)).
Proof. intros E. unfold any_m. rewrite E, any_loop_spec. reflexivity. Qed.

End P.

(* for a predicate without state these are List.filter, takewhile, forallb, existsb *)
Lemma forallb_id_map {A} (q : A -> bool) l : forallb (fun b => b) (map q l) = forallb q l.
Proof. induction l as [|x l IH]; cbn; [reflexivity| rewrite IH; reflexivity]. Qed.
Lemma existsb_id_map {A} (q : A -> bool) l : existsb (fun b => b) (map q l) = existsb q l.
Proof. induction l as [|x l IH]; cbn; [reflexivity| rewrite IH; reflexivity]. Qed.

Corollary filter_pure q l es sp :
  filter_m (pure_pred q) (VSl l es sp) =
  Ok (VSl l (filter q es) (skipn (length (filter q es)) es ++ sp),
      VSl l (filter q es ++ skipn (length (filter q es)) es) sp, es).
Proof.
  destruct (filter_m_spec (pure_pred q) l es sp) as [H _]. cbn zeta in H.
  unfold pure_pred in H. rewrite answers_pure, filter_by_pure in H. exact H.
Qed.
Corollary takewhile_pure fl q lst es : slice_elems lst = Some es ->
  exists log, takewhile_m fl (pure_pred q) lst = Ok (VSl fl (takewhile q es) [], log).
Proof.
  intros E. rewrite (takewhile_m_spec (pure_pred q) fl lst es E). unfold pure_pred.
  rewrite answers_pure, take_while_by_pure. eexists; reflexivity.
Qed.
Corollary all_pure q lst es : slice_elems lst = Some es ->
  exists log, all_m (pure_pred q) lst = Ok (forallb q es, log).
Proof.
  intros E. rewrite (all_m_spec (pure_pred q) lst es E). unfold pure_pred.
  rewrite answers_pure, forallb_id_map. eexists; reflexivity.
Qed.
Corollary any_pure q lst es : slice_elems lst = Some es ->
  exists log, any_m (pure_pred q) lst = Ok (existsb q es, log).
Proof.
  intros E. rewrite (any_m_spec (pure_pred q) lst es E). unfold pure_pred.
  rewrite answers_pure, existsb_id_map. eexists; reflexivity.
Qed.

(* non-vacuity: a stateful predicate ("even-numbered call") and a pure one *)
Definition even_call : pred := fun log _ => Nat.even (length log).
Example filter_example :
  filter_m even_call (VSl 7 [VInt 1; VInt 2; VInt 3; VInt 4] [VInt 9]) =
  Ok (VSl 7 [VInt 1; VInt 3] [VInt 3; VInt 4; VInt 9], VSl 7 [VInt 1; VInt 3; VInt 3; VInt 4] [VInt 9],
      [VInt 1; VInt 2; VInt 3; VInt 4]).
Proof. reflexivity. Qed.
Example takewhile_all_any_example :
  let q := pure_pred (fun v => match v with VInt z => Z.ltb z 3 | _ => false end) in
  let l := VSl 7 [VInt 1; VInt 2; VInt 3; VInt 1] [] in
  takewhile_m 0 q l = Ok (VSl 0 [VInt 1; VInt 2] [], [VInt 1; VInt 2; VInt 3])
  /\ all_m q l = Ok (false, [VInt 1; VInt 2; VInt 3])
  /\ any_m q l = Ok (true, [VInt 1])
  /\ all_m q VNilS = Ok (true, []) /\ any_m q VNilS = Ok (false, []).
Proof. repeat split; reflexivity. Qed.
