(* Sets/ListSpec.v — the textbook side of C14: membership up to an equality, first occurrences,
   predicates consulted in order.  Pure list theory, independent of the models. *)
From Coq Require Import List Bool Arith Lia Permutation.
Import ListNotations.

Section Eq.
Context {A : Type}.
Variable eqb : A -> A -> bool.

(* some element of l is equal to x *)
Definition mem (x : A) (l : list A) : bool := existsb (fun y => eqb y x) l.

(* textbook "unique": an element is kept iff no EARLIER element (prev, then the part of the list
   already passed) is equal to it *)
Fixpoint keep_first (prev l : list A) : list A :=
  match l with
  | [] => []
  | x :: l' => if mem x prev then keep_first (prev ++ [x]) l' else x :: keep_first (prev ++ [x]) l'
  end.

(* what a loop with a "seen" collection computes: compared with the kept elements only *)
Fixpoint dedup (seen l : list A) : list A :=
  match l with
  | [] => []
  | x :: l' => if mem x seen then dedup seen l' else x :: dedup (seen ++ [x]) l'
  end.

(* pairwise different *)
Fixpoint pw_ne (l : list A) : Prop :=
  match l with
  | [] => True
  | x :: r => (forall y, In y r -> eqb x y = false) /\ pw_ne r
  end.

Lemma mem_app x a b : mem x (a ++ b) = mem x a || mem x b.
Proof. unfold mem. apply existsb_app. Qed.

Lemma mem_true x l : mem x l = true <-> exists y, In y l /\ eqb y x = true.
Proof. unfold mem. apply existsb_exists. Qed.

Lemma mem_false x l : mem x l = false <-> forall y, In y l -> eqb y x = false.
Proof.
  split.
  - intros H y Hy. destruct (eqb y x) eqn:E; [|reflexivity].
    assert (mem x l = true) by (apply mem_true; eauto). congruence.
  - intros H. destruct (mem x l) eqn:E; [|reflexivity].
    apply mem_true in E as (y & Hy & E). rewrite (H y Hy) in E. discriminate.
Qed.

Lemma dedup_not_seen l : forall seen y, In y (dedup seen l) -> mem y seen = false.
Proof.
  induction l as [|x l IH]; intros seen y H; cbn in H; [contradiction|].
  destruct (mem x seen) eqn:M.
  - apply IH; exact H.
  - destruct H as [<-|H]; [exact M|].
    apply IH in H. rewrite mem_app in H. apply orb_false_elim in H. tauto.
Qed.

Lemma dedup_In l : forall seen y, In y (dedup seen l) -> In y l.
Proof.
  induction l as [|x l IH]; intros seen y H; cbn in H; [contradiction|].
  destruct (mem x seen); [right; eapply IH; exact H|].
  destruct H as [<-|H]; [left; reflexivity| right; eapply IH; exact H].
Qed.

Lemma dedup_pw l : forall seen, pw_ne (dedup seen l).
Proof.
  induction l as [|x l IH]; intros seen; cbn; [exact I|].
  destruct (mem x seen); [apply IH|]. cbn. split; [|apply IH].
  intros y Hy. apply dedup_not_seen in Hy. rewrite mem_app in Hy. apply orb_false_elim in Hy as [_ Hy].
  cbn in Hy. rewrite orb_false_r in Hy. exact Hy.
Qed.

Variable D : A -> Prop.          (* the values on which eqb is an equivalence *)
Hypothesis eqb_trans : forall x y z, D x -> D y -> D z -> eqb x y = true -> eqb y z = true -> eqb x z = true.

(* membership in "seen, then the new items" = membership in seen or in the list *)
Lemma mem_dedup l : forall seen z, Forall D seen -> Forall D l -> D z ->
  mem z (seen ++ dedup seen l) = mem z seen || mem z l.
Proof.
  induction l as [|a l IH]; intros seen z Hs Hl Hz; cbn [dedup].
  - rewrite app_nil_r. cbn. rewrite orb_false_r. reflexivity.
  - inversion Hl as [|? ? Ha Hl']; subst.
    destruct (mem a seen) eqn:M.
    + rewrite (IH seen z Hs Hl' Hz). cbn [mem existsb]. fold (mem z l).
      destruct (eqb a z) eqn:E; [|reflexivity].
      assert (mem z seen = true) as ->; [|reflexivity].
      apply mem_true in M as (s & Hsin & Es). apply mem_true. exists s. split; [exact Hsin|].
      rewrite Forall_forall in Hs. eapply (eqb_trans s a z); eauto.
    + replace (seen ++ a :: dedup (seen ++ [a]) l) with ((seen ++ [a]) ++ dedup (seen ++ [a]) l)
        by (rewrite <- app_assoc; reflexivity).
      rewrite (IH (seen ++ [a]) z); [| apply Forall_app; split; [exact Hs| constructor; [exact Ha|constructor]] | exact Hl' | exact Hz].
      rewrite mem_app. cbn [mem existsb]. fold (mem z l). rewrite orb_false_r, orb_assoc. reflexivity.
Qed.

Lemma dedup_cover l z : Forall D l -> D z -> mem z (dedup [] l) = mem z l.
Proof. intros Hl Hz. exact (mem_dedup l [] z (Forall_nil _) Hl Hz). Qed.

(* the loop's result is the textbook one *)
Lemma dedup_keep_first l : forall seen prev, Forall D seen -> Forall D prev -> Forall D l ->
  (forall z, D z -> mem z seen = mem z prev) -> dedup seen l = keep_first prev l.
Proof.
  induction l as [|x l IH]; intros seen prev Hs Hp Hl Hc; cbn; [reflexivity|].
  inversion Hl as [|? ? Hx Hl']; subst.
  rewrite <- (Hc x Hx).
  destruct (mem x seen) eqn:M.
  - apply IH; try assumption; [apply Forall_app; split; [exact Hp| constructor; [exact Hx|constructor]]|].
    intros z Hz. rewrite mem_app, <- (Hc z Hz). cbn. rewrite orb_false_r.
    destruct (eqb x z) eqn:E; [|rewrite orb_false_r; reflexivity].
    rewrite orb_true_r. apply mem_true in M as (s & Hsin & Es). apply mem_true. exists s. split; [exact Hsin|].
    rewrite Forall_forall in Hs. eapply (eqb_trans s x z); eauto.
  - f_equal. apply IH; try assumption.
    + apply Forall_app; split; [exact Hs| constructor; [exact Hx|constructor]].
    + apply Forall_app; split; [exact Hp| constructor; [exact Hx|constructor]].
    + intros z Hz. rewrite !mem_app, (Hc z Hz). reflexivity.
Qed.

Corollary dedup_is_keep_first l seen : Forall D seen -> Forall D l -> dedup seen l = keep_first seen l.
Proof. intros Hs Hl. apply dedup_keep_first; auto. Qed.

(* seen pairwise different, the new items too, and no new item equal to a seen one *)
Lemma pw_ne_app a r : pw_ne a -> pw_ne r -> (forall y, In y r -> forall s, In s a -> eqb s y = false) ->
  pw_ne (a ++ r).
Proof.
  induction a as [|s a IH]; intros Hs Hr Hn; cbn; [exact Hr|].
  destruct Hs as [Hs1 Hs2]. split.
  - intros y Hy. apply in_app_or in Hy as [Hy|Hy]; [apply Hs1; exact Hy| apply (Hn y Hy s); left; reflexivity].
  - apply IH; [exact Hs2| exact Hr|]. intros y Hy s' Hs'. apply (Hn y Hy). right. exact Hs'.
Qed.
Lemma pw_ne_app_dedup seen l : pw_ne seen -> pw_ne (seen ++ dedup seen l).
Proof.
  intros Hs. apply pw_ne_app; [exact Hs| apply dedup_pw|].
  intros y Hy. apply dedup_not_seen in Hy. apply mem_false. exact Hy.
Qed.

Hypothesis eqb_sym : forall x y, D x -> D y -> eqb x y = eqb y x.

(* intersection: the elements of a that have an equal in b *)
Lemma mem_filter_mem a b z : Forall D a -> Forall D b -> D z ->
  mem z (filter (fun v => mem v b) a) = mem z a && mem z b.
Proof.
  intros Ha Hb Hz. rewrite Forall_forall in Ha, Hb. apply eq_true_iff_eq. rewrite andb_true_iff, !mem_true. split.
  - intros (v & Hv & Ev). apply filter_In in Hv as [Hv Mv]. split; [exists v; auto|].
    apply mem_true in Mv as (y & Hy & Ey). exists y. split; [exact Hy|]. eapply (eqb_trans y v z); eauto.
  - intros [(v & Hv & Ev) (y & Hy & Ey)]. exists v. split; [|exact Ev]. apply filter_In. split; [exact Hv|].
    apply mem_true. exists y. split; [exact Hy|]. assert (Ezv : eqb z v = true) by (rewrite eqb_sym; auto).
    eapply (eqb_trans y z v); eauto.
Qed.

End Eq.

(* membership does not depend on the order *)
Lemma mem_perm {A} (eqb : A -> A -> bool) x l l' : Permutation l l' -> mem eqb x l = mem eqb x l'.
Proof.
  intros P. apply eq_true_iff_eq. rewrite !mem_true. split; intros (y & Hy & E); exists y; split; auto.
  - eapply Permutation_in; eauto.
  - eapply Permutation_in; [apply Permutation_sym|]; eauto.
Qed.

(* ---------- predicates consulted in order ---------- *)
Section Pred.
Context {A : Type}.
Definition hpred := list A -> A -> bool.
Variable p : hpred.

(* the answers p gives when it is called on every element of l in order, after the calls in log *)
Fixpoint answers (log l : list A) : list bool :=
  match l with
  | [] => []
  | x :: l' => p log x :: answers (log ++ [x]) l'
  end.

(* the elements whose answer is true *)
Fixpoint filter_by (l : list A) (bs : list bool) : list A :=
  match l, bs with
  | x :: l', b :: bs' => if b then x :: filter_by l' bs' else filter_by l' bs'
  | _, _ => []
  end.
(* the longest prefix whose answers are all true *)
Fixpoint take_while_by (l : list A) (bs : list bool) : list A :=
  match l, bs with
  | x :: l', true :: bs' => x :: take_while_by l' bs'
  | _, _ => []
  end.
(* the prefix up to and including the first element whose answer is b (everything if none) *)
Fixpoint upto_first (b : bool) (l : list A) (bs : list bool) : list A :=
  match l, bs with
  | x :: l', c :: bs' => if Bool.eqb c b then [x] else x :: upto_first b l' bs'
  | _, _ => []
  end.
End Pred.

Lemma answers_pure {A} (q : A -> bool) l : forall log, answers (fun _ x => q x) log l = map q l.
Proof. induction l as [|x l IH]; intros log; cbn; [reflexivity|]. rewrite IH. reflexivity. Qed.

Lemma filter_by_pure {A} (q : A -> bool) (l : list A) : filter_by l (map q l) = filter q l.
Proof. induction l as [|x l IH]; cbn; [reflexivity|]. rewrite IH. reflexivity. Qed.

Fixpoint takewhile {A} (q : A -> bool) (l : list A) : list A :=
  match l with
  | [] => []
  | x :: l' => if q x then x :: takewhile q l' else []
  end.
Lemma take_while_by_pure {A} (q : A -> bool) (l : list A) : take_while_by l (map q l) = takewhile q l.
Proof. induction l as [|x l IH]; cbn; [reflexivity|]. rewrite IH. reflexivity. Qed.
