(* Sets/EqEq.v — Go's == on values (the equality of map keys) is symmetric and transitive on all
   values; it is reflexive exactly on the values that may be map keys (no NaN, comparable). *)
From Verif Require Import Go.Ty Go.Val Go.Equal Go.EqualProofs Go.KeyOrder.
From Coq Require Import Lia.

Lemma feq_sym n1 m1 n2 m2 : feq n1 m1 n2 m2 = feq n2 m2 n1 m1.
Proof.
  apply Bool.eq_true_iff_eq. rewrite !fkey_eq. split; intros H; symmetry; exact H.
Qed.
Lemma feq_trans n1 m1 n2 m2 n3 m3 : feq n1 m1 n2 m2 = true -> feq n2 m2 n3 m3 = true -> feq n1 m1 n3 m3 = true.
Proof. rewrite !fkey_eq. intros -> ->. reflexivity. Qed.

Lemma bytes_eqb_sym a : forall b, bytes_eqb a b = bytes_eqb b a.
Proof.
  induction a as [|x a IH]; intros [|y b]; cbn; try reflexivity. rewrite IH, N.eqb_sym. reflexivity.
Qed.

Lemma all2b_sym (xs : list val) :
  Forall (fun a => forall b, go_eqeq a b = go_eqeq b a) xs ->
  forall ys, all2b (fun a b => go_eqeq a b) xs ys = all2b (fun a b => go_eqeq a b) ys xs.
Proof.
  induction 1 as [|x xs Hx _ IH]; intros [|y ys]; cbn; try reflexivity. rewrite Hx, IH. reflexivity.
Qed.

Lemma go_eqeq_sym : forall x y, go_eqeq x y = go_eqeq y x.
Proof.
  induction x using val_ind'; intros y; rewrite (go_eqeq_unfold y); destruct y; cbn; try reflexivity.
  - destruct b, b0; reflexivity.
  - apply Z.eqb_sym.
  - apply feq_sym.
  - rewrite (feq_sym a b), (feq_sym c d). reflexivity.
  - apply bytes_eqb_sym.
  - apply N.eqb_sym.
  - apply all2b_sym. exact H.
  - apply all2b_sym. exact H.
Qed.

Lemma all2b_trans (xs : list val) :
  Forall (fun a => forall b c, go_eqeq a b = true -> go_eqeq b c = true -> go_eqeq a c = true) xs ->
  forall ys zs, all2b (fun a b => go_eqeq a b) xs ys = true -> all2b (fun a b => go_eqeq a b) ys zs = true ->
  all2b (fun a b => go_eqeq a b) xs zs = true.
Proof.
  induction 1 as [|x xs Hx _ IH]; intros [|y ys] [|z zs] H1 H2; cbn in *; try reflexivity; try discriminate.
  apply andb_prop in H1 as [A1 B1]. apply andb_prop in H2 as [A2 B2].
  rewrite (Hx y z A1 A2), (IH ys zs B1 B2). reflexivity.
Qed.

Lemma go_eqeq_trans : forall x y w, go_eqeq x y = true -> go_eqeq y w = true -> go_eqeq x w = true.
Proof.
  induction x using val_ind'; intros y w H1 H2; rewrite go_eqeq_unfold in H1; destruct y; try discriminate;
  rewrite go_eqeq_unfold in H2; destruct w; try discriminate; rewrite go_eqeq_unfold.
  - apply Bool.eqb_prop in H1, H2. subst. apply Bool.eqb_reflx.
  - apply Z.eqb_eq in H1, H2. subst. apply Z.eqb_refl.
  - eapply feq_trans; eauto.
  - apply andb_prop in H1 as [A1 B1]. apply andb_prop in H2 as [A2 B2].
    rewrite (feq_trans _ _ _ _ _ _ A1 A2), (feq_trans _ _ _ _ _ _ B1 B2). reflexivity.
  - apply bytes_eqb_eq in H1, H2. subst. apply bytes_eqb_eq. reflexivity.
  - reflexivity.
  - apply N.eqb_eq in H1, H2. subst. apply N.eqb_refl.
  - eapply all2b_trans; eauto.
  - eapply all2b_trans; eauto.
Qed.

(* a value may be a map key iff it is == to itself *)
Definition keyable (x : val) : Prop := go_eqeq x x = true.
Lemma keyable_typed t e x : can_equal t = true -> has_type e t x = true -> keyable x.
Proof. apply go_eqeq_refl_typed. Qed.
