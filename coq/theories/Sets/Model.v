(* Sets/Model.v — model of the code emitted by the set/list helper plugins (C14):
   contains, unique, set, union, intersect, filter, takewhile, all, any  (and keys, as used by
   unique).  Every function is a transcription of the emitted loop over [val]s.

   Conventions
   * a Go slice argument is a [val] ([VNilS] or [VSl label elems spare]); the functions that write
     through their argument (unique on the hash path, filter, union when the first list has spare
     capacity) return the state of that argument's backing array after the call as well;
   * a freshly allocated backing array / map gets the label [fl] (a parameter); the capacity of a
     fresh array is not modelled (its spare part is []), so [append] to a fresh slice stays fresh;
   * a predicate is a function of the arguments of its earlier calls (oldest first) and the
     current argument — every deterministic predicate whose state depends only on its own
     call history, e.g. "is Equal to c" (ignores the history) or "even-numbered call";
     the models return the log of predicate calls;
   * the iteration order of Go maps is a parameter [ord] (the theorems quantify over every
     permutation). *)
From Verif Require Export Go.Ty Go.Val Go.Equal Go.Hash.
Open Scope nat_scope.
Open Scope list_scope.

Definition pred := list val -> val -> bool.
Definition pure_pred (q : val -> bool) : pred := fun _ x => q x.

(* append(s, x) for one element *)
Definition append1 (fl : N) (s : val) (x : val) : res val :=
  match s with
  | VNilS => Ok (VSl fl [x] [])
  | VSl l es (_ :: sp) => Ok (VSl l (es ++ [x]) sp)     (* room: written into the backing array *)
  | VSl l es [] => Ok (VSl fl (es ++ [x]) [])           (* full: grown into a new array *)
  | _ => Stuck
  end.

(* list[j] = x ; index out of range panics *)
Fixpoint upd (l : list val) (j : nat) (x : val) : res (list val) :=
  match l, j with
  | [], _ => Pan
  | _ :: t, O => Ok (x :: t)
  | h :: t, S j' => rdo t' <- upd t j' x; Ok (h :: t')
  end.
Definition idx (l : list val) (i : nat) : res val :=
  match nth_error l i with Some x => Ok x | None => Pan end.

Section Elem.
Variable e : tenv.
Variable t : ty.        (* the element type *)
Variable fl : N.        (* label of fresh allocations *)

(* ---------- plugin/contains ----------
   for _, v := range list { if v == item  /  if deriveEqual(v, item) { return true } }; return false
   `==` when canEqual(etyp) (= derive.IsComparable), the generated Equal function otherwise *)
Definition elem_eq (x y : val) : res bool :=
  if can_equal t then Ok (go_eqeq x y) else Equal.eqm e Top t x y.

Fixpoint contains_loop (l : list val) (item : val) : res bool :=
  match l with
  | [] => Ok false
  | v :: l' => rdo b <- elem_eq v item; if b then Ok true else contains_loop l' item
  end.
Definition contains_m (lst item : val) : res bool :=
  match slice_elems lst with Some l => contains_loop l item | None => Stuck end.

(* ---------- plugin/set, plugin/keys ----------
   set := make(map[T]struct{}, len(list)); for _, v := range list { set[v] = struct{}{} }
   A map is the list of its keys in insertion order; m[k] = v on a present key keeps the entry. *)
Definition key_in (k : val) (m : list val) : bool := existsb (fun k' => go_eqeq k' k) m.
Definition map_insert (m : list val) (k : val) : list val := if key_in k m then m else m ++ [k].
Definition set_keys (l : list val) : list val := fold_left map_insert l [].
Definition unit_entries (ks : list val) : list (val * val) := map (fun k => (k, VSt [])) ks.
Definition set_m (lst : val) : res val :=
  match slice_elems lst with Some l => Ok (VMap fl (unit_entries (set_keys l))) | None => Stuck end.
Definition map_keys (m : val) : option (list val) :=
  match m with VNilM => Some [] | VMap _ kvs => Some (map fst kvs) | _ => None end.
(* keys := make([]T, 0, len(m)); for key := range m { keys = append(keys, key) } *)
Definition keys_m (ord : list val -> list val) (m : val) : res val :=
  match map_keys m with Some ks => Ok (VSl fl (ord ks) []) | None => Stuck end.

(* ---------- plugin/unique ----------
   if len(list) == 0 { return nil }
   comparable elements:  return deriveKeys(deriveSet(list))
   otherwise: the hash table of indexes into the compacted prefix of list itself *)
Fixpoint bucket (h : N) (tb : list (N * list nat)) : list nat :=
  match tb with
  | [] => []
  | (h', ix) :: tb' => if N.eqb h' h then ix else bucket h tb'
  end.
(* table[hash] = append(table[hash], u) *)
Fixpoint bucket_add (h : N) (u : nat) (tb : list (N * list nat)) : list (N * list nat) :=
  match tb with
  | [] => [(h, [u])]
  | (h', ix) :: tb' => if N.eqb h' h then (h', ix ++ [u]) :: tb' else (h', ix) :: bucket_add h u tb'
  end.
(* for _, index := range indexes { if deriveEqual(list[index], list[i]) { contains = true; break } } *)
Fixpoint scan (arr : list val) (x : val) (ixs : list nat) : res bool :=
  match ixs with
  | [] => Ok false
  | ix :: r => rdo y <- idx arr ix; rdo b <- Equal.eqm e Top t y x; if b then Ok true else scan arr x r
  end.
(* for i := 0; i < len(list); i++ { ... }   k = iterations left; returns (u, backing array) *)
Fixpoint uniq_loop (k i u : nat) (arr : list val) (tb : list (N * list nat)) : res (nat * list val) :=
  match k with
  | O => Ok (u, arr)
  | S k' =>
      rdo x <- idx arr i;
      rdo h <- hashm e t x;
      rdo c <- scan arr x (bucket h tb);
      if c then uniq_loop k' (S i) u arr tb
      else
        rdo arr' <- (if Nat.eqb i u then Ok arr else upd arr u x);
        uniq_loop k' (S i) (S u) arr' (bucket_add h u tb)
  end.

(* result and the argument as the caller sees it afterwards *)
Definition unique_m (ord : list val -> list val) (lst : val) : res (val * val) :=
  match lst with
  | VNilS => Ok (VNilS, VNilS)
  | VSl l [] sp => Ok (VNilS, lst)
  | VSl l es sp =>
      if can_equal t then
        rdo s <- set_m lst; rdo r <- keys_m ord s; Ok (r, lst)
      else
        rdo ua <- uniq_loop (length es) 0 0 es [];
        let '(u, arr) := ua in
        Ok (VSl l (firstn u arr) (skipn u arr ++ sp), VSl l arr sp)      (* list[:u] *)
  | _ => Stuck
  end.

(* ---------- plugin/union ----------
   for i, v := range that { if !deriveContains(this, v) { this = append(this, that[i]) } }; return this *)
Fixpoint union_loop (this : val) (that : list val) : res val :=
  match that with
  | [] => Ok this
  | v :: that' =>
      rdo c <- contains_m this v;
      if c then union_loop this that' else rdo this' <- append1 fl this v; union_loop this' that'
  end.
Definition elems_of (v : val) : list val := match v with VSl _ es _ => es | _ => [] end.
(* the first argument afterwards: the appended items sit in its spare capacity as far as it reaches *)
Definition union_after (this result : val) : val :=
  match this with
  | VSl l es sp =>
      let news := skipn (length es) (elems_of result) in
      VSl l es (firstn (length sp) news ++ skipn (length news) sp)
  | _ => this
  end.
Definition union_m (this that : val) : res (val * val) :=
  match slice_elems that with
  | Some l => rdo r <- union_loop this l; Ok (r, union_after this r)
  | None => Stuck
  end.
(* maps (after fix C14-fix-union-nil-map):
     if union == nil { union = make(map[T]struct{}, len(that)) }
     for k := range that { union[k] = struct{}{} }; return union
   writes into the first map unless that is nil *)
Definition union_map_m (ord : list val -> list val) (this that : val) : res val :=
  match map_keys that with
  | None => Stuck
  | Some ks2 =>
      match this with
      | VNilM => Ok (VMap fl (unit_entries (fold_left map_insert (ord ks2) [])))
      | VMap l kvs => Ok (VMap l (unit_entries (fold_left map_insert (ord ks2) (map fst kvs))))
      | _ => Stuck
      end
  end.
(* the pinned tree, before the fix: assignment to an entry of a nil map panics *)
Definition union_map_old_m (ord : list val -> list val) (this that : val) : res val :=
  match this, map_keys that with
  | VNilM, Some (_ :: _) => Pan
  | VNilM, Some [] => Ok VNilM
  | _, _ => union_map_m ord this that
  end.

(* ---------- plugin/intersect ----------
   intersect := make([]T, 0, min(len(this), len(that)))
   for i, v := range this { if deriveContains(that, v) { intersect = append(intersect, this[i]) } } *)
Fixpoint intersect_loop (this : list val) (that acc : val) : res val :=
  match this with
  | [] => Ok acc
  | v :: this' =>
      rdo c <- contains_m that v;
      if c then rdo acc' <- append1 fl acc v; intersect_loop this' that acc'
      else intersect_loop this' that acc
  end.
Definition intersect_m (this that : val) : res val :=
  match slice_elems this with
  | Some l => intersect_loop l that (VSl fl [] [])
  | None => Stuck
  end.
(* maps: for k := range this { if _, ok := that[k]; ok { intersect[k] = struct{}{} } } *)
Definition intersect_map_m (ord : list val -> list val) (this that : val) : res val :=
  match map_keys this, map_keys that with
  | Some ks1, Some ks2 =>
      Ok (VMap fl (unit_entries
            (fold_left (fun m k => if key_in k ks2 then map_insert m k else m) (ord ks1) [])))
  | _, _ => Stuck
  end.

(* ---------- plugin/filter ----------
   j := 0
   for i, elem := range list { if predicate(elem) { if i != j { list[j] = list[i] }; j++ } }
   return list[:j]
   k = iterations left; returns (j, backing array, log) *)
Fixpoint filter_loop (p : pred) (k i j : nat) (arr log : list val) : res (nat * list val * list val) :=
  match k with
  | O => Ok (j, arr, log)
  | S k' =>
      rdo elem <- idx arr i;
      if p log elem then
        rdo arr' <- (if Nat.eqb i j then Ok arr else rdo x <- idx arr i; upd arr j x);
        filter_loop p k' (S i) (S j) arr' (log ++ [elem])
      else filter_loop p k' (S i) j arr (log ++ [elem])
  end.
(* result, argument afterwards, log *)
Definition filter_m (p : pred) (lst : val) : res (val * val * list val) :=
  match lst with
  | VNilS => Ok (VNilS, VNilS, [])
  | VSl l es sp =>
      rdo r <- filter_loop p (length es) 0 0 es [];
      let '(j, arr, log) := r in
      Ok (VSl l (firstn j arr) (skipn j arr ++ sp), VSl l arr sp, log)
  | _ => Stuck
  end.

(* ---------- plugin/takewhile ----------
   out := make([]T, 0, len(list))
   for i, elem := range list { if !predicate(elem) { break }; out = append(out, list[i]) } *)
Fixpoint takewhile_loop (p : pred) (l : list val) (out : val) (log : list val) : res (val * list val) :=
  match l with
  | [] => Ok (out, log)
  | x :: l' =>
      if p log x then rdo out' <- append1 fl out x; takewhile_loop p l' out' (log ++ [x])
      else Ok (out, log ++ [x])
  end.
Definition takewhile_m (p : pred) (lst : val) : res (val * list val) :=
  match slice_elems lst with
  | Some l => takewhile_loop p l (VSl fl [] []) []
  | None => Stuck
  end.

(* ---------- plugin/all, plugin/any ----------
   for _, elem := range slice { if !predicate(elem) { return false } }; return true
   for _, elem := range list  { if pred(elem) { return true } }; return false *)
Fixpoint all_loop (p : pred) (l log : list val) : bool * list val :=
  match l with
  | [] => (true, log)
  | x :: l' => if p log x then all_loop p l' (log ++ [x]) else (false, log ++ [x])
  end.
Fixpoint any_loop (p : pred) (l log : list val) : bool * list val :=
  match l with
  | [] => (false, log)
  | x :: l' => if p log x then (true, log ++ [x]) else any_loop p l' (log ++ [x])
  end.
Definition all_m (p : pred) (lst : val) : res (bool * list val) :=
  match slice_elems lst with Some l => Ok (all_loop p l []) | None => Stuck end.
Definition any_m (p : pred) (lst : val) : res (bool * list val) :=
  match slice_elems lst with Some l => Ok (any_loop p l []) | None => Stuck end.

End Elem.
