(* Sets/HashTotal.v — the model of derived Hash never panics and is never stuck on a well-typed
   value: it returns a hash, or the generator refuses the type (a map whose keys it cannot sort). *)
From Verif Require Import Go.Ty Go.Val Go.Equal Go.EqualProofs Go.Compare Go.SortLemmas Go.Hash Go.HashProofs.
From Coq Require Import Lia.

Definition okish {A} (r : res A) : Prop := r = Unsup \/ exists a, r = Ok a.

Lemma leaf_hash_total k x : basic_ok k x = true -> exists h, leaf_hash k x = Some h.
Proof. destruct k, x; cbn; intros H; try discriminate; eexists; reflexivity. Qed.

Lemma elems_h_total (f : val -> res N) xs : Forall (fun a => okish (f a)) xs -> forall h, okish (elems_h f h xs).
Proof.
  induction 1 as [|a xs [Ha|[c Ha]] _ IH]; intros h; cbn.
  - right; eexists; reflexivity.
  - rewrite Ha. left; reflexivity.
  - rewrite Ha. cbn. apply IH.
Qed.

Lemma fields_h_total (f : ty -> val -> res N) (ht : ty -> val -> bool) skip xs :
  Forall (fun a => forall ft, ht ft a = true -> okish (f ft a)) xs ->
  forall fs h, fields_ok ht fs xs = true -> okish (fields_h f skip h fs xs).
Proof.
  induction 1 as [|a xs Ha _ IH]; intros [|fd fs] h Hok; cbn in Hok; try discriminate; cbn.
  - right; eexists; reflexivity.
  - apply andb_prop in Hok as [H1 H2].
    destruct (skip && fst fd)%bool; [apply IH; exact H2|].
    destruct (Ha _ H1) as [E|[c E]]; rewrite E; [left; reflexivity|]. cbn. apply IH; exact H2.
Qed.

Lemma struct_hash_total (f : ty -> val -> res N) (ht : ty -> val -> bool) skip xs fs :
  Forall (fun a => forall ft, ht ft a = true -> okish (f ft a)) xs ->
  fields_ok ht fs xs = true -> okish (struct_hash f skip fs xs).
Proof.
  intros H Hok. unfold struct_hash. destruct fs, xs; try (cbn in Hok; discriminate).
  - right; eexists; reflexivity.
  - apply (fields_h_total f ht); assumption.
Qed.

Lemma entries_h_total es : Forall (fun e => okish (fst (snd e)) /\ okish (snd (snd e))) es ->
  forall h, okish (entries_h h es).
Proof.
  induction 1 as [|[k [hk hv]] es [Hk Hv] _ IH]; intros h; cbn in *.
  - right; eexists; reflexivity.
  - destruct Hk as [E|[a E]]; rewrite E; [left; reflexivity|]. cbn.
    destruct Hv as [E'|[b E']]; rewrite E'; [left; reflexivity|]. cbn. apply IH.
Qed.

Theorem hash_total : forall x e t, has_type e t x = true -> okish (hashm e t x).
Proof.
  induction x using val_ind'; intros e t Hx0; pose proof Hx0 as Hx;
  rewrite has_type_unfold in Hx; rewrite hashm_unfold;
  destruct (resolve e t) as [r|] eqn:R; try discriminate; cbn zeta in *;
  destruct (r_node r) eqn:N; try discriminate.
  1-5: (destruct (leaf_hash_total _ _ Hx) as [h ->]; right; eexists; reflexivity).
  all: try (cbn in Hx; destruct k; discriminate).
  - (* VNilP *) destruct (resolve (r_env r) t0); [right; eexists; reflexivity|discriminate].
  - (* VPtr *)
    assert (exists rr, resolve (r_env r) t0 = Some rr) as [rr RR].
    { rewrite has_type_unfold in Hx. destruct (resolve (r_env r) t0); [eexists; reflexivity|discriminate]. }
    rewrite RR. specialize (IHx (r_env r) t0 Hx).
    assert (G : okish (rmap (fun c => wrap (31 * 17 + c)) (hashm (r_env r) t0 x))).
    { destruct IHx as [E|[c E]]; rewrite E; [left; reflexivity| right; eexists; reflexivity]. }
    destruct (r_node rr) eqn:NN; try exact G.
    destruct (is_named rr) eqn:NM; [|exact G].
    rewrite hashm_unfold, RR in IHx. cbn zeta in IHx. rewrite NN, NM in IHx. cbn [andb] in IHx.
    rewrite has_type_unfold, RR in Hx. cbn zeta in Hx. rewrite NN in Hx.
    destruct x; try discriminate. exact IHx.
  - (* VNilS *) right; eexists; reflexivity.
  - (* VSl *)
    apply andb_prop in Hx as [Hx _]. apply elems_h_total.
    apply forallb_Forall in Hx. rewrite Forall_forall in *. intros a Ha. apply H; [exact Ha| apply Hx; exact Ha].
  - (* VNilM *) right; eexists; reflexivity.
  - (* VMap *)
    destruct (key_sup t0_1); cbn [negb]; [|left; reflexivity].
    apply andb_prop in Hx as [_ Hx]. apply forallb_Forall in Hx.
    apply entries_h_total. rewrite Forall_forall in *. intros en Hen. apply sort_by_In in Hen.
    apply in_map_iff in Hen as (kv & <- & Hkv). cbn [fst snd].
    specialize (Hx kv Hkv). cbn in Hx. apply andb_prop in Hx as [Hk Hv].
    destruct (H kv Hkv) as [IHk IHv]. split; [apply IHk; exact Hk| apply IHv; exact Hv].
  - (* VArr *)
    apply andb_prop in Hx as [_ Hx]. apply elems_h_total.
    apply forallb_Forall in Hx. rewrite Forall_forall in *. intros a Ha. apply H; [exact Ha| apply Hx; exact Ha].
  - (* VSt *)
    apply (struct_hash_total _ (has_type (r_env r))); [|exact Hx].
    rewrite Forall_forall in *. intros a Ha ft Hta. apply H; assumption.
Qed.
