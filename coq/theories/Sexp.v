(* Sexp.v — the interchange format between the Go harness and the model evaluator.
   All parsing of observations into model terms is done in Gallina, so that the
   extracted evaluator and `Eval vm_compute` inside coqc run the same code; the OCaml
   glue only tokenises text into [sexp] and prints [sexp] back. *)
From Coq Require Export String.
From Coq Require Export List.   (* re-export so that length/concat/... are List's again *)
From Verif Require Export Base.
Export ListNotations.
Open Scope string_scope.

Inductive sexp : Type :=
| Num (z : Z)
| Sym (s : string)
| L (l : list sexp).

Definition sym_is (s : string) (e : sexp) : bool :=
  match e with Sym s' => String.eqb s s' | _ => false end.

Definition get_num (e : sexp) : option Z := match e with Num z => Some z | _ => None end.
Definition get_list (e : sexp) : option (list sexp) := match e with L l => Some l | _ => None end.

Fixpoint map_opt {A B} (f : A -> option B) (l : list A) : option (list B) :=
  match l with
  | [] => Some []
  | a :: t => match f a, map_opt f t with
              | Some b, Some bs => Some (b :: bs)
              | _, _ => None
              end
  end.

Definition get_zs (e : sexp) : option (list Z) :=
  match e with L l => map_opt get_num l | _ => None end.
Definition get_ns (e : sexp) : option (list N) :=
  option_map (map Z.to_N) (get_zs e).
Definition get_nat (e : sexp) : option nat := option_map Z.to_nat (get_num e).

Definition of_zs (l : list Z) : sexp := L (map Num l).
Definition of_ns (l : list N) : sexp := L (map (fun n => Num (Z.of_N n)) l).
Definition of_bool (b : bool) : sexp := Num (if b then 1 else 0)%Z.
Definition of_nat (n : nat) : sexp := Num (Z.of_nat n).

(* structural equality on sexps, used to compare observed and model results *)
Fixpoint sexp_eqb (a b : sexp) {struct a} : bool :=
  match a, b with
  | Num x, Num y => Z.eqb x y
  | Sym x, Sym y => String.eqb x y
  | L xs, L ys =>
      (fix go (xs ys : list sexp) {struct xs} : bool :=
         match xs, ys with
         | [], [] => true
         | x :: xs', y :: ys' => sexp_eqb x y && go xs' ys'
         | _, _ => false
         end) xs ys
  | _, _ => false
  end.

(* the verdict for one observation line *)
Record verdict := {
  v_known : bool;        (* the evaluator understood the line *)
  v_model_ok : bool;     (* real = model *)
  v_spec_ok : bool;      (* real satisfies the specification (property) on this input *)
  v_guard : bool;        (* the input lies inside the guard of the property theorem *)
  v_model : sexp;        (* what the model predicts (for the replay file) *)
  v_tag : string         (* model arm / case class, for coverage counting *)
}.

Definition bad_line : verdict :=
  {| v_known := false; v_model_ok := false; v_spec_ok := false; v_guard := false;
     v_model := Sym "?"; v_tag := "unparsed" |}.
