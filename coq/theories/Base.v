(* Base.v — shared small definitions: outcomes of emitted code, list helpers.
   Standard library only; no axioms. *)
From Coq Require Export List ZArith NArith Bool Arith Lia.
Export ListNotations.

(* Outcome of running a piece of emitted Go: a value, or a run-time panic
   (nil dereference, index out of range, send on closed channel ...). *)
Inductive outcome (A : Type) : Type :=
| Ret (a : A)
| Panic.
Arguments Ret {A} a.
Arguments Panic {A}.

Definition obind {A B} (o : outcome A) (k : A -> outcome B) : outcome B :=
  match o with Ret a => k a | Panic => Panic end.
Definition omap {A B} (f : A -> B) (o : outcome A) : outcome B :=
  match o with Ret a => Ret (f a) | Panic => Panic end.

Notation "'do' x <- o ; k" := (obind o (fun x => k))
  (at level 200, x pattern, o at level 100, k at level 200, right associativity).

(* out[i] = v on a Go slice of fixed length: panics when i is out of range *)
Fixpoint set_nth {A} (l : list A) (i : nat) (v : A) : outcome (list A) :=
  match l, i with
  | [], _ => Panic
  | _ :: t, O => Ret (v :: t)
  | h :: t, S i' => omap (cons h) (set_nth t i' v)
  end.

Lemma set_nth_length {A} (l : list A) i v l' :
  set_nth l i v = Ret l' -> length l' = length l.
Proof.
  revert i l'; induction l as [|h t IH]; intros [|i] l' H; cbn in H; try discriminate.
  - inversion H; reflexivity.
  - destruct (set_nth t i v) eqn:E; cbn in H; [|discriminate].
    inversion H; subst; cbn; f_equal; eauto.
Qed.

Lemma set_nth_app {A} (done rest : list A) (x v : A) :
  set_nth (done ++ x :: rest) (length done) v = Ret (done ++ v :: rest).
Proof.
  induction done as [|d ds IH]; cbn; [reflexivity|]. rewrite IH. reflexivity.
Qed.

Lemma set_nth_out_of_range {A} (l : list A) i v :
  length l <= i -> set_nth l i v = Panic.
Proof.
  revert i; induction l as [|h t IH]; intros [|i] H; cbn in *; try reflexivity; try lia.
  rewrite IH by lia. reflexivity.
Qed.

Definition zeros {A} (z : A) (n : nat) : list A := repeat z n.

(* lexicographic three-way comparison of Z lists; used by the Compare proofs *)
Fixpoint lexcmp (a b : list Z) : Z :=
  match a, b with
  | [], [] => 0
  | [], _ :: _ => -1
  | _ :: _, [] => 1
  | x :: a', y :: b' =>
      match Z.compare x y with
      | Lt => -1
      | Gt => 1
      | Eq => lexcmp a' b'
      end
  end%Z.
