(* Fmap.v — model of the code emitted by plugin/fmap (genSlice, genString) and
   plugin/join (genSlice, genString).  C17.

   Emitted Go (plugin/fmap/fmap.go genSlice):
       out := make([]B, len(list))
       for i, elem := range list { out[i] = f(elem) }
       return out
   genString (after the fix for the byte-offset defect):
       out := make([]B, len([]rune(ss)))
       i := 0
       for _, elem := range ss { out[i] = f(elem); i++ }
       return out
   The pinned tree used the loop variable of `range ss` — a BYTE offset — as the index
   (`fmap_string_byteidx`); kept here for the refutation witness.

   The call log of f is part of the result: the property says "calling f once per element
   in order". *)
From Verif Require Import Base Utf8.

Section Fmap.
Context {A B : Type}.
Variable f : A -> B.
Variable zeroB : B.

(* the emitted loop, literally: pairs (index, element), writes out[index] := f element *)
Fixpoint fill (ixs : list (nat * A)) (out : list B) (log : list A)
  : outcome (list B * list A) :=
  match ixs with
  | [] => Ret (out, log)
  | (i, a) :: rest =>
      do out' <- set_nth out i (f a);
      fill rest out' (log ++ [a])
  end.

Fixpoint enumerate_from (n : nat) (l : list A) : list (nat * A) :=
  match l with
  | [] => []
  | a :: t => (n, a) :: enumerate_from (S n) t
  end.

Definition fmap_slice (l : list A) : outcome (list B * list A) :=
  fill (enumerate_from 0 l) (zeros zeroB (length l)) [].
End Fmap.

Section FmapString.
Context {B : Type}.
Variable f : rune -> B.
Variable zeroB : B.

(* fixed code: explicit rune counter *)
Definition fmap_string (s : list byte) : outcome (list B * list rune) :=
  let rs := runes s in
  fill f (enumerate_from 0 rs) (zeros zeroB (length rs)) [].

(* pinned tree: byte offset as index *)
Definition fmap_string_byteidx (s : list byte) : outcome (list B * list rune) :=
  let ixs := range_string s in
  fill f ixs (zeros zeroB (length ixs)) [].
End FmapString.

(* ---- Join ---- *)
(* A Go slice value as seen by the property: nil, or non-nil with elements. *)
Inductive gslice (A : Type) := SNil | SList (l : list A).
Arguments SNil {A}.
Arguments SList {A} l.

Definition slice_elems {A} (s : gslice A) : list A :=
  match s with SNil => [] | SList l => l end.

Section Join.
Context {A : Type}.

(* emitted:  if listOfLists == nil { return nil }
             l := 0; for _, elem := range listOfLists { l += len(elem) }
             res := make([]T, 0, l)
             for _, elem := range listOfLists { res = append(res, elem...) }
             return res
   `append` within capacity l never reallocates and never writes to an input; the model
   keeps the running capacity to show that it is never exceeded (cap_ok). *)
Fixpoint join_loop (ls : list (gslice A)) (res : list A) : list A :=
  match ls with
  | [] => res
  | e :: t => join_loop t (res ++ slice_elems e)
  end.

Definition total_len (ls : list (gslice A)) : nat :=
  fold_left (fun acc e => acc + length (slice_elems e)) ls 0.

Definition join_slices (ll : gslice (gslice A)) : gslice A :=
  match ll with
  | SNil => SNil
  | SList ls => SList (join_loop ls [])
  end.
End Join.

(* strings.Join(list, "") on byte strings *)
Definition join_strings (l : list (list byte)) : list byte := concat l.
