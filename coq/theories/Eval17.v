(* Eval17.v — evaluation of C17 observations: real vs model, real vs specification. *)
From Verif Require Import Base Sexp Utf8 Fmap.
Open Scope string_scope.

(* the instrumented f of the harness: element id -> id + 1000 *)
Definition f17 (x : Z) : Z := (x + 1000)%Z.

Definition res_sexp (r : outcome (list Z * list Z)) : sexp :=
  match r with
  | Panic => Sym "panic"
  | Ret (out, log) => L [Sym "ret"; of_zs out; of_zs log]
  end.

(* slices additionally report the input as read back after the call (unmodified) *)
Definition res_sexp3 (input : list Z) (r : outcome (list Z * list Z)) : sexp :=
  match r with
  | Panic => Sym "panic"
  | Ret (out, log) => L [Sym "ret"; of_zs out; of_zs log; of_zs input]
  end.

Definition gslice_of (e : sexp) : option (gslice Z) :=
  if sym_is "nil" e then Some SNil else option_map SList (get_zs e).
Definition gslice_sexp (s : gslice Z) : sexp :=
  match s with SNil => Sym "nil" | SList l => of_zs l end.
Definition gslice2_of (e : sexp) : option (gslice (gslice Z)) :=
  if sym_is "nil" e then Some SNil
  else match e with L l => option_map SList (map_opt gslice_of l) | _ => None end.

Definition mk (tag : string) (model spec real : sexp) : verdict :=
  {| v_known := true; v_model_ok := sexp_eqb model real; v_spec_ok := sexp_eqb spec real;
     v_guard := true; v_model := model; v_tag := tag |}.

Definition len_tag (p : string) (n : nat) : string :=
  p ++ (match n with 0 => "0" | 1 => "1" | 2 => "2" | 3 => "3" | _ => "4+" end)%nat.

Definition has_multibyte (s : list N) : bool := existsb (fun b => 128 <=? b)%N s.

(* ---- hardening round 4: the function handed to Fmap is an input of the case ----
   The kinds fmap-slice-fn / fmap-string-fn carry a description of f on element ids:
       (m b q lo (k v) ...)     f x = wrap (v if (x v) is in the table, else m*x + b)
       wrap y = y                      if q <= 0
              = lo + (y - lo) mod q    otherwise (the way a Go conversion to an integer type of q values
                                       starting at lo wraps)
   so that f can return the awkward values of its result type: negative numbers, zero values, surrogates and
   values above 0x10FFFF for rune results, bytes >= 0x80 for byte results.  The theorems of Properties/C17.v
   quantify over every f, so model and specification are the same functions as above applied to this f. *)
Record fspec := { fs_m : Z; fs_b : Z; fs_q : Z; fs_lo : Z; fs_tbl : list (Z * Z) }.

Definition pair_of (e : sexp) : option (Z * Z) :=
  match e with L [Num k; Num v] => Some (k, v) | _ => None end.

Definition fspec_of (e : sexp) : option fspec :=
  match e with
  | L (Num m :: Num b :: Num q :: Num lo :: t) =>
      option_map (fun tbl => {| fs_m := m; fs_b := b; fs_q := q; fs_lo := lo; fs_tbl := tbl |})
                 (map_opt pair_of t)
  | _ => None
  end.

Fixpoint lookupZ (x : Z) (t : list (Z * Z)) : option Z :=
  match t with
  | [] => None
  | (k, v) :: t' => if Z.eqb k x then Some v else lookupZ x t'
  end.

Definition wrapZ (lo q y : Z) : Z :=
  if (0 <? q)%Z then (lo + (y - lo) mod q)%Z else y.

Definition fn_of (fs : fspec) (x : Z) : Z :=
  wrapZ (fs_lo fs) (fs_q fs)
        (match lookupZ x (fs_tbl fs) with
         | Some v => v
         | None => (fs_m fs * x + fs_b fs)%Z
         end).

(* class of the values f returned on this input (for the coverage tags) *)
Definition nonscalar (y : Z) : bool :=
  ((55296 <=? y) && (y <=? 57343) || (1114111 <? y))%Z.
Definition out_class (out : list Z) : string :=
  if existsb (fun y => y <? 0)%Z out then "neg"
  else if existsb nonscalar out then "nonscalar"
  else if existsb (Z.eqb 0) out then "zero"
  else if existsb (fun y => (128 <=? y) && (y <=? 255))%Z out then "highbyte"
  else match out with [] => "empty" | _ => "plain" end.

Definition eval17 (e : sexp) : verdict :=
  match e with
  | L [Sym k; a; real] =>
      if String.eqb k "fmap-slice" then
        match get_zs a with
        | Some l => mk (len_tag "fmap-slice/len" (List.length l))
                       (res_sexp3 l (fmap_slice f17 0%Z l))
                       (res_sexp3 l (Ret (map f17 l, l))) real
        | None => bad_line
        end
      else if String.eqb k "fmap-string" then
        match get_ns a with
        | Some s =>
            let rs := map Z.of_N (runes s) in
            mk (if has_multibyte s then "fmap-string/multibyte" else "fmap-string/ascii")
               (res_sexp (omap (fun '(o, l) => (o, map Z.of_N l))
                               (fmap_string (fun r => f17 (Z.of_N r)) 0%Z s)))
               (res_sexp (Ret (map f17 rs, rs))) real
        | None => bad_line
        end
      else if String.eqb k "fmap-slice-fn" then
        match a with
        | L [fe; le] =>
            match fspec_of fe, get_zs le with
            | Some fs, Some l =>
                let f := fn_of fs in
                mk ("fmap-slice-fn/" ++ out_class (map f l))
                   (res_sexp3 l (fmap_slice f 0%Z l))
                   (res_sexp3 l (Ret (map f l, l))) real
            | _, _ => bad_line
            end
        | _ => bad_line
        end
      else if String.eqb k "fmap-string-fn" then
        match a with
        | L [fe; se] =>
            match fspec_of fe, get_ns se with
            | Some fs, Some s =>
                let f := fn_of fs in
                let rs := map Z.of_N (runes s) in
                mk ((if has_multibyte s then "fmap-string-fn/multibyte/" else "fmap-string-fn/ascii/")
                      ++ out_class (map f rs))
                   (res_sexp (omap (fun '(o, l) => (o, map Z.of_N l))
                                   (fmap_string (fun r => f (Z.of_N r)) 0%Z s)))
                   (res_sexp (Ret (map f rs, rs))) real
            | _, _ => bad_line
            end
        | _ => bad_line
        end
      else if String.eqb k "join-slices" then
        match gslice2_of a with
        | Some ll =>
            mk (match ll with SNil => "join-slices/nil" | SList ls =>
                  len_tag "join-slices/len" (List.length ls) end)
               (gslice_sexp (join_slices ll))
               (gslice_sexp (match ll with SNil => SNil
                                      | SList ls => SList (concat (map slice_elems ls)) end))
               real
        | None => bad_line
        end
      else if String.eqb k "join-strings" then
        match a with
        | L ls => match map_opt get_ns ls with
                  | Some l => mk (len_tag "join-strings/len" (List.length l))
                                 (of_ns (join_strings l)) (of_ns (concat l)) real
                  | None => bad_line
                  end
        | _ => bad_line
        end
      else if String.eqb k "range-string" then
        (* decoder validation: real = Go's `for i, r := range s`, flattened off,rune,... *)
        match get_ns a with
        | Some s =>
            let m := L (map (fun '(o, r) => L [of_nat o; Num (Z.of_N r)]) (range_string s)) in
            mk (if has_multibyte s then "range/multibyte" else "range/ascii") m m real
        | None => bad_line
        end
      else bad_line
  | _ => bad_line
  end.
