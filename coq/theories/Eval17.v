(* Eval17.v — evaluation of C17 observations: real vs model, real vs specification. *)
From Verif Require Import Base Sexp Utf8 Fmap.
Open Scope string_scope.

(* the instrumented f of the harness: element id -> id + 1000 *)
Definition f17 (x : Z) : Z := (x + 1000)%Z.

Definition res_sexp (r : outcome (list Z * list Z)) : sexp :=
  match r with
  | Panic => Sym "panic"
  | Ret (out, log) => L [Sym "ret"; of_zs out; of_zs log]
  end.

(* slices additionally report the input as read back after the call (unmodified) *)
Definition res_sexp3 (input : list Z) (r : outcome (list Z * list Z)) : sexp :=
  match r with
  | Panic => Sym "panic"
  | Ret (out, log) => L [Sym "ret"; of_zs out; of_zs log; of_zs input]
  end.

Definition gslice_of (e : sexp) : option (gslice Z) :=
  if sym_is "nil" e then Some SNil else option_map SList (get_zs e).
Definition gslice_sexp (s : gslice Z) : sexp :=
  match s with SNil => Sym "nil" | SList l => of_zs l end.
Definition gslice2_of (e : sexp) : option (gslice (gslice Z)) :=
  if sym_is "nil" e then Some SNil
  else match e with L l => option_map SList (map_opt gslice_of l) | _ => None end.

Definition mk (tag : string) (model spec real : sexp) : verdict :=
  {| v_known := true; v_model_ok := sexp_eqb model real; v_spec_ok := sexp_eqb spec real;
     v_guard := true; v_model := model; v_tag := tag |}.

Definition len_tag (p : string) (n : nat) : string :=
  p ++ (match n with 0 => "0" | 1 => "1" | 2 => "2" | 3 => "3" | _ => "4+" end)%nat.

Definition has_multibyte (s : list N) : bool := existsb (fun b => 128 <=? b)%N s.

Definition eval17 (e : sexp) : verdict :=
  match e with
  | L [Sym k; a; real] =>
      if String.eqb k "fmap-slice" then
        match get_zs a with
        | Some l => mk (len_tag "fmap-slice/len" (List.length l))
                       (res_sexp3 l (fmap_slice f17 0%Z l))
                       (res_sexp3 l (Ret (map f17 l, l))) real
        | None => bad_line
        end
      else if String.eqb k "fmap-string" then
        match get_ns a with
        | Some s =>
            let rs := map Z.of_N (runes s) in
            mk (if has_multibyte s then "fmap-string/multibyte" else "fmap-string/ascii")
               (res_sexp (omap (fun '(o, l) => (o, map Z.of_N l))
                               (fmap_string (fun r => f17 (Z.of_N r)) 0%Z s)))
               (res_sexp (Ret (map f17 rs, rs))) real
        | None => bad_line
        end
      else if String.eqb k "join-slices" then
        match gslice2_of a with
        | Some ll =>
            mk (match ll with SNil => "join-slices/nil" | SList ls =>
                  len_tag "join-slices/len" (List.length ls) end)
               (gslice_sexp (join_slices ll))
               (gslice_sexp (match ll with SNil => SNil
                                      | SList ls => SList (concat (map slice_elems ls)) end))
               real
        | None => bad_line
        end
      else if String.eqb k "join-strings" then
        match a with
        | L ls => match map_opt get_ns ls with
                  | Some l => mk (len_tag "join-strings/len" (List.length l))
                                 (of_ns (join_strings l)) (of_ns (concat l)) real
                  | None => bad_line
                  end
        | _ => bad_line
        end
      else if String.eqb k "range-string" then
        (* decoder validation: real = Go's `for i, r := range s`, flattened off,rune,... *)
        match get_ns a with
        | Some s =>
            let m := L (map (fun '(o, r) => L [of_nat o; Num (Z.of_N r)]) (range_string s)) in
            mk (if has_multibyte s then "range/multibyte" else "range/ascii") m m real
        | None => bad_line
        end
      else bad_line
  | _ => bad_line
  end.
