(* Utf8.v — Go's `for i, r := range s` / `[]rune(s)` decoding of a byte string.
   Transcribes unicode/utf8.DecodeRune: invalid bytes decode to U+FFFD with width 1.
   Leaf semantics: modelled and validated by correspondence (compared with Go on every
   string the harness uses), not proved against an independent UTF-8 specification. *)
From Verif Require Import Base.

Definition byte := N.
Definition rune := N.
Definition rune_error : rune := 65533%N. (* U+FFFD *)

(* (size, lo, hi) for the second byte; size 0 = invalid first byte; size 1 = ASCII *)
Definition first_info (b : byte) : (nat * N * N) :=
  (if b <? 128 then (1%nat, 0, 0)
   else if b <? 194 then (0%nat, 0, 0)            (* 0x80-0xC1 *)
   else if b <? 224 then (2%nat, 128, 191)        (* 0xC2-0xDF *)
   else if b =? 224 then (3%nat, 160, 191)        (* 0xE0 *)
   else if b <? 237 then (3%nat, 128, 191)        (* 0xE1-0xEC *)
   else if b =? 237 then (3%nat, 128, 159)        (* 0xED *)
   else if b <? 240 then (3%nat, 128, 191)        (* 0xEE-0xEF *)
   else if b =? 240 then (4%nat, 144, 191)        (* 0xF0 *)
   else if b <? 244 then (4%nat, 128, 191)        (* 0xF1-0xF3 *)
   else if b =? 244 then (4%nat, 128, 143)        (* 0xF4 *)
   else (0%nat, 0, 0))%N.

Definition cont (b : byte) : bool := ((128 <=? b) && (b <=? 191))%N.

(* decode the first rune of a non-empty string: (rune, width) with 1 <= width <= 4 *)
Definition decode1 (s : list byte) : rune * nat :=
  match s with
  | [] => (rune_error, 1)
  | p0 :: rest =>
      match first_info p0 with
      | (0, _, _) => (rune_error, 1)
      | (1, _, _) => (p0, 1)
      | (sz, lo, hi) =>
          match rest with
          | [] => (rune_error, 1)
          | b1 :: rest1 =>
              if negb ((lo <=? b1) && (b1 <=? hi))%N then (rune_error, 1)
              else if Nat.eqb sz 2
              then (N.lor (N.shiftl (N.land p0 31) 6) (N.land b1 63), 2)
              else match rest1 with
                   | [] => (rune_error, 1)
                   | b2 :: rest2 =>
                       if negb (cont b2) then (rune_error, 1)
                       else if Nat.eqb sz 3
                       then (N.lor (N.lor (N.shiftl (N.land p0 15) 12)
                                          (N.shiftl (N.land b1 63) 6)) (N.land b2 63), 3)
                       else match rest2 with
                            | [] => (rune_error, 1)
                            | b3 :: _ =>
                                if negb (cont b3) then (rune_error, 1)
                                else (N.lor (N.lor (N.lor (N.shiftl (N.land p0 7) 18)
                                                          (N.shiftl (N.land b1 63) 12))
                                                   (N.shiftl (N.land b2 63) 6)) (N.land b3 63), 4)
                            end
                   end
          end
      end
  end.

(* all (byte offset, rune) pairs of `range s`; fuel = length s always suffices *)
Fixpoint decode_fuel (fuel off : nat) (s : list byte) : list (nat * rune) :=
  match fuel with
  | O => []
  | S fuel' =>
      match s with
      | [] => []
      | _ => let '(r, w) := decode1 s in
             (off, r) :: decode_fuel fuel' (off + w) (skipn w s)
      end
  end.

Definition range_string (s : list byte) : list (nat * rune) := decode_fuel (length s) 0 s.
Definition runes (s : list byte) : list rune := map snd (range_string s).

(* encoding (strings.Join / string(rune) are not needed by the models; only decoding is) *)
