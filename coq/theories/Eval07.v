(* Eval07.v — evaluation of C07 observations: one goderive run over a package with a given previous
   state of derived.gen.go, compared with the model of the run (regen fixed p old) and with the
   property (byte-identical to what the run from scratch leaves, SAME, measured by the harness).
   By C07_regen_old_independent the model's prediction for any OLD is its prediction for the scratch run.

   line:  (regen PKG OLD REAL SAME)
     PKG  = (EXPR ...)          EXPR = (var V TY) | (app K N EXPR)     K = keys | sort | set
     TY   = (base N) | (slice TY) | (map TY TY) | void
     OLD  = absent | (file ((N TY|invalid) ...)) | unparsable | nopkg
     REAL = (ok deleted) | (ok (file ((K N TY) ...))) | err
     SAME = 1 bytes of derived.gen.go equal those of the scratch copy (or both absent / both failed), 0 otherwise
   line:  (regen PKG OLD REAL SAME CTX)    the same for a run of an input class that the abstract package does not
     show: CTX = testfile (the last calls of PKG stand in an in-package _test.go file, which the loader appends to the
     files of the package), autoname | dedup | autoname-dedup (the run and its scratch copy had these flags and no
     call had to be renamed: the flags change nothing then), or both (autoname-testfile ...).  CTX only enters the tag. *)
From Verif Require Import Base Sexp.
From Verif Require Import Regen.Model.
Open Scope string_scope.

Fixpoint ty_of_sexp (fuel : nat) (e : sexp) : option ty :=
  match fuel with O => None | S f =>
    match e with
    | Sym s => if String.eqb s "void" then Some TVoid else None
    | L [Sym s; Num n] => if String.eqb s "base" then Some (TBase (Z.to_N n)) else None
    | L [Sym s; a] => if String.eqb s "slice" then option_map TSlice (ty_of_sexp f a) else None
    | L [Sym s; a; b] =>
        if String.eqb s "map" then
          match ty_of_sexp f a, ty_of_sexp f b with
          | Some k, Some v => Some (TMap k v) | _, _ => None end
        else None
    | _ => None
    end
  end.

Fixpoint sexp_of_ty (t : ty) : sexp :=
  match t with
  | TBase n => L [Sym "base"; Num (Z.of_N n)]
  | TSlice e => L [Sym "slice"; sexp_of_ty e]
  | TMap k v => L [Sym "map"; sexp_of_ty k; sexp_of_ty v]
  | TVoid => Sym "void"
  end.

Definition kind_of_sexp (e : sexp) : option kind :=
  match e with
  | Sym s => if String.eqb s "keys" then Some KKeys else if String.eqb s "sort" then Some KSort
             else if String.eqb s "set" then Some KSet else None
  | _ => None
  end.
Definition sexp_of_kind (k : kind) : sexp :=
  match k with KKeys => Sym "keys" | KSort => Sym "sort" | KSet => Sym "set" end.

Fixpoint expr_of_sexp (fuel : nat) (e : sexp) : option expr :=
  match fuel with O => None | S f =>
    match e with
    | L [Sym s; Num v; t] =>
        if String.eqb s "var" then option_map (Var (Z.to_N v)) (ty_of_sexp 50 t) else None
    | L [Sym s; k; Num n; a] =>
        if String.eqb s "app" then
          match kind_of_sexp k, expr_of_sexp f a with
          | Some k', Some a' => Some (App k' (Z.to_N n) a') | _, _ => None end
        else None
    | _ => None
    end
  end.

Definition sig_of_sexp (e : sexp) : option (N * option ty) :=
  match e with
  | L [Num n; t] =>
      if sym_is "invalid" t then Some (Z.to_N n, None)
      else match ty_of_sexp 50 t with Some t' => Some (Z.to_N n, Some t') | None => None end
  | _ => None
  end.

Definition disk_of_sexp (e : sexp) : option disk :=
  match e with
  | Sym s => if String.eqb s "absent" then Some Absent
             else if String.eqb s "unparsable" then Some Unparsable
             else if String.eqb s "nopkg" then Some NoPackageClause else None
  | L [Sym s; L l] => if String.eqb s "file" then option_map File (map_opt sig_of_sexp l) else None
  | _ => None
  end.

Definition sexp_of_entry (e : entry) : sexp :=
  L [sexp_of_kind (ek e); Num (Z.of_N (en e)); sexp_of_ty (et e)].

Definition sexp_of_result (r : result) : sexp :=
  match r with
  | ROk None _ => L [Sym "ok"; Sym "deleted"]
  | ROk (Some es) _ => L [Sym "ok"; L [Sym "file"; L (map sexp_of_entry es)]]
  | RErr _ => Sym "err"
  end.

Definition result_same (a b : result) : bool := sexp_eqb (sexp_of_result a) (sexp_of_result b).

Definition opt_ty_eqb (a b : option ty) : bool :=
  match a, b with
  | Some x, Some y => ty_eqb x y
  | None, None => true
  | _, _ => false
  end.

(* how the previous file relates to the current sources *)
Definition old_tag (p : package) (d : disk) : string :=
  match d with
  | Absent => "old=absent"
  | Unparsable => "old=unparsable"
  | NoPackageClause => "old=no-package-clause"
  | File s =>
      let cs := calls p in
      let stale := existsb (fun c => match lookup (cn c) s with
                                     | Some r => negb (opt_ty_eqb r (ety (App (ck c) (cn c) (ca c))))
                                     | None => false end) cs in
      let void := existsb (fun x => match snd x with Some TVoid => true | _ => false end) s in
      let missing := existsb (fun c => match lookup (cn c) s with Some _ => false | None => true end) cs in
      if void then "old=file/void-signature"
      else if stale then "old=file/stale-signature"
      else if missing then (if is_nil s then "old=file/no-function" else "old=file/some-functions")
      else "old=file/current"
  end.

Definition depth_tag (p : package) : string :=
  match calls p with
  | [] => "pkg=no-calls"
  | _ => match max_depth p with
         | 0 | 1 => "pkg=flat"
         | 2 => "pkg=nested2"
         | 3 => "pkg=nested3"
         | _ => "pkg=nested4+"
         end
  end.

Definition outcome_tag (r : result) : string :=
  match r with
  | ROk None _ => "deleted"
  | ROk (Some _) 1 => "file/1pass"
  | ROk (Some _) 2 => "file/2passes"
  | ROk (Some _) _ => "file/3+passes"
  | RErr _ => "error"
  end.

Definition eval_regen (k : string) (pk : list sexp) (od real : sexp) (same : Z) (ctx : string) : verdict :=
      if String.eqb k "regen" then
        match map_opt (expr_of_sexp 50) pk, disk_of_sexp od with
        | Some p, Some old =>
            let model := regen fixed p old in
            let pinned := regen legacy p old in
            {| v_known := true;
               v_model_ok := sexp_eqb (sexp_of_result model) real;
               (* the property itself, as measured: the run left byte-for-byte what the scratch copy of the
                  same sources got (both absent / both refused count as equal) *)
               v_spec_ok := Z.eqb same 1;
               v_guard := true;
               v_model := sexp_of_result model;
               v_tag := old_tag p old ++ " " ++ depth_tag p ++ " " ++ outcome_tag model ++
                        (if wf p then "" else " not-wf") ++
                        (if result_same pinned model then "" else " (pinned code differed)") ++
                        (if String.eqb ctx "" then "" else " ctx=" ++ ctx) |}
        | _, _ => bad_line
        end
      else if String.eqb k "regen-pinned" then
        (* diagnostic mode (VERIF_C07_PINNED=1, against a tree WITHOUT the fixes): validates the [legacy]
           configuration of the model and the harness's oracle for cut-off files against the pinned code;
           only the correspondence is judged here *)
        match map_opt (expr_of_sexp 50) pk, disk_of_sexp od with
        | Some p, Some old =>
            let model := regen legacy p old in
            {| v_known := true;
               v_model_ok := sexp_eqb (sexp_of_result model) real;
               v_spec_ok := true;
               v_guard := true;
               v_model := sexp_of_result model;
               v_tag := "pinned: " ++ old_tag p old ++ " " ++ depth_tag p ++ " " ++ outcome_tag model ++
                        (if Z.eqb same 1 then " =scratch" else " DIFFERS-from-scratch") |}
        | _, _ => bad_line
        end
      else bad_line.

Definition eval07 (e : sexp) : verdict :=
  match e with
  | L [Sym k; L pk; od; real; Num same] => eval_regen k pk od real same ""
  | L [Sym k; L pk; od; real; Num same; Sym ctx] => eval_regen k pk od real same ctx
  | _ => bad_line
  end.
