(* Eval07.v — evaluation of C07 observations (stub: replaced when C07 is built). *)
From Verif Require Import Base Sexp.
Open Scope string_scope.

Definition eval07 (e : sexp) : verdict := bad_line.
