(* Chain/Zero.v — which text the generator writes for "the zero value of result type t"
   (derive/types.go) and whether that text is a well-typed zero of t.  C16.

   Pinned tree (derive.Zero):
       switch t := typ.(type) {            // NOT typ.Underlying()
       case *types.Basic: String -> `""`, Bool -> "false", default -> "0" }
       return "nil"
   so a *types.Named (named basic, named struct, ...), a struct and an array all get "nil".

   Repaired tree (derive.ZeroValue, used by compose/fmap/join; derive.Zero switches on the
   underlying type):
       switch typ.Underlying().(type) { case *types.Struct, *types.Array: return TypeString(typ) + "{}" }
       Zero(typ): underlying Basic: IsString -> `""`, IsBoolean -> "false", IsNumeric -> "0"; else "nil"  *)
From Coq Require Import String.
From Verif Require Import Base.
Open Scope string_scope.

(* go/types.Basic as Zero distinguishes it *)
Inductive bkind := BBool | BString | BNumeric | BUnsafePointer.

(* the underlying type of a result type, as far as zero values are concerned *)
Inductive shape :=
| SBasic (b : bkind) | SPtr | SSlice | SMap | SChan | SFunc | SIface | SStruct | SArray.

Record rty := { named : bool;        (* *types.Named (or alias) at the root *)
                under : shape;       (* its underlying type *)
                tname : string }.    (* what TypesMap.TypeString prints for it *)

Inductive lit := LNil | LZero | LEmpty | LFalse | LComposite (t : string).

Definition zero_literal_pinned (t : rty) : lit :=
  if named t then LNil
  else match under t with
       | SBasic BString => LEmpty
       | SBasic BBool => LFalse
       | SBasic _ => LZero
       | _ => LNil
       end.

Definition zero_basic (t : rty) : lit :=
  match under t with
  | SBasic BString => LEmpty
  | SBasic BBool => LFalse
  | SBasic BNumeric => LZero
  | _ => LNil
  end.

Definition zero_literal (t : rty) : lit :=
  match under t with
  | SStruct | SArray => LComposite (tname t)
  | _ => zero_basic t
  end.

(* Go: the expression is assignable to t AND evaluates to t's zero value.
   nil: pointer, slice, map, chan, func, interface, unsafe.Pointer (also behind a name);
   the untyped constants 0, "", false: any type whose underlying type is numeric/string/bool;
   T{}: the zero struct/array when T is t itself ([]int{} and map[..]..{} are NOT zero values). *)
Definition nillable (s : shape) : bool :=
  match s with
  | SPtr | SSlice | SMap | SChan | SFunc | SIface | SBasic BUnsafePointer => true
  | _ => false
  end.

Definition lit_ok (l : lit) (t : rty) : bool :=
  match l with
  | LNil => nillable (under t)
  | LZero => match under t with SBasic BNumeric => true | _ => false end
  | LEmpty => match under t with SBasic BString => true | _ => false end
  | LFalse => match under t with SBasic BBool => true | _ => false end
  | LComposite s => match under t with
                    | SStruct | SArray => String.eqb s (tname t)
                    | _ => false
                    end
  end.

(* the repaired code: a well-typed zero whatever the type *)
Theorem zero_ok : forall t, lit_ok (zero_literal t) t = true.
Proof.
  intros [n [[| | |]| | | | | | | |] s]; cbn; try reflexivity; apply String.eqb_refl.
Qed.

(* the pinned code: exactly the unnamed basic types (unsafe.Pointer excepted) and the
   nillable types get a well-typed zero *)
Definition pinned_good (t : rty) : bool :=
  if named t then nillable (under t)
  else match under t with
       | SBasic BUnsafePointer => false      (* "0" for an unsafe.Pointer *)
       | SBasic _ => true
       | s => nillable s
       end.

Theorem zero_ok_iff : forall t, lit_ok (zero_literal_pinned t) t = pinned_good t.
Proof.
  intros [[|] [[| | |]| | | | | | | |] s]; reflexivity.
Qed.

Definition ty_struct := {| named := true; under := SStruct; tname := "S" |}.
Definition ty_unnamed_struct := {| named := false; under := SStruct; tname := "struct{X int}" |}.
Definition ty_array := {| named := false; under := SArray; tname := "[2]int" |}.
Definition ty_named_int := {| named := true; under := SBasic BNumeric; tname := "NI" |}.
Definition ty_named_string := {| named := true; under := SBasic BString; tname := "NS" |}.

Theorem zero_struct_refuted : lit_ok (zero_literal_pinned ty_struct) ty_struct = false
                              /\ lit_ok (zero_literal_pinned ty_unnamed_struct) ty_unnamed_struct = false.
Proof. split; vm_compute; reflexivity. Qed.
Theorem zero_array_refuted : lit_ok (zero_literal_pinned ty_array) ty_array = false.
Proof. vm_compute; reflexivity. Qed.
Theorem zero_named_basic_refuted : lit_ok (zero_literal_pinned ty_named_int) ty_named_int = false
                                   /\ lit_ok (zero_literal_pinned ty_named_string) ty_named_string = false.
Proof. split; vm_compute; reflexivity. Qed.

Example zero_ok_examples :
  zero_literal ty_struct = LComposite "S" /\ zero_literal ty_array = LComposite "[2]int"
  /\ zero_literal ty_named_int = LZero /\ zero_literal ty_named_string = LEmpty.
Proof. repeat split. Qed.
