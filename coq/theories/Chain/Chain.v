(* Chain/Chain.v — model of the code emitted by the error-propagating plugins.  C16.

   compose.genError      func(v_0_0 ...) (R..., error) {
                             v_1_0, ..., err0 := f0(v_0_0, ...)
                             if err0 != nil { return ZEROS, err0 }
                             v_2_0, ..., err1 := f1(v_1_0, ...)
                             if err1 != nil { return ZEROS, err1 }
                             ...
                             return v_n_0, ..., nil }
   fmap.genError         three shapes by the number of results of f (0, 1, >= 2):
                             v, err := g(); if err != nil { return err }            ; f(v); return nil
                             v, err := g(); if err != nil { return ZERO, err }      ; return f(v), nil
                             v, err := g(); if err != nil { return nil, err }       ; return deriveTuple(f(v)), nil
   tuple.genFuncFor      func deriveTuple(v0, v1, ...) func() (...) { return func() (...) { return v0, v1, ... } }
   join.genError         if err != nil { return ZEROS, err }; return f()
   traverse.genSlice     out := make([]B, len(list)); var err error
                         for i, elem := range list { out[i], err = f(elem); if err != nil { return nil, err } }
                         return out, nil
   toerror.genFuncFor    out0, ..., success := f(a...); if success { return out0, ..., nil }; return out0, ..., err

   Stage functions are oracles.  A Go stage returns its values AND an error, so an oracle is
   [list V -> list V * option E] (a failing stage still hands back values; the emitted code must
   not pass them on).  [zero : V] stands for "the zero value of the slot's type"; error values are
   compared by identity, so [E] is a type of tags.  Every model function returns the call log
   (stage index, argument vector) next to the results: the property is about which stages are
   called, how often and with what. *)
From Verif Require Import Base Fmap.

(* a func() R value: nil, or the closure built by deriveTuple around captured values *)
Inductive thunk (R : Type) := ThNil | ThTuple (captured : R).
Arguments ThNil {R}.
Arguments ThTuple {R} captured.

Definition derive_tuple {R} (vs : R) : thunk R := ThTuple vs.

(* calling a non-nil thunk: returns the captured values, calls nothing *)
Definition thunk_call {R} (t : thunk R) : outcome R :=
  match t with ThNil => Panic | ThTuple vs => Ret vs end.

Section Chain.
Context {V E : Type}.
Variable zero : V.

Definition stage := list V -> list V * option E.
Definition clog := list (nat * list V).

Record cout := mk_cout { c_res : list V; c_err : option E; c_log : clog }.

(* ---- compose ---- *)
(* stage i is called with the variables v_i_*; its results become v_(i+1)_* *)
Fixpoint compose_from (i : nat) (fs : list stage) (nfinal : nat) (vars : list V) (lg : clog) : cout :=
  match fs with
  | [] => mk_cout vars None lg
  | f :: rest =>
      let r := f vars in
      let lg' := lg ++ [(i, vars)] in
      match snd r with
      | Some e => mk_cout (repeat zero nfinal) (Some e) lg'
      | None => compose_from (S i) rest nfinal (fst r) lg'
      end
  end.

Definition compose (fs : list stage) (nfinal : nat) (args : list V) : cout :=
  compose_from 0 fs nfinal args [].

(* ---- fmap, error forms: g is stage 0 (no arguments, one value), f is stage 1 ---- *)
(* f returns no result *)
Definition fmap0 (f : list V -> unit) (g : stage) : cout :=
  let r := g [] in
  match snd r with
  | Some e => mk_cout [] (Some e) [(0, [])]
  | None => let _ := f (fst r) in mk_cout [] None [(0, []); (1, fst r)]
  end.

(* f returns one result *)
Definition fmap1 (f : list V -> V) (g : stage) : cout :=
  let r := g [] in
  match snd r with
  | Some e => mk_cout [zero] (Some e) [(0, [])]
  | None => mk_cout [f (fst r)] None [(0, []); (1, fst r)]
  end.

(* f returns two or more results (of any kind R: the last may itself be an error).
   The result is a func() R: nil, or the closure built by deriveTuple around the values that
   f(v) produced — f is called when Fmap is called, not when the closure is. *)
Definition fmapN {R} (f : list V -> R) (g : stage) : thunk R * option E * clog :=
  let r := g [] in
  match snd r with
  | Some e => (ThNil, Some e, [(0, [])])
  | None => (derive_tuple (f (fst r)), None, [(0, []); (1, fst r)])
  end.

(* ---- join, error form: the error of the first stage is already a value; f is the next stage.
   nres = 0 is the `func() error` shape, same control flow. ---- *)
Definition join (nres : nat) (f : stage) (err : option E) : cout :=
  match err with
  | Some e => mk_cout (repeat zero nres) (Some e) []
  | None => let r := f [] in mk_cout (fst r) (snd r) [(0, [])]
  end.

(* deriveJoin(deriveFmap(f, g)): Join applied to the (func, error) pair returned by the
   tuple-returning Fmap; f : A -> (C..., error).  The thunk is only called when err == nil,
   when it is non-nil. *)
Definition bind (nres : nat) (f : stage) (g : stage) : outcome cout :=
  let '(th, err, lg) := fmapN f g in
  match err with
  | Some e => Ret (mk_cout (repeat zero nres) (Some e) lg)
  | None => do r <- thunk_call th; Ret (mk_cout (fst r) (snd r) lg)
  end.

(* ---- traverse ---- *)
Definition tout := (gslice V * option E * list V)%type.

Fixpoint trav_loop (f : V -> V * option E) (ixs : list (nat * V)) (out : list V) (lg : list V)
  : outcome tout :=
  match ixs with
  | [] => Ret (SList out, None, lg)
  | (i, a) :: rest =>
      let r := f a in
      do out' <- set_nth out i (fst r);            (* out[i], err = f(elem) *)
      match snd r with
      | Some e => Ret (SNil, Some e, lg ++ [a])    (* return nil, err *)
      | None => trav_loop f rest out' (lg ++ [a])
      end
  end.

Definition traverse (f : V -> V * option E) (l : list V) : outcome tout :=
  trav_loop f (enumerate_from 0 l) (repeat zero (length l)) [].

(* ---- toerror ---- *)
Definition toerror (err : option E) (f : list V -> list V * bool) (args : list V)
  : list V * option E * list (list V) :=
  let r := f args in
  if snd r then (fst r, None, [args]) else (fst r, err, [args]).

End Chain.
