(* Chain/Emit.v — the comma lists that compose.genError prints ("v_1_0, v_1_1, err0",
   "ZERO, ZERO, err0", "v_n_0, nil").  C16.

   Pinned tree:   p.P("%s, err%d := ...", strings.Join(vars, ", "), i)  — the separator before
                  the error is printed even when there is no value: ", err0 := f0()".
   Repaired tree: list(ss, last) = last when ss is empty, strings.Join(ss, ", ") + ", " + last
                  otherwise. *)
From Coq Require Import String List.
Import ListNotations.
Open Scope string_scope.

Definition list_pinned (ss : list string) (last : string) : string :=
  String.concat ", " ss ++ ", " ++ last.

Definition list_fixed (ss : list string) (last : string) : string :=
  match ss with
  | [] => last
  | _ => String.concat ", " ss ++ ", " ++ last
  end.

Lemma append_assoc (a b c : string) : (a ++ b) ++ c = a ++ (b ++ c).
Proof. induction a as [|ch a IH]; cbn; [reflexivity|]. now rewrite IH. Qed.

(* the repaired printer writes exactly the comma-separated list of the values and the error,
   for any number of values (0 included) *)
Theorem emit_list_spec : forall (ss : list string) (last : string),
  list_fixed ss last = String.concat ", " (ss ++ [last])%list.
Proof.
  intros ss last. destruct ss as [|x t]; [reflexivity|]. unfold list_fixed.
  revert x; induction t as [|y t IH]; intros x.
  - reflexivity.
  - change (String.concat ", " (x :: y :: t)) with (x ++ ", " ++ String.concat ", " (y :: t)).
    change (String.concat ", " ((x :: y :: t) ++ [last])%list)
      with (x ++ ", " ++ String.concat ", " ((y :: t) ++ [last])%list).
    rewrite <- (IH y). now rewrite !append_assoc.
Qed.

(* the pinned printer is right for one or more values ... *)
Theorem emit_list_pinned_nonempty : forall x t last,
  list_pinned (x :: t) last = String.concat ", " ((x :: t) ++ [last])%list.
Proof. intros. rewrite <- emit_list_spec. reflexivity. Qed.

(* ... and writes a list that starts with a comma when a stage has no value next to its error *)
Theorem compose_no_results_refuted :
  list_pinned [] "err0" = ", err0" /\ list_pinned [] "err0" <> String.concat ", " ([] ++ ["err0"])%list.
Proof. split; [reflexivity|]. vm_compute. discriminate. Qed.

Example emit_list_example :
  list_fixed ["v_1_0"; "v_1_1"] "err0" = "v_1_0, v_1_1, err0" /\ list_fixed [] "nil" = "nil".
Proof. split; reflexivity. Qed.
