(* Chain/ChainProofs.v — specification of the error-propagating helpers and the proofs that
   the model of the emitted code (Chain.v) meets it, for every chain length, every stage
   oracle, every argument vector, every list. *)
From Verif Require Import Base Fmap.
From Verif.Chain Require Import Chain.

Section Spec.
Context {V E : Type}.
Variable zero : V.

Notation stage := (@stage V E).

(* ---- independent specification of a chain ---- *)
(* the argument vector each stage would see if the results of every earlier stage are passed
   on unchanged *)
Fixpoint inputs (fs : list stage) (a : list V) : list (list V) :=
  match fs with
  | [] => []
  | f :: r => a :: inputs r (fst (f a))
  end.

(* what stage k reports on that vector *)
Fixpoint stage_err (fs : list stage) (a : list V) (k : nat) : option E :=
  match fs with
  | [] => None
  | f :: r => match k with
              | O => snd (f a)
              | S k' => stage_err r (fst (f a)) k'
              end
  end.

(* the hand-written sequential composition, errors ignored *)
Definition seq_compose (fs : list stage) (a : list V) : list V :=
  fold_left (fun x f => fst (f x)) fs a.

Lemma inputs_length fs a : length (inputs fs a) = length fs.
Proof. revert a; induction fs as [|f r IH]; intros a; cbn; [reflexivity|]. now rewrite IH. Qed.

Lemma stage_err_lt fs a k e : stage_err fs a k = Some e -> k < length fs.
Proof.
  revert a k; induction fs as [|f r IH]; intros a k H; cbn in *; [discriminate|].
  destruct k as [|k']; [lia|]. apply IH in H. lia.
Qed.

Lemma compose_from_stops i fs n a lg k e :
  (forall j, j < k -> stage_err fs a j = None) ->
  stage_err fs a k = Some e ->
  compose_from zero i fs n a lg =
    mk_cout (repeat zero n) (Some e)
            (lg ++ combine (seq i (S k)) (firstn (S k) (inputs fs a))).
Proof.
  revert i a lg k; induction fs as [|f r IH]; intros i a lg k Hbefore Hk.
  - cbn in Hk. discriminate.
  - destruct k as [|k'].
    + cbn in Hk. cbn [compose_from]. rewrite Hk. reflexivity.
    + assert (H0 : snd (f a) = None) by (apply (Hbefore 0); lia).
      cbn [compose_from]. rewrite H0.
      rewrite (IH (S i) (fst (f a)) (lg ++ [(i, a)]) k').
      * rewrite <- app_assoc. reflexivity.
      * intros j Hj. apply (Hbefore (S j)). lia.
      * exact Hk.
Qed.

Lemma compose_from_success i fs n a lg :
  (forall j, j < length fs -> stage_err fs a j = None) ->
  compose_from zero i fs n a lg =
    mk_cout (seq_compose fs a) None (lg ++ combine (seq i (length fs)) (inputs fs a)).
Proof.
  revert i a lg; induction fs as [|f r IH]; intros i a lg Hall.
  - cbn. now rewrite app_nil_r.
  - assert (H0 : snd (f a) = None) by (apply (Hall 0); cbn; lia).
    cbn [compose_from]. rewrite H0.
    rewrite (IH (S i) (fst (f a)) (lg ++ [(i, a)])).
    + rewrite <- app_assoc. reflexivity.
    + intros j Hj. apply (Hall (S j)). cbn. lia.
Qed.

(* C16, main statement: the first failing stage stops the chain *)
Theorem chain_stops_at_first_error : forall (fs : list stage) (nfinal : nat) (args : list V) (k : nat) (e : E),
  (forall j, j < k -> stage_err fs args j = None) ->
  stage_err fs args k = Some e ->
  compose zero fs nfinal args =
    mk_cout (repeat zero nfinal) (Some e)
            (combine (seq 0 (S k)) (firstn (S k) (inputs fs args))).
Proof. intros. unfold compose. now rewrite (compose_from_stops 0 fs nfinal args [] k e). Qed.

Lemma map_fst_combine_seq {A} (l : list A) s :
  map fst (combine (seq s (length l)) l) = seq s (length l).
Proof.
  revert s; induction l as [|x t IH]; intros s; cbn; [reflexivity|]. now rewrite IH.
Qed.

(* the call log names stages 0..k, once each, in order — nothing after k *)
Theorem chain_calls_each_once : forall (fs : list stage) (nfinal : nat) (args : list V) (k : nat) (e : E),
  (forall j, j < k -> stage_err fs args j = None) ->
  stage_err fs args k = Some e ->
  map fst (c_log (compose zero fs nfinal args)) = seq 0 (S k).
Proof.
  intros fs n a k e Hb Hk. rewrite (chain_stops_at_first_error fs n a k e Hb Hk). cbn [c_log].
  pose proof (stage_err_lt _ _ _ _ Hk) as Hlt.
  assert (Hlen : length (firstn (S k) (inputs fs a)) = S k).
  { rewrite firstn_length, inputs_length. lia. }
  rewrite <- Hlen at 1. rewrite map_fst_combine_seq. now rewrite Hlen.
Qed.

Theorem chain_success_is_composition : forall (fs : list stage) (nfinal : nat) (args : list V),
  (forall j, j < length fs -> stage_err fs args j = None) ->
  compose zero fs nfinal args =
    mk_cout (seq_compose fs args) None (combine (seq 0 (length fs)) (inputs fs args)).
Proof. intros. unfold compose. now rewrite (compose_from_success 0 fs nfinal args []). Qed.

(* every chain is in exactly one of the two cases *)
Lemma first_error_dec (fs : list stage) (a : list V) :
  (forall j, j < length fs -> stage_err fs a j = None) \/
  (exists k e, (forall j, j < k -> stage_err fs a j = None) /\ stage_err fs a k = Some e).
Proof.
  revert a; induction fs as [|f r IH]; intros a.
  - left. intros j Hj. cbn in Hj. lia.
  - destruct (snd (f a)) as [e|] eqn:E0.
    + right. exists 0, e. split; [intros j Hj; lia|]. exact E0.
    + destruct (IH (fst (f a))) as [Hall | (k & e & Hb & Hk)].
      * left. intros [|j] Hj; cbn; [exact E0|]. apply Hall. cbn in Hj. lia.
      * right. exists (S k), e. split; [|exact Hk].
        intros [|j] Hj; cbn; [exact E0|]. apply Hb. lia.
Qed.

(* ---- fmap ---- *)
Theorem fmap_err_spec : forall (g : stage),
  (* g fails: f is not called, exactly g's error, zero result / nil func *)
  (forall e, snd (g []) = Some e ->
     (forall f, fmap0 f g = mk_cout [] (Some e) [(0, [])]) /\
     (forall f, fmap1 zero f g = mk_cout [zero] (Some e) [(0, [])]) /\
     (forall R (f : list V -> R), fmapN f g = (ThNil, Some e, [(0, [])]))) /\
  (* g succeeds: g then f, once each, f on g's value, result f(v) with a nil error;
     the tuple form returns a func that yields f(v) without calling anything *)
  (snd (g []) = None ->
     (forall f, fmap0 f g = mk_cout [] None [(0, []); (1, fst (g []))]) /\
     (forall f, fmap1 zero f g = mk_cout [f (fst (g []))] None [(0, []); (1, fst (g []))]) /\
     (forall R (f : list V -> R),
        exists th, fmapN f g = (th, None, [(0, []); (1, fst (g []))]) /\
                   thunk_call th = Ret (f (fst (g []))))).
Proof.
  intros g. split.
  - intros e He. unfold fmap0, fmap1, fmapN. rewrite He. repeat split.
  - intros Hn. unfold fmap0, fmap1, fmapN. rewrite Hn. repeat split.
    intros R f. eexists; split; reflexivity.
Qed.

(* ---- join ---- *)
Theorem join_err_spec : forall (nres : nat) (f : stage),
  (forall e, join zero nres f (Some e) = mk_cout (repeat zero nres) (Some e) []) /\
  (join zero nres f None = mk_cout (fst (f [])) (snd (f [])) [(0, [])]) /\
  (* a stage that follows the Go convention (zero values next to a non-nil error) makes the
     result of Join zero-valued on its own failure as well *)
  (forall e, f [] = (repeat zero nres, Some e) ->
     join zero nres f None = mk_cout (repeat zero nres) (Some e) [(0, [])]).
Proof.
  intros nres f. repeat split.
  intros e H. unfold join. rewrite H. reflexivity.
Qed.

(* Join after the tuple-returning Fmap is the two-stage chain g ; f *)
Theorem bind_is_chain : forall (nres : nat) (f g : stage),
  (forall e, snd (g []) = Some e ->
     bind zero nres f g = Ret (mk_cout (repeat zero nres) (Some e) [(0, [])])) /\
  (snd (g []) = None ->
     bind zero nres f g =
       Ret (mk_cout (fst (f (fst (g [])))) (snd (f (fst (g [])))) [(0, []); (1, fst (g []))])).
Proof.
  intros nres f g. split.
  - intros e He. unfold bind, fmapN. rewrite He. reflexivity.
  - intros Hn. unfold bind, fmapN. rewrite Hn. reflexivity.
Qed.

Theorem bind_never_panics : forall (nres : nat) (f g : stage), bind zero nres f g <> Panic.
Proof.
  intros nres f g. unfold bind, fmapN. destruct (snd (g [])); cbn; discriminate.
Qed.

(* ---- traverse ---- *)
Lemma trav_loop_ok (f : V -> V * option E) (done rest : list V) (lg : list V) :
  (forall x, In x rest -> snd (f x) = None) ->
  trav_loop f (enumerate_from (length done) rest) (done ++ repeat zero (length rest)) lg =
    Ret (SList (done ++ map (fun x => fst (f x)) rest), None, lg ++ rest).
Proof.
  revert done lg; induction rest as [|a t IH]; intros done lg Hall.
  - cbn. now rewrite !app_nil_r.
  - cbn [enumerate_from trav_loop length repeat]. rewrite set_nth_app. cbn [obind].
    rewrite (Hall a) by (left; reflexivity).
    specialize (IH (done ++ [fst (f a)]) (lg ++ [a])).
    rewrite app_length in IH. cbn [length] in IH.
    replace (S (length done)) with (length done + 1) by lia.
    replace (done ++ fst (f a) :: repeat zero (length t))
      with ((done ++ [fst (f a)]) ++ repeat zero (length t)) by (rewrite <- app_assoc; reflexivity).
    rewrite IH; [|intros x Hx; apply Hall; right; exact Hx].
    rewrite <- !app_assoc. reflexivity.
Qed.

Lemma trav_loop_fail (f : V -> V * option E) (done ok : list V) a post e (lg : list V) :
  (forall x, In x ok -> snd (f x) = None) ->
  snd (f a) = Some e ->
  trav_loop f (enumerate_from (length done) (ok ++ a :: post))
            (done ++ repeat zero (length (ok ++ a :: post))) lg =
    Ret (SNil, Some e, lg ++ ok ++ [a]).
Proof.
  revert done lg; induction ok as [|x t IH]; intros done lg Hall He.
  - cbn [app enumerate_from trav_loop length repeat]. rewrite set_nth_app. cbn [obind].
    rewrite He. reflexivity.
  - cbn [app enumerate_from trav_loop length repeat]. rewrite set_nth_app. cbn [obind].
    rewrite (Hall x) by (left; reflexivity).
    specialize (IH (done ++ [fst (f x)]) (lg ++ [x])).
    rewrite app_length in IH. cbn [length] in IH.
    replace (S (length done)) with (length done + 1) by lia.
    replace (done ++ fst (f x) :: repeat zero (length (t ++ a :: post)))
      with ((done ++ [fst (f x)]) ++ repeat zero (length (t ++ a :: post)))
      by (rewrite <- app_assoc; reflexivity).
    rewrite IH; [|intros y Hy; apply Hall; right; exact Hy|exact He].
    rewrite <- !app_assoc. reflexivity.
Qed.

Theorem traverse_spec : forall (f : V -> V * option E),
  (* no element fails: map, f called once per element in order, nil error *)
  (forall l, (forall x, In x l -> snd (f x) = None) ->
     traverse zero f l = Ret (SList (map (fun x => fst (f x)) l), None, l)) /\
  (* the first failing element, at any index of a list of any length: the elements up to and
     including it are visited, the result is the nil slice and exactly its error *)
  (forall pre a post e, (forall x, In x pre -> snd (f x) = None) -> snd (f a) = Some e ->
     traverse zero f (pre ++ a :: post) = Ret (SNil, Some e, pre ++ [a])).
Proof.
  intros f. split.
  - intros l Hall. unfold traverse.
    exact (trav_loop_ok f [] l [] Hall).
  - intros pre a post e Hall He. unfold traverse.
    exact (trav_loop_fail f [] pre a post e [] Hall He).
Qed.

(* every list is in one of the two cases of traverse_spec *)
Lemma first_failure_dec (f : V -> V * option E) (l : list V) :
  (forall x, In x l -> snd (f x) = None) \/
  (exists pre a post e, l = pre ++ a :: post /\ (forall x, In x pre -> snd (f x) = None) /\ snd (f a) = Some e).
Proof.
  induction l as [|x t IH].
  - left. intros x [].
  - destruct (snd (f x)) as [e|] eqn:Ex.
    + right. exists [], x, t, e. repeat split; [intros y []|exact Ex].
    + destruct IH as [Hall | (pre & a & post & e & -> & Hp & He)].
      * left. intros y [<-|Hy]; [exact Ex|apply Hall, Hy].
      * right. exists (x :: pre), a, post, e. repeat split; [|exact He].
        intros y [<-|Hy]; [exact Ex|apply Hp, Hy].
Qed.

Corollary traverse_never_panics : forall (f : V -> V * option E) (l : list V), traverse zero f l <> Panic.
Proof.
  intros f l. destruct (first_failure_dec f l) as [Hall | (pre & a & post & e & -> & Hp & He)].
  - rewrite (proj1 (traverse_spec f) l Hall). discriminate.
  - rewrite (proj2 (traverse_spec f) pre a post e Hp He). discriminate.
Qed.

(* ---- toerror ---- *)
Theorem toerror_spec : forall (err : option E) (f : list V -> list V * bool) (args : list V),
  let '(outs, e, lg) := toerror err f args in
  outs = fst (f args) /\ lg = [args] /\
  (snd (f args) = true -> e = None) /\ (snd (f args) = false -> e = err).
Proof.
  intros err f args. unfold toerror. destruct (snd (f args)); repeat split; congruence.
Qed.

End Spec.

(* ---- the hypotheses are satisfiable on non-trivial inputs ---- *)
Section Examples.
Definition st_ok (d : nat) : @stage nat nat := fun a => (map (fun x => x + d) a ++ [d], None).
Definition st_fail (e : nat) : @stage nat nat := fun a => ([77; 78], Some e).

Example chain_stops_example :
  compose 0 [st_ok 1; st_fail 5; st_fail 6; st_ok 2] 3 [10] =
    mk_cout [0; 0; 0] (Some 5) [(0, [10]); (1, [11; 1])]
  /\ (forall j, j < 1 -> stage_err [st_ok 1; st_fail 5; st_fail 6; st_ok 2] [10] j = None)
  /\ stage_err [st_ok 1; st_fail 5; st_fail 6; st_ok 2] [10] 1 = Some 5.
Proof.
  split; [reflexivity|]. split; [|reflexivity].
  intros j Hj. assert (j = 0) by lia. subst. reflexivity.
Qed.

Example chain_success_example :
  compose 0 [st_ok 1; st_ok 2; st_ok 3] 4 [10] =
    mk_cout [16; 6; 5; 3] None [(0, [10]); (1, [11; 1]); (2, [13; 3; 2])]
  /\ (forall j, j < 3 -> stage_err [st_ok 1; st_ok 2; st_ok 3] [10] j = None).
Proof.
  split; [reflexivity|]. intros j Hj.
  destruct j as [|[|[|j]]]; reflexivity.
Qed.

Definition tf (x : nat) : nat * option nat := (x * 2, if Nat.eqb x 3 then Some 9 else None).

Example traverse_fail_example :
  traverse 0 tf ([1; 2] ++ 3 :: [4; 3]) = Ret (SNil, Some 9, [1; 2; 3])
  /\ (forall x, In x [1; 2] -> snd (tf x) = None) /\ snd (tf 3) = Some 9.
Proof.
  split; [reflexivity|]. split; [|reflexivity].
  intros x [<-|[<-|[]]]; reflexivity.
Qed.

Example traverse_ok_example :
  traverse 0 tf [1; 2; 4] = Ret (SList [2; 4; 8], None, [1; 2; 4])
  /\ (forall x, In x [1; 2; 4] -> snd (tf x) = None).
Proof.
  split; [reflexivity|]. intros x [<-|[<-|[<-|[]]]]; reflexivity.
Qed.

Example fmap_example :
  fmap1 0 (fun v => length v + 40) (st_fail 5) = mk_cout [0] (Some 5) [(0, [])]
  /\ fmap1 0 (fun v => length v + 40) (st_ok 1) = mk_cout [41] None [(0, []); (1, [1])].
Proof. split; reflexivity. Qed.

Example join_example :
  join 0 2 (st_ok 1) (Some 4) = mk_cout [0; 0] (Some 4) []
  /\ join 0 1 (st_ok 1) None = mk_cout [1] None [(0, [])].
Proof. split; reflexivity. Qed.

Example toerror_example :
  toerror (Some 3) (fun a => (a ++ [1], false)) [8] = ([8; 1], Some 3, [[8]])
  /\ toerror (Some 3) (fun a => (a ++ [1], true)) [8] = ([8; 1], @None nat, [[8]]).
Proof. split; reflexivity. Qed.
End Examples.
