(* Chain/ToErrorText.v — the TEXT toerror.genFuncFor prints, over named variables.

     func deriveToError(ERR error, F func(params) (outs, bool)) func(params) (outs, error) {
         return func(params) (outs, error) {       // f's own parameter names
             OUT0, .., SUCCESS := F(params)
             if SUCCESS { return OUT0, .., nil }
             return OUT0, .., ERR
         }
     }

   The closure carries the parameter names of the user's f, so the names the generator chooses for
   itself must stay apart from them: ERR = UnusedName("err", params), F = UnusedName("f", params),
   SUCCESS = UnusedName("success", params), OUTi = UnusedName("out<i>", params).  An identifier is
   resolved in the innermost scope that declares it; a value of the wrong sort under a name is a
   stuck state (the text would not type-check).  [gen_correct]: for every list of distinct parameter
   names the printed text means [Chain.toerror].  [naive_err_shadowed]: with the plain name err and a
   parameter err of type error the text is well-typed and returns the ARGUMENT of the call. *)
From Coq Require Import String Ascii List Bool Arith Lia DecimalString DecimalNat.
From Verif Require Import Base.
From Verif.Chain Require Import Chain.
From Verif.Plumb Require Model Proofs.
Import ListNotations.
Open Scope string_scope.
Open Scope list_scope.

Definition uname (n : string) (taken : list string) : string := Model.unused_name n taken.

Section Text.
Context {D E : Type}.

(* what an identifier of the closure can hold; function values are indices into a table *)
Inductive val := VData (d : D) | VBool (b : bool) | VErr (e : option E) | VFunc (k : nat).

Variable ft : nat -> list val -> list val * bool.

Fixpoint lookup (n : string) (env : list (string * val)) : option val :=
  match env with
  | [] => None
  | (m, v) :: r => if String.eqb n m then Some v else lookup n r
  end.

Fixpoint lookups (ns : list string) (env : list (string * val)) : option (list val) :=
  match ns with
  | [] => Some []
  | n :: r => match lookup n env, lookups r env with
              | Some v, Some vs => Some (v :: vs)
              | _, _ => None
              end
  end.

Record text := { x_err : string; x_f : string; x_params : list string; x_outs : list string; x_success : string }.

Definition run (t : text) (err : option E) (kf : nat) (args : list val)
  : option (list val * option E * list (list val)) :=
  let env0 := [(x_err t, VErr err); (x_f t, VFunc kf)] in
  let env1 := combine (x_params t) args ++ env0 in
  match lookup (x_f t) env1, lookups (x_params t) env1 with
  | Some (VFunc k), Some a =>
      let r := ft k a in
      let env2 := combine (x_outs t ++ [x_success t]) (fst r ++ [VBool (snd r)]) ++ env1 in
      match lookup (x_success t) env2, lookups (x_outs t) env2 with
      | Some (VBool true), Some os => Some (os, None, [a])
      | Some (VBool false), Some os =>
          match lookup (x_err t) env2 with
          | Some (VErr e) => Some (os, e, [a])
          | _ => None
          end
      | _, _ => None
      end
  | _, _ => None
  end.

(* the generator *)
Definition out_names (ps : list string) (n : nat) : list string :=
  map (fun i => uname (String.append "out" (Model.itoa i)) ps) (seq 0 n).

Definition gen (ps : list string) (nout : nat) : text :=
  {| x_err := uname "err" ps; x_f := uname "f" ps; x_params := ps;
     x_outs := out_names ps nout; x_success := uname "success" ps |}.

(* the same text with the supplied error under the plain name err *)
Definition gen_naive_err (ps : list string) (nout : nat) : text :=
  {| x_err := "err"; x_f := uname "f" ps; x_params := ps;
     x_outs := out_names ps nout; x_success := uname "success" ps |}.

(* ---- environments ---- *)
Lemma lookup_skip n l env : ~ In n (map fst l) -> lookup n (l ++ env) = lookup n env.
Proof.
  induction l as [|[m v] l IH]; cbn; intros H; [reflexivity|].
  destruct (String.eqb_spec n m) as [->|_]; [exfalso; apply H; left; reflexivity|].
  apply IH. intros Hi. apply H. right. exact Hi.
Qed.

Lemma in_combine_fst (ns : list string) (vs : list val) n : In n (map fst (combine ns vs)) -> In n ns.
Proof.
  revert vs; induction ns as [|x ns IH]; intros [|v vs]; cbn; try tauto.
  intros [->|H]; [left; reflexivity|right; exact (IH _ H)].
Qed.

Lemma lookups_skip ns x v env : ~ In x ns -> lookups ns ((x, v) :: env) = lookups ns env.
Proof.
  induction ns as [|n ns IH]; cbn [lookups lookup]; intros H; [reflexivity|].
  destruct (String.eqb_spec n x) as [->|_]; [exfalso; apply H; left; reflexivity|].
  rewrite IH; [reflexivity|]. intros Hi. apply H. right. exact Hi.
Qed.

Lemma lookups_combine ns ms vs ws env :
  NoDup (ns ++ ms) -> length ns = length vs ->
  lookups ns (combine (ns ++ ms) (vs ++ ws) ++ env) = Some vs.
Proof.
  revert vs; induction ns as [|n ns IH]; intros [|v vs] Hnd Hl; try discriminate; [reflexivity|].
  cbn [app combine lookups lookup]. rewrite String.eqb_refl.
  cbn [app] in Hnd. inversion Hnd as [|? ? Hn Hnd']; subst.
  rewrite lookups_skip; [|intros Hi; apply Hn, in_or_app; left; exact Hi].
  rewrite IH; [reflexivity|exact Hnd'|]. cbn in Hl. lia.
Qed.

Lemma lookup_last ns s vs v env :
  ~ In s ns -> length ns = length vs -> lookup s (combine (ns ++ [s]) (vs ++ [v]) ++ env) = Some v.
Proof.
  revert vs; induction ns as [|n ns IH]; intros [|w vs] Hn Hl; try discriminate.
  - cbn. rewrite String.eqb_refl. reflexivity.
  - cbn [app combine lookup].
    destruct (String.eqb_spec s n) as [->|_]; [exfalso; apply Hn; left; reflexivity|].
    apply IH; [intros Hi; apply Hn; right; exact Hi|]. cbn in Hl. lia.
Qed.

(* ---- the chosen names ---- *)
Definition hd_char (s : string) : option ascii := match s with String c _ => Some c | EmptyString => None end.

Lemma uname_shape n ps : exists k, uname n ps = String.append n (Proofs.us k).
Proof. unfold uname, Model.unused_name. apply Proofs.unused_from_shape. Qed.

Lemma uname_fresh n ps : ~ In (uname n ps) ps.
Proof. unfold uname. apply Proofs.unused_name_fresh. Qed.

Lemma uname_hd c r ps : hd_char (uname (String c r) ps) = Some c.
Proof. destruct (uname_shape (String c r) ps) as [k ->]. reflexivity. Qed.

Fixpoint no_us (s : string) : Prop :=
  match s with EmptyString => True | String c r => c <> "_"%char /\ no_us r end.

Lemma no_us_append a b k k' :
  no_us a -> no_us b -> String.append a (Proofs.us k) = String.append b (Proofs.us k') -> a = b.
Proof.
  revert b; induction a as [|c a IH]; intros [|d b] Ha Hb H; cbn in *.
  - reflexivity.
  - destruct k as [|k]; cbn in H; [discriminate|]. injection H as Hc _. destruct Hb as [Hd _]. congruence.
  - destruct k' as [|k']; cbn in H; [discriminate|]. injection H as Hc _. destruct Ha as [Hd _]. congruence.
  - injection H as -> H. f_equal. apply IH; tauto.
Qed.

Lemma uint_no_us d : no_us (NilEmpty.string_of_uint d).
Proof. induction d; cbn; try split; try exact IHd; try exact I; intros H; discriminate H. Qed.

Lemma out_name_inj ps i j :
  uname (String.append "out" (Model.itoa i)) ps = uname (String.append "out" (Model.itoa j)) ps -> i = j.
Proof.
  destruct (uname_shape (String.append "out" (Model.itoa i)) ps) as [k ->].
  destruct (uname_shape (String.append "out" (Model.itoa j)) ps) as [k' ->].
  rewrite !Proofs.append_assoc. cbn [String.append]. intros H. injection H as H.
  apply Proofs.itoa_inj. apply (no_us_append _ _ k k'); [apply uint_no_us|apply uint_no_us|exact H].
Qed.

Lemma out_names_nodup ps n : NoDup (out_names ps n).
Proof.
  unfold out_names. apply FinFun.Injective_map_NoDup; [|apply seq_NoDup].
  intros i j H. exact (out_name_inj ps i j H).
Qed.

Lemma out_names_hd ps n x : In x (out_names ps n) -> hd_char x = Some "o"%char.
Proof.
  unfold out_names. intros H. apply in_map_iff in H as (i & <- & _).
  cbn [String.append]. apply uname_hd.
Qed.

Lemma out_names_length ps n : length (out_names ps n) = n.
Proof. unfold out_names. rewrite map_length, seq_length. reflexivity. Qed.

(* ---- the printed text means toerror ---- *)
Theorem gen_correct : forall (ps : list string) (nout : nat) (err : option E) (kf : nat) (args : list val),
  NoDup ps -> length ps = length args -> length (fst (ft kf args)) = nout ->
  run (gen ps nout) err kf args = Some (toerror err (ft kf) args).
Proof.
  intros ps nout err kf args Hnd Hl Hr.
  pose proof (uname_fresh "err" ps) as Fe. pose proof (uname_fresh "f" ps) as Ff.
  pose proof (uname_fresh "success" ps) as Fs.
  pose proof (uname_hd "e" "rr" ps) as He. pose proof (uname_hd "f" "" ps) as Hf.
  pose proof (uname_hd "s" "uccess" ps) as Hs.
  pose proof (out_names_hd ps nout) as Ho. pose proof (out_names_nodup ps nout) as Hon.
  pose proof (out_names_length ps nout) as Hol.
  unfold run, gen, toerror. cbn [x_err x_f x_params x_outs x_success].
  set (ne := uname "err" ps) in *. set (nf := uname "f" ps) in *. set (ns := uname "success" ps) in *.
  set (os := out_names ps nout) in *.
  (* F resolves to the supplied function *)
  rewrite lookup_skip; [|intros Hi; apply in_combine_fst in Hi; exact (Ff Hi)].
  cbn [lookup].
  destruct (String.eqb_spec nf ne) as [E1|_]; [rewrite E1 in Hf; congruence|].
  rewrite String.eqb_refl.
  (* the parameters resolve to the arguments *)
  pose proof (lookups_combine ps [] args [] [(ne, VErr err); (nf, VFunc kf)] ) as Hp.
  rewrite !app_nil_r in Hp. rewrite (Hp Hnd Hl). clear Hp.
  set (r := ft kf args) in *.
  assert (Hns : ~ In ns os). { intros Hi. apply Ho in Hi. congruence. }
  assert (Hnd2 : NoDup (os ++ [ns])).
  { apply Proofs.NoDup_app_intro; [exact Hon|repeat constructor; intros []|].
    intros x Hx [<-|[]]. exact (Hns Hx). }
  rewrite lookup_last; [|exact Hns|congruence].
  rewrite lookups_combine; [|exact Hnd2|congruence].
  destruct (snd r); [reflexivity|].
  (* ERR resolves to the supplied error *)
  rewrite lookup_skip.
  2:{ intros Hi. apply in_combine_fst in Hi. apply in_app_or in Hi as [Hi|[Hi|[]]].
      - apply Ho in Hi. congruence.
      - rewrite <- Hi in He. congruence. }
  rewrite lookup_skip; [|intros Hi; apply in_combine_fst in Hi; exact (Fe Hi)].
  cbn [lookup]. rewrite String.eqb_refl. reflexivity.
Qed.

End Text.

(* the guard is satisfiable on a non-trivial input: every parameter carries one of the generator's names *)
Example gen_example :
  let ft := fun (_ : nat) (a : list (@val nat nat)) => (a ++ [VData 7], false) in
  run ft (gen ["err"; "f"; "success"; "out0"; "err_"] 6) (Some 3) 0
      [VErr (Some 9); VFunc 5; VBool true; VData 1; VErr None]
  = Some ([VErr (Some 9); VFunc 5; VBool true; VData 1; VErr None; VData 7], Some 3,
          [[VErr (Some 9); VFunc 5; VBool true; VData 1; VErr None]])
  /\ x_err (gen ["err"; "f"; "success"; "out0"; "err_"] 6) = "err__"
  /\ x_f (gen ["err"; "f"; "success"; "out0"; "err_"] 6) = "f_"
  /\ x_outs (gen ["err"; "f"; "success"; "out0"; "err_"] 2) = ["out0_"; "out1"].
Proof. vm_compute. repeat split. Qed.

(* the supplied error under the plain name err: a parameter err of type error shadows it, the text
   stays well-typed and the ARGUMENT comes back (its error, or nil although f reported false) *)
Example naive_err_shadowed :
  let ft := fun (_ : nat) (a : list (@val nat nat)) => ([VData 7], false) in
  run ft (gen_naive_err ["err"] 1) (Some 3) 0 [VErr (Some 9)] = Some ([VData 7], Some 9, [[VErr (Some 9)]])
  /\ run ft (gen_naive_err ["err"] 1) (Some 3) 0 [VErr None] = Some ([VData 7], None, [[VErr None]])
  /\ toerror (Some 3) (ft 0) [VErr None] = ([VData 7], Some 3, [[VErr None]]).
Proof. vm_compute. repeat split. Qed.
