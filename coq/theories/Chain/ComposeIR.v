(* Chain/ComposeIR.v — the text that compose.genError prints, as a statement list with named
   variables (v_i_j, err_i), an interpreter for it, and the proof that for every chain length
   and every arity vector the printed body evaluates to the functional model
   [Chain.compose_from].  This ties the variable plumbing of the generator (stage i reads the
   row v_i_*, writes the row v_(i+1)_* and err_i; the check after call i tests err_i; the last
   row is returned) to the model the property theorems are about.  C16.

       for i := range params {
           p.P("%s := %s(%s)", list(vars[i+1], "err"+i), fs[i], strings.Join(vars[i], ", "))
           p.P("if err%d != nil {", i);  p.P("return %s", list(zeros, "err"+i));  p.P("}")
       }
       p.P("return %s", list(vars[len(vars)-1], "nil"))                                     *)
From Coq Require Import FinFun.
From Verif Require Import Base.
From Verif.Chain Require Import Chain ChainProofs.

Section IR.
Context {V E : Type}.
Variable zero : V.
Notation stage := (@stage V E).

Definition vname := (nat * nat)%type.                       (* v_i_j *)

Inductive stmt :=
| SCall (outs : list vname) (errv : nat) (fn : nat) (args : list vname)
                                  (* outs..., err_errv := f_fn(args...) *)
| SIfErr (errv : nat) (nzeros : nat)
                                  (* if err_errv != nil { return ZERO x nzeros, err_errv } *)
| SRet (vals : list vname).       (* return vals..., nil *)

(* ---- the generator ---- *)
Definition vrow (i n : nat) : list vname := map (fun j => (i, j)) (seq 0 n).

(* ar = number of parameters of stage 0, then the number of non-error results of each stage *)
Fixpoint body_from (i : nat) (ar : list nat) (nfinal : nat) : list stmt :=
  match ar with
  | [] => []
  | a :: rest =>
      match rest with
      | [] => [SRet (vrow i a)]
      | b :: _ => SCall (vrow (S i) b) i i (vrow i a) :: SIfErr i nfinal :: body_from (S i) rest nfinal
      end
  end.

Definition compose_body (ar : list nat) : list stmt := body_from 0 ar (last ar 0).

(* ---- the interpreter: None = the text is ill-formed for these stages (undefined variable,
   unknown function, wrong number of results, no return) ---- *)
Definition env := list (vname * V).
Definition eenv := list (nat * option E).

Definition vname_eqb (x y : vname) : bool := Nat.eqb (fst x) (fst y) && Nat.eqb (snd x) (snd y).

Fixpoint lookup (x : vname) (en : env) : option V :=
  match en with
  | [] => None
  | (y, v) :: t => if vname_eqb x y then Some v else lookup x t
  end.

Fixpoint lookups (xs : list vname) (en : env) : option (list V) :=
  match xs with
  | [] => Some []
  | x :: t => match lookup x en, lookups t en with
              | Some v, Some vs => Some (v :: vs)
              | _, _ => None
              end
  end.

Fixpoint elookup (i : nat) (ee : eenv) : option (option E) :=
  match ee with
  | [] => None
  | (j, e) :: t => if Nat.eqb i j then Some e else elookup i t
  end.

Fixpoint exec (fs : list stage) (b : list stmt) (en : env) (ee : eenv) (lg : clog) : option (@cout V E) :=
  match b with
  | [] => None
  | SCall outs ev fn args :: k =>
      match nth_error fs fn, lookups args en with
      | Some f, Some a =>
          let r := f a in
          if Nat.eqb (length (fst r)) (length outs)
          then exec fs k (combine outs (fst r) ++ en) ((ev, snd r) :: ee) (lg ++ [(fn, a)])
          else None
      | _, _ => None
      end
  | SIfErr ev nz :: k =>
      match elookup ev ee with
      | Some (Some e) => Some (mk_cout (repeat zero nz) (Some e) lg)
      | Some None => exec fs k en ee lg
      | None => None
      end
  | SRet vals :: _ =>
      match lookups vals en with
      | Some vs => Some (mk_cout vs None lg)
      | None => None
      end
  end.

(* Go's typing of the chain: stage i returns as many values as stage i+1 takes *)
Fixpoint arity_ok (fs : list stage) (ar : list nat) : Prop :=
  match fs, ar with
  | [], [_] => True
  | f :: r, _ :: ((b :: _) as rest) => (forall x, length (fst (f x)) = b) /\ arity_ok r rest
  | _, _ => False
  end.

Lemma vname_eqb_refl x : vname_eqb x x = true.
Proof. unfold vname_eqb. now rewrite !Nat.eqb_refl. Qed.

Lemma vname_eqb_eq x y : vname_eqb x y = true -> x = y.
Proof.
  destruct x as [a b], y as [c d]. unfold vname_eqb. cbn. intros H.
  apply andb_prop in H. destruct H as [H1 H2].
  apply Nat.eqb_eq in H1. apply Nat.eqb_eq in H2. now subst.
Qed.

Lemma lookups_skip x v xs en : ~ In x xs -> lookups xs ((x, v) :: en) = lookups xs en.
Proof.
  induction xs as [|y t IH]; intros Hn; cbn; [reflexivity|].
  destruct (vname_eqb y x) eqn:Eq.
  - apply vname_eqb_eq in Eq. subst. exfalso. apply Hn. now left.
  - rewrite IH; [reflexivity|]. intros Hin. apply Hn. now right.
Qed.

Lemma lookups_combine xs vs en :
  NoDup xs -> length xs = length vs -> lookups xs (combine xs vs ++ en) = Some vs.
Proof.
  revert vs; induction xs as [|x t IH]; intros [|v vs] Hnd Hlen; cbn in *; try discriminate.
  - reflexivity.
  - inversion Hnd as [|? ? Hnotin Hnd']; subst.
    rewrite vname_eqb_refl. rewrite lookups_skip by exact Hnotin.
    rewrite IH; [reflexivity|exact Hnd'|lia].
Qed.

Lemma vrow_NoDup i n : NoDup (vrow i n).
Proof.
  unfold vrow. apply FinFun.Injective_map_NoDup; [|apply seq_NoDup].
  intros a b H. now inversion H.
Qed.

Lemma vrow_length i n : length (vrow i n) = n.
Proof. unfold vrow. now rewrite map_length, seq_length. Qed.

(* the main lemma, from stage [length pre] on *)
Lemma exec_body_from (pre rest : list stage) (ar : list nat) (nfinal : nat) (a : list V) en ee lg :
  arity_ok rest ar ->
  hd 0 ar = length a ->
  lookups (vrow (length pre) (length a)) en = Some a ->
  exec (pre ++ rest) (body_from (length pre) ar nfinal) en ee lg =
    Some (compose_from zero (length pre) rest nfinal a lg).
Proof.
  revert pre ar a en ee lg; induction rest as [|f r IH]; intros pre ar a en ee lg Hok Hhd Hlk.
  - destruct ar as [|x [|y ar']]; cbn in Hok; try contradiction.
    cbn in Hhd. subst x. cbn. rewrite Hlk. reflexivity.
  - destruct ar as [|x [|b ar']]; cbn in Hok; try contradiction.
    destruct Hok as [Hf Hok']. cbn in Hhd. subst x.
    cbn [body_from exec].
    rewrite nth_error_app2 by lia. rewrite Nat.sub_diag. cbn [nth_error].
    rewrite Hlk. rewrite vrow_length, Hf, Nat.eqb_refl.
    cbn [elookup]. rewrite Nat.eqb_refl.
    cbn [compose_from].
    destruct (snd (f a)) as [e|] eqn:Es.
    + reflexivity.
    + specialize (IH (pre ++ [f]) (b :: ar') (fst (f a))
                     (combine (vrow (S (length pre)) b) (fst (f a)) ++ en)
                     ((length pre, None) :: ee) (lg ++ [(length pre, a)])).
      rewrite app_length in IH. cbn [length] in IH.
      replace (length pre + 1) with (S (length pre)) in IH by lia.
      rewrite <- app_assoc in IH. cbn [app] in IH.
      apply IH.
      * exact Hok'.
      * cbn. now rewrite Hf.
      * rewrite Hf. apply lookups_combine; [apply vrow_NoDup|]. now rewrite vrow_length, Hf.
Qed.

(* the printed body of Compose means the functional model, for every chain *)
Theorem compose_body_correct : forall (fs : list stage) (ar : list nat) (args : list V),
  arity_ok fs ar ->
  hd 0 ar = length args ->
  exec fs (compose_body ar) (combine (vrow 0 (length args)) args) [] [] =
    Some (compose zero fs (last ar 0) args).
Proof.
  intros fs ar args Hok Hhd. unfold compose_body, compose.
  apply (exec_body_from [] fs ar (last ar 0) args); [exact Hok|exact Hhd|].
  cbn [length]. rewrite <- (app_nil_r (combine _ _)).
  apply lookups_combine; [apply vrow_NoDup|apply vrow_length].
Qed.

End IR.

(* a three-stage chain with arities 1 -> 2 -> 0 -> 1: the hypotheses are satisfiable *)
Example compose_body_example :
  let fs : list (@stage nat nat) :=
    [ (fun a => ([hd 0 a + 1; 7], None)); (fun a => ([], None)); (fun a => ([9], Some 4)) ] in
  arity_ok fs [1; 2; 0; 1] /\
  compose_body [1; 2; 0; 1] =
    [ SCall [(1, 0); (1, 1)] 0 0 [(0, 0)]; SIfErr 0 1;
      SCall [] 1 1 [(1, 0); (1, 1)]; SIfErr 1 1;
      SCall [(3, 0)] 2 2 []; SIfErr 2 1;
      SRet [(3, 0)] ] /\
  exec 0 fs (compose_body [1; 2; 0; 1]) [((0, 0), 5)] [] [] =
    Some (mk_cout [0] (Some 4) [(0, [5]); (1, [6; 7]); (2, [])]).
Proof. cbn. repeat split; intros; reflexivity. Qed.
