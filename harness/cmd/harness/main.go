// harness — generates scratch packages, runs the goderive built from /repo on them, runs
// the drivers and writes observation files for modeleval.  One package per property
// (internal/cNN); this file is only the table.
package main

import (
	"flag"
	"fmt"
	"os"
	"path/filepath"

	"verifharness/internal/c01"
	"verifharness/internal/c02"
	"verifharness/internal/c03"
	"verifharness/internal/c04"
	"verifharness/internal/c05"
	"verifharness/internal/c06"
	"verifharness/internal/c07"
	"verifharness/internal/c08"
	"verifharness/internal/c09"
	"verifharness/internal/c10"
	"verifharness/internal/c11"
	"verifharness/internal/c12"
	"verifharness/internal/c13"
	"verifharness/internal/c14"
	"verifharness/internal/c15"
	"verifharness/internal/c16"
	"verifharness/internal/c17"
	"verifharness/internal/c18"
	"verifharness/internal/c19"
	"verifharness/internal/c20"
	"verifharness/internal/hx"
)

var table = map[string]func(hx.Config) (*hx.Meta, error){
	"C01": c01.Run,
	"C02": c02.Run,
	"C03": c03.Run,
	"C04": c04.Run,
	"C05": c05.Run,
	"C06": c06.Run,
	"C07": c07.Run,
	"C08": c08.Run,
	"C09": c09.Run,
	"C10": c10.Run,
	"C11": c11.Run,
	"C12": c12.Run,
	"C13": c13.Run,
	"C14": c14.Run,
	"C15": c15.Run,
	"C16": c16.Run,
	"C17": c17.Run,
	"C18": c18.Run,
	"C19": c19.Run,
	"C20": c20.Run,
}

func main() {
	var cfg hx.Config
	prop := flag.String("prop", "", "property id")
	flag.StringVar(&cfg.Goderive, "goderive", "", "path of the goderive binary built from the repository under test")
	flag.StringVar(&cfg.Repo, "repo", "/repo", "the repository under test (source tree)")
	flag.StringVar(&cfg.Work, "work", "", "scratch directory (outside /repo and /verif)")
	flag.StringVar(&cfg.Out, "out", "", "directory for observation files and meta.json")
	flag.Uint64Var(&cfg.Seed, "seed", 1, "seed")
	flag.StringVar(&cfg.Tier, "tier", "quick", "quick|thorough")
	flag.StringVar(&cfg.Corpus, "corpus", "", "directory with the regression corpus of this property")
	flag.StringVar(&cfg.Verif, "verif", "", "the /verif tree (for corpus, modeleval, coq)")
	flag.Parse()
	run, ok := table[*prop]
	if !ok || cfg.Work == "" || cfg.Out == "" {
		fmt.Fprintln(os.Stderr, "usage: harness -prop Cxx -goderive BIN -work DIR -out DIR [-seed N] [-tier quick|thorough]")
		os.Exit(2)
	}
	os.MkdirAll(cfg.Work, 0o755)
	os.MkdirAll(cfg.Out, 0o755)
	meta, err := run(cfg)
	if err != nil {
		fmt.Fprintln(os.Stderr, "harness error:", err)
		os.Exit(3)
	}
	if err := meta.Write(filepath.Join(cfg.Out, "meta.json")); err != nil {
		fmt.Fprintln(os.Stderr, "harness error:", err)
		os.Exit(3)
	}
}
