// harness — generates scratch packages, runs the goderive built from /repo on them, runs
// the drivers and writes observation files for modeleval.
package main

import (
	"flag"
	"fmt"
	"os"
	"path/filepath"

	"verifharness/internal/c17"
	"verifharness/internal/hx"
)

func main() {
	prop := flag.String("prop", "", "property id")
	gd := flag.String("goderive", "", "path of the goderive binary built from /repo")
	work := flag.String("work", "", "scratch directory (outside /repo and /verif)")
	out := flag.String("out", "", "directory for observation files and meta.json")
	seed := flag.Uint64("seed", 1, "seed")
	tier := flag.String("tier", "quick", "quick|thorough")
	corpus := flag.String("corpus", "", "directory with the regression corpus of this property")
	_ = corpus
	flag.Parse()
	if *prop == "" || *work == "" || *out == "" {
		fmt.Fprintln(os.Stderr, "usage: harness -prop Cxx -goderive BIN -work DIR -out DIR [-seed N] [-tier quick|thorough]")
		os.Exit(2)
	}
	os.MkdirAll(*work, 0o755)
	os.MkdirAll(*out, 0o755)
	var meta *hx.Meta
	var err error
	switch *prop {
	case "C17":
		meta, err = c17.Run(c17.Config{Goderive: *gd, Work: *work, Out: *out, Seed: *seed, Tier: *tier})
	default:
		err = fmt.Errorf("unknown property %s", *prop)
	}
	if err != nil {
		fmt.Fprintln(os.Stderr, "harness error:", err)
		os.Exit(3)
	}
	if err := meta.Write(filepath.Join(*out, "meta.json")); err != nil {
		fmt.Fprintln(os.Stderr, "harness error:", err)
		os.Exit(3)
	}
}
