// Package c18: correspondence harness of C18 — derived Mem is observationally the original
// function, evaluated once per class of Equal argument tuples.
//
// Signatures with 0..3 parameters x 0..3 results over comparable and non-comparable types of
// ga's catalogue; for each, call histories with repeats, Equal-but-not-identical arguments
// (fresh addresses, sign of zero, spare capacity, map insertion order) and, for the bucket form,
// a second run against a copy of the emitted code whose hash call is replaced by a constant.
// The driver (mem_driver.go.txt) calls, per history element, f directly and the memoised
// function, and logs every invocation of the instrumented f; eval18 (Coq) replays the history
// on the model and on the specification.
package c18

import (
	_ "embed"
	"fmt"
	"os"
	"path/filepath"
	"regexp"
	"sort"
	"strings"

	"verifharness/internal/ga"
	"verifharness/internal/hx"
)

//go:embed mem_driver.go.txt
var driverSource string

type sig struct {
	Params, Results []*ga.Type
}

func (s *sig) Sexp() string {
	var b strings.Builder
	b.WriteString("(sig (")
	for i, p := range s.Params {
		if i > 0 {
			b.WriteByte(' ')
		}
		b.WriteString(p.Sexp())
	}
	fmt.Fprintf(&b, ") %d)", len(s.Results))
	return b.String()
}

// FuncType is the Go spelling of the function type (parameters named, as a user would).
func (s *sig) FuncType() string {
	var ps, rs []string
	for i, p := range s.Params {
		ps = append(ps, fmt.Sprintf("a%d %s", i, p.Go(0)))
	}
	for _, r := range s.Results {
		rs = append(rs, r.Go(0))
	}
	res := strings.Join(rs, ", ")
	if len(rs) > 1 {
		res = "(" + res + ")"
	}
	if res != "" {
		res = " " + res
	}
	return "func(" + strings.Join(ps, ", ") + ")" + res
}

func (s *sig) Key() string { return s.FuncType() }

// Form mirrors Mem/Model.v form_of (for the input distribution only; the evaluator decides).
func (s *sig) Form() string {
	all := true
	for _, p := range s.Params {
		all = all && p.Comparable()
	}
	switch {
	case len(s.Params) == 0:
		return "zero"
	case all && len(s.Params) == 1:
		return "map1"
	case all:
		return "mapN"
	case len(s.Params) == 1:
		return "bucket1"
	}
	return "bucketN"
}

func (s *sig) types() []*ga.Type { return append(append([]*ga.Type{}, s.Params...), s.Results...) }

// ---------- scratch package ----------

var extAlias = map[int]string{1: "ext", 2: "ext2"} // as ga/types.go

type pkg struct {
	Dir  string
	Sigs []*sig
	Idx  []int
}

func importsOf(ts []*ga.Type) string {
	ext := map[int]bool{}
	for _, t := range ts {
		t.UsesExt(ext)
	}
	var es []int
	for e := range ext {
		es = append(es, e)
	}
	sort.Ints(es)
	if len(es) == 0 {
		return ""
	}
	var b strings.Builder
	b.WriteString("import (\n")
	for _, e := range es {
		fmt.Fprintf(&b, "\t%s %q\n", extAlias[e], ga.ExtPaths[e])
	}
	b.WriteString(")\n\n")
	return b.String()
}

// write creates go.mod, decls.go, calls.go, the external packages, types.txt and the driver
// files (build tag drv, invisible to goderive).
func (p *pkg) write() error {
	if err := hx.Module(p.Dir); err != nil {
		return err
	}
	decls := map[int]*ga.Type{}
	var all []*ga.Type
	for _, s := range p.Sigs {
		for _, t := range s.types() {
			t.Decls(decls)
			all = append(all, t)
		}
	}
	files := map[string]string{}
	var localUnder []*ga.Type
	for _, d := range decls {
		if d.Ext == 0 {
			localUnder = append(localUnder, d.Elem)
		}
	}
	files["decls.go"] = "package main\n\n" + importsOf(localUnder) + ga.DeclSource(decls, 0)
	for _, d := range decls {
		if d.Ext != 0 {
			sub := map[int]*ga.Type{}
			for id, x := range decls {
				if x.Ext == d.Ext {
					sub[id] = x
				}
			}
			files[strings.TrimPrefix(ga.ExtPaths[d.Ext], "p/")+"/ext.go"] = "package ext\n\n" + ga.DeclSource(sub, d.Ext)
		}
	}
	var calls, tys strings.Builder
	calls.WriteString("package main\n\n" + importsOf(all))
	for i, s := range p.Sigs {
		idx := p.Idx[i]
		ft := s.FuncType()
		fmt.Fprintf(&calls, "var memF_%d %s\n\nfunc memD_%d() %s { return deriveMem_%d(memF_%d) }\n\n", idx, ft, idx, ft, idx, idx)
		fmt.Fprintf(&tys, "%d %s\n", idx, s.Sexp())
	}
	calls.WriteString("func main() {}\n")
	files["calls.go"] = calls.String()
	files["types.txt"] = tys.String()
	return hx.WriteFiles(p.Dir, files)
}

var memFuncRe = regexp.MustCompile(`(?ms)^func deriveMem_(\d+)\(.*?^}\n`)
var hashCallRe = regexp.MustCompile(`(\w+) := deriveHash\w*\(\w+\)`)

// addDriver adds, after goderive ran: coll.gen.go — a copy of every emitted bucket-form
// deriveMem function with its hash call replaced by a constant — and the driver files.
// Returns the indices for which the collision copy exists.
func (p *pkg) addDriver() (map[int]bool, error) {
	derived, err := os.ReadFile(filepath.Join(p.Dir, "derived.gen.go"))
	if err != nil {
		return nil, err
	}
	coll := map[int]bool{}
	var cg strings.Builder
	var all []*ga.Type
	bySig := map[string]*sig{}
	for i, s := range p.Sigs {
		bySig[fmt.Sprint(p.Idx[i])] = s
	}
	var body strings.Builder
	for _, m := range memFuncRe.FindAllStringSubmatch(string(derived), -1) {
		text, id := m[0], m[1]
		if !hashCallRe.MatchString(text) {
			continue
		}
		s := bySig[id]
		if s == nil {
			continue
		}
		text = hashCallRe.ReplaceAllString(text, "$1 := uint64(7)")
		text = strings.Replace(text, "func deriveMem_"+id+"(", "func collMem_"+id+"(", 1)
		body.WriteString(text + "\n")
		fmt.Fprintf(&body, "func memC_%s() %s { return collMem_%s(memF_%s) }\n\n", id, s.FuncType(), id, id)
		var n int
		fmt.Sscan(id, &n)
		coll[n] = true
		all = append(all, s.types()...)
	}
	cg.WriteString("package main\n\n" + importsOf(all) + body.String())
	var regs strings.Builder
	regs.WriteString("//go:build drv\n\npackage main\n\nfunc init() {\n")
	for _, idx := range p.Idx {
		fmt.Fprintf(&regs, "\treg(\"memD\", %d, memD_%d)\n\treg(\"memF\", %d, &memF_%d)\n", idx, idx, idx, idx)
		if coll[idx] {
			fmt.Fprintf(&regs, "\treg(\"memC\", %d, memC_%d)\n", idx, idx)
		}
	}
	regs.WriteString("}\n")
	// ga's runtime has its own main; ours in calls.go is only for goderive/vet
	callsPath := filepath.Join(p.Dir, "calls.go")
	cb, err := os.ReadFile(callsPath)
	if err != nil {
		return nil, err
	}
	files := map[string]string{
		"coll.gen.go": cg.String(),
		"reg.go":      regs.String(),
		"rt.go":       ga.RTSource,
		"memdrv.go":   driverSource,
		"calls.go":    strings.Replace(string(cb), "func main() {}\n", "", 1),
	}
	return coll, hx.WriteFiles(p.Dir, files)
}

// ---------- signatures ----------

type typeSet struct {
	comparable, noncomparable, results []*ga.Type
	inline                             []*ga.Type // round 5: subset of noncomparable (ga.InlineElemShapesR5C18)
	byName                             map[string]*ga.Type
}

func candidates(cat *ga.Catalogue) *typeSet {
	B, P, Sl, Ar, M, St := ga.B, ga.P, ga.Sl, ga.Ar, ga.M, ga.St
	ts := &typeSet{byName: map[string]*ga.Type{}}
	ts.comparable = []*ga.Type{B("int"), B("string"), B("float64"), B("bool"), B("complex128"), B("uint8"), B("float32"),
		cat.S0, cat.NArr, cat.NF64, cat.NInt, cat.E3, Ar(2, B("int")), Ar(2, B("float64")), St(B("int"), B("string")), St(B("float64"), Ar(2, B("string")))}
	ts.noncomparable = []*ga.Type{Sl(B("int")), Sl(B("string")), Sl(B("float64")), Sl(B("uint8")), M(B("string"), B("int")),
		M(B("float64"), B("string")), P(B("int")), P(cat.S0), cat.SP, cat.Rec, cat.MA, cat.NSl, cat.NMap, cat.NPtr, cat.E1,
		Ar(2, Sl(B("int"))), Sl(P(B("int"))), P(P(B("int"))), M(B("int"), Sl(B("string"))), Sl(cat.S0), P(Sl(B("float64"))),
		St(Sl(B("int")), B("int")), Sl(Sl(B("int"))), M(cat.NArr, P(B("float64"))),
		// arrays and structs whose comparability is decided by their components
		Ar(2, P(B("int"))), Ar(2, P(cat.S0)), St(Ar(2, P(B("int"))), B("string")), Ar(1, M(B("string"), B("int"))), St(B("int"), P(B("string")))}
	// hardening round 4: ==-comparable types that declare their own Equal method (derived Equal of the key asks
	// the method, derive.IsComparable and Go's == do not care), as parameter, behind a pointer, in an array
	// and as a field of a struct parameter.  The methods ARE structural equality, so the classes of the
	// property ("Equal, structurally") and the shared method-free model are unchanged.
	id := ga.Named(47, "ID", 0, St(B("int"), B("int")))
	id.Methods = "func (x ID) Equal(y ID) bool { return x.F0 == y.F0 && x.F1 == y.F1 }\n\n"
	idp := ga.Named(48, "IDP", 0, St(B("string"), B("int8")))
	idp.Methods = "func (x *IDP) Equal(y *IDP) bool {\n\tif x == nil || y == nil {\n\t\treturn x == nil && y == nil\n\t}\n\treturn x.F0 == y.F0 && x.F1 == y.F1\n}\n\n"
	req := ga.Named(49, "Req", 0, St(id, Sl(B("int"))))
	ts.comparable = append(ts.comparable, id, idp, Ar(2, id))
	ts.noncomparable = append(ts.noncomparable, req, P(id), Sl(idp), St(idp, Sl(B("string"))))
	// hardening round 5: a component that derived Equal compares with an inline expression ([]byte, a pointer
	// to an unnamed type) in ELEMENT position (slice / array element, map value, referent, field of an
	// unnamed struct), where the generator negates that expression (seeded change C18-m13)
	ts.inline = ga.InlineElemShapesR5C18(cat)
	ts.noncomparable = append(ts.noncomparable, ts.inline...)
	// (two corpus lines of round 3 named these and were skipped with a note: not in the table)
	ts.noncomparable = append(ts.noncomparable, Sl(B("complex128")), P(B("complex128")))
	ts.results = []*ga.Type{B("int"), B("string"), B("float64"), B("bool"), Sl(B("int")), P(B("int")), cat.S0, M(B("string"), B("int")), cat.NInt, Ar(2, B("string"))}
	for _, l := range [][]*ga.Type{ts.comparable, ts.noncomparable, ts.results} {
		for _, t := range l {
			ts.byName[strings.ReplaceAll(t.Go(0), " ", "")] = t
		}
	}
	return ts
}

// cellSig draws a signature for one cell (form x number of results).
func cellSig(r *hx.Rand, ts *typeSet, form string, nres int) *sig {
	s := &sig{}
	pick := func(l []*ga.Type) *ga.Type { return hx.Pick(r, l) }
	switch form {
	case "zero":
	case "map1":
		s.Params = []*ga.Type{pick(ts.comparable)}
	case "mapN":
		for i := 0; i < 2+r.Intn(2); i++ {
			s.Params = append(s.Params, pick(ts.comparable))
		}
	case "bucket1":
		s.Params = []*ga.Type{pick(ts.noncomparable)}
	case "bucketN-mixed":
		n := 2 + r.Intn(2)
		at := r.Intn(n)
		for i := 0; i < n; i++ {
			if i == at {
				s.Params = append(s.Params, pick(ts.noncomparable))
			} else {
				s.Params = append(s.Params, pick(ts.comparable))
			}
		}
	case "bucketN":
		for i := 0; i < 2+r.Intn(2); i++ {
			s.Params = append(s.Params, pick(ts.noncomparable))
		}
	}
	for i := 0; i < nres; i++ {
		s.Results = append(s.Results, pick(ts.results))
	}
	return s
}

var cellForms = []string{"zero", "map1", "mapN", "bucket1", "bucketN-mixed", "bucketN"}

// splitTop splits at the `;` that are not inside braces (struct{F0 T0;F1 T1} is one type).
func splitTop(txt string) []string {
	var out []string
	depth, start := 0, 0
	for i, c := range txt {
		switch c {
		case '{':
			depth++
		case '}':
			depth--
		case ';':
			if depth == 0 {
				out = append(out, txt[start:i])
				start = i + 1
			}
		}
	}
	return append(out, txt[start:])
}

// corpusSigs reads corpus/C18/*.sig: one signature per line, `T0;T1 -> R0;R1` with the Go
// spelling (spaces removed) of candidate types; `#` comments.
func corpusSigs(dir string, ts *typeSet, meta *hx.Meta) []*sig {
	var out []*sig
	files, _ := filepath.Glob(filepath.Join(dir, "*.sig"))
	sort.Strings(files)
	for _, f := range files {
		b, err := os.ReadFile(f)
		if err != nil {
			continue
		}
		for _, l := range strings.Split(string(b), "\n") {
			l = strings.TrimSpace(l)
			if l == "" || l[0] == '#' {
				continue
			}
			lr := strings.SplitN(l, "->", 2)
			if len(lr) != 2 {
				meta.Notes = append(meta.Notes, "corpus line not understood: "+l)
				continue
			}
			s := &sig{}
			okLine := true
			parse := func(txt string) []*ga.Type {
				var ts2 []*ga.Type
				for _, n := range splitTop(txt) {
					n = strings.ReplaceAll(strings.TrimSpace(n), " ", "")
					if n == "" {
						continue
					}
					t, ok := ts.byName[n]
					if !ok {
						okLine = false
						meta.Notes = append(meta.Notes, "corpus type not in the candidate table: "+n)
						continue
					}
					ts2 = append(ts2, t)
				}
				return ts2
			}
			s.Params, s.Results = parse(lr[0]), parse(lr[1])
			if okLine {
				out = append(out, s)
				meta.Count("corpus-signatures")
			}
		}
	}
	return out
}

// ---------- histories ----------

// equalVariant returns a tuple that derived Equal cannot tell from the given one: fresh
// addresses everywhere, the sign of some zeros flipped, spare capacity added or dropped, map
// entries inserted in another order.
func equalVariant(r *hx.Rand, g *ga.Gen, tuple []*ga.Val) []*ga.Val {
	out := make([]*ga.Val, len(tuple))
	memo := map[int]*ga.Val{} // one node per pointer label (shared sub-structure stays shared and consistent)
	var rec func(v *ga.Val) *ga.Val
	rec = func(v *ga.Val) *ga.Val {
		if v.K == "p" {
			if m, ok := memo[v.Loc]; ok {
				return m
			}
			memo[v.Loc] = v
		}
		switch v.K {
		case "f":
			if v.Mag == 0 && r.Bool() {
				v.Neg = !v.Neg
			}
		case "c":
			if v.Mag == 0 && r.Bool() {
				v.Neg = !v.Neg
			}
			if v.IMag == 0 && r.Bool() {
				v.INeg = !v.INeg
			}
		}
		for i := range v.Elems {
			v.Elems[i] = rec(v.Elems[i])
		}
		for i := range v.Spare {
			v.Spare[i] = rec(v.Spare[i])
		}
		for i := range v.KVs {
			v.KVs[i][0] = rec(v.KVs[i][0])
			v.KVs[i][1] = rec(v.KVs[i][1])
		}
		switch v.K {
		case "sl":
			if r.Intn(3) == 0 {
				if len(v.Spare) > 0 {
					v.Spare = nil
				} else if len(v.Elems) > 0 {
					v.Spare = []*ga.Val{v.Elems[len(v.Elems)-1].Clone(g.Fresh)}
				}
			}
		case "m":
			if len(v.KVs) > 1 && r.Bool() {
				hx.Shuffle(r, v.KVs)
			}
		}
		return v
	}
	for i, v := range tuple {
		out[i] = rec(v.Clone(g.Fresh))
	}
	return out
}

// copyKeep copies a value tree keeping every label: the copy denotes the same memory.
func copyKeep(v *ga.Val) *ga.Val {
	c := *v
	c.Elems, c.Spare, c.KVs = nil, nil, nil
	for _, e := range v.Elems {
		c.Elems = append(c.Elems, copyKeep(e))
	}
	for _, e := range v.Spare {
		c.Spare = append(c.Spare, copyKeep(e))
	}
	for _, kv := range v.KVs {
		c.KVs = append(c.KVs, [2]*ga.Val{copyKeep(kv[0]), copyKeep(kv[1])})
	}
	return &c
}

// resliceVariant (hardening round 4) returns the tuple with ONE of its slices re-sliced: the same backing
// array (same label), another length — buf[:2] where the earlier call got buf[:3], or the slice extended
// into its spare capacity.  Everything that does not lie on the way to that slice is the very same memory
// (same labels, same pointers); the pointers, slices and maps that CONTAIN the re-sliced header are new
// memory (fresh labels: one piece of memory cannot hold two different slice headers).  The two tuples
// share the array and are NOT Equal.  ok = false when the tuple holds no slice with an element or a
// spare slot.
func resliceVariant(r *hx.Rand, g *ga.Gen, tuple []*ga.Val) ([]*ga.Val, bool) {
	out := make([]*ga.Val, len(tuple))
	var cands []*ga.Val
	seen := map[int]bool{}
	var walk func(v *ga.Val)
	walk = func(v *ga.Val) {
		if v.K == "sl" && len(v.Elems)+len(v.Spare) > 0 && !seen[v.Loc] {
			seen[v.Loc] = true
			cands = append(cands, v)
		}
		for _, e := range v.Elems {
			walk(e)
		}
		for _, kv := range v.KVs {
			walk(kv[1])
		}
	}
	for i, v := range tuple {
		out[i] = copyKeep(v)
		walk(out[i])
	}
	if len(cands) == 0 {
		return nil, false
	}
	s := hx.Pick(r, cands)
	all := append(append([]*ga.Val{}, s.Elems...), s.Spare...)
	k := r.Intn(len(all) + 1)
	if k == len(s.Elems) {
		k = (k + 1) % (len(all) + 1)
	}
	if k == 0 && len(all) > 1 && r.Intn(4) != 0 {
		k = 1 + r.Intn(len(all)-1)
		if k == len(s.Elems) {
			k = len(all)
		}
	}
	lab, cur := s.Loc, len(s.Elems)
	relabel := map[int]int{}
	var fix func(v *ga.Val) bool // does v hold a re-sliced header?
	fix = func(v *ga.Val) bool {
		if v.K == "sl" && v.Loc == lab && len(v.Elems) == cur && len(v.Elems)+len(v.Spare) == len(all) {
			// every copy of this header inside the tuple changes alike
			v.Elems, v.Spare = append([]*ga.Val{}, all[:k]...), append([]*ga.Val{}, all[k:]...)
			return true
		}
		ch := false
		for _, e := range v.Elems {
			if fix(e) {
				ch = true
			}
		}
		for _, kv := range v.KVs {
			if fix(kv[1]) {
				ch = true
			}
		}
		if ch && (v.K == "p" || v.K == "sl" || v.K == "m") {
			n, ok := relabel[v.Loc]
			if !ok {
				n = g.Fresh()
				relabel[v.Loc] = n
			}
			v.Loc = n
		}
		return ch
	}
	for _, v := range out {
		fix(v)
	}
	return out, true
}

func tupleSexp(t []*ga.Val) string {
	var b strings.Builder
	b.WriteByte('(')
	for i, v := range t {
		if i > 0 {
			b.WriteByte(' ')
		}
		b.WriteString(v.Sexp())
	}
	b.WriteByte(')')
	return b.String()
}

// histSexp prints a history.
func histSexp(hist [][]*ga.Val) string {
	var b strings.Builder
	b.WriteByte('(')
	for i, t := range hist {
		if i > 0 {
			b.WriteByte(' ')
		}
		b.WriteString(tupleSexp(t))
	}
	b.WriteByte(')')
	return b.String()
}

// sweepHistory (round 5) is the one history of a signature that does not depend on luck: the leading pool
// values of every parameter in pool order (the zero value, nil, empty, one element, ... — tuple i takes entry
// i of every pool, wrapping around), so that nil AND empty, +0 AND -0, ... of a parameter always meet in one
// call sequence; then Equal variants of the first entries.
func sweepHistory(r *hx.Rand, g *ga.Gen, pools [][]*ga.Val, maxLen int) string {
	n := 0
	for _, p := range pools {
		n = max(n, len(p))
	}
	n = min(n, maxLen)
	var hist [][]*ga.Val
	for i := 0; i < n; i++ {
		t := make([]*ga.Val, len(pools))
		for j, p := range pools {
			t[j] = p[i%len(p)].Clone(g.Fresh)
		}
		hist = append(hist, t)
	}
	for i := 0; i < min(n, 3); i++ {
		hist = append(hist, equalVariant(r, g, hist[i]))
	}
	return histSexp(hist)
}

// rich (round 5): per parameter, values whose containers are non-nil all the way down (may be empty lists).
func genHistory(r *hx.Rand, g *ga.Gen, s *sig, pools, rich [][]*ga.Val, maxLen int, meta *hx.Meta) string {
	n := 1 + r.Intn(maxLen)
	if r.Intn(20) == 0 {
		n = 0
	}
	var hist [][]*ga.Val
	for i := 0; i < n; i++ {
		x := r.Intn(11)
		switch {
		case len(hist) > 0 && x < 3: // the very same argument values again (same pointers)
			hist = append(hist, hist[r.Intn(len(hist))])
		case len(hist) > 0 && x < 6: // Equal but not identical
			hist = append(hist, equalVariant(r, g, hist[r.Intn(len(hist))]))
		case len(hist) > 0 && x == 6: // another view of an earlier argument's memory: one slice re-sliced
			if t, ok := resliceVariant(r, g, hist[r.Intn(len(hist))]); ok {
				hist = append(hist, t)
				meta.CountSafe("histories/resliced-view-of-an-earlier-argument")
			} else {
				hist = append(hist, equalVariant(r, g, hist[r.Intn(len(hist))]))
			}
		case len(hist) > 0 && len(pools) > 1 && x == 7: // an earlier tuple with exactly one component replaced
			old := hist[r.Intn(len(hist))]
			t := make([]*ga.Val, len(old))
			for j := range old {
				t[j] = old[j].Clone(g.Fresh)
			}
			if r.Bool() {
				copy(t, old) // the other components are the very same values
			}
			j := r.Intn(len(pools))
			t[j] = hx.Pick(r, pools[j]).Clone(g.Fresh)
			hist = append(hist, t)
			meta.CountSafe("histories/one-component-replaced")
		case len(pools) > 0 && x == 10:
			// round 5: two arguments with a REAL hash collision (one bucket of the emitted table) that are
			// not Equal: around an earlier tuple or a new one; the later steps repeat them and their
			// Equal variants
			var base []*ga.Val
			if len(hist) > 0 && r.Bool() {
				base = hist[r.Intn(len(hist))]
			} else {
				base = make([]*ga.Val, len(pools))
				for j, p := range pools {
					base[j] = hx.Pick(r, p).Clone(g.Fresh)
				}
			}
			if a, b, ok := collidingTuples(r, g, s, base); ok {
				hist = append(hist, a, b)
				i++
				meta.CountSafe("histories/real-hash-collision-pair")
			} else {
				hist = append(hist, base)
			}
		default:
			t := make([]*ga.Val, len(pools))
			for j, p := range pools {
				if len(rich[j]) > 0 && r.Intn(4) == 0 {
					p = rich[j]
				}
				t[j] = hx.Pick(r, p).Clone(g.Fresh)
			}
			hist = append(hist, t)
		}
	}
	return histSexp(hist)
}

// ---------- re-entrant histories ----------

// collidingValues returns two values of type t that are not Equal and have the same derived
// Hash (31*(31*17+1)+0 == 31*(31*17+0)+31 for the elements of a slice; "Aa"/"BB" for strings),
// or nil when no such pair is known for t.
func collidingValues(g *ga.Gen, t *ga.Type) []*ga.Val {
	str := func(s string) *ga.Val { return &ga.Val{K: "s", Str: []byte(s)} }
	num := func(n string) *ga.Val { return &ga.Val{K: "i", Int: n} }
	sl := func(es ...*ga.Val) *ga.Val { return &ga.Val{K: "sl", Loc: g.Fresh(), Elems: es} }
	switch strings.ReplaceAll(t.Go(0), " ", "") {
	case "[]int":
		return []*ga.Val{sl(num("1"), num("0")), sl(num("0"), num("31"))}
	case "string":
		return []*ga.Val{str("Aa"), str("BB")}
	case "[]string":
		return []*ga.Val{sl(str("Aa")), sl(str("BB"))}
	case "[]uint8":
		return []*ga.Val{sl(num("1"), num("0")), sl(num("0"), num("31"))}
	case "ID": // struct{F0, F1 int}: (17*31+1)*31+31 == (17*31+2)*31+0
		return []*ga.Val{{K: "st", Elems: []*ga.Val{num("1"), num("31")}}, {K: "st", Elems: []*ga.Val{num("2"), num("0")}}}
	}
	// round 5: any type for which a colliding pair can be built compositionally ("Aa"/"BB", {1,0}/{0,31},
	// {0:31}/{1:0}, adjacent fields (1,0)/(0,31), lifted through slices, arrays, maps, pointers, structs)
	return g.CollidingPairR5C18(t)
}

// collidingTuples (round 5) returns two argument tuples that are not Equal and have the same derived hash
// of the key (the single argument, or input{param0, ...}: h = 31*h + hash(param_i)): one component replaced
// by a colliding pair, or two ADJACENT components (1, 0) / (0, 31); the other components Equal (the very
// same values or fresh copies).  ok = false when the parameter types allow neither.
func collidingTuples(r *hx.Rand, g *ga.Gen, s *sig, base []*ga.Val) (a, b []*ga.Val, ok bool) {
	a, b = make([]*ga.Val, len(base)), make([]*ga.Val, len(base))
	fresh := r.Bool()
	for k := range base {
		a[k], b[k] = base[k], base[k]
		if fresh {
			b[k] = base[k].Clone(g.Fresh)
		}
	}
	var cand [][2]int // {parameter, 0 = a pair inside it, 1 = it and the next one}
	for j, t := range s.Params {
		if collidingValues(g, t) != nil {
			cand = append(cand, [2]int{j, 0})
		}
		if j+1 < len(s.Params) && ga.SmallHashValR5C18(t, 1) != nil && ga.SmallHashValR5C18(s.Params[j+1], 31) != nil {
			cand = append(cand, [2]int{j, 1})
		}
	}
	if len(cand) == 0 {
		return nil, nil, false
	}
	c := hx.Pick(r, cand)
	j := c[0]
	if c[1] == 0 {
		vs := collidingValues(g, s.Params[j])
		a[j], b[j] = vs[0], vs[1]
	} else {
		a[j], a[j+1] = ga.SmallHashValR5C18(s.Params[j], 1), ga.SmallHashValR5C18(s.Params[j+1], 0)
		b[j], b[j+1] = ga.SmallHashValR5C18(s.Params[j], 0), ga.SmallHashValR5C18(s.Params[j+1], 31)
	}
	if r.Bool() {
		a, b = b, a
	}
	return a, b, true
}

func idxList(l []int) string {
	ss := make([]string, len(l))
	for i, x := range l {
		ss[i] = fmt.Sprint(x)
	}
	return "(" + strings.Join(ss, " ") + ")"
}

// genReentrant draws a universe of argument tuples (new ones, Equal variants of earlier ones, a
// pair with a real hash collision where the parameter types allow one), 1..3 rules in rank order
// (rule i+1 calls the key of rule i, so the recursion is i+1 deep; the driver drops what would
// not be well-founded) and an outer history: the deepest key, or an inner tuple first, then a
// flat tail over the whole universe (repeats of inner and outer arguments and of their Equal
// variants).  Returns "U RULES OUTER".
func genReentrant(r *hx.Rand, g *ga.Gen, s *sig, pools [][]*ga.Val, maxOuter int, meta *hx.Meta) string {
	newTuple := func() []*ga.Val {
		t := make([]*ga.Val, len(pools))
		for j, p := range pools {
			t[j] = hx.Pick(r, p).Clone(g.Fresh)
		}
		return t
	}
	var us [][]*ga.Val
	nU := 3 + r.Intn(5)
	for len(us) < nU {
		if len(us) > 0 && r.Intn(10) < 3 {
			us = append(us, equalVariant(r, g, us[r.Intn(len(us))]))
		} else if len(us) > 0 && r.Intn(8) == 0 {
			// another view of the memory of an earlier tuple (one slice re-sliced): not Equal to it
			if t, ok := resliceVariant(r, g, us[r.Intn(len(us))]); ok {
				us = append(us, t)
				meta.CountSafe("reentrant/resliced-view-in-the-universe")
			} else {
				us = append(us, newTuple())
			}
		} else {
			us = append(us, newTuple())
		}
	}
	c0, c1 := -1, -1
	var cand []int
	for j, t := range s.Params {
		if collidingValues(g, t) != nil {
			cand = append(cand, j)
		}
	}
	if len(cand) > 0 && r.Intn(4) != 0 {
		j := hx.Pick(r, cand)
		vs := collidingValues(g, s.Params[j])
		base := newTuple()
		a, b := make([]*ga.Val, len(base)), make([]*ga.Val, len(base))
		for k := range base {
			a[k], b[k] = base[k], base[k].Clone(g.Fresh)
		}
		a[j], b[j] = vs[0], vs[1]
		if r.Bool() {
			a, b = b, a
		}
		c0, c1 = len(us), len(us)+1
		us = append(us, a, b)
		meta.CountSafe("reentrant/real-collision-pair")
	}
	n := len(us)
	perm := make([]int, n)
	for i := range perm {
		perm[i] = i
	}
	hx.Shuffle(r, perm)
	nr := 1 + r.Intn(3)
	if nr > n-1 {
		nr = n - 1
	}
	keys := perm[:nr]
	if c0 >= 0 && r.Intn(3) != 0 { // the colliding pair: outer argument and its inner argument
		keys[0] = c0
		for i := 1; i < nr; i++ {
			if keys[i] == c0 {
				keys[i] = perm[nr]
			}
		}
	}
	var rules []string
	for i, k := range keys {
		var in []int
		if i > 0 && r.Intn(8) != 0 {
			in = append(in, keys[i-1])
		}
		if i == 0 && k == c0 {
			in = append(in, c1)
		}
		for x := r.Intn(3) + 1 - len(in); x > 0; x-- {
			in = append(in, r.Intn(n))
		}
		if len(in) > 1 && r.Bool() {
			hx.Shuffle(r, in)
		}
		rules = append(rules, fmt.Sprintf("(%d %s)", k, idxList(in)))
	}
	var outer []int
	if r.Intn(4) == 0 { // an inner argument first: the inner call is then answered from the table
		outer = append(outer, r.Intn(n))
	}
	outer = append(outer, keys[nr-1])
	for x := r.Intn(maxOuter); x > 0; x-- {
		outer = append(outer, r.Intn(n))
	}
	var b strings.Builder
	b.WriteByte('(')
	for i, t := range us {
		if i > 0 {
			b.WriteByte(' ')
		}
		b.WriteString(tupleSexp(t))
	}
	b.WriteString(") (" + strings.Join(rules, " ") + ") " + idxList(outer))
	return b.String()
}

// corpusReentrant reads corpus/C18/*.re: `PARAMS -> RESULTS | FKIND | U | RULES | OUTER` (the
// signature as in *.sig — it must also be listed there —, the rest literal s-expressions).
func corpusReentrant(dir string, meta *hx.Meta) map[string][]string {
	out := map[string][]string{}
	files, _ := filepath.Glob(filepath.Join(dir, "*.re"))
	sort.Strings(files)
	for _, f := range files {
		b, err := os.ReadFile(f)
		if err != nil {
			continue
		}
		for _, l := range strings.Split(string(b), "\n") {
			l = strings.TrimSpace(l)
			if l == "" || l[0] == '#' {
				continue
			}
			fs := strings.Split(l, "|")
			if len(fs) != 5 {
				meta.Notes = append(meta.Notes, "corpus line not understood: "+l)
				continue
			}
			key := strings.ReplaceAll(fs[0], " ", "")
			out[key] = append(out[key], strings.TrimSpace(fs[1])+" %s "+strings.TrimSpace(fs[2])+" "+strings.TrimSpace(fs[3])+" "+strings.TrimSpace(fs[4]))
		}
	}
	return out
}

// corpusKey spells a signature as the corpus does.
func (s *sig) corpusKey() string {
	var ps, rs []string
	for _, p := range s.Params {
		ps = append(ps, strings.ReplaceAll(p.Go(0), " ", ""))
	}
	for _, r := range s.Results {
		rs = append(rs, strings.ReplaceAll(r.Go(0), " ", ""))
	}
	return strings.Join(ps, ";") + "->" + strings.Join(rs, ";")
}

// ---------- the run ----------

func classify(g hx.RunResult, vetOK bool) string {
	c := ga.ClassifyGoderive(g)
	if c == "ok" && !vetOK {
		return "not-wellformed"
	}
	if c == "add-error" || c == "cannot-generate" {
		return "generator-error"
	}
	return c
}

func Run(cfg hx.Config) (*hx.Meta, error) {
	meta := &hx.Meta{Property: "C18", Seed: cfg.Seed, Tier: cfg.Tier}
	r := hx.NewRand(cfg.Seed)
	cat := ga.NewCatalogue()
	ts := candidates(cat)
	perCell, extra, nhist, maxLen, poolMax, batchSize := 1, 0, 50, 12, 12, 30
	nre, maxOuter := 24, 8
	if cfg.Tier == "thorough" {
		perCell, extra, nhist, maxLen, poolMax, batchSize = 4, 12, 800, 30, 20, 20
		nre, maxOuter = 300, 16
	}
	reCorpus := corpusReentrant(cfg.Corpus, meta)

	// parameter types whose Equal and Hash the generator accepts and that type-check (anything
	// else is the subject of C01/C02/C04/C09, not of C18)
	filter := func(l []*ga.Type) []*ga.Type {
		pr := ga.Probe(cfg.Goderive, filepath.Join(cfg.Work, "probe-types"), l, []ga.Call{ga.CallEq, ga.CallHash}, true)
		var out []*ga.Type
		for i, t := range l {
			meta.GoderiveRuns++
			if pr[i].GenClass == "ok" && pr[i].VetOK {
				out = append(out, t)
			} else {
				meta.Count("parameter-type-not-usable/" + pr[i].GenClass)
				meta.Notes = append(meta.Notes, "Equal/Hash of "+t.Go(0)+" not usable ("+pr[i].GenClass+"): left out of the signatures (see C01/C02/C04/C09)")
			}
		}
		return out
	}
	ts.noncomparable = filter(ts.noncomparable)
	if len(ts.noncomparable) < 4 {
		return nil, fmt.Errorf("C18: fewer than 4 usable non-comparable parameter types")
	}

	// signatures: the corpus first, then every cell (form x 0..3 results), then random ones
	sigs := corpusSigs(cfg.Corpus, ts, meta)
	for _, form := range cellForms {
		for nres := 0; nres <= 3; nres++ {
			for k := 0; k < perCell; k++ {
				sigs = append(sigs, cellSig(r, ts, form, nres))
			}
		}
	}
	for k := 0; k < extra; k++ {
		sigs = append(sigs, cellSig(r, ts, hx.Pick(r, cellForms), r.Intn(4)))
	}
	// round 5: signatures over the inline-element shapes (quick: two drawn by the seed beside the corpus
	// lines; thorough: every shape once alone and once among other parameters)
	usable := map[*ga.Type]bool{}
	for _, t := range ts.noncomparable {
		usable[t] = true
	}
	var inl []*ga.Type
	for _, t := range ts.inline {
		if usable[t] {
			inl = append(inl, t)
		}
	}
	if len(inl) > 0 {
		r5 := r.Fork(0x5c18)
		mk := func(t *ga.Type, alone bool) *sig {
			s := &sig{Params: []*ga.Type{t}}
			if !alone {
				s.Params = []*ga.Type{hx.Pick(r5, ts.comparable), t}
				if r5.Bool() {
					s.Params = []*ga.Type{t, hx.Pick(r5, ts.comparable)}
				}
			}
			for i := r5.Intn(3); i >= 0; i-- {
				s.Results = append(s.Results, hx.Pick(r5, ts.results))
			}
			return s
		}
		if cfg.Tier == "thorough" {
			for _, t := range inl {
				sigs = append(sigs, mk(t, true), mk(t, false))
			}
		} else {
			for k := 0; k < 2; k++ {
				sigs = append(sigs, mk(hx.Pick(r5, inl), k%2 == 0))
			}
		}
	}
	seen := map[string]bool{}
	var uniq []*sig
	for _, s := range sigs {
		if !seen[s.Key()] {
			seen[s.Key()] = true
			uniq = append(uniq, s)
		}
	}
	sigs = uniq

	// probe: one package per signature — does goderive accept it, is the output well-formed
	classes := make([]string, len(sigs))
	outputs := make([]string, len(sigs))
	hx.Parallel(len(sigs), 12, func(i int) {
		p := &pkg{Dir: filepath.Join(cfg.Work, fmt.Sprintf("sig%04d", i)), Sigs: []*sig{sigs[i]}, Idx: []int{i}}
		if err := p.write(); err != nil {
			classes[i] = "harness-error"
			outputs[i] = err.Error()
			return
		}
		g := hx.Goderive(cfg.Goderive, p.Dir, ".")
		if c := ga.ClassifyGoderive(g); c == "other-error" || c == "timeout" {
			g = hx.Goderive(cfg.Goderive, p.Dir, ".") // process start failures under load: once more
		}
		vetOK := false
		if g.Exit == 0 {
			v := hx.GoVet(p.Dir, "", "./...")
			vetOK = v.Exit == 0
			if !vetOK {
				v2 := hx.GoVet(p.Dir, "", "./...") // once more (load)
				vetOK = v2.Exit == 0
				outputs[i] = hx.Truncate(v2.Out, 1500)
			}
		} else {
			outputs[i] = hx.Truncate(g.Out, 1500)
		}
		classes[i] = classify(g, vetOK)
	})
	var gen strings.Builder
	var ok []*sig
	var okIdx []int
	for i, s := range sigs {
		meta.GoderiveRuns++
		meta.Count("signature/" + s.Form() + fmt.Sprintf("/res%d", len(s.Results)) + "/" + classes[i])
		if classes[i] == "harness-error" {
			return nil, fmt.Errorf("C18: %s", outputs[i])
		}
		fmt.Fprintf(&gen, "(gen %s %s)\n", s.Sexp(), classes[i])
		if classes[i] == "ok" {
			ok = append(ok, s)
			okIdx = append(okIdx, i)
		} else {
			meta.Notes = append(meta.Notes, "deriveMem("+s.FuncType()+"): "+classes[i]+": "+hx.Truncate(outputs[i], 300))
		}
	}
	genf := filepath.Join(cfg.Out, "c18-gen.obs")
	if err := os.WriteFile(genf, []byte(gen.String()), 0o644); err != nil {
		return nil, err
	}
	meta.ObsFiles = append(meta.ObsFiles, genf)

	// batches of accepted signatures: one goderive run, one build, all histories
	nb := (len(ok) + batchSize - 1) / batchSize
	obsFiles := make([]string, nb)
	errs := make([]error, nb)
	rs := make([]*hx.Rand, nb)
	for b := range rs {
		rs[b] = r.Fork(uint64(b))
	}
	hx.Parallel(nb, 6, func(b int) {
		lo, hi := b*batchSize, min((b+1)*batchSize, len(ok))
		p := &pkg{Dir: filepath.Join(cfg.Work, fmt.Sprintf("batch%02d", b)), Sigs: ok[lo:hi], Idx: okIdx[lo:hi]}
		if errs[b] = p.write(); errs[b] != nil {
			return
		}
		g := hx.Goderive(cfg.Goderive, p.Dir, ".")
		if g.Exit != 0 {
			meta.AddDirect(hx.Direct{Class: "c18-batch-generate-failed", What: "goderive fails on a batch of signatures that it accepts one by one", Cmd: "goderive .", Output: hx.Truncate(g.Out, 3000)})
			return
		}
		coll, err := p.addDriver()
		if err != nil {
			errs[b] = err
			return
		}
		if bd := hx.GoBuild(p.Dir, filepath.Join(p.Dir, "drv"), "drv"); bd.Exit != 0 {
			meta.AddDirect(hx.Direct{Class: "c18-batch-build-failed", What: "batch of individually well-formed packages does not build", Cmd: "go build -tags drv", Output: hx.Truncate(bd.Out, 3000)})
			return
		}
		rb := rs[b]
		g2 := ga.NewGen(rb, poolMax)
		var cases strings.Builder
		for i, s := range p.Sigs {
			pools := make([][]*ga.Val, len(s.Params))
			rich := make([][]*ga.Val, len(s.Params))
			for j, t := range s.Params {
				pools[j] = g2.Pool(t, map[int]*ga.Type{}, 3)
				if !t.Comparable() {
					// round 5: containers that are non-nil all the way down, same shape and length,
					// differing in one element deep inside (ga's pools lead with nil and empty); kept
					// beside the pool so that nil / empty / zero stay as frequent as they were
					rich[j] = g2.NonNilPoolR5C18(t, 8)
				}
			}
			bucket := strings.HasPrefix(s.Form(), "bucket")
			if bucket && !coll[p.Idx[i]] {
				meta.CountSafe("collision-copy-not-derivable")
				metaNote(meta, "no hash call found in the emitted deriveMem("+s.FuncType()+"): collision variant skipped")
			}
			for k := -1; k < nhist; k++ {
				fkind := "canon"
				var h string
				if k < 0 {
					if len(pools) == 0 {
						continue
					}
					h = sweepHistory(rb, g2, pools, maxLen)
					meta.CountSafe("histories/pool-sweep")
				} else {
					switch x := rb.Intn(10); {
					case x < 2:
						fkind = "panicky"
					case x < 4:
						fkind = "raw"
					}
					h = genHistory(rb, g2, s, pools, rich, maxLen, meta)
				}
				fmt.Fprintf(&cases, "memhist %d %s derived %s\n", p.Idx[i], fkind, h)
				meta.CountSafe("histories/" + s.Form() + "/derived")
				if bucket && coll[p.Idx[i]] {
					fmt.Fprintf(&cases, "memhist %d %s coll %s\n", p.Idx[i], fkind, h)
					meta.CountSafe("histories/" + s.Form() + "/coll")
				}
			}
			// re-entrant histories: f calls the memoised function itself (not for the
			// zero-argument form: there every inner call is Equal to the call in progress)
			if len(s.Params) == 0 {
				continue
			}
			variants := []string{"derived"}
			if bucket && coll[p.Idx[i]] {
				variants = append(variants, "coll")
			}
			for _, c := range reCorpus[s.corpusKey()] {
				for _, v := range variants {
					fmt.Fprintf(&cases, "memre %d "+c+"\n", p.Idx[i], v)
					meta.CountSafe("reentrant/corpus/" + s.Form() + "/" + v)
				}
			}
			for k := 0; k < nre; k++ {
				fkind := "canon"
				if rb.Intn(5) == 0 {
					fkind = "panicky"
				}
				c := genReentrant(rb, g2, s, pools, maxOuter, meta)
				for _, v := range variants {
					fmt.Fprintf(&cases, "memre %d %s %s %s\n", p.Idx[i], fkind, v, c)
					meta.CountSafe("reentrant/" + s.Form() + "/" + v)
				}
			}
		}
		cf := filepath.Join(p.Dir, "cases.txt")
		if errs[b] = os.WriteFile(cf, []byte(cases.String()), 0o644); errs[b] != nil {
			return
		}
		res := hx.Run(p.Dir, 1200e9, 8000000, nil, filepath.Join(p.Dir, "drv"), cf)
		if res.Exit != 0 {
			meta.AddDirect(hx.Direct{Class: "c18-driver-failed", What: "driver crashed", Cmd: "./drv cases.txt", Output: hx.Truncate(res.Out, 3000)})
			return
		}
		obsFiles[b] = filepath.Join(cfg.Out, fmt.Sprintf("c18-batch%02d.obs", b))
		errs[b] = os.WriteFile(obsFiles[b], []byte(res.Stdout), 0o644)
		for _, l := range strings.SplitN(res.Stdout, "\n", 40)[:min(2, strings.Count(res.Stdout, "\n"))] {
			meta.Sample(hx.Truncate(l, 400))
		}
	})
	for b := range obsFiles {
		if errs[b] != nil {
			return nil, errs[b]
		}
		if obsFiles[b] != "" {
			meta.ObsFiles = append(meta.ObsFiles, obsFiles[b])
			meta.GoderiveRuns++
			meta.Packages++
		}
	}
	meta.Count(fmt.Sprintf("signatures=%d accepted=%d", len(sigs), len(ok)))
	return meta, nil
}

func metaNote(meta *hx.Meta, s string) {
	meta.CountSafe("note/" + hx.Truncate(s, 60))
}
