// Package c18: correspondence harness of C18 (stub: replaced when C18 is built).
package c18

import (
	"fmt"

	"verifharness/internal/hx"
)

func Run(cfg hx.Config) (*hx.Meta, error) {
	return nil, fmt.Errorf("C18: harness not built yet")
}
