// Package c05: derived DeepCopy / Clone vs the model of plugin/deepcopy + plugin/clone
// (coq/theories/Copy/Model.v): equal, fully independent copy for every prior destination.
package c05

import (
	_ "embed"
	"fmt"
	"os"
	"path/filepath"
	"strings"
	"sync/atomic"

	"verifharness/internal/ga"
	"verifharness/internal/hx"
)

//go:embed drv_c05.go.txt
var driverSource string

// refKind: "sl", "m" when the type (through a name) is a slice or map, else "".  (The direct form for a
// pointer type *T is the pointer form of T; asking for both in one package is a name conflict.)
func refKind(t *ga.Type) string {
	u := t
	if t.K == ga.KNamed {
		u = t.Elem
	}
	switch u.K {
	case ga.KSlice:
		return "sl"
	case ga.KMap:
		return "m"
	}
	return ""
}

// zeroSize: types without data (struct{}, [0]T, arrays and structs of those): for these the emitted
// statements may never touch a nil argument; the nil cases are not part of the model.
func zeroSize(t *ga.Type) bool {
	switch t.K {
	case ga.KNamed:
		return zeroSize(t.Elem)
	case ga.KArray:
		return t.N == 0 || zeroSize(t.Elem)
	case ga.KStruct:
		for _, f := range t.Fields {
			if !zeroSize(f.T) {
				return false
			}
		}
		return true
	}
	return false
}

// emptyArray: [0]T, [n][0]T, ...: copying such an element executes no statement, so a destination
// slice that is too short is never indexed (outside the property and outside the model).
func emptyArray(t *ga.Type) bool {
	switch t.K {
	case ga.KNamed:
		return emptyArray(t.Elem)
	case ga.KArray:
		return t.N == 0 || emptyArray(t.Elem)
	}
	return false
}

func isRefGo(tgo string) bool {
	return strings.HasPrefix(tgo, "[]") || strings.HasPrefix(tgo, "map[") || tgo == "NSl" || tgo == "NMap"
}

var (
	// deriveDeepCopy(dst, src *T)
	callDCP = ga.Call{Op: "dcp",
		Wrap: func(idx int, tgo string) string {
			return fmt.Sprintf("func dcp_%d(dst, src *%s) { deriveDeepCopyP_%d(dst, src) }\n", idx, tgo, idx)
		},
		WrapFn: func(idx int) string { return fmt.Sprintf("dcp_%d", idx) }}
	// deriveDeepCopy(dst, src T) for T itself a slice or map
	callDCD = ga.Call{Op: "dcd",
		Wrap: func(idx int, tgo string) string {
			if !isRefGo(tgo) {
				return fmt.Sprintf("func dcd_%d() {}\n", idx)
			}
			return fmt.Sprintf("func dcd_%d(dst, src %s) { deriveDeepCopyD_%d(dst, src) }\n", idx, tgo, idx)
		},
		WrapFn: func(idx int) string { return fmt.Sprintf("dcd_%d", idx) }}
	callClone = ga.Simple("clone", "deriveClone", "src %T", "%T", "src")
)

func under(t *ga.Type) *ga.Type {
	if t.K == ga.KNamed {
		return t.Elem
	}
	return t
}

func wrapP(label int, v *ga.Val) *ga.Val { return &ga.Val{K: "p", Loc: label, Elems: []*ga.Val{v}} }

func length(v *ga.Val) int {
	switch v.K {
	case "sl":
		return len(v.Elems)
	case "m":
		return len(v.KVs)
	}
	return 0
}

// extraMapValues: ga's pool of a map type only uses the first two values of the element pool (for a
// slice element: nil and the empty slice, which own no memory).  A map whose values own memory is
// what C05 is about, so the sources of a map type are extended by maps holding the composite
// values of the element pool.
func extraMapValues(t *ga.Type, r *hx.Rand) []*ga.Val {
	env := map[int]*ga.Type{}
	u := t
	if t.K == ga.KNamed {
		env[t.ID] = t
		u = t.Elem
	}
	if u.K != ga.KMap {
		return nil
	}
	g := ga.NewGen(r, 0)
	ev := g.Pool(u.Elem, env, 2)
	kv := g.Pool(u.Key, env, 2)
	if len(ev) < 3 {
		return nil
	}
	a, b := ev[len(ev)-1], ev[2+r.Intn(len(ev)-2)]
	k0, k1 := kv[0], kv[len(kv)-1] // the zero key and a key with every leaf different: never ==
	mk := func(kvs ...*ga.Val) *ga.Val {
		m := &ga.Val{K: "m", Loc: g.Fresh()}
		for i := 0; i+1 < len(kvs); i += 2 {
			m.KVs = append(m.KVs, [2]*ga.Val{kvs[i].Clone(g.Fresh), kvs[i+1].Clone(g.Fresh)})
		}
		return m
	}
	out := []*ga.Val{mk(k0, a), mk(k1, b)}
	if len(kv) > 1 {
		out = append(out, mk(k0, b, k1, a))
	}
	return out
}

// flip builds the prior destination that differs from the source v everywhere: non-nil pointers where
// the source has nil and vice versa, a one-element slice with spare capacity where the source has a
// nil slice, a slice that is one shorter with two spare elements where it has a non-empty one (so
// that growing reuses the spare capacity), a populated map for a nil or non-nil map, other leaves.
func flip(g *ga.Gen, t *ga.Type, env map[int]*ga.Type, v *ga.Val) *ga.Val {
	last := func(t *ga.Type) *ga.Val {
		p := g.Pool(t, env, 1)
		return p[len(p)-1].Clone(g.Fresh)
	}
	switch t.K {
	case ga.KNamed:
		env2 := map[int]*ga.Type{}
		for k, x := range env {
			env2[k] = x
		}
		env2[t.ID] = t
		return flip(g, t.Elem, env2, v)
	case ga.KRef:
		return flip(g, env[t.ID].Elem, env, v)
	case ga.KBasic:
		p := g.Pool(t, env, 1)
		if p[0].Sexp() != v.Sexp() {
			return p[0]
		}
		return p[1]
	case ga.KPtr:
		if v.K == "nilp" {
			return &ga.Val{K: "p", Loc: g.Fresh(), Elems: []*ga.Val{last(t.Elem)}}
		}
		return &ga.Val{K: "nilp"}
	case ga.KSlice:
		out := &ga.Val{K: "sl", Loc: g.Fresh()}
		switch {
		case v.K == "nils":
			out.Elems = []*ga.Val{last(t.Elem)}
			out.Spare = []*ga.Val{last(t.Elem)}
		case len(v.Elems) == 0:
			out.Elems = []*ga.Val{last(t.Elem), last(t.Elem)}
		default:
			for _, e := range v.Elems[:len(v.Elems)-1] {
				out.Elems = append(out.Elems, flip(g, t.Elem, env, e))
			}
			out.Spare = []*ga.Val{last(t.Elem), last(t.Elem)}
		}
		return out
	case ga.KArray:
		out := &ga.Val{K: "a"}
		for _, e := range v.Elems {
			out.Elems = append(out.Elems, flip(g, t.Elem, env, e))
		}
		return out
	case ga.KMap:
		kp := g.Pool(t.Key, env, 1)
		return &ga.Val{K: "m", Loc: g.Fresh(), KVs: [][2]*ga.Val{{kp[len(kp)-1].Clone(g.Fresh), last(t.Elem)}}}
	case ga.KStruct:
		out := &ga.Val{K: "st"}
		for i, f := range t.Fields {
			out.Elems = append(out.Elems, flip(g, f.T, env, v.Elems[i]))
		}
		return out
	}
	panic("flip")
}

// corpus/C05/cases.txt: "<Go spelling of the type>\t<op> <args>" — regression cases (witnesses of
// the mutations the check was tested against); they run whenever the type is part of the run (all
// of them are depth <= 1 shapes, which every tier enumerates).
func loadCorpus(dir string) map[string][]string {
	out := map[string][]string{}
	b, err := os.ReadFile(filepath.Join(dir, "cases.txt"))
	if err != nil {
		return out
	}
	for _, l := range strings.Split(string(b), "\n") {
		if l == "" || l[0] == '#' {
			continue
		}
		f := strings.SplitN(l, "\t", 2)
		if len(f) == 2 {
			out[f[0]] = append(out[f[0]], f[1])
		}
	}
	return out
}

func Run(cfg hx.Config) (*hx.Meta, error) {
	corpus := loadCorpus(cfg.Corpus)
	var corpusRun int64
	perSrc := 8
	if cfg.Tier == "thorough" {
		perSrc = 1 << 30
	}
	vr := &ga.ValueRun{
		Prop: "C05", Calls: []ga.Call{callDCP, callDCD, callClone}, SupObs: "sup-dc", PoolQuick: 10, PoolThorough: 20,
		Extra: map[string]string{"drv_c05.go": driverSource},
		Cases: func(idx int, t *ga.Type, vals []*ga.Val, r *hx.Rand, out *strings.Builder) {
			// labels of the relabelled destinations: disjoint from the pools' labels, below the
			// driver's base for addresses allocated by the call (1e9); one range per type
			lab := 100000000 + idx*100000
			fresh := func() int { lab++; return lab }
			rk := refKind(t)
			for _, c := range corpus[t.Go(0)] {
				f := strings.SplitN(c, " ", 2)
				fmt.Fprintf(out, "%s %d %s\n", f[0], idx, f[1])
				atomic.AddInt64(&corpusRun, 1)
			}
			vals = append(append([]*ga.Val{}, vals...), extraMapValues(t, r)...)
			// prior destinations of one source: the zero value, the source's own shape at other
			// addresses, and other pool values (nil-ness mutations, longer/shorter slices with
			// spare capacity, populated maps are all pool members)
			dsts := func(si int) []*ga.Val {
				var ds []*ga.Val
				ds = append(ds, vals[0], vals[si])
				var others []int
				for j := range vals {
					if j != 0 && j != si {
						others = append(others, j)
					}
				}
				hx.Shuffle(r, others)
				for k, j := range others {
					if k >= perSrc {
						break
					}
					ds = append(ds, vals[j])
				}
				return ds
			}
			fg := ga.NewGen(r, 0)
			for si, s := range vals {
				fmt.Fprintf(out, "clone %d %s\n", idx, s.Sexp())
				// the everywhere-different prior destination, in both directions
				fl := flip(fg, t, map[int]*ga.Type{}, s)
				fmt.Fprintf(out, "dcp %d %s %s\n", idx, wrapP(fresh(), s).Sexp(), wrapP(fresh(), fl.Clone(fresh)).Sexp())
				fmt.Fprintf(out, "dcp %d %s %s\n", idx, wrapP(fresh(), fl).Sexp(), wrapP(fresh(), s.Clone(fresh)).Sexp())
				for _, d := range dsts(si) {
					// pointer form: arbitrary prior contents of *dst
					fmt.Fprintf(out, "dcp %d %s %s\n", idx, wrapP(fresh(), s).Sexp(), wrapP(fresh(), d.Clone(fresh)).Sexp())
				}
				if si < 2 && !zeroSize(t) {
					// nil source / nil destination: every emitted statement dereferences them
					fmt.Fprintf(out, "dcp %d nilp %s\n", idx, wrapP(fresh(), s.Clone(fresh)).Sexp())
					fmt.Fprintf(out, "dcp %d %s nilp\n", idx, wrapP(fresh(), s).Sexp())
				}
				if rk == "" {
					continue
				}
				for _, d := range vals {
					// direct form: the property's destinations are a slice of equal length / an empty
					// map / a non-nil pointer; a band of others runs for the correspondence only
					inProp := false
					switch rk {
					case "sl":
						inProp = (s.K == "nils") == (d.K == "nils") && length(s) == length(d)
					case "m":
						inProp = (s.K == "nilm") == (d.K == "nilm") && length(d) == 0
					}
					if !inProp && rk == "sl" && emptyArray(under(t).Elem) {
						continue
					}
					if inProp || r.Intn(4) == 0 {
						fmt.Fprintf(out, "dcd %d %s %s\n", idx, s.Sexp(), d.Clone(fresh).Sexp())
					}
				}
			}
		},
	}
	meta, err := vr.Run(cfg)
	if meta != nil {
		n := 0
		for _, cs := range corpus {
			n += len(cs)
		}
		meta.Count(fmt.Sprintf("corpus-cases=%d run=%d", n, corpusRun))
	}
	return meta, err
}
