// Package c05: correspondence harness of C05 (stub: replaced when C05 is built).
package c05

import (
	"fmt"

	"verifharness/internal/hx"
)

func Run(cfg hx.Config) (*hx.Meta, error) {
	return nil, fmt.Errorf("C05: harness not built yet")
}
