package c12

// Scratch packages for the battery: calls of many plugins (the type-recursive ones with helpers, the
// list/set ones, the function plumbing), rendered for a given prefix map.  User files import
// nothing, so a goderive run costs a few milliseconds.

import (
	"fmt"
	"go/token"
	"go/types"
	"strings"

	"verifharness/internal/hx"
)

type item struct {
	plugin string
	args   string
	use    string // statement with %s for the call
}

// type declarations: three variants of the struct shapes (all within the supported grammar)
var declVariants = []string{
	`type A struct {
	X int
	Y string
	Z []int
	M map[string]int
	P *B
}

type B struct {
	N int
	S []string
	F float64
}
`,
	`type A struct {
	Id   int64
	Tags []string
	P    *B
	Q    *B
	Arr  [3]int
}

type B struct {
	Name string
	Ok   bool
	W    map[int]string
}
`,
	`type A struct {
	B
	Next *A
	U    uint8
	L    [][]int
}

type B struct {
	N  int
	PS *string
	FS []float64
}
`,
}

const commonDecls = `
type K struct {
	I int
	S string
}

var (
	a1, a2 *A
	b1, b2 *B
	ints   []int
	strs   []string
	bs     []*B
	m      map[string]int
	mk     map[K]*B
	iss    [][]int
	mi     map[int16]bool
	mi2    map[int8]string
	k1     *K
)
func itoa8(i int8) string                   { return "" }

func isPos(i int) bool                      { return i > 0 }
func itoa(i int) string                     { return "" }
func f2(a int, b string) bool               { return a > 0 && b != "" }
func c2(a int) func(b string) bool          { return func(b string) bool { return f2(a, b) } }
func g0() (int, error)                      { return 0, nil }
func g1(i int) (string, error)              { return "", nil }
func h1(i int) string                       { return "" }
func tw(s string) ([]int, error)            { return nil, nil }
`

// names declared or called in the user file (typesMap's reserved set is the set of CALLED user functions)
var userIdents = []string{"A", "B", "K", "a1", "a2", "b1", "b2", "ints", "strs", "bs", "m", "mk", "iss", "mi", "mi2", "k1", "itoa8",
					"isPos", "itoa", "f2", "c2", "g0", "g1", "h1", "tw", "use", "i", "a", "b", "s"}
var calledUserFuncs = []string{"f2"} // c2 calls f2: the only call of a user function in the package

var catalogue = []item{
	{"equal", "a1, a2", "_ = %s"},
	{"equal", "b1, b2", "_ = %s"},
	{"compare", "a1, a2", "_ = %s"},
	{"hash", "a1", "_ = %s"},
	{"deepcopy", "a1, a2", "%s"},
	{"gostring", "a1", "_ = %s"},
	{"clone", "a1", "_ = %s"},
	{"sort", "ints", "_ = %s"},
	{"sort", "strs", "_ = %s"},
	{"sort", "bs", "_ = %s"},
	{"keys", "m", "_ = %s"},
	{"keys", "mk", "_ = %s"},
	{"set", "ints", "_ = %s"},
	{"set", "strs", "_ = %s"},
	{"min", "ints, 0", "_ = %s"},
	{"max", "ints, 0", "_ = %s"},
	{"max", "1, 2", "_ = %s"},
	{"contains", "ints, 1", "_ = %s"},
	{"contains", "bs, b1", "_ = %s"},
	{"unique", "ints", "_ = %s"},
	{"unique", "bs", "_ = %s"},
	{"union", "ints, ints", "_ = %s"},
	{"intersect", "ints, ints", "_ = %s"},
	{"fmap", "itoa, ints", "_ = %s"},
	{"join", "iss", "_ = %s"},
	{"filter", "isPos, ints", "_ = %s"},
	{"takewhile", "isPos, ints", "_ = %s"},
	{"all", "isPos, ints", "_ = %s"},
	{"any", "isPos, ints", "_ = %s"},
	{"flip", "f2", "_ = %s"},
	{"curry", "f2", "_ = %s"},
	{"uncurry", "c2", "_ = %s"},
	{"compose", "g0, g1", "_, _ = %s()"},
	{"tuple", `1, "a"`, "_ = %s"},
	{"mem", "h1", "_ = %s"},
	{"apply", `f2, "x"`, "_ = %s"},
	{"traverse", "tw, strs", "_, _ = %s"},
	// nested derive calls (@plugin( is a call of that plugin, named <its prefix>In<suffix>): the
	// outer call's argument type is only known after a first generation pass
	// (each inner call is the only call of its plugin at its argument type: two names for one type are refused)
	{"sort", "@keys(mi)", "_ = %s"},
	{"fmap", "itoa8, @keys(mi2)", "_ = %s"},
	{"equal", "@clone(k1), k1", "_ = %s"},
}

var suffixPool = []string{"", "A", "Of", "_x", "2", "X1", "s", "ed", "_", "Ptr"}

type call struct {
	item   item
	suffix string
}

type pkgSpec struct {
	variant int
	calls   []call
}

// genPkg picks a seeded subset of the catalogue with distinct (plugin, suffix).
func genPkg(r *hx.Rand, full bool) pkgSpec {
	ps := pkgSpec{variant: r.Intn(len(declVariants))}
	used := map[string]bool{}
	for _, it := range catalogue {
		if !full && r.Intn(100) < 35 {
			continue
		}
		for try := 0; try < 20; try++ {
			sfx := suffixPool[r.Intn(len(suffixPool))]
			if full && try == 0 && !used[it.plugin+"/"] {
				sfx = ""
			}
			// a nested call @q(...) is named <q's prefix>In<suffix>: two outer calls with the same suffix
			// would give ONE name to two calls of q at different argument types, which goderive rightly
			// refuses ("conflicting function names") — the inner names must be distinct as well
			inner := innerKeys(it.args, sfx)
			free := !used[it.plugin+"/"+sfx]
			for _, k := range inner {
				free = free && !used[k]
			}
			if free {
				used[it.plugin+"/"+sfx] = true
				for _, k := range inner {
					used[k] = true
				}
				ps.calls = append(ps.calls, call{it, sfx})
				break
			}
		}
	}
	hx.Shuffle(r, ps.calls)
	return ps
}

// innerKeys lists the (plugin, name suffix) of the nested derive calls in an argument list.
func innerKeys(args, sfx string) []string {
	var ks []string
	for {
		i := strings.Index(args, "@")
		if i < 0 {
			return ks
		}
		j := i + strings.Index(args[i:], "(")
		ks = append(ks, args[i+1:j]+"/In"+sfx)
		args = args[j:]
	}
}

func validIdent(n string) bool {
	// letters are Unicode letters: a prefix may start with a non-ASCII (upper-case) letter
	return n != "_" && token.IsIdentifier(n) && types.Universe.Lookup(n) == nil
}

// render gives the user file for a prefix map, or an error text when this package cannot be
// expressed under it (a call name that is not an identifier, clashes with a user identifier or
// with another call, or whose longest matching prefix belongs to another plugin).
func (ps pkgSpec) render(eff []Plugin) (src string, names []string, why string) {
	prefix := map[string]string{}
	for _, p := range eff {
		prefix[p.Name] = p.Prefix
	}
	user := map[string]bool{}
	for _, u := range userIdents {
		user[u] = true
	}
	// the theorem's hypothesis res_ok: no identifier of the user's package may carry a plugin prefix under
	// this map (a helper minted as prefix / prefix_… could coincide with it — in the default-named package
	// the same happens with a user identifier called deriveEqual_, so this is not about prefixes)
	for _, p := range eff {
		for u := range user {
			if p.Prefix != "" && strings.HasPrefix(u, p.Prefix) {
				return "", nil, "user identifier " + u + " carries the prefix of " + p.Name
			}
		}
	}
	seen := map[string]bool{}
	var b strings.Builder
	b.WriteString("package p\n\n")
	b.WriteString(declVariants[ps.variant])
	b.WriteString(commonDecls)
	b.WriteString("\nfunc use() {\n")
	for _, c := range ps.calls {
		pf, ok := prefix[c.item.plugin]
		if !ok {
			return "", nil, "plugin " + c.item.plugin + " is not in the table"
		}
		n := pf + c.suffix
		if !validIdent(n) || user[n] || seen[n] {
			return "", nil, "call name " + n + " is not usable"
		}
		if got := longest(eff, n); got != c.item.plugin {
			return "", nil, fmt.Sprintf("call name %s of %s is claimed by the longer prefix of %s", n, c.item.plugin, got)
		}
		seen[n] = true
		names = append(names, n)
		args := c.item.args
		for strings.Contains(args, "@") {
			i := strings.Index(args, "@")
			j := i + strings.Index(args[i:], "(")
			inner := args[i+1 : j]
			ipf, ok := prefix[inner]
			if !ok {
				return "", nil, "plugin " + inner + " is not in the table"
			}
			in := ipf + "In" + c.suffix
			if !validIdent(in) || user[in] || (seen[in] && !strings.HasPrefix(in, ipf+"In")) {
				return "", nil, "call name " + in + " is not usable"
			}
			if got := longest(eff, in); got != inner {
				return "", nil, fmt.Sprintf("call name %s of %s is claimed by the longer prefix of %s", in, inner, got)
			}
			if !seen[in] {
				seen[in] = true
				names = append(names, in)
			}
			args = args[:i] + in + args[j:]
		}
		fmt.Fprintf(&b, "\t"+c.item.use+"\n", n+"("+args+")")
	}
	b.WriteString("}\n")
	return b.String(), names, ""
}
