// Package c12: prefix customisation only renames (translated plugin table, in-process sortPlugins
// observations, end-to-end dispatch probes, and the renaming battery).
package c12

import (
	"encoding/json"
	"fmt"
	"go/token"
	"go/types"
	"os"
	"path/filepath"
	"regexp"
	"sort"
	"strings"
	"sync"

	"github.com/awalterschulze/goderive/derive"

	"verifharness/internal/hx"
)

type config struct {
	Global    string      `json:"global"`
	Overrides [][2]string `json:"overrides"`
	Names     []string    `json:"names,omitempty"` // corpus: extra probe names
	Kind      string      `json:"kind,omitempty"`
}

func (c config) flags() []string {
	var fl []string
	if c.Global != "derive" {
		fl = append(fl, "-prefix="+c.Global)
	}
	if len(c.Overrides) > 0 {
		var ps []string
		for _, o := range c.Overrides {
			ps = append(ps, o[0]+"="+o[1])
		}
		fl = append(fl, "-pluginprefix="+strings.Join(ps, ","))
	}
	return fl
}

func (c config) String() string { return strings.Join(c.flags(), " ") }

// effective mirrors main.go (the harness's own statement, used only to render packages and to name
// the plugin of a generated function; the verdicts come from the Coq model).
func effective(t *Table, c config) []Plugin {
	ov := map[string]string{}
	for _, o := range c.Overrides {
		ov[o[0]] = o[1]
	}
	out := make([]Plugin, len(t.Plugins))
	for i, p := range t.Plugins {
		q := p
		q.Prefix = strings.Replace(p.Prefix, "derive", c.Global, 1)
		if o, ok := ov[p.Name]; ok {
			q.Prefix = o
		}
		out[i] = q
	}
	return out
}

// underscoreNested: name starts with two prefixes pa, pb with pb = pa + "_" + x: then pa's helper
// candidates pa_… can coincide with names of pb.
func underscoreNested(eff []Plugin, name string) bool {
	for _, a := range eff {
		for _, b := range eff {
			if a.Name != b.Name && strings.HasPrefix(b.Prefix, a.Prefix+"_") && strings.HasPrefix(name, b.Prefix) {
				return true
			}
		}
	}
	return false
}

func distinct(eff []Plugin) bool {
	seen := map[string]bool{}
	for _, p := range eff {
		if seen[p.Prefix] {
			return false
		}
		seen[p.Prefix] = true
	}
	return true
}

func nested(eff []Plugin) bool {
	for i, a := range eff {
		for j, b := range eff {
			if i != j && strings.HasPrefix(b.Prefix, a.Prefix) {
				return true
			}
		}
	}
	return false
}

// ---------- s-expressions ----------

func sxPlugins(ps []Plugin) string {
	var b strings.Builder
	b.WriteByte('(')
	for i, p := range ps {
		if i > 0 {
			b.WriteByte(' ')
		}
		b.WriteString("(" + hx.Bytes([]byte(p.Name)) + " " + hx.Bytes([]byte(p.Prefix)) + ")")
	}
	b.WriteByte(')')
	return b.String()
}

func sxPairs(ps [][2]string) string {
	var b strings.Builder
	b.WriteByte('(')
	for i, p := range ps {
		if i > 0 {
			b.WriteByte(' ')
		}
		b.WriteString("(" + hx.Bytes([]byte(p[0])) + " " + hx.Bytes([]byte(p[1])) + ")")
	}
	b.WriteByte(')')
	return b.String()
}

func sxStrs(l []string) string {
	var b strings.Builder
	b.WriteByte('(')
	for i, s := range l {
		if i > 0 {
			b.WriteByte(' ')
		}
		b.WriteString(hx.Bytes([]byte(s)))
	}
	b.WriteByte(')')
	return b.String()
}

// ---------- prefix maps ----------

var globals = []string{"derive", "d", "my", "generate", "deriveX", "X_", "derived", "gen_", "D", "", "deriv", "goderive", "go", "type", "derive_", "Derive", "Gen", "Ünit"}
var fresh = []string{"eq", "cmp", "hsh", "srt", "fm", "ky", "st", "mn", "mx", "uq", "ct", "cpy", "zz", "mak", "map", "select", "range", "func", "sameStruct", "orderingOf", "hashCodeOf", "sortedCopyOf", "uniqueValuesOf",
	"Eq", "HashOf", "Sorted", "Éq", "ñ", "Ωmega"}
var exts = []string{"X", "Of", "_", "2", "s", "ed", "Set", "All"}

// genConfig draws a prefix map. minCut is the shortest cut used for nesting overrides.
func genConfig(r *hx.Rand, t *Table, kind string, minCut int) config {
	c := config{Global: "derive", Kind: kind}
	names := make([]string, len(t.Plugins))
	for i, p := range t.Plugins {
		names[i] = p.Name
	}
	switch kind {
	case "global":
		c.Global = globals[1+r.Intn(len(globals)-1)]
		return c
	case "reuse":
		return genReuse(r, t)
	case "mixed":
		if r.Intn(2) == 0 {
			c.Global = globals[r.Intn(len(globals))]
		}
	}
	n := 1 + r.Intn(4)
	if kind == "mixed" {
		n = 1 + r.Intn(8)
	}
	for k := 0; k < n; k++ {
		eff := effective(t, c)
		i := r.Intn(len(eff))
		j := r.Intn(len(eff))
		var v string
		mode := r.Intn(6)
		if kind == "plain" {
			mode = 0
		}
		if kind == "nested" && mode == 0 {
			mode = 1 + r.Intn(4)
		}
		switch mode {
		case 0:
			v = fresh[r.Intn(len(fresh))]
			if r.Intn(3) == 0 {
				v += exts[r.Intn(len(exts))]
			}
		case 1, 2: // a proper prefix of another plugin's prefix
			pj := eff[j].Prefix
			if len(pj) <= minCut {
				v = pj + "X"
			} else {
				v = pj[:minCut+r.Intn(len(pj)-minCut)]
			}
		case 3, 4: // another plugin's prefix is a proper prefix of this one
			v = eff[j].Prefix + exts[r.Intn(len(exts))]
		case 5:
			if r.Intn(2) == 0 {
				v = "derive"
			} else {
				v = c.Global
			}
		}
		// an empty per-plugin prefix is not a prefix map the property ranges over: goderive refuses it
		// (fix bcd8b37); the refusal itself is exercised by runDegenerate
		if v == "" || !validIdent(v+"Z") || strings.ContainsAny(v, ",=") {
			continue
		}
		c.Overrides = append(c.Overrides, [2]string{names[i], v})
	}
	return c
}

// genReuse draws a map whose FINAL prefixes are pairwise different although plugins are given prefixes that
// other plugins have by default: a swap, a longer cycle, a chain (x takes y's default prefix, y moves to a
// fresh one), in either direction of the registration order, and - under a global prefix - an override to
// the literal default prefix (derive...) of a plugin that the global prefix moves away.  Whether a map is
// ambiguous is a question about the final prefixes only.
func genReuse(r *hx.Rand, t *Table) config {
	c := config{Global: "derive", Kind: "reuse"}
	mode := r.Intn(4)
	if mode == 3 {
		c.Global = []string{"gen", "my", "d", "generate", "Derive", "derived"}[r.Intn(6)]
	}
	eff := effective(t, c)
	k := 2 + r.Intn(3)
	if mode == 0 {
		k = 2
	}
	idx := make([]int, len(eff))
	for i := range idx {
		idx[i] = i
	}
	hx.Shuffle(r, idx)
	idx = idx[:k]
	switch mode {
	case 0, 1: // swap / cycle
		for i, x := range idx {
			c.Overrides = append(c.Overrides, [2]string{eff[x].Name, eff[idx[(i+1)%k]].Prefix})
		}
	case 2: // chain: the last one moves to a fresh prefix
		for i, x := range idx {
			v := fresh[r.Intn(len(fresh))] + "Z"
			if i+1 < k {
				v = eff[idx[i+1]].Prefix
			}
			c.Overrides = append(c.Overrides, [2]string{eff[x].Name, v})
		}
	case 3: // the literal default prefix of a plugin that the global prefix has moved
		for i, x := range idx {
			if i+1 < k {
				c.Overrides = append(c.Overrides, [2]string{eff[x].Name, t.Plugins[idx[i+1]].Prefix})
			}
		}
	}
	if r.Intn(2) == 0 { // the order of the pairs in the flag does not matter either
		hx.Shuffle(r, c.Overrides)
	}
	return c
}

// ---------- running goderive ----------

var addErr = regexp.MustCompile(`Add Error: ([A-Za-z0-9_]+):`)

type worker struct {
	dir string
}

func newWorker(cfg hx.Config, name string) (*worker, error) {
	d := filepath.Join(cfg.Work, name)
	if err := hx.Module(d); err != nil {
		return nil, err
	}
	return &worker{dir: d}, nil
}

// run writes a.go, removes any derived.gen.go, runs goderive with the flags; returns the run and the output file.
func (w *worker) run(bin string, src string, flags []string) (hx.RunResult, []byte) {
	os.WriteFile(filepath.Join(w.dir, "a.go"), []byte(src), 0o644)
	os.Remove(filepath.Join(w.dir, "derived.gen.go"))
	res := hx.Goderive(bin, w.dir, append(append([]string{}, flags...), ".")...)
	out, _ := os.ReadFile(filepath.Join(w.dir, "derived.gen.go"))
	return res, out
}

type state struct {
	cfg                 hx.Config
	meta                *hx.Meta
	tbl                 *Table
	mu                  sync.Mutex
	runs                int
	cases               int
	sortL, dispL, mintL []string
}

func (s *state) addLine(dst *[]string, l string) {
	s.mu.Lock()
	*dst = append(*dst, l)
	s.mu.Unlock()
}

func (s *state) direct(class, what string, files map[string]string, cmd, output string) {
	s.meta.AddDirect(hx.Direct{Class: class, What: what, Files: files, Cmd: cmd, Output: hx.Truncate(output, 6000)})
}

// ---------- A. sortPlugins in-process ----------

func (s *state) sortObs(r *hx.Rand, n int) {
	t := s.tbl
	emit := func(ps []Plugin) {
		dps := make([]derive.Plugin, len(ps))
		for i, p := range ps {
			dps[i] = derive.NewPlugin(p.Name, p.Prefix, nil)
		}
		derive.NewPlugins(dps, false, false) // sorts dps in place (sortPlugins)
		idx := map[string]int{}
		for i, p := range ps {
			idx[p.Name] = i
		}
		order := make([]int, len(dps))
		for i, p := range dps {
			order[i] = idx[p.Name()]
		}
		s.addLine(&s.sortL, fmt.Sprintf("(sort %s %s)", sxPlugins(ps), hx.Ints(order)))
		s.meta.CountSafe("sort-observations")
	}
	// the real table, as registered and in seeded permutations, under prefix maps
	for k := 0; k < n; k++ {
		kind := []string{"global", "plain", "nested", "mixed", "reuse"}[k%5]
		c := genConfig(r, t, kind, 1)
		if k == 0 {
			c = config{Global: "derive"}
		}
		eff := effective(t, c)
		if !distinct(eff) {
			s.meta.CountSafe("sort-duplicate-prefix-config-skipped")
			continue
		}
		emit(eff)
		perm := append([]Plugin{}, eff...)
		hx.Shuffle(r, perm)
		emit(perm)
		rev := append([]Plugin{}, eff...)
		sort.Slice(rev, func(i, j int) bool { return rev[i].Prefix < rev[j].Prefix })
		emit(rev)
	}
	// small synthetic lists with heavy nesting and equal lengths (ties decided by byte order)
	alpha := []string{"a", "b", "ab", "ba", "abc", "abd", "b_", "", "aB", "aa", "derive", "deriveS", "deriveSet", "deriveSort", "deriveSorted"}
	for k := 0; k < n*2; k++ {
		m := 1 + r.Intn(8)
		seen := map[string]bool{}
		var ps []Plugin
		for len(ps) < m {
			p := alpha[r.Intn(len(alpha))]
			if r.Intn(3) == 0 {
				p += alpha[r.Intn(len(alpha))]
			}
			if seen[p] {
				continue
			}
			seen[p] = true
			ps = append(ps, Plugin{Name: fmt.Sprintf("p%d", len(ps)), Prefix: p})
		}
		emit(ps)
	}
}

// ---------- B. dispatch probes through the binary ----------

func probeNames(r *hx.Rand, eff []Plugin, n int) []string {
	var out []string
	sfx := []string{"", "X", "_1", "Ints", "s", "ed", "Of", "0"}
	for k := 0; k < n; k++ {
		p := eff[r.Intn(len(eff))].Prefix
		q := eff[r.Intn(len(eff))].Prefix
		var name string
		switch r.Intn(6) {
		case 0, 1:
			name = p + sfx[r.Intn(len(sfx))]
		case 2:
			if len(p) > 1 {
				name = p[:len(p)-1-r.Intn(min(3, len(p)-1))]
			}
		case 3:
			name = p + q
		case 4:
			if len(q) > 0 {
				name = p + q[len(q)/2:]
			}
		case 5:
			name = []string{"foo", "deriv", "Derive", "xderiveEqual", "derive", "deriveZz", "d"}[r.Intn(7)]
		}
		if validIdent(name) && name != "zzProbe" {
			out = append(out, name)
		}
	}
	return out
}

func (s *state) probe(w *worker, bin string, table []Plugin, c config, name string) {
	src := "package p\n\nfunc zzProbe() {\n\t" + name + "()\n}\n"
	res, out := w.run(bin, src, c.flags())
	s.mu.Lock()
	s.runs++
	s.mu.Unlock()
	real := -2
	if m := addErr.FindStringSubmatch(res.Out); m != nil {
		for i, p := range table {
			if p.Name == m[1] {
				real = i
			}
		}
	} else if res.Exit == 0 && len(out) == 0 && !res.TimedOut {
		real = -1
	}
	if real == -2 {
		s.direct("probe-unexpected", "a call "+name+"() under ["+c.String()+"] neither produced an Add Error naming a registered plugin nor was ignored",
			map[string]string{"a.go": src}, "goderive "+c.String()+" .", res.Out)
		return
	}
	s.addLine(&s.dispL, fmt.Sprintf("(dispatch %s %s %s %s %d)", sxPlugins(table), hx.Bytes([]byte(c.Global)), sxPairs(c.Overrides), hx.Bytes([]byte(name)), real))
}

// ---------- C. the renaming battery ----------

type battery struct {
	spec   pkgSpec
	defSrc string
	defOut []byte
	defCan *output
	defOK  bool
}

func (s *state) vet(dir string) (bool, string) {
	res := hx.GoVet(dir, "")
	return res.Exit == 0, res.Out
}

func (s *state) mintObs(o *output, eff []Plugin, userNames []string) {
	user := map[string]bool{}
	for _, n := range userNames {
		user[n] = true
	}
	prefix := map[string]string{}
	for _, p := range eff {
		prefix[p.Name] = p.Prefix
	}
	for _, g := range o.Funcs {
		if user[g.Name] || g.Plugin == "" {
			continue
		}
		var taken []string
		for _, h := range o.Funcs {
			// every other function of the file: the plugin's own table decides on the pinned tree (other
			// plugins' names never coincide with a candidate unless the output is already broken); with
			// package-wide name reservation the other plugins' names count too
			if h.Name != g.Name {
				taken = append(taken, h.Name)
			}
		}
		taken = append(taken, calledUserFuncs...)
		// a candidate that is a keyword or a predeclared identifier is never handed out (fix b3e2f24): for the
		// model of newName it is one more name that is taken
		if pf := prefix[g.Plugin]; token.IsKeyword(pf) || types.Universe.Lookup(pf) != nil {
			taken = append(taken, pf)
		}
		s.addLine(&s.mintL, fmt.Sprintf("(mint %s %s %s %s)", hx.Bytes([]byte(prefix[g.Plugin])), hx.Bytes([]byte(g.TyName)), sxStrs(taken), hx.Bytes([]byte(g.Name))))
	}
}

func (s *state) runBattery(w *worker, bin string, b *battery, c config, label string) {
	t := s.tbl
	eff := effective(t, c)
	src, names, why := b.spec.render(eff)
	if why != "" {
		s.meta.CountSafe("battery-skipped: package not expressible under the map")
		return
	}
	res, out := w.run(bin, src, c.flags())
	s.mu.Lock()
	s.runs++
	s.cases++
	s.mu.Unlock()
	files := map[string]string{"a.go": src, "default/a.go": b.defSrc, "default/derived.gen.go": string(b.defOut), "derived.gen.go": string(out)}
	cmd := "goderive " + c.String() + " ."
	s.meta.CountSafe("battery/" + label)
	if res.Exit != 0 || res.TimedOut || len(out) == 0 {
		s.direct("renamed-run-fails", "goderive succeeds on the default-named package but not on the renamed one under ["+c.String()+"]", files, cmd, res.Out)
		return
	}
	o, err := parseOutput(out, eff, nil)
	if err != nil {
		s.direct("renamed-run-unparsable", "derived.gen.go of the renamed run does not parse under ["+c.String()+"]", files, cmd, err.Error())
		return
	}
	o = s.attributeHelpers(o, out, eff, names, b.defCan)
	// one name, two functions: a helper minted by one plugin (prefix_...) collides with a name of a plugin
	// whose prefix extends that prefix by "_..."
	seenFn := map[string]bool{}
	for _, g := range o.Funcs {
		if seenFn[g.Name] {
			class := "duplicate-function"
			if underscoreNested(eff, g.Name) {
				class = "helper-name-claimed-by-other-plugin"
			}
			s.direct(class, "function "+g.Name+" is generated twice (redeclared) under ["+c.String()+"]; the default-named package is fine", files, cmd,
				"func "+g.Name+" redeclared in derived.gen.go")
			return
		}
		seenFn[g.Name] = true
	}
	// every call site has its function
	for _, n := range names {
		if o.ByName[n] == nil {
			s.direct("call-without-function", "no function "+n+" was generated under ["+c.String()+"]", files, cmd, "")
			return
		}
	}
	if d := diffCanon(b.defCan, o); d != "" {
		s.direct("renamed-run-differs", "generated functions differ from the default run beyond renaming under ["+c.String()+"]", files, cmd, d)
		return
	}
	if len(c.Overrides) == 0 {
		want := mapGlobal(string(b.defOut), c.Global)
		if want != string(out) {
			s.direct("global-prefix-not-textual", "derived.gen.go under -prefix="+c.Global+" is not the default output with derive… renamed", files, cmd, firstDiff(want, string(out)))
			return
		}
		s.meta.CountSafe("battery/textual-identity-checked")
	}
	if ok, vo := s.vet(w.dir); !ok && b.defOK {
		s.direct("renamed-run-vet", "go vet passes on the default run but fails on the renamed run under ["+c.String()+"]", files, cmd, vo)
		return
	}
	s.mintObs(o, eff, names)
	s.meta.Sample(fmt.Sprintf("%s: %d calls, %d functions, [%s] -> same classes and bodies as the default run", label, len(names), len(o.Funcs), c.String()))
}

// attributeHelpers: helpers (functions no call site names) carry the prefix of the plugin that minted them,
// which under nesting need not be the longest matching prefix: attribute them to a matching plugin that has
// this signature in the default run.
func (s *state) attributeHelpers(o *output, out []byte, eff []Plugin, names []string, defCan *output) *output {
	if !nested(eff) {
		return o
	}
	userName := map[string]bool{}
	for _, n := range names {
		userName[n] = true
	}
	defKeys := map[string]bool{}
	for _, g := range defCan.Funcs {
		defKeys[g.Key] = true
	}
	attrib := map[string]string{}
	for _, g := range o.Funcs {
		if userName[g.Name] || defKeys[g.Key] {
			continue
		}
		for _, cand := range candidates(eff, g.Name) {
			if defKeys[cand+sigOf(g.Key)] {
				attrib[g.Name] = cand
				break
			}
		}
	}
	if len(attrib) > 0 {
		if o2, err := parseOutput(out, eff, attrib); err == nil {
			s.meta.CountSafe("battery/helper-attributed-to-shorter-prefix")
			return o2
		}
	}
	return o
}

func firstDiff(a, b string) string {
	al, bl := strings.Split(a, "\n"), strings.Split(b, "\n")
	for i := 0; i < len(al) && i < len(bl); i++ {
		if al[i] != bl[i] {
			return fmt.Sprintf("line %d:\n want %s\n got  %s", i+1, al[i], bl[i])
		}
	}
	return fmt.Sprintf("length differs: %d vs %d lines", len(al), len(bl))
}

func (s *state) prepare(w *worker, bin string, spec pkgSpec) (*battery, bool) {
	t := s.tbl
	c := config{Global: "derive"}
	eff := effective(t, c)
	src, names, why := spec.render(eff)
	if why != "" {
		s.meta.Notes = append(s.meta.Notes, "package not expressible under the default table: "+why)
		return nil, false
	}
	res, out := w.run(bin, src, nil)
	s.runs++
	if res.Exit != 0 || len(out) == 0 {
		s.direct("default-run-fails", "goderive fails on a battery package under the default prefixes", map[string]string{"a.go": src}, "goderive .", res.Out)
		return nil, false
	}
	o, err := parseOutput(out, eff, nil)
	if err != nil {
		s.direct("default-run-unparsable", "default derived.gen.go does not parse", map[string]string{"a.go": src, "derived.gen.go": string(out)}, "goderive .", err.Error())
		return nil, false
	}
	ok, vo := s.vet(w.dir)
	if !ok {
		s.direct("default-run-vet", "go vet fails on a battery package under the default prefixes", map[string]string{"a.go": src, "derived.gen.go": string(out)}, "goderive . && go vet .", vo)
	}
	s.mintObs(o, eff, names)
	s.meta.CountSafe("battery/default")
	return &battery{spec: spec, defSrc: src, defOut: out, defCan: o, defOK: ok}, true
}

// ---------- D. a goderive whose plugins are registered in another order ----------

var listRe = regexp.MustCompile(`(?s)(\[\]derive\.Plugin\{\n)(.*?)(\n\t\})`)

func (s *state) buildPermuted(r *hx.Rand, k int) (string, []Plugin, error) {
	src, err := os.ReadFile(filepath.Join(s.cfg.Repo, "main.go"))
	if err != nil {
		return "", nil, err
	}
	m := listRe.FindSubmatchIndex(src)
	if m == nil {
		return "", nil, fmt.Errorf("registration list not found textually in main.go")
	}
	lines := strings.Split(string(src[m[4]:m[5]]), "\n")
	if len(lines) != len(s.tbl.Plugins) {
		return "", nil, fmt.Errorf("registration list has %d lines for %d plugins", len(lines), len(s.tbl.Plugins))
	}
	perm := make([]int, len(lines))
	for i := range perm {
		perm[i] = i
	}
	if k == 0 { // the reverse order first, then seeded shuffles
		for i := range perm {
			perm[i] = len(lines) - 1 - i
		}
	} else {
		hx.Shuffle(r, perm)
	}
	nl := make([]string, len(lines))
	tbl := make([]Plugin, len(lines))
	for i, j := range perm {
		nl[i] = lines[j]
		tbl[i] = s.tbl.Plugins[j]
	}
	out := string(src[:m[4]]) + strings.Join(nl, "\n") + string(src[m[5]:])
	dir := filepath.Join(s.cfg.Work, fmt.Sprintf("perm%d", k))
	os.MkdirAll(dir, 0o755)
	sum, _ := os.ReadFile(filepath.Join(s.cfg.Repo, "go.sum"))
	mod, err := modulePath(s.cfg.Repo)
	if err != nil {
		return "", nil, err
	}
	gomod := fmt.Sprintf("module permuted\n\ngo 1.24\n\nrequire %s v0.0.0\n\nreplace %s => %s\n", mod, mod, s.cfg.Repo)
	hx.WriteFiles(dir, map[string]string{"main.go": out, "go.mod": gomod, "go.sum": string(sum)})
	bin := filepath.Join(dir, "goderive-permuted")
	res := hx.GoBuild(dir, bin, "")
	if res.Exit != 0 {
		return "", nil, fmt.Errorf("building goderive with a permuted registration list failed:\n%s", res.Out)
	}
	return bin, tbl, nil
}

// ---------- Run ----------

func Run(cfg hx.Config) (*hx.Meta, error) {
	meta := &hx.Meta{Property: "C12", Seed: cfg.Seed, Tier: cfg.Tier}
	if abs, err := filepath.Abs(cfg.Work); err == nil {
		cfg.Work = abs
	}
	if abs, err := filepath.Abs(cfg.Out); err == nil {
		cfg.Out = abs
	}
	r := hx.NewRand(cfg.Seed)
	tbl, err := ReadTable(cfg.Repo)
	if err != nil {
		return nil, fmt.Errorf("translator: %v", err)
	}
	if err := os.WriteFile(filepath.Join(cfg.Out, "TableGen.v"), []byte(tbl.CoqTerm()), 0o644); err != nil {
		return nil, err
	}
	tj, _ := json.MarshalIndent(tbl, "", " ")
	os.WriteFile(filepath.Join(cfg.Out, "table.json"), tj, 0o644)
	s := &state{cfg: cfg, meta: meta, tbl: tbl}
	thorough := cfg.Tier == "thorough"

	nSort, nCfg, nNames, nPkg, nBatCfg, nPerm := 24, 40, 12, 4, 14, 1
	if thorough {
		nSort, nCfg, nNames, nPkg, nBatCfg, nPerm = 200, 300, 24, 30, 40, 3
	}

	// A
	s.sortObs(r.Fork(1), nSort)

	// corpus + generated prefix maps
	var corpus []config
	if ents, err := os.ReadDir(cfg.Corpus); err == nil {
		for _, e := range ents {
			if !strings.HasSuffix(e.Name(), ".json") {
				continue
			}
			b, err := os.ReadFile(filepath.Join(cfg.Corpus, e.Name()))
			if err != nil {
				continue
			}
			var cs []config
			if json.Unmarshal(b, &cs) == nil {
				for i := range cs {
					cs[i].Kind = "corpus"
				}
				corpus = append(corpus, cs...)
			}
		}
	}
	meta.Distribution = map[string]int{"corpus-prefix-maps": len(corpus)}

	const W = 8
	workers := make([]*worker, W)
	for i := range workers {
		w, err := newWorker(cfg, fmt.Sprintf("w%d", i))
		if err != nil {
			return nil, err
		}
		workers[i] = w
	}

	// B: probes
	type job struct {
		bin   string
		table []Plugin
		c     config
		name  string
	}
	var jobs []job
	rb := r.Fork(2)
	kinds := []string{"global", "plain", "nested", "nested", "mixed", "reuse"}
	var cfgs []config
	cfgs = append(cfgs, config{Global: "derive", Kind: "default"})
	cfgs = append(cfgs, corpus...)
	for k := 0; k < nCfg; k++ {
		cfgs = append(cfgs, genConfig(rb, tbl, kinds[k%len(kinds)], 1))
	}
	for _, c := range cfgs {
		eff := effective(tbl, c)
		if !distinct(eff) {
			meta.Count("probe-map-with-duplicate-prefix-skipped")
			continue
		}
		meta.Count("probe-map/" + c.Kind)
		if nested(eff) {
			meta.Count("probe-map-nested")
		}
		names := append(probeNames(rb, eff, nNames), c.Names...)
		if c.Kind == "default" {
			for _, p := range eff { // every plugin answers to its default prefix (cross-check of the translated table)
				names = append(names, p.Prefix, p.Prefix+"X")
			}
		}
		for _, n := range names {
			if !validIdent(n) {
				continue // a prefix that is a keyword (go, map, ...) is not a call name by itself
			}
			jobs = append(jobs, job{cfg.Goderive, tbl.Plugins, c, n})
		}
	}
	// D: permuted registration
	type permBin struct {
		bin string
		tbl []Plugin
	}
	var perms []permBin
	rp := r.Fork(3)
	for k := 0; k < nPerm; k++ {
		bin, ptbl, err := s.buildPermuted(rp, k)
		if err != nil {
			return nil, err
		}
		perms = append(perms, permBin{bin, ptbl})
		for ci, c := range cfgs {
			if ci%3 != k%3 && !thorough {
				continue
			}
			eff := effective(tbl, c)
			if !distinct(eff) {
				continue
			}
			for _, n := range probeNames(rp, eff, nNames/2) {
				jobs = append(jobs, job{bin, ptbl, c, n})
				meta.Count("probe-permuted-registration")
			}
		}
	}
	// one directory per worker: run jobs in W stripes
	var wg sync.WaitGroup
	for wi := 0; wi < W; wi++ {
		wg.Add(1)
		go func(wi int) {
			defer wg.Done()
			for i := wi; i < len(jobs); i += W {
				j := jobs[i]
				s.probe(workers[wi], j.bin, j.table, j.c, j.name)
			}
		}(wi)
	}
	wg.Wait()
	meta.Distribution["dispatch-probes"] = len(jobs)

	// B2: argument probes (the longest match refuses, a shorter match would accept)
	{
		bins := []argBin{{cfg.Goderive, tbl.Plugins}, {cfg.Goderive, tbl.Plugins}}
		for _, p := range perms {
			bins = append(bins, argBin{p.bin, p.tbl})
		}
		nB := 5
		if thorough {
			nB = len(tbl.Plugins)
		}
		ajobs := s.argJobs(r.Fork(5), cfgs, bins, nB)
		cache := &argCache{m: map[string]*argOutcome{}}
		for wi := 0; wi < W; wi++ {
			wg.Add(1)
			go func(wi int) {
				defer wg.Done()
				for i := wi; i < len(ajobs); i += W {
					s.argProbe(workers[wi], cache, ajobs[i])
				}
			}(wi)
		}
		wg.Wait()
		meta.Distribution["argument-probes"] = len(ajobs)
	}

	// C: battery
	rc := r.Fork(4)
	var bats []*battery
	for k := 0; k < nPkg; k++ {
		spec := genPkg(rc, k < len(declVariants))
		if k < len(declVariants) {
			spec.variant = k
		}
		if b, ok := s.prepare(workers[0], cfg.Goderive, spec); ok {
			bats = append(bats, b)
		}
	}
	type bjob struct {
		b     *battery
		c     config
		bin   string
		label string
	}
	var bjobs []bjob
	fixedGlobals := []string{"d", "generate", "deriveX", "my", "", "go", "derived", "Derive", "Ünit"}
	for bi, b := range bats {
		for gi, g := range fixedGlobals {
			if !thorough && (gi+bi)%2 == 1 && bi > 0 {
				continue
			}
			bjobs = append(bjobs, bjob{b, config{Global: g}, cfg.Goderive, "global"})
		}
		for _, c := range corpus {
			bjobs = append(bjobs, bjob{b, c, cfg.Goderive, "corpus"})
		}
		for k := 0; k < nBatCfg; k++ {
			kind := []string{"plain", "nested", "reuse", "nested", "mixed", "global", "reuse"}[k%7]
			c := genConfig(rc, tbl, kind, 3)
			if !distinct(effective(tbl, c)) {
				continue
			}
			bjobs = append(bjobs, bjob{b, c, cfg.Goderive, kind})
		}
		for pi, p := range perms {
			bjobs = append(bjobs, bjob{b, config{Global: "derive"}, p.bin, fmt.Sprintf("permuted-registration-%d", pi)})
			c := genConfig(rc, tbl, "nested", 3)
			if distinct(effective(tbl, c)) {
				bjobs = append(bjobs, bjob{b, c, p.bin, fmt.Sprintf("permuted-registration-%d/nested", pi)})
			}
		}
	}
	// adjacent prefixes: plugin p is called under its bare prefix Q, so its first helper is Q_, which is
	// also the bare helper name of a plugin q whose prefix is Q_ (all of q's calls carry a suffix)
	recursive := []string{"equal", "compare", "hash", "deepcopy", "gostring", "clone"}
	for pi, p := range recursive {
		spec := pkgSpec{variant: pi % len(declVariants)}
		for _, it := range catalogue {
			if it.args == "a1, a2" || it.args == "a1" {
				sfx := "A"
				if it.plugin == p {
					sfx = ""
				}
				spec.calls = append(spec.calls, call{it, sfx})
			}
		}
		b, ok := s.prepare(workers[0], cfg.Goderive, spec)
		if !ok {
			continue
		}
		bats = append(bats, b)
		for qi, q := range recursive {
			if q == p || (!thorough && (pi+qi)%2 == 0) {
				continue
			}
			bjobs = append(bjobs, bjob{b, config{Global: "derive", Overrides: [][2]string{{p, "zq"}, {q, "zq_"}}}, cfg.Goderive, "adjacent"})
		}
	}
	for wi := 0; wi < W; wi++ {
		wg.Add(1)
		go func(wi int) {
			defer wg.Done()
			for i := wi; i < len(bjobs); i += W {
				j := bjobs[i]
				s.runBattery(workers[wi], j.bin, j.b, j.c, j.label)
			}
		}(wi)
	}
	wg.Wait()

	s.runMulti()
	s.runDegenerate()

	write := func(name string, lines []string) {
		if len(lines) == 0 {
			return
		}
		sort.Strings(lines)
		p := filepath.Join(cfg.Out, name)
		os.WriteFile(p, []byte(strings.Join(lines, "\n")+"\n"), 0o644)
		meta.ObsFiles = append(meta.ObsFiles, p)
	}
	write("sort.obs", s.sortL)
	write("dispatch.obs", s.dispL)
	write("mint.obs", s.mintL)
	meta.Packages = len(bats)
	meta.GoderiveRuns = s.runs
	meta.Cases = s.cases
	extra, _ := json.Marshal(map[string]int{"direct_cases": s.cases})
	os.WriteFile(filepath.Join(cfg.Out, "c12-extra.json"), extra, 0o644)
	return meta, nil
}
