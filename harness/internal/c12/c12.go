// Package c12: correspondence harness of C12 (stub: replaced when C12 is built).
package c12

import (
	"fmt"

	"verifharness/internal/hx"
)

func Run(cfg hx.Config) (*hx.Meta, error) {
	return nil, fmt.Errorf("C12: harness not built yet")
}
