package c12

import (
	"bytes"
	"fmt"
	"os"
	"path/filepath"
	"strings"

	"verifharness/internal/hx"
)

// Several packages in one invocation under a customised prefix: the flags apply to every package alike.
// For every package of the module, `goderive FLAGS ./...` (and the packages listed in both orders) must leave
// the bytes that `goderive FLAGS .` leaves in that package alone.
func (s *state) runMulti() {
	type mcase struct {
		flags  []string
		eq, so string // names of the equal and the sort call under these flags
	}
	cases := []mcase{
		{[]string{"-prefix=derived"}, "derivedEqual", "derivedSort"},
		{[]string{"-prefix=goderive"}, "goderiveEqual", "goderiveSort"},
		{[]string{"-prefix=derive_"}, "derive_Equal", "derive_Sort"},
		{[]string{"-prefix=gen"}, "genEqual", "genSort"},
		{[]string{"-pluginprefix=equal=deriveEq,sort=sortderive"}, "deriveEq", "sortderive"},
		{[]string{"-prefix=my", "-pluginprefix=equal=derivederive"}, "derivederive", "mySort"},
	}
	pkgs := []string{"a", "b", "c"}
	src := func(pk string, c mcase) string {
		return fmt.Sprintf("package %s\n\ntype T struct {\n\tA []int\n\tB *T\n}\n\nfunc f(x, y *T, l []string) bool {\n\treturn %s(x, y) && len(%sX(l)) > 0\n}\n", pk, c.eq, c.so)
	}
	for ci, c := range cases {
		root := filepath.Join(s.cfg.Work, fmt.Sprintf("multi%d", ci), "m")
		files := map[string]string{"go.mod": "module m\n\ngo 1.24\n"}
		for _, pk := range pkgs {
			files[pk+"/"+pk+".go"] = src(pk, c)
		}
		os.RemoveAll(root)
		if err := hx.WriteFiles(root, files); err != nil {
			continue
		}
		read := func() map[string][]byte {
			out := map[string][]byte{}
			for _, pk := range pkgs {
				b, err := os.ReadFile(filepath.Join(root, pk, "derived.gen.go"))
				if err == nil {
					out[pk] = b
				}
				os.Remove(filepath.Join(root, pk, "derived.gen.go"))
			}
			return out
		}
		// reference: every package alone
		ref := map[string][]byte{}
		failed := false
		for _, pk := range pkgs {
			g := hx.Goderive(s.cfg.Goderive, filepath.Join(root, pk), append(append([]string{}, c.flags...), ".")...)
			s.mu.Lock()
			s.runs++
			s.mu.Unlock()
			if g.Exit != 0 {
				s.direct("c12-multi-single-fails", fmt.Sprintf("goderive %s . fails on a package that only uses the customised names", strings.Join(c.flags, " ")), files, "cd "+pk+" && goderive "+strings.Join(c.flags, " ")+" .", g.Out)
				failed = true
			}
		}
		if failed {
			continue
		}
		ref = read()
		for _, args := range [][]string{{"./..."}, {"./a", "./b", "./c"}, {"./c", "./b", "./a"}, {"m/b", "m/a", "m/c"}} {
			g := hx.Goderive(s.cfg.Goderive, root, append(append([]string{}, c.flags...), args...)...)
			s.mu.Lock()
			s.runs++
			s.cases++
			s.mu.Unlock()
			got := read()
			cmd := "goderive " + strings.Join(append(append([]string{}, c.flags...), args...), " ")
			if g.Exit != 0 {
				s.direct("c12-multi-fails", "goderive fails on several packages that it accepts one by one under the same flags", files, cmd, g.Out)
				continue
			}
			for _, pk := range pkgs {
				if !bytes.Equal(got[pk], ref[pk]) {
					fs := map[string]string{}
					for k, v := range files {
						fs[k] = v
					}
					fs[pk+"/derived.gen.go (package alone)"] = string(ref[pk])
					fs[pk+"/derived.gen.go (this invocation)"] = string(got[pk])
					s.direct("c12-multi-differs", fmt.Sprintf("package %s: the customised prefixes are not applied alike to every package of one invocation (derived.gen.go differs from the one-package run)", pk), fs, cmd, g.Out)
					break
				}
			}
		}
		s.meta.CountSafe("multi-package-invocations")
	}
}
