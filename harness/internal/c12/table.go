package c12

// (T) translator: the plugin table (name, default prefix, registration order) and the constants of
// the -prefix substitution are read from the repository under test with go/parser and written as a
// Coq term.  lib/checks/c12.py compiles that term against the development and re-establishes the
// side conditions of the theorems by vm_compute.

import (
	"fmt"
	"go/ast"
	"go/parser"
	"go/token"
	"os"
	"path/filepath"
	"strconv"
	"strings"
)

type Plugin struct {
	Name   string `json:"name"`
	Prefix string `json:"prefix"`
	Pkg    string `json:"pkg"` // import path
}

type Table struct {
	Plugins       []Plugin `json:"plugins"`        // in registration order
	ReplaceOld    string   `json:"replace_old"`    // strings.Replace(pluginprefix, OLD, *prefix, N)
	ReplaceN      int      `json:"replace_n"`      //
	PrefixDefault string   `json:"prefix_default"` // flag.String("prefix", DEFAULT, ...)
}

func unq(e ast.Expr) (string, bool) {
	bl, ok := e.(*ast.BasicLit)
	if !ok || bl.Kind != token.STRING {
		return "", false
	}
	s, err := strconv.Unquote(bl.Value)
	return s, err == nil
}

func isSel(e ast.Expr, x, sel string) bool {
	se, ok := e.(*ast.SelectorExpr)
	if !ok || se.Sel.Name != sel {
		return false
	}
	id, ok := se.X.(*ast.Ident)
	return ok && (x == "" || id.Name == x)
}

// ReadTable parses <repo>/main.go and the plugin packages it registers.
func ReadTable(repo string) (*Table, error) {
	fset := token.NewFileSet()
	mainFile, err := parser.ParseFile(fset, filepath.Join(repo, "main.go"), nil, 0)
	if err != nil {
		return nil, err
	}
	imports := map[string]string{} // local name -> path
	for _, im := range mainFile.Imports {
		p, _ := strconv.Unquote(im.Path.Value)
		name := p[strings.LastIndex(p, "/")+1:]
		if im.Name != nil {
			name = im.Name.Name
		}
		imports[name] = p
	}
	modPath, err := modulePath(repo)
	if err != nil {
		return nil, err
	}
	t := &Table{ReplaceN: -2}
	var perr error
	ast.Inspect(mainFile, func(n ast.Node) bool {
		switch x := n.(type) {
		case *ast.CompositeLit:
			at, ok := x.Type.(*ast.ArrayType)
			if !ok || !isSel(at.Elt, "derive", "Plugin") {
				return true
			}
			for _, el := range x.Elts {
				call, ok := el.(*ast.CallExpr)
				if !ok || !isSel(call.Fun, "", "NewPlugin") {
					perr = fmt.Errorf("main.go: plugin list element is not X.NewPlugin(): %T", el)
					return false
				}
				pkgName := call.Fun.(*ast.SelectorExpr).X.(*ast.Ident).Name
				path, ok := imports[pkgName]
				if !ok {
					perr = fmt.Errorf("main.go: no import for %s", pkgName)
					return false
				}
				if !strings.HasPrefix(path, modPath+"/") {
					perr = fmt.Errorf("main.go: plugin package %s is outside module %s", path, modPath)
					return false
				}
				name, prefix, err := readPlugin(filepath.Join(repo, strings.TrimPrefix(path, modPath+"/")))
				if err != nil {
					perr = err
					return false
				}
				t.Plugins = append(t.Plugins, Plugin{Name: name, Prefix: prefix, Pkg: path})
			}
			return false
		case *ast.CallExpr:
			if isSel(x.Fun, "strings", "Replace") && len(x.Args) == 4 {
				if old, ok := unq(x.Args[1]); ok {
					t.ReplaceOld = old
					if bl, ok := x.Args[3].(*ast.BasicLit); ok {
						t.ReplaceN, _ = strconv.Atoi(bl.Value)
					}
				}
			}
			if isSel(x.Fun, "flag", "String") && len(x.Args) == 3 {
				if nm, ok := unq(x.Args[0]); ok && nm == "prefix" {
					if d, ok := unq(x.Args[1]); ok {
						t.PrefixDefault = d
					}
				}
			}
		}
		return true
	})
	if perr != nil {
		return nil, perr
	}
	if len(t.Plugins) == 0 {
		return nil, fmt.Errorf("main.go: no []derive.Plugin{...} registration list found")
	}
	return t, nil
}

func modulePath(repo string) (string, error) {
	b, err := os.ReadFile(filepath.Join(repo, "go.mod"))
	if err != nil {
		return "", err
	}
	for _, l := range strings.Split(string(b), "\n") {
		l = strings.TrimSpace(l)
		if strings.HasPrefix(l, "module ") {
			return strings.TrimSpace(strings.TrimPrefix(l, "module ")), nil
		}
	}
	return "", fmt.Errorf("no module line in go.mod")
}

// readPlugin finds `func NewPlugin() derive.Plugin { return derive.NewPlugin("name", "prefix", New) }`.
func readPlugin(dir string) (name, prefix string, err error) {
	fset := token.NewFileSet()
	pkgs, err := parser.ParseDir(fset, dir, func(fi os.FileInfo) bool { return !strings.HasSuffix(fi.Name(), "_test.go") }, 0)
	if err != nil {
		return "", "", err
	}
	found := 0
	for _, pkg := range pkgs {
		for _, f := range pkg.Files {
			for _, d := range f.Decls {
				fd, ok := d.(*ast.FuncDecl)
				if !ok || fd.Name.Name != "NewPlugin" || fd.Recv != nil || fd.Body == nil {
					continue
				}
				ast.Inspect(fd.Body, func(n ast.Node) bool {
					call, ok := n.(*ast.CallExpr)
					if !ok || !isSel(call.Fun, "derive", "NewPlugin") || len(call.Args) != 3 {
						return true
					}
					n1, ok1 := unq(call.Args[0])
					p1, ok2 := unq(call.Args[1])
					if ok1 && ok2 {
						name, prefix = n1, p1
						found++
					}
					return true
				})
			}
		}
	}
	if found != 1 {
		return "", "", fmt.Errorf("%s: expected exactly one derive.NewPlugin(\"name\", \"prefix\", New) with literal arguments in NewPlugin, found %d", dir, found)
	}
	return name, prefix, nil
}

func coqStr(s string) string {
	// Coq string literal: only " needs doubling; the identifiers here are ASCII
	return "\"" + strings.ReplaceAll(s, "\"", "\"\"") + "\""
}

// CoqTerm renders the table as Gallina (module TableGen).
func (t *Table) CoqTerm() string {
	var b strings.Builder
	b.WriteString("(* GENERATED by harness/internal/c12 from main.go and plugin/*/*.go of the repository under test. *)\n")
	b.WriteString("From Coq Require Import String List.\nFrom Verif Require Import Prefix.Str Prefix.Dispatch.\nImport ListNotations.\nOpen Scope string_scope.\n\n")
	b.WriteString("Definition table : list plugin := [\n")
	for i, p := range t.Plugins {
		sep := ";"
		if i == len(t.Plugins)-1 {
			sep = ""
		}
		fmt.Fprintf(&b, "  mkP (s %s) (s %s)%s\n", coqStr(p.Name), coqStr(p.Prefix), sep)
	}
	b.WriteString("].\n\n")
	fmt.Fprintf(&b, "Definition t_replace_old : str := s %s.\n", coqStr(t.ReplaceOld))
	fmt.Fprintf(&b, "Definition t_replace_n : nat := %d.\n", max0(t.ReplaceN))
	fmt.Fprintf(&b, "Definition t_replace_n_is_literal : bool := %v.\n", t.ReplaceN >= 0)
	fmt.Fprintf(&b, "Definition t_prefix_default : str := s %s.\n", coqStr(t.PrefixDefault))
	return b.String()
}

func max0(n int) int {
	if n < 0 {
		return 0
	}
	return n
}
