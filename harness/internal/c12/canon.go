package c12

// Canonical view of a derived.gen.go: every generated function is named after (plugin, parameter and
// result types); references between generated functions are rewritten to those canonical names.

import (
	"bytes"
	"fmt"
	"go/ast"
	"go/parser"
	"go/printer"
	"go/token"
	"go/types"
	"regexp"
	"sort"
	"strings"
)

type genFunc struct {
	Name   string
	Plugin string
	Key    string // plugin(params) results
	Text   string // canonical text (doc + declaration)
	TyName string // what newName would use: name of the first parameter's type if named or basic
	Pos    int    // position in the file
}

type output struct {
	Funcs   []genFunc
	ByName  map[string]*genFunc
	Imports []string
}

// longest is the harness's own statement of the dispatch rule (the oracle for naming a function's
// plugin): the plugin with the longest prefix that is a prefix of name; "" if none.
func longest(eff []Plugin, name string) string {
	best, bl := "", -1
	for _, p := range eff {
		if strings.HasPrefix(name, p.Prefix) && len(p.Prefix) > bl {
			best, bl = p.Name, len(p.Prefix)
		}
	}
	return best
}

var basicNames = map[string]bool{"bool": true, "int": true, "int8": true, "int16": true, "int32": true, "int64": true,
	"uint": true, "uint8": true, "uint16": true, "uint32": true, "uint64": true, "float32": true, "float64": true, "string": true}

func tyName(e ast.Expr) string {
	switch t := e.(type) {
	case *ast.Ident:
		if basicNames[t.Name] {
			return t.Name
		}
		if types.Universe.Lookup(t.Name) != nil {
			return "" // complex128, error, byte, rune, ...: newName has no case for them (byte/rune never appear here)
		}
		return t.Name
	case *ast.SelectorExpr:
		return t.Sel.Name
	}
	return ""
}

func fieldTypes(fl *ast.FieldList) []string {
	var out []string
	if fl == nil {
		return out
	}
	for _, f := range fl.List {
		n := len(f.Names)
		if n == 0 {
			n = 1
		}
		for i := 0; i < n; i++ {
			out = append(out, types.ExprString(f.Type))
		}
	}
	return out
}

func parseOutput(src []byte, eff []Plugin, attrib map[string]string) (*output, error) {
	fset := token.NewFileSet()
	f, err := parser.ParseFile(fset, "derived.gen.go", src, parser.ParseComments)
	if err != nil {
		return nil, err
	}
	out := &output{ByName: map[string]*genFunc{}}
	for _, im := range f.Imports {
		out.Imports = append(out.Imports, im.Path.Value)
	}
	sort.Strings(out.Imports)
	var decls []*ast.FuncDecl
	for _, d := range f.Decls {
		if fd, ok := d.(*ast.FuncDecl); ok && fd.Recv == nil {
			decls = append(decls, fd)
		}
	}
	keyOf := map[string]string{}
	for i, fd := range decls {
		g := genFunc{Name: fd.Name.Name, Pos: i}
		g.Plugin = longest(eff, g.Name)
		if a, ok := attrib[g.Name]; ok {
			g.Plugin = a
		}
		ps := fieldTypes(fd.Type.Params)
		rs := fieldTypes(fd.Type.Results)
		g.Key = fmt.Sprintf("%s(%s)(%s)", g.Plugin, strings.Join(ps, ", "), strings.Join(rs, ", "))
		if fd.Type.Params != nil && len(fd.Type.Params.List) > 0 {
			g.TyName = tyName(fd.Type.Params.List[0].Type)
		}
		keyOf[g.Name] = g.Key
		out.Funcs = append(out.Funcs, g)
	}
	// canonical names: identifiers must stay identifiers for the printer; use an injective encoding
	canon := map[string]string{}
	for n, k := range keyOf {
		canon[n] = "ᐸ" + k + "ᐳ"
	}
	replaceWords := func(s string) string {
		return identWord.ReplaceAllStringFunc(s, func(w string) string {
			if c, ok := canon[w]; ok {
				return c
			}
			return w
		})
	}
	for i, fd := range decls {
		doc := ""
		if fd.Doc != nil {
			doc = replaceWords(fd.Doc.Text())
		}
		fd.Doc = nil
		skip := map[*ast.Ident]bool{}
		ast.Inspect(fd, func(n ast.Node) bool {
			switch x := n.(type) {
			case *ast.SelectorExpr:
				skip[x.Sel] = true // strings.Compare is not the generated Compare (-prefix="")
			case *ast.KeyValueExpr:
				if id, ok := x.Key.(*ast.Ident); ok {
					skip[id] = true
				}
			case *ast.Ident:
				if c, ok := canon[x.Name]; ok && !skip[x] && (x.Obj == nil || x.Obj.Kind == ast.Fun) {
					x.Name = c
				}
			}
			return true
		})
		var b bytes.Buffer
		if err := printer.Fprint(&b, fset, fd); err != nil {
			return nil, err
		}
		out.Funcs[i].Text = "// " + strings.ReplaceAll(strings.TrimSpace(doc), "\n", "\n// ") + "\n" + b.String()
	}
	for i := range out.Funcs {
		out.ByName[out.Funcs[i].Name] = &out.Funcs[i]
	}
	return out, nil
}

// diffCanon compares two outputs as maps key -> text; returns "" when equal.
func diffCanon(a, b *output) string {
	am, bm := map[string]string{}, map[string]string{}
	var dup []string
	for _, g := range a.Funcs {
		if _, ok := am[g.Key]; ok {
			dup = append(dup, "default run has two functions of class "+g.Key)
		}
		am[g.Key] = g.Text
	}
	for _, g := range b.Funcs {
		if _, ok := bm[g.Key]; ok {
			dup = append(dup, "renamed run has two functions of class "+g.Key)
		}
		bm[g.Key] = g.Text
	}
	var msgs []string
	msgs = append(msgs, dup...)
	for k, t := range am {
		t2, ok := bm[k]
		if !ok {
			msgs = append(msgs, "missing in the renamed run: "+k)
		} else if t != t2 {
			msgs = append(msgs, "body differs for "+k+":\n--- default\n"+t+"\n--- renamed\n"+t2)
		}
	}
	for k := range bm {
		if _, ok := am[k]; !ok {
			msgs = append(msgs, "only in the renamed run: "+k)
		}
	}
	if strings.Join(a.Imports, ",") != strings.Join(b.Imports, ",") {
		msgs = append(msgs, fmt.Sprintf("imports differ: %v vs %v", a.Imports, b.Imports))
	}
	sort.Strings(msgs)
	return strings.Join(msgs, "\n")
}

var identWord = regexp.MustCompile(`[\pL\p{Nd}_]+`)

var deriveWord = regexp.MustCompile(`(^|[^A-Za-z0-9_])derive([A-Z][A-Za-z0-9_]*)`)

// mapGlobal renames the words derive[A-Z]… of a default output to P… (token level: the word must start
// at a non-identifier character, so "goderive" in the header line is untouched).
func mapGlobal(src string, p string) string {
	// one pass: only the leading delimiter is consumed, so adjacent words are all seen
	return deriveWord.ReplaceAllString(src, "${1}"+strings.ReplaceAll(p, "$", "$$")+"${2}")
}

// candidates lists every plugin whose prefix is a prefix of name (a helper minted by plugin a carries
// a's prefix, which need not be the longest matching one: eq_B minted by equal=eq under sort=eq_).
func candidates(eff []Plugin, name string) []string {
	var out []string
	for _, p := range eff {
		if strings.HasPrefix(name, p.Prefix) {
			out = append(out, p.Name)
		}
	}
	return out
}

func sigOf(key string) string { return key[strings.Index(key, "("):] }
