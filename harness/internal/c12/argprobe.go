package c12

// Argument probes: "a call is always handled by the plugin with the longest matching prefix" also when that
// plugin REFUSES the call.  The zero-argument probes of section B cannot see who gets a call after a refusal
// (every plugin refuses them); here the call carries arguments that a plugin A with a SHORTER matching prefix
// accepts (an item of the battery catalogue), under a name whose longest matching prefix belongs to another
// plugin B.  The oracle is the default run on the default-named package (the same call named after B's default
// prefix): same outcome class (generated / `Add Error: <plugin>` / other failure / ignored), and when both
// generate, the same functions up to renaming.  Every run also yields a `dispatch` line for the evaluator
// (real = the plugin that answered: the one named by the Add Error, or the one whose function was generated).

import (
	"fmt"
	"strings"
	"sync"

	"verifharness/internal/hx"
)

type argOutcome struct {
	class  string // "ok", "add:<plugin>", "ignored", "timeout", "fail"
	src    string
	out    []byte
	log    string
	parsed *output
	fn     *genFunc // the function generated for the call (class ok)
}

type argJob struct {
	bin   string
	table []Plugin
	c     config
	a, b  string // a: plugin whose catalogue item supplies the arguments; b: plugin with the longest matching prefix
	item  int
	sfx   string
	label string
}

type argCache struct {
	mu sync.Mutex
	m  map[string]*argOutcome
}

func argSrc(it item, name string) string {
	return "package p\n\n" + declVariants[0] + commonDecls + "\nfunc use() {\n\t" + fmt.Sprintf(it.use, name+"("+it.args+")") + "\n}\n"
}

func classifyRun(res hx.RunResult, out []byte) string {
	switch {
	case res.TimedOut:
		return "timeout"
	case res.Exit == 0 && len(out) > 0:
		return "ok"
	case res.Exit == 0:
		return "ignored"
	}
	if m := addErr.FindStringSubmatch(res.Out); m != nil {
		return "add:" + m[1]
	}
	return "fail"
}

func (s *state) argRun(w *worker, bin string, eff []Plugin, it item, name string, flags []string) *argOutcome {
	src := argSrc(it, name)
	res, out := w.run(bin, src, flags)
	s.mu.Lock()
	s.runs++
	s.mu.Unlock()
	o := &argOutcome{class: classifyRun(res, out), src: src, out: out, log: res.Out}
	if o.class == "ok" {
		if p, err := parseOutput(out, eff, nil); err == nil {
			o.parsed = p
			o.fn = p.ByName[name]
		} else {
			o.class = "unparsable"
			o.log = err.Error()
		}
	}
	return o
}

// defaultOutcome: the call named after plugin x's default prefix, default flags, the binary under test.
func (s *state) defaultOutcome(w *worker, cache *argCache, x Plugin, it int, sfx string) *argOutcome {
	key := fmt.Sprintf("%s|%d|%s", x.Name, it, sfx)
	cache.mu.Lock()
	o := cache.m[key]
	cache.mu.Unlock()
	if o != nil {
		return o
	}
	o = s.argRun(w, s.cfg.Goderive, s.tbl.Plugins, catalogue[it], x.Prefix+sfx, nil)
	cache.mu.Lock()
	cache.m[key] = o
	cache.mu.Unlock()
	return o
}

func userClash(eff []Plugin) bool {
	for _, p := range eff {
		for _, u := range userIdents {
			if p.Prefix != "" && strings.HasPrefix(u, p.Prefix) {
				return true
			}
		}
	}
	return false
}

func pluginByName(ps []Plugin, n string) (Plugin, int) {
	for i, p := range ps {
		if p.Name == n {
			return p, i
		}
	}
	return Plugin{}, -1
}

func (s *state) argProbe(w *worker, cache *argCache, j argJob) {
	eff := effective(s.tbl, j.c)
	bp, _ := pluginByName(eff, j.b)
	bdef, _ := pluginByName(s.tbl.Plugins, j.b)
	it := catalogue[j.item]
	name := bp.Prefix + j.sfx
	if !distinct(eff) || userClash(eff) || !validIdent(name) || longest(eff, name) != j.b {
		s.meta.CountSafe("arg-probe-skipped: call not expressible under the map")
		return
	}
	for _, u := range userIdents {
		if u == name {
			return
		}
	}
	for _, o := range j.c.Overrides {
		if !validIdent(o[1] + "Z") {
			return
		}
	}
	def := s.defaultOutcome(w, cache, bdef, j.item, j.sfx)
	if def.class == "timeout" {
		s.meta.CountSafe("arg-probe-skipped: default run timed out")
		return
	}
	cus := s.argRun(w, j.bin, eff, it, name, j.c.flags())
	if cus.class == "timeout" {
		s.meta.CountSafe("arg-probe-skipped: customised run timed out")
		return
	}
	s.mu.Lock()
	s.cases++
	s.mu.Unlock()
	s.meta.CountSafe("arg-probe/" + j.label)
	refused := strings.HasPrefix(def.class, "add:")
	if refused {
		s.meta.CountSafe("arg-probe/longest-match-refuses-shorter-accepts-candidates")
	} else {
		s.meta.CountSafe("arg-probe/default-outcome-" + def.class)
	}
	files := map[string]string{"a.go": cus.src, "derived.gen.go": string(cus.out), "default/a.go": def.src, "default/derived.gen.go": string(def.out)}
	cmd := "goderive " + j.c.String() + " .   (default/: goderive .)"
	both := fmt.Sprintf("default run (call %s%s): %s\n%s\ncustomised run (call %s): %s\n%s", bdef.Prefix, j.sfx, def.class, hx.Truncate(def.log, 1500), name, cus.class, hx.Truncate(cus.log, 1500))

	// who answered the call in the customised run
	real := -2
	switch {
	case strings.HasPrefix(cus.class, "add:"):
		_, real = pluginByName(j.table, cus.class[4:])
		if real < 0 {
			real = -2
		}
	case cus.class == "ignored":
		real = -1
	case cus.class == "ok" && cus.fn != nil:
		// the plugin among those whose prefix matches (longest first) that generates a function of this signature
		// for these arguments in a default run
		cands := candidates(eff, name)
		for len(cands) > 0 {
			best := 0
			for i, cn := range cands {
				p1, _ := pluginByName(eff, cn)
				p0, _ := pluginByName(eff, cands[best])
				if len(p1.Prefix) > len(p0.Prefix) {
					best = i
				}
			}
			xn := cands[best]
			cands = append(cands[:best], cands[best+1:]...)
			xdef, _ := pluginByName(s.tbl.Plugins, xn)
			dx := s.defaultOutcome(w, cache, xdef, j.item, j.sfx)
			if dx.class == "ok" && dx.fn != nil && sigOf(dx.fn.Key) == sigOf(cus.fn.Key) && dx.fn.TyName == cus.fn.TyName {
				_, real = pluginByName(j.table, xn)
				break
			}
		}
	}
	if real != -2 {
		s.addLine(&s.dispL, fmt.Sprintf("(dispatch %s %s %s %s %d)", sxPlugins(j.table), hx.Bytes([]byte(j.c.Global)), sxPairs(j.c.Overrides), hx.Bytes([]byte(name)), real))
	}

	if def.class != cus.class {
		what := fmt.Sprintf("the call %s(%s) under [%s] does not have the outcome of %s%s(%s) in the default run: %s vs %s", name, it.args, j.c.String(), bdef.Prefix, j.sfx, it.args, cus.class, def.class)
		if refused && cus.class == "ok" {
			what = fmt.Sprintf("the call %s(%s) under [%s] is refused by %s, the plugin with the longest matching prefix (default run: Add Error), yet a function is generated for it: a plugin with a shorter prefix handled the call", name, it.args, j.c.String(), j.b)
		}
		s.direct("call-outcome-differs-from-default-run", what, files, cmd, both)
		return
	}
	if def.class != "ok" {
		return
	}
	o := s.attributeHelpers(cus.parsed, cus.out, eff, []string{name}, def.parsed)
	if d := diffCanon(def.parsed, o); d != "" {
		s.direct("renamed-run-differs", fmt.Sprintf("the functions generated for %s(%s) under [%s] differ from the default run beyond renaming", name, it.args, j.c.String()), files, cmd, d)
	}
}

// argJobs: the systematic pairs (every catalogue item x plugins B) and the nested pairs of the given maps.
func (s *state) argJobs(r *hx.Rand, cfgs []config, bins []argBin, nB int) []argJob {
	t := s.tbl
	byPlugin := map[string][]int{}
	var flat []int
	for i, it := range catalogue {
		if strings.Contains(it.args, "@") {
			continue
		}
		byPlugin[it.plugin] = append(byPlugin[it.plugin], i)
		flat = append(flat, i)
	}
	sfxs := []string{"", "A", "Of", "2", "X1", "s", "ed", "Ptr", "Both", "_x"}
	xs := []string{"X", "Of", "2", "s", "Set", "All", "Hash", "B"}
	var jobs []argJob
	pick := func(k int) argBin { return bins[k%len(bins)] }
	n := 0
	for _, i := range flat {
		a := catalogue[i].plugin
		if _, ai := pluginByName(t.Plugins, a); ai < 0 {
			continue
		}
		order := make([]int, len(t.Plugins))
		for k := range order {
			order[k] = k
		}
		hx.Shuffle(r, order)
		cnt := 0
		for _, bi := range order {
			b := t.Plugins[bi]
			if b.Name == a || cnt >= nB {
				continue
			}
			cnt++
			c := config{Global: "derive", Kind: "argprobe"}
			if r.Intn(3) == 0 {
				c.Global = []string{"my", "gen", "D", "derived"}[r.Intn(4)]
			}
			eff := effective(t, c)
			ap, _ := pluginByName(eff, a)
			bp, _ := pluginByName(eff, b.Name)
			form := r.Intn(3)
			label := ""
			switch form {
			case 0:
				c.Overrides = [][2]string{{a, "zq"}, {b.Name, "zq" + xs[r.Intn(len(xs))]}}
				label = "fresh-pair"
			case 1:
				if len(bp.Prefix) < 4 {
					continue
				}
				c.Overrides = [][2]string{{a, bp.Prefix[:3+r.Intn(len(bp.Prefix)-3)]}}
				label = "shorter-is-a-cut"
			case 2:
				c.Overrides = [][2]string{{b.Name, ap.Prefix + xs[r.Intn(len(xs))]}}
				label = "longer-is-an-extension"
			}
			if r.Intn(2) == 0 {
				for l, rr := 0, len(c.Overrides)-1; l < rr; l, rr = l+1, rr-1 {
					c.Overrides[l], c.Overrides[rr] = c.Overrides[rr], c.Overrides[l]
				}
			}
			bn := pick(n)
			n++
			jobs = append(jobs, argJob{bn.bin, bn.tbl, c, a, b.Name, i, sfxs[r.Intn(len(sfxs))], label})
		}
	}
	// nested pairs of the seeded and corpus maps (chains of three prefixes occur here)
	for _, c := range cfgs {
		eff := effective(t, c)
		if !distinct(eff) || !nested(eff) {
			continue
		}
		cnt := 0
		for _, bp := range eff {
			for _, ap := range eff {
				if cnt >= 6 || ap.Name == bp.Name || !strings.HasPrefix(bp.Prefix, ap.Prefix) || len(byPlugin[ap.Name]) == 0 {
					continue
				}
				its := byPlugin[ap.Name]
				bn := pick(n)
				n++
				cnt++
				jobs = append(jobs, argJob{bn.bin, bn.tbl, c, ap.Name, bp.Name, its[r.Intn(len(its))], sfxs[r.Intn(len(sfxs))], "seeded-map"})
			}
		}
	}
	return jobs
}

type argBin struct {
	bin string
	tbl []Plugin
}
