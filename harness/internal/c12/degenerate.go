package c12

import (
	"fmt"
	"path/filepath"
	"strings"

	"verifharness/internal/hx"
)

// Prefix maps with an EMPTY per-plugin prefix (-pluginprefix=equal=): every call name has the empty prefix, and the
// helper names the plugin mints from it ("" and "_") are not function names.  No renaming of the default run exists
// for such a map, so the only acceptable outcomes are a refusal (non-zero exit) or a package that type-checks;
// exit 0 with a derived.gen.go that does not parse is neither (found on the unchanged generator, repaired by a fix).
func (s *state) runDegenerate() {
	type dcase struct {
		flags []string
		call  string
	}
	cases := []dcase{
		{[]string{"-pluginprefix=equal="}, "sameT"},
		{[]string{"-pluginprefix=equal=,sort=sortBy"}, "sameT"},
		{[]string{"-pluginprefix=sort=sortBy,equal="}, "eqT"},
		{[]string{"-prefix=gen", "-pluginprefix=equal="}, "sameT"},
		{[]string{"-pluginprefix=compare=,equal=same"}, "sameT"},
	}
	for ci, c := range cases {
		root := filepath.Join(s.cfg.Work, fmt.Sprintf("degenerate%d", ci), "m")
		files := map[string]string{"go.mod": "module m\n\ngo 1.24\n",
			"p.go": fmt.Sprintf("package m\n\ntype T struct {\n\tA []int\n\tB *U\n}\n\ntype U struct{ N map[string]int }\n\nfunc f(x, y *T) bool { return %s(x, y) }\n", c.call)}
		if err := hx.WriteFiles(root, files); err != nil {
			continue
		}
		g := hx.Goderive(s.cfg.Goderive, root, append(append([]string{}, c.flags...), ".")...)
		s.mu.Lock()
		s.runs++
		s.cases++
		s.mu.Unlock()
		s.meta.CountSafe("empty-plugin-prefix/" + classifyExit(g.Exit))
		if g.Exit != 0 {
			if strings.Contains(g.Out, "panic:") || strings.Contains(g.Out, "goroutine ") {
				s.direct("c12-empty-prefix", "goderive panics on an empty per-plugin prefix", files, "goderive "+strings.Join(c.flags, " ")+" .", g.Out)
			}
			continue
		}
		if v := hx.GoVet(root, ""); v.Exit != 0 {
			s.direct("c12-empty-prefix", "goderive accepts an empty per-plugin prefix (exit 0) and leaves a package that does not parse or type-check", files,
				"goderive "+strings.Join(c.flags, " ")+" . && go vet .", hx.Truncate(g.Out+"\n"+v.Out, 2000))
		}
	}
}

func classifyExit(code int) string {
	if code == 0 {
		return "accepted"
	}
	return "refused"
}
