// Package c03: derived Compare vs the model of plugin/compare and the encoding order.
package c03

import (
	"fmt"
	"strings"

	"verifharness/internal/ga"
	"verifharness/internal/hx"
)

func Run(cfg hx.Config) (*hx.Meta, error) {
	ntriples := 40
	if cfg.Tier == "thorough" {
		ntriples = 300
	}
	vr := &ga.ValueRun{
		Prop: "C03", Calls: []ga.Call{ga.CallCmp, ga.CallCmpC, ga.CallEq}, SupObs: "sup-cmp", PoolQuick: 12, PoolThorough: 20, WithMethods: true,
		Cases: func(idx int, t *ga.Type, vals []*ga.Val, r *hx.Rand, out *strings.Builder) {
			for xi, x := range vals {
				for yi, y := range vals {
					// every pair through the two-argument form; the curried form sees every pair among the
					// first six pool values (nil, empty, smallest non-empty) and a fifth of the rest
					fmt.Fprintf(out, "cmp %d %s %s\n", idx, x.Sexp(), y.Sexp())
					if (xi < 6 && yi < 6) || (xi+yi)%5 == 0 {
						fmt.Fprintf(out, "cmpc %d %s %s\n", idx, x.Sexp(), y.Sexp())
					}
				}
			}
			// cross-check with the generated Equal on a diagonal band (Compare == 0 <=> Equal)
			for xi, x := range vals {
				for _, d := range []int{0, 1, 2} {
					y := vals[(xi+d)%len(vals)]
					fmt.Fprintf(out, "cmpeq %d %s %s\n", idx, x.Sexp(), y.Sexp())
				}
			}
			for k := 0; k < ntriples && len(vals) > 1; k++ {
				x, y, z := hx.Pick(r, vals), hx.Pick(r, vals), hx.Pick(r, vals)
				fmt.Fprintf(out, "cmp3 %d %s %s %s\n", idx, x.Sexp(), y.Sexp(), z.Sexp())
			}
		},
	}
	meta, err := vr.Run(cfg)
	if err != nil {
		return nil, err
	}
	// hardening round 5 (with C02): Compare/Equal methods with a pointer receiver whose parameter is a named
	// interface that only the pointer type implements (goderive fixes 3c717aa, 9bb0687): the method is handed
	// the address of the other value component
	cat := ga.NewCatalogue()
	cat.WithMethods = true
	x := &ga.ExtraRun{VR: vr, Name: "ifmeth", Types: cat.NamedIfacePtrCompareShapesR5(), PoolMax: 12}
	if err := x.Run(cfg, meta); err != nil {
		return nil, err
	}
	return meta, nil
}
