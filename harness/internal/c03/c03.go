// Package c03: correspondence harness of C03 (stub: replaced when C03 is built).
package c03

import (
	"fmt"

	"verifharness/internal/hx"
)

func Run(cfg hx.Config) (*hx.Meta, error) {
	return nil, fmt.Errorf("C03: harness not built yet")
}
