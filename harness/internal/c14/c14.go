// Package c14: the generated set/list helpers (Contains, Unique, Set, Union, Intersect, Filter,
// TakeWhile, All, Any) vs the models of coq/theories/Sets and the textbook specifications.
//
// The catalogue type T is the ELEMENT type; the derived functions work on []T (and
// map[T]struct{} where T may be a map key).  Lists are built from T's value pool: nil, empty,
// singletons, duplicates, Equal-but-not-identical elements (clones at fresh addresses), nil
// elements (pool), spare capacity, hash collisions ("Aa"/"BB"), +0/-0 (pool), random lists.
package c14

import (
	_ "embed"
	"fmt"
	"os"
	"path/filepath"
	"sort"
	"strings"
	"sync"

	"verifharness/internal/ga"
	"verifharness/internal/hx"
)

//go:embed drv.go.txt
var drvSource string

// goComparable: may T be a map key (Go's comparable: no slice, map inside, by value)?
func goComparable(t *ga.Type) bool {
	switch t.K {
	case ga.KBasic, ga.KPtr, ga.KRef:
		return true
	case ga.KNamed, ga.KArray:
		return goComparable(t.Elem)
	case ga.KStruct:
		for _, f := range t.Fields {
			if !goComparable(f.T) {
				return false
			}
		}
		return true
	}
	return false
}

// unnamedStructKey: does t contain a map whose key type mentions an unnamed struct?  derived Hash
// sorts map keys with derived Compare, which refuses unnamed structs - unless a named struct type
// with the same underlying type happens to be in the package, whose Compare goderive then reuses
// by assignability (C08's subject).  The shared model of Hash says "unsupported" for them, so
// they are left out here.
func unnamedStructKey(t *ga.Type) bool {
	var inKey func(k *ga.Type) bool
	inKey = func(k *ga.Type) bool {
		switch k.K {
		case ga.KStruct:
			return true
		case ga.KArray:
			return inKey(k.Elem)
		}
		return false
	}
	switch t.K {
	case ga.KNamed, ga.KPtr, ga.KSlice, ga.KArray:
		return t.Elem != nil && unnamedStructKey(t.Elem)
	case ga.KMap:
		return inKey(t.Key) || unnamedStructKey(t.Key) || unnamedStructKey(t.Elem)
	case ga.KStruct:
		for _, f := range t.Fields {
			if unnamedStructKey(f.T) {
				return true
			}
		}
	}
	return false
}

var (
	mu   sync.Mutex
	byGo = map[string]*ga.Type{}
)

func lookup(tgo string) *ga.Type {
	mu.Lock()
	defer mu.Unlock()
	return byGo[tgo]
}

func wrap(op, src string) ga.Call {
	return ga.Call{Op: op,
		Wrap: func(idx int, tgo string) string {
			return strings.NewReplacer("%T", tgo, "%d", fmt.Sprint(idx)).Replace(src)
		},
		WrapFn: func(idx int) string { return fmt.Sprintf("%s_%d", op, idx) }}
}

// wrappers that exist only when T can be a map key; otherwise a stub keeps reg.go compiling
func wrapKey(op, src string) ga.Call {
	return ga.Call{Op: op,
		Wrap: func(idx int, tgo string) string {
			if t := lookup(tgo); t != nil && goComparable(t) {
				return strings.NewReplacer("%T", tgo, "%d", fmt.Sprint(idx)).Replace(src)
			}
			return fmt.Sprintf("func %s_%d() {}\n", op, idx)
		},
		WrapFn: func(idx int) string { return fmt.Sprintf("%s_%d", op, idx) }}
}

var calls = []ga.Call{
	ga.CallEq,
	wrap("contains", "func contains_%d(l []%T, x %T) bool { return deriveContains_%d(l, x) }\n"),
	wrap("unique", "func unique_%d(l []%T) []%T { return deriveUnique_%d(l) }\n"),
	wrap("union", "func union_%d(a, b []%T) []%T { return deriveUnion_%d(a, b) }\n"),
	wrap("intersect", "func intersect_%d(a, b []%T) []%T { return deriveIntersect_%d(a, b) }\n"),
	wrap("filter", "func filter_%d(p func(%T) bool, l []%T) []%T { return deriveFilter_%d(p, l) }\n"),
	wrap("takewhile", "func takewhile_%d(p func(%T) bool, l []%T) []%T { return deriveTakeWhile_%d(p, l) }\n"),
	wrap("all", "func all_%d(p func(%T) bool, l []%T) bool { return deriveAll_%d(p, l) }\n"),
	wrap("any", "func any_%d(p func(%T) bool, l []%T) bool { return deriveAny_%d(p, l) }\n"),
	wrapKey("set", "func set_%d(l []%T) map[%T]struct{} { return deriveSet_%d(l) }\n"),
	wrapKey("unionm", "func unionm_%d(a, b map[%T]struct{}) map[%T]struct{} { return deriveUnionM_%d(a, b) }\n"),
	wrapKey("intersectm", "func intersectm_%d(a, b map[%T]struct{}) map[%T]struct{} { return deriveIntersectM_%d(a, b) }\n"),
}

// ---------- lists ----------

type lister struct {
	next int
	r    *hx.Rand
}

func (l *lister) fresh() int { l.next++; return l.next }
func (l *lister) cl(v *ga.Val) *ga.Val { return v.Clone(l.fresh) }

func (l *lister) mk(spare []*ga.Val, es ...*ga.Val) *ga.Val {
	s := &ga.Val{K: "sl", Loc: l.fresh()}
	for _, e := range es {
		s.Elems = append(s.Elems, l.cl(e))
	}
	for _, e := range spare {
		s.Spare = append(s.Spare, l.cl(e))
	}
	return s
}

// collide returns two copies of v whose string leaves (outside map keys) are "Aa" and "BB":
// different values with the same derived hash (31*'A'+'a' == 31*'B'+'B').
func collide(v *ga.Val) (a, b *ga.Val, ok bool) {
	found := false
	var rec func(x *ga.Val, s string) *ga.Val
	rec = func(x *ga.Val, s string) *ga.Val {
		c := *x
		if x.K == "s" {
			found = true
			c.Str = []byte(s)
			return &c
		}
		c.Elems = nil
		for _, e := range x.Elems {
			c.Elems = append(c.Elems, rec(e, s))
		}
		c.Spare = nil
		for _, e := range x.Spare {
			c.Spare = append(c.Spare, rec(e, s))
		}
		c.KVs = nil
		for _, kv := range x.KVs {
			c.KVs = append(c.KVs, [2]*ga.Val{kv[0], rec(kv[1], s)})
		}
		return &c
	}
	a = rec(v, "Aa")
	b = rec(v, "BB")
	return a, b, found
}

func (l *lister) lists(vals []*ga.Val, nrand int) []*ga.Val {
	v0 := vals[0]
	v1 := vals[len(vals)-1]
	v2 := vals[len(vals)/2]
	if len(vals) > 1 {
		v1 = vals[1]
	}
	out := []*ga.Val{
		{K: "nils"},
		l.mk(nil),
		l.mk(nil, v0),
		l.mk(nil, v1, v0, v1, v0, v1),          // duplicates (each element cloned: Equal, not identical)
		l.mk(nil, v0, v1, v2),
		l.mk([]*ga.Val{v2, v2}, v1, v0, v0),     // spare capacity of 2
		l.mk([]*ga.Val{v1}, v2, v1, v2),         // spare capacity of 1
		l.mk([]*ga.Val{v0, v0, v0}),             // empty with capacity
	}
	// the same element value (same addresses inside) twice, and a clone of it
	same := &ga.Val{K: "sl", Loc: l.fresh()}
	e := l.cl(v1)
	same.Elems = []*ga.Val{e, l.cl(v1), e}
	out = append(out, same)
	for _, v := range vals {
		if a, b, ok := collide(v); ok {
			out = append(out, l.mk(nil, a, b, a), l.mk([]*ga.Val{v0}, b, v0, a, b))
			break
		}
	}
	// Equal but not identical through the sign of a zero (hardening round 4): an element that holds a
	// float zero next to its copy with every zero's sign flipped (== and derived Equal cannot tell them
	// apart, their bits differ), for the first two such pool values
	nz := 0
	for _, v := range vals {
		if nz < 2 && ga.HasFloatZeroHB(v) {
			nz++
			f := ga.FlipZerosHB(v, l.fresh)
			out = append(out, l.mk(nil, v, f, v), l.mk([]*ga.Val{f}, f, v2, v, f))
		}
	}
	for i := 0; i < nrand; i++ {
		n := l.r.Intn(7)
		var es []*ga.Val
		for j := 0; j < n; j++ {
			es = append(es, hx.Pick(l.r, vals))
		}
		var sp []*ga.Val
		for j := l.r.Intn(3); j > 0; j-- {
			sp = append(sp, hx.Pick(l.r, vals))
		}
		out = append(out, l.mk(sp, es...))
	}
	return out
}

// nanCases (hardening round 4): lists whose elements hold a NaN — the one value that is not Equal to
// itself — in a float leaf of the element (outside map keys).  Contains must not find it, Unique keeps
// every occurrence, Union appends every NaN element of the second list, Intersect drops them.  Only these
// four functions: the evaluator judges them against the specification with IEEE equality (Sets/NaN.v).
func nanCases(idx int, t *ga.Type, vals []*ga.Val, l *lister, ls []*ga.Val, out *strings.Builder) {
	var base *ga.Val
	for _, v := range vals {
		if _, ok := ga.NaNifyHB(t, v, 0, l.fresh); ok {
			base = v
			break
		}
	}
	if base == nil {
		return
	}
	n1, _ := ga.NaNifyHB(t, base, 0, l.fresh)
	nall, _ := ga.NaNifyHB(t, base, -1, l.fresh)
	other := vals[len(vals)-1]
	nls := []*ga.Val{
		l.mk(nil, n1),
		l.mk(nil, other, n1, base),
		l.mk([]*ga.Val{base}, n1, n1, base, nall, base),
		l.mk(nil, base, other),
	}
	items := []*ga.Val{n1, nall, base}
	for _, lst := range nls {
		for _, x := range items {
			fmt.Fprintf(out, "contains %d %s %s\n", idx, lst.Sexp(), l.cl(x).Sexp())
		}
		fmt.Fprintf(out, "unique %d %s\n", idx, lst.Sexp())
	}
	pairs := [][2]*ga.Val{{nls[0], nls[0]}, {nls[1], nls[0]}, {nls[3], nls[2]}, {nls[2], nls[1]}, {ls[3], nls[1]}, {nls[2], ls[4]}}
	for _, p := range pairs {
		fmt.Fprintf(out, "union %d %s %s\n", idx, l.cl(p[0]).Sexp(), l.cl(p[1]).Sexp())
		fmt.Fprintf(out, "intersect %d %s %s\n", idx, l.cl(p[0]).Sexp(), l.cl(p[1]).Sexp())
	}
}

// loadCorpus reads corpus/C14/*.txt: "<Go element type>|<case line with %d for the type index>".
func loadCorpus(dir string) map[string][]string {
	out := map[string][]string{}
	files, _ := filepath.Glob(filepath.Join(dir, "*.txt"))
	sort.Strings(files)
	for _, f := range files {
		b, err := os.ReadFile(f)
		if err != nil {
			continue
		}
		for _, l := range strings.Split(string(b), "\n") {
			l = strings.TrimSpace(l)
			if l == "" || l[0] == '#' {
				continue
			}
			if i := strings.IndexByte(l, '|'); i > 0 {
				out[l[:i]] = append(out[l[:i]], l[i+1:])
			}
		}
	}
	return out
}

func Run(cfg hx.Config) (*hx.Meta, error) {
	corpus := loadCorpus(cfg.Corpus)
	nrand, npairs := 3, 14
	if cfg.Tier == "thorough" {
		nrand, npairs = 10, 50
	}
	kinds := []string{"ptrue", "pfalse", "peq", "ppar"}
	vr := &ga.ValueRun{
		Prop: "C14", Calls: calls, SupObs: "sup-c14", PoolQuick: 8, PoolThorough: 14,
		Extra: map[string]string{"c14_drv.go": drvSource},
		Filter: func(t *ga.Type) bool {
			if unnamedStructKey(t) {
				return false
			}
			mu.Lock()
			byGo[t.Go(0)] = t
			mu.Unlock()
			return true
		},
		Cases: func(idx int, t *ga.Type, vals []*ga.Val, r *hx.Rand, out *strings.Builder) {
			for _, c := range corpus[t.Go(0)] {
				out.WriteString(strings.Replace(c, "%d", fmt.Sprint(idx), 1) + "\n")
			}
			l := &lister{next: 1000000, r: r}
			ls := l.lists(vals, nrand)
			key := goComparable(t)
			items := []*ga.Val{vals[0], vals[len(vals)-1]}
			if len(vals) > 2 {
				items = append(items, vals[1])
			}
			for _, lst := range ls {
				for _, x := range items {
					fmt.Fprintf(out, "contains %d %s %s\n", idx, lst.Sexp(), l.cl(x).Sexp())
				}
				if len(lst.Elems) > 0 {
					// an element of the list itself, at other addresses
					fmt.Fprintf(out, "contains %d %s %s\n", idx, lst.Sexp(), l.cl(lst.Elems[len(lst.Elems)-1]).Sexp())
				}
				fmt.Fprintf(out, "unique %d %s\n", idx, lst.Sexp())
				if key {
					fmt.Fprintf(out, "set %d %s\n", idx, lst.Sexp())
				}
				for ki, k := range kinds {
					c := items[(ki+len(lst.Elems))%len(items)]
					if k == "peq" && len(lst.Elems) > 0 {
						c = lst.Elems[l.r.Intn(len(lst.Elems))]
					}
					for _, op := range []string{"filter", "takewhile", "all", "any"} {
						fmt.Fprintf(out, "%s %d %s %s %s\n", op, idx, k, l.cl(c).Sexp(), lst.Sexp())
					}
				}
			}
			nanCases(idx, t, vals, l, ls, out)
			for k := 0; k < npairs; k++ {
				a, b := ls[k%len(ls)], hx.Pick(r, ls)
				if k >= len(ls) {
					a = hx.Pick(r, ls)
				}
				fmt.Fprintf(out, "union %d %s %s\n", idx, a.Sexp(), b.Sexp())
				fmt.Fprintf(out, "intersect %d %s %s\n", idx, a.Sexp(), b.Sexp())
				if key {
					fmt.Fprintf(out, "unionm %d %s %s\n", idx, a.Sexp(), b.Sexp())
					fmt.Fprintf(out, "intersectm %d %s %s\n", idx, a.Sexp(), b.Sexp())
				}
			}
		},
	}
	return vr.Run(cfg)
}
