// Package c14: correspondence harness of C14 (stub: replaced when C14 is built).
package c14

import (
	"fmt"

	"verifharness/internal/hx"
)

func Run(cfg hx.Config) (*hx.Meta, error) {
	return nil, fmt.Errorf("C14: harness not built yet")
}
