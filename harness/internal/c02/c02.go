// Package c02: correspondence harness of C02 (stub: replaced when C02 is built).
package c02

import (
	"fmt"

	"verifharness/internal/hx"
)

func Run(cfg hx.Config) (*hx.Meta, error) {
	return nil, fmt.Errorf("C02: harness not built yet")
}
