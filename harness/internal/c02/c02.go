// Package c02: derived Equal vs the model of plugin/equal and structural equality.
package c02

import (
	"fmt"
	"os"
	"path/filepath"
	"strings"

	"verifharness/internal/ga"
	"verifharness/internal/hx"
)

func Run(cfg hx.Config) (*hx.Meta, error) {
	meta := &hx.Meta{Property: "C02", Seed: cfg.Seed, Tier: cfg.Tier}
	r := hx.NewRand(cfg.Seed)
	cat := ga.NewCatalogue()
	depth, nrand, pool := 1, 40, 12
	if cfg.Tier == "thorough" {
		depth, nrand, pool = 2, 300, 20
	}
	types := cat.Shapes(r, depth, nrand)
	if cfg.Tier != "thorough" {
		// quick: all depth<=1 shapes, the random ones, and a seeded slice of the depth-2 shapes
		d2 := cat.Shapes(r, 2, 0)
		hx.Shuffle(r, d2)
		types = ga.Dedup(append(types, d2[:60]...))
	}
	calls := []ga.Call{ga.CallEq, ga.CallEqC}
	probes := ga.Probe(cfg.Goderive, filepath.Join(cfg.Work, "probe"), types, calls, true)
	var ok []*ga.Type
	var okIdx []int
	var sup strings.Builder
	for i, t := range types {
		pr := probes[i]
		meta.GoderiveRuns++
		meta.Count("gen/" + pr.GenClass)
		// observation for the support predicate of the model
		fmt.Fprintf(&sup, "(sup-eq %s %s)\n", t.Sexp(), pr.GenClass)
		switch {
		case pr.GenClass == "ok" && pr.VetOK:
			ok = append(ok, t)
			okIdx = append(okIdx, i)
		case pr.GenClass == "ok" && !pr.VetOK:
			meta.Count("gen/ok-but-does-not-typecheck")
			meta.AddDirect(hx.Direct{Class: "c02-generated-does-not-typecheck", What: "deriveEqual for " + t.Go(0) + " is generated but does not type-check",
				Files: map[string]string{"derived.gen.go": pr.Derived}, Cmd: "goderive . && go vet", Output: pr.VetOut})
		case pr.GenClass == "panic" || pr.GenClass == "timeout":
			// a crash of the generator is C09's subject; here the type simply is not usable
			meta.Notes = append(meta.Notes, "goderive "+pr.GenClass+" on deriveEqual for "+t.Go(0)+" (see C09)")
		}
	}
	supf := filepath.Join(cfg.Out, "c02-support.obs")
	if err := os.WriteFile(supf, []byte(sup.String()), 0o644); err != nil {
		return nil, err
	}
	meta.ObsFiles = append(meta.ObsFiles, supf)

	// batches of supported types: one goderive run + one build each
	bts, bis := ga.Batches(ok, okIdx, 60)
	nb := len(bts)
	obsFiles := make([]string, nb)
	errs := make([]error, nb)
	rs := make([]*hx.Rand, nb)
	for b := range rs {
		rs[b] = r.Fork(uint64(b))
	}
	hx.Parallel(nb, 8, func(b int) {
		p := &ga.Pkg{Dir: filepath.Join(cfg.Work, fmt.Sprintf("batch%02d", b)), Types: bts[b], Idx: bis[b], Calls: calls}
		if errs[b] = p.Write(); errs[b] != nil {
			return
		}
		g := p.Generate(cfg.Goderive)
		if g.Exit != 0 {
			meta.AddDirect(hx.Direct{Class: "c02-batch-generate-failed", What: "goderive fails on a batch of types that it accepts one by one", Cmd: "goderive .", Output: hx.Truncate(g.Out, 3000)})
			return
		}
		if bd := p.BuildDriver(); bd.Exit != 0 {
			meta.AddDirect(hx.Direct{Class: "c02-batch-build-failed", What: "batch of individually type-correct packages does not build", Cmd: "go build -tags drv", Output: hx.Truncate(bd.Out, 3000)})
			return
		}
		gen := ga.NewGen(rs[b], pool)
		var cases strings.Builder
		for i, t := range p.Types {
			vals := gen.Pool(t, map[int]*ga.Type{}, 3)
			for xi, x := range vals {
				for yi, y := range vals {
					op := "eq"
					if (xi+yi)%5 == 0 {
						op = "eqc"
					}
					fmt.Fprintf(&cases, "%s %d %s %s\n", op, p.Idx[i], x.Sexp(), y.Sexp())
				}
			}
			meta.CountSafe(fmt.Sprintf("pool-size/%02d", min(len(vals), 20)))
		}
		res := p.RunDriver(cases.String())
		if res.Exit != 0 {
			meta.AddDirect(hx.Direct{Class: "c02-driver-failed", What: "driver crashed", Cmd: "./drv cases.txt", Output: hx.Truncate(res.Out, 3000)})
			return
		}
		obsFiles[b] = filepath.Join(cfg.Out, fmt.Sprintf("c02-batch%02d.obs", b))
		errs[b] = os.WriteFile(obsFiles[b], []byte(res.Stdout), 0o644)
		for _, l := range strings.SplitN(res.Stdout, "\n", 50)[:3] {
			meta.Sample(hx.Truncate(l, 300))
		}
	})
	for b := range obsFiles {
		if errs[b] != nil {
			return nil, errs[b]
		}
		if obsFiles[b] != "" {
			meta.ObsFiles = append(meta.ObsFiles, obsFiles[b])
			meta.GoderiveRuns++
			meta.Packages++
		}
	}
	meta.Count(fmt.Sprintf("types=%d supported=%d", len(types), len(ok)))
	return meta, nil
}
