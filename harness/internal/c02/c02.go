// Package c02: derived Equal vs the model of plugin/equal and structural equality.
package c02

import (
	"fmt"
	"strings"

	"verifharness/internal/ga"
	"verifharness/internal/hx"
)

func Run(cfg hx.Config) (*hx.Meta, error) {
	vr := &ga.ValueRun{
		Prop: "C02", Calls: []ga.Call{ga.CallEq, ga.CallEqC}, SupObs: "sup-eq", PoolQuick: 12, PoolThorough: 20, WithMethods: true,
		Cases: func(idx int, t *ga.Type, vals []*ga.Val, r *hx.Rand, out *strings.Builder) {
			for xi, x := range vals {
				for yi, y := range vals {
					// every pair through the two-argument form; the one-argument curried form sees every pair
					// among the first six pool values (nil, empty and the smallest non-empty ones) and a fifth of the rest
					fmt.Fprintf(out, "eq %d %s %s\n", idx, x.Sexp(), y.Sexp())
					if (xi < 6 && yi < 6) || (xi+yi)%5 == 0 {
						fmt.Fprintf(out, "eqc %d %s %s\n", idx, x.Sexp(), y.Sexp())
					}
				}
			}
		},
	}
	return vr.Run(cfg)
}
