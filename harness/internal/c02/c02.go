// Package c02: derived Equal vs the model of plugin/equal and structural equality.
package c02

import (
	"fmt"
	"strings"

	"verifharness/internal/ga"
	"verifharness/internal/hx"
)

func Run(cfg hx.Config) (*hx.Meta, error) {
	vr := &ga.ValueRun{
		Prop: "C02", Calls: []ga.Call{ga.CallEq, ga.CallEqC}, SupObs: "sup-eq", PoolQuick: 12, PoolThorough: 20, WithMethods: true,
		Cases: func(idx int, t *ga.Type, vals []*ga.Val, r *hx.Rand, out *strings.Builder) {
			for xi, x := range vals {
				for yi, y := range vals {
					// every pair through the two-argument form; the one-argument curried form sees every pair
					// among the first six pool values (nil, empty and the smallest non-empty ones) and a fifth of the rest
					fmt.Fprintf(out, "eq %d %s %s\n", idx, x.Sexp(), y.Sexp())
					if (xi < 6 && yi < 6) || (xi+yi)%5 == 0 {
						fmt.Fprintf(out, "eqc %d %s %s\n", idx, x.Sexp(), y.Sexp())
					}
				}
			}
		},
	}
	meta, err := vr.Run(cfg)
	if err != nil {
		return nil, err
	}
	// hardening round 4: components that declare their own Equal method — with a value, a pointer and an
	// interface parameter — held by value and by pointer in every kind of container; every pair of pool
	// values, so that each single nil-ness mutation of such a pointer meets its non-nil twin
	cat := ga.NewCatalogue()
	cat.WithMethods = true
	pool := 14
	if cfg.Tier == "thorough" {
		pool = 24
	}
	x := &ga.ExtraRun{VR: vr, Name: "methods", Types: cat.MethodShapesHB(), PoolMax: pool, Probe: cfg.Tier == "thorough"}
	if err := x.Run(cfg, meta); err != nil {
		return nil, err
	}
	return meta, nil
}
