// Package c02: derived Equal vs the model of plugin/equal and structural equality.
package c02

import (
	"fmt"
	"strings"

	"verifharness/internal/ga"
	"verifharness/internal/hx"
)

func Run(cfg hx.Config) (*hx.Meta, error) {
	vr := &ga.ValueRun{
		Prop: "C02", Calls: []ga.Call{ga.CallEq, ga.CallEqC}, SupObs: "sup-eq", PoolQuick: 12, PoolThorough: 20, WithMethods: true,
		Cases: func(idx int, t *ga.Type, vals []*ga.Val, r *hx.Rand, out *strings.Builder) {
			for xi, x := range vals {
				for yi, y := range vals {
					op := "eq"
					if (xi+yi)%5 == 0 {
						op = "eqc" // the one-argument curried form
					}
					fmt.Fprintf(out, "%s %d %s %s\n", op, idx, x.Sexp(), y.Sexp())
				}
			}
		},
	}
	return vr.Run(cfg)
}
