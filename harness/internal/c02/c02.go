// Package c02: derived Equal vs the model of plugin/equal and structural equality.
package c02

import (
	"fmt"
	"strings"
	"sync"

	"verifharness/internal/ga"
	"verifharness/internal/hx"
)

func Run(cfg hx.Config) (*hx.Meta, error) {
	vr := &ga.ValueRun{
		Prop: "C02", Calls: []ga.Call{ga.CallEq, ga.CallEqC}, SupObs: "sup-eq", PoolQuick: 12, PoolThorough: 20, WithMethods: true,
		Cases: func(idx int, t *ga.Type, vals []*ga.Val, r *hx.Rand, out *strings.Builder) {
			for xi, x := range vals {
				for yi, y := range vals {
					// every pair through the two-argument form; the one-argument curried form sees every pair
					// among the first six pool values (nil, empty and the smallest non-empty ones) and a fifth of the rest
					fmt.Fprintf(out, "eq %d %s %s\n", idx, x.Sexp(), y.Sexp())
					if (xi < 6 && yi < 6) || (xi+yi)%5 == 0 {
						fmt.Fprintf(out, "eqc %d %s %s\n", idx, x.Sexp(), y.Sexp())
					}
				}
			}
		},
	}
	// the shapes of the hardening rounds are packages of their own: they are generated, built and run while
	// the catalogue's shapes are probed
	extra := &hx.Meta{}
	done := make(chan error, 1)
	go func() { done <- extras(cfg, vr, extra) }()
	meta, err := vr.Run(cfg)
	if e := <-done; err == nil {
		err = e
	}
	if err != nil {
		return nil, err
	}
	merge(meta, extra)
	return meta, nil
}

func merge(meta, m *hx.Meta) {
	meta.ObsFiles = append(meta.ObsFiles, m.ObsFiles...)
	meta.Packages += m.Packages
	meta.GoderiveRuns += m.GoderiveRuns
	meta.Direct = append(meta.Direct, m.Direct...)
	meta.Notes = append(meta.Notes, m.Notes...)
	for k, n := range m.Distribution {
		for ; n > 0; n-- {
			meta.Count(k)
		}
	}
}

func extras(cfg hx.Config, vr *ga.ValueRun, meta *hx.Meta) error {
	// hardening round 4: components that declare their own Equal method — with a value, a pointer and an
	// interface parameter — held by value and by pointer in every kind of container; every pair of pool
	// values, so that each single nil-ness mutation of such a pointer meets its non-nil twin
	cat := ga.NewCatalogue()
	cat.WithMethods = true
	pool := 14
	if cfg.Tier == "thorough" {
		pool = 24
	}
	x := &ga.ExtraRun{VR: vr, Name: "methods", Types: cat.MethodShapesHB(), PoolMax: pool, Probe: cfg.Tier == "thorough"}
	if err := x.Run(cfg, meta); err != nil {
		return err
	}
	return round5(cfg, vr, cat, meta)
}

// round5 (hardening round 5): declarations the type grammar cannot spell — embedded fields (promoted and
// hidden names), struct tags — and Equal methods whose parameter is a named interface or a non-empty
// interface literal.  Besides all pairs of a small pool every type is run on (origin, mutation) pairs for
// EVERY single-leaf and single-nil-ness mutation of a rich value and of the zero value.  The groups are
// independent packages and run side by side.
func round5(cfg hx.Config, vr *ga.ValueRun, cat *ga.Catalogue, meta *hx.Meta) error {
	maxMut := 24
	if cfg.Tier == "thorough" {
		maxMut = 60
	}
	var bounds sync.Map // *ga.Type -> []int: where the catalogue pool ends and where each mutation group ends
	poolFn := func(g *ga.Gen, t *ga.Type) []*ga.Val {
		vals := g.Pool(t, map[int]*ga.Type{}, 3)
		ends := []int{len(vals)}
		for _, grp := range g.MutationGroupsR5(t, maxMut) {
			vals = append(vals, grp...)
			ends = append(ends, len(vals))
		}
		bounds.Store(t, ends)
		return vals
	}
	cases := func(idx int, t *ga.Type, vals []*ga.Val, r *hx.Rand, out *strings.Builder) {
		e, _ := bounds.Load(t)
		ends := e.([]int)
		vr.Cases(idx, t, vals[:ends[0]], r, out)
		for k := 0; k+1 < len(ends); k++ {
			grp := vals[ends[k]:ends[k+1]]
			o := grp[0].Sexp()
			fmt.Fprintf(out, "eq %d %s %s\neqc %d %s %s\n", idx, o, o, idx, o, o)
			for _, m := range grp[1:] {
				ms := m.Sexp()
				fmt.Fprintf(out, "eq %d %s %s\neq %d %s %s\neqc %d %s %s\neq %d %s %s\n", idx, o, ms, idx, ms, o, idx, o, ms, idx, ms, ms)
			}
		}
	}
	emb, embx, amb := cat.EmbeddedShapesR5()
	tag, tagx := cat.TagShapesR5()
	groups := []struct {
		name  string
		types []*ga.Type
	}{
		{"emb", emb},
		{"tag", tag},
		{"embtagx", append(embx, tagx...)},
		{"ifmeth", cat.NamedIfaceMethodShapesR5()},
		{"embamb", amb},
	}
	if cfg.Tier != "thorough" {
		// where a promoted selector cannot even be written a wrong generator is seen by the compiler; the
		// quick tier keeps to the shapes on which it would be seen by a wrong answer
		groups = groups[:4]
	}
	metas := make([]*hx.Meta, len(groups))
	errs := make([]error, len(groups))
	var wg sync.WaitGroup
	for i := range groups {
		wg.Add(1)
		go func(i int) {
			defer wg.Done()
			v := *vr
			v.Cases = cases
			v.Extra = ga.DeclFilesR5(groups[i].types)
			metas[i] = &hx.Meta{}
			// not probed one by one: a probe package is written without the declaration files above
			x := &ga.ExtraRun{VR: &v, Name: groups[i].name, Types: groups[i].types, Pool: poolFn, PoolMax: 8}
			errs[i] = x.Run(cfg, metas[i])
		}(i)
	}
	wg.Wait()
	for i, m := range metas {
		if errs[i] != nil {
			return errs[i]
		}
		merge(meta, m)
	}
	return nil
}
