// Package c10: user source files are left intact (behavioural correspondence).
//
// Every scenario is a directory tree (the processed package, a sub-package, a sibling
// package, non-Go files, read-only files, files excluded by build constraints).  The tree is
// snapshotted (names, modes, sha256, mtimes) before and after goderive; anything but
// derived.gen.go of the processed package that differs must be a user file in which a call
// was renamed under -autoname/-dedup, and its bytes are compared with an independent
// expectation: go/format of the original bytes with the identifiers substituted by position
// (positions from a separate go/parser parse).  The extracted Coq model checks the byte-level
// claim (rewrite observations) and predicts, from the plan of a generated package, the
// outcome class, which files are rewritten and every new name (effects observations).
package c10

import (
	"encoding/json"
	"fmt"
	"os"
	"path/filepath"
	"sort"
	"strings"

	"verifharness/internal/hx"
)

var flagCombos = [][]string{nil, {"-autoname"}, {"-dedup"}, {"-autoname", "-dedup"}}

func Run(cfg hx.Config) (*hx.Meta, error) {
	meta := &hx.Meta{Property: "C10", Seed: cfg.Seed, Tier: cfg.Tier}
	r := hx.NewRand(cfg.Seed)
	var obs strings.Builder
	rn := &runner{cfg: cfg, meta: meta, obs: &obs}

	// 1. regression corpus (former failing inputs) and the fixed hand-written scenarios
	var fixedSc []*scenario
	if ents, err := os.ReadDir(cfg.Corpus); err == nil {
		for _, e := range ents {
			if !strings.HasSuffix(e.Name(), ".json") {
				continue
			}
			b, err := os.ReadFile(filepath.Join(cfg.Corpus, e.Name()))
			if err != nil {
				return nil, err
			}
			sc := &scenario{}
			if err := json.Unmarshal(b, sc); err != nil {
				return nil, fmt.Errorf("corpus %s: %v", e.Name(), err)
			}
			sc.Name = "corpus/" + strings.TrimSuffix(e.Name(), ".json")
			if sc.PkgDir == "" {
				sc.PkgDir = "."
			}
			fixedSc = append(fixedSc, sc)
			meta.Count("corpus")
		}
	}
	fixedSc = append(fixedSc, handWritten()...)
	for i, sc := range fixedSc {
		combos := [][]string{sc.Flags}
		if sc.Flags == nil {
			combos = flagCombos
		}
		for j, fl := range combos {
			s2 := *sc
			s2.Flags = fl
			root := filepath.Join(cfg.Work, fmt.Sprintf("fixed%02d_%d", i, j))
			out, err := rn.run(root, &s2, false)
			if err != nil {
				return nil, err
			}
			if out.class == "ok" && s2.flagsSet() && (j == 3 || !s2.importsStdlib()) {
				if err := rn.rerunWithoutFlags(root, &s2); err != nil {
					return nil, err
				}
			}
			meta.Packages++
			meta.Count("scenario/" + s2.classOr("hand-written"))
		}
	}

	// 1b. where goderive is started and how the packages are named (own random stream: the generated packages
	// below stay what they were)
	if err := rn.runInvocations(hx.NewRand(cfg.Seed + 0x5C10)); err != nil {
		return nil, err
	}

	// 2. hand-written packages with a plan (several passes over one file, generated-code headers, unparsable
	// files with a renaming in the first / a later pass)
	for i, sc := range fixedPlanned() {
		if err := rn.runPlanned(sc, 1+i, true); err != nil {
			return nil, err
		}
		meta.Count("scenario/" + sc.Class)
	}

	// 3. generated packages with a plan: outcomes x flags x renamings x formatting x passes x file headers
	n := 21
	if cfg.Tier == "thorough" {
		n = 300
	}
	for i := 0; i < n; i++ {
		o := genOpts{
			messy:     i%2 == 1,
			layout:    i%7 == 5,
			nfiles:    1 + r.Intn(3),
			ncalls:    3 + r.Intn(8),
			testFile:  r.Intn(3) == 0,
			buildTag:  r.Intn(3) == 0,
			reserved:  r.Intn(3) == 0,
			noFinalNL: r.Intn(2) == 0,
			headers:   i%3 != 2,
		}
		if i%3 == 1 {
			o.nested = 1 + i%2
		}
		switch i % 7 {
		case 2:
			o.inject = "arity"
		case 3:
			o.inject = "generr"
		case 4:
			o.loadErr = []string{"garbage", "otherpkg"}[r.Intn(2)]
		}
		sc := genPlanned(r, i, o)
		if o.reserved {
			meta.Count("plan/with-reserved-names")
		}
		if o.testFile {
			meta.Count("plan/with-test-file")
		}
		if o.messy {
			meta.Count("plan/unformatted-sources")
		} else {
			meta.Count("plan/gofmt-formatted-sources")
		}
		if o.layout {
			meta.Count("plan/comments-or-breaks-before-calls")
		}
		if o.nested > 0 {
			meta.Count(fmt.Sprintf("plan/nested-calls-depth<=%d", o.nested))
		}
		for _, f := range sc.plan.files {
			if src := sc.Files[f.rel]; strings.HasPrefix(src, "// Code generated") && len(f.calls) > 0 {
				meta.Count("plan/file-with-generated-code-header")
				break
			}
		}
		meta.Count("plan/inject=" + o.inject + o.loadErr)
		if err := rn.runPlanned(sc, i, false); err != nil {
			return nil, err
		}
	}

	path := filepath.Join(cfg.Out, "c10.obs")
	if err := os.WriteFile(path, []byte(obs.String()), 0o644); err != nil {
		return nil, err
	}
	meta.ObsFiles = append(meta.ObsFiles, path)
	var keys []string
	for k := range meta.Distribution {
		keys = append(keys, k)
	}
	sort.Strings(keys)
	return meta, nil
}

// runPlanned: one planned package under the four flag combinations, each followed by a second run over the
// result (always, or as the index decides), a run without flags over a successful result, and for some the
// whole tree from the module root.
func (rn *runner) runPlanned(sc *scenario, i int, always bool) error {
	cfg, meta, obs := rn.cfg, rn.meta, rn.obs
	for j, fl := range flagCombos {
		s2 := *sc
		s2.Flags = fl
		root := filepath.Join(cfg.Work, fmt.Sprintf("%s_%d", sc.Name, j))
		out, err := rn.run(root, &s2, false)
		if err != nil {
			return err
		}
		meta.Packages++
		obs.WriteString(effectsLine(&s2, nil, false, out))
		meta.Cases++
		if j == 3 {
			meta.Sample(fmt.Sprintf("%s flags=%v outcome=%s rewritten=%v", sc.Name, fl, out.class, out.touched))
		}
		// a second run over the result: with the (possibly renamed) call sites as they are now
		if out.class == "ok" || ((always || i%3 == 0) && out.class != "crash") {
			cur := out.names
			out2, err := rn.run(root, &s2, true)
			if err != nil {
				return err
			}
			obs.WriteString(effectsLine(&s2, cur, out.derived, out2))
			meta.Cases++
			meta.Count("second-run")
			if out.class == "ok" && len(out2.touched) > 0 {
				rn.direct(&s2, "c10-unexpected-change", fmt.Sprintf("second run over a successful result rewrote %v again", out2.touched), out2.out, nil)
			}
			if out.class == "ok" && s2.flagsSet() && (j == 3 || !s2.importsStdlib()) {
				if err := rn.rerunWithoutFlags(root, &s2); err != nil {
					return err
				}
			}
		}
		// the whole tree from the module root
		if i%5 == 0 && j == 3 {
			s3 := s2
			s3.PkgDir = "."
			s3.Args = []string{"./..."}
			s3.Name = sc.Name + "-dotdotdot"
			if _, err := rn.run(filepath.Join(cfg.Work, s3.Name), &s3, false); err != nil {
				return err
			}
			meta.Count("scenario/whole-tree")
		}
	}
	// the same package named from another working directory, alone or next to directories without sources
	return rn.runElsewhere(sc, i)
}

// importsStdlib: goderive type-checks imported packages from source (about a second per run)
func (sc *scenario) importsStdlib() bool {
	for rel, src := range sc.Files {
		if strings.HasSuffix(rel, ".go") && sc.processed(rel) && strings.Contains(src, "\nimport ") {
			return true
		}
	}
	return false
}

func (sc *scenario) classOr(d string) string {
	if sc.Class != "" {
		return sc.Class
	}
	return d
}
