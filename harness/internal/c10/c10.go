// Package c10: correspondence harness of C10 (stub: replaced when C10 is built).
package c10

import (
	"fmt"

	"verifharness/internal/hx"
)

func Run(cfg hx.Config) (*hx.Meta, error) {
	return nil, fmt.Errorf("C10: harness not built yet")
}
