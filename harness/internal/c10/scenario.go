package c10

import (
	"bytes"
	"crypto/sha256"
	"encoding/hex"
	"fmt"
	"go/ast"
	"go/format"
	"go/parser"
	"go/scanner"
	"go/token"
	"os"
	"path/filepath"
	"regexp"
	"sort"
	"strings"
	"time"

	"verifharness/internal/hx"
)

// prefixes of the plugins the scenarios use, longest first (as sortPlugins orders them).
var prefixes = []string{"deriveCompare", "deriveEqual", "deriveHash"}

// scanPrefixes: what counts as a derive call when user files are scanned (the hand-written scenarios also
// use plugins the effects model is not told about)
var scanPrefixes = append(append([]string{}, prefixes...), "deriveSort", "deriveKeys", "deriveUnique")

func hasPluginPrefix(name string) bool {
	for _, p := range scanPrefixes {
		if strings.HasPrefix(name, p) {
			return true
		}
	}
	return false
}

// scenario: a directory tree, the package directory goderive is run in, flags.
type scenario struct {
	Name   string            `json:"name"`
	Files  map[string]string `json:"files"` // path relative to the root -> contents
	Modes  map[string]uint32 `json:"modes"` // optional permission bits (default 0644)
	PkgDir string            `json:"pkgdir"`
	Flags  []string          `json:"flags"`
	Args   []string          `json:"args"` // default ["."]
	// Cwd: the directory goderive is started in (default PkgDir).  The packages to process are named by Args
	// relative to it (".", "./x", "../x", "./x/...") or by import path ("p/x"); PkgDir stays the package the
	// plan / the effects observation is about.
	Cwd string `json:"cwd,omitempty"`
	Class  string            `json:"class"`
	plan   *plan
	// a file that must not be modified whatever happens (unparsable user files)
	broken map[string]bool
	// derived.gen.go is expected to exist already (second run)
	second bool
	// a finding carries every file of the tree, not only the Go files (directories without Go files matter)
	allFiles bool
	// the invocation may be refused as a whole (a named directory holds no package): not a finding
	mayRefuse bool
}

type entry struct {
	mode  os.FileMode
	sum   string
	isDir bool
	mtime time.Time
}

var epoch = time.Date(2001, 2, 3, 4, 5, 6, 0, time.UTC)

func materialise(root string, sc *scenario) error {
	if err := os.RemoveAll(root); err != nil {
		return err
	}
	var names []string
	for n := range sc.Files {
		names = append(names, n)
	}
	sort.Strings(names)
	for _, n := range names {
		p := filepath.Join(root, n)
		if err := os.MkdirAll(filepath.Dir(p), 0o755); err != nil {
			return err
		}
		mode := os.FileMode(0o644)
		if m, ok := sc.Modes[n]; ok {
			mode = os.FileMode(m)
		}
		if err := os.WriteFile(p, []byte(sc.Files[n]), 0o644); err != nil {
			return err
		}
		if err := os.Chmod(p, mode); err != nil {
			return err
		}
	}
	return resetTimes(root)
}

func resetTimes(root string) error {
	return filepath.Walk(root, func(p string, info os.FileInfo, err error) error {
		if err != nil {
			return err
		}
		return os.Chtimes(p, epoch, epoch)
	})
}

func snapshot(root string) (map[string]entry, error) {
	snap := map[string]entry{}
	err := filepath.Walk(root, func(p string, info os.FileInfo, err error) error {
		if err != nil {
			return err
		}
		rel, _ := filepath.Rel(root, p)
		if rel == "." {
			return nil
		}
		e := entry{mode: info.Mode(), isDir: info.IsDir(), mtime: info.ModTime()}
		if info.Mode().IsRegular() {
			b, err := os.ReadFile(p)
			if err != nil {
				// unreadable (mode 0000): identify by size only
				e.sum = fmt.Sprintf("unreadable:%d", info.Size())
			} else {
				h := sha256.Sum256(b)
				e.sum = hex.EncodeToString(h[:])
			}
		}
		snap[rel] = e
		return nil
	})
	return snap, err
}

type change struct {
	rel  string
	kind string // created | deleted | content | mode | mtime
}

func diffSnap(a, b map[string]entry) []change {
	var out []change
	for rel, ea := range a {
		eb, ok := b[rel]
		switch {
		case !ok:
			out = append(out, change{rel, "deleted"})
		case ea.sum != eb.sum || ea.isDir != eb.isDir:
			out = append(out, change{rel, "content"})
		case ea.mode != eb.mode:
			out = append(out, change{rel, "mode"})
		case !ea.isDir && !ea.mtime.Equal(eb.mtime):
			out = append(out, change{rel, "mtime"})
		}
	}
	for rel := range b {
		if _, ok := a[rel]; !ok {
			out = append(out, change{rel, "created"})
		}
	}
	sort.Slice(out, func(i, j int) bool { return out[i].rel < out[j].rel })
	return out
}

// ---------- tokens and call identifiers ----------

type tok struct {
	kind int // 0 identifier, 1 other, 2 comment
	text string
	off  int
}

// scanToks tokenises any bytes (errors ignored); semicolons (explicit or automatic) are
// dropped: gofmt turns one into the other freely and they carry no content.
func scanToks(src []byte) []tok {
	fset := token.NewFileSet()
	f := fset.AddFile("", fset.Base(), len(src))
	var s scanner.Scanner
	s.Init(f, src, func(token.Position, string) {}, scanner.ScanComments)
	var out []tok
	for {
		pos, t, lit := s.Scan()
		if t == token.EOF {
			break
		}
		if t == token.SEMICOLON {
			continue
		}
		k, text := 1, lit
		switch {
		case t == token.IDENT:
			k = 0
		case t == token.COMMENT:
			k = 2
		}
		if text == "" {
			text = t.String()
		}
		out = append(out, tok{k, text, f.Offset(pos)})
	}
	return out
}

func toksSexp(ts []tok) string {
	var b strings.Builder
	b.WriteByte('(')
	for i, t := range ts {
		if i > 0 {
			b.WriteByte(' ')
		}
		fmt.Fprintf(&b, "(%d %s)", t.kind, hx.Bytes([]byte(t.text)))
	}
	b.WriteByte(')')
	return b.String()
}

type identAt struct {
	off  int
	name string
}

// callIdents: from a go/parser parse, the callee identifiers of calls `ident(...)` whose
// name carries a plugin prefix, in source order (= the order of derive/find.go's walk).
func callIdents(src []byte) ([]identAt, error) {
	fset := token.NewFileSet()
	f, err := parser.ParseFile(fset, "x.go", src, parser.ParseComments)
	if err != nil {
		return nil, err
	}
	var out []identAt
	ast.Inspect(f, func(n ast.Node) bool {
		if ce, ok := n.(*ast.CallExpr); ok {
			if id, ok := ce.Fun.(*ast.Ident); ok && hasPluginPrefix(id.Name) {
				out = append(out, identAt{fset.Position(id.Pos()).Offset, id.Name})
			}
		}
		return true
	})
	sort.Slice(out, func(i, j int) bool { return out[i].off < out[j].off })
	return out, nil
}

// callIdentsScan: the same by tokens only (works on files that no longer parse): an
// identifier with a plugin prefix followed by "(" and not preceded by "func" or ".".
func callIdentsScan(src []byte) []identAt {
	ts := scanToks(src)
	var code []tok
	for _, t := range ts {
		if t.kind != 2 {
			code = append(code, t)
		}
	}
	var out []identAt
	for i, t := range code {
		if t.kind != 0 || !hasPluginPrefix(t.text) {
			continue
		}
		if i+1 >= len(code) || code[i+1].text != "(" {
			continue
		}
		if i > 0 && (code[i-1].text == "func" || code[i-1].text == ".") {
			continue
		}
		out = append(out, identAt{t.off, t.text})
	}
	return out
}

func substitute(src []byte, ids []identAt, names []string) []byte {
	var b bytes.Buffer
	last := 0
	for i, id := range ids {
		b.Write(src[last:id.off])
		b.WriteString(names[i])
		last = id.off + len(id.name)
	}
	b.Write(src[last:])
	return b.Bytes()
}

// ---------- running one scenario ----------

type outcomeT struct {
	class   string // ok adderr generr cannot loaderr crash
	exit    int
	out     string
	touched []string // user files of the package directory whose contents changed
	names   map[string][]string
	derived bool // derived.gen.go exists afterwards
}

func classifyExit(r hx.RunResult) string {
	switch {
	case r.TimedOut, strings.Contains(r.Out, "panic:"), strings.Contains(r.Out, "goroutine "), strings.Contains(r.Out, "fatal error"):
		return "crash"
	case r.Exit == 0:
		return "ok"
	case strings.Contains(r.Out, "Add Error"), strings.Contains(r.Out, "not rewriting "):
		// newPackage returned an error: a plugin's Add Error or the refusal to rewrite a file that does not parse
		return "adderr"
	case strings.Contains(r.Out, "Generator Error"):
		return "generr"
	case strings.Contains(r.Out, "cannot generate"):
		return "cannot"
	default:
		return "loaderr"
	}
}

type runner struct {
	cfg  hx.Config
	meta *hx.Meta
	obs  *strings.Builder
	n    int
}

func (rn *runner) direct(sc *scenario, class, what, output string, extra map[string]string) {
	files := map[string]string{}
	for k, v := range sc.Files {
		if strings.HasSuffix(k, ".go") || k == "go.mod" || sc.allFiles {
			files[k] = v
		}
	}
	for k, v := range extra {
		files[k] = v
	}
	rn.meta.AddDirect(hx.Direct{Class: class, What: sc.Name + ": " + what, Files: files,
		Cmd:    "cd " + sc.cwd() + " && goderive " + strings.Join(append(append([]string{}, sc.Flags...), sc.args()...), " "),
		Output: hx.Truncate(output, 3000)})
}

func (sc *scenario) args() []string {
	if len(sc.Args) == 0 {
		return []string{"."}
	}
	return sc.Args
}

func (sc *scenario) flagsSet() bool {
	for _, f := range sc.Flags {
		if f == "-autoname" || f == "-dedup" || strings.HasPrefix(f, "-autoname=true") || strings.HasPrefix(f, "-dedup=true") {
			return true
		}
	}
	return false
}

// cwd: the directory goderive is started in
func (sc *scenario) cwd() string {
	if sc.Cwd != "" {
		return sc.Cwd
	}
	return sc.PkgDir
}

// modName: the module path of every scenario's go.mod
const modName = "p"

// resolveArg: the directory (relative to the root of the tree) a command-line argument names when goderive
// runs in cwd, and whether it stands for the whole subtree ("/...").  "" = not a directory of the tree.
func resolveArg(cwd, a string) (dir string, rec bool) {
	if strings.HasSuffix(a, "/...") {
		rec = true
		a = strings.TrimSuffix(a, "/...")
	}
	switch {
	case a == "." || a == ".." || strings.HasPrefix(a, "./") || strings.HasPrefix(a, "../"):
		dir = filepath.Clean(filepath.Join(cwd, a))
	case a == modName:
		dir = "."
	case strings.HasPrefix(a, modName+"/"):
		dir = filepath.Clean(strings.TrimPrefix(a, modName+"/"))
	default:
		return "", false
	}
	if dir == ".." || strings.HasPrefix(dir, "../") || filepath.IsAbs(dir) {
		return "", false
	}
	return dir, rec
}

// processed: is rel a file directly inside a package directory that this invocation processes?
func (sc *scenario) processed(rel string) bool {
	dir := filepath.Dir(rel)
	for _, a := range sc.args() {
		d, rec := resolveArg(sc.cwd(), a)
		if d == "" {
			continue
		}
		if dir == d || (rec && (d == "." || strings.HasPrefix(dir, d+"/"))) {
			return true
		}
	}
	return false
}

// run executes the scenario under root (already materialised unless keep) and checks the
// snapshot; returns what was observed for the effects observation.
func (rn *runner) run(root string, sc *scenario, keep bool) (*outcomeT, error) {
	if !keep {
		if err := materialise(root, sc); err != nil {
			return nil, err
		}
	} else if err := resetTimes(root); err != nil {
		return nil, err
	}
	before, err := snapshot(root)
	if err != nil {
		return nil, err
	}
	old := map[string][]byte{}
	for rel, e := range before {
		if !e.isDir && strings.HasSuffix(rel, ".go") {
			b, _ := os.ReadFile(filepath.Join(root, rel))
			old[rel] = b
		}
	}
	res := hx.Goderive(rn.cfg.Goderive, filepath.Join(root, sc.cwd()), append(append([]string{}, sc.Flags...), sc.args()...)...)
	rn.meta.GoderiveRuns++
	rn.n++
	after, err := snapshot(root)
	if err != nil {
		return nil, err
	}
	o := &outcomeT{class: classifyExit(res), exit: res.Exit, out: res.Out, names: map[string][]string{}}
	_, o.derived = after[filepath.Join(sc.PkgDir, "derived.gen.go")]
	rn.meta.Count("outcome/" + o.class)
	if o.class == "loaderr" && sc.plan == nil && len(sc.broken) == 0 && sc.Class != "corpus" && !sc.mayRefuse {
		// a hand-written scenario whose sources all parse and type-check: goderive may refuse it with an
		// Add Error (conflict/duplicate without the flag), never with a load/format/other error
		rn.direct(sc, "c10-unexpected-failure", fmt.Sprintf("goderive fails (exit %d) with an error that is neither an Add Error, a Generator Error nor 'cannot generate' on a package whose sources parse and type-check (flags %v)", res.Exit, sc.Flags), res.Out, nil)
	}
	if o.class == "crash" && strings.Contains(res.Out, "unreachable: function names cannot be changed") {
		rn.direct(sc, "c10-unreachable-panic", "goderive hit panic(\"unreachable: function names cannot be changed...\")", res.Out, nil)
	}
	for _, ch := range diffSnap(before, after) {
		base := filepath.Base(ch.rel)
		if base == "derived.gen.go" && sc.processed(ch.rel) {
			continue // the one file goderive owns
		}
		if before[ch.rel].isDir && ch.kind == "mtime" {
			continue
		}
		userGo := strings.HasSuffix(ch.rel, ".go") && sc.processed(ch.rel)
		if !(userGo && sc.flagsSet() && (ch.kind == "content" || ch.kind == "mtime")) {
			what := fmt.Sprintf("%s of %s (flags %v, outcome %s): only derived.gen.go of the processed package may change", ch.kind, ch.rel, sc.Flags, o.class)
			extra := map[string]string{}
			if b, err := os.ReadFile(filepath.Join(root, ch.rel)); err == nil && len(b) < 20000 {
				extra["AFTER:"+ch.rel] = string(b)
			}
			rn.direct(sc, "c10-unexpected-change", what, res.Out, extra)
			continue
		}
		// a user file of the processed package was written under -autoname/-dedup
		newb, _ := os.ReadFile(filepath.Join(root, ch.rel))
		if filepath.Dir(ch.rel) == sc.PkgDir {
			o.touched = append(o.touched, ch.rel)
		}
		rn.checkRewrite(sc, ch, old[ch.rel], newb, before[ch.rel], after[ch.rel], res.Out)
	}
	// call-site names after the run, for every user file of the package directory
	for rel := range old {
		if filepath.Dir(rel) != sc.PkgDir || filepath.Base(rel) == "derived.gen.go" {
			continue
		}
		b, err := os.ReadFile(filepath.Join(root, rel))
		if err != nil {
			continue
		}
		var names []string
		for _, id := range callIdentsScan(b) {
			names = append(names, id.name)
		}
		o.names[rel] = names
	}
	sort.Strings(o.touched)
	if o.class == "ok" && sc.flagsSet() {
		rn.checkAnnounced(sc, root, old, res.Out)
	}
	return o, nil
}

var renameMsg = regexp.MustCompile(`changing function call name from (\S+) to (\S+)`)

// checkAnnounced: goderive announces every call it renames ("changing function call name from X to Y")
// and generates Y.  After a successful run the call sites in the files must have followed: for every name,
// (sites after) - (sites before) = (renamings to it) - (renamings from it), whatever the number of passes.
// Nothing is concluded when no such message is printed (the wording is not part of the property).
func (rn *runner) checkAnnounced(sc *scenario, root string, old map[string][]byte, out string) {
	ms := renameMsg.FindAllStringSubmatch(out, -1)
	if len(ms) == 0 {
		return
	}
	want := map[string]int{}
	for _, m := range ms {
		want[m[1]]--
		want[m[2]]++
	}
	got := map[string]int{}
	extra := map[string]string{}
	for rel, b := range old {
		if filepath.Base(rel) == "derived.gen.go" {
			continue
		}
		nb, err := os.ReadFile(filepath.Join(root, rel))
		if err != nil {
			continue
		}
		for _, id := range callIdentsScan(b) {
			got[id.name]--
		}
		for _, id := range callIdentsScan(nb) {
			got[id.name]++
		}
		if sc.processed(rel) {
			extra["AFTER:"+rel] = string(nb)
		}
	}
	var bad []string
	for n, w := range want {
		if got[n] != w {
			bad = append(bad, fmt.Sprintf("%s: %+d call sites, announced %+d", n, got[n], w))
		}
	}
	for n, g := range got {
		if _, ok := want[n]; !ok && g != 0 {
			bad = append(bad, fmt.Sprintf("%s: %+d call sites, announced +0", n, g))
		}
	}
	rn.meta.Count("announced-renamings-checked")
	if len(bad) > 0 {
		sort.Strings(bad)
		rn.direct(sc, "c10-renamed-call-not-substituted",
			fmt.Sprintf("goderive exits 0 having renamed %d calls (and generated the new names), but the call identifiers in the source files did not follow: %s",
				len(ms), strings.Join(bad, "; ")), out, extra)
	}
}

// rerunWithoutFlags: after a successful run under -autoname/-dedup every call site carries the name that was
// generated for its argument types, so goderive WITHOUT the flags must accept the package as it is now and touch
// nothing (the snapshot check of run sees to the latter).
func (rn *runner) rerunWithoutFlags(root string, sc *scenario) error {
	s3 := *sc
	s3.Flags = nil
	s3.second = true
	out, err := rn.run(root, &s3, true)
	if err != nil {
		return err
	}
	rn.meta.Count("rerun-without-flags")
	if out.class == "adderr" {
		extra := map[string]string{}
		for rel := range sc.Files {
			if strings.HasSuffix(rel, ".go") && sc.processed(rel) {
				if b, err := os.ReadFile(filepath.Join(root, rel)); err == nil {
					extra["AFTER:"+rel] = string(b)
				}
			}
		}
		rn.direct(sc, "c10-renamed-call-not-substituted",
			fmt.Sprintf("goderive %v succeeded, but the files it left behind are refused without the flags: a call it renamed still carries its old name", sc.Flags), out.out, extra)
	}
	return nil
}

func (rn *runner) checkRewrite(sc *scenario, ch change, oldb, newb []byte, eb, ea entry, out string) {
	rel := ch.rel
	if eb.mode != ea.mode {
		rn.direct(sc, "c10-unexpected-change", fmt.Sprintf("mode of rewritten %s changed from %v to %v", rel, eb.mode, ea.mode), out, nil)
	}
	ids, perr := callIdents(oldb)
	if perr != nil || sc.broken[rel] {
		// the loader tolerates syntax errors; printing the error-recovered AST loses user text
		rn.direct(sc, "c10-rewrite-of-broken-file",
			fmt.Sprintf("%s does not parse (%v) and was rewritten from the error-recovered AST", rel, perr), out,
			map[string]string{"AFTER:" + rel: string(newb)})
		rn.meta.Count("rewrite/broken-file")
		return
	}
	obsIds := callIdentsScan(newb)
	if len(obsIds) < len(ids) {
		rn.direct(sc, "c10-rewrite-lost-calls", fmt.Sprintf("%s: %d call sites before, %d after", rel, len(ids), len(obsIds)), out,
			map[string]string{"AFTER:" + rel: string(newb)})
		return
	}
	names := make([]string, len(ids))
	renamed := 0
	for i := range ids {
		names[i] = obsIds[i].name
		if names[i] != ids[i].name {
			renamed++
		}
	}
	if renamed == 0 {
		rn.direct(sc, "c10-unexpected-change", fmt.Sprintf("%s of %s although none of its calls was renamed", ch.kind, rel), out,
			map[string]string{"AFTER:" + rel: string(newb)})
		return
	}
	if _, err := parser.ParseFile(token.NewFileSet(), rel, newb, parser.ParseComments); err != nil {
		rn.direct(sc, "c10-rewritten-file-unparsable", fmt.Sprintf("%s no longer parses after the rewrite: %v", rel, err), out,
			map[string]string{"AFTER:" + rel: string(newb)})
	}
	// independent expectation: gofmt of the original bytes with the identifiers substituted
	expected, err := format.Source(substitute(oldb, ids, names))
	if err != nil {
		rn.direct(sc, "c10-harness", "cannot format the substituted original of "+rel+": "+err.Error(), out, nil)
		return
	}
	baseFmt, err := format.Source(oldb)
	if err != nil {
		rn.direct(sc, "c10-harness", "cannot format the original of "+rel+": "+err.Error(), out, nil)
		return
	}
	baseToks := scanToks(baseFmt)
	baseIds, err := callIdents(baseFmt)
	if err != nil || len(baseIds) != len(ids) {
		rn.direct(sc, "c10-harness", "formatted original of "+rel+" has other call sites", out, nil)
		return
	}
	offToIdx := map[int]int{}
	for i, t := range baseToks {
		offToIdx[t.off] = i
	}
	var sg strings.Builder
	sg.WriteByte('(')
	first := true
	for i, id := range baseIds {
		if names[i] == ids[i].name {
			continue
		}
		if !first {
			sg.WriteByte(' ')
		}
		first = false
		fmt.Fprintf(&sg, "(%d %s)", offToIdx[id.off], hx.Bytes([]byte(names[i])))
	}
	sg.WriteByte(')')
	fmt.Fprintf(rn.obs, "(rewrite %s %s %s %s %s %s)\n", hx.Bytes(oldb), hx.Bytes(expected), toksSexp(baseToks), sg.String(),
		toksSexp(scanToks(newb)), hx.Bytes(newb))
	rn.meta.Cases++
	fmtd := "unformatted"
	if bytes.Equal(baseFmt, oldb) {
		fmtd = "gofmt-formatted"
	}
	rel2 := "equal"
	if len(expected) < len(oldb) {
		rel2 = "shorter"
	} else if len(expected) > len(oldb) {
		rel2 = "longer"
	}
	rn.meta.Count("rewrite/source-" + fmtd)
	rn.meta.Count("rewrite/new-text-" + rel2)
	nl := 0
	for i := range ids {
		switch {
		case len(names[i]) < len(ids[i].name):
			rn.meta.Count("rename/name-shorter")
		case len(names[i]) > len(ids[i].name):
			rn.meta.Count("rename/name-longer")
		case names[i] != ids[i].name:
			rn.meta.Count("rename/name-equal-length")
		}
		nl++
	}
	if !bytes.Equal(newb, expected) {
		rn.meta.Count("rewrite/not-exact/" + sc.Name + "/" + filepath.Base(rel))
	}
	if bytes.Equal(newb, expected) {
		rn.meta.Sample(fmt.Sprintf("%s %s flags=%v: %d of %d calls renamed, %d -> %d bytes (%s), observed = gofmt(original with identifiers substituted)",
			sc.Name, rel, sc.Flags, renamed, nl, len(oldb), len(newb), fmtd))
	}
}
