package c10

const typesSrc = `package pkg

type A struct{ X int }
type B struct{ Y string }
`

func base(name, class string) *scenario {
	sc := &scenario{Name: name, Class: class, Files: map[string]string{"go.mod": "module p\n\ngo 1.24\n", "pkg/types.go": typesSrc},
		Modes: map[string]uint32{}, PkgDir: "pkg", broken: map[string]bool{}}
	addSurroundings(sc)
	return sc
}

// handWritten: scenarios aimed at particular shapes; run under all four flag combinations.
func handWritten() []*scenario {
	var out []*scenario

	// comments and line breaks directly in front of renamed call identifiers
	s := base("layout-expr", "layout")
	s.Files["pkg/a.go"] = `//go:build !windows

// Package pkg doc.
package pkg

import "fmt" // import comment

// f doc
func f(a, b *A, c, d *B) bool {
	fmt.Println( "x" )  // side
	x := deriveEqual(a, b) && /* before */ deriveEqual /* between */ (c, d) // after
	y := deriveEqual(
		// inner comment
		c,
		d, // d comment
	)
	return x&&y&&
		deriveEqual(c, d)
}
/* block
   comment */
// trailing comment
`
	out = append(out, s)

	s = base("layout-stmt", "layout")
	s.Files["pkg/a.go"] = `package pkg

func f(a, b *A, c, d *B) {
	deriveEqual(a, b)
	// stmt comment
	deriveEqual(c, d)

	deriveEqual(c, d) // tail 1
	/* lead */ deriveEqual(c, d)
	if deriveEqual(c, d) { // if comment
	}
	_ = deriveEqual(c, d) ||
		// explain
		deriveEqual(c, d) // last
	// end of func
}

var v = []bool{
	// first
	deriveEqual(&B{}, &B{}),
}
// trailing comment`
	out = append(out, s)

	// a user file with a (tolerated) syntax error and a call that gets renamed
	s = base("broken-file", "broken-file")
	s.Files["pkg/b.go"] = `package pkg

func g2(g, h A, c, d B) bool {
	x := deriveEqual(&g, &h)
	y := deriveEqual(&c, &d)
	return x && y
}

func broken() int { return 42 +

type Lost struct {
	A, B, C int
}

var important = map[string]int{"a": 1, "b": 2}

func alsoLost() { println("important user code") }
`
	s.broken["pkg/b.go"] = true
	out = append(out, s)

	s = base("broken-stmt", "broken-file")
	s.Files["pkg/b.go"] = `package pkg

func g2(g, h A, c, d B) bool {
	x := deriveEqualLongLongName(&g, &h)
	y := deriveEqualLongLongName(&c, &d)
	z := 1 +* 2 )
	return x && y
}
// keep me
`
	s.broken["pkg/b.go"] = true
	out = append(out, s)

	// read-only and executable user files keep their mode; CRLF line endings
	s = base("modes-crlf", "modes")
	s.Files["pkg/a.go"] = "package pkg\r\n\r\nfunc f(a, b *A, c, d *B) bool {\r\n\treturn deriveEqualVeryLong(a, b) && deriveEqualVeryLong(c, d)\r\n}\r\n// trailing comment\r\n"
	s.Files["pkg/b.go"] = "package pkg\n\nfunc g(a, b *A) bool { return deriveEqualDup(a, b) } // duplicate of a.go's first call\n"
	s.Modes["pkg/a.go"] = 0o444
	s.Modes["pkg/b.go"] = 0o755
	out = append(out, s)

	// nested derive calls: the outer call's argument types are unknown until derived.gen.go
	// exists, so generatePackage reloads and runs newPackage again
	s = base("nested", "nested")
	s.Files["pkg/a.go"] = `package pkg

func f(a, b A, c, d B) int {
	_ = deriveCompare(deriveHash(a), deriveHash(b)) // two passes
	_ = deriveCompare(deriveHash(c), deriveHash(d))
	return deriveCompare(a, b) +   deriveCompareZ(a, b)
}
// trailing comment
`
	out = append(out, s)

	// several calls in one file, only some files renamed, a _test file
	s = base("some-files", "some-files")
	s.Files["pkg/a.go"] = "package pkg\n\nfunc f(a, b *A) bool { return deriveEqual(a, b) }\n"
	s.Files["pkg/b.go"] = "package pkg\n\nfunc g(a, b *A, c, d *B) bool {\n\treturn deriveEqualAlias(a, b) &&   deriveEqual(c, d) && deriveEqualAlias(a, b)\n}\n"
	s.Files["pkg/c.go"] = "package pkg\n\nfunc h(c, d *B) bool { return   deriveEqualB(c, d) } // not formatted, not renamed without -autoname\n"
	s.Files["pkg/a_test.go"] = "package pkg\n\nimport \"testing\"\n\nfunc TestX(t *testing.T) {\n\tif !deriveEqualInTest(&A{}, &A{}) {\n\t\tt.Fatal()\n\t}\n}\n"
	out = append(out, s)

	// files with //line directives (generated from a grammar / a template): positions reported by
	// the file set name OTHER paths, which exist; nothing but the real files may be touched
	s = base("line-directive", "line-directive")
	s.Files["pkg/a.go"] = "//line gen/a.y:1\npackage pkg\n\nfunc f(a, b *A) bool { return deriveEqual(a, b) }\n"
	s.Files["pkg/gen/a.y"] = "%token NUM\n%%\nexpr: NUM ;\n"
	s.Files["pkg/z.go"] = "//line tmpl/z.go:3\npackage pkg\n\nfunc g(c, d *B) bool {\n\treturn   deriveEqual(c, d) // same name, other types: renamed under -autoname\n}\n"
	s.Files["pkg/tmpl/z.go"] = "package tmpl\n\n// the template z.go was instantiated from\n\nfunc X() {}\n"
	out = append(out, s)
	// what gofmt does beyond spacing: an unsorted import group is sorted, number literals are normalised
	s = base("gofmt-extras", "gofmt-extras")
	s.Files["pkg/a.go"] = `package pkg

import (
	"strings"
	"fmt"
	"bytes"
)

var _ = strings.TrimSpace
var _ = bytes.Equal

const mask = 0XFF00
var big = 1E6 + 0B101 + 0O17 + 0X1P-2

func f(a, b *A, c, d *B) bool {
	fmt.Println(mask, big)
	return deriveEqual(a, b) &&   deriveEqual(c, d)
}
`
	out = append(out, s)

	// syntax errors the parser recovers from WITHOUT a Bad node: the AST silently lacks text
	s = base("broken-no-bad-node", "broken-file")
	s.Files["pkg/b.go"] = `package pkg

type Cfg struct {
	Host string Port int
	Retries int
}

func g2(g, h A, c, d B) bool {
	x := deriveEqual(&g, &h)
	y := deriveEqual(&c, &d)
	return x && y
}
`
	s.broken["pkg/b.go"] = true
	out = append(out, s)

	s = base("broken-missing-comma", "broken-file")
	s.Files["pkg/b.go"] = `package pkg

var table = []int{
	1,
	2
}

func g2(g, h A, c, d B) bool {
	x := deriveEqual(&g, &h) ; y := deriveEqual(&c, &d) z := 3
	return x && y
}
`
	s.broken["pkg/b.go"] = true
	out = append(out, s)

	// many renamed calls in one file, new names of different lengths, operators glued to the calls
	s = base("many-renames", "many-renames")
	s.Files["pkg/a.go"] = `package pkg

type LongTypeName struct{ Z []int }

func f(a, b *A, c, d *B, e, g *LongTypeName, i, j []string, k, l map[string]int) bool {
	return !!deriveEqual(a, b) && !deriveEqual(c, d) || !!deriveEqual(e, g) && -1 < +1 &&
		!deriveEqual(i, j) || !!!deriveEqual(k, l)&&!deriveEqualX(7, 8)||!deriveEqualX("s", "t")
}
`
	out = append(out, s)

	// the same with repeated calls (accepted only with both flags: the repeats are deduplicated)
	s = base("many-renames-repeats", "many-renames")
	s.Files["pkg/a.go"] = `package pkg

type LongTypeName struct{ Z []int }

func f(a, b *A, c, d *B, e, g *LongTypeName, i, j []string, k, l map[string]int) bool {
	return !!deriveEqual(a, b) && !deriveEqual(c, d) || !!deriveEqual(e, g) && -1 < +1 &&
		!deriveEqual(i, j) || !!!deriveEqual(k, l)&&!deriveEqual(c, d)||!deriveEqual(e, g)
}
`
	out = append(out, s)
	// a rename that is only found after the reload (the clashing calls take the result of another derive
	// call), in files whose names sort AFTER derived.gen.go, and in a _test file
	s = base("nested-late-files", "nested")
	s.Files["pkg/main.go"] = `package pkg

// names and ages are looked up in sorted order.
func sorted(names map[string]A, ages map[int]B) ([]string, []int) {
	// the two calls below have the same name and, once the keys functions exist, different argument types
	return deriveSort(deriveKeysOfNames(names)), deriveSort(deriveKeysOfAges(ages)) // trailing
}

// keep: a declaration after the calls
var keepMe = "main.go"
`
	s.Files["pkg/zz_more.go"] = `package pkg

func more(a, b A) bool { return deriveEqual(a, b) } // no rename here
`
	s.Files["pkg/util_test.go"] = `package pkg

import "testing"

// TestSorted has a clashing nested call of its own.
func TestSorted(t *testing.T) {
	if len(deriveUnique(deriveKeysOfNames(map[string]A{}))) != 0 || len(deriveUnique(deriveKeysOfAges(map[int]B{}))) != 0 {
		t.Fatal("not empty") // keep this comment
	}
}
`
	out = append(out, s)
	// type names that start with a multi-byte character: the names -autoname mints from them are cut between
	// characters (before fix b3e2f24 the second minted name ended in half a character, go/format failed on it
	// and, the file having been truncated first, the user's file was left empty)
	s = base("unicode-type-names", "unicode")
	s.Files["pkg/u.go"] = `package pkg

import (
	"fmt"
	"strings"
)

type Ünit struct{ A []int }
type Öther struct{ B []string }
type Örder struct{ C map[string]int }

var _ = fmt.Sprint
var _ = strings.TrimSpace

// same: three value types, one name
func same(a, b Ünit, c, d Öther, e, g Örder) bool {
	return deriveEqual(e, g) && deriveEqual(a, b) &&   deriveEqual(c, d) // trailing
}
`
	out = append(out, s)
	return out
}
