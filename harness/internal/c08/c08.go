// Package c08: correspondence harness of C08 (stub: replaced when C08 is built).
package c08

import (
	"fmt"

	"verifharness/internal/hx"
)

func Run(cfg hx.Config) (*hx.Meta, error) {
	return nil, fmt.Errorf("C08: harness not built yet")
}
