// Package c08: determinism of generation and independence of the invocation context.
//
// (S1) in-process through the verif hook: random operation sequences on one real typesMap over a
// pool with mutually assignable named/unnamed types, each replayed 32x on fresh maps (the Go
// runtime re-randomises map iteration every time); sortPlugins on shuffled listings of prefix
// sets; the import block of printer.WriteTo for tables registered in shuffled orders.
// (B) end to end: sha256 of derived.gen.go over repeated runs of packages built to request many
// helpers from several plugins over mutually assignable types, and over invocation variants
// (./..., listings in both orders, each package alone, from inside the directory, import paths).
package c08

import (
	"bytes"
	"crypto/sha256"
	"fmt"
	"go/token"
	"go/types"
	"os"
	"path/filepath"
	"regexp"
	"sort"
	"strings"
	"sync"

	"github.com/awalterschulze/goderive/derive"

	"verifharness/internal/c11"
	"verifharness/internal/hx"
)

func Run(cfg hx.Config) (*hx.Meta, error) {
	meta := &hx.Meta{Property: "C08", Seed: cfg.Seed, Tier: cfg.Tier}
	var lines []string
	// crosspkg.go (packages that depend on each other's generated code) runs next to the other batteries,
	// with a Meta of its own that is merged below
	crossMeta := &hx.Meta{}
	var crossLines []string
	crossDone := make(chan struct{})
	go func() {
		crossLines = runCross(cfg, crossMeta)
		close(crossDone)
	}()
	lines = append(lines, runOps(cfg, meta)...)
	lines = append(lines, runSortPlugins(cfg, meta)...)
	lines = append(lines, runImports(cfg, meta)...)
	l, err := runE2E(cfg, meta)
	if err != nil {
		return nil, err
	}
	lines = append(lines, l...)
	<-crossDone
	lines = append(lines, crossLines...)
	meta.Packages += crossMeta.Packages
	meta.GoderiveRuns += crossMeta.GoderiveRuns
	for k, n := range crossMeta.Distribution {
		for i := 0; i < n; i++ {
			meta.Count(k)
		}
	}
	for _, d := range crossMeta.Direct {
		meta.AddDirect(d)
	}
	for _, sm := range crossMeta.Samples {
		meta.Sample(sm)
	}
	path := filepath.Join(cfg.Out, "c08.obs")
	if err := os.WriteFile(path, []byte(strings.Join(lines, "\n")+"\n"), 0o644); err != nil {
		return nil, err
	}
	meta.ObsFiles = append(meta.ObsFiles, path)
	meta.Cases = len(lines)
	return meta, nil
}

// ---------------------------------------------------------------------------------------
// (S1a) operation sequences on a real typesMap
// ---------------------------------------------------------------------------------------

// Pool: type lists among which several are mutually assignable (named/unnamed slices and
// maps), one-directionally assignable (chan int -> <-chan int, everything -> interface{}), or
// unrelated.
func Pool() []c11.TypeList {
	pkg := types.NewPackage("p", "p")
	named := func(n string, u types.Type) types.Type {
		return types.NewNamed(types.NewTypeName(token.NoPos, pkg, n, nil), u, nil)
	}
	intT := types.Typ[types.Int]
	sl := types.NewSlice(intT)
	mp := types.NewMap(types.Typ[types.String], intT)
	s1, s2 := named("S1", types.NewSlice(intT)), named("S2", types.NewSlice(intT))
	m1 := named("M1", types.NewMap(types.Typ[types.String], intT))
	a := named("A", types.NewStruct(nil, nil))
	ls := [][]types.Type{
		{s1}, {s2}, {sl}, {intT},
		{types.NewChan(types.SendRecv, intT)}, {types.NewChan(types.RecvOnly, intT)},
		{types.NewInterfaceType(nil, nil).Complete()},
		{m1}, {mp}, {a},
		{s1, s1}, {sl, sl}, {s2, s2},
	}
	var pool []c11.TypeList
	for _, l := range ls {
		pool = append(pool, c11.TypeList{Typs: l, Hint: c11.HintOf(l)})
	}
	return pool
}

type op struct {
	kind string // set get gen togen done
	name string
	t    int
}

func (o op) sexp() string {
	switch o.kind {
	case "set":
		return fmt.Sprintf("(set %s %d)", o.name, o.t)
	case "get", "gen":
		return fmt.Sprintf("(%s %d)", o.kind, o.t)
	}
	return "(" + o.kind + ")"
}

func poolIndex(pool []c11.TypeList, typs []types.Type) int {
	for i, t := range pool {
		if len(t.Typs) != len(typs) {
			continue
		}
		same := true
		for j := range typs {
			if t.Typs[j] != typs[j] {
				same = false
			}
		}
		if same {
			return i
		}
	}
	return -1
}

// replay runs the operations on a fresh typesMap and renders the answers.
func replay(pool []c11.TypeList, prefix string, reserved []string, a, d bool, ops []op) string {
	res := map[string]struct{}{}
	for _, r := range reserved {
		res[r] = struct{}{}
	}
	tm := derive.VerifNewTypesMap(nil, prefix, res, a, d)
	var b strings.Builder
	b.WriteByte('(')
	for i, o := range ops {
		if i > 0 {
			b.WriteByte(' ')
		}
		switch o.kind {
		case "set":
			n, err := tm.SetFuncName(o.name, pool[o.t].Typs...)
			if err != nil {
				e := c11.ErrSexp(0, err.Error()) // (err 0 kind ...) -> (err kind ...)
				b.WriteString("(err" + strings.TrimPrefix(e, "(err 0"))
			} else {
				b.WriteString("(ok " + n + ")")
			}
		case "get":
			b.WriteString("(name " + tm.GetFuncName(pool[o.t].Typs...) + ")")
		case "gen":
			func() {
				defer func() {
					if recover() != nil {
						b.WriteString("(panic)")
					}
				}()
				tm.Generating(pool[o.t].Typs...)
				b.WriteString("(ok)")
			}()
		case "togen":
			b.WriteByte('(')
			for j, typs := range tm.ToGenerate() {
				if j > 0 {
					b.WriteByte(' ')
				}
				fmt.Fprint(&b, poolIndex(pool, typs))
			}
			b.WriteByte(')')
		case "done":
			if tm.Done() {
				b.WriteByte('1')
			} else {
				b.WriteByte('0')
			}
		}
	}
	b.WriteByte(')')
	return b.String()
}

func b01(b bool) int {
	if b {
		return 1
	}
	return 0
}

func runOps(cfg hx.Config, meta *hx.Meta) []string {
	r := hx.NewRand(cfg.Seed ^ 0xC08)
	pool := Pool()
	prefix := "deriveEqual"
	nseq, replays := 3000, 32
	if cfg.Tier == "thorough" {
		nseq = 20000
	}
	names := []string{prefix, prefix + "_", prefix + "S1", prefix + "S2", prefix + "X", prefix + "_1"}
	var seqs [][]op
	var flags [][2]bool
	var reserveds [][]string
	// corpus: the S1/S2/[]int witness and the asymmetric chan / interface cases, first
	corpus := [][]op{
		{{"set", prefix + "S1", 0}, {"set", prefix + "S2", 1}, {"get", "", 2}, {"gen", "", 2}, {"togen", "", 0}, {"done", "", 0}},
		{{"set", prefix + "S1", 10}, {"set", prefix + "S2", 12}, {"get", "", 11}, {"get", "", 11}, {"togen", "", 0}},
		{{"set", prefix + "X", 5}, {"set", prefix, 6}, {"get", "", 4}, {"gen", "", 4}, {"done", "", 0}},
		{{"set", prefix + "S1", 7}, {"set", prefix + "X", 6}, {"get", "", 8}, {"set", prefix + "_", 8}, {"togen", "", 0}},
	}
	for _, c := range corpus {
		for _, f := range [][2]bool{{false, false}, {true, true}} {
			seqs = append(seqs, c)
			flags = append(flags, f)
			reserveds = append(reserveds, []string{})
		}
	}
	for i := 0; i < nseq; i++ {
		n := 3 + r.Intn(10)
		// a working subset of the pool makes collisions between related types frequent
		sub := make([]int, 0, 5)
		for len(sub) < 2+r.Intn(4) {
			sub = append(sub, r.Intn(len(pool)))
		}
		var ops []op
		for j := 0; j < n; j++ {
			t := hx.Pick(r, sub)
			switch k := r.Intn(10); {
			case k < 4:
				ops = append(ops, op{"set", hx.Pick(r, names), t})
			case k < 7:
				ops = append(ops, op{"get", "", t})
			case k < 8:
				ops = append(ops, op{"gen", "", t})
			case k < 9:
				ops = append(ops, op{"togen", "", 0})
			default:
				ops = append(ops, op{"done", "", 0})
			}
		}
		seqs = append(seqs, ops)
		flags = append(flags, [2]bool{r.Bool(), r.Bool()})
		if r.Intn(3) == 0 {
			reserveds = append(reserveds, []string{prefix + "_", prefix + "_S"})
		} else {
			reserveds = append(reserveds, []string{})
		}
	}
	lines := make([]string, len(seqs))
	var mu sync.Mutex
	hx.Parallel(len(seqs), 8, func(i int) {
		ops := seqs[i]
		// user-spelled names must not be reserved (an identifier resolves to one object)
		resv := reserveds[i]
		for _, o := range ops {
			for _, x := range resv {
				if o.kind == "set" && o.name == x {
					resv = []string{}
				}
			}
		}
		ctx := &c11.Ctx{Pool: pool, Prefixes: []string{prefix}, Reserved: resv}
		distinct := []string{}
		seen := map[string]bool{}
		for k := 0; k < replays; k++ {
			t := replay(pool, prefix, resv, flags[i][0], flags[i][1], ops)
			if !seen[t] {
				seen[t] = true
				distinct = append(distinct, t)
			}
		}
		var ob strings.Builder
		ob.WriteByte('(')
		for j, o := range ops {
			if j > 0 {
				ob.WriteByte(' ')
			}
			ob.WriteString(o.sexp())
		}
		ob.WriteByte(')')
		lines[i] = fmt.Sprintf("(ops %s (flags %d %d) %s (answers %s))", ctx.Sexp(), b01(flags[i][0]), b01(flags[i][1]),
			ob.String(), strings.Join(distinct, " "))
		mu.Lock()
		if len(distinct) > 1 {
			meta.Count("ops/sequences with more than one answer trace over 32 replays")
		} else {
			meta.Count("ops/sequences with one answer trace over 32 replays")
		}
		mu.Unlock()
	})
	meta.Sample(hx.Truncate(lines[0], 1200))
	return lines
}

// ---------------------------------------------------------------------------------------
// (S1b) sortPlugins
// ---------------------------------------------------------------------------------------

var reNewPlugin = regexp.MustCompile(`derive\.NewPlugin\("(\w+)",\s*"(\w+)"`)

func defaultPrefixes(repo string) []string {
	var out []string
	files, _ := filepath.Glob(filepath.Join(repo, "plugin", "*", "*.go"))
	for _, f := range files {
		b, err := os.ReadFile(f)
		if err != nil {
			continue
		}
		for _, m := range reNewPlugin.FindAllStringSubmatch(string(b), -1) {
			out = append(out, m[2])
		}
	}
	sort.Strings(out)
	var u []string
	for i, s := range out {
		if i == 0 || s != out[i-1] {
			u = append(u, s)
		}
	}
	return u
}

func runSortPlugins(cfg hx.Config, meta *hx.Meta) []string {
	r := hx.NewRand(cfg.Seed ^ 0x50F7)
	def := defaultPrefixes(cfg.Repo)
	sets := [][]string{def}
	var glob []string
	for _, p := range def {
		glob = append(glob, strings.Replace(p, "derive", "gen", 1))
	}
	sets = append(sets, glob)
	sets = append(sets, []string{"d", "de", "der", "deriveS", "deriveSo", "deriveSort", "deriveSorted", "deriveSet", "deriveSeq", "x", "y", "zz", "za"})
	nsets, nperm := 6, 12
	if cfg.Tier == "thorough" {
		nsets, nperm = 40, 40
	}
	for i := 0; i < nsets; i++ {
		// random per-plugin overrides: short prefixes of equal lengths, nested prefixes
		seen := map[string]bool{}
		var s []string
		for len(s) < 4+r.Intn(12) {
			n := 1 + r.Intn(4)
			var b strings.Builder
			for j := 0; j < n; j++ {
				b.WriteByte("abS"[r.Intn(3)])
			}
			p := b.String()
			if r.Intn(3) == 0 && len(s) > 0 {
				p = hx.Pick(r, s) + p
			}
			if !seen[p] {
				seen[p] = true
				s = append(s, p)
			}
		}
		sets = append(sets, s)
	}
	var lines []string
	for si, set := range sets {
		if len(set) == 0 {
			continue
		}
		var first string
		for k := 0; k < nperm; k++ {
			in := append([]string(nil), set...)
			if k > 0 {
				hx.Shuffle(r, in)
			}
			ps := make([]derive.Plugin, len(in))
			for i, p := range in {
				ps[i] = derive.NewPlugin(fmt.Sprintf("n%d", i), p, nil)
			}
			derive.VerifSortPlugins(ps)
			out := make([]string, len(ps))
			for i, p := range ps {
				out[i] = p.GetPrefix()
			}
			res := strings.Join(out, " ")
			if k == 0 {
				first = res
			} else if res != first {
				meta.AddDirect(hx.Direct{Class: "c08-sortplugins-order", What: "sortPlugins gives different results for two listings of the same prefixes",
					Cmd: "sortPlugins", Output: "listing: " + strings.Join(in, " ") + "\nresult:  " + res + "\nbefore:  " + first})
			}
			lines = append(lines, fmt.Sprintf("(sortplugins (%s) (%s))", strings.Join(in, " "), res))
		}
		meta.Count(fmt.Sprintf("sortplugins/set %d of %d prefixes x %d listings", si, len(set), nperm))
	}
	meta.Sample(hx.Truncate(lines[len(lines)-1], 600))
	return lines
}

// ---------------------------------------------------------------------------------------
// (S1c) printer.WriteTo import block
// ---------------------------------------------------------------------------------------

var reImportLine = regexp.MustCompile(`^\t(?:(\S+) )?"([^"]+)"$`)

func runImports(cfg hx.Config, meta *hx.Meta) []string {
	r := hx.NewRand(cfg.Seed ^ 0x1A907)
	paths := []string{"bytes", "fmt", "strings", "sort", "strconv", "unsafe", "math", "reflect", "github.com/x/y", "github.com/x/z", "a/b/c", "a/b/d", "zz", "m/a", "m/b"}
	ntab, nrep := 40, 8
	if cfg.Tier == "thorough" {
		ntab, nrep = 400, 16
	}
	var lines []string
	for i := 0; i < ntab; i++ {
		n := 1 + r.Intn(7)
		ps := append([]string(nil), paths...)
		hx.Shuffle(r, ps)
		ps = ps[:n]
		type pair struct{ alias, path string }
		var tab []pair
		used := map[string]bool{}
		for _, p := range ps {
			alias := p[strings.LastIndex(p, "/")+1:]
			if r.Intn(4) == 0 {
				alias = "q" + alias
			}
			if used[alias] {
				alias = alias + fmt.Sprint(len(tab))
			}
			used[alias] = true
			tab = append(tab, pair{alias, p})
		}
		var first string
		for k := 0; k < nrep; k++ {
			in := append([]pair(nil), tab...)
			hx.Shuffle(r, in)
			pr := derive.VerifNewPrinter("p")
			for _, e := range in {
				pr.NewImport(e.alias, e.path)()
			}
			pr.P("var x = 1")
			var buf bytes.Buffer
			pr.WriteTo(&buf)
			var block []string
			inBlock := false
			for _, l := range strings.Split(buf.String(), "\n") {
				if l == "import (" {
					inBlock = true
					continue
				}
				if inBlock && l == ")" {
					break
				}
				if inBlock {
					m := reImportLine.FindStringSubmatch(l)
					if m == nil {
						block = append(block, "(unparsed)")
					} else if m[1] == "" {
						block = append(block, "("+m[2]+")")
					} else {
						block = append(block, "("+m[1]+" "+m[2]+")")
					}
				}
			}
			res := strings.Join(block, " ")
			if k == 0 {
				first = res
			} else if res != first {
				meta.AddDirect(hx.Direct{Class: "c08-imports-order", What: "the import block differs between two runs over the same import table",
					Cmd: "printer.WriteTo", Output: res + "\nvs\n" + first})
			}
			var ib strings.Builder
			for j, e := range in {
				if j > 0 {
					ib.WriteByte(' ')
				}
				ib.WriteString("(" + e.alias + " " + e.path + ")")
			}
			lines = append(lines, fmt.Sprintf("(imports (%s) (%s))", ib.String(), res))
		}
		meta.Count(fmt.Sprintf("imports/tables of %d", n))
	}
	meta.Sample(hx.Truncate(lines[0], 600))
	return lines
}

// ---------------------------------------------------------------------------------------
// (B) end to end: bytes of derived.gen.go over runs and invocation variants
// ---------------------------------------------------------------------------------------

// genPackage writes a package whose derive calls request many helpers from several plugins over
// mutually assignable named and unnamed types.
func genPackage(r *hx.Rand, name string, imp string) (string, string) {
	var b strings.Builder
	fmt.Fprintf(&b, "package %s\n\n", name)
	if imp != "" {
		fmt.Fprintf(&b, "import %q\n\n", imp)
	}
	b.WriteString("type S1 []int\n\ntype S2 []int\n\ntype M1 map[string]int\n\ntype M2 map[string]int\n\ntype L1 []string\n\ntype L2 []string\n\n")
	fieldTypes := []string{"[]int", "S1", "S2", "map[string]int", "M1", "M2", "[]string", "L1", "L2", "int", "string", "*int", "[][]int", "[]S1", "map[string][]int", "[2]int"}
	nst := 2 + r.Intn(4)
	for i := 0; i < nst; i++ {
		fmt.Fprintf(&b, "type T%d struct {\n", i)
		nf := 2 + r.Intn(6)
		for j := 0; j < nf; j++ {
			ft := hx.Pick(r, fieldTypes)
			if r.Intn(6) == 0 {
				ft = fmt.Sprintf("*T%d", r.Intn(nst))
			}
			fmt.Fprintf(&b, "\tF%d %s\n", j, ft)
		}
		if imp != "" && i == 0 {
			fmt.Fprintf(&b, "\tExt *%s.T0\n", filepath.Base(imp))
		}
		b.WriteString("}\n\n")
	}
	// calls: the named twins first or last (registration order matters for the old nameOf)
	var calls []string
	twins := []string{
		"deriveEqualS1(S1{}, S1{})", "deriveEqualS2(S2{}, S2{})",
		"deriveCompareS2(S2{}, S2{})", "deriveCompareS1(S1{}, S1{})",
		"deriveHashM1(M1{})", "deriveHashM2(M2{})",
		"deriveEqualL2(L2{}, L2{})", "deriveEqualL1(L1{}, L1{})",
		"deriveKeysM2(M2{})", "deriveKeysM1(M1{})",
		"deriveSortI([]int{})", "deriveSortS([]string{})",
	}
	for _, t := range twins {
		if r.Intn(4) != 0 {
			calls = append(calls, t)
		}
	}
	plugs := []string{"deriveEqualT%d(&T%d{}, &T%d{})", "deriveCompareT%d(&T%d{}, &T%d{})", "deriveHashT%d(&T%d{})", "deriveDeepCopyT%d(&T%d{}, &T%d{})", "deriveCloneT%d(&T%d{})", "deriveGoStringT%d(&T%d{})"}
	for i := 0; i < nst; i++ {
		for _, p := range plugs {
			if r.Intn(3) != 0 {
				n := strings.Count(p, "%d")
				args := make([]interface{}, n)
				for k := range args {
					args[k] = i
				}
				calls = append(calls, fmt.Sprintf(p, args...))
			}
		}
	}
	if r.Bool() {
		calls = append(calls, "deriveUnique([]int{})", "deriveSet([]string{})", "deriveContains([]int{}, 1)", "deriveUnion([]int{}, []int{})")
	}
	hx.Shuffle(r, calls)
	// nested calls, spelled identically in every package of the module (the outer call is only typed
	// after a first generation pass)
	// (kept out of these packages: a reload type-checks the imports of derived.gen.go from source, ~1.5 s;
	// the import-free module "nested" below carries them)
	emit := func(b *strings.Builder, fn string, cs []string) {
		fmt.Fprintf(b, "func %s() {\n", fn)
		for _, c := range cs {
			if strings.HasPrefix(c, "deriveDeepCopy") {
				fmt.Fprintf(b, "\t%s\n", c)
			} else {
				fmt.Fprintf(b, "\t_ = %s\n", c)
			}
		}
		b.WriteString("}\n")
	}
	// the calls are spread over two source files
	h := len(calls) / 2
	emit(&b, "use", calls[:h])
	var b2 strings.Builder
	fmt.Fprintf(&b2, "package %s\n\n", name)
	emit(&b2, "use2", calls[h:])
	return b.String(), b2.String()
}

type variant struct {
	name string
	dir  string // relative to the module root
	args []string
}

func runE2E(cfg hx.Config, meta *hx.Meta) ([]string, error) {
	r := hx.NewRand(cfg.Seed ^ 0xE2E08)
	nmod, nruns := 10, 8
	if cfg.Tier == "thorough" {
		nmod, nruns = 40, 64
	}
	var lines []string
	var mu sync.Mutex
	// the S1/S2/[]int witness of the pinned nameOf, as a package (regression corpus)
	witness := "package a\n\ntype S1 []int\n\ntype S2 []int\n\ntype T struct {\n\tX []int\n}\n\nfunc f(a, b S1, c, d S2, e, g *T) bool {\n\treturn deriveEqualS1(a, b) && deriveEqualS2(c, d) && deriveEqualT(e, g)\n}\n"
	mods := make([]map[string]string, 0, nmod+1)
	mods = append(mods, map[string]string{"a/a.go": witness, "b/b.go": strings.Replace(witness, "package a", "package b", 1)})
	// regression corpus: every sub-directory of corpus/C08 is a package `a` (a copy is package b)
	if ents, err := os.ReadDir(cfg.Corpus); err == nil {
		for _, e := range ents {
			if !e.IsDir() {
				continue
			}
			src, err := os.ReadFile(filepath.Join(cfg.Corpus, e.Name(), "a.go"))
			if err != nil {
				continue
			}
			mods = append(mods, map[string]string{"a/a.go": string(src), "b/b.go": strings.Replace(string(src), "package a", "package b", 1)})
		}
	}
	ncorpus := len(mods)
	modFlags := map[int][]string{}
	// nested plugin prefixes: which plugin answers a call must not depend on the iteration order of a map
	nestedSrc := "package a\n\nfunc f(xs []int, ys []string, m map[string]int) {\n\t_ = sortUniqIDs(xs)\n\t_ = sortX(ys)\n\t_ = sortUniq(ys)\n\t_ = kk(m)\n\t_ = kkSet(xs)\n}\n"
	mods = append(mods, map[string]string{"a/a.go": nestedSrc, "b/b.go": strings.Replace(nestedSrc, "package a", "package b", 1)})
	modFlags[len(mods)-1] = []string{"-pluginprefix=sort=sort,unique=sortUniq,keys=kk,set=kkSet"}
	// nested calls, spelled identically in every package of the module: the outer call is only typed after a
	// first generation pass, so every package goes through the reload loop (no imports: a reload is cheap)
	nested := func(pk string) string {
		return "package " + pk + "\n\nfunc f(m map[string]bool, n map[int16][]int) {\n\t_ = deriveUnique(deriveKeys(m))\n\t_ = deriveSet(deriveUnique2(deriveKeys2(n)))\n\t_ = deriveContains(deriveKeys(m), \"x\")\n}\n"
	}
	mods = append(mods, map[string]string{"a/a.go": nested("a"), "b/b.go": nested("b"), "c/c.go": nested("c"), "c/k_other.go": "package c\n\nfunc g(m map[int]bool) { _ = deriveUnique3(deriveKeys3(m)) }\n"})
	// the same with one level of nesting only (one round of unresolved calls, the same text in each package)
	nested1 := func(pk, kt string) string {
		return "package " + pk + "\n\nfunc f(m map[" + kt + "]bool) {\n\t_ = deriveUnique(deriveKeys(m))\n}\n"
	}
	mods = append(mods, map[string]string{"a/a.go": nested1("a", "string"), "b/b.go": nested1("b", "int"), "c/c.go": nested1("c", "string")})
	// a directory that only holds an external test package (./... includes it) next to generated packages
	mods = append(mods, map[string]string{"a/a.go": nested1("a", "string"), "b/b.go": "package b\n\nfunc g(xs []int) []int { return deriveUnique(xs) }\n",
		"xt/x_test.go": "package xt_test\n\nimport \"testing\"\n\nfunc TestX(t *testing.T) {}\n"})
	ncorpus = len(mods)
	for i := 0; i < nmod; i++ {
		rr := r.Fork(uint64(i))
		m := map[string]string{}
		for _, pk := range [][2]string{{"a", ""}, {"b", "m/a"}, {"c", ""}} {
			f1, f2 := genPackage(rr, pk[0], pk[1])
			// file names whose directory order is unlikely to be alphabetical
			m[pk[0]+"/"+pk[0]+".go"] = f1
			m[pk[0]+"/zz_more.go"] = f2
			m[pk[0]+"/k_empty.go"] = "package " + pk[0] + "\n"
			m[pk[0]+"/m_doc.go"] = "// Package " + pk[0] + " is generated for the C08 battery.\npackage " + pk[0] + "\n"
		}
		mods = append(mods, m)
	}
	hx.Parallel(len(mods), 8, func(mi int) {
		files := mods[mi]
		root := filepath.Join(cfg.Work, fmt.Sprintf("c08-mod%d", mi), "m")
		os.MkdirAll(root, 0o755)
		os.WriteFile(filepath.Join(root, "go.mod"), []byte("module m\n\ngo 1.24\n"), 0o644)
		hx.WriteFiles(root, files)
		var pkgs []string
		seenDir := map[string]bool{}
		var extOnly []string // directories that hold nothing but an external test package
		for f := range files {
			if d := filepath.Dir(f); strings.HasPrefix(d, "xt") {
				if !seenDir[d] {
					seenDir[d] = true
					extOnly = append(extOnly, d)
				}
				continue
			}
			if d := filepath.Dir(f); !seenDir[d] {
				seenDir[d] = true
				pkgs = append(pkgs, d)
			}
		}
		sort.Strings(pkgs)
		rel := func(ps []string) []string {
			var o []string
			for _, p := range ps {
				o = append(o, "./"+p)
			}
			return o
		}
		rev := func(ps []string) []string {
			o := append([]string(nil), ps...)
			for i, j := 0, len(o)-1; i < j; i, j = i+1, j-1 {
				o[i], o[j] = o[j], o[i]
			}
			return o
		}
		imp := func(ps []string) []string {
			var o []string
			for _, p := range ps {
				o = append(o, "m/"+p)
			}
			return o
		}
		var variants []variant
		for k := 0; k < nruns; k++ {
			variants = append(variants, variant{fmt.Sprintf("run%d ./...", k), ".", []string{"./..."}})
		}
		variants = append(variants,
			variant{"listed", ".", rel(pkgs)},
			variant{"listed-reversed", ".", rel(rev(pkgs))},
			variant{"import-paths", ".", imp(pkgs)},
			variant{"import-paths-reversed", ".", imp(rev(pkgs))},
		)
		// a directory without source files of its own named next to a real package, from inside that package
		for _, x := range extOnly {
			for _, p := range pkgs {
				variants = append(variants,
					variant{"inside " + p + " with ../" + x, p, []string{".", "../" + x}},
					variant{"inside " + p + " after ../" + x, p, []string{"../" + x, "."}},
				)
			}
		}
		// "every run": also runs that start from the file the previous run left behind
		variants = append(variants,
			variant{"again ./... (over the previous output)", ".", []string{"./..."}},
			variant{"again import-paths (over the previous output)", ".", imp(pkgs)},
		)
		for _, p := range pkgs {
			variants = append(variants,
				variant{"alone ./" + p, ".", []string{"./" + p}},
				variant{"alone m/" + p, ".", []string{"m/" + p}},
				variant{"inside " + p, p, []string{"."}},
			)
		}
		// per package: sha -> first variant that produced it (and the bytes)
		type seenT struct {
			variant string
			text    string
		}
		seen := map[string]map[string]seenT{}
		exits := map[string]map[int]string{}
		nrun := 0
		for _, v := range variants {
			if !strings.HasPrefix(v.name, "again ") {
				for _, p := range pkgs {
					os.Remove(filepath.Join(root, p, "derived.gen.go"))
				}
			}
			g := hx.Goderive(cfg.Goderive, filepath.Join(root, v.dir), append(append([]string{}, modFlags[mi]...), v.args...)...)
			nrun++
			if g.TimedOut {
				// a hang is reported once; the remaining invocations of this module are skipped
				// (each would cost another 30 s)
				fs := map[string]string{"go.mod": "module m\n\ngo 1.24\n"}
				for f, t := range files {
					fs[f] = t
				}
				mu.Lock()
				meta.AddDirect(hx.Direct{Class: "c08-hang", What: "goderive does not terminate on a package with mutually assignable named types (" + v.name + ")",
					Files: fs, Cmd: "goderive " + strings.Join(v.args, " "), Output: hx.Truncate(g.Out, 1500)})
				meta.GoderiveRuns += nrun
				mu.Unlock()
				return
			}
			// which packages did this variant address?
			addressed := pkgs
			if strings.HasPrefix(v.name, "alone ") || strings.HasPrefix(v.name, "inside ") {
				f := strings.Fields(v.name)[1]
				f = strings.TrimPrefix(strings.TrimPrefix(f, "./"), "m/")
				addressed = []string{f}
			}
			for _, p := range addressed {
				b, err := os.ReadFile(filepath.Join(root, p, "derived.gen.go"))
				text := string(b)
				if err != nil {
					text = fmt.Sprintf("<no derived.gen.go; goderive exit %d>\n%s", g.Exit, hx.Truncate(g.Out, 1500))
					if g.Exit != 0 && len(addressed) > 1 {
						// a failing multi-package invocation stops at the first failing package, in
						// unspecified order: which siblings were written is not determined (DESIGN C08)
						continue
					}
				}
				h := fmt.Sprintf("%x", sha256.Sum256([]byte(text)))
				if err != nil {
					h = fmt.Sprintf("exit%d", g.Exit)
				}
				if seen[p] == nil {
					seen[p] = map[string]seenT{}
					exits[p] = map[int]string{}
				}
				if _, ok := seen[p][h]; !ok {
					seen[p][h] = seenT{v.name, text}
				}
			}
		}
		mu.Lock()
		defer mu.Unlock()
		meta.GoderiveRuns += nrun
		meta.Packages += len(pkgs)
		for _, p := range pkgs {
			cls := "generated"
			if mi < ncorpus {
				cls = "corpus-witness"
			}
			lines = append(lines, fmt.Sprintf("(runs %s %d %d)", cls, len(variants), len(seen[p])))
			meta.Count(fmt.Sprintf("e2e/%s package: %d invocations", cls, len(variants)))
			if len(seen[p]) > 1 {
				fs := map[string]string{"go.mod": "module m\n\ngo 1.24\n"}
				for f, t := range files {
					fs[f] = t
				}
				var what []string
				k := 0
				for _, s := range seen[p] {
					fs[fmt.Sprintf("%s/derived.gen.go.%d", p, k)] = s.text
					what = append(what, s.variant)
					k++
				}
				sort.Strings(what)
				meta.AddDirect(hx.Direct{Class: "c08-bytes-differ",
					What:   fmt.Sprintf("derived.gen.go of package %s differs between invocations of goderive on identical sources (%d distinct outputs)", p, len(seen[p])),
					Files:  fs,
					Cmd:    "goderive " + strings.Join(what, "  |  goderive "),
					Output: "first invocations producing each distinct output: " + strings.Join(what, "; ")})
			}
		}
	})
	sort.Strings(lines)
	return lines, nil
}
