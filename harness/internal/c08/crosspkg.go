package c08

// (B2) end to end, packages that depend on each other's GENERATED code: package a imports package b and a
// derive call of a takes an argument whose type only exists once b has been generated
// (b: var Names = deriveKeys(M); a: deriveContains(b.Names, s)).  The property quantifies over "all
// groupings/orderings/spellings of package arguments": per package the bytes must be the same whether the
// package is generated alone (its dependencies generated before it), together with its dependencies in any
// order and spelling, from scratch, over the previous output, or with only some of the files present; and no
// such invocation may fail.
//
// Classes covered (fixed modules + generated ones): import chains of two and three packages, a package with
// two independent dependencies, dependencies that need the reload loop themselves (nested calls),
// dependents with nested calls of their own, dependents with and without a call that can always be
// generated, dependents that need helper functions whose names goderive mints itself (their names must not
// depend on how often the package was reloaded), a dependent with an external test package in its directory.

import (
	"bytes"
	"fmt"
	"os"
	"path/filepath"
	"sort"
	"strings"
	"sync"

	"verifharness/internal/hx"
)

type crossMod struct {
	name  string
	files map[string]string
	pkgs  []string          // dependencies first
	older map[string]string // an earlier version of the same sources: the type that flows through the packages differs
}

// olderOf: the fixed modules with another key type in the root map (and what has to follow in the user's code).
func olderOf(files map[string]string) map[string]string {
	o := map[string]string{}
	rep := strings.NewReplacer("map[string]int{}", "map[uint16]int{}", "(s string)", "(s uint16)", "Has(\"x\")", "Has(7)",
		"map[int64]bool{}", "map[uint16]bool{}", "Ks() []int64", "Ks() []uint16", "U() []string", "U() []uint16")
	for f, t := range files {
		o[f] = rep.Replace(t)
	}
	return o
}

// minted: a struct whose deriveEqual needs helper functions with minted names (deriveEqual_, deriveEqual_1, ...)
const crossMinted = "type U struct{ N int }\n\ntype T struct {\n\tP     *U\n\tNames []string\n\tM     map[string][]int\n}\n\nfunc Eq(x, y *T) bool { return deriveEqual(x, y) }\n\n"

func crossFixed() []crossMod {
	ms := crossFixedNew()
	for i := range ms {
		ms[i].older = olderOf(ms[i].files)
	}
	return ms
}

func crossFixedNew() []crossMod {
	b := "package b\n\nvar M = map[string]int{}\n\nvar Names = deriveKeys(M)\n"
	return []crossMod{
		{"generated-type-of-an-import+minted-helpers", map[string]string{
			"b/b.go": b,
			"a/a.go": "package a\n\nimport \"m/b\"\n\n" + crossMinted + "func Has(s string) bool { return deriveContains(b.Names, s) }\n",
		}, []string{"b", "a"}, nil},
		{"every-call-depends-on-the-import", map[string]string{
			"b/b.go": b,
			"a/a.go": "package a\n\nimport \"m/b\"\n\nfunc Has(s string) bool { return deriveContains(b.Names, s) }\n\nfunc U() []string { return deriveUnique(b.Names) }\n",
		}, []string{"b", "a"}, nil},
		{"nested-calls-in-the-import", map[string]string{
			"b/b.go": "package b\n\nvar M = map[string]int{}\n\nvar Names = deriveUnique(deriveKeys(M))\n",
			"a/a.go": "package a\n\nimport \"m/b\"\n\n" + crossMinted + "func Has(s string) bool { return deriveContains(b.Names, s) }\n",
		}, []string{"b", "a"}, nil},
		{"chain-of-three+own-nested-calls", map[string]string{
			"c/c.go": "package c\n\nvar M = map[int64]bool{}\n\nvar Keys = deriveKeys(M)\n",
			"b/b.go": "package b\n\nimport \"m/c\"\n\ntype V struct {\n\tA []int64\n\tB *V\n}\n\nvar Set = deriveSet(c.Keys)\n\nfunc Eq(x, y *V) bool { return deriveEqual(x, y) }\n",
			"a/a.go": "package a\n\nimport \"m/b\"\n\n" + crossMinted + "func Ks() []int64 { return deriveKeys(b.Set) }\n\nfunc Own(m map[string]bool) map[string]struct{} { return deriveSetS(deriveKeysS(m)) }\n",
		}, []string{"c", "b", "a"}, nil},
		{"two-independent-imports", map[string]string{
			"b/b.go": b,
			"c/c.go": "package c\n\nvar M = map[int]string{}\n\nvar Keys = deriveKeys(M)\n",
			"a/a.go": "package a\n\nimport (\n\t\"m/b\"\n\t\"m/c\"\n)\n\n" + crossMinted + "func HasB(s string) bool { return deriveContainsB(b.Names, s) }\n\nfunc HasC(i int) bool { return deriveContainsC(c.Keys, i) }\n",
		}, []string{"b", "c", "a"}, nil},
		{"dependent-with-external-test-package", map[string]string{
			"b/b.go":          b,
			"a/a.go":          "package a\n\nimport \"m/b\"\n\n" + crossMinted + "func Has(s string) bool { return deriveContains(b.Names, s) }\n",
			"a/a_ext_test.go": "package a_test\n\nimport \"m/a\"\n\nfunc use() bool { return a.Has(\"x\") }\n",
		}, []string{"b", "a"}, nil},
		// the usual reason for an external test package: the test of b needs a, which imports b.  package b_test
		// shares the directory (and derived.gen.go) of b; it has no derive calls and must not remove what b got
		{"external-test-package-of-the-import-imports-the-dependent", map[string]string{
			"b/b.go":          b,
			"b/b_ext_test.go": "package b_test\n\nimport \"m/a\"\n\nfunc use() bool { return a.Has(\"x\") }\n",
			"a/a.go":          "package a\n\nimport \"m/b\"\n\n" + crossMinted + "func Has(s string) bool { return deriveContains(b.Names, s) }\n",
		}, []string{"b", "a"}, nil},
	}
}

// crossRandom draws a module from the class: chain length, nesting in the dependencies, what the dependent
// needs besides the imported type.
func crossRandom(r *hx.Rand, i int, elem string) crossMod {
	keys := []string{"string", "int", "int64", "float64", "uint8"}
	n := 2 + r.Intn(2)
	names := []string{"c", "b", "a"}[3-n:]
	files := map[string]string{}
	var feats []string
	prevVar, prevElem := "", ""
	for pi, p := range names {
		var s strings.Builder
		fmt.Fprintf(&s, "package %s\n\n", p)
		if pi > 0 {
			fmt.Fprintf(&s, "import \"m/%s\"\n\n", names[pi-1])
		}
		if pi == 0 {
			prevElem = hx.Pick(r, keys)
			if elem != "" {
				prevElem = elem // the earlier version of the module: same shape, another key type
			}
			fmt.Fprintf(&s, "var M = map[%s]bool{}\n\n", prevElem)
			if r.Bool() {
				s.WriteString("var Out = deriveUnique(deriveKeys(M))\n\n")
				feats = append(feats, "nested-root")
			} else {
				s.WriteString("var Out = deriveKeys(M)\n\n")
			}
		} else {
			// the imported, generated, slice type flows on: through a set and its keys, or is only consumed
			last := pi == len(names)-1
			switch {
			case !last:
				fmt.Fprintf(&s, "var Out = deriveKeys(deriveSet(%s.%s))\n\n", names[pi-1], prevVar)
				feats = append(feats, "nested-over-import")
			default:
				fmt.Fprintf(&s, "func Has(x %s) bool { return deriveContains(%s.%s, x) }\n\n", prevElem, names[pi-1], prevVar)
				if r.Bool() {
					fmt.Fprintf(&s, "func Un() []%s { return deriveUnique(%s.%s) }\n\n", prevElem, names[pi-1], prevVar)
				}
			}
		}
		prevVar = "Out"
		if r.Intn(3) != 0 {
			s.WriteString(crossMinted)
			feats = append(feats, p+":minted")
		}
		if r.Intn(3) == 0 {
			// key types of its own: the same type under two names (deriveKeys | deriveKeysOwn) is rightly refused
			fmt.Fprintf(&s, "func Own(m map[%s]bool) int { return len(deriveSetOwn(deriveKeysOwn(m))) }\n\n", hx.Pick(r, []string{"int16", "uint32", "float32", "uint64", "int8"}))
			feats = append(feats, p+":own-nested")
		}
		files[p+"/"+p+".go"] = s.String()
		if r.Intn(3) == 0 {
			// an external test package in the directory, which imports the last package of the chain
			l := names[len(names)-1]
			files[p+"/"+p+"_ext_test.go"] = fmt.Sprintf("package %s_test\n\nimport \"m/%s\"\n\nfunc use() bool { var x %s; return %s.Has(x) }\n", p, l, prevElemOf(files, names), l)
			feats = append(feats, p+":external-test-imports-"+l)
		}
	}
	sort.Strings(feats)
	return crossMod{fmt.Sprintf("generated-%d(%d packages %s)", i, n, strings.Join(feats, ",")), files, names, nil}
}

// prevElemOf: the key type of the root map of a generated module (the parameter type of the last package's Has).
func prevElemOf(files map[string]string, names []string) string {
	src := files[names[0]+"/"+names[0]+".go"]
	i := strings.Index(src, "map[")
	j := strings.Index(src[i:], "]")
	return src[i+4 : i+j]
}

func runCross(cfg hx.Config, meta *hx.Meta) []string {
	r := hx.NewRand(cfg.Seed ^ 0xC4055)
	mods := crossFixed()
	nrand, reps := 4, 3
	if cfg.Tier == "thorough" {
		nrand, reps = 24, 8
	}
	for i := 0; i < nrand; i++ {
		seed := r.U64()
		m := crossRandom(hx.NewRand(seed), i, "")
		m.older = crossRandom(hx.NewRand(seed), i, "int32").files
		mods = append(mods, m)
	}
	var mu sync.Mutex
	var lines []string
	hx.Parallel(len(mods), 8, func(mi int) {
		m := mods[mi]
		root := filepath.Join(cfg.Work, fmt.Sprintf("c08-cross%d", mi), "m")
		os.MkdirAll(root, 0o755)
		os.WriteFile(filepath.Join(root, "go.mod"), []byte("module m\n\ngo 1.24\n"), 0o644)
		hx.WriteFiles(root, m.files)
		gen := func(p string) string { return filepath.Join(root, p, "derived.gen.go") }
		fs := func() map[string]string {
			o := map[string]string{"go.mod": "module m\n\ngo 1.24\n"}
			for f, t := range m.files {
				o[f] = t
			}
			return o
		}
		nrun := 0
		failed := 0
		direct := func(d hx.Direct) {
			mu.Lock()
			if failed < 3 {
				meta.AddDirect(d)
			}
			failed++
			mu.Unlock()
		}
		run := func(dir string, args ...string) hx.RunResult {
			nrun++
			return hx.Goderive(cfg.Goderive, filepath.Join(root, dir), args...)
		}
		// the output for an earlier version of the sources (generated package by package, dependencies first)
		var stale map[string][]byte
		if m.older != nil {
			hx.WriteFiles(root, m.older)
			stale = map[string][]byte{}
			for _, p := range m.pkgs {
				g := run(".", "m/"+p)
				b, err := os.ReadFile(gen(p))
				if g.Exit != 0 || err != nil {
					stale = nil
					break
				}
				stale[p] = b
			}
			hx.WriteFiles(root, m.files)
			if stale == nil {
				mu.Lock()
				meta.Count("e2e/cross-package module without an earlier version (its generation failed)")
				mu.Unlock()
			}
		}
		// reference: every package by an invocation of its own, dependencies first
		ref := map[string][]byte{}
		for _, p := range m.pkgs {
			os.Remove(gen(p))
		}
		for _, p := range m.pkgs {
			g := run(".", "m/"+p)
			b, err := os.ReadFile(gen(p))
			if g.Exit != 0 || err != nil {
				direct(hx.Direct{Class: "c08-invocation-fails", What: fmt.Sprintf("%s: goderive m/%s (its dependencies generated before it) fails or writes nothing (exit %d)", m.name, p, g.Exit),
					Files: fs(), Cmd: "goderive m/" + p, Output: hx.Truncate(g.Out, 1500)})
				return
			}
			ref[p] = b
		}
		if vet := hx.GoVet(root, "", "./..."); vet.Exit != 0 {
			direct(hx.Direct{Class: "c08-cross-package-incomplete", What: m.name + ": every package generated alone, dependencies first, exit 0, but the module does not type-check",
				Files: fs(), Cmd: "goderive m/<p> for each package; go vet ./...", Output: hx.Truncate(vet.Out, 1500)})
		}
		restore := func() {
			for _, p := range m.pkgs {
				os.WriteFile(gen(p), ref[p], 0o644)
			}
		}
		type state struct {
			name   string
			remove []string
			stale  []string // packages whose derived.gen.go is the output for the earlier version of the sources
		}
		states := []state{{"from scratch", m.pkgs, nil}, {"over the previous output", nil, nil}}
		if stale != nil {
			states = append(states, state{"over the output for an earlier version of the sources", nil, m.pkgs})
			for _, p := range m.pkgs {
				states = append(states, state{"derived.gen.go of " + p + " is the output for an earlier version of the sources", nil, []string{p}})
			}
		}
		for _, p := range m.pkgs {
			states = append(states, state{"derived.gen.go of " + p + " missing", []string{p}, nil})
			var others []string
			for _, q := range m.pkgs {
				if q != p {
					others = append(others, q)
				}
			}
			if len(m.pkgs) > 2 {
				states = append(states, state{"only derived.gen.go of " + p + " present", others, nil})
			}
		}
		rel := func(ps []string, pre string) []string {
			var o []string
			for _, p := range ps {
				o = append(o, pre+p)
			}
			return o
		}
		rev := func(ps []string) []string {
			o := append([]string(nil), ps...)
			for i, j := 0, len(o)-1; i < j; i, j = i+1, j-1 {
				o[i], o[j] = o[j], o[i]
			}
			return o
		}
		last := m.pkgs[len(m.pkgs)-1]
		first := m.pkgs[0]
		var sibLast, sibFirst []string
		for _, q := range m.pkgs {
			if q != last {
				sibLast = append(sibLast, "../"+q)
			}
			if q != first {
				sibFirst = append(sibFirst, "../"+q)
			}
		}
		multi := []variant{
			{"./...", ".", []string{"./..."}},
			{"listed, dependencies first", ".", rel(m.pkgs, "./")},
			{"listed, dependents first", ".", rel(rev(m.pkgs), "./")},
			{"import paths, dependencies first", ".", rel(m.pkgs, "m/")},
			{"import paths, dependents first", ".", rel(rev(m.pkgs), "m/")},
			{"inside " + last + ", siblings by relative path", last, append([]string{"."}, sibLast...)},
			{"inside " + first + ", siblings by relative path", first, append(append([]string{}, sibFirst...), ".")},
			{"inside " + last + ": ../...", last, []string{"../..."}},
		}
		// per package: distinct contents seen (reference included)
		seen := map[string]map[string]string{}
		for _, p := range m.pkgs {
			seen[p] = map[string]string{string(ref[p]): "goderive m/" + p + " (alone, dependencies generated before)"}
		}
		nvar := 0
		check := func(what string, g hx.RunResult, cmd string, addressed []string) {
			nvar++
			if g.TimedOut {
				direct(hx.Direct{Class: "c08-hang", What: m.name + ": goderive does not terminate (" + what + ")", Files: fs(), Cmd: cmd, Output: hx.Truncate(g.Out, 1500)})
				return
			}
			if g.Exit != 0 {
				direct(hx.Direct{Class: "c08-invocation-fails",
					What:  fmt.Sprintf("%s: %s fails (exit %d) although every package of the module can be generated by an invocation of its own", m.name, what, g.Exit),
					Files: fs(), Cmd: cmd, Output: hx.Truncate(g.Out, 1500)})
			}
			for _, p := range m.pkgs {
				b, err := os.ReadFile(gen(p))
				text := string(b)
				if err != nil {
					text = fmt.Sprintf("<no derived.gen.go; goderive exit %d>", g.Exit)
				}
				if _, ok := seen[p][text]; !ok {
					seen[p][text] = what
				}
				if !bytes.Equal(b, ref[p]) || err != nil {
					in := false
					for _, q := range addressed {
						in = in || q == p
					}
					f := fs()
					f[p+"/derived.gen.go (generated alone, dependencies first)"] = string(ref[p])
					f[p+"/derived.gen.go (after this invocation)"] = text
					w := "differs from the one an invocation of its own writes"
					if !in {
						w = "was changed although the package was not named"
					}
					direct(hx.Direct{Class: "c08-bytes-differ",
						What:  fmt.Sprintf("%s: after %s, derived.gen.go of package %s %s (goderive exit %d)", m.name, what, p, w, g.Exit),
						Files: f, Cmd: cmd, Output: hx.Truncate(g.Out, 1500)})
				}
			}
		}
		for _, v := range multi {
			for _, st := range states {
				n := 1
				if st.name == "from scratch" {
					n = reps // the loader hands the packages over in map order
				}
				for k := 0; k < n; k++ {
					restore()
					for _, p := range st.remove {
						os.Remove(gen(p))
					}
					for _, p := range st.stale {
						os.WriteFile(gen(p), stale[p], 0o644)
					}
					g := run(v.dir, v.args...)
					check(fmt.Sprintf("goderive %s (%s; %s)", strings.Join(v.args, " "), v.name, st.name), g, "goderive "+strings.Join(v.args, " "), m.pkgs)
				}
			}
		}
		// each package alone, however it is spelled; its dependencies are generated
		for _, p := range m.pkgs {
			for _, v := range []variant{{"alone ./" + p, ".", []string{"./" + p}}, {"alone m/" + p, ".", []string{"m/" + p}}, {"inside " + p, p, []string{"."}}} {
				for own := 0; own < 3; own++ {
					restore()
					st := "over the previous output"
					if own == 1 {
						os.Remove(gen(p))
						st = "its derived.gen.go missing"
					}
					if own == 2 {
						if stale == nil {
							continue
						}
						os.WriteFile(gen(p), stale[p], 0o644)
						st = "its derived.gen.go is the output for an earlier version of the sources"
					}
					g := run(v.dir, v.args...)
					check(fmt.Sprintf("goderive %s (%s; %s)", strings.Join(v.args, " "), v.name, st), g, "goderive "+strings.Join(v.args, " "), []string{p})
				}
			}
		}
		mu.Lock()
		defer mu.Unlock()
		meta.GoderiveRuns += nrun
		meta.Packages += len(m.pkgs)
		cls := "cross-package-generated"
		if mi < len(crossFixed()) {
			cls = "cross-package-fixed"
		}
		for _, p := range m.pkgs {
			lines = append(lines, fmt.Sprintf("(runs %s %d %d)", cls, nvar+1, len(seen[p])))
		}
		meta.Count(fmt.Sprintf("e2e/cross-package module %s: %d invocations", m.name, nvar+len(m.pkgs)))
	})
	sort.Strings(lines)
	if len(lines) > 0 {
		meta.Sample(lines[0])
	}
	return lines
}
