package c09

import (
	"bufio"
	"fmt"
	"os"
	"path/filepath"
	"sort"
	"strings"

	"verifharness/internal/hx"
)

// Run: the behavioural battery of C09.  Every case is a singleton package (one call of one
// plugin); the observation is  (run <plugin> (<argument types>) <class>)  where class is
// ok | badfile | adderr | generr | cannot | loaderr | crash.  Broken user files give
// (broken <mutation> <class>).
func Run(cfg hx.Config) (*hx.Meta, error) {
	meta := &hx.Meta{Property: "C09", Seed: cfg.Seed, Tier: cfg.Tier}
	r := hx.NewRand(cfg.Seed)

	corpus, err := loadCorpus(cfg.Corpus)
	if err != nil {
		return nil, err
	}
	cases := append(corpus, Cases(r.Fork(1), cfg.Tier)...)
	// de-duplicate (same plugin, same argument types)
	seen := map[string]bool{}
	var uniq []Case
	for _, c := range cases {
		k := c.Plugin + " " + c.ArgsSexp()
		valid := true
		for _, a := range c.Args {
			valid = valid && a.ValidArg()
			if a.K == "tup" && len(c.Args) > 1 {
				valid = false // a multi-valued call is only allowed as the single argument
			}
		}
		if !valid {
			continue // the user file itself would not type-check: covered by the broken-file battery
		}
		if !seen[k] {
			seen[k] = true
			uniq = append(uniq, c)
		}
	}
	cases = uniq
	ntwin := 0
	for _, c := range Twins(r.Fork(3), cfg.Tier) {
		valid := true
		for _, a := range append(append([]*Ty{}, c.Args...), c.Second...) {
			valid = valid && a.ValidArg()
		}
		if valid {
			cases = append(cases, c)
			ntwin++
		}
	}

	outs := make([]Outcome, len(cases))
	srcs := make([]string, len(cases)) // rendered here: the renderer keeps its nesting depth in a package variable
	for i := range cases {
		srcs[i] = cases[i].Source()
	}
	hx.Parallel(len(cases), 16, func(i int) {
		dir := filepath.Join(cfg.Work, fmt.Sprintf("c%05d", i))
		outs[i] = RunFiles(cfg, dir, map[string]string{"u.go": srcs[i]}, false)
		if os.Getenv("C09_KEEP") == "" {
			os.RemoveAll(dir)
		}
	})

	obsPath := filepath.Join(cfg.Out, "c09-run.obs")
	f, err := os.Create(obsPath)
	if err != nil {
		return nil, err
	}
	w := bufio.NewWriter(f)
	var dump *bufio.Writer
	if p := os.Getenv("C09_DUMP"); p != "" {
		df, err := os.Create(p)
		if err != nil {
			return nil, err
		}
		defer df.Close()
		dump = bufio.NewWriter(df)
		defer dump.Flush()
	}
	detail := map[string]string{}
	for i, c := range cases {
		o := outs[i]
		if o.Class == "harness-error" {
			return nil, fmt.Errorf("C09 harness: %s", o.Detail)
		}
		kind := "run"
		if c.Second != nil {
			kind = "twin"
		}
		line := fmt.Sprintf("(%s %s %s %s)", kind, c.Plugin, c.ArgsSexp(), o.Class)
		fmt.Fprintln(w, line)
		meta.Count("class/" + strings.SplitN(c.Class, "/", 2)[0])
		meta.Count("plugin/" + c.Plugin)
		meta.Count("observed/" + o.Class)
		if o.Class == "crash" || o.Class == "badfile" {
			detail[line] = o.Detail
		}
		if dump != nil {
			fmt.Fprintf(dump, "%s\t%s\t%s\t%s\t%s\n", o.Class, c.Plugin, c.Class, c.ArgsSexp(), strings.ReplaceAll(hx.Truncate(o.Detail, 300), "\n", " | "))
		}
		if i%97 == 0 {
			meta.Sample(line)
		}
	}
	w.Flush()
	f.Close()
	meta.ObsFiles = append(meta.ObsFiles, obsPath)
	meta.Packages += len(cases)
	meta.GoderiveRuns += len(cases)
	meta.Cases += len(cases)

	// details of crashes / bad files, for the replay files (keyed by observation line)
	if len(detail) > 0 {
		keys := make([]string, 0, len(detail))
		for k := range detail {
			keys = append(keys, k)
		}
		sort.Strings(keys)
		df, err := os.Create(filepath.Join(cfg.Out, "c09-details.txt"))
		if err == nil {
			for _, k := range keys {
				fmt.Fprintf(df, "%s\n    %s\n", k, strings.ReplaceAll(detail[k], "\n", "\n    "))
			}
			df.Close()
		}
	}

	if err := runBroken(cfg, r.Fork(2), meta); err != nil {
		return nil, err
	}
	// round 5: runs over several packages (import graphs), instantiated generic types
	if err := runMulti(cfg, r.Fork(4), meta); err != nil {
		return nil, err
	}
	if err := runGinst(cfg, meta); err != nil {
		return nil, err
	}
	return meta, nil
}

// loadCorpus: corpus/C09/*.case — one case per line: <plugin> <args sexp>; parsed back into Ty.
func loadCorpus(dir string) ([]Case, error) {
	ents, err := os.ReadDir(dir)
	if err != nil {
		return nil, nil
	}
	var cs []Case
	for _, e := range ents {
		if !strings.HasSuffix(e.Name(), ".case") {
			continue
		}
		b, err := os.ReadFile(filepath.Join(dir, e.Name()))
		if err != nil {
			return nil, err
		}
		for _, line := range strings.Split(string(b), "\n") {
			line = strings.TrimSpace(line)
			if line == "" || strings.HasPrefix(line, "#") {
				continue
			}
			sp := strings.SplitN(line, " ", 2)
			if len(sp) != 2 {
				return nil, fmt.Errorf("corpus %s: bad line %q", e.Name(), line)
			}
			args, err := parseArgs(sp[1])
			if err != nil {
				return nil, fmt.Errorf("corpus %s: %v in %q", e.Name(), err, line)
			}
			cs = append(cs, Case{Plugin: sp[0], Args: args, Class: "corpus/" + strings.TrimSuffix(e.Name(), ".case")})
		}
	}
	return cs, nil
}
