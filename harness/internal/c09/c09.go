// Package c09: correspondence harness of C09 (stub: replaced when C09 is built).
package c09

import (
	"fmt"

	"verifharness/internal/hx"
)

func Run(cfg hx.Config) (*hx.Meta, error) {
	return nil, fmt.Errorf("C09: harness not built yet")
}
