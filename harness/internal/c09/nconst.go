package c09

import "fmt"

// nconst.go — "named constituents": the documented call shapes with a type literal INSIDE an
// argument replaced by a defined type over the same literal (`type N struct{}`, `type N int`,
// `type N <-chan string`, `type N func(string) bool`, …).
//
// Many Add functions compare a constituent with a type literal (`types.Identical(elem,
// struct{})` for the map form of union/intersect), type-assert a constituent (`.(*types.Chan)` on a
// function's result, `.(*types.Signature)` on a result of uncurry's argument) or take its underlying
// type.  Whether a defined type at that position is accepted, and whether the generated code copes with
// it when it is, is exactly what differs between `x` and `x.Underlying()` in the generator.  The
// substitution battery only replaces whole arguments, the twin battery only names whole arguments (and
// gives the two arguments of a call different names); a defined type one level down was never seen
// (seed m11: `map[string]void` handed to deriveUnion after IsEmptyStruct looked at the underlying type).
//
// For every call shape (Bases and TwinExtras) and every distinct type literal u occurring in it at any
// depth (arguments themselves included):
//   * consistent: every occurrence of u in the call becomes the same defined type N (so that whatever was
//     identical before still is: both arguments of union, the list and the function's parameter of fmap …)
//     — must-set of the quick tier for Bases;
//   * single: one occurrence of u becomes N, the other ones stay literals (where u occurs more than
//     once: the generator must not take N and its literal for the same type) — must-set for Bases.
// The same over the extra shapes (TwinExtras) and the channel-direction shapes (Directions) is a sampled pool.

// subterms: the distinct subterms of the argument list in order of first occurrence (depth first),
// with their number of occurrences.  Untyped constants and tuples (a multi-valued call) are not types
// that can be given a name; their components are visited.
func subterms(args []*Ty) (keys []string, terms map[string]*Ty, count map[string]int) {
	terms, count = map[string]*Ty{}, map[string]int{}
	var walk func(t *Ty)
	walk = func(t *Ty) {
		if !t.untyped() && t.K != "tup" {
			k := t.Sexp()
			if _, ok := terms[k]; !ok {
				terms[k] = t
				keys = append(keys, k)
			}
			count[k]++
		}
		if t.K == "n" {
			return // the definition of a defined type is not a position of the call
		}
		for _, l := range [][]*Ty{t.E, t.P, t.R} {
			for _, e := range l {
				walk(e)
			}
		}
	}
	for _, a := range args {
		walk(a)
	}
	return
}

// substNth: a copy of the argument list in which the n-th occurrence (depth first, from 0) of the
// subterm `from` is replaced by `to`.
func substNth(args []*Ty, from string, n int, to *Ty) []*Ty {
	seen := 0
	var sub func(t *Ty) *Ty
	sub = func(t *Ty) *Ty {
		if !t.untyped() && t.K != "tup" && t.Sexp() == from {
			seen++
			if seen-1 == n {
				return to
			}
		}
		if t.K == "n" {
			return t
		}
		c := *t
		cp := func(l []*Ty) []*Ty {
			if l == nil {
				return nil
			}
			o := make([]*Ty, len(l))
			for i, e := range l {
				o[i] = sub(e)
			}
			return o
		}
		c.E, c.P, c.R = cp(t.E), cp(t.P), cp(t.R)
		return &c
	}
	out := make([]*Ty, len(args))
	for i, a := range args {
		out[i] = sub(a)
	}
	return out
}

// substAllOcc: every occurrence of `from` outside definitions of defined types (cf. substTy, which also
// rewrites definitions: a definition is shared by all uses of the name and must stay what it is).
func substAllOcc(args []*Ty, from string, to *Ty) []*Ty {
	var sub func(t *Ty) *Ty
	sub = func(t *Ty) *Ty {
		if !t.untyped() && t.K != "tup" && t.Sexp() == from {
			return to
		}
		if t.K == "n" {
			return t
		}
		c := *t
		cp := func(l []*Ty) []*Ty {
			if l == nil {
				return nil
			}
			o := make([]*Ty, len(l))
			for i, e := range l {
				o[i] = sub(e)
			}
			return o
		}
		c.E, c.P, c.R = cp(t.E), cp(t.P), cp(t.R)
		return &c
	}
	out := make([]*Ty, len(args))
	for i, a := range args {
		out[i] = sub(a)
	}
	return out
}

// kindName: a short name of the literal that is given a name (distribution key).
func kindName(t *Ty) string {
	switch t.K {
	case "b":
		return t.B
	case "st":
		return fmt.Sprintf("struct%d", len(t.E))
	case "ch":
		return fmt.Sprintf("chan%d", t.N)
	case "n":
		return "named"
	}
	return t.K
}

// NamedConstituents: (must, pool).
func NamedConstituents() (must, pool []Case) {
	const id = 9000
	shapes := func(m map[string][][]*Ty, p string) [][]*Ty { return m[p] }
	bases, extras := Bases(), TwinExtras()
	gen := func(p string, base []*Ty, toMust bool) {
		keys, terms, count := subterms(base)
		for _, k := range keys {
			u := terms[k]
			n := Named(id, u)
			c := Case{Plugin: p, Args: substAllOcc(base, k, n), Class: "nconst/all/" + kindName(u)}
			if toMust {
				must = append(must, c)
			} else {
				pool = append(pool, c)
			}
			if count[k] > 1 {
				for i := 0; i < count[k]; i++ {
					c := Case{Plugin: p, Args: substNth(base, k, i, n), Class: "nconst/one/" + kindName(u)}
					if toMust {
						must = append(must, c)
					} else {
						pool = append(pool, c)
					}
				}
			}
		}
	}
	for _, p := range Plugins {
		for _, base := range shapes(bases, p) {
			gen(p, base, true)
		}
		for _, base := range shapes(extras, p) {
			gen(p, base, false)
		}
	}
	for _, c := range Directions() {
		gen(c.Plugin, c.Args, false)
	}
	return
}
