package c09

import (
	"fmt"
	"strconv"
	"strings"
)

// a tiny s-expression reader for the corpus files (the inverse of Ty.Sexp)
type sx struct {
	atom string
	list []*sx
	isL  bool
}

func readSx(s string) (*sx, error) {
	toks := strings.Fields(strings.NewReplacer("(", " ( ", ")", " ) ").Replace(s))
	pos := 0
	var rd func() (*sx, error)
	rd = func() (*sx, error) {
		if pos >= len(toks) {
			return nil, fmt.Errorf("unexpected end")
		}
		t := toks[pos]
		pos++
		if t == ")" {
			return nil, fmt.Errorf("unexpected )")
		}
		if t != "(" {
			return &sx{atom: t}, nil
		}
		l := &sx{isL: true}
		for {
			if pos >= len(toks) {
				return nil, fmt.Errorf("unclosed (")
			}
			if toks[pos] == ")" {
				pos++
				return l, nil
			}
			e, err := rd()
			if err != nil {
				return nil, err
			}
			l.list = append(l.list, e)
		}
	}
	e, err := rd()
	if err != nil {
		return nil, err
	}
	if pos != len(toks) {
		return nil, fmt.Errorf("trailing tokens")
	}
	return e, nil
}

func parseArgs(s string) ([]*Ty, error) {
	e, err := readSx(s)
	if err != nil {
		return nil, err
	}
	if !e.isL {
		return nil, fmt.Errorf("argument list expected")
	}
	return tys(e.list)
}

func tys(l []*sx) ([]*Ty, error) {
	out := make([]*Ty, len(l))
	for i, e := range l {
		t, err := ty(e)
		if err != nil {
			return nil, err
		}
		out[i] = t
	}
	return out, nil
}

func ty(e *sx) (*Ty, error) {
	if !e.isL || len(e.list) == 0 || e.list[0].isL {
		return nil, fmt.Errorf("type expected")
	}
	a := e.list[1:]
	num := func(i int) int { n, _ := strconv.Atoi(a[i].atom); return n }
	need := func(n int) error {
		if len(a) != n {
			return fmt.Errorf("%s takes %d arguments", e.list[0].atom, n)
		}
		return nil
	}
	switch k := e.list[0].atom; k {
	case "b":
		if err := need(1); err != nil {
			return nil, err
		}
		return B(a[0].atom), nil
	case "n":
		if err := need(3); err != nil {
			return nil, err
		}
		u, err := ty(a[2])
		if err != nil {
			return nil, err
		}
		return &Ty{K: "n", ID: num(0), Err: num(1) == 1, E: []*Ty{u}}, nil
	case "p", "s":
		if err := need(1); err != nil {
			return nil, err
		}
		u, err := ty(a[0])
		if err != nil {
			return nil, err
		}
		return &Ty{K: k, E: []*Ty{u}}, nil
	case "a", "ch":
		if err := need(2); err != nil {
			return nil, err
		}
		u, err := ty(a[1])
		if err != nil {
			return nil, err
		}
		return &Ty{K: k, N: num(0), E: []*Ty{u}}, nil
	case "m":
		if err := need(2); err != nil {
			return nil, err
		}
		l, err := tys(a)
		if err != nil {
			return nil, err
		}
		return &Ty{K: "m", E: l}, nil
	case "st", "tup":
		if err := need(1); err != nil {
			return nil, err
		}
		l, err := tys(a[0].list)
		if err != nil {
			return nil, err
		}
		return &Ty{K: k, E: l}, nil
	case "sig":
		if err := need(3); err != nil {
			return nil, err
		}
		ps, err := tys(a[0].list)
		if err != nil {
			return nil, err
		}
		rs, err := tys(a[1].list)
		if err != nil {
			return nil, err
		}
		return &Ty{K: "sig", P: ps, R: rs, V: num(2) == 1}, nil
	case "if":
		if err := need(1); err != nil {
			return nil, err
		}
		return Iface(num(0)), nil
	case "err":
		return ErrT(), nil
	}
	return nil, fmt.Errorf("unknown type former %q", e.list[0].atom)
}
