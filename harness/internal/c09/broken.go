package c09

import (
	"bufio"
	"fmt"
	"go/scanner"
	"go/token"
	"os"
	"path/filepath"
	"strings"

	"verifharness/internal/hx"
)

// A valid package that uses several plugins (no imports: goderive loads it in a few ms).
const validPkg = `package p

type S struct {
	A int
	B string
	C []int
	D *S
	M map[string]int
}

type T struct {
	X S
	Y []S
}

func eq(a, b *S) bool { return deriveEqual(a, b) }

func cmp(a, b *T) int { return deriveCompare(a, b) }

func cp(a, b *T) { deriveDeepCopy(a, b) }

func ks(m map[string]int) []string { return deriveSort(deriveKeys(m)) }

func fm(l []int) []string { return deriveFmap(func(i int) string { return "" }, l) }

func h(s *S) uint64 { return deriveHash(s) }

func gs(s *S) string { return deriveGoString(s) }

func mn(a, b int) int { return deriveMin(a, b) }

func flt(l []int) []int { return deriveFilter(func(i int) bool { return i > 0 }, l) }
`

type tok struct {
	off, end int
	tok      token.Token
	lit      string
}

func tokenize(src string) []tok {
	fset := token.NewFileSet()
	file := fset.AddFile("u.go", -1, len(src))
	var s scanner.Scanner
	s.Init(file, []byte(src), nil, 0)
	var out []tok
	for {
		pos, t, lit := s.Scan()
		if t == token.EOF {
			break
		}
		if t == token.SEMICOLON && lit == "\n" {
			continue // automatically inserted
		}
		off := file.Offset(pos)
		text := lit
		if text == "" {
			text = t.String()
		}
		out = append(out, tok{off, off + len(text), t, text})
	}
	return out
}

var insertable = []string{"(", ")", "{", "}", "[", "]", ",", ";", "*", "func", "x", "int", "struct", ".", "...", "chan", "1", "\"s\"", "nil", "return", "=", ":=", "interface{}", "map"}
var typeSwaps = []string{"undefinedT", "chan int", "func()", "interface{}", "string", "*S", "[]S", "T", "bool", "map[string]S", "struct{ Q chan int }"}

// mutate returns (kind, mutated source).
func mutate(r *hx.Rand, src string) (string, string) {
	toks := tokenize(src)
	i := r.Intn(len(toks))
	t := toks[i]
	switch r.Intn(6) {
	case 0: // delete a token
		return "del", src[:t.off] + src[t.end:]
	case 1: // insert a token
		return "ins", src[:t.off] + hx.Pick(r, insertable) + " " + src[t.off:]
	case 2: // duplicate a token
		return "dup", src[:t.end] + " " + t.lit + src[t.end:]
	case 3: // swap with the next token
		if i+1 < len(toks) {
			n := toks[i+1]
			return "swap", src[:t.off] + n.lit + " " + t.lit + src[n.end:]
		}
		return "del", src[:t.off] + src[t.end:]
	case 4: // type-wise: replace an identifier that names a type / variable by something else
		for k := 0; k < len(toks); k++ {
			c := toks[(i+k)%len(toks)]
			if c.tok == token.IDENT && (c.lit == "int" || c.lit == "string" || c.lit == "S" || c.lit == "T" || c.lit == "bool" || c.lit == "uint64") {
				return "type", src[:c.off] + hx.Pick(r, typeSwaps) + src[c.end:]
			}
		}
	default: // type-wise: rename an identifier use (undefined variable / function)
		for k := 0; k < len(toks); k++ {
			c := toks[(i+k)%len(toks)]
			if c.tok == token.IDENT && len(c.lit) <= 2 {
				return "ident", src[:c.off] + "zz" + src[c.end:]
			}
		}
	}
	return "del", src[:t.off] + src[t.end:]
}

func runBroken(cfg hx.Config, r *hx.Rand, meta *hx.Meta) error {
	n := 40
	if cfg.Tier == "thorough" {
		n = 400
	}
	type bc struct{ kind, src string }
	cases := []bc{{"valid", validPkg}, {"truncated", validPkg[:len(validPkg)/2]}, {"empty", ""}, {"nopackage", "func f() {}\n"}}
	// a field of an undefined type inside a named type (the named type prints as its name, the call looks
	// well typed): the call cannot be generated; alone, and next to a call that can (C09-fix-invalid-type-in-named-type)
	for _, c := range [][2]string{
		{"deriveDeepCopy(a, b)", "a, b *T"}, {"_ = deriveEqual(a, b)", "a, b *T"}, {"_ = deriveCompare(a, b)", "a, b *T"},
		{"_ = deriveHash(a)", "a *T"}, {"_ = deriveGoString(a)", "a *T"}, {"_ = deriveClone(a)", "a *T"},
		{"_ = deriveEqual(a, b)", "a, b []map[string]*T"}, {"_ = deriveHash(a)", "a U"},
	} {
		src := "package p\n\ntype T struct {\n\tX S\n\tY []S\n}\n\ntype U struct{ M map[string]*T }\n\nfunc use(" + c[1] + ") {\n\t" + c[0] + "\n}\n"
		cases = append(cases, bc{"undeftype", src}, bc{"undeftype-plus", src + "\nfunc mn(a, b int) int { return deriveMin(a, b) }\n"})
	}
	for i := 0; i < n; i++ {
		k, s := mutate(r, validPkg)
		if r.Intn(4) == 0 { // two mutations
			k2, s2 := mutate(r, s)
			k, s = k+"+"+k2, s2
		}
		cases = append(cases, bc{k, s})
	}
	outs := make([]Outcome, len(cases))
	hx.Parallel(len(cases), 16, func(i int) {
		dir := filepath.Join(cfg.Work, fmt.Sprintf("b%05d", i))
		outs[i] = RunFiles(cfg, dir, map[string]string{"u.go": cases[i].src}, true)
		if os.Getenv("C09_KEEP") == "" {
			os.RemoveAll(dir)
		}
	})
	obsPath := filepath.Join(cfg.Out, "c09-broken.obs")
	f, err := os.Create(obsPath)
	if err != nil {
		return err
	}
	w := bufio.NewWriter(f)
	for i, c := range cases {
		o := outs[i]
		if o.Class == "harness-error" {
			return fmt.Errorf("C09 harness: %s", o.Detail)
		}
		kind := strings.ReplaceAll(c.kind, "+", "-")
		fmt.Fprintf(w, "(broken %s %d %s)\n", kind, i, o.Class)
		meta.Count("broken/" + kind)
		meta.Count("observed-broken/" + o.Class)
		if o.Class == "crash" || o.Class == "badfile" {
			meta.AddDirect(hx.Direct{
				Class:  "broken-file-" + o.Class,
				What:   fmt.Sprintf("goderive on a broken user file (mutation %s) ended with %s", c.kind, o.Class),
				Files:  map[string]string{"u.go": c.src, "go.mod": "module p\n\ngo 1.24\n"},
				Cmd:    "goderive .",
				Output: o.Detail + "\n" + o.Out,
			})
		}
	}
	// calls whose argument types can never be resolved: "cannot generate" must be reported
	for i, pl := range Plugins {
		src := fmt.Sprintf("package p\n\nfunc use() {\n\t%s(zz%d)\n}\n", prefix[pl], i)
		if i%3 == 1 {
			src = fmt.Sprintf("package p\n\nfunc use(a int) {\n\t%s(a, zz%d)\n}\n", prefix[pl], i)
		}
		dir := filepath.Join(cfg.Work, fmt.Sprintf("u%05d", i))
		o := RunFiles(cfg, dir, map[string]string{"u.go": src}, true)
		os.RemoveAll(dir)
		if o.Class == "harness-error" {
			return fmt.Errorf("C09 harness: %s", o.Detail)
		}
		fmt.Fprintf(w, "(undef %s %d %s)\n", pl, i, o.Class)
		meta.Count("undefined-argument")
	}
	// the same with the unresolved identifier at every position of every type former of the argument's type
	formers := []string{"UndefT", "*UndefT", "[]UndefT", "[2]UndefT", "map[UndefT]int", "map[string]UndefT", "chan UndefT",
		"struct{ F UndefT }", "func(UndefT)", "func() UndefT", "map[UndefT]UndefT", "[]map[UndefT][]int", "*struct{ M map[UndefT]bool }"}
	type uform struct{ plugin, call string }
	uforms := []uform{{"keys", "deriveKeys(x)"}, {"equal", "deriveEqual(x, x)"}, {"hash", "deriveHash(x)"}, {"gostring", "deriveGoString(x)"},
		{"clone", "deriveClone(x)"}, {"compare", "deriveCompare(x, x)"}, {"sort", "deriveSort(x)"}, {"unique", "deriveUnique(x)"}, {"tuple", "deriveTuple(x, 1)"}}
	nu := 0
	for fi, fm := range formers {
		for ui, uf := range uforms {
			if cfg.Tier != "thorough" && (fi+ui)%3 != 0 && !(uf.plugin == "keys" && strings.HasPrefix(fm, "map[")) {
				continue
			}
			src := fmt.Sprintf("package p\n\nfunc use(x %s) {\n\t%s\n}\n", fm, uf.call)
			dir := filepath.Join(cfg.Work, fmt.Sprintf("uf%03d-%d", fi, ui))
			o := RunFiles(cfg, dir, map[string]string{"u.go": src}, true)
			os.RemoveAll(dir)
			if o.Class == "harness-error" {
				return fmt.Errorf("C09 harness: %s", o.Detail)
			}
			fmt.Fprintf(w, "(undef %s %d %s)\n", uf.plugin, 100+fi, o.Class)
			meta.Count("undefined-type-in-argument")
			nu++
			if o.Class == "crash" || o.Class == "badfile" || o.Class == "ok" {
				meta.AddDirect(hx.Direct{
					Class:  "undefined-type-" + o.Class,
					What:   fmt.Sprintf("%s with an argument of type %s (UndefT is not declared) ended with %s instead of a diagnostic", uf.call, fm, o.Class),
					Files:  map[string]string{"u.go": src, "go.mod": "module p\n\ngo 1.24\n"},
					Cmd:    "goderive .",
					Output: o.Detail + "\n" + o.Out,
				})
			}
		}
	}
	w.Flush()
	f.Close()
	meta.ObsFiles = append(meta.ObsFiles, obsPath)
	meta.Packages += nu
	meta.GoderiveRuns += nu
	meta.Cases += nu
	meta.Packages += len(cases) + len(Plugins)
	meta.GoderiveRuns += len(cases) + len(Plugins)
	meta.Cases += len(cases) + len(Plugins)
	return nil
}
