package c09

import (
	"bufio"
	"fmt"
	"go/parser"
	"go/token"
	"os"
	"path/filepath"
	"sort"
	"strings"
	"time"

	"verifharness/internal/hx"
)

// multi.go — runs over SEVERAL packages of one module (round 5).
//
// Everything else in this harness is a singleton package.  goderive has code that only runs when more
// than one package is named in a run: the packages are ordered so that a package follows the packages of
// the run it imports (derive/generate.go dependenciesFirst, a depth-first walk), the transitive imports
// among the packages of the run are collected (initialImports, another walk) and a package that imports
// another one of the run is loaded a second time.  The input space here is the IMPORT GRAPH over the
// packages of the run: every graph over two packages, chains, diamonds, cycles of length 1 to 4, cycles
// reachable from outside, cycles with a tail, random graphs; each with the imported package used inside
// the type the call is about ("field") or only mentioned ("var"), and with the packages named in three
// ways on the command line (./..., listed in order, listed in reverse order; a proper subset when there
// are more than two).  A cyclic graph is a type-wise broken program (import cycle not allowed): goderive
// has to end, without a crash, with success or a diagnostic.  An acyclic one has to be generated and the
// whole module has to type-check.
//
// Observation:  (multi <n> (<i> <j> ...) <use> <inv> <class>)   edges as a flat list of pairs i -> j
// ("package i imports package j"); eval09 computes the order with the model of dependenciesFirst
// (Validate/Order.v; running out of fuel would be the hang) and predicts ok for acyclic graphs.

type MultiCase struct {
	N     int
	Edges [][2]int
	Use   string // field | var | field-xt | var-xt (-xt: package pa also has an external test package pa_test that imports every package of the module)
	Inv   string // dots | list | rev | sub
	Class string
}

func pkgName(i int) string { return "p" + string(rune('a'+i)) }

func (c MultiCase) EdgesSexp() string {
	ss := make([]string, 0, 2*len(c.Edges))
	for _, e := range c.Edges {
		ss = append(ss, fmt.Sprint(e[0]), fmt.Sprint(e[1]))
	}
	return "(" + strings.Join(ss, " ") + ")"
}

// Files of the module: package i has a struct type T, whose fields mention the T of every imported
// package when Use == "field", and one call of a plugin that walks the type (equal, compare, hash, deepcopy,
// gostring or clone, by package index) so that what is generated for package i depends on the imported types.
func (c MultiCase) Files() map[string]string {
	files := map[string]string{}
	calls := []string{
		"func Eq(x, y *T) bool { return deriveEqual(x, y) }",
		"func Cmp(x, y *T) int { return deriveCompare(x, y) }",
		"func H(x *T) uint64 { return deriveHash(x) }",
		"func Cp(x, y *T) { deriveDeepCopy(x, y) }",
	}
	for i := 0; i < c.N; i++ {
		var imps []int
		for _, e := range c.Edges {
			if e[0] == i {
				imps = append(imps, e[1])
			}
		}
		var b strings.Builder
		fmt.Fprintf(&b, "package %s\n\n", pkgName(i))
		for _, j := range imps {
			fmt.Fprintf(&b, "import %s \"p/%s\"\n", "i"+pkgName(j), pkgName(j))
		}
		b.WriteString("\ntype T struct {\n\tX int\n\tS []string\n")
		if strings.HasPrefix(c.Use, "field") {
			for k, j := range imps {
				switch k % 3 {
				case 0:
					fmt.Fprintf(&b, "\tF%d *i%s.T\n", k, pkgName(j))
				case 1:
					fmt.Fprintf(&b, "\tF%d []i%s.T\n", k, pkgName(j))
				default:
					fmt.Fprintf(&b, "\tF%d map[string]i%s.T\n", k, pkgName(j))
				}
			}
		}
		b.WriteString("}\n\n")
		if !strings.HasPrefix(c.Use, "field") {
			for _, j := range imps {
				fmt.Fprintf(&b, "var _ i%s.T\n", pkgName(j))
			}
			b.WriteString("\n")
		}
		b.WriteString(calls[i%len(calls)] + "\n")
		files[pkgName(i)+"/u.go"] = b.String()
	}
	if strings.HasSuffix(c.Use, "-xt") {
		// the external test package of pa (a "created" package of the loader: dependenciesFirst puts those first,
		// whatever they import — typically packages that import pa)
		var b strings.Builder
		b.WriteString("package pa_test\n\nimport (\n")
		for i := 0; i < c.N; i++ {
			fmt.Fprintf(&b, "\t\"p/%s\"\n", pkgName(i))
		}
		b.WriteString(")\n\n")
		for i := 0; i < c.N; i++ {
			fmt.Fprintf(&b, "var _ %s.T\n", pkgName(i))
		}
		files["pa/x_test.go"] = b.String()
	}
	return files
}

func (c MultiCase) Args() []string {
	var l []string
	for i := 0; i < c.N; i++ {
		l = append(l, "./"+pkgName(i))
	}
	switch c.Inv {
	case "dots":
		return []string{"./..."}
	case "rev":
		for i, j := 0, len(l)-1; i < j; i, j = i+1, j-1 {
			l[i], l[j] = l[j], l[i]
		}
	case "sub": // all but the first package: it is imported by (or imports) packages of the run without being one
		l = l[1:]
	}
	return l
}

func (c MultiCase) Acyclic() bool {
	// Kahn
	indeg := make([]int, c.N)
	for _, e := range c.Edges {
		indeg[e[1]]++
	}
	removed := make([]bool, c.N)
	for k := 0; k < c.N; k++ {
		found := -1
		for i := 0; i < c.N; i++ {
			if !removed[i] && indeg[i] == 0 {
				found = i
				break
			}
		}
		if found < 0 {
			return false
		}
		removed[found] = true
		for _, e := range c.Edges {
			if e[0] == found {
				indeg[e[1]]--
			}
		}
	}
	return true
}

func MultiCases(r *hx.Rand, tier string) []MultiCase {
	type g struct {
		name string
		n    int
		e    [][2]int
	}
	E := func(p ...int) [][2]int {
		var out [][2]int
		for i := 0; i+1 < len(p); i += 2 {
			out = append(out, [2]int{p[i], p[i+1]})
		}
		return out
	}
	graphs := []g{
		{"none2", 2, nil}, {"edge-ab", 2, E(0, 1)}, {"edge-ba", 2, E(1, 0)}, {"cycle2", 2, E(0, 1, 1, 0)},
		{"self", 2, E(0, 0)}, {"self-imported", 2, E(0, 0, 1, 0)},
		{"chain3", 3, E(0, 1, 1, 2)}, {"chain3-rev", 3, E(2, 1, 1, 0)}, {"fan-in", 3, E(0, 2, 1, 2)}, {"fan-out", 3, E(0, 1, 0, 2)},
		{"triangle", 3, E(0, 1, 0, 2, 1, 2)}, {"cycle3", 3, E(0, 1, 1, 2, 2, 0)}, {"cycle3-rev", 3, E(0, 2, 2, 1, 1, 0)},
		{"cycle2-tail-in", 3, E(0, 1, 1, 0, 2, 0)}, {"cycle2-tail-out", 3, E(0, 1, 1, 0, 0, 2)}, {"cycle2-late", 3, E(0, 1, 1, 2, 2, 1)},
		{"cycle2-apart", 3, E(1, 2, 2, 1)},
		{"diamond", 4, E(0, 1, 0, 2, 1, 3, 2, 3)}, {"diamond-rev", 4, E(3, 1, 3, 2, 1, 0, 2, 0)}, {"chain4", 4, E(0, 1, 1, 2, 2, 3)},
		{"cycle4", 4, E(0, 1, 1, 2, 2, 3, 3, 0)}, {"two-cycles", 4, E(0, 1, 1, 0, 2, 3, 3, 2)}, {"eight", 3, E(0, 1, 1, 0, 1, 2, 2, 1)},
		{"diamond-back", 4, E(0, 1, 0, 2, 1, 3, 2, 3, 3, 0)},
	}
	var must, pool []MultiCase
	for gi, gr := range graphs {
		for ui, use := range []string{"field", "var"} {
			for ii, inv := range []string{"dots", "list", "rev", "sub"} {
				if inv == "sub" && gr.n < 3 {
					continue
				}
				c := MultiCase{N: gr.n, Edges: gr.e, Use: use, Inv: inv, Class: gr.name}
				// quick tier: every graph with two of the use x invocation combinations (rotating), all 2-package graphs fully
				if gr.n == 2 && inv != "rev" || (gi+ui+ii)%4 == 0 {
					must = append(must, c)
				} else {
					pool = append(pool, c)
				}
			}
		}
	}
	// with an external test package next to pa
	for _, gi := range []int{1, 2, 3, 7, 11, 18} {
		gr := graphs[gi]
		for k, use := range []string{"field-xt", "var-xt"} {
			c := MultiCase{N: gr.n, Edges: gr.e, Use: use, Inv: []string{"dots", "list", "rev"}[(gi+k)%3], Class: gr.name + "-xtest"}
			if k == gi%2 {
				must = append(must, c)
			} else {
				pool = append(pool, c)
			}
		}
	}
	// random graphs over 3..5 packages
	nr := 6
	if tier == "thorough" {
		nr = 120
	}
	for k := 0; k < nr; k++ {
		n := 3 + r.Intn(3)
		var e [][2]int
		for i := 0; i < n; i++ {
			for j := 0; j < n; j++ {
				if i != j && r.Intn(10) < 3 {
					e = append(e, [2]int{i, j})
				}
			}
		}
		must = append(must, MultiCase{N: n, Edges: e, Use: hx.Pick(r, []string{"field", "var"}),
			Inv: hx.Pick(r, []string{"dots", "list", "rev", "sub"}), Class: "random"})
	}
	if tier == "thorough" {
		return append(must, pool...)
	}
	hx.Shuffle(r, pool)
	if len(pool) > 6 {
		pool = pool[:6]
	}
	return append(must, pool...)
}

// checkModule: after exit 0 every derived.gen.go has to parse; when typeCheck, the whole module has to
// vet/build (acyclic graphs).  In a cyclic module the go command stops at the import cycle, which is the user's.
func checkModule(dir string, n int, typeCheck bool) (bool, string) {
	for i := 0; i < n; i++ {
		gen := filepath.Join(dir, pkgName(i), "derived.gen.go")
		src, err := os.ReadFile(gen)
		if err != nil {
			continue
		}
		if _, err := parser.ParseFile(token.NewFileSet(), gen, src, parser.AllErrors); err != nil {
			return false, pkgName(i) + "/derived.gen.go does not parse: " + hx.Truncate(err.Error(), 400)
		}
	}
	if !typeCheck {
		return true, ""
	}
	r := hx.GoVet(dir, "", "./...")
	if r.Exit == 0 {
		return true, ""
	}
	rb := hx.Run(dir, 5*time.Minute, 0, hx.GoEnv(), "go", "build", "./...")
	if rb.Exit == 0 && !rb.TimedOut {
		return true, "vet-only: " + hx.Truncate(firstLines(r.Out, 3), 300)
	}
	return false, "module does not type-check: " + hx.Truncate(firstLines(rb.Out, 8), 800)
}

func runMulti(cfg hx.Config, r *hx.Rand, meta *hx.Meta) error {
	cases := MultiCases(r, cfg.Tier)
	outs := make([]Outcome, len(cases))
	hx.Parallel(len(cases), 16, func(i int) {
		c := cases[i]
		dir := filepath.Join(cfg.Work, fmt.Sprintf("m%05d", i))
		if err := hx.Module(dir); err != nil {
			outs[i] = Outcome{Class: "harness-error", Detail: err.Error()}
			return
		}
		if err := hx.WriteFiles(dir, c.Files()); err != nil {
			outs[i] = Outcome{Class: "harness-error", Detail: err.Error()}
			return
		}
		res := goderiveRetry(cfg.Goderive, dir, c.Args()...)
		cls, det := classifyRun(res)
		o := Outcome{Class: cls, Detail: det, Out: hx.Truncate(res.Out, 2000)}
		if cls == "ok" {
			// with a proper subset the packages that were not named have no generated code: only the named ones are built
			ok, d := checkModule(dir, c.N, c.Acyclic() && c.Inv != "sub")
			if !ok {
				o.Class, o.Detail, o.Vet = "badfile", d, d
			}
		}
		outs[i] = o
		if os.Getenv("C09_KEEP") == "" {
			os.RemoveAll(dir)
		}
	})
	obsPath := filepath.Join(cfg.Out, "c09-multi.obs")
	f, err := os.Create(obsPath)
	if err != nil {
		return err
	}
	w := bufio.NewWriter(f)
	var details []string
	for i, c := range cases {
		o := outs[i]
		if o.Class == "harness-error" {
			return fmt.Errorf("C09 harness: %s", o.Detail)
		}
		line := fmt.Sprintf("(multi %d %s %s %s %s)", c.N, c.EdgesSexp(), c.Use, c.Inv, o.Class)
		fmt.Fprintln(w, line)
		meta.Count("multi/" + c.Class)
		meta.Count("multi-invocation/" + c.Inv)
		meta.Count("observed-multi/" + o.Class)
		if i%11 == 0 {
			meta.Sample(line)
		}
		if o.Class == "crash" || o.Class == "badfile" {
			var fl []string
			files := c.Files()
			for name := range files {
				fl = append(fl, name)
			}
			sort.Strings(fl)
			d := line + "\n    goderive " + strings.Join(c.Args(), " ") + "   (module p, go 1.24)\n"
			for _, name := range fl {
				d += "    --- " + name + "\n        " + strings.ReplaceAll(strings.TrimSpace(files[name]), "\n", "\n        ") + "\n"
			}
			d += "    --- outcome\n        " + strings.ReplaceAll(o.Detail, "\n", "\n        ") + "\n"
			details = append(details, d)
		}
	}
	w.Flush()
	f.Close()
	if len(details) > 0 {
		if df, err := os.OpenFile(filepath.Join(cfg.Out, "c09-details.txt"), os.O_APPEND|os.O_CREATE|os.O_WRONLY, 0o644); err == nil {
			for _, d := range details {
				fmt.Fprint(df, d)
			}
			df.Close()
		}
	}
	meta.ObsFiles = append(meta.ObsFiles, obsPath)
	meta.Packages += len(cases)
	meta.GoderiveRuns += len(cases)
	meta.Cases += len(cases)
	return nil
}
