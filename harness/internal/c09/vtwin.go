package c09

import (
	"fmt"
	"strings"
)

// vtwin.go — the "fitting variadic twin" of a call.
//
// The substitution battery (cases.go) puts ONE variadic function (`func(...int) bool`) at every
// argument position; the other arguments then do not fit it, an unrelated Add error is reported and
// whatever the plugin would have done with a variadic function that DOES fit stays unobserved
// (that is how derivePipeline(func(...int) <-chan int, …) and deriveFmap(func(...int) string, [][]int)
// slipped through).  Here, for every call shape and every function type inside it (an argument, or
// the result of a function argument, at any depth) that has a parameter, the last parameter `T` of
// that function becomes `...T` — go/types then sees the parameter type `[]T` — and every other
// occurrence of `T` in the call becomes `[]T` as well, so that whatever was identical or assignable
// before still is: the list argument of fmap becomes a list of slices, the channel element of the
// pipeline a slice, the value handed to apply a slice, ….  The only thing wrong with the twin is the
// variadic signature.

// sigPath: an argument index followed by result indexes.
type sigPath []int

func (p sigPath) String() string {
	ss := make([]string, len(p))
	for i, n := range p {
		if i == 0 {
			ss[i] = fmt.Sprintf("arg%d", n)
		} else {
			ss[i] = fmt.Sprintf("res%d", n)
		}
	}
	return strings.Join(ss, ".")
}

// sigPaths: every function type that is an argument or (transitively) a result of one, and has a parameter.
func sigPaths(args []*Ty) []sigPath {
	var out []sigPath
	var walk func(t *Ty, p sigPath)
	walk = func(t *Ty, p sigPath) {
		if t.K != "sig" {
			return
		}
		if len(t.P) > 0 && !t.V {
			out = append(out, append(sigPath{}, p...))
		}
		for i, r := range t.R {
			walk(r, append(append(sigPath{}, p...), i))
		}
	}
	for i, a := range args {
		walk(a, sigPath{i})
	}
	return out
}

func tyAt(args []*Ty, p sigPath) *Ty {
	t := args[p[0]]
	for _, i := range p[1:] {
		t = t.R[i]
	}
	return t
}

// substTy: a copy of t in which every occurrence of `from` is replaced by `to` (the replacement is not
// searched again).
func substTy(t *Ty, from string, to *Ty) *Ty {
	if t.Sexp() == from {
		return to
	}
	c := *t
	sub := func(l []*Ty) []*Ty {
		if l == nil {
			return nil
		}
		o := make([]*Ty, len(l))
		for i, e := range l {
			o[i] = substTy(e, from, to)
		}
		return o
	}
	c.E, c.P, c.R = sub(t.E), sub(t.P), sub(t.R)
	return &c
}

// VariadicTwin: the call in which the function at path p takes its last parameter variadically and
// everything else is adjusted to fit: every other occurrence of the parameter's type becomes the slice
// type, and every other occurrence of the function type itself (the parameter of the next function of a
// compose chain, say) becomes the variadic function type too.
func VariadicTwin(args []*Ty, p sigPath) []*Ty {
	last := tyAt(args, p)
	T := last.P[len(last.P)-1]
	out := make([]*Ty, len(args))
	for i, a := range args {
		out[i] = substTy(a, T.Sexp(), Slice(T))
	}
	// the path survives the substitution: a function type on it contains T and is therefore never T itself
	f := tyAt(out, p)
	v := *f
	v.V = true
	for i, a := range out {
		out[i] = substTy(a, f.Sexp(), &v)
	}
	return out
}

// TwinExtras: call shapes beyond Bases in which a function argument returns a function, or a function
// is handed to a plugin that takes values of any type (expected outcome of the shape itself: ok).
func TwinExtras() map[string][][]*Ty {
	g := Sig(L(B("uint8")), L(tBool)) // the function-typed result (its parameter type occurs nowhere else)
	f0 := func(r *Ty) *Ty { return Sig(nil, L(r, tErr)) }
	return map[string][][]*Ty{
		"fmap": {{Sig(L(tInt), L(g)), Slice(tInt)}, {Sig(L(tInt), L(g)), Chan(2, tInt)}, {Sig(L(tInt), L(g)), f0(tInt)},
			{Sig(L(tI32), L(g)), tStr}, {Sig(L(tInt), L(tStr, g)), f0(tInt)}},
		"traverse": {{Sig(L(tInt), L(g, tErr)), Slice(tInt)}},
		"do":       {{f0(g), f0(tStr)}, {f0(tStr), f0(g)}},
		"compose":  {{Sig(L(tInt), L(g, tErr)), Sig(L(g), L(tF64, tErr))}, {Sig(L(tInt), L(tStr, tErr)), Sig(L(tStr), L(g, tErr))}},
		"join":     {{f0(f0(g)), tErr}},
		"tuple":    {{Sig(L(tInt), L(tBool)), tStr}, {tStr, Sig(L(tInt), L(g))}},
		"apply":    {{Sig(L(tInt, tStr), L(g)), tStr}},
		"curry":    {{Sig(L(tInt, tF64), L(g))}},
		"flip":     {{Sig(L(tInt, tF64), L(g))}},
		"mem":      {{Sig(L(tInt), L(g))}},
		"toerror":  {{tErr, Sig(L(tInt), L(g, tBool))}},
		"uncurry":  {{Sig(L(tInt), L(Sig(L(tF64), L(g))))}},
		"pipeline": {{Sig(L(tInt), L(Chan(2, tStr))), Sig(L(tStr), L(Chan(2, g)))}},
	}
}

// VariadicTwins: the twins of every documented call shape (Bases) and of the extra shapes, plus the
// extra shapes themselves.  All of them belong to the must-set of the quick tier.
func VariadicTwins() []Case {
	var out []Case
	bases, extras := Bases(), TwinExtras()
	for _, p := range Plugins {
		for _, e := range extras[p] {
			out = append(out, Case{Plugin: p, Args: e, Class: "vtwin-shape"})
		}
		for _, base := range append(append([][]*Ty{}, bases[p]...), extras[p]...) {
			for _, sp := range sigPaths(base) {
				out = append(out, Case{Plugin: p, Args: VariadicTwin(base, sp), Class: "vtwin/" + sp.String()})
			}
		}
	}
	return out
}
