// Package c09: correspondence harness of C09 ("every run ends cleanly").
//
// ty.go — the argument-type grammar `aty` of coq/theories/Validate/Aty.v on the Go side:
// construction, rendering as Go source, rendering as the s-expression eval09 parses.
package c09

import (
	"fmt"
	"strings"
)

// Ty mirrors the Coq inductive aty.
type Ty struct {
	K   string // b n p s a m st sig ch if err tup
	B   string // basic kind (K == "b")
	ID  int    // named type id (K == "n")
	Err bool   // named type has an Error() string method
	N   int    // array length / number of interface methods / channel direction (0 both, 1 send, 2 recv)
	E   []*Ty  // p,s,a,ch,n: one element; m: key,value; st: fields; tup: components
	P   []*Ty  // sig: parameters (the last one is a slice type when V)
	R   []*Ty  // sig: results
	V   bool   // sig: variadic
}

func B(k string) *Ty             { return &Ty{K: "b", B: k} }
func Named(id int, u *Ty) *Ty    { return &Ty{K: "n", ID: id, E: []*Ty{u}} }
func NamedErr(id int, u *Ty) *Ty { return &Ty{K: "n", ID: id, Err: true, E: []*Ty{u}} }
func Ptr(t *Ty) *Ty              { return &Ty{K: "p", E: []*Ty{t}} }
func Slice(t *Ty) *Ty            { return &Ty{K: "s", E: []*Ty{t}} }
func Array(n int, t *Ty) *Ty     { return &Ty{K: "a", N: n, E: []*Ty{t}} }
func Map(k, v *Ty) *Ty           { return &Ty{K: "m", E: []*Ty{k, v}} }
func Struct(fs ...*Ty) *Ty       { return &Ty{K: "st", E: fs} }
func Sig(ps, rs []*Ty) *Ty       { return &Ty{K: "sig", P: ps, R: rs} }
func VSig(ps, rs []*Ty) *Ty      { return &Ty{K: "sig", P: ps, R: rs, V: true} }
func Chan(dir int, t *Ty) *Ty    { return &Ty{K: "ch", N: dir, E: []*Ty{t}} }
func Iface(n int) *Ty            { return &Ty{K: "if", N: n} }
func ErrT() *Ty                  { return &Ty{K: "err"} }
func Tuple(ts ...*Ty) *Ty        { return &Ty{K: "tup", E: ts} }
func L(ts ...*Ty) []*Ty          { return ts }
func (t *Ty) untyped() bool      { return t.K == "b" && strings.HasPrefix(t.B, "u-") }
func (t *Ty) usesUnsafe() bool {
	if t.K == "b" && t.B == "unsafeptr" {
		return true
	}
	for _, l := range [][]*Ty{t.E, t.P, t.R} {
		for _, e := range l {
			if e.usesUnsafe() {
				return true
			}
		}
	}
	return false
}

// Sexp renders the type for eval09 (numbers and symbols only).
func (t *Ty) Sexp() string {
	list := func(l []*Ty) string {
		ss := make([]string, len(l))
		for i, e := range l {
			ss[i] = e.Sexp()
		}
		return "(" + strings.Join(ss, " ") + ")"
	}
	b := func(v bool) int {
		if v {
			return 1
		}
		return 0
	}
	switch t.K {
	case "b":
		return "(b " + t.B + ")"
	case "n":
		// go/types: the underlying type of a named type is a type literal
		u := t.E[0]
		for u.K == "n" {
			u = u.E[0]
		}
		us := u.Sexp()
		if u.K == "err" {
			us = "(if 1)" // type N error: an interface type with one method, not itself an error for IsError
		}
		return fmt.Sprintf("(n %d %d %s)", t.ID, b(t.Err), us)
	case "p", "s":
		return "(" + t.K + " " + t.E[0].Sexp() + ")"
	case "a":
		return fmt.Sprintf("(a %d %s)", t.N, t.E[0].Sexp())
	case "m":
		return "(m " + t.E[0].Sexp() + " " + t.E[1].Sexp() + ")"
	case "st":
		return "(st " + list(t.E) + ")"
	case "sig":
		return fmt.Sprintf("(sig %s %s %d)", list(t.P), list(t.R), b(t.V))
	case "ch":
		return fmt.Sprintf("(ch %d %s)", t.N, t.E[0].Sexp())
	case "if":
		return fmt.Sprintf("(if %d)", t.N)
	case "err":
		return "(err)"
	case "tup":
		return "(tup " + list(t.E) + ")"
	case "tp": // a type parameter: reserved id, underlying type = its constraint interface (tparam.go)
		return fmt.Sprintf("(n %d 0 (if 0))", tparamBase+t.ID)
	case "gn": // G[arg]: a defined type over the instantiated struct { V arg; P *arg }
		return fmt.Sprintf("(n %d 0 (st (%s (p %s))))", gnBase, t.E[0].Sexp(), t.E[0].Sexp())
	}
	panic("bad Ty " + t.K)
}

// nesting depth of the signature being rendered: parameter names differ per depth (C15 is
// about parameter names, not this property)
var sigDepth int

// Comparable: may the type be a map key (Go spec)?
func (t *Ty) Comparable() bool {
	switch t.K {
	case "s", "m", "sig":
		return false
	case "n", "a":
		return t.E[len(t.E)-1].Comparable()
	case "st":
		for _, f := range t.E {
			if !f.Comparable() {
				return false
			}
		}
	case "tup":
		return false
	case "tp":
		return t.N == 1
	case "gn":
		return t.E[0].Comparable()
	}
	return true
}

// Valid: is the type a valid Go type (map keys comparable, variadic shape), so that the user
// file itself type-checks.
func (t *Ty) Valid() bool {
	if t.K == "m" && !t.E[0].Comparable() {
		return false
	}
	if t.untyped() || t.K == "tup" {
		return false // only as a top-level argument
	}
	for _, l := range [][]*Ty{t.E, t.P, t.R} {
		for _, e := range l {
			if !e.Valid() {
				return false
			}
		}
	}
	return true
}

// ValidArg: a top-level argument may also be an untyped constant or a tuple-valued call.
func (t *Ty) ValidArg() bool {
	if t.untyped() {
		return true
	}
	if t.K == "tup" {
		for _, e := range t.E {
			if !e.Valid() {
				return false
			}
		}
		return len(t.E) >= 2
	}
	return t.Valid()
}

var basicSrc = map[string]string{"unsafeptr": "unsafe.Pointer"}

// Src renders the type as Go source; named types are collected into decls.
func (t *Ty) Src(decls map[int]string) string {
	switch t.K {
	case "b":
		if s, ok := basicSrc[t.B]; ok {
			return s
		}
		if t.untyped() {
			panic("untyped basic type has no source form")
		}
		return t.B
	case "n":
		name := fmt.Sprintf("N%d", t.ID)
		if _, ok := decls[t.ID]; !ok {
			decls[t.ID] = "" // reserve (no recursive types in this grammar)
			d := "type " + name + " " + t.E[0].Src(decls) + "\n"
			if t.Err {
				d += "func (" + name + ") Error() string { return \"\" }\n"
			}
			decls[t.ID] = d
		}
		return name
	case "p":
		return "*" + t.E[0].Src(decls)
	case "s":
		return "[]" + t.E[0].Src(decls)
	case "a":
		return fmt.Sprintf("[%d]%s", t.N, t.E[0].Src(decls))
	case "m":
		return "map[" + t.E[0].Src(decls) + "]" + t.E[1].Src(decls)
	case "st":
		if len(t.E) == 0 {
			return "struct{}"
		}
		fs := make([]string, len(t.E))
		for i, f := range t.E {
			fs[i] = fmt.Sprintf("F%d %s", i, f.Src(decls))
		}
		return "struct{ " + strings.Join(fs, "; ") + " }"
	case "sig":
		ps := make([]string, len(t.P))
		sigDepth++
		for i, p := range t.P {
			if t.V && i == len(t.P)-1 {
				ps[i] = fmt.Sprintf("p%d_%d ...%s", sigDepth, i, p.E[0].Src(decls))
			} else {
				ps[i] = fmt.Sprintf("p%d_%d %s", sigDepth, i, p.Src(decls))
			}
		}
		rs := make([]string, len(t.R))
		for i, r := range t.R {
			rs[i] = r.Src(decls)
		}
		sigDepth--
		s := "func(" + strings.Join(ps, ", ") + ")"
		switch len(rs) {
		case 0:
		case 1:
			s += " " + rs[0]
		default:
			s += " (" + strings.Join(rs, ", ") + ")"
		}
		return s
	case "ch":
		switch t.N {
		case 1:
			return "chan<- " + t.E[0].Src(decls)
		case 2:
			return "<-chan " + t.E[0].Src(decls)
		}
		e := t.E[0].Src(decls)
		if strings.HasPrefix(e, "<-") {
			e = "(" + e + ")"
		}
		return "chan " + e
	case "if":
		if t.N == 0 {
			return "interface{}"
		}
		ms := make([]string, t.N)
		for i := range ms {
			ms[i] = fmt.Sprintf("M%d()", i)
		}
		return "interface{ " + strings.Join(ms, "; ") + " }"
	case "err":
		return "error"
	case "tp":
		return fmt.Sprintf("T%d", t.ID)
	case "gn":
		decls[gnBase] = "type G[A any] struct {\n\tV A\n\tP *A\n}\n"
		return "G[" + t.E[0].Src(decls) + "]"
	}
	panic("no source form for " + t.K)
}

var untypedLit = map[string]string{
	"u-nil": "nil", "u-int": "1", "u-string": `"s"`, "u-bool": "true", "u-float": "2.0", "u-rune": "'a'", "u-complex": "1i",
}

// Expr renders an expression of the type (as a call argument); tuples need a helper function.
func (t *Ty) Expr(decls map[int]string, helpers *[]string) string {
	if t.untyped() {
		return untypedLit[t.B]
	}
	if t.K == "tup" {
		rs := make([]string, len(t.E))
		for i, r := range t.E {
			rs[i] = r.Src(decls)
		}
		name := fmt.Sprintf("tup%d", len(*helpers))
		*helpers = append(*helpers, fmt.Sprintf("func %s() (%s) { panic(0) }\n", name, strings.Join(rs, ", ")))
		return name + "()"
	}
	s := t.Src(decls)
	return "*new(" + s + ")"
}

// Case is one singleton package: one call of one plugin.
type Case struct {
	Plugin string
	Args   []*Ty
	Class  string // input class (distribution key)
	Second []*Ty  // twin case: a second call (name suffix B) of the same plugin with these arguments
}

var prefix = map[string]string{
	"all": "deriveAll", "any": "deriveAny", "apply": "deriveApply", "clone": "deriveClone", "compare": "deriveCompare",
	"compose": "deriveCompose", "contains": "deriveContains", "curry": "deriveCurry", "deepcopy": "deriveDeepCopy",
	"do": "deriveDo", "dup": "deriveDup", "equal": "deriveEqual", "filter": "deriveFilter", "flip": "deriveFlip",
	"fmap": "deriveFmap", "gostring": "deriveGoString", "hash": "deriveHash", "intersect": "deriveIntersect",
	"join": "deriveJoin", "keys": "deriveKeys", "max": "deriveMax", "mem": "deriveMem", "min": "deriveMin",
	"pipeline": "derivePipeline", "set": "deriveSet", "sort": "deriveSort", "takewhile": "deriveTakeWhile",
	"toerror": "deriveToError", "traverse": "deriveTraverse", "tuple": "deriveTuple", "uncurry": "deriveUncurry",
	"union": "deriveUnion", "unique": "deriveUnique",
}

// Plugins in a fixed order.
var Plugins = []string{"all", "any", "apply", "clone", "compare", "compose", "contains", "curry", "deepcopy", "do", "dup",
	"equal", "filter", "flip", "fmap", "gostring", "hash", "intersect", "join", "keys", "max", "mem", "min", "pipeline",
	"set", "sort", "takewhile", "toerror", "traverse", "tuple", "uncurry", "union", "unique"}

// Twin: the argument list with every top-level literal or named type replaced by a fresh named type
// (ids base+i) with the same underlying type; nil when no position can be named.
func (c *Case) Twin(base int) []*Ty {
	out := make([]*Ty, len(c.Args))
	any := false
	for i, a := range c.Args {
		switch {
		case a.untyped() || a.K == "tup" || a.K == "err":
			out[i] = a
		case a.K == "n":
			if a.Err {
				out[i] = a
			} else {
				out[i] = Named(base+i, a.E[0])
				any = true
			}
		default:
			out[i] = Named(base+i, a)
			any = true
		}
	}
	if !any {
		return nil
	}
	return out
}

// Source renders the user file of the case.
func (c *Case) Source() string {
	decls := map[int]string{}
	var helpers []string
	args := make([]string, len(c.Args))
	unsafe := false
	for i, a := range c.Args {
		args[i] = a.Expr(decls, &helpers)
		unsafe = unsafe || a.usesUnsafe()
	}
	second := ""
	if c.Second != nil {
		args2 := make([]string, len(c.Second))
		for i, a := range c.Second {
			args2[i] = a.Expr(decls, &helpers)
		}
		second = fmt.Sprintf("\t%sB(%s)\n", prefix[c.Plugin], strings.Join(args2, ", "))
	}
	var b strings.Builder
	b.WriteString("package p\n\n")
	if unsafe {
		b.WriteString("import \"unsafe\"\n\n")
	}
	ids := make([]int, 0, len(decls))
	for id := range decls {
		ids = append(ids, id)
	}
	for i := range ids {
		for j := i + 1; j < len(ids); j++ {
			if ids[j] < ids[i] {
				ids[i], ids[j] = ids[j], ids[i]
			}
		}
	}
	for _, id := range ids {
		b.WriteString(decls[id])
	}
	for _, h := range helpers {
		b.WriteString(h)
	}
	tps := map[int]*Ty{}
	for _, a := range c.Args {
		a.tparams(tps)
	}
	header := ""
	if len(tps) > 0 { // the call sits in a generic function (tparam.go)
		var l []string
		for k := 0; k < 8; k++ {
			if tp, ok := tps[k]; ok {
				l = append(l, fmt.Sprintf("T%d %s", k, []string{"any", "comparable"}[tp.N]))
			}
		}
		header = "[" + strings.Join(l, ", ") + "]"
	}
	fmt.Fprintf(&b, "\nfunc use%s() {\n\t%s(%s)\n%s}\n", header, prefix[c.Plugin], strings.Join(args, ", "), second)
	return b.String()
}

func (c *Case) ArgsSexp() string {
	ss := make([]string, len(c.Args))
	for i, a := range c.Args {
		ss[i] = a.Sexp()
	}
	return "(" + strings.Join(ss, " ") + ")"
}
