package c09

import (
	"bufio"
	"fmt"
	"os"
	"path/filepath"
	"strings"

	"verifharness/internal/hx"
)

// tparam.go — the type parameter of the enclosing generic function as one more unsupported constituent
// (round 5; repaired in /repo by ec9c759, finding C09-type-parameter-argument).
//
// A derive call inside `func use[T0 any, T1 comparable]()` can have arguments whose types mention T0/T1.
// The generated functions are not generic, so such a call has to be reported (pkg.Add asks
// call.TypeParam() before any plugin's Add: derive/find.go typeParamIn).  Before the repair set, keys, fmap,
// filter, tuple, … printed `T` into derived.gen.go (exit 0, undefined: T) and equal, sort, deepcopy printed
// go/types internals.
//
// Encoding for the model: a type parameter is `(n 99xx 0 (if 0))` — go/types gives a type parameter its
// constraint interface as underlying type — with a reserved id (Validate/TParam.v is_tparam_id); an
// instantiated generic type G[T] is a defined type whose underlying type is the instantiated struct.
//
// Cases: for every documented call shape of every plugin (Bases, TwinExtras) and every distinct subterm u
// of its argument types, at any depth: every occurrence of u replaced by T, one occurrence replaced by T
// (where there are several), every occurrence replaced by G[T] and by *G[T]; the type-recursive forms
// (RecForms) over every depth-1 shape of T (bare T, *T, []T, [2]T, map[string]T, map[T]int, struct{X T},
// …) plus func(T) bool, chan T, G[T], *G[T].  Expected: a diagnostic, never exit 0.
// Instantiated generic types (G[int], recursive Box[int] with a field *Box[T]) and calls inside a generic
// function that do not mention its type parameters must still be generated and type-check: (ginst …).

const tparamBase = 9900 // ids 9900.. are type parameters (Validate/TParam.v)
const gnBase = 9800     // ids 9800..9899 are instances of the generic type G

// TP: type parameter number k; comparable constraint when cmp.
func TP(k int, cmp bool) *Ty {
	n := 0
	if cmp {
		n = 1
	}
	return &Ty{K: "tp", ID: k, N: n}
}

// GInst: the instance G[arg] of `type G[A any] struct { V A; P *A }`.
func GInst(arg *Ty) *Ty { return &Ty{K: "gn", E: []*Ty{arg}} }

func (t *Ty) tparams(into map[int]*Ty) {
	if t.K == "tp" {
		into[t.ID] = t
	}
	if t.K == "n" {
		return
	}
	for _, l := range [][]*Ty{t.E, t.P, t.R} {
		for _, e := range l {
			e.tparams(into)
		}
	}
}

// TParamCases: (must, pool).
func TParamCases() (must, pool []Case) {
	bases, extras := Bases(), TwinExtras()
	add := func(toMust bool, c Case) {
		for _, a := range c.Args {
			if !a.ValidArg() {
				return
			}
			if a.K == "tup" { // the helper function that returns the values is declared at package level
				m := map[int]*Ty{}
				a.tparams(m)
				if len(m) > 0 {
					return
				}
			}
		}
		if toMust {
			must = append(must, c)
		} else {
			pool = append(pool, c)
		}
	}
	repl := func(cmp bool) []struct {
		name string
		t    *Ty
	} {
		T := TP(0, cmp)
		return []struct {
			name string
			t    *Ty
		}{{"T", T}, {"G[T]", GInst(T)}, {"*G[T]", Ptr(GInst(T))}}
	}
	gen := func(p string, base []*Ty, toMust bool) {
		keys, terms, count := subterms(base)
		for _, k := range keys {
			u := terms[k]
			for ri := range repl(false) {
				// `any` unless the position needs a comparable type (a map key)
				for _, cmp := range []bool{false, true} {
					r := repl(cmp)[ri]
					args := substAllOcc(base, k, r.t)
					ok := true
					for _, a := range args {
						ok = ok && a.ValidArg()
					}
					if !ok {
						continue
					}
					add(toMust && (ri == 0 || u.K == "b"), Case{Plugin: p, Args: args, Class: "tparam/all/" + r.name + "/" + kindName(u)})
					if count[k] > 1 && ri == 0 {
						for i := 0; i < count[k]; i++ {
							add(toMust, Case{Plugin: p, Args: substNth(base, k, i, r.t), Class: "tparam/one/" + kindName(u)})
						}
					}
					break
				}
			}
		}
		// two different type parameters: every distinct basic leaf gets its own
		args := base
		n := 0
		for _, k := range keys {
			if terms[k].K == "b" {
				args = substAllOcc(args, k, TP(n, true))
				n++
			}
		}
		if n > 1 {
			add(toMust, Case{Plugin: p, Args: args, Class: "tparam/leaves"})
		}
	}
	for _, p := range Plugins {
		for _, base := range bases[p] {
			gen(p, base, true)
		}
		for _, base := range extras[p] {
			gen(p, base, false)
		}
	}
	// the type-recursive and delegating forms over every shape of T
	T, TC := TP(0, false), TP(1, true)
	shapes := append(Shapes1(),
		shapeT{"func-param", func(u *Ty) *Ty { return Sig(L(u), L(tBool)) }},
		shapeT{"func-result", func(u *Ty) *Ty { return Sig(L(tInt), L(u)) }},
		shapeT{"chan", func(u *Ty) *Ty { return Chan(0, u) }},
		shapeT{"G[T]", func(u *Ty) *Ty { return GInst(u) }},
		shapeT{"*G[T]", func(u *Ty) *Ty { return Ptr(GInst(u)) }},
		shapeT{"[]G[[]T]", func(u *Ty) *Ty { return Slice(GInst(Slice(u))) }},
		shapeT{"mapKV", func(u *Ty) *Ty { return Map(TC, u) }},
	)
	for _, f := range RecForms() {
		for _, s := range shapes {
			if s.name == "nstruct" || s.name == "named" {
				continue // a defined type is declared at package level: its definition cannot mention T
			}
			for _, tp := range []*Ty{T, TC} {
				args := f.mk(s.mk(tp))
				ok := true
				for _, a := range args {
					ok = ok && a.ValidArg()
				}
				if ok {
					add(true, Case{Plugin: f.plugin, Args: args, Class: "tparam/rec/" + s.name})
					break
				}
			}
		}
	}
	return
}

// ----- instantiated generic types and generic functions whose calls do not mention the type parameters -----

type ginstCase struct {
	plugin, call string
}

const ginstDecls = `package p

type Box[T any] struct {
	V    T
	Next *Box[T]
}

type Pair[K comparable, V any] struct {
	K K
	V V
}

type Bag[K comparable, V any] struct {
	M map[K][]V
	B *Box[V]
}

`

func ginstCases() []ginstCase {
	return []ginstCase{
		{"equal", "deriveEqual(*new(*Box[int]), *new(*Box[int]))"},
		{"equal", "deriveEqual(*new(Bag[string, Pair[int, bool]]), *new(Bag[string, Pair[int, bool]]))"},
		{"compare", "deriveCompare(*new(*Box[string]), *new(*Box[string]))"},
		{"compare", "deriveCompare(*new(Bag[int, string]), *new(Bag[int, string]))"},
		{"hash", "deriveHash(*new(Pair[string, Box[int]]))"},
		{"hash", "deriveHash(*new(*Bag[string, float64]))"},
		{"deepcopy", "deriveDeepCopy(*new(*Pair[int, map[string][]string]), *new(*Pair[int, map[string][]string]))"},
		{"deepcopy", "deriveDeepCopy(*new(*Bag[int, Box[string]]), *new(*Bag[int, Box[string]]))"},
		{"clone", "deriveClone(*new(*Box[[]int]))"},
		{"gostring", "deriveGoString(*new(Box[int]))"},
		{"gostring", "deriveGoString(*new(*Bag[string, int]))"},
		{"sort", "deriveSort(*new([]Box[int]))"},
		{"keys", "deriveKeys(*new(map[Pair[int, int]]Box[int]))"},
		{"set", "deriveSet(*new([]Pair[int, string]))"},
		{"fmap", "deriveFmap(*new(func(Box[int]) Pair[int, int]), *new([]Box[int]))"},
		{"filter", "deriveFilter(*new(func(Box[int]) bool), *new([]Box[int]))"},
		{"tuple", "deriveTuple(*new(Box[int]), *new(Pair[string, bool]))"},
		{"unique", "deriveUnique(*new([]*Box[int]))"},
		{"min", "deriveMin(*new(Box[int]), *new(Box[int]))"},
		{"contains", "deriveContains(*new([]Box[int]), *new(Box[int]))"},
		{"union", "deriveUnion(*new([]Pair[int, int]), *new([]Pair[int, int]))"},
		{"mem", "deriveMem(*new(func(Pair[int, string]) Box[int]))"},
	}
}

func runGinst(cfg hx.Config, meta *hx.Meta) error {
	cases := ginstCases()
	type gc struct {
		plugin, kind, src string
	}
	var all []gc
	for _, c := range cases {
		// at package level (in a plain function), and inside a generic function without mentioning its parameters
		all = append(all, gc{c.plugin, "plain", ginstDecls + "func use() {\n\t" + c.call + "\n}\n"})
		all = append(all, gc{c.plugin, "in-generic", ginstDecls + "func use[T any, U comparable](x T, y U) {\n\t_, _ = x, y\n\t" + c.call + "\n}\n"})
	}
	var b strings.Builder
	for i, c := range cases { // every call under its own name: two calls of one plugin have different argument types
		b.WriteString("\t" + strings.Replace(c.call, "(", fmt.Sprintf("N%d(", i), 1) + "\n")
	}
	all = append(all, gc{"all", "together", ginstDecls + "func use() {\n" + b.String() + "}\n"})
	outs := make([]Outcome, len(all))
	hx.Parallel(len(all), 16, func(i int) {
		dir := filepath.Join(cfg.Work, fmt.Sprintf("g%05d", i))
		outs[i] = RunFiles(cfg, dir, map[string]string{"u.go": all[i].src}, false)
		if os.Getenv("C09_KEEP") == "" {
			os.RemoveAll(dir)
		}
	})
	obsPath := filepath.Join(cfg.Out, "c09-ginst.obs")
	f, err := os.Create(obsPath)
	if err != nil {
		return err
	}
	w := bufio.NewWriter(f)
	for i, c := range all {
		o := outs[i]
		if o.Class == "harness-error" {
			return fmt.Errorf("C09 harness: %s", o.Detail)
		}
		fmt.Fprintf(w, "(ginst %s %d %s)\n", c.plugin, i, o.Class)
		meta.Count("ginst/" + c.kind)
		if o.Class == "crash" || o.Class == "badfile" {
			meta.AddDirect(hx.Direct{
				Class:  "instantiated-generic-" + o.Class,
				What:   fmt.Sprintf("a %s call on instantiated generic types (%s) ended with %s", c.plugin, c.kind, o.Class),
				Files:  map[string]string{"u.go": c.src, "go.mod": "module p\n\ngo 1.24\n"},
				Cmd:    "goderive . && go vet .",
				Output: o.Detail + "\n" + o.Out,
			})
		}
	}
	w.Flush()
	f.Close()
	meta.ObsFiles = append(meta.ObsFiles, obsPath)
	meta.Packages += len(all)
	meta.GoderiveRuns += len(all)
	meta.Cases += len(all)
	return nil
}
