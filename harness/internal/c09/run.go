package c09

import (
	"fmt"
	"go/parser"
	"go/token"
	"os"
	"path/filepath"
	"regexp"
	"strings"
	"time"

	"verifharness/internal/hx"
)

// Outcome of one goderive run on one package.
type Outcome struct {
	Class  string // ok | badfile | adderr | generr | cannot | loaderr | crash
	Detail string // first lines of the output that decided the class
	Out    string // goderive output
	Vet    string // go vet / go build output when the package does not type-check
}

var crashRe = regexp.MustCompile(`(?m)^(panic: |fatal error: |goroutine \d+ \[|runtime: |signal: |SIGSEGV)`)

// classify the outcome of goderive itself (exit status + stderr class).
func classifyRun(r hx.RunResult) (string, string) {
	if r.TimedOut {
		return "crash", "timeout (hang)"
	}
	if crashRe.MatchString(r.Out) || r.Exit == 2 || r.Exit < 0 || r.Exit > 128 {
		return "crash", hx.Truncate(firstLines(r.Out, 6), 600)
	}
	if r.Exit != 0 {
		first := firstLines(r.Out, 3)
		if strings.TrimSpace(r.Out) == "" {
			return "crash", fmt.Sprintf("exit %d without any message", r.Exit)
		}
		switch {
		case strings.Contains(r.Out, "Add Error"):
			return "adderr", first
		case strings.Contains(r.Out, "Generator Error"):
			return "generr", first
		case strings.Contains(r.Out, "cannot generate"):
			return "cannot", first
		}
		return "loaderr", first
	}
	return "ok", ""
}

func firstLines(s string, n int) string {
	ls := strings.Split(strings.TrimSpace(s), "\n")
	if len(ls) > n {
		ls = ls[:n]
	}
	return strings.Join(ls, "\n")
}

var genErrLine = regexp.MustCompile(`(?m)^(\./)?derived\.gen\.go:\d+`)
var userErrLine = regexp.MustCompile(`(?m)^(\./)?u\.go:\d+`)

// checkPackage: after exit 0, the generated file must parse and the package must type-check.
// onlyGenerated: count only errors located in derived.gen.go (used for user files that are broken themselves).
func checkPackage(dir string, onlyGenerated bool) (ok bool, detail string) {
	gen := filepath.Join(dir, "derived.gen.go")
	src, err := os.ReadFile(gen)
	if err != nil {
		if os.IsNotExist(err) {
			if onlyGenerated {
				return true, ""
			}
			// nothing generated: the call stays undefined; go vet will say so
		} else {
			return false, err.Error()
		}
	} else {
		if _, err := parser.ParseFile(token.NewFileSet(), gen, src, parser.AllErrors); err != nil {
			return false, "derived.gen.go does not parse: " + hx.Truncate(err.Error(), 400)
		}
	}
	r := hx.GoVet(dir, "")
	if r.Exit == 0 {
		return true, ""
	}
	// vet complaint or compile error?  go build decides.
	rb := hx.Run(dir, 5*time.Minute, 0, hx.GoEnv(), "go", "build", "./...")
	if rb.Exit == 0 && !rb.TimedOut {
		return true, "vet-only: " + hx.Truncate(firstLines(r.Out, 3), 300)
	}
	if onlyGenerated && (userErrLine.MatchString(rb.Out) || !genErrLine.MatchString(rb.Out)) {
		// the user file is broken itself: errors in the generated file may be consequences
		return true, ""
	}
	return false, "package does not type-check: " + hx.Truncate(firstLines(rb.Out, 8), 800)
}

// RunFiles writes the files into a fresh module dir, runs goderive and classifies.
func RunFiles(cfg hx.Config, dir string, files map[string]string, onlyGenerated bool) Outcome {
	if err := hx.Module(dir); err != nil {
		return Outcome{Class: "harness-error", Detail: err.Error()}
	}
	if err := hx.WriteFiles(dir, files); err != nil {
		return Outcome{Class: "harness-error", Detail: err.Error()}
	}
	r := goderiveRetry(cfg.Goderive, dir, ".")
	cls, det := classifyRun(r)
	o := Outcome{Class: cls, Detail: det, Out: hx.Truncate(r.Out, 2000)}
	if cls == "ok" {
		ok, d := checkPackage(dir, onlyGenerated)
		if !ok {
			o.Class = "badfile"
			o.Vet = d
			o.Detail = d
		} else if d != "" {
			o.Vet = d
		}
	}
	return o
}

// goderiveRetry: a run that hit hx.Goderive's 30 s limit is repeated once with four times the limit (same
// address-space limit).  A run on the broken-file package costs 3 s of CPU (the package is loaded again,
// with the standard library from source, after every round of generation); with a dozen checks in parallel
// on the machine (load 300-650 on 16 cores) that exceeded 30 s of wall clock again and again and was
// reported as a hang.  A real hang of goderive also exceeds the longer limit and is reported as before.
func goderiveRetry(bin, dir string, args ...string) hx.RunResult {
	r := hx.Goderive(bin, dir, args...)
	if r.TimedOut {
		filepath.Walk(dir, func(p string, info os.FileInfo, err error) error {
			if err == nil && !info.IsDir() && info.Name() == "derived.gen.go" {
				os.Remove(p)
			}
			return nil
		})
		r = hx.Run(dir, 120*time.Second, 3000000, hx.GoEnv(), bin, args...)
	}
	return r
}
