package c09

import (
	"fmt"

	"verifharness/internal/hx"
)

// ----- small vocabulary -----
var (
	tInt     = B("int")
	tStr     = B("string")
	tBool    = B("bool")
	tF64     = B("float64")
	tC128    = B("complex128")
	tI32     = B("int32")
	tUnsafe  = B("unsafeptr")
	tNil     = B("u-nil")
	tErr     = ErrT()
	tIface   = Iface(0)
	tEmptySt = Struct()
)

func nstruct(id int, fs ...*Ty) *Ty { return Named(id, Struct(fs...)) }

// a plain supported named struct
func nsPlain() *Ty { return nstruct(1, tInt, tStr, Slice(tInt), Ptr(tInt)) }

// Bases: for every plugin the well-formed calls (documented shapes); expected outcome ok.
func Bases() map[string][][]*Ty {
	pred := Sig(L(tInt), L(tBool))
	f0 := func(r *Ty) *Ty { return Sig(nil, L(r, tErr)) }
	return map[string][][]*Ty{
		"all":       {{pred, Slice(tInt)}},
		"any":       {{pred, Slice(tInt)}},
		"filter":    {{pred, Slice(tInt)}},
		"takewhile": {{pred, Slice(tInt)}},
		"apply":     {{Sig(L(tInt, tStr), L(tBool)), tStr}},
		"clone":     {{Ptr(nsPlain())}, {Slice(tInt)}, {Map(tStr, tInt)}, {nsPlain()}},
		"compare":   {{tInt, tInt}, {Ptr(nsPlain()), Ptr(nsPlain())}, {tStr}},
		"compose":   {{Sig(L(tInt), L(tStr, tErr)), Sig(L(tStr), L(tF64, tErr))}},
		"contains":  {{Slice(tInt), tInt}, {Slice(Ptr(nsPlain())), Ptr(nsPlain())}},
		"curry":     {{Sig(L(tInt, tStr), L(tBool))}},
		"deepcopy":  {{Ptr(nsPlain()), Ptr(nsPlain())}, {Slice(Slice(tInt)), Slice(Slice(tInt))}},
		"do":        {{f0(tInt), f0(tStr)}},
		"dup":       {{Chan(2, tInt)}, {Chan(0, tInt)}},
		"equal":     {{Ptr(nsPlain()), Ptr(nsPlain())}, {nsPlain(), nsPlain()}, {Slice(tInt)}},
		"flip":      {{Sig(L(tInt, tStr), L(tBool))}},
		"fmap": {{Sig(L(tInt), L(tStr)), Slice(tInt)}, {Sig(L(tI32), L(tStr)), tStr},
			{Sig(L(tInt), L(tStr)), f0(tInt)}, {Sig(L(tInt), L(tStr)), Chan(2, tInt)}},
		"gostring":  {{Ptr(nsPlain())}, {Slice(tInt)}},
		"hash":      {{Ptr(nsPlain())}, {tStr}, {Map(tStr, tInt)}},
		"intersect": {{Slice(tInt), Slice(tInt)}, {Map(tInt, tEmptySt), Map(tInt, tEmptySt)}},
		"union":     {{Slice(tInt), Slice(tInt)}, {Map(tInt, tEmptySt), Map(tInt, tEmptySt)}},
		"join": {{Slice(Slice(tInt))}, {Slice(tStr)}, {f0(f0(tInt)), tErr}, {Chan(2, Chan(2, tInt))},
			{Chan(2, tInt), Chan(2, tInt)}, {Slice(Chan(2, tInt))}, {Tuple(f0(tInt), tErr)}},
		"keys":     {{Map(tStr, tInt)}},
		"max":      {{tInt, tInt}, {Slice(tInt), tInt}, {Ptr(nsPlain()), Ptr(nsPlain())}},
		"min":      {{tInt, tInt}, {Slice(tInt), tInt}, {Ptr(nsPlain()), Ptr(nsPlain())}},
		"mem":      {{Sig(L(tInt), L(tStr))}, {Sig(L(tInt, tStr), L(tStr, tErr))}},
		"pipeline": {{Sig(L(tInt), L(Chan(2, tStr))), Sig(L(tStr), L(Chan(2, tF64)))}},
		"set":      {{Slice(tInt)}},
		"sort":     {{Slice(tInt)}, {Slice(Ptr(nsPlain()))}, {Slice(tBool)}},
		"toerror":  {{tErr, Sig(L(tInt), L(tStr, tBool))}},
		"traverse": {{Sig(L(tInt), L(tStr, tErr)), Slice(tInt)}},
		"tuple":    {{tInt, tStr}, {Tuple(tInt, tStr)}},
		"uncurry":  {{Sig(L(tInt), L(Sig(L(tStr), L(tBool))))}},
		"unique":   {{Slice(tInt)}, {Slice(Ptr(nsPlain()))}},
	}
}

type junkT struct {
	name string
	t    *Ty
}

// Junk: what gets substituted at every argument position of every base call.
func Junk() []junkT {
	f0 := func(r *Ty) *Ty { return Sig(nil, L(r, tErr)) }
	return []junkT{
		{"int", tInt}, {"string", tStr}, {"bool", tBool}, {"float64", tF64}, {"complex128", tC128},
		{"named-int", Named(2, tInt)}, {"named-slice", Named(3, Slice(tInt))},
		{"slice", Slice(tInt)}, {"slice-slice", Slice(Slice(tInt))}, {"slice-string", Slice(tStr)},
		{"ptr", Ptr(tInt)}, {"map", Map(tStr, tInt)}, {"mapset", Map(tInt, tEmptySt)}, {"array", Array(2, tInt)},
		{"struct", Struct(tInt, tStr)}, {"struct0", tEmptySt}, {"named-struct", nsPlain()}, {"ptr-named-struct", Ptr(nsPlain())},
		{"chan", Chan(0, tInt)}, {"recvchan", Chan(2, tInt)}, {"sendchan", Chan(1, tInt)}, {"chanchan", Chan(2, Chan(2, tInt))},
		{"slice-chan", Slice(Chan(2, tInt))}, {"slice-bichan", Slice(Chan(0, tInt))}, {"slice-sendchan", Slice(Chan(1, tInt))},
		{"bichan-of-bichan", Chan(0, Chan(0, tInt))}, {"recvchan-of-bichan", Chan(2, Chan(0, tInt))},
		{"sendchan-of-recvchan", Chan(1, Chan(2, tInt))}, {"recvchan-of-sendchan", Chan(2, Chan(1, tInt))},
		{"func-bichan", Sig(L(tInt), L(Chan(0, tStr)))}, {"func-sendchan", Sig(L(tInt), L(Chan(1, tStr)))},
		{"func0", Sig(nil, nil)}, {"pred", Sig(L(tInt), L(tBool))}, {"variadic-pred", VSig(L(Slice(tInt)), L(tBool))},
		{"variadic2", VSig(L(tInt, Slice(tStr)), L(tBool))},
		{"func2", Sig(L(tInt, tStr), L(tBool))}, {"func-err", f0(tInt)}, {"func1-err", Sig(L(tInt), L(tStr, tErr))},
		{"func-func", Sig(L(tInt), L(Sig(L(tStr), L(tBool))))}, {"func-chan", Sig(L(tInt), L(Chan(2, tStr)))},
		{"func-2res", Sig(L(tInt), L(tStr, tBool))},
		{"func1-void", Sig(L(tInt), nil)}, {"func0-1res", Sig(nil, L(tInt))}, {"func2-void", Sig(L(tInt, tStr), nil)},
		{"iface", tIface}, {"iface1", Iface(1)}, {"error", tErr}, {"named-error", NamedErr(4, Struct(tInt))},
		{"unsafeptr", tUnsafe},
		{"nil", tNil}, {"u-int", B("u-int")}, {"u-string", B("u-string")}, {"u-bool", B("u-bool")}, {"u-float", B("u-float")},
		{"u-rune", B("u-rune")},
		// (no u-complex here: whether the constant 1i is representable in the parameter type the
		// plugin infers from ANOTHER argument, e.g. deriveMin([]int, 1i), depends on its value, and the
		// ill-typed call is the user's; it is used where the constant alone decides the type, see UntypedArgs)
		{"tuple-int-err", Tuple(tInt, tErr)}, {"tuple-func-err", Tuple(f0(tInt), tErr)}, {"tuple3", Tuple(tInt, tStr, tBool)},
	}
}

// Unsupported constituents for the type-recursive plugins.
func Unsupported() []junkT {
	return []junkT{
		{"chan", Chan(0, tInt)}, {"func", Sig(nil, nil)}, {"iface", tIface}, {"unsafeptr", tUnsafe},
		{"error", tErr}, {"recvchan", Chan(2, tStr)},
	}
}

type shapeT struct {
	name string
	mk   func(u *Ty) *Ty
}

var idc = 10

// freshID: ids of the generated named types.  8400..10999 holds the fixed ids of the batteries (8490, 8500.., 9000,
// instances of the generic type 9800.., type parameters 9900..9999, which the model recognises by id): the counter,
// which passes 8400 only in the thorough tier, skips that range.
func freshID() int {
	idc++
	if idc == 8400 {
		idc = 11000
	}
	return idc
}

// Shapes1: every position of every type former of depth 1.
func Shapes1() []shapeT {
	return []shapeT{
		{"self", func(u *Ty) *Ty { return u }},
		{"ptr", func(u *Ty) *Ty { return Ptr(u) }},
		{"slice", func(u *Ty) *Ty { return Slice(u) }},
		{"array", func(u *Ty) *Ty { return Array(2, u) }},
		{"mapval", func(u *Ty) *Ty { return Map(tStr, u) }},
		{"mapkey", func(u *Ty) *Ty { return Map(u, tInt) }},
		{"struct1", func(u *Ty) *Ty { return Struct(u) }},
		{"struct2", func(u *Ty) *Ty { return Struct(tInt, u) }},
		{"nstruct", func(u *Ty) *Ty { return nstruct(freshID(), tInt, u) }},
		{"named", func(u *Ty) *Ty { return Named(freshID(), u) }},
	}
}

// RecForms: how a type T is handed to each type-recursive or delegating plugin.
type formT struct {
	plugin string
	name   string
	mk     func(t *Ty) []*Ty
}

func RecForms() []formT {
	two := func(t *Ty) []*Ty { return L(t, t) }
	one := func(t *Ty) []*Ty { return L(t) }
	return []formT{
		{"equal", "equal(T,T)", two}, {"equal", "equal(T)", one},
		{"compare", "compare(T,T)", two},
		{"hash", "hash(T)", one},
		{"deepcopy", "deepcopy(T,T)", two}, {"deepcopy", "deepcopy(*T,*T)", func(t *Ty) []*Ty { return L(Ptr(t), Ptr(t)) }},
		{"clone", "clone(T)", one},
		{"gostring", "gostring(T)", one},
		{"sort", "sort([]T)", func(t *Ty) []*Ty { return L(Slice(t)) }},
		{"min", "min(T,T)", two}, {"min", "min([]T,T)", func(t *Ty) []*Ty { return L(Slice(t), t) }},
		{"max", "max(T,T)", two}, {"max", "max([]T,T)", func(t *Ty) []*Ty { return L(Slice(t), t) }},
		{"keys", "keys(map[T]int)", func(t *Ty) []*Ty { return L(Map(t, tInt)) }},
		{"contains", "contains([]T,T)", func(t *Ty) []*Ty { return L(Slice(t), t) }},
		{"unique", "unique([]T)", func(t *Ty) []*Ty { return L(Slice(t)) }},
		{"set", "set([]T)", func(t *Ty) []*Ty { return L(Slice(t)) }},
		{"union", "union([]T,[]T)", func(t *Ty) []*Ty { return L(Slice(t), Slice(t)) }},
		{"intersect", "intersect([]T,[]T)", func(t *Ty) []*Ty { return L(Slice(t), Slice(t)) }},
		{"mem", "mem(func(T)int)", func(t *Ty) []*Ty { return L(Sig(L(t), L(tInt))) }},
		{"mem", "mem(func(T,int)int)", func(t *Ty) []*Ty { return L(Sig(L(t, tInt), L(tInt))) }},
	}
}

// Supported leaves used to fill shapes when no unsupported constituent is wanted.
func Leaves() []junkT {
	return []junkT{{"int", tInt}, {"string", tStr}, {"bool", tBool}, {"float64", tF64}, {"complex128", tC128},
		{"bytes", Slice(B("uint8"))}, {"ptrint", Ptr(tInt)}, {"nstruct", nsPlain()}, {"struct0", tEmptySt}}
}

// Cases builds the whole battery for a tier; the quick tier is a seeded sample that always
// contains the bases, the arity cases, the depth-1 sweep of the recursive plugins and the corpus classes.
func Cases(r *hx.Rand, tier string) []Case {
	var must, pool []Case
	bases := Bases()
	for _, p := range Plugins {
		for bi, base := range bases[p] {
			must = append(must, Case{Plugin: p, Args: base, Class: "base"})
			// arity
			if bi == 0 {
				must = append(must, Case{Plugin: p, Args: nil, Class: "arity/0"})
				must = append(must, Case{Plugin: p, Args: base[:len(base)-1], Class: "arity/-1"})
				must = append(must, Case{Plugin: p, Args: append(append([]*Ty{}, base...), tInt), Class: "arity/+1"})
				pool = append(pool, Case{Plugin: p, Args: append(append([]*Ty{}, base...), base[len(base)-1]), Class: "arity/+1same"})
			}
			// substitution at every position
			for i := range base {
				for _, j := range Junk() {
					args := append([]*Ty{}, base...)
					args[i] = j.t
					c := Case{Plugin: p, Args: args, Class: "subst/" + j.name}
					if bi == 0 && (j.name == "int" || j.name == "nil" || j.name == "variadic-pred" || j.name == "chan" || j.name == "func0" || j.name == "func1-void" || j.name == "func0-1res" || j.name == "variadic2") {
						must = append(must, c)
					} else {
						pool = append(pool, c)
					}
				}
			}
			// both positions replaced by the same junk (identical-arguments plugins)
			if len(base) == 2 {
				for _, j := range Junk() {
					pool = append(pool, Case{Plugin: p, Args: L(j.t, j.t), Class: "subst2/" + j.name})
				}
			}
		}
	}
	// type-recursive sweep
	forms := RecForms()
	s1 := Shapes1()
	mainForm := map[string]bool{"equal(T,T)": true, "compare(T,T)": true, "hash(T)": true, "deepcopy(*T,*T)": true,
		"clone(T)": true, "gostring(T)": true}
	for _, f := range forms {
		for _, u := range Unsupported() {
			for _, s := range s1 {
				c := Case{Plugin: f.plugin, Args: f.mk(s.mk(u.t)), Class: "rec1/" + s.name + "/" + u.name}
				if u.name == "error" || u.name == "recvchan" || !mainForm[f.name] {
					pool = append(pool, c)
				} else {
					must = append(must, c)
				}
				for _, s2 := range s1 {
					if s2.name == "self" || s.name == "self" {
						continue
					}
					pool = append(pool, Case{Plugin: f.plugin, Args: f.mk(s2.mk(s.mk(u.t))), Class: "rec2/" + s2.name + "." + s.name + "/" + u.name})
				}
			}
		}
		// supported leaves in the same shapes (the expected-ok side of the same positions)
		for _, l := range Leaves() {
			for _, s := range s1 {
				c := Case{Plugin: f.plugin, Args: f.mk(s.mk(l.t)), Class: "sup1/" + s.name + "/" + l.name}
				if l.name == "int" && mainForm[f.name] {
					must = append(must, c)
				} else {
					pool = append(pool, c)
				}
				for _, s2 := range s1 {
					if s2.name == "self" || s.name == "self" {
						continue
					}
					pool = append(pool, Case{Plugin: f.plugin, Args: f.mk(s2.mk(s.mk(l.t))), Class: "sup2/" + s2.name + "." + s.name + "/" + l.name})
				}
			}
		}
	}
	// unordered / odd element types for min, max, sort
	for _, p := range []string{"min", "max", "sort"} {
		for _, j := range Junk() {
			if j.t.K == "tup" || j.t.untyped() {
				continue
			}
			if p == "sort" {
				must = append(must, Case{Plugin: p, Args: L(Slice(j.t)), Class: "unordered/" + j.name})
			} else {
				must = append(must, Case{Plugin: p, Args: L(j.t, j.t), Class: "unordered/" + j.name})
				pool = append(pool, Case{Plugin: p, Args: L(Slice(j.t), j.t), Class: "unordered-slice/" + j.name})
			}
		}
	}
	// min/max in the slice form with an untyped constant as the default value
	for _, p := range []string{"min", "max"} {
		for _, j := range Junk() {
			if j.t.K == "tup" || j.t.untyped() {
				continue
			}
			c := Case{Plugin: p, Args: L(Slice(j.t), B("u-int")), Class: "unordered-slice-untyped/" + j.name}
			switch j.name {
			case "int", "float64", "string", "iface", "complex128", "bool", "named-struct", "ptr-named-struct", "chan", "func0":
				must = append(must, c)
			default:
				pool = append(pool, c)
			}
		}
	}
	must = append(must, Directions()...)
	must = append(must, UntypedArgs()...)
	// the fitting variadic twin of every call shape and every function type in it (vtwin.go)
	must = append(must, VariadicTwins()...)
	// depth 2 of the main forms over the supported leaf int (the expected-ok side): always
	for _, f := range forms {
		if !mainForm[f.name] {
			continue
		}
		for _, s := range s1 {
			for _, s2 := range s1 {
				if s2.name == "self" || s.name == "self" {
					continue
				}
				must = append(must, Case{Plugin: f.plugin, Args: f.mk(s2.mk(s.mk(tInt))), Class: "sup2/" + s2.name + "." + s.name + "/int"})
			}
		}
	}
	hx.Shuffle(r, pool)
	n := 450
	if tier == "thorough" {
		n = 12000
	}
	if len(pool) < n {
		n = len(pool)
	}
	out := append(must, pool[:n]...)
	// defined types at every constituent position of every call shape (nconst.go): those of the
	// documented shapes always, a sample of those of the extra and of the channel-direction shapes
	// (drawn after the pool above so that its sample is what it was)
	ncMust, ncPool := NamedConstituents()
	out = append(out, ncMust...)
	hx.Shuffle(r.Fork(7), ncPool)
	m := 40
	if tier == "thorough" || len(ncPool) < m {
		m = len(ncPool)
	}
	out = append(out, ncPool[:m]...)
	// three and more arguments of the plugins that take any number (round 5; drawn last, see above)
	chMust, chPool := Chains()
	out = append(out, chMust...)
	hx.Shuffle(r.Fork(8), chPool)
	k := 30
	if tier == "thorough" || len(chPool) < k {
		k = len(chPool)
	}
	out = append(out, chPool[:k]...)
	// the type parameter of an enclosing generic function at every position (tparam.go)
	tpMust, tpPool := TParamCases()
	out = append(out, tpMust...)
	hx.Shuffle(r.Fork(9), tpPool)
	k = 60
	if tier == "thorough" || len(tpPool) < k {
		k = len(tpPool)
	}
	return append(out, tpPool[:k]...)
}

// Directions: every direction of every channel the combinators receive from (dup, fmap, join in its
// four channel forms, pipeline): a channel that cannot be received from has to be reported, the
// other ones have to give code that type-checks with the user's call (C09-fix-send-only-channel).
func Directions() []Case {
	var out []Case
	add := func(p string, args ...*Ty) { out = append(out, Case{Plugin: p, Args: args, Class: "chandir"}) }
	f := Sig(L(tInt), L(tStr))
	for d := 0; d < 3; d++ {
		add("dup", Chan(d, tInt))
		add("fmap", f, Chan(d, tInt))
		add("join", Slice(Chan(d, tInt)))
		add("join", Chan(2, tInt), Chan(0, tInt), Chan(d, tInt))
		for e := 0; e < 3; e++ {
			add("join", Chan(d, Chan(e, tInt)))
			add("join", Chan(d, tInt), Chan(e, tInt))
			add("dup", Chan(d, Chan(e, tInt)))
			add("pipeline", Sig(L(tInt), L(Chan(d, tStr))), Sig(L(tStr), L(Chan(e, tF64))))
		}
	}
	return out
}

// UntypedArgs: untyped constants handed to the plugins that print the type of their argument, and to
// the plugins that only use them as values of a type known from another argument
// (C09-fix-untyped-constant-argument: nil is reported by hash, gostring and tuple; clone takes the
// default type; everything that worked keeps working).
func UntypedArgs() []Case {
	var out []Case
	add := func(p string, args ...*Ty) { out = append(out, Case{Plugin: p, Args: args, Class: "untyped"}) }
	for _, k := range []string{"u-nil", "u-int", "u-string", "u-bool", "u-float", "u-rune", "u-complex"} {
		u := B(k)
		for _, p := range []string{"hash", "gostring", "clone", "keys", "set", "sort", "unique", "tuple", "equal", "compare"} {
			add(p, u)
		}
		add("tuple", tInt, u)
		add("tuple", u, tNil)
		add("tuple", u, B("u-string"), u)
		for _, p := range []string{"equal", "compare", "deepcopy", "min", "max"} {
			add(p, u, u)
		}
	}
	ptr := Ptr(nsPlain())
	add("contains", Slice(ptr), tNil)
	add("contains", Slice(tInt), B("u-int"))
	add("contains", Slice(tStr), B("u-string"))
	add("contains", Slice(tF64), B("u-int"))
	add("apply", Sig(L(tInt, ptr), L(tBool)), tNil)
	add("apply", Sig(L(tInt, tF64), L(tBool)), B("u-int"))
	add("apply", Sig(L(tInt, tStr), L(tBool)), B("u-string"))
	for _, p := range []string{"min", "max"} {
		add(p, Slice(ptr), tNil)
		add(p, Slice(tF64), B("u-int"))
		add(p, Slice(tStr), B("u-string"))
	}
	add("fmap", Sig(L(tI32), L(tBool)), B("u-string"))
	return out
}

// Twins: packages with the same call twice, on two distinct named types with the same underlying
// types (bases of every plugin, and the recursive forms over five shapes of int).
func Twins(r *hx.Rand, tier string) []Case {
	var out []Case
	add := func(c Case) {
		a, b := c.Twin(8000), c.Twin(8100)
		if a == nil {
			return
		}
		out = append(out, Case{Plugin: c.Plugin, Args: a, Class: "twin/" + c.Class, Second: b})
	}
	bases := Bases()
	for _, p := range Plugins {
		for _, base := range bases[p] {
			add(Case{Plugin: p, Args: base, Class: "base"})
		}
	}
	for _, f := range RecForms() {
		for _, s := range Shapes1() {
			switch s.name {
			case "self", "ptr", "slice", "mapval", "struct1":
			default:
				if tier != "thorough" {
					continue
				}
			}
			add(Case{Plugin: f.plugin, Args: f.mk(s.mk(tInt)), Class: "rec/" + s.name})
		}
	}
	return out
}

func (c Case) String() string {
	return fmt.Sprintf("%s %s %s", c.Plugin, c.Class, c.ArgsSexp())
}

// relFamily: types that are related but not identical: an unnamed type literal U and two distinct defined
// types over U.  N1 and N2 are both assignable to and from U (for a U that is not itself named or basic)
// but not to each other — assignability is not transitive, identity is.
func relFamily(u *Ty, id int) []*Ty { return []*Ty{u, Named(id, u), Named(id+1, u)} }

// Chains (round 5): the plugins that take ANY number of arguments (join over channels, compose, do, tuple)
// with three and four arguments whose types are related pairwise in every pattern over {U, N1, N2}: the
// checks between neighbours / with the first argument are loops, two arguments only exercise their first
// iteration.  All 27 patterns of length three over a slice type; the alternation patterns (named / unnamed /
// other named, …) of length three and four over a map, func, pointer, struct, chan and basic type.
func Chains() (must, pool []Case) {
	unders := []struct {
		name string
		u    *Ty
	}{
		{"slice", Slice(tInt)}, {"map", Map(tStr, tInt)}, {"func", Sig(L(tInt), L(tBool))}, {"ptr", Ptr(tInt)},
		{"struct", Struct(tInt, tStr)}, {"chan", Chan(2, tInt)}, {"basic", tInt},
	}
	f0 := func(r *Ty) *Ty { return Sig(nil, L(r, tErr)) }
	pats3 := [][]int{{1, 0, 2}, {0, 1, 0}, {1, 0, 1}, {0, 0, 1}, {1, 1, 0}, {1, 2, 1}, {1, 1, 1}, {0, 1, 2}, {2, 0, 1}}
	pats4 := [][]int{{1, 0, 0, 2}, {0, 1, 0, 2}, {1, 0, 1, 0}, {1, 1, 0, 2}, {0, 0, 0, 1}, {1, 1, 1, 1}, {1, 0, 2, 0}}
	id := 8500
	for ui, un := range unders {
		fam := relFamily(un.u, id)
		id += 2
		var pats [][]int
		if ui == 0 {
			for a := 0; a < 3; a++ {
				for b := 0; b < 3; b++ {
					for c := 0; c < 3; c++ {
						pats = append(pats, []int{a, b, c})
					}
				}
			}
		} else {
			pats = append(pats, pats3...)
		}
		pats = append(pats, pats4...)
		for pi, pat := range pats {
			name := un.name + "/"
			for _, k := range pat {
				name += string("UAB"[k])
			}
			// join: chan of each; the channels alternate between bidirectional and receive only
			var chans, dos, tup []*Ty
			for i, k := range pat {
				chans = append(chans, Chan([]int{2, 0}[(i+pi)%2], fam[k]))
				dos = append(dos, f0(fam[k]))
				tup = append(tup, fam[k])
			}
			// compose: f_i : func(X_i) (X_i+1, error): the result of one function and the parameter of the next are
			// neighbours in the pattern (the first parameter is an int)
			var comp []*Ty
			prev := tInt
			for i := 0; i+1 < len(pat); i += 2 {
				comp = append(comp, Sig(L(prev), L(fam[pat[i]], tErr)))
				prev = fam[pat[i+1]]
			}
			comp = append(comp, Sig(L(prev), L(tStr, tErr)))
			cj := Case{Plugin: "join", Args: chans, Class: "chain/" + name}
			cc := Case{Plugin: "compose", Args: comp, Class: "chain/" + name}
			// three functions with all four types from the family
			var comp3 []*Ty
			if len(pat) == 4 {
				comp3 = []*Ty{Sig(L(tInt), L(fam[pat[0]], tErr)), Sig(L(fam[pat[1]]), L(fam[pat[2]], tErr)), Sig(L(fam[pat[3]]), L(tStr, tErr))}
			}
			if ui == 0 || pi < 3 || len(pat) == 4 && pi%2 == 0 {
				must = append(must, cj)
			} else {
				pool = append(pool, cj)
			}
			if comp3 != nil {
				must = append(must, Case{Plugin: "compose", Args: comp3, Class: "chain3/" + name})
			}
			if pi < 3 {
				must = append(must, cc)
			} else {
				pool = append(pool, cc)
			}
			if pi%4 == ui%4 {
				pool = append(pool, Case{Plugin: "do", Args: dos, Class: "chain/" + name}, Case{Plugin: "tuple", Args: tup, Class: "chain/" + name})
			}
		}
	}
	// join with a channel of another kind in a late position, and send only late
	for n := 3; n <= 5; n++ {
		for _, odd := range []*Ty{Chan(2, tStr), Chan(1, tInt), Slice(tInt), Chan(2, Chan(2, tInt)), tInt, Chan(2, Named(8490, tInt))} {
			args := make([]*Ty, n)
			for i := range args {
				args[i] = Chan(2, tInt)
			}
			args[n-1] = odd
			must = append(must, Case{Plugin: "join", Args: args, Class: "chain/late-odd"})
			if n == 4 {
				a2 := append([]*Ty{}, args...)
				a2[n-1], a2[1] = a2[1], a2[n-1]
				must = append(must, Case{Plugin: "join", Args: a2, Class: "chain/middle-odd"})
			}
		}
	}
	// do and tuple with three to five well-formed arguments
	for n := 3; n <= 5; n++ {
		var dos, tup []*Ty
		for i := 0; i < n; i++ {
			t := []*Ty{tInt, tStr, Slice(tInt), nsPlain(), Ptr(tInt)}[i]
			dos = append(dos, f0(t))
			tup = append(tup, t)
		}
		must = append(must, Case{Plugin: "do", Args: dos, Class: "chain/long"}, Case{Plugin: "tuple", Args: tup, Class: "chain/long"})
		bad := append([]*Ty{}, dos...)
		bad[n-1] = Sig(nil, L(tInt))
		must = append(must, Case{Plugin: "do", Args: bad, Class: "chain/late-odd"})
	}
	return must, pool
}
