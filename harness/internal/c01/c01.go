// Package c01: successful generation yields a complete, type-correct package.
//
// (A) every type shape x each type-recursive plugin: goderive + go vet on a singleton package,
//     compared with the model's support predicates (eval01);
// (B) call-site forms (function body, package-level var, closure, nested derive call, _test
//     file, curried form) over a sample of types;
// (C) the functional plugins in their documented signature forms over several element types;
// (D) imported types from two packages with the same name, unexported fields;
// (F) sibling types (siblings.go): two named types with one underlying type, and that type written out,
//     used by different calls of one package - helpers are looked up by assignability;
// (G) directory layouts (layouts.go): external test packages beside the package, in-package test files,
//     sub-packages importing each other, `./...` and explicit package lists;
// (H) file and directory names that resemble derived.gen.go (names.go);
// (I) importers of values whose types are inferred from another package's derived functions (deps.go).
package c01

import (
	"fmt"
	"os"
	"path/filepath"
	"strings"

	"verifharness/internal/ga"
	"verifharness/internal/hx"
)

type group struct {
	name  string
	calls []ga.Call
}

var groups = []group{
	{"equal", []ga.Call{ga.CallEq, ga.CallEqC}},
	{"compare", []ga.Call{ga.CallCmp, ga.CallCmpC}},
	{"hash", []ga.Call{ga.CallHash}},
	{"deepcopy", []ga.Call{ga.CallDC}},
	{"clone", []ga.Call{ga.CallClone}},
	{"gostring", []ga.Call{ga.CallGS}},
}

func Run(cfg hx.Config) (*hx.Meta, error) {
	meta := &hx.Meta{Property: "C01", Seed: cfg.Seed, Tier: cfg.Tier}
	r := hx.NewRand(cfg.Seed)
	cat := ga.NewCatalogue()
	var types []*ga.Type
	if cfg.Tier == "thorough" {
		types = append(cat.Special(), cat.Shapes(r, 2, 400)...)
	} else {
		types = append(cat.Special(), cat.Shapes(r, 1, 30)...)
		d2 := cat.Shapes(r, 2, 0)
		hx.Shuffle(r, d2)
		types = ga.Dedup(append(types, d2[:50]...))
	}
	// (D) both imported packages (same package name) in one type, pointer chains
	types = ga.Dedup(append(types,
		ga.St(cat.E1, cat.E2), ga.P(ga.St(ga.P(cat.E3), cat.E2)), ga.M(cat.E3, ga.Sl(cat.E1)), ga.Sl(ga.P(cat.E2)),
		ga.P(ga.P(cat.S0)), ga.P(ga.P(ga.B("int"))), ga.M(ga.B("string"), ga.Ar(2, ga.P(ga.B("int")))), ga.P(cat.Rec), ga.P(cat.MA), ga.P(cat.SP), ga.P(cat.E1)))
	// (E) unexported fields whose TYPE is imported: in a local struct (the field is reached by a plain
	// selector, its type need not be printed) and in an imported struct (reached through unsafe, the type is
	// printed), among them a type with value-receiver Equal/Compare methods of its own
	mx := ga.Named(101, "MX", 1, ga.St(ga.B("int"), ga.B("string")))
	mx.Methods = "func (a MX) Equal(b MX) bool { return a.F0 == b.F0 }\n\n" +
		"func (a MX) Compare(b MX) int {\n\tif a.F0 < b.F0 {\n\t\treturn -1\n\t}\n\tif a.F0 > b.F0 {\n\t\treturn 1\n\t}\n\treturn 0\n}\n\n"
	lp := ga.Named(23, "LP", 0, ga.StP([]bool{false, true}, ga.B("int"), cat.E3))
	lp2 := ga.Named(24, "LP2", 0, ga.StP([]bool{true, true, false}, cat.E3, ga.P(cat.E2), ga.B("string")))
	hx1 := ga.Named(36, "HX", 1, ga.StP([]bool{true, false}, mx, ga.B("int")))
	hx2 := ga.Named(37, "HY", 2, ga.StP([]bool{false, true, true}, ga.B("int"), cat.E4, ga.Sl(cat.E2)))
	types = ga.Dedup(append(types, lp, ga.P(lp), lp2, ga.P(lp2), ga.Sl(lp), hx1, ga.P(hx1), ga.Sl(hx1), hx2, ga.P(hx2), ga.M(ga.B("string"), hx1)))
	var obs strings.Builder
	// VERIF_C01_ONLY=siblings,layouts (development aid): run only the named direct batteries
	if only := os.Getenv("VERIF_C01_ONLY"); only != "" {
		for _, sec := range strings.Split(only, ",") {
			switch sec {
			case "siblings":
				siblings(cfg, meta)
			case "layouts":
				layouts(cfg, meta)
			case "names":
				names(cfg, meta)
			case "deps":
				deps(cfg, meta)
			case "callsites":
				callsites(cfg, meta, cat, r)
			}
		}
		return meta, nil
	}
	for gi, g := range groups {
		probes := ga.Probe(cfg.Goderive, filepath.Join(cfg.Work, fmt.Sprintf("probe-%s", g.name)), types, g.calls, true)
		for i, t := range types {
			pr := probes[i]
			meta.GoderiveRuns++
			vet := 0
			if pr.VetOK {
				vet = 1
			}
			fmt.Fprintf(&obs, "(gen %s %s %s %d)\n", g.name, t.Sexp(), pr.GenClass, vet)
			meta.Count("gen/" + g.name + "/" + pr.GenClass + fmt.Sprintf("/vet=%d", vet))
			if pr.GenClass == "ok" && !pr.VetOK {
				// keep what is needed to replay
				_ = os.MkdirAll(filepath.Join(cfg.Out, "failing"), 0o755)
				_ = os.WriteFile(filepath.Join(cfg.Out, "failing", fmt.Sprintf("%s-%03d.txt", g.name, i)),
					[]byte(t.Go(0)+"\n"+pr.VetOut+"\n"), 0o644)
			}
			if gi == 0 && i < 3 {
				meta.Sample(fmt.Sprintf("(gen %s %s %s %d)", g.name, hx.Truncate(t.Sexp(), 160), pr.GenClass, vet))
			}
		}
	}
	of := filepath.Join(cfg.Out, "c01-gen.obs")
	if err := os.WriteFile(of, []byte(obs.String()), 0o644); err != nil {
		return nil, err
	}
	meta.ObsFiles = append(meta.ObsFiles, of)

	callsites(cfg, meta, cat, r)
	functional(cfg, meta, cat)
	siblings(cfg, meta)
	layouts(cfg, meta)
	names(cfg, meta)
	deps(cfg, meta)
	if err := inproc(cfg, meta, r); err != nil {
		return nil, err
	}
	return meta, nil
}

// ---------- (B) call-site forms ----------

type form struct {
	name string
	// file name and source for element type T (Go spelling), using derive names unique per form
	src func(tgo string, zero string) (file string, text string)
}

var forms = []form{
	{"function-body", func(t, z string) (string, string) {
		return "f_body.go", "package main\n\nfunc body(a, b " + t + ") bool { return deriveEqualBody(a, b) }\n"
	}},
	{"package-level-var", func(t, z string) (string, string) {
		return "f_var.go", "package main\n\nvar pkgA, pkgB " + t + "\n\nvar pkgEq = deriveEqualVar(pkgA, pkgB)\n\nvar pkgHash = deriveHashVar(pkgA)\n"
	}},
	{"closure", func(t, z string) (string, string) {
		return "f_closure.go", "package main\n\nvar clo = func(a, b " + t + ") int { return func() int { return deriveCompareClo(a, b) }() }\n"
	}},
	{"nested-derive-call", func(t, z string) (string, string) {
		return "f_nested.go", "package main\n\nfunc nested(m map[string]" + t + ", a " + t + ") ([]string, bool) {\n\treturn deriveSortN(deriveKeysN(m)), deriveEqualN(deriveCloneN(a), a)\n}\n"
	}},
	{"deeply-nested-derive-calls", func(t, z string) (string, string) {
		return "f_deep.go", "package main\n\nfunc deep(m map[string][]" + t + ") ([]string, int) {\n" +
			"\ta := deriveUniqueD(deriveSortD(deriveKeysD(deriveSetD(deriveKeysD2(m)))))\n" +
			"\tk := deriveKeysD2(m)\n\ts := deriveSetD(k)\n\tk2 := deriveKeysD(s)\n\tso := deriveSortD(k2)\n\tu := deriveUniqueD(so)\n\tj := deriveJoinD(deriveFmapD(func(x string) []string { return []string{x} }, u))\n" +
			"\treturn a, len(deriveUnionD(j, deriveIntersectD(a, u)))\n}\n"
	}},
	{"call-inside-conversion", func(t, z string) (string, string) {
		return "f_conv.go", "package main\n\nfunc conv(a, b " + t + ") (int, float64, string, uint8) {\n" +
			"\treturn int(deriveHashConv(a) % 7), float64(deriveCompareConv(a, b)), string(rune(deriveHashConv(b)%26 + 'a')), uint8(len(deriveGoStringConv(a)))\n}\n"
	}},
	{"test-file", func(t, z string) (string, string) {
		return "f_x_test.go", "package main\n\nfunc inTest(a " + t + ") uint64 { return deriveHashT(a) }\n"
	}},
	{"curried-one-argument", func(t, z string) (string, string) {
		return "f_curried.go", "package main\n\nfunc curried(a, b " + t + ") (bool, int) { return deriveEqualCur(a)(b), deriveCompareCur(a)(b) }\n"
	}},
	{"method-body-and-struct-literal", func(t, z string) (string, string) {
		return "f_method.go", "package main\n\ntype holder struct{ v " + t + " }\n\nfunc (h *holder) same(o *holder) bool { return deriveEqualM(h.v, o.v) }\n\nvar table = map[string]func(" + t + ") uint64{\"h\": func(a " + t + ") uint64 { return deriveHashM(a) }}\n"
	}},
}

func callsites(cfg hx.Config, meta *hx.Meta, cat *ga.Catalogue, r *hx.Rand) {
	sample := []*ga.Type{ga.B("int"), ga.B("string"), cat.S0, ga.P(cat.S0), ga.P(cat.SP), ga.Sl(ga.B("int")), ga.M(ga.B("string"), ga.P(ga.B("int"))),
		ga.P(cat.Rec), ga.P(cat.E1), cat.NInt, ga.Ar(2, ga.Sl(ga.B("string"))), ga.P(cat.MA)}
	if cfg.Tier == "thorough" {
		for i := 0; i < 40; i++ {
			sample = append(sample, cat.Random(r, 3))
		}
	}
	type job struct {
		t *ga.Type
		f form
	}
	var jobs []job
	for _, t := range sample {
		for _, f := range forms {
			jobs = append(jobs, job{t, f})
		}
	}
	hx.Parallel(len(jobs), 16, func(i int) {
		j := jobs[i]
		// only types every plugin used by the forms accepts: named structs are compared through pointers by the probes above
		dir := filepath.Join(cfg.Work, fmt.Sprintf("site%04d", i))
		p := &ga.Pkg{Dir: dir, Types: []*ga.Type{j.t}, Idx: []int{0}, Calls: nil, Extra: map[string]string{}}
		file, text := j.f.src(j.t.Go(0), "")
		// imports for external types
		ext := map[int]bool{}
		j.t.UsesExt(ext)
		if len(ext) > 0 {
			var imp strings.Builder
			imp.WriteString("import (\n")
			for _, e := range []int{1, 2} {
				if ext[e] {
					fmt.Fprintf(&imp, "\t%s %q\n", map[int]string{1: "ext", 2: "ext2"}[e], ga.ExtPaths[e])
				}
			}
			imp.WriteString(")\n\n")
			text = strings.Replace(text, "package main\n\n", "package main\n\n"+imp.String(), 1)
		}
		p.Extra[file] = text
		p.Extra["main.go"] = "package main\n\nfunc main() {}\n"
		if err := p.Write(); err != nil {
			meta.AddDirect(hx.Direct{Class: "c01-harness", What: err.Error()})
			return
		}
		os.Remove(filepath.Join(dir, "rt.go"))
		os.Remove(filepath.Join(dir, "reg.go"))
		g := p.Generate(cfg.Goderive)
		metaCount(meta, "callsite/"+j.f.name+"/"+ga.ClassifyGoderive(g))
		cls := ga.ClassifyGoderive(g)
		if cls == "generator-error" {
			return // the type is outside some plugin's supported set (e.g. unnamed struct for compare)
		}
		if cls != "ok" {
			if cls == "panic" || cls == "timeout" {
				return // C09
			}
			meta.AddDirect(hx.Direct{Class: "c01-callsite-" + j.f.name, What: "goderive fails (" + cls + ") for a " + j.f.name + " call site with " + j.t.Go(0),
				Files: map[string]string{file: text}, Cmd: "goderive .", Output: hx.Truncate(g.Out, 2000)})
			return
		}
		v := hx.GoVet(dir, "", "./...")
		if v.Exit != 0 {
			meta.AddDirect(hx.Direct{Class: "c01-callsite-" + j.f.name, What: "generated package does not type-check for a " + j.f.name + " call site with " + j.t.Go(0),
				Files: map[string]string{file: text, "derived.gen.go": p.Derived()}, Cmd: "goderive . && go vet ./...", Output: hx.Truncate(v.Out, 2000)})
			return
		}
		fm := hx.Run(dir, 60e9, 0, hx.GoEnv(), "gofmt", "-l", "derived.gen.go")
		if strings.TrimSpace(fm.Stdout) != "" {
			metaCount(meta, "gofmt-l/not-formatted")
		} else {
			metaCount(meta, "gofmt-l/formatted")
		}
	})
}

func metaCount(m *hx.Meta, k string) { m.CountSafe(k) }

// ---------- (C) functional plugins in their documented forms ----------

func functionalSource(t string, comparable, ordered, gostring, minmax bool) string {
	var b strings.Builder
	w := func(s string) { b.WriteString(strings.ReplaceAll(s, "@T", t) + "\n") }
	b.WriteString("package main\n\n")
	w("func useKeys(m map[string]@T) []string { return deriveKeys(m) }")
	w("func useContains(l []@T, x @T) bool { return deriveContains(l, x) }")
	w("func useUnique(l []@T) []@T { return deriveUnique(l) }")
	w("func useUnion(a, b []@T) []@T { return deriveUnion(a, b) }")
	w("func useIntersect(a, b []@T) []@T { return deriveIntersect(a, b) }")
	w("func useFilter(p func(@T) bool, l []@T) []@T { return deriveFilter(p, l) }")
	w("func useTakeWhile(p func(@T) bool, l []@T) []@T { return deriveTakeWhile(p, l) }")
	w("func useAll(p func(@T) bool, l []@T) bool { return deriveAll(p, l) }")
	w("func useAny(p func(@T) bool, l []@T) bool { return deriveAny(p, l) }")
	w("func useFmap(f func(@T) string, l []@T) []string { return deriveFmap(f, l) }")
	w("func useFmapErr(f func(@T) string, g func() (@T, error)) (string, error) { return deriveFmapE(f, g) }")
	w("func useJoin(l [][]@T) []@T { return deriveJoin(l) }")
	w("func useJoinErr(f func() (@T, error), err error) (@T, error) { return deriveJoinE(f, err) }")
	w("func useJoinChan(c <-chan (<-chan @T)) <-chan @T { return deriveJoinC(c) }")
	w("func useJoinChans(c []<-chan @T) <-chan @T { return deriveJoinS(c) }")
	w("func useFmapChan(f func(@T) string, c <-chan @T) <-chan string { return deriveFmapC(f, c) }")
	w("func useCurry(f func(a @T, b string, c int) bool) func(@T) func(string, int) bool { return deriveCurry(f) }")
	w("func useUncurry(f func(a @T) func(b string) bool) func(@T, string) bool { return deriveUncurry(f) }")
	w("func useFlip(f func(a @T, b string) bool) func(string, @T) bool { return deriveFlip(f) }")
	w("func useApply(f func(a string, b @T) bool, x @T) func(string) bool { return deriveApply(f, x) }")
	w("func useTuple(a @T, b string) func() (@T, string) { return deriveTuple(a, b) }")
	w("func useCompose(f func(@T) (string, error), g func(string) (@T, error)) func(@T) (@T, error) { return deriveCompose(f, g) }")
	w("func useCompose3(f func() (@T, error), g func(@T) (int, string, error), h func(int, string) (@T, error)) func() (@T, error) { return deriveCompose3(f, g, h) }")
	w("func useMem(f func(@T) string) func(@T) string { return deriveMem(f) }")
	w("func useMem2(f func(a @T, b int) (@T, error)) func(@T, int) (@T, error) { return deriveMem2(f) }")
	w("func useTraverse(f func(@T) (string, error), l []@T) ([]string, error) { return deriveTraverse(f, l) }")
	w("func useToError(e error, f func(@T) (string, bool)) func(@T) (string, error) { return deriveToError(e, f) }")
	w("func useDo(f func() (@T, error), g func() (string, error)) (@T, string, error) { return deriveDo(f, g) }")
	w("func useDup(c <-chan @T) (<-chan @T, <-chan @T) { return deriveDup(c) }")
	w("func usePipeline(f func(string) <-chan @T, g func(@T) <-chan int) func(string) <-chan int { return derivePipeline(f, g) }")
	w("func useClone(a @T) @T { return deriveClone(a) }")
	if gostring {
		w("func useGoString(a @T) string { return deriveGoString(a) }")
	}
	w("func useHash(a @T) uint64 { return deriveHash(a) }")
	w("func useEqual(a, b @T) bool { return deriveEqual(a, b) }")
	if comparable {
		w("func useSet(l []@T) map[@T]struct{} { return deriveSet(l) }")
		w("func useUnionSet(a, b map[@T]struct{}) map[@T]struct{} { return deriveUnionS(a, b) }")
		w("func useIntersectSet(a, b map[@T]struct{}) map[@T]struct{} { return deriveIntersectS(a, b) }")
		w("func useKeysT(m map[@T]int) []@T { return deriveKeysT(m) }")
	}
	if ordered {
		w("func useSort(l []@T) []@T { return deriveSort(l) }")
		if minmax {
			// min/max use the < operator on basic types: bool and complex are unordered (C09's subject)
			w("func useMin(l []@T, d @T) @T { return deriveMin(l, d) }")
			w("func useMax(l []@T, d @T) @T { return deriveMax(l, d) }")
			w("func useMin2(a, b @T) @T { return deriveMin2(a, b) }")
			w("func useMax2(a, b @T) @T { return deriveMax2(a, b) }")
		}
		w("func useCompare(a, b @T) int { return deriveCompare(a, b) }")
	}
	b.WriteString("\nfunc main() {}\n")
	return b.String()
}

func functional(cfg hx.Config, meta *hx.Meta, cat *ga.Catalogue) {
	type et struct {
		t                   *ga.Type
		comparable, ordered bool
	}
	ets := []et{
		{ga.B("int"), true, true}, {ga.B("string"), true, true}, {ga.B("float64"), true, true}, {ga.B("bool"), true, true},
		{cat.NInt, true, true}, {cat.NStr, true, true}, {cat.S0, true, true}, {ga.P(cat.S0), false, true}, {ga.P(cat.SP), false, true},
		{ga.Sl(ga.B("int")), false, true}, {ga.M(ga.B("string"), ga.B("int")), false, true}, {ga.Ar(2, ga.B("string")), true, true},
		{ga.P(cat.E1), false, true}, {cat.E3, true, true}, {ga.P(cat.Rec), false, true}, {cat.NSl, false, true}, {ga.P(ga.B("int")), false, true},
	}
	hx.Parallel(len(ets), 16, func(i int) {
		e := ets[i]
		dir := filepath.Join(cfg.Work, fmt.Sprintf("func%03d", i))
		src := functionalSource(e.t.Go(0), e.comparable, e.ordered, e.t != ets[12].t, e.t.Go(0) != "bool")
		ext := map[int]bool{}
		e.t.UsesExt(ext)
		if len(ext) > 0 {
			var imp strings.Builder
			imp.WriteString("import (\n")
			for _, x := range []int{1, 2} {
				if ext[x] {
					fmt.Fprintf(&imp, "\t%s %q\n", map[int]string{1: "ext", 2: "ext2"}[x], ga.ExtPaths[x])
				}
			}
			imp.WriteString(")\n\n")
			src = strings.Replace(src, "package main\n\n", "package main\n\n"+imp.String(), 1)
		}
		p := &ga.Pkg{Dir: dir, Types: []*ga.Type{e.t}, Idx: []int{0}, Extra: map[string]string{"use.go": src}}
		if err := p.Write(); err != nil {
			meta.AddDirect(hx.Direct{Class: "c01-harness", What: err.Error()})
			return
		}
		os.Remove(filepath.Join(dir, "rt.go"))
		os.Remove(filepath.Join(dir, "reg.go"))
		g := p.Generate(cfg.Goderive)
		cls := ga.ClassifyGoderive(g)
		metaCount(meta, "functional/"+cls)
		if cls == "panic" || cls == "timeout" {
			return // C09
		}
		if cls != "ok" {
			meta.AddDirect(hx.Direct{Class: "c01-functional", What: "goderive fails (" + cls + ") on the functional plugins over element type " + e.t.Go(0),
				Files: map[string]string{"use.go": src}, Cmd: "goderive .", Output: hx.Truncate(g.Out, 2000)})
			return
		}
		v := hx.GoVet(dir, "", "./...")
		if v.Exit != 0 {
			meta.AddDirect(hx.Direct{Class: "c01-functional", What: "functional plugins over element type " + e.t.Go(0) + ": generated package does not type-check",
				Files: map[string]string{"use.go": src, "derived.gen.go": p.Derived()}, Cmd: "goderive . && go vet ./...", Output: hx.Truncate(v.Out, 2500)})
		}
	})
}
