// Package c01: correspondence harness of C01 (stub: replaced when C01 is built).
package c01

import (
	"fmt"

	"verifharness/internal/hx"
)

func Run(cfg hx.Config) (*hx.Meta, error) {
	return nil, fmt.Errorf("C01: harness not built yet")
}
