package c01

// In-process correspondence (S1) of the two bookkeeping models of C01 through the verif hooks of
// /repo/derive: the generate-until-done loop (Gen/Worklist.v) and the lazy import table
// (Gen/Imports.v).  Observed on the real code, predicted by the extracted model (eval01).

import (
	"bytes"
	"fmt"
	"go/types"
	"os"
	"path/filepath"
	"sort"
	"strings"
	"unicode"

	"github.com/awalterschulze/goderive/derive"

	"verifharness/internal/hx"
)

// pairwise non-assignable argument types: a key of the model is plugin*16 + type index
var wlTypes = []types.Type{
	types.Typ[types.Int], types.Typ[types.String], types.Typ[types.Bool], types.Typ[types.Float64], types.Typ[types.Int8],
	types.Typ[types.Uint16], types.Typ[types.Complex128], types.Typ[types.Uint64],
	types.NewSlice(types.Typ[types.Int]), types.NewSlice(types.Typ[types.String]), types.NewPointer(types.Typ[types.Int]),
	types.NewMap(types.Typ[types.String], types.Typ[types.Int]),
}

type fakeGen struct {
	derive.TypesMap
	idx  int
	deps map[string]derive.Dependency
	reqs map[int][]int // key -> requested keys
	log  *[]int
}

func typeIndex(t types.Type) int {
	for i, w := range wlTypes {
		if types.Identical(t, w) {
			return i
		}
	}
	return -1
}

func (g *fakeGen) Add(name string, typs []types.Type) (string, error) {
	return g.SetFuncName(name, typs...)
}

func (g *fakeGen) Generate(typs []types.Type) error {
	g.Generating(typs...)
	k := g.idx*16 + typeIndex(typs[0])
	*g.log = append(*g.log, k)
	for _, q := range g.reqs[k] {
		g.deps[fmt.Sprintf("p%d", q/16)].GetFuncName(wlTypes[q%16])
	}
	return nil
}

func intsSexp(l []int) string { return hx.Ints(l) }

func worklistCases(r *hx.Rand, n int, out *strings.Builder, meta *hx.Meta) {
	for c := 0; c < n; c++ {
		np := 2 + r.Intn(3) // plugins
		nt := 2 + r.Intn(len(wlTypes)-2)
		reqs := map[int][]int{}
		var keys []int
		for p := 0; p < np; p++ {
			for t := 0; t < nt; t++ {
				keys = append(keys, p*16+t)
			}
		}
		for _, k := range keys {
			m := r.Intn(4)
			if r.Intn(3) == 0 {
				m = 0
			}
			for j := 0; j < m; j++ {
				reqs[k] = append(reqs[k], hx.Pick(r, keys))
			}
		}
		ninit := 1 + r.Intn(4)
		var init []int
		for j := 0; j < ninit; j++ {
			init = append(init, hx.Pick(r, keys))
		}
		// the real loop
		var log []int
		reserved := map[string]struct{}{}
		gens := map[string]derive.Generator{}
		deps := map[string]derive.Dependency{}
		var plugins []derive.Plugin
		for p := 0; p < np; p++ {
			name := fmt.Sprintf("p%d", p)
			tm := derive.VerifNewTypesMap(nil, fmt.Sprintf("deriveP%d", p), reserved, false, false)
			g := &fakeGen{TypesMap: tm, idx: p, deps: deps, reqs: reqs, log: &log}
			gens[name] = g
			deps[name] = g
			pp := p
			plugins = append(plugins, derive.NewPlugin(name, fmt.Sprintf("deriveP%d", pp), nil))
		}
		for _, k := range init {
			gens[fmt.Sprintf("p%d", k/16)].GetFuncName(wlTypes[k%16])
		}
		done := make(chan error, 1)
		go func() { _, err := derive.VerifGenerate(plugins, gens); done <- err }()
		var err error
		select {
		case err = <-done:
		case <-timeAfter():
			err = fmt.Errorf("timeout")
		}
		status := "ok"
		if err != nil {
			status = "error"
		}
		var rq strings.Builder
		rq.WriteString("(")
		ks := make([]int, 0, len(reqs))
		for k := range reqs {
			ks = append(ks, k)
		}
		sort.Ints(ks)
		for i, k := range ks {
			if i > 0 {
				rq.WriteString(" ")
			}
			fmt.Fprintf(&rq, "(%d %s)", k, intsSexp(reqs[k]))
		}
		rq.WriteString(")")
		fmt.Fprintf(out, "(worklist %d %s %s %s %s)\n", np, intsSexp(init), rq.String(), status, intsSexp(log))
		meta.Count(fmt.Sprintf("worklist/plugins=%d", np))
		if c < 2 {
			meta.Sample(fmt.Sprintf("(worklist %d %s %s %s %s)", np, intsSexp(init), hx.Truncate(rq.String(), 120), status, intsSexp(log)))
		}
	}
}

func badToUnderscore(r rune) rune {
	if unicode.IsLetter(r) || unicode.IsDigit(r) || r == '_' {
		return r
	}
	return '_'
}

func symbolOf(s string) string { return hx.Bytes([]byte(s)) }

func importCases(r *hx.Rand, n int, out *strings.Builder, meta *hx.Meta) {
	// a package path always comes with its package name (types.Package.Name / the plugins' fixed
	// pairs), several paths share a name, and one package is NAMED like another's fall-back alias
	paths := []string{"p/x1/ext", "p/x2/ext", "bytes", "fmt", "q/vendor/p/x1/ext", "vendor/fmt", "p_x1_ext", "a/b-c/ext", "x/bytes", "p_x2_ext"}
	nameOf := map[string]string{"p/x1/ext": "ext", "p/x2/ext": "ext", "bytes": "bytes", "fmt": "fmt", "q/vendor/p/x1/ext": "ext",
		"vendor/fmt": "fmt", "p_x1_ext": "p_x1_ext", "a/b-c/ext": "ext", "x/bytes": "bytes", "p_x2_ext": "ext"}
	for c := 0; c < n; c++ {
		p := derive.VerifNewPrinter("main")
		k := 1 + r.Intn(7)
		var calls strings.Builder
		var aliases []string
		crashed := false
		calls.WriteString("(")
		func() {
			defer func() {
				if rec := recover(); rec != nil {
					crashed = true
				}
			}()
			for j := 0; j < k; j++ {
				path := hx.Pick(r, paths)
				name := nameOf[path]
				// what the model is given: the path after unvendoring and its fullpath
				up := path
				if i := strings.LastIndex(up, "/vendor/"); i != -1 {
					up = up[i+8:]
				}
				up = strings.TrimPrefix(up, "vendor/")
				full := strings.Map(badToUnderscore, up)
				if j > 0 {
					calls.WriteString(" ")
				}
				fmt.Fprintf(&calls, "(%s %s %s)", symbolOf(name), symbolOf(up), symbolOf(full))
				a := p.NewImport(name, path)()
				aliases = append(aliases, a)
			}
		}()
		calls.WriteString(")")
		res := "crash"
		if !crashed {
			var as strings.Builder
			as.WriteString("(")
			for i, a := range aliases {
				if i > 0 {
					as.WriteString(" ")
				}
				as.WriteString(symbolOf(a))
			}
			as.WriteString(")")
			// the import block that would be written
			var buf bytes.Buffer
			p.P("x")
			p.WriteTo(&buf)
			var tab []string
			for _, l := range strings.Split(buf.String(), "\n") {
				l = strings.TrimSpace(l)
				if strings.HasSuffix(l, "\"") && !strings.HasPrefix(l, "//") && !strings.HasPrefix(l, "package") {
					f := strings.Fields(l)
					path := strings.Trim(f[len(f)-1], "\"")
					alias := path
					if len(f) == 2 {
						alias = f[0]
					}
					tab = append(tab, "("+symbolOf(alias)+" "+symbolOf(path)+")")
				}
			}
			sort.Strings(tab)
			res = "(ok " + as.String() + " (" + strings.Join(tab, " ") + "))"
		}
		fmt.Fprintf(out, "(imports %s %s)\n", calls.String(), res)
		if crashed {
			meta.Count("imports/crash")
		} else {
			meta.Count("imports/ok")
		}
	}
}

func inproc(cfg hx.Config, meta *hx.Meta, r *hx.Rand) error {
	var out strings.Builder
	n := 400
	if cfg.Tier == "thorough" {
		n = 5000
	}
	worklistCases(r, n, &out, meta)
	importCases(r, n, &out, meta)
	f := filepath.Join(cfg.Out, "c01-inproc.obs")
	if err := os.WriteFile(f, []byte(out.String()), 0o644); err != nil {
		return err
	}
	meta.ObsFiles = append(meta.ObsFiles, f)
	return nil
}

func timeAfter() <-chan struct{} {
	c := make(chan struct{})
	go func() {
		hx.Sleep(20)
		close(c)
	}()
	return c
}
