package c01

// (H) how the user's source files and directories are NAMED.  goderive has to tell its own output file,
// derived.gen.go, from the files of the user in several places (collecting the derive calls of a package,
// deciding that a call addresses a generated function, hiding the file of a previous run, reserving the names
// of the user's own functions).  A file is the generated one only if its name IS derived.gen.go; every other
// .go file of the directory is a source file whose derive calls have to be generated and whose declarations
// are the user's, however much its name resembles the generated one.
//
// Each name gets a package of its own (main.go with a type and one derive call + the named file with a second
// type, methods forwarding to derive calls and a nested derive call), in both roles:
//   calls:  the named file holds derive calls (they have to be generated),
//   decls:  the named file declares an ordinary function of the user whose name starts with a plugin prefix
//           and that main.go calls (it must not be generated a second time),
// and the names sort before and after main.go.  One package holds several such files at once; directories
// with such names hold packages of a `./...` run.  No file imports the standard library.

import (
	"fmt"
	"strings"

	"verifharness/internal/hx"
)

// names that resemble derived.gen.go without being it.  All are ordinary source files for the go tool
// (none ends in _GOOS/_GOARCH, none starts with _ or .).
var lookalikeNames = []struct{ file, class string }{
	// the name ENDS in derived.gen.go
	{"event_derived.gen.go", "suffix"},
	{"api.derived.gen.go", "suffix"},
	{"underived.gen.go", "suffix"},
	{"zz-derived.gen.go", "suffix"},
	// the name STARTS with derived.gen.go / derived.gen
	{"derived.gen.go.go", "prefix"},
	{"derived.gen.go_x.go", "prefix"},
	{"derived.gen.event.go", "prefix"},
	// the name CONTAINS it
	{"my.derived.gen.go.v2.go", "infix"},
	// test files
	{"derived.gen_test.go", "test"},
	{"derived.gen.go_test.go", "test"},
	{"event_derived.gen_test.go", "test"},
	// near misses
	{"derived_gen.go", "near"},
	{"derived.go", "near"},
	{"gen.go", "near"},
	{"derived.gen.pb.go", "near"},
}

const namesMain = "package main\n\ntype Point struct {\n\tX, Y int\n\tTags []string\n}\n\nfunc samePoint(a, b *Point) bool { return deriveEqual(a, b) }\n\nfunc main() {}\n"

// the named file, role "calls": a type of its own, explicitly named derive calls, a nested call
func namesCalls(pkg string) string {
	return "package " + pkg + "\n\ntype Event struct {\n\tName string\n\tAt   *Point\n\tArgs map[string][]int\n}\n\n" +
		"func (e *Event) Equal(o *Event) bool { return deriveEqualEvent(e, o) }\n\n" +
		"func (e *Event) Compare(o *Event) int { return deriveCompareEvent(e, o) }\n\n" +
		"func sortedNames(m map[string]*Event) []string { return deriveSort(deriveKeys(m)) }\n\n" +
		"var zeroEvent = deriveClone(&Event{})\n"
}

// role "decls": the user's own functions with names that start with plugin prefixes, declared in the named
// file and called from main.go beside real derive calls
const namesDeclsFile = "package main\n\nfunc deriveEqualish(a, b int) bool { return a/10 == b/10 }\n\nfunc deriveKeysOf(m map[string]int) int { return len(m) }\n\n" +
	"func deriveHashPoint(p *Point) uint64 { return uint64(p.X)*31 + uint64(p.Y) }\n"
const namesPoint = "type Point struct {\n\tX, Y int\n\tTags []string\n}\n\n"
const namesDeclsUse = "func samePoint(a, b *Point) bool { return deriveEqual(a, b) && deriveEqualish(a.X, b.X) }\n\n" +
	"func size(m map[string]int) (int, []string) { return deriveKeysOf(m), deriveKeys(m) }\n\n" +
	"func h(p *Point) uint64 { return deriveHashPoint(p) ^ deriveHash(p.Tags) }\n"
const namesDeclsMain = "package main\n\n" + namesPoint + namesDeclsUse + "\nfunc main() {}\n"

func namesList(quick bool) []layout {
	var ls []layout
	onlyDone := map[string]bool{}
	var several = map[string]string{"main.go": namesMain}
	plugins := []string{"Equal", "Compare", "Hash", "Clone", "GoString", "DeepCopy"}
	k := 0
	for _, n := range lookalikeNames {
		callsText := namesCalls("main")
		if n.class == "test" {
			// an in-package test file: the type lives in an ordinary file
			ls = append(ls, layout{name: "calls-in-" + n.file, args: []string{"."}, dirs: []string{"."},
				files: map[string]string{"main.go": namesMain, "event.go": "package main\n\ntype Event struct {\n\tName string\n\tAt   *Point\n\tArgs map[string][]int\n}\n",
					n.file: strings.Replace(callsText, "type Event struct {\n\tName string\n\tAt   *Point\n\tArgs map[string][]int\n}\n\n", "", 1)}})
		} else {
			ls = append(ls, layout{name: "calls-in-" + n.file, args: []string{"."}, dirs: []string{"."},
				files: map[string]string{"main.go": namesMain, n.file: callsText}})
			// the named file is the only file with derive calls (quick tier: one name per class)
			if !quick || !onlyDone[n.class] {
				onlyDone[n.class] = true
				ls = append(ls, layout{name: "only-calls-in-" + n.file, args: []string{"."}, dirs: []string{"."},
					files: map[string]string{"main.go": "package main\n\ntype Point struct {\n\tX, Y int\n\tTags []string\n}\n\nfunc main() {}\n", n.file: callsText}})
			}
		}
		if quick && n.class == "near" {
			// no declarations role for the near misses
		} else if n.class == "test" {
			// functions declared in a test file can only be called from test files
			ls = append(ls, layout{name: "user-functions-with-plugin-prefixes-declared-in-" + n.file, args: []string{"."}, dirs: []string{"."},
				files: map[string]string{"main.go": "package main\n\n" + namesPoint + "func main() {}\n",
					"use_test.go": "package main\n\n" + namesDeclsUse, n.file: namesDeclsFile}})
		} else {
			ls = append(ls, layout{name: "user-functions-with-plugin-prefixes-declared-in-" + n.file, args: []string{"."}, dirs: []string{"."},
				files: map[string]string{"main.go": namesDeclsMain, n.file: namesDeclsFile}})
		}
		// several look-alikes in one package, one plugin and one type each
		if n.class != "test" {
			pl := plugins[k%len(plugins)]
			k++
			fn := fmt.Sprintf("f%d", k)
			ty := fmt.Sprintf("T%d", k)
			body := "func " + fn + "(a *" + ty + ") { _ = derive" + pl + fn + "(a) }\n"
			switch pl {
			case "Equal", "Compare":
				body = "func " + fn + "(a *" + ty + ") { _ = derive" + pl + fn + "(a, a) }\n"
			case "DeepCopy":
				body = "func " + fn + "(a *" + ty + ") { derive" + pl + fn + "(a, a) }\n"
			}
			several[n.file] = "package main\n\ntype " + ty + " struct {\n\tA []int\n\tP *Point\n}\n\n" + body
		}
	}
	ls = append(ls, layout{name: "several-look-alike-files-in-one-package", args: []string{"."}, dirs: []string{"."}, files: several})
	// directories with such names: packages of one run, importing each other
	leaf := "type Leaf struct {\n\tN int\n\tL []string\n}\n\nfunc EqLeaf(a, b *Leaf) bool { return deriveEqual(a, b) }\n"
	for _, d := range []string{"derived.gen.go", "xderived.gen.go", "derived.gen.go.d"} {
		ls = append(ls, layout{name: "package-directory-named-" + d, args: []string{"./..."}, dirs: []string{"app", "lib/" + d},
			files: map[string]string{
				"lib/" + d + "/leaf.go": subPkg("leaf", "", leaf),
				"app/main.go":           "package main\n\nimport \"p/lib/" + d + "\"\n\ntype Node struct {\n\tLeaf *leaf.Leaf\n\tKids []Node\n}\n\nfunc eq(x, y *Node) bool { return deriveEqual(x, y) && leaf.EqLeaf(x.Leaf, y.Leaf) }\n\nfunc main() {}\n",
			}})
	}
	return ls
}

func names(cfg hx.Config, meta *hx.Meta) {
	runLayouts(cfg, meta, "names", "c01-file-names", namesList(cfg.Tier != "thorough"))
}
