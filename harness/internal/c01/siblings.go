package c01

// (F) sibling types: several types of ONE package that are assignable to each other's underlying
// type — two named types with the same underlying type, and that underlying type written out — each
// used by different derive calls.  goderive looks a function up by assignability of the argument type
// (typesMap.nameOf, first registered match), so a helper that a plugin needs "transitively" for one
// spelling (compare -> keys/sort, sort/min/max -> compare, contains/union/intersect -> equal,
// unique -> hash/keys/set/equal, clone -> deepcopy, every type-recursive plugin -> itself for the
// components) must not resolve to the function the user asked for with a sibling spelling unless that
// function accepts the argument.  The clause checked is "every helper needed transitively resolves to
// exactly one generated function that accepts its arguments": goderive exit 0 and go vet.
//
// Every call below is supported on its own (the lists were established against the plugins' Add
// functions: the functional plugins want an UNNAMED slice, whose element type is what varies here).

import (
	"fmt"
	"os"
	"path/filepath"
	"strings"

	"verifharness/internal/ga"
	"verifharness/internal/hx"
)

// templates: @T is the type, # a number that makes the derive name unique in the package.
type sibKind struct {
	name    string
	under   string // the common underlying type U
	unnamed bool   // U itself is also used as a spelling (not for structs: compare wants a named struct)
	decls   string // further declarations the kind needs
	// calls on the bare spelling
	direct []string
	// wrap: the type-recursive plugins are applied to these type expressions over @T
	wrap []string
	// deep: expressions over @T for which deepcopy is applicable (pointer, slice, map at the root)
	deep []string
}

var recursive = []string{
	"func rEq#(a, b @T) bool { return deriveEqual#(a, b) }",
	"func rCmp#(a, b @T) int { return deriveCompare#(a, b) }",
	"func rHash#(a @T) uint64 { return deriveHash#(a) }",
	"func rClone#(a @T) @T { return deriveClone#(a) }",
	"func rGS#(a @T) string { return deriveGoString#(a) }",
}

const deepcopyCall = "func rDC#(a, b @T) { deriveDeepCopy#(a, b) }"

// element kinds: the functional plugins over []@T, map[@T]…
var elemOrdered = []string{
	"func fSort#(l []@T) []@T { return deriveSort#(l) }",
	"func fMin#(l []@T, d @T) @T { return deriveMin#(l, d) }",
	"func fMax#(l []@T, d @T) @T { return deriveMax#(l, d) }",
	"func fMin2#(a, b @T) @T { return deriveMinB#(a, b) }",
	"func fContains#(l []@T, x @T) bool { return deriveContains#(l, x) }",
	"func fUnique#(l []@T) []@T { return deriveUnique#(l) }",
	"func fUnion#(a, b []@T) []@T { return deriveUnion#(a, b) }",
	"func fIntersect#(a, b []@T) []@T { return deriveIntersect#(a, b) }",
}

var elemComparable = []string{
	"func fSet#(l []@T) map[@T]struct{} { return deriveSet#(l) }",
	"func fKeysOf#(m map[@T]int) []@T { return deriveKeys#(m) }",
	"func fMapCmp#(a, b map[@T]string) int { return deriveCompare#(a, b) }",
	"func fMapHash#(a map[@T]string) uint64 { return deriveHash#(a) }",
	"func fUnionSet#(a, b map[@T]struct{}) map[@T]struct{} { return deriveUnion#(a, b) }",
}

func cat(ls ...[]string) []string {
	var out []string
	for _, l := range ls {
		out = append(out, l...)
	}
	return out
}

var sibKinds = []sibKind{
	{name: "map-string-int", under: "map[string]int", unnamed: true,
		direct: []string{"func fKeys#(m @T) []string { return deriveKeys#(m) }"},
		wrap:   []string{"@T", "*@W", "[]@T", "map[string]@T", "[2]@T", "*@T"},
		deep:   []string{"@T", "*@T", "[]@T"}},
	{name: "map-int-slice", under: "map[int][]string", unnamed: true,
		direct: []string{"func fKeys#(m @T) []int { return deriveKeys#(m) }"},
		wrap:   []string{"@T", "*@W", "[]@T"},
		deep:   []string{"@T", "map[string]@T"}},
	{name: "map-named-key", under: "map[KN]*int", unnamed: true, decls: "type KN string\n\n",
		direct: []string{"func fKeys#(m @T) []KN { return deriveKeys#(m) }"},
		wrap:   []string{"@T", "*@W", "map[KN]@T"},
		deep:   []string{"@T"}},
	{name: "slice-int", under: "[]int", unnamed: true,
		wrap: []string{"@T", "*@W", "[]@T", "map[string]@T", "*@T"},
		deep: []string{"@T", "*@T", "map[int]@T"}},
	{name: "array-string", under: "[2]string", unnamed: true,
		wrap: []string{"@T", "*@W", "[]@T", "map[@T]int"},
		deep: []string{"*@T", "[]@T"}},
	{name: "pointer-int", under: "*int", unnamed: true,
		wrap: []string{"@T", "*@W", "[]@T", "map[string]@T"},
		deep: []string{"@T", "[]@T"}},
	{name: "pointer-struct", under: "*PT", unnamed: true, decls: "type PT struct {\n\tX int\n\tY []string\n}\n\n",
		wrap: []string{"@T", "*@W", "[]@T", "map[string]@T", "[2]@T"},
		deep: []string{"@T", "[]@T", "map[int]@T"}},
	{name: "slice-struct", under: "[]PT", unnamed: true, decls: "type PT struct {\n\tX int\n\tY *string\n}\n\n",
		wrap: []string{"@T", "*@W", "[]@T", "map[string]@T", "*@T"},
		deep: []string{"@T", "*@T"}},
	{name: "elem-int", under: "int", unnamed: true,
		direct: cat(elemOrdered, elemComparable),
		wrap:   []string{"@T", "*@W", "[]@T", "map[@T]@T", "*@T"},
		deep:   []string{"*@T", "[]@T", "map[@T]int"}},
	{name: "elem-string", under: "string", unnamed: true,
		direct: cat(elemOrdered, elemComparable),
		wrap:   []string{"@T", "*@W", "[3]@T", "map[@T][]@T"},
		deep:   []string{"*@T", "map[string]@T"}},
	{name: "elem-float", under: "float64", unnamed: true,
		direct: elemOrdered,
		wrap:   []string{"@T", "*@W", "[]@T"},
		deep:   []string{"[]@T"}},
	{name: "elem-struct", under: "struct {\n\tX int\n\tY string\n}", unnamed: false,
		direct: cat(elemOrdered[:3], elemOrdered[4:], elemComparable),
		wrap:   []string{"*@T", "[]@T", "map[string]@T", "*@W", "[2]@T"},
		deep:   []string{"*@T", "[]@T", "map[@T]@T"}},
	{name: "elem-struct-pointer", under: "struct {\n\tX []int\n\tY *string\n}", unnamed: false,
		direct: []string{
			"func pSort#(l []*@T) []*@T { return deriveSort#(l) }",
			"func pMin#(l []*@T, d *@T) *@T { return deriveMin#(l, d) }",
			"func pContains#(l []*@T, x *@T) bool { return deriveContains#(l, x) }",
			"func pUnique#(l []*@T) []*@T { return deriveUnique#(l) }",
			"func pUnion#(a, b []*@T) []*@T { return deriveUnion#(a, b) }",
			"func pIntersect#(a, b []*@T) []*@T { return deriveIntersect#(a, b) }",
		},
		wrap: []string{"*@T", "[]*@T", "map[string]*@T", "*@W"},
		deep: []string{"*@T", "[]*@T"}},
}

// sibCalls renders every call of the kind for one spelling; n numbers the derive names.
func sibCalls(k sibKind, spelling, wrapper string, n *int) string {
	var b strings.Builder
	emit := func(tmpl, t string) {
		*n++
		s := strings.ReplaceAll(tmpl, "@T", t)
		s = strings.ReplaceAll(s, "#", fmt.Sprintf("%d", *n))
		b.WriteString(s + "\n\n")
	}
	for _, c := range k.direct {
		emit(c, spelling)
	}
	for _, w := range k.wrap {
		t := strings.ReplaceAll(strings.ReplaceAll(w, "@W", wrapper), "@T", spelling)
		for _, c := range recursive {
			emit(c, t)
		}
	}
	for _, w := range k.deep {
		emit(deepcopyCall, strings.ReplaceAll(strings.ReplaceAll(w, "@W", wrapper), "@T", spelling))
	}
	return b.String()
}

type sibJob struct {
	kind     sibKind
	first    string // spelling used in the file goderive reads first
	second   string
	variant  string
	fileA    string
	fileB    string
	onlyHelp bool
}

func siblings(cfg hx.Config, meta *hx.Meta) {
	var jobs []sibJob
	for _, k := range sibKinds {
		pairs := [][2]string{{"SA", "SB"}}
		if k.unnamed {
			pairs = append(pairs, [2]string{"SA", k.under}, [2]string{k.under, "SB"})
		}
		for pi, p := range pairs {
			if pi == 0 {
				// a named type together with its own underlying type, both handed to the same plugin, is an
				// "ambigious function names" error of goderive (C11's subject): only the two named spellings
				// get every call
				jobs = append(jobs, sibJob{kind: k, first: p[0], second: p[1], variant: "both-full"})
			}
			// the seeded class: the user calls the helper plugins on ONE spelling and only the
			// type-recursive plugins (which need those helpers) on the other
			jobs = append(jobs, sibJob{kind: k, first: p[0], second: p[1], variant: "direct-then-recursive", onlyHelp: true})
			jobs = append(jobs, sibJob{kind: k, first: p[1], second: p[0], variant: "recursive-then-direct", onlyHelp: true})
		}
	}
	hx.Parallel(len(jobs), 16, func(i int) {
		j := jobs[i]
		dir := filepath.Join(cfg.Work, fmt.Sprintf("sib%03d", i))
		n := 0
		k1, k2 := j.kind, j.kind
		switch j.variant {
		case "direct-then-recursive":
			k1.wrap, k1.deep = nil, nil // first file: the direct calls only
			k2.direct = nil
		case "recursive-then-direct":
			k1.direct = nil
			k2.wrap, k2.deep = nil, nil
		}
		files := map[string]string{
			"decls.go": "package main\n\n" + j.kind.decls + "type SA " + j.kind.under + "\n\ntype SB " + j.kind.under + "\n\n" +
				"// a named struct around each spelling (compare wants named structs)\ntype W1 struct {\n\tF0 " + oneLine(j.first) + "\n\tF1 int\n\tF2 []" + oneLine(j.first) + "\n}\n\n" +
				"type W2 struct {\n\tF0 string\n\tF1 " + oneLine(j.second) + "\n\tF2 map[string]" + oneLine(j.second) + "\n}\n\nfunc main() {}\n",
			"a_use.go": "package main\n\n" + sibCalls(k1, oneLine(j.first), "W1", &n),
			"b_use.go": "package main\n\n" + sibCalls(k2, oneLine(j.second), "W2", &n),
		}
		if n == 0 || strings.TrimSpace(strings.TrimPrefix(files["a_use.go"], "package main")) == "" || strings.TrimSpace(strings.TrimPrefix(files["b_use.go"], "package main")) == "" {
			return // the kind has no direct calls: the variant coincides with both-full
		}
		if err := hx.Module(dir); err != nil {
			meta.AddDirect(hx.Direct{Class: "c01-harness", What: err.Error()})
			return
		}
		if err := hx.WriteFiles(dir, files); err != nil {
			meta.AddDirect(hx.Direct{Class: "c01-harness", What: err.Error()})
			return
		}
		what := fmt.Sprintf("sibling types %s (first file: %s, second file: %s, underlying %s; %s)", j.kind.name, j.first, j.second,
			strings.Join(strings.Fields(j.kind.under), " "), j.variant)
		g := hx.Goderive(cfg.Goderive, dir, ".")
		cls := ga.ClassifyGoderive(g)
		metaCount(meta, "siblings/"+j.variant+"/"+cls)
		if cls == "panic" || cls == "timeout" {
			return // C09
		}
		if cls != "ok" {
			meta.AddDirect(hx.Direct{Class: "c01-siblings", What: "goderive fails (" + cls + ") on " + what,
				Files: files, Cmd: "goderive .", Output: hx.Truncate(g.Out, 2000)})
			return
		}
		v := hx.GoVet(dir, "", "./...")
		if v.Exit != 0 {
			d, _ := os.ReadFile(filepath.Join(dir, "derived.gen.go"))
			files["derived.gen.go"] = string(d)
			meta.AddDirect(hx.Direct{Class: "c01-siblings", What: what + ": goderive exits 0 and the package does not type-check",
				Files: files, Cmd: "goderive . && go vet ./...", Output: hx.Truncate(v.Out, 2500)})
		}
	})
}

func oneLine(t string) string { return strings.Join(strings.Fields(t), " ") }
