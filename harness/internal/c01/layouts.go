package c01

// (G) directory layouts: what else lives in the directory of the package (and in the run) besides the
// files with the derive calls.  One directory can hold two packages, p (with its in-package _test files)
// and the external test package p_test; a run of `goderive ./...` covers several directories whose
// packages import each other.  derived.gen.go of a directory belongs to the package p; whatever order the
// packages of a run are visited in, after a successful run every directory with derive calls has its
// derived.gen.go and every package of the module — test files included — type-checks (go vet ./...).
//
// The layouts vary: external test package present / importing p or not / beside in-package test files
// with derive calls of their own; root package main or a library; sub-packages importing each other in
// both alphabetical directions; a package without derive calls between two with.  No file imports the
// standard library (the loader type-checks imports from source: 1.4 s per run).

import (
	"fmt"
	"os"
	"path/filepath"
	"sort"
	"strings"

	"verifharness/internal/ga"
	"verifharness/internal/hx"
)

type layout struct {
	name  string
	files map[string]string
	args  []string   // goderive arguments
	steps [][]string // when set: several goderive runs one after the other (args is ignored), each has to exit 0
	dirs  []string   // directories that must hold a derived.gen.go afterwards ("." = module root)
	class string     // class of the direct finding when the layout fails ("" = c01-layout)
}

const libTree = "package p\n\ntype Tree struct {\n\tName     string\n\tChildren []*Tree\n\tAttrs    map[string]int\n}\n\n" +
	"func (t *Tree) Equal(that *Tree) bool { return deriveEqual(t, that) }\n\nfunc (t *Tree) Clone() *Tree { return deriveClone(t) }\n"

const extTestUsing = "package p_test\n\nimport \"p\"\n\nfunc cloneEqual(t *p.Tree) bool { return t.Clone().Equal(t) }\n"
const extTestPlain = "package p_test\n\nfunc answer() int { return 42 }\n"
const inTestDerive = "package p\n\nfunc attrNames(t *Tree) []string { return deriveKeys(t.Attrs) }\n\nfunc sameAttrs(a, b *Tree) int { return deriveCompare(a.Attrs, b.Attrs) }\n"

func subPkg(name, imports string, body string) string {
	s := "package " + name + "\n\n"
	if imports != "" {
		s += "import \"" + imports + "\"\n\n"
	}
	return s + body
}

func layoutList() []layout {
	var ls []layout
	add := func(l layout) { ls = append(ls, l) }
	// --- one directory ---
	add(layout{name: "external-test-package-importing-p", args: []string{"."}, dirs: []string{"."},
		files: map[string]string{"tree.go": libTree, "tree_test.go": extTestUsing}})
	add(layout{name: "external-test-package-not-importing-p", args: []string{"."}, dirs: []string{"."},
		files: map[string]string{"tree.go": libTree, "zz_test.go": extTestPlain}})
	add(layout{name: "external-and-in-package-tests", args: []string{"."}, dirs: []string{"."},
		files: map[string]string{"tree.go": libTree, "tree_test.go": extTestUsing, "tree_internal_test.go": inTestDerive}})
	add(layout{name: "external-and-in-package-tests-dot-dot-dot", args: []string{"./..."}, dirs: []string{"."},
		files: map[string]string{"tree.go": libTree, "a_test.go": extTestPlain, "b_test.go": extTestUsing, "tree_internal_test.go": inTestDerive}})
	add(layout{name: "derive-calls-only-in-in-package-test-beside-external-test", args: []string{"."}, dirs: []string{"."},
		files: map[string]string{"tree.go": "package p\n\ntype Tree struct {\n\tName  string\n\tAttrs map[string]int\n}\n",
			"tree_internal_test.go": inTestDerive, "tree_test.go": "package p_test\n\nimport \"p\"\n\nvar zero p.Tree\n"}})
	add(layout{name: "main-package-with-external-test", args: []string{"."}, dirs: []string{"."},
		files: map[string]string{"main.go": "package main\n\ntype T struct{ A []int }\n\nfunc eq(a, b *T) bool { return deriveEqual(a, b) }\n\nfunc main() {}\n",
			"main_test.go": "package main_test\n\nfunc answer() int { return 42 }\n", "in_test.go": "package main\n\nfunc h(a *T) uint64 { return deriveHash(a) }\n"}})
	// derive calls in the external test package itself (call-site form "_test file"): package p_test needs generated
	// functions of its own, in a file of package p_test
	extTestDerive := "package p_test\n\nimport \"p\"\n\nfunc cloneEqual(t *p.Tree) bool { return deriveClone(t).Equal(t) }\n\nfunc names(m map[string]*p.Tree) []string { return deriveSort(deriveKeys(m)) }\n"
	add(layout{name: "derive-calls-in-external-test-package", args: []string{"."}, dirs: []string{"."}, class: "c01-derive-call-in-external-test-package",
		files: map[string]string{"tree.go": libTree, "tree_test.go": extTestDerive}})
	add(layout{name: "derive-calls-only-in-external-test-package", args: []string{"."}, dirs: nil, class: "c01-derive-call-in-external-test-package",
		files: map[string]string{"tree.go": "package p\n\ntype Tree struct {\n\tName  string\n\tAttrs map[string]int\n}\n",
			"tree_test.go": "package p_test\n\nimport \"p\"\n\nfunc same(a, b *p.Tree) bool { return deriveEqual(a, b) }\n"}})
	// --- several directories in one run ---
	// alphabetical order both ways: a imports b; y imports x is the other direction (x before y)
	leaf := "type Leaf struct {\n\tN int\n\tL []string\n}\n\nfunc EqLeaf(a, b *Leaf) bool { return deriveEqual(a, b) }\n"
	add(layout{name: "sub-packages-importing-each-other-with-external-tests", args: []string{"./..."}, dirs: []string{"a", "b", "x", "y"},
		files: map[string]string{
			"b/b.go":       subPkg("b", "", leaf),
			"b/b_test.go":  "package b_test\n\nimport \"p/b\"\n\nfunc same(l *b.Leaf) bool { return b.EqLeaf(l, l) }\n",
			"a/a.go":       subPkg("a", "p/b", "type Node struct {\n\tLeaf *b.Leaf\n\tKids []Node\n}\n\nfunc Eq(x, y *Node) bool { return deriveEqual(x, y) }\n\nfunc Cmp(x, y *b.Leaf) int { return deriveCompare(x, y) }\n"),
			"a/a_test.go":  "package a_test\n\nimport (\n\t\"p/a\"\n\t\"p/b\"\n)\n\nfunc same(n *a.Node, l *b.Leaf) bool { return a.Eq(n, n) && b.EqLeaf(l, l) }\n",
			"x/x.go":       subPkg("x", "", leaf),
			"x/x_test.go":  "package x_test\n\nfunc answer() int { return 1 }\n",
			"y/y.go":       subPkg("y", "p/x", "type Box struct {\n\tM map[string]*x.Leaf\n}\n\nfunc Clone(v *Box) *Box { return deriveClone(v) }\n"),
			"y/in_test.go": "package y\n\nfunc keys(v *Box) []string { return deriveKeys(v.M) }\n",
			"y/y_test.go":  "package y_test\n\nimport \"p/y\"\n\nfunc c(v *y.Box) *y.Box { return y.Clone(v) }\n",
		}})
	add(layout{name: "root-and-sub-package-with-external-tests", args: []string{"./..."}, dirs: []string{".", "sub"},
		files: map[string]string{
			"tree.go": libTree, "tree_test.go": extTestUsing,
			"plain/plain.go":      "package plain\n\nfunc Twice(n int) int { return 2 * n }\n",
			"plain/plain_test.go": "package plain_test\n\nimport \"p/plain\"\n\nfunc four() int { return plain.Twice(2) }\n",
			"sub/sub.go":          subPkg("sub", "p", "func Same(t *p.Tree) bool { return deriveEqual(t, t.Clone()) }\n"),
			"sub/sub_test.go":     "package sub_test\n\nimport (\n\t\"p\"\n\t\"p/sub\"\n)\n\nfunc same(t *p.Tree) bool { return sub.Same(t) }\n",
		}})
	add(layout{name: "packages-named-on-the-command-line-in-reverse-order", args: []string{"./y", "./x", "./b", "./a"}, dirs: []string{"a", "b", "x", "y"},
		files: ls[len(ls)-2].files})
	return ls
}

func layouts(cfg hx.Config, meta *hx.Meta) {
	runLayouts(cfg, meta, "layout", "c01-layout", layoutList())
}

// runLayouts writes every layout into a scratch module of its own, runs goderive (one run, or the steps one after
// the other), and reports a direct finding of the layout's class (default: defClass) when a run does not exit 0, a
// directory that has derive calls is left without derived.gen.go, or `go vet ./...` of the module fails.
func runLayouts(cfg hx.Config, meta *hx.Meta, prefix, defClass string, ls []layout) {
	hx.Parallel(len(ls), 16, func(i int) {
		l := ls[i]
		dir := filepath.Join(cfg.Work, fmt.Sprintf("%s%02d", prefix, i))
		if err := hx.Module(dir); err != nil {
			meta.AddDirect(hx.Direct{Class: "c01-harness", What: err.Error()})
			return
		}
		files := map[string]string{}
		for k, v := range l.files {
			files[k] = v
		}
		if err := hx.WriteFiles(dir, files); err != nil {
			meta.AddDirect(hx.Direct{Class: "c01-harness", What: err.Error()})
			return
		}
		steps := l.steps
		if len(steps) == 0 {
			steps = [][]string{l.args}
		}
		var cmds []string
		for _, st := range steps {
			cmds = append(cmds, "goderive "+strings.Join(st, " "))
		}
		cmd := strings.Join(cmds, " && ")
		what := prefix + " " + l.name + " (" + cmd + ")"
		class := l.class
		if class == "" {
			class = defClass
		}
		var log strings.Builder
		for si, st := range steps {
			g := hx.Goderive(cfg.Goderive, dir, st...)
			cls := ga.ClassifyGoderive(g)
			metaCount(meta, prefix+"/"+l.name+"/"+cls)
			log.WriteString(g.Out + "\n")
			if cls == "panic" || cls == "timeout" {
				return // C09
			}
			if cls != "ok" {
				meta.AddDirect(hx.Direct{Class: class, What: fmt.Sprintf("goderive fails (%s) in run %d of %s", cls, si+1, what),
					Files: l.files, Cmd: cmd, Output: hx.Truncate(log.String(), 2000)})
				return
			}
		}
		var missing []string
		for _, d := range l.dirs {
			if _, err := os.Stat(filepath.Join(dir, d, "derived.gen.go")); err != nil {
				missing = append(missing, filepath.Join(d, "derived.gen.go"))
			}
		}
		sort.Strings(missing)
		v := hx.GoVet(dir, "", "./...")
		if len(missing) > 0 || v.Exit != 0 {
			out := l.files
			msg := what + ": goderive exits 0"
			if len(missing) > 0 {
				msg += "; no " + strings.Join(missing, ", ") + " although the package has derive calls"
			}
			if v.Exit != 0 {
				msg += "; the module does not type-check"
			}
			meta.AddDirect(hx.Direct{Class: class, What: msg, Files: out,
				Cmd: cmd + " && go vet ./...", Output: hx.Truncate(log.String()+"\n"+v.Out, 2500)})
		}
	})
}
