package c07

import (
	"bytes"
	"fmt"
	"os"
	"path/filepath"
	"strings"

	"verifharness/internal/hx"
)

// Fixed edit histories over plugins and package layouts the model's source language (Keys, Sort, Set over
// base/slice/map types, one file) cannot express: deep chains of four different plugins, an external
// test package in the directory, several source files.  Decided directly from the property's
// statement: for every version and every older derived.gen.go (and a few cut-off remnants of it) one run
// leaves exactly the from-scratch bytes, the result type-checks, a second run changes nothing, and the file
// is gone when no derive call remains.
type fixedVersion map[string]string // file name -> source; derived.gen.go is never part of it

func fixedHistories() map[string][]fixedVersion {
	deep := func(kt string) fixedVersion {
		return fixedVersion{"a.go": "package p\n\nfunc has(m map[" + kt + "]bool, x " + kt + ") bool {\n\treturn deriveContains(deriveUnique(deriveSort(deriveKeys(m))), x)\n}\n\nfunc chain(m map[" + kt + "]bool) int {\n\treturn len(deriveKeysOfSet(deriveSet(deriveUnique(deriveSort(deriveKeys(m))))))\n}\n"}
	}
	withExt := func(body string) fixedVersion {
		return fixedVersion{"a.go": "package p\n\n" + body,
			"a_ext_test.go": "package p_test\n\nimport \"testing\"\n\nfunc TestNothing(t *testing.T) {}\n",
			"a_int_test.go": "package p\n\nimport \"testing\"\n\nfunc TestInternal(t *testing.T) { _ = t }\n"}
	}
	// derive calls in an in-package test file (package p, no imports: a file that imports "testing" costs the
	// loader 1.4 s per run), next to nested calls in a.go that send the package through the reload loop, and
	// nested calls in the test file itself; the calls move between the files and disappear from each
	inTest := func(body, test string) fixedVersion {
		v := fixedVersion{"a.go": "package p\n\ntype T struct {\n\tA int\n\tB []string\n}\n\n" + body}
		if test != "" {
			v["a_test.go"] = "package p\n\n" + test
		}
		return v
	}
	// two calls under one name on different types (what -autoname exists for: the second call is renamed in
	// the user's file) next to a nested call whose type changes
	ledger := func(kt string) fixedVersion {
		return fixedVersion{"a.go": "package p\n\ntype L struct{ Entries map[" + kt + "]int }\n\ntype O struct{ N []string }\n\nfunc accounts(l *L) map[" + kt + "]struct{} {\n\treturn deriveSet(deriveKeys(l.Entries))\n}\n\nfunc same(l *L, o *O) bool {\n\treturn deriveEqual(l, l) && deriveEqual(o, o)\n}\n"}
	}
	// two names for one type (what -dedup exists for) next to a nested call whose type changes
	twice := func(kt string) fixedVersion {
		return fixedVersion{"a.go": "package p\n\nfunc f(m map[" + kt + "]bool) int {\n\treturn len(deriveSet(deriveKeys(m))) + len(deriveKeysAgain(m))\n}\n",
			"a_test.go": "package p\n\nfunc g(m map[" + kt + "]bool) int { return len(deriveKeysInTest(m)) }\n"}
	}
	// the user's files sort behind derived.gen.go and the package is renamed: the old derived.gen.go (and every
	// remnant of it that is cut off inside the name of its package clause) is a file of another package
	renamed := func(pname, kt, file string) fixedVersion {
		return fixedVersion{file: "package " + pname + "\n\ntype T struct{ A map[" + kt + "]bool }\n\nfunc eq(a, b *T) bool { return deriveEqual(a, b) }\n\nfunc ks(t *T) int { return len(deriveSet(deriveKeys(t.A))) }\n"}
	}
	return map[string][]fixedVersion{
		"package-renamed": {renamed("tool", "string", "main.go"), renamed("kit", "string", "main.go"), renamed("kit", "int", "types.go"), renamed("toolkit", "int", "types.go")},
		"calls-in-test-file": {
			inTest("func keys(m map[string]int) int { return len(deriveSet(deriveKeys(m))) }\n", "func eqT(a, b *T) bool { return deriveEqual(a, b) }\n"),
			inTest("func keys(m map[int]int) int { return len(deriveSet(deriveKeys(m))) }\n", "func eqT(a, b *T) bool { return deriveEqual(a, b) }\n"),
			inTest("func keys(m map[int]int) int { return len(deriveKeys(m)) }\n", "func eqT(a, b *T) bool { return deriveEqual(a, b) }\n\nfunc ks(xs []string) int { return len(deriveKeysT(deriveSetT(xs))) }\n"),
			inTest("func keys(m map[int]int) int { return len(m) }\n", "func eqT(a, b *T) bool { return deriveEqual(a, b) }\n\nfunc ks(xs []int64) int { return len(deriveKeysT(deriveSetT(xs))) }\n"),
			inTest("func keys(m map[int]int) int { return len(deriveSet(deriveKeys(m))) }\n", "func eqT(a, b *T) bool { return a == b }\n"),
			inTest("func keys(m map[int]int) int { return len(deriveSet(deriveKeys(m))) }\n", ""),
			inTest("func keys(m map[int]int) int { return len(m) }\n", "func ks(xs []int64) int { return len(xs) }\n"),
		},
		"autoname-renames": {ledger("string"), ledger("int"), ledger("string")},
		"dedup-renames":    {twice("string"), twice("int")},
		"deep-chain":       {deep("string"), deep("int"), deep("string")},
		"external-test-package": {
			withExt("type T struct{ A int }\n\nfunc eq(a, b *T) bool { return deriveEqual(a, b) }\n"),
			withExt("type T struct {\n\tA int\n\tB []string\n}\n\nfunc eq(a, b *T) bool { return deriveEqual(a, b) }\n"),
			withExt("type T struct {\n\tA int\n\tB []string\n}\n\nfunc eq(a, b *T) bool { return deriveEqual(a, b) && deriveCompare(a, b) == 0 }\n"),
			withExt("type T struct{ A int }\n\nfunc eq(a, b *T) bool { return a == b }\n"),
			withExt("type T struct{ A int }\n\nfunc eq(a, b *T) bool { return deriveEqual(a, b) }\n"),
		},
		"several-files": {
			{"a.go": "package p\n\ntype T struct{ A map[string]int }\n", "m.go": "package p\n\nfunc f(a, b *T) bool { return deriveEqual(a, b) }\n", "z.go": "package p\n\nfunc g(a *T) uint64 { return deriveHash(a) }\n"},
			{"a.go": "package p\n\ntype T struct{ A map[int]string }\n", "m.go": "package p\n\nfunc f(a, b *T) bool { return deriveEqual(a, b) }\n", "z.go": "package p\n\nfunc g(a *T) uint64 { return deriveHash(a) }\n"},
			{"a.go": "package p\n\ntype T struct{ A map[int]string }\n", "m.go": "package p\n\nfunc f(a, b *T) bool { return a == b }\n", "z.go": "package p\n\nfunc g(a *T) uint64 { return deriveHash(a) }\n"},
		},
	}
}

func runFixed(cfg hx.Config, meta *hx.Meta) {
	names := []string{"package-renamed", "deep-chain", "external-test-package", "several-files", "calls-in-test-file", "autoname-renames", "dedup-renames"}
	flagsOf := map[string][]string{"autoname-renames": {"-autoname"}, "dedup-renames": {"-dedup"}}
	hs := fixedHistories()
	hx.Parallel(len(names), 7, func(hi int) {
		name := names[hi]
		vers := hs[name]
		args := append(append([]string{}, flagsOf[name]...), ".")
		cmd := "goderive " + strings.Join(args, " ")
		write := func(dir string, v fixedVersion, old []byte, oldExists bool) {
			os.RemoveAll(dir)
			os.MkdirAll(dir, 0o755)
			hx.Module(dir)
			for f, src := range v {
				os.WriteFile(filepath.Join(dir, f), []byte(src), 0o644)
			}
			if oldExists {
				os.WriteFile(filepath.Join(dir, "derived.gen.go"), old, 0o644)
			}
		}
		read := func(dir string) ([]byte, bool) {
			b, err := os.ReadFile(filepath.Join(dir, "derived.gen.go"))
			return b, err == nil
		}
		report := func(class, what string, v fixedVersion, old []byte, oldExists bool, after, scratch []byte, out string) {
			fs := map[string]string{"go.mod": "module p\n\ngo 1.24\n"}
			for f, s := range v {
				fs[f] = s
			}
			if oldExists {
				fs["derived.gen.go (before the run)"] = string(old)
			}
			fs["derived.gen.go (after the run)"] = string(after)
			fs["derived.gen.go (from scratch)"] = string(scratch)
			meta.AddDirect(hx.Direct{Class: class, What: name + ": " + what, Files: fs, Cmd: cmd, Output: hx.Truncate(out, 1500)})
		}
		var prev []byte
		prevExists := false
		for si, v := range vers {
			sdir := filepath.Join(cfg.Work, fmt.Sprintf("fixed-%s-scratch", name))
			write(sdir, v, nil, false)
			gs := goderiveRun(cfg, sdir, args...)
			sb, sex := read(sdir)
			meta.CountSafe("fixed/" + name)
			if gs.Exit != 0 {
				report("c07-fixed-scratch-fails", fmt.Sprintf("version %d: goderive fails from scratch", si), v, nil, false, nil, nil, gs.Out)
				return
			}
			if vet := vetRun(sdir, ""); vet.Exit != 0 {
				report("c07-vet-fails", fmt.Sprintf("version %d: the from-scratch result does not type-check (goderive exit 0)", si), v, nil, false, sb, sb, vet.Out)
			}
			// old states: the previous version's output, and remnants of it cut at a few offsets
			type oldT struct {
				b  []byte
				ex bool
			}
			olds := []oldT{{prev, prevExists}}
			if prevExists {
				for _, k := range []int{0, 53, 54, len(prev) / 2} {
					if k >= 0 && k < len(prev) {
						olds = append(olds, oldT{prev[:k], true})
					}
				}
			}
			for oi, o := range olds {
				dir := filepath.Join(cfg.Work, fmt.Sprintf("fixed-%s-%d", name, oi))
				write(dir, v, o.b, o.ex)
				g := goderiveRun(cfg, dir, args...)
				ab, aex := read(dir)
				if g.Exit != 0 || aex != sex || !bytes.Equal(ab, sb) {
					report("c07-differs-from-scratch", fmt.Sprintf("version %d, old state %d: one run over the old derived.gen.go does not leave the from-scratch result (exit %d, file exists %v, from scratch %v)", si, oi, g.Exit, aex, sex), v, o.b, o.ex, ab, sb, g.Out)
					continue
				}
				g2 := goderiveRun(cfg, dir, args...)
				b2, ex2 := read(dir)
				if g2.Exit != 0 || ex2 != aex || !bytes.Equal(b2, ab) {
					report("c07-second-run-changes", fmt.Sprintf("version %d, old state %d: a second run changes derived.gen.go (exit %d)", si, oi, g2.Exit), v, o.b, o.ex, b2, sb, g2.Out)
				}
				os.RemoveAll(dir)
			}
			prev, prevExists = sb, sex
			os.RemoveAll(sdir)
		}
	})
}
