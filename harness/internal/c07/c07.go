// Package c07: regeneration depends only on the current sources, not on the old derived.gen.go.
//
// Edit histories v0 -> v1 -> ... over generated packages (retype a variable / struct field, add or
// remove a derive call, wrap/unwrap a call so that a derive result feeds another derive call, rename
// a function, rename a named type, remove every call).  After each step goderive runs ONCE in the
// directory that still holds the previous derived.gen.go; the bytes it leaves are compared with those
// of a scratch copy of the same sources (fresh directory, no derived.gen.go), together with the exit
// status, `go vet`, and a second run (must change nothing).  Crash points: derived.gen.go is replaced
// by the first k bytes of the previous output and of the new output.
//
// Every run is reported to the evaluator as
//
//	(regen PKG OLD REAL SAME)
//
// PKG = the package as derive-call expressions, OLD = what a type checker can still read in the old
// file (an oracle computed here with go/parser, independent of goderive), REAL = the function table of
// the file left behind, SAME = byte equality with the scratch result.
package c07

import (
	"bytes"
	"fmt"
	"go/ast"
	"go/parser"
	"go/token"
	"os"
	"path/filepath"
	"sort"
	"strings"
	"sync"

	"verifharness/internal/hx"
)

// ---------- abstract packages ----------

type ty struct {
	kind int // 0 base, 1 slice, 2 map, 3 void
	base int
	a, b *ty // slice: a; map: a key, b value
}

var baseNames = map[int]string{0: "int", 1: "string", 2: "int64", 3: "float64", 9: "struct{}",
	10: "N0", 11: "N1", 12: "N2", 13: "N3"}
var namedUnder = map[int]string{10: "int", 11: "string", 12: "int", 13: "string"}

func tBase(n int) *ty   { return &ty{kind: 0, base: n} }
func tSlice(e *ty) *ty  { return &ty{kind: 1, a: e} }
func tMap(k, v *ty) *ty { return &ty{kind: 2, a: k, b: v} }
func (t *ty) goStr() string {
	switch t.kind {
	case 0:
		return baseNames[t.base]
	case 1:
		return "[]" + t.a.goStr()
	case 2:
		return "map[" + t.a.goStr() + "]" + t.b.goStr()
	}
	return "()"
}
func (t *ty) sexp() string {
	switch t.kind {
	case 0:
		return fmt.Sprintf("(base %d)", t.base)
	case 1:
		return "(slice " + t.a.sexp() + ")"
	case 2:
		return "(map " + t.a.sexp() + " " + t.b.sexp() + ")"
	}
	return "void"
}
func (t *ty) bases(set map[int]bool) {
	switch t.kind {
	case 0:
		set[t.base] = true
	case 1:
		t.a.bases(set)
	case 2:
		t.a.bases(set)
		t.b.bases(set)
	}
}

const (
	kKeys = 0
	kSort = 1
	kSet  = 2
)

var kindSym = []string{"keys", "sort", "set"}
var kindPrefix = []string{"deriveKeys", "deriveSort", "deriveSet"}
var suffixes = []string{"", "A", "B", "C", "D", "E", "F", "G", "H", "J"}

func nameID(k, suf int) int     { return k*len(suffixes) + suf }
func nameStr(k, suf int) string { return kindPrefix[k] + suffixes[suf] }

// resOf mirrors what the plugins produce (only used to build well-typed expressions).
func resOf(k int, t *ty) *ty {
	switch {
	case k == kKeys && t.kind == 2:
		return tSlice(t.a)
	case k == kSort && t.kind == 1:
		return tSlice(t.a)
	case k == kSet && t.kind == 1:
		return tMap(t.a, tBase(9))
	}
	return nil
}

type expr struct {
	isVar  bool
	v      int // variable id
	k, suf int // call
	a      *expr
}

type top struct {
	e    *expr
	form int  // 0: var _ = E   1: func body   2: inner call through a local variable
	test bool // the call stands in the in-package test file a_test.go (package p), see place
}

type version struct {
	vars    map[int]*ty
	field   map[int]bool // variable is a field of struct S
	tops    []top
	nextVar int
}

func (v *version) clone() *version {
	w := &version{vars: map[int]*ty{}, field: map[int]bool{}, nextVar: v.nextVar}
	for k, t := range v.vars {
		w.vars[k] = t
	}
	for k, b := range v.field {
		w.field[k] = b
	}
	var cp func(e *expr) *expr
	cp = func(e *expr) *expr {
		if e == nil {
			return nil
		}
		c := *e
		c.a = cp(e.a)
		return &c
	}
	for _, t := range v.tops {
		w.tops = append(w.tops, top{cp(t.e), t.form, t.test})
	}
	return w
}

func (v *version) typeOf(e *expr) *ty {
	if e.isVar {
		return v.vars[e.v]
	}
	t := v.typeOf(e.a)
	if t == nil {
		return nil
	}
	return resOf(e.k, t)
}

func (v *version) varText(id int) string {
	if v.field[id] {
		return fmt.Sprintf("s.F%d", id)
	}
	return fmt.Sprintf("m%d", id)
}

func (v *version) exprText(e *expr) string {
	if e.isVar {
		return v.varText(e.v)
	}
	return nameStr(e.k, e.suf) + "(" + v.exprText(e.a) + ")"
}

func (v *version) exprSexp(e *expr) string {
	if e.isVar {
		return fmt.Sprintf("(var %d %s)", e.v, v.vars[e.v].sexp())
	}
	return fmt.Sprintf("(app %s %d %s)", kindSym[e.k], nameID(e.k, e.suf), v.exprSexp(e.a))
}

func usedVars(e *expr, set map[int]bool) {
	if e.isVar {
		set[e.v] = true
		return
	}
	usedVars(e.a, set)
}

// ver is what the step procedure needs: sources, abstract package, name and type tables.
type ver struct {
	src    string
	test   string         // source of the in-package test file a_test.go ("" = the package has none)
	pkg    string         // PKG s-expression
	names  map[string]int // function name -> kind*100 + id ... see nameInfo
	kinds  map[string]int
	types  map[string]int // type identifier -> base id (declared in this version)
	sparse int            // corpus: crash points only every sparse-th byte in the quick tier (slow packages)
	stem   string         // the user's files are <stem>.go and <stem>_test.go ("" = a): "main", "types" sort BEHIND derived.gen.go
	pname  string         // name in the package clause ("" = p)
}

// inPackage: the same version with another package name.
func (v ver) inPackage(name string) ver {
	v.pname = name
	return v
}

// named: the same version in files <stem>.go / <stem>_test.go with package clause pname.
func (v ver) named(stem, pname string) ver {
	v.stem, v.pname = stem, pname
	return v
}

// text: file names and texts of the user's files as they are written to disk.
func (v ver) text() (fname, src, tname, test string) {
	stem := v.stem
	if stem == "" {
		stem = "a"
	}
	src, test = v.src, v.test
	if v.pname != "" && v.pname != "p" {
		src = strings.Replace(src, "package p\n", "package "+v.pname+"\n", 1)
		test = strings.Replace(test, "package p\n", "package "+v.pname+"\n", 1)
	}
	return stem + ".go", src, stem + "_test.go", test
}

func (v *version) render() ver {
	var b strings.Builder
	b.WriteString("package p\n\n")
	used := map[int]bool{}
	for _, t := range v.tops {
		usedVars(t.e, used)
	}
	ids := []int{}
	for id := range used {
		ids = append(ids, id)
	}
	sort.Ints(ids)
	bs := map[int]bool{}
	for _, id := range ids {
		v.vars[id].bases(bs)
	}
	types := map[string]int{"int": 0, "string": 1, "int64": 2, "float64": 3}
	for _, n := range []int{10, 11, 12, 13} {
		if bs[n] {
			fmt.Fprintf(&b, "type %s %s\n\n", baseNames[n], namedUnder[n])
			types[baseNames[n]] = n
		}
	}
	hasField := false
	for _, id := range ids {
		if v.field[id] {
			hasField = true
		}
	}
	if hasField {
		b.WriteString("type S struct {\n")
		for _, id := range ids {
			if v.field[id] {
				fmt.Fprintf(&b, "\tF%d %s\n", id, v.vars[id].goStr())
			}
		}
		b.WriteString("}\n\nvar s S\n\n")
	}
	for _, id := range ids {
		if !v.field[id] {
			fmt.Fprintf(&b, "var m%d %s\n", id, v.vars[id].goStr())
		}
	}
	b.WriteString("\n")
	var pk []string
	names := map[string]int{}
	kinds := map[string]int{}
	// The loader appends the in-package test files to the files of the package (GoFiles, then TestGoFiles)
	// and goderive handles the calls file by file: the calls of a_test.go follow those of a.go.
	main := &b
	var tb strings.Builder
	ntest := 0
	for _, t := range v.tops {
		if t.test {
			ntest++
		}
	}
	if ntest > 0 {
		tb.WriteString("package p\n\n")
	}
	var reg func(e *expr)
	reg = func(e *expr) {
		if e.isVar {
			return
		}
		names[nameStr(e.k, e.suf)] = nameID(e.k, e.suf)
		kinds[nameStr(e.k, e.suf)] = e.k
		reg(e.a)
	}
	for _, inTest := range []bool{false, true} {
		b := main
		if inTest {
			b = &tb
		}
		for i, t := range v.tops {
			if t.test != inTest {
				continue
			}
			reg(t.e)
			switch {
			case t.form == 2 && !t.e.isVar && !t.e.a.isVar:
				// x := INNER; OUTER(x): the finder meets INNER first, then OUTER whose argument has INNER's type
				fmt.Fprintf(b, "func f%d() int {\n\tx := %s\n\treturn len(%s(x))\n}\n\n", i, v.exprText(t.e.a), nameStr(t.e.k, t.e.suf))
				pk = append(pk, v.exprSexp(t.e.a), v.exprSexp(t.e))
			case t.form == 1:
				fmt.Fprintf(b, "func f%d() int { return len(%s) }\n\n", i, v.exprText(t.e))
				pk = append(pk, v.exprSexp(t.e))
			default:
				fmt.Fprintf(b, "var _ = %s\n\n", v.exprText(t.e))
				pk = append(pk, v.exprSexp(t.e))
			}
		}
	}
	return ver{src: main.String(), test: tb.String(), pkg: "(" + strings.Join(pk, " ") + ")", names: names, kinds: kinds, types: types}
}

// ---------- generation of versions and edits ----------

var plainBases = []int{0, 1, 2, 3, 10, 11}

func randVarType(r *hx.Rand) *ty {
	b := func() *ty { return tBase(hx.Pick(r, plainBases)) }
	switch r.Intn(5) {
	case 0, 1:
		return tMap(b(), b())
	case 2:
		return tMap(b(), tSlice(b()))
	default:
		return tSlice(b())
	}
}

// sameShape gives another type usable wherever t is (map stays map, slice stays slice).
func sameShape(r *hx.Rand, t *ty) *ty {
	for i := 0; i < 20; i++ {
		var n *ty
		if t.kind == 2 {
			n = tMap(tBase(hx.Pick(r, plainBases)), t.b)
			if r.Intn(3) == 0 {
				n.b = tBase(hx.Pick(r, plainBases))
			}
		} else {
			n = tSlice(tBase(hx.Pick(r, plainBases)))
		}
		if n.goStr() != t.goStr() {
			return n
		}
	}
	return t
}

func (v *version) pickSuffix(r *hx.Rand, k int, argT *ty, under *expr) int {
	// reuse the name of a call of the same plugin with the same argument type, otherwise mostly a fresh one
	usedBy := map[int]string{}
	var walk func(e *expr)
	walk = func(e *expr) {
		if e.isVar {
			return
		}
		if e.k == k {
			if t := v.typeOf(e.a); t != nil {
				usedBy[e.suf] = t.goStr()
			} else {
				usedBy[e.suf] = "?"
			}
		}
		walk(e.a)
	}
	for _, t := range v.tops {
		walk(t.e)
	}
	walk(under)
	sufs := []int{}
	for suf := range usedBy {
		sufs = append(sufs, suf)
	}
	sort.Ints(sufs)
	for _, suf := range sufs {
		ts := usedBy[suf]
		if ts == argT.goStr() && r.Intn(10) < 7 {
			return suf
		}
	}
	if r.Intn(25) == 0 && len(sufs) > 0 { // rarely: a clashing name (goderive must refuse, from scratch too)
		return sufs[0]
	}
	for suf := range suffixes {
		if _, ok := usedBy[suf]; !ok {
			return suf
		}
	}
	return r.Intn(len(suffixes))
}

func (v *version) wrap(r *hx.Rand, e *expr) *expr {
	t := v.typeOf(e)
	if t == nil {
		return nil
	}
	var ks []int
	if t.kind == 2 {
		ks = []int{kKeys}
	} else if t.kind == 1 {
		ks = []int{kSet} // deriveSort's output imports "sort", which costs the loader ~1.5 s per run: corpus only
	}
	if len(ks) == 0 {
		return nil
	}
	k := hx.Pick(r, ks)
	return &expr{k: k, suf: v.pickSuffix(r, k, t, e), a: e}
}

func (v *version) newTop(r *hx.Rand, maxDepth int) {
	var e *expr
	if len(v.vars) > 0 && r.Intn(3) == 0 {
		ids := []int{}
		for id := range v.vars {
			ids = append(ids, id)
		}
		sort.Ints(ids)
		e = &expr{isVar: true, v: hx.Pick(r, ids)}
	} else {
		id := v.nextVar
		v.nextVar++
		v.vars[id] = randVarType(r)
		v.field[id] = r.Intn(3) == 0
		e = &expr{isVar: true, v: id}
	}
	d := 1 + r.Intn(maxDepth)
	for i := 0; i < d; i++ {
		w := v.wrap(r, e)
		if w == nil {
			break
		}
		e = w
	}
	if e.isVar {
		return
	}
	t := top{e: e, form: r.Intn(3)}
	pos := r.Intn(len(v.tops) + 1)
	v.tops = append(v.tops, top{})
	copy(v.tops[pos+1:], v.tops[pos:])
	v.tops[pos] = t
}

// place decides which calls stand in the in-package test file a_test.go.  It consumes no random numbers
// (the generated histories are what they were before test files existed): in every second history, the
// calls whose variable number plus position has the parity of the step pair, so that calls also move
// between a.go and a_test.go from one version to the next.
func (v *version) place(hi, step int) {
	for i := range v.tops {
		ids := map[int]bool{}
		usedVars(v.tops[i].e, ids)
		id := 0
		for k := range ids {
			id = k
		}
		v.tops[i].test = hi%2 == 1 && (id+i+(step+1)/2)%2 == 1
	}
}

func randVersion(r *hx.Rand) *version {
	v := &version{vars: map[int]*ty{}, field: map[int]bool{}}
	n := 1 + r.Intn(4)
	for i := 0; i < n; i++ {
		v.newTop(r, 3)
	}
	if r.Intn(8) != 0 {
		v.repair()
	}
	return v
}

// repair renames call sites the way a user would after goderive's "conflicting/ambiguous function
// names" refusal: one name per (plugin, argument type).
func (v *version) repair() {
	type key struct {
		k int
		t string
	}
	nameOf := map[key]int{}
	typeOf := map[[2]int]string{}
	var walk func(e *expr)
	walk = func(e *expr) {
		if e.isVar {
			return
		}
		walk(e.a) // inner calls first: their names decide the types further out
		t := v.typeOf(e.a)
		if t == nil {
			return
		}
		ts := t.goStr()
		if s, ok := nameOf[key{e.k, ts}]; ok {
			e.suf = s
			return
		}
		if old, ok := typeOf[[2]int{e.k, e.suf}]; ok && old != ts {
			for s := range suffixes {
				if _, used := typeOf[[2]int{e.k, s}]; !used {
					e.suf = s
					break
				}
			}
		}
		nameOf[key{e.k, ts}] = e.suf
		typeOf[[2]int{e.k, e.suf}] = ts
	}
	for _, t := range v.tops {
		walk(t.e)
	}
}

// edit returns the next version and a description of the edit.
func edit(r *hx.Rand, v *version) (*version, string) {
	w, d := edit1(r, v)
	if r.Intn(8) != 0 {
		w.repair()
	}
	return w, d
}

func edit1(r *hx.Rand, v *version) (*version, string) {
	w := v.clone()
	for try := 0; try < 10; try++ {
		switch c := r.Intn(20); {
		case c < 6: // retype a variable or field
			used := map[int]bool{}
			for _, t := range w.tops {
				usedVars(t.e, used)
			}
			ids := []int{}
			for id := range used {
				ids = append(ids, id)
			}
			if len(ids) == 0 {
				continue
			}
			sort.Ints(ids)
			id := hx.Pick(r, ids)
			if r.Intn(15) == 0 { // shape change: the calls on it no longer type-check
				if w.vars[id].kind == 2 {
					w.vars[id] = tSlice(tBase(0))
				} else {
					w.vars[id] = tMap(tBase(1), tBase(0))
				}
				return w, "reshape-variable"
			}
			w.vars[id] = sameShape(r, w.vars[id])
			if w.field[id] {
				return w, "retype-field"
			}
			return w, "retype-variable"
		case c < 9:
			w.newTop(r, 3)
			return w, "add-call"
		case c < 11:
			if len(w.tops) == 0 {
				continue
			}
			i := r.Intn(len(w.tops))
			w.tops = append(w.tops[:i], w.tops[i+1:]...)
			return w, "remove-call"
		case c < 14: // a derive result now feeds another derive call
			if len(w.tops) == 0 {
				continue
			}
			i := r.Intn(len(w.tops))
			if e := w.wrap(r, w.tops[i].e); e != nil {
				w.tops[i].e = e
				w.tops[i].form = r.Intn(3)
				return w, "wrap-call"
			}
		case c < 16: // ... or no longer does
			if len(w.tops) == 0 {
				continue
			}
			i := r.Intn(len(w.tops))
			if !w.tops[i].e.isVar && !w.tops[i].e.a.isVar {
				if r.Bool() {
					w.tops[i].e = w.tops[i].e.a
				} else { // drop the inner call: the outer one is now fed by what fed the inner one
					inner := w.tops[i].e.a
					if t := w.typeOf(inner.a); t != nil && resOf(w.tops[i].e.k, t) != nil {
						w.tops[i].e.a = inner.a
					} else {
						w.tops[i].e = inner
					}
				}
				return w, "unwrap-call"
			}
		case c < 17: // rename the function at one call site
			if len(w.tops) == 0 {
				continue
			}
			e := w.tops[r.Intn(len(w.tops))].e
			e.suf = (e.suf + 1 + r.Intn(len(suffixes)-1)) % len(suffixes)
			return w, "rename-function"
		case c < 18: // rename a named type (N0 -> N2, N1 -> N3 and back)
			ren := map[int]int{10: 12, 12: 10, 11: 13, 13: 11}
			changed := false
			var rt func(t *ty) *ty
			rt = func(t *ty) *ty {
				switch t.kind {
				case 0:
					if n, ok := ren[t.base]; ok {
						changed = true
						return tBase(n)
					}
					return t
				case 1:
					return tSlice(rt(t.a))
				default:
					return tMap(rt(t.a), rt(t.b))
				}
			}
			for id, t := range w.vars {
				w.vars[id] = rt(t)
			}
			if changed {
				return w, "rename-type"
			}
		case c < 19:
			if len(w.tops) == 0 {
				continue
			}
			w.tops = nil
			return w, "remove-all-calls"
		default:
			return w, "no-change"
		}
	}
	return w, "no-change"
}

// ---------- oracle: what is still readable in an old derived.gen.go ----------

func tyOfAst(x ast.Expr, types map[string]int) *ty {
	switch t := x.(type) {
	case *ast.Ident:
		if n, ok := types[t.Name]; ok {
			return tBase(n)
		}
	case *ast.ArrayType:
		if t.Len == nil {
			if e := tyOfAst(t.Elt, types); e != nil {
				return tSlice(e)
			}
		}
	case *ast.MapType:
		k, v := tyOfAst(t.Key, types), tyOfAst(t.Value, types)
		if k != nil && v != nil {
			return tMap(k, v)
		}
	case *ast.StructType:
		if t.Fields == nil || len(t.Fields.List) == 0 {
			return tBase(9)
		}
	}
	return nil
}

// classifyOld: OLD s-expression for the bytes of a (possibly cut off) derived.gen.go with respect to
// the names and declared types of the current sources.
func classifyOld(src []byte, exists bool, v ver) (string, string) {
	if !exists {
		return "absent", "absent"
	}
	fset := token.NewFileSet()
	if _, err := parser.ParseFile(fset, "derived.gen.go", src, parser.ImportsOnly); err != nil {
		return "nopkg", "header-cut"
	}
	f, err := parser.ParseFile(fset, "derived.gen.go", src, parser.ParseComments)
	if f == nil {
		return "unparsable", "unparsable"
	}
	var sigs []string
	nfun := 0
	for _, d := range f.Decls {
		fd, ok := d.(*ast.FuncDecl)
		if !ok || fd.Name == nil || fd.Recv != nil {
			continue
		}
		nfun++
		id, ok := v.names[fd.Name.Name]
		if !ok {
			continue
		}
		res := "invalid"
		if fd.Type.Results == nil || len(fd.Type.Results.List) == 0 {
			res = "void"
		} else if len(fd.Type.Results.List) == 1 && len(fd.Type.Results.List[0].Names) <= 1 {
			if t := tyOfAst(fd.Type.Results.List[0].Type, v.types); t != nil {
				res = t.sexp()
			}
		}
		sigs = append(sigs, fmt.Sprintf("(%d %s)", id, res))
	}
	if err != nil && nfun == 0 {
		return "unparsable", "cut-before-first-function"
	}
	cls := "complete"
	if err != nil {
		cls = "cut-inside-functions"
	}
	return "(file (" + strings.Join(sigs, " ") + "))", cls
}

// parseReal: REAL s-expression of the file a run left behind.
func parseReal(exit int, src []byte, exists bool, v ver) string {
	if exit != 0 {
		return "err"
	}
	if !exists {
		return "(ok deleted)"
	}
	fset := token.NewFileSet()
	f, err := parser.ParseFile(fset, "derived.gen.go", src, parser.ParseComments)
	if err != nil || f == nil {
		return "(ok unparsable)"
	}
	var es []string
	for _, d := range f.Decls {
		fd, ok := d.(*ast.FuncDecl)
		if !ok || fd.Recv != nil {
			continue
		}
		name := fd.Name.Name
		k := -1
		for i, p := range kindPrefix {
			if strings.HasPrefix(name, p) {
				k = i
			}
		}
		if k < 0 {
			continue // helper of another plugin (deriveCompare...)
		}
		id, ok := v.names[name]
		if !ok {
			id = 999
		}
		ts := "(base 99)"
		if fd.Type.Params != nil && len(fd.Type.Params.List) > 0 {
			if t := tyOfAst(fd.Type.Params.List[0].Type, v.types); t != nil {
				ts = t.sexp()
			}
		}
		es = append(es, fmt.Sprintf("(%s %d %s)", kindSym[k], id, ts))
	}
	return "(ok (file (" + strings.Join(es, " ") + ")))"
}

// ---------- running ----------

type outcome struct {
	exit   int
	exists bool
	bytes  []byte
	log    string
}

// addressing modes of the package under test: how it is named on the command line must not matter
// (0: "." inside the directory; 1: "./inner" from the module root; 2: the import path; 3: "./...")
func pkgDir(dir string, mode int) string {
	if mode == 0 {
		return dir
	}
	return filepath.Join(dir, "inner")
}

func goderiveAt(cfg hx.Config, dir string, mode int, flags ...string) hx.RunResult {
	args := append([]string{}, flags...)
	switch mode {
	case 1:
		return goderiveRun(cfg, dir, append(args, "./inner")...)
	case 2:
		return goderiveRun(cfg, dir, append(args, "p/inner")...)
	case 3:
		return goderiveRun(cfg, dir, append(args, "./...")...)
	}
	return goderiveRun(cfg, dir, append(args, ".")...)
}

func runIn(cfg hx.Config, dir string, v ver, old []byte, oldExists bool) outcome {
	return runInMode(cfg, dir, 0, v, old, oldExists)
}

// writeSrc (re)writes the user's files of the package: a.go and, when the version has one, a_test.go.
func writeSrc(pdir string, v ver) {
	fname, src, tname, test := v.text()
	// scratch directories are reused by versions with other file names: no other source file may stay
	if ents, err := os.ReadDir(pdir); err == nil {
		for _, e := range ents {
			if n := e.Name(); strings.HasSuffix(n, ".go") && n != "derived.gen.go" && n != fname && !(n == tname && test != "") {
				os.Remove(filepath.Join(pdir, n))
			}
		}
	}
	os.WriteFile(filepath.Join(pdir, fname), []byte(src), 0o644)
	if test != "" {
		os.WriteFile(filepath.Join(pdir, tname), []byte(test), 0o644)
	}
}

// srcUnchanged: the user's files still hold the text of the version (-autoname/-dedup rewrite them).
func srcUnchanged(pdir string, v ver) bool {
	fname, src, tname, test := v.text()
	a, err := os.ReadFile(filepath.Join(pdir, fname))
	if err != nil || string(a) != src {
		return false
	}
	t, err := os.ReadFile(filepath.Join(pdir, tname))
	if test == "" {
		return err != nil
	}
	return err == nil && string(t) == test
}

func runInMode(cfg hx.Config, dir string, mode int, v ver, old []byte, oldExists bool) outcome {
	return runInModeFlags(cfg, dir, mode, nil, v, old, oldExists)
}

func runInModeFlags(cfg hx.Config, dir string, mode int, flags []string, v ver, old []byte, oldExists bool) outcome {
	os.MkdirAll(pkgDir(dir, mode), 0o755)
	hx.Module(dir)
	// scratch directories are reused with other modes: exactly one package may exist
	if mode == 0 {
		os.RemoveAll(filepath.Join(dir, "inner"))
	} else if ents, err := os.ReadDir(dir); err == nil {
		for _, e := range ents {
			if strings.HasSuffix(e.Name(), ".go") {
				os.Remove(filepath.Join(dir, e.Name()))
			}
		}
	}
	gen := filepath.Join(pkgDir(dir, mode), "derived.gen.go")
	var g hx.RunResult
	for attempt := 0; attempt < 3; attempt++ {
		writeSrc(pkgDir(dir, mode), v)
		if oldExists {
			os.WriteFile(gen, old, 0o644)
		} else {
			os.Remove(gen)
		}
		g = goderiveAt(cfg, dir, mode, flags...)
		if !g.TimedOut && g.Exit != -2 {
			break // a 30 s timeout of a 10 ms run is the machine's load, not goderive: try again
		}
	}
	b, err := os.ReadFile(gen)
	return outcome{exit: g.Exit, exists: err == nil, bytes: b, log: g.Out}
}

// goderiveRun: hx.Goderive; a process that could not be started or whose output could not be collected (exit -2:
// fork/exec or the wait for its pipes failed on an overloaded machine) says nothing about goderive and is tried again.
func goderiveRun(cfg hx.Config, dir string, args ...string) hx.RunResult {
	var g hx.RunResult
	for attempt := 0; attempt < 4; attempt++ {
		g = hx.Goderive(cfg.Goderive, dir, args...)
		if g.Exit != -2 {
			break
		}
		hx.Sleep(1)
	}
	return g
}

// vetRun: hx.GoVet, tried again when the go command could not be started (exit -2).
func vetRun(dir string, tags string, pkgs ...string) hx.RunResult {
	var g hx.RunResult
	for attempt := 0; attempt < 4; attempt++ {
		g = hx.GoVet(dir, tags, pkgs...)
		if g.Exit != -2 {
			break
		}
		hx.Sleep(1)
	}
	return g
}

func sameAs(a, s outcome) bool {
	if s.exit != 0 {
		return a.exit != 0
	}
	if a.exit != 0 {
		return false
	}
	return a.exists == s.exists && bytes.Equal(a.bytes, s.bytes)
}

type collector struct {
	mu   sync.Mutex
	obs  map[string]int
	meta *hx.Meta
	nrun int
	bad  int

	modDirect map[string]int
}

func (c *collector) add(line string) {
	c.mu.Lock()
	c.obs[line]++
	c.mu.Unlock()
}

func files(v ver, old []byte, oldExists bool) map[string]string {
	fname, src, tname, test := v.text()
	m := map[string]string{fname: src, "go.mod": "module p\n\ngo 1.24\n"}
	if test != "" {
		m[tname] = test
	}
	if oldExists {
		m["derived.gen.go (before the run)"] = string(old)
	}
	return m
}

// observe one run: writes the observation and, for a difference, a direct record with the sources.
func (c *collector) observe(cfg hx.Config, what string, v ver, old []byte, oldExists bool, a, s outcome) {
	c.observeCtx(cfg, what, v, old, oldExists, a, s, nil, true)
}

// ctxOf names the input class of a run beyond the abstract package: calls in an in-package test file, flags.
func ctxOf(v ver, flags []string) string {
	var parts []string
	for _, f := range flags {
		parts = append(parts, strings.TrimPrefix(f, "-"))
	}
	if v.test != "" {
		parts = append(parts, "testfile")
	}
	if v.stem != "" && v.stem != "a" {
		parts = append(parts, "srcbehind") // the user's files sort behind derived.gen.go
	}
	return strings.Join(parts, "-")
}

// observeCtx: flags = the flags goderive ran with (the scratch copy ran with the same flags); model = the
// run is inside what the model describes (false: -autoname/-dedup renamed calls in the user's files; then
// only the property itself, byte equality with the scratch result, is judged).
func (c *collector) observeCtx(cfg hx.Config, what string, v ver, old []byte, oldExists bool, a, s outcome, flags []string, model bool) {
	oldS, _ := classifyOld(old, oldExists, v)
	same := 0
	if sameAs(a, s) {
		same = 1
	}
	kind := "regen"
	if os.Getenv("VERIF_C07_PINNED") == "1" {
		kind = "regen-pinned" // diagnostic: compare with the model of the code before the fixes
	}
	if ctx := ctxOf(v, flags); model && ctx == "" {
		c.add(fmt.Sprintf("(%s %s %s %s %d)", kind, v.pkg, oldS, parseReal(a.exit, a.bytes, a.exists, v), same))
	} else if model {
		c.add(fmt.Sprintf("(%s %s %s %s %d %s)", kind, v.pkg, oldS, parseReal(a.exit, a.bytes, a.exists, v), same, ctx))
	}
	if len(flags) > 0 {
		what += " [goderive " + strings.Join(flags, " ") + "]"
	}
	c.mu.Lock()
	c.nrun++
	if same == 0 && c.bad < 3 {
		c.bad++
		c.mu.Unlock()
		fs := files(v, old, oldExists)
		fs["derived.gen.go (after the run)"] = string(a.bytes)
		fs["derived.gen.go (from scratch)"] = string(s.bytes)
		c.meta.AddDirect(hx.Direct{Class: "c07-differs-from-scratch",
			What:  fmt.Sprintf("%s: one goderive run over the old derived.gen.go does not leave the from-scratch result (exit %d vs %d from scratch)", what, a.exit, s.exit),
			Files: fs, Cmd: "goderive " + strings.Join(append(append([]string{}, flags...), "."), " ") + "  (in a directory holding the sources, go.mod and the old derived.gen.go)",
			Output: hx.Truncate(a.log, 1500)})
		return
	}
	c.mu.Unlock()
}

type crashJob struct {
	v     ver
	src   []byte // the file that is cut
	k     int
	which string
	s     outcome
	flags []string // flags of the run (and of the scratch run s)
	model bool     // false: the scratch run under these flags renamed calls in the sources
}

var flagSets = [][]string{{"-autoname"}, {"-dedup"}, {"-autoname", "-dedup"}}

// flagOffsets: a few crash points per step for the runs under -autoname/-dedup: inside the header (where
// go/build rejects the directory), inside the functions, one byte short.
func flagOffsets(n int) []int {
	var ks []int
	seen := map[int]bool{}
	for _, k := range []int{0, 9, 30, 45, n / 3, n / 2, 2 * n / 3, n - 1} {
		if k >= 0 && k <= n && !seen[k] {
			seen[k] = true
			ks = append(ks, k)
		}
	}
	return ks
}

func offsets(n int, tier string, sparse int) []int {
	var ks []int
	for k := 0; k <= n; k++ {
		if sparse > 0 { // slow package (its derived.gen.go imports the standard library): thinner grid
			step := sparse
			if tier == "thorough" {
				step = 3
			}
			if k%step == 0 || k == n-1 {
				ks = append(ks, k)
			}
			continue
		}
		if tier == "thorough" || k < 64 || k%16 == 0 || k == n-1 {
			ks = append(ks, k)
		}
	}
	return ks
}

func Run(cfg hx.Config) (*hx.Meta, error) {
	meta := &hx.Meta{Property: "C07", Seed: cfg.Seed, Tier: cfg.Tier}
	col := &collector{obs: map[string]int{}, meta: meta}
	r := hx.NewRand(cfg.Seed)

	nh, steps := 12, 3
	if cfg.Tier == "thorough" {
		nh, steps = 30, 4
	}
	type hist struct {
		name string
		vers []ver
		desc []string
	}
	var hists []hist
	// regression corpus first
	if ents, err := os.ReadDir(cfg.Corpus); err == nil {
		for _, e := range ents {
			if !strings.HasSuffix(e.Name(), ".hist") {
				continue
			}
			b, err := os.ReadFile(filepath.Join(cfg.Corpus, e.Name()))
			if err != nil {
				return nil, err
			}
			h := hist{name: "corpus/" + e.Name()}
			for i, part := range strings.Split(string(b), "\n-----\n") {
				v, err := parseCorpusVersion(part)
				if err != nil {
					return nil, fmt.Errorf("%s version %d: %v", e.Name(), i, err)
				}
				h.vers = append(h.vers, v)
				h.desc = append(h.desc, "corpus-step")
			}
			hists = append(hists, h)
			meta.Count("history/corpus")
		}
	}
	for i := 0; i < nh; i++ {
		hr := r.Fork(uint64(i))
		v := randVersion(hr)
		v.place(i, 0)
		h := hist{name: fmt.Sprintf("h%d", i), vers: []ver{v.render()}, desc: []string{"initial"}}
		for s := 0; s < steps; s++ {
			var d string
			v, d = edit(hr, v)
			if i%3 == 0 && s == steps-1 && len(v.tops) > 0 { // every third history ends with no derive call left
				v = v.clone()
				v.tops = nil
				d = "remove-all-calls"
			}
			v.place(i, s+1)
			h.vers = append(h.vers, v.render())
			h.desc = append(h.desc, d)
		}
		// How the user's files and the package are called must not matter.  In two of three histories the files
		// are main.go / types.go (+ _test.go), which sort BEHIND derived.gen.go: go/build takes the package name
		// of a directory from its first file, which is then the old derived.gen.go.  In two of three histories the
		// package has a name of several letters (a file cut off inside the name in its package clause is a valid
		// Go file of ANOTHER package), and in every third the package is renamed half way (tool -> kit): the old
		// derived.gen.go then belongs to another package than the sources.
		stem := []string{"a", "main", "types"}[(i/2)%3]
		for si := range h.vers {
			pname := "p"
			switch i % 3 {
			case 1:
				pname = "tool"
			case 2:
				pname = "tool"
				if si >= (len(h.vers)+1)/2 {
					pname = "kit"
				}
				if si == (len(h.vers)+1)/2 {
					h.desc[si] += "+rename-package"
				}
			}
			h.vers[si] = h.vers[si].named(stem, pname)
		}
		meta.Count("source-files/" + stem + ".go")
		hists = append(hists, h)
		meta.Count("history/generated")
	}

	var jobsMu sync.Mutex
	var jobs []crashJob
	// every history is walked twice, independently: without flags (first half of the index space) and
	// under -autoname/-dedup (second half)
	hx.Parallel(2*len(hists), 16, func(idx int) {
		hi := idx % len(hists)
		underFlags := idx >= len(hists)
		h := hists[hi]
		dir := filepath.Join(cfg.Work, fmt.Sprintf("hist%d", hi))
		var prev outcome  // what derived.gen.go holds before the step
		var prevF outcome // the same for the chain of runs under -autoname/-dedup
		dirF := filepath.Join(cfg.Work, fmt.Sprintf("hist%d-flags", hi))
		for si, v := range h.vers {
			if underFlags {
				break
			}
			sdir := filepath.Join(cfg.Work, fmt.Sprintf("hist%d-scratch%d", hi, si))
			s := runIn(cfg, sdir, v, nil, false)
			mode := hi % 4
			a := runInMode(cfg, dir, mode, v, prev.bytes, prev.exists)
			col.meta.CountSafe(fmt.Sprintf("addressed/%s", []string{".", "./inner", "import-path", "./..."}[mode]))
			col.observe(cfg, fmt.Sprintf("%s step %d (%s)", h.name, si, h.desc[si]), v, prev.bytes, prev.exists, a, s)
			col.meta.CountSafe("edit/" + h.desc[si])
			if s.exit != 0 {
				col.meta.CountSafe("scratch/goderive-refuses")
			} else if !s.exists {
				col.meta.CountSafe("scratch/no-file")
			} else {
				col.meta.CountSafe("scratch/file")
			}
			if a.exit == 0 && s.exit == 0 {
				// the result type-checks
				if vet := vetRun(pkgDir(dir, mode), ""); vet.Exit != 0 {
					fs := files(v, prev.bytes, prev.exists)
					fs["derived.gen.go (after the run)"] = string(a.bytes)
					col.meta.AddDirect(hx.Direct{Class: "c07-vet-fails",
						What:  fmt.Sprintf("%s step %d (%s): goderive exit 0 but the package does not type-check", h.name, si, h.desc[si]),
						Files: fs, Cmd: "goderive . && go vet .", Output: hx.Truncate(vet.Out, 1500)})
				}
				// one run suffices: a second run changes nothing
				g2 := goderiveAt(cfg, dir, mode)
				b2, err2 := os.ReadFile(filepath.Join(pkgDir(dir, mode), "derived.gen.go"))
				if g2.Exit != 0 || (err2 == nil) != a.exists || !bytes.Equal(b2, a.bytes) {
					fs := files(v, prev.bytes, prev.exists)
					fs["derived.gen.go (after run 1)"] = string(a.bytes)
					fs["derived.gen.go (after run 2)"] = string(b2)
					col.meta.AddDirect(hx.Direct{Class: "c07-second-run-changes",
						What:  fmt.Sprintf("%s step %d (%s): a second goderive run changes derived.gen.go (exit %d)", h.name, si, h.desc[si], g2.Exit),
						Files: fs, Cmd: "goderive . && goderive .", Output: hx.Truncate(g2.Out, 1500)})
				}
				col.mu.Lock()
				col.nrun++
				col.mu.Unlock()
			}
			// crash points: the first k bytes of the previous and of the new output
			{
				jobsMu.Lock()
				if prev.exists {
					for _, k := range offsets(len(prev.bytes), cfg.Tier, v.sparse) {
						jobs = append(jobs, crashJob{v, prev.bytes, k, "previous", s, nil, true})
					}
				}
				if s.exit == 0 && s.exists {
					for _, k := range offsets(len(s.bytes), cfg.Tier, v.sparse) {
						jobs = append(jobs, crashJob{v, s.bytes, k, "new", s, nil, true})
					}
				}
				jobsMu.Unlock()
			}
			// the next step starts from whatever is on disk now
			b, err := os.ReadFile(filepath.Join(pkgDir(dir, mode), "derived.gen.go"))
			prev = outcome{exists: err == nil, bytes: b}
		}
		for si, v := range h.vers {
			if !underFlags {
				break
			}
			// The same step under -autoname / -dedup ("from scratch for the current sources AND FLAGS"): a chain
			// of its own, whose scratch copy runs with the same flags.  Where no call had to be renamed the
			// flags change nothing and the model applies; where calls were renamed (the user's files are
			// rewritten) only byte equality with the scratch result, go vet and the second run are judged.
			if v.sparse > 0 && cfg.Tier != "thorough" {
				continue // slow corpus package (its derived.gen.go imports the standard library)
			}
			fl := flagSets[(hi+si)%len(flagSets)]
			modeF := (hi + 1) % 4
			sdirF := filepath.Join(cfg.Work, fmt.Sprintf("hist%d-flags-scratch%d", hi, si))
			sF := runInModeFlags(cfg, sdirF, 0, fl, v, nil, false)
			model := srcUnchanged(sdirF, v)
			aF := runInModeFlags(cfg, dirF, modeF, fl, v, prevF.bytes, prevF.exists)
			modelA := model && srcUnchanged(pkgDir(dirF, modeF), v)
			col.meta.CountSafe("flags/" + strings.Join(fl, " ") + map[bool]string{true: "/no call renamed", false: "/calls renamed in the sources"}[modelA])
			col.observeCtx(cfg, fmt.Sprintf("%s step %d (%s)", h.name, si, h.desc[si]), v, prevF.bytes, prevF.exists, aF, sF, fl, modelA)
			if aF.exit == 0 && sF.exit == 0 {
				if vet := vetRun(pkgDir(dirF, modeF), ""); vet.Exit != 0 {
					fs := files(v, prevF.bytes, prevF.exists)
					fs["derived.gen.go (after the run)"] = string(aF.bytes)
					col.meta.AddDirect(hx.Direct{Class: "c07-vet-fails",
						What:  fmt.Sprintf("%s step %d (%s): goderive %s exit 0 but the package does not type-check", h.name, si, h.desc[si], strings.Join(fl, " ")),
						Files: fs, Cmd: "goderive " + strings.Join(fl, " ") + " . && go vet .", Output: hx.Truncate(vet.Out, 1500)})
				}
				g2 := goderiveAt(cfg, dirF, modeF, fl...)
				b2, err2 := os.ReadFile(filepath.Join(pkgDir(dirF, modeF), "derived.gen.go"))
				if g2.Exit != 0 || (err2 == nil) != aF.exists || !bytes.Equal(b2, aF.bytes) {
					fs := files(v, prevF.bytes, prevF.exists)
					fs["derived.gen.go (after run 1)"] = string(aF.bytes)
					fs["derived.gen.go (after run 2)"] = string(b2)
					col.meta.AddDirect(hx.Direct{Class: "c07-second-run-changes",
						What:  fmt.Sprintf("%s step %d (%s): a second goderive %s run changes derived.gen.go (exit %d)", h.name, si, h.desc[si], strings.Join(fl, " "), g2.Exit),
						Files: fs, Cmd: "goderive " + strings.Join(fl, " ") + " . (twice)", Output: hx.Truncate(g2.Out, 1500)})
				}
				col.mu.Lock()
				col.nrun += 2
				col.mu.Unlock()
			}
			jobsMu.Lock()
			if prevF.exists {
				for _, k := range flagOffsets(len(prevF.bytes)) {
					jobs = append(jobs, crashJob{v, prevF.bytes, k, "previous", sF, fl, model})
				}
			}
			if sF.exit == 0 && sF.exists {
				for _, k := range flagOffsets(len(sF.bytes)) {
					jobs = append(jobs, crashJob{v, sF.bytes, k, "new", sF, fl, model})
				}
			}
			jobsMu.Unlock()
			bF, errF := os.ReadFile(filepath.Join(pkgDir(dirF, modeF), "derived.gen.go"))
			prevF = outcome{exists: errF == nil, bytes: bF}
		}
	})

	// several packages in one invocation (goderive ./...): each package directory holds the output of
	// an earlier version (or a cut-off file); the result per package must be the scratch result
	nm := 8
	if cfg.Tier == "thorough" {
		nm = 24
	}
	gen := []hist{}
	for _, h := range hists {
		if !strings.HasPrefix(h.name, "corpus/") {
			gen = append(gen, h)
		}
	}
	hx.Parallel(nm, 16, func(mi int) {
		mr := r.Fork(uint64(1000 + mi))
		root := filepath.Join(cfg.Work, fmt.Sprintf("multi%d", mi))
		sroot := filepath.Join(cfg.Work, fmt.Sprintf("multi%d-scratch", mi))
		npk := 2 + mr.Intn(2)
		type pk struct {
			v         ver
			old       []byte
			oldExists bool
		}
		var pks []pk
		for _, rt := range []string{root, sroot} {
			os.MkdirAll(rt, 0o755)
			hx.Module(rt)
		}
		for pi := 0; pi < npk; pi++ {
			h := gen[mr.Intn(len(gen))]
			si := 1 + mr.Intn(len(h.vers)-1)
			v := h.vers[si]
			// old file: the from-scratch output of the previous version, possibly cut off
			o := runIn(cfg, filepath.Join(cfg.Work, fmt.Sprintf("multi%d-old%d", mi, pi)), h.vers[si-1], nil, false)
			old, ex := o.bytes, o.exists && o.exit == 0
			if ex && mr.Intn(2) == 0 {
				old = old[:mr.Intn(len(old)+1)]
			}
			pks = append(pks, pk{v, old, ex})
			for _, rt := range []string{root, sroot} {
				d := filepath.Join(rt, fmt.Sprintf("q%d", pi))
				os.MkdirAll(d, 0o755)
				writeSrc(d, v.inPackage(fmt.Sprintf("q%d", pi)))
			}
			if ex {
				os.WriteFile(filepath.Join(root, fmt.Sprintf("q%d", pi), "derived.gen.go"), old, 0o644)
			}
		}
		// addressed by pattern, or (every second invocation) by import paths: the old file must be
		// ignored however the package was found
		addr := []string{"./..."}
		if mi%2 == 1 {
			addr = nil
			for pi := range pks {
				addr = append(addr, fmt.Sprintf("p/q%d", pi))
			}
		}
		g := goderiveRun(cfg, root, addr...)
		gs := goderiveRun(cfg, sroot, addr...)
		col.meta.CountSafe("multi-package-invocation/" + map[bool]string{false: "pattern", true: "import-paths"}[mi%2 == 1])
		for pi, q := range pks {
			rd := func(rt string, ex int, log string) outcome {
				b, err := os.ReadFile(filepath.Join(rt, fmt.Sprintf("q%d", pi), "derived.gen.go"))
				return outcome{exit: ex, exists: err == nil, bytes: b, log: log}
			}
			a, s := rd(root, g.Exit, g.Out), rd(sroot, gs.Exit, gs.Out)
			if gs.Exit != 0 || g.Exit != 0 {
				// goderive stops at the first failing package, in unspecified package order (C08): only the
				// exit status is comparable
				if (gs.Exit != 0) != (g.Exit != 0) {
					col.meta.AddDirect(hx.Direct{Class: "c07-differs-from-scratch",
						What:  fmt.Sprintf("multi-package invocation %d: exit %d over old files, %d from scratch", mi, g.Exit, gs.Exit),
						Files: files(q.v, q.old, q.oldExists), Cmd: "goderive " + strings.Join(addr, " "), Output: hx.Truncate(g.Out, 1500)})
				}
				continue
			}
			v := q.v.inPackage(fmt.Sprintf("q%d", pi))
			col.observe(cfg, fmt.Sprintf("multi-package invocation %d, package q%d", mi, pi), v, q.old, q.oldExists, a, s)
		}
	})

	// the module histories (modules.go) run beside the crash points
	modulesDone := make(chan struct{})
	go func() {
		defer close(modulesDone)
		runModules(cfg, col, r)
	}()

	// crash points, in parallel, one directory per worker slot
	dirs := make(chan string, 16)
	for i := 0; i < 16; i++ {
		dirs <- filepath.Join(cfg.Work, fmt.Sprintf("crash%d", i))
	}
	hx.Parallel(len(jobs), 16, func(i int) {
		j := jobs[i]
		dir := <-dirs
		defer func() { dirs <- dir }()
		cut := j.src[:j.k]
		mode := (i + j.k) % 4
		a := runInModeFlags(cfg, dir, mode, j.flags, j.v, cut, true)
		_, cls := classifyOld(cut, true, j.v)
		fk := ""
		if len(j.flags) > 0 {
			fk = "under-flags/"
		}
		col.meta.CountSafe("crash-point/" + fk + j.which + "-output/" + cls)
		model := j.model && (len(j.flags) == 0 || srcUnchanged(pkgDir(dir, mode), j.v))
		col.observeCtx(cfg, fmt.Sprintf("derived.gen.go = first %d bytes of the %s output", j.k, j.which), j.v, cut, true, a, j.s, j.flags, model)
	})

	<-modulesDone

	runFixed(cfg, col.meta)

	lines := make([]string, 0, len(col.obs))
	for l := range col.obs {
		lines = append(lines, l)
	}
	sort.Strings(lines)
	obs := filepath.Join(cfg.Out, "c07.obs")
	if err := os.WriteFile(obs, []byte(strings.Join(lines, "\n")+"\n"), 0o644); err != nil {
		return nil, err
	}
	meta.ObsFiles = append(meta.ObsFiles, obs)
	meta.Packages = 0
	for _, h := range hists {
		meta.Packages += len(h.vers)
	}
	meta.GoderiveRuns = col.nrun + meta.Packages
	meta.Cases = len(lines)
	meta.Count(fmt.Sprintf("runs-observed=%d distinct-observations=%d crash-points=%d", col.nrun, len(lines), len(jobs)))
	for i, l := range lines {
		if i%(len(lines)/6+1) == 0 {
			meta.Sample(hx.Truncate(l, 300))
		}
	}
	return meta, nil
}

// parseCorpusVersion: a version of a corpus history is Go source preceded by header comments
//
//	//pkg: ((app sort 11 (app keys 0 (var 0 (map (base 0) (base 0))))))
//	//names: deriveKeys=0 deriveSort=11
func parseCorpusVersion(text string) (ver, error) {
	v := ver{names: map[string]int{}, kinds: map[string]int{}, types: map[string]int{"int": 0, "string": 1, "int64": 2, "float64": 3}}
	var src []string
	for _, line := range strings.Split(text, "\n") {
		switch {
		case strings.HasPrefix(line, "//pkg: "):
			v.pkg = strings.TrimPrefix(line, "//pkg: ")
		case strings.HasPrefix(line, "//names: "):
			for _, f := range strings.Fields(strings.TrimPrefix(line, "//names: ")) {
				var n int
				p := strings.SplitN(f, "=", 2)
				if len(p) != 2 {
					return v, fmt.Errorf("bad names entry %q", f)
				}
				fmt.Sscanf(p[1], "%d", &n)
				v.names[p[0]] = n
			}
		case strings.HasPrefix(line, "//sparse: "):
			fmt.Sscanf(strings.TrimPrefix(line, "//sparse: "), "%d", &v.sparse)
		case strings.HasPrefix(line, "//types: "):
			for _, f := range strings.Fields(strings.TrimPrefix(line, "//types: ")) {
				var n int
				p := strings.SplitN(f, "=", 2)
				if len(p) != 2 {
					return v, fmt.Errorf("bad types entry %q", f)
				}
				fmt.Sscanf(p[1], "%d", &n)
				v.types[p[0]] = n
			}
		default:
			src = append(src, line)
		}
	}
	if v.pkg == "" {
		return v, fmt.Errorf("missing //pkg: header")
	}
	v.src = strings.TrimLeft(strings.Join(src, "\n"), "\n")
	if !strings.HasSuffix(v.src, "\n") {
		v.src += "\n"
	}
	return v, nil
}
