// Package c07: correspondence harness of C07 (stub: replaced when C07 is built).
package c07

import (
	"fmt"

	"verifharness/internal/hx"
)

func Run(cfg hx.Config) (*hx.Meta, error) {
	return nil, fmt.Errorf("C07: harness not built yet")
}
