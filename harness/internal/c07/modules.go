package c07

import (
	"bytes"
	"fmt"
	"os"
	"path/filepath"
	"sort"
	"strings"

	"verifharness/internal/hx"
)

// Edit histories over MODULES: several packages that import each other, where the type of an argument of a
// derive call in one package is decided by what goderive generates for another package of the same run
// ("types that flow from one derive call into another", across a package boundary):
//
//	store:  var Index map[K]V ; var Ids = deriveKeys(Index)            (type of Ids: []K, from generated code)
//	mid:    var Current = store.Ids                                    (0..2 such hops, with or without calls)
//	app:    var Local = deriveSet(mid.Current)                         (deriveSet([]K))
//
// One invocation names several packages of the module (./..., relative paths in either order, import paths,
// mixed; with or without the packages in between).  After each edit (K retyped, ...) goderive runs ONCE over
// the module that still holds the derived.gen.go files of the previous version; every package's file is
// compared with the one the same command leaves in a fresh copy of the module, the module is type-checked
// (go vet ./...), a second run must change nothing.  Old states besides the previous output: cut-off remnants
// of it in the imported and in the importing package (also inside the package name of the clause: the module's
// packages have long names and files that sort behind derived.gen.go), an old file in only one of them.
//
// Every package of the run is also reported to the evaluator as a (regen PKG OLD REAL SAME CTX) line: PKG is
// the package with the TRUE types of the variables it reads from other packages.

type modPkg struct {
	name  string            // directory = package name
	files map[string]string // file name -> source (never derived.gen.go)
	v     ver               // abstract package, names and types for the oracle (src unused)
	calls bool              // the package has derive calls
	inRun bool              // the invocation names it
	ctx   string
}

type modVersion struct {
	pkgs []modPkg // in dependency order: a package follows those it imports
}

type modHist struct {
	name string
	args []string
	vers []modVersion
	desc []string
}

type modShape struct {
	hops      int  // packages without derive calls between store and app (mid, mid2)
	midCalls  bool // mid derives from store.Ids itself (then it is always part of the run)
	nested    bool // store: deriveKeysA(deriveSet(deriveKeys(Index)))
	extTest   bool // store has an external test package
	appOwn    int  // 0 none, 1 flat, 2 nested own call in app on a variable of its own
	importers int  // 1..3 packages importing (app, app2, app3)
	lone      bool // an unrelated package with a call of its own
	argsForm  int  // 0 ./...  1 relative, importers first  2 relative, store first  3 import paths  4 mixed
	appFile   string
	direct    bool // app also imports store directly (diamond) when hops > 0
}

type modParams struct {
	k, v     int  // key and value type of store.Index
	k2       int  // key type of app's own variable
	storeGen bool // store derives Ids (false: declared by hand)
	appCall  bool // app still has its cross-package call
}

var modK = []int{1, 0, 2}    // string, int, int64
var modV = []int{0, 1, 3, 2} // int, string, float64, int64
var modK2 = []int{3, 10, 11} // float64, N0, N1 (disjoint from modK: one name per (plugin, type))

func mapSexp(k, v string) string { return "(map " + k + " " + v + ")" }
func baseSexp(n int) string      { return fmt.Sprintf("(base %d)", n) }

func stdTypes() map[string]int {
	return map[string]int{"int": 0, "string": 1, "int64": 2, "float64": 3}
}

func (sh modShape) version(p modParams) modVersion {
	K, V := baseNames[p.k], baseNames[p.v]
	ks, vs := baseSexp(p.k), baseSexp(p.v)
	var mv modVersion
	// ---- store
	{
		src := "package store\n\n// Index is what the other packages are about.\nvar Index map[" + K + "]" + V + "\n\n"
		pk := "()"
		names := map[string]int{}
		switch {
		case !p.storeGen:
			src += "// Ids is maintained by hand.\nvar Ids []" + K + "\n"
		case sh.nested:
			src += "// Ids: its type follows the key type of Index.\nvar Ids = deriveKeysA(deriveSet(deriveKeys(Index)))\n"
			pk = fmt.Sprintf("((app keys %d (app set %d (app keys %d (var 0 %s)))))", nameID(kKeys, 1), nameID(kSet, 0), nameID(kKeys, 0), mapSexp(ks, vs))
			names = map[string]int{"deriveKeysA": nameID(kKeys, 1), "deriveSet": nameID(kSet, 0), "deriveKeys": nameID(kKeys, 0)}
		default:
			src += "// Ids: its type follows the key type of Index.\nvar Ids = deriveKeys(Index)\n"
			pk = fmt.Sprintf("((app keys %d (var 0 %s)))", nameID(kKeys, 0), mapSexp(ks, vs))
			names = map[string]int{"deriveKeys": nameID(kKeys, 0)}
		}
		files := map[string]string{"store.go": src}
		if sh.extTest {
			files["store_ext_test.go"] = "package store_test\n"
		}
		mv.pkgs = append(mv.pkgs, modPkg{name: "store", files: files, calls: p.storeGen, ctx: "module-imported",
			v: ver{pkg: pk, names: names, types: stdTypes()}})
	}
	// ---- the packages in between
	last := "store.Ids"
	lastImp := "p/store"
	if sh.midCalls {
		src := "package mid\n\nimport \"p/store\"\n\nvar Current = deriveKeys(deriveSet(store.Ids))\n"
		pk := fmt.Sprintf("((app keys %d (app set %d (var 1 (slice %s)))))", nameID(kKeys, 0), nameID(kSet, 0), ks)
		mv.pkgs = append(mv.pkgs, modPkg{name: "mid", files: map[string]string{"mid.go": src}, calls: true, ctx: "module-importer-imported",
			v: ver{pkg: pk, names: map[string]int{"deriveKeys": nameID(kKeys, 0), "deriveSet": nameID(kSet, 0)}, types: stdTypes()}})
		last, lastImp = "mid.Current", "p/mid"
	} else {
		for h := 0; h < sh.hops; h++ {
			name := []string{"mid", "mid2"}[h]
			src := "// Package " + name + " has no derive calls.\npackage " + name + "\n\nimport \"" + lastImp + "\"\n\nvar Current = " + last + "\n"
			mv.pkgs = append(mv.pkgs, modPkg{name: name, files: map[string]string{name + ".go": src}, ctx: "module-between",
				v: ver{pkg: "()", names: map[string]int{}, types: stdTypes()}})
			last, lastImp = name+".Current", "p/"+name
		}
	}
	// ---- the importers
	for i := 0; i < sh.importers; i++ {
		name := []string{"app", "app2", "app3"}[i]
		use, imp := last, lastImp
		if i > 0 { // the other importers read store directly
			use, imp = "store.Ids", "p/store"
		}
		imports := "import \"" + imp + "\"\n\n"
		body := ""
		var pk []string
		names := map[string]int{}
		types := stdTypes()
		if p.appCall || i > 0 {
			body += "var Local = deriveSet(" + use + ")\n\n"
			pk = append(pk, fmt.Sprintf("(app set %d (var 1 (slice %s)))", nameID(kSet, 0), ks))
			names["deriveSet"] = nameID(kSet, 0)
		} else {
			body += "var Local = len(" + use + ")\n\n"
		}
		if i == 0 && sh.direct && imp != "p/store" {
			imports = "import (\n\t\"" + imp + "\"\n\t\"p/store\"\n)\n\n"
			body += "var Size = len(store.Index)\n\n"
		}
		if i == 0 && sh.appOwn > 0 {
			K2 := baseNames[p.k2]
			if u, ok := namedUnder[p.k2]; ok {
				body += "type " + K2 + " " + u + "\n\n"
				types[K2] = p.k2
			}
			body += "var own map[" + K2 + "][]string\n\n"
			own := fmt.Sprintf("(var 2 %s)", mapSexp(baseSexp(p.k2), "(slice (base 1))"))
			if sh.appOwn == 2 {
				body += "var _ = deriveSetC(deriveKeysB(own))\n"
				pk = append(pk, fmt.Sprintf("(app set %d (app keys %d %s))", nameID(kSet, 3), nameID(kKeys, 2), own))
				names["deriveSetC"] = nameID(kSet, 3)
			} else {
				body += "var _ = deriveKeysB(own)\n"
				pk = append(pk, fmt.Sprintf("(app keys %d %s)", nameID(kKeys, 2), own))
			}
			names["deriveKeysB"] = nameID(kKeys, 2)
		}
		file := name + ".go"
		if i == 0 {
			file = sh.appFile
		}
		mv.pkgs = append(mv.pkgs, modPkg{name: name, files: map[string]string{file: "package " + name + "\n\n" + imports + body},
			calls: len(pk) > 0, ctx: "module-importer", v: ver{pkg: "(" + strings.Join(pk, " ") + ")", names: names, types: types}})
	}
	if sh.lone {
		mv.pkgs = append(mv.pkgs, modPkg{name: "lone", files: map[string]string{"types.go": "package lone\n\nvar m map[string]int\n\nvar _ = deriveKeys(m)\n"},
			calls: true, ctx: "module-unrelated",
			v: ver{pkg: fmt.Sprintf("((app keys %d (var 0 (map (base 1) (base 0)))))", nameID(kKeys, 0)), names: map[string]int{"deriveKeys": nameID(kKeys, 0)}, types: stdTypes()}})
	}
	return mv
}

// args: how the invocation names the packages; marks the packages of the run.
func (sh modShape) args(mv *modVersion) []string {
	named := func(p modPkg) bool { return p.ctx != "module-between" }
	var imps, rest []string
	for _, p := range mv.pkgs {
		if !named(p) {
			continue
		}
		if p.ctx == "module-importer" {
			imps = append(imps, p.name)
		} else {
			rest = append(rest, p.name)
		}
	}
	var args []string
	switch sh.argsForm {
	case 0:
		for i := range mv.pkgs {
			mv.pkgs[i].inRun = true
		}
		return []string{"./..."}
	case 1:
		for _, n := range append(imps, rest...) {
			args = append(args, "./"+n)
		}
	case 2:
		for _, n := range append(rest, imps...) {
			args = append(args, "./"+n)
		}
	case 3:
		for _, n := range append(imps, rest...) {
			args = append(args, "p/"+n)
		}
	default:
		for i, n := range append(imps, rest...) {
			args = append(args, []string{"./", "p/"}[i%2]+n)
		}
	}
	for i := range mv.pkgs {
		mv.pkgs[i].inRun = named(mv.pkgs[i])
	}
	return args
}

func genModHist(r *hx.Rand, i, nver int) modHist {
	// the first eight shapes are fixed along the dimensions that decide which code of goderive runs
	// (how the packages are named, what lies between importer and imported), the rest is random
	table := []modShape{
		{hops: 1, argsForm: 1},                              // importer reaches the imported package only through a package outside the run
		{hops: 0, argsForm: 0},                              // ./...
		{hops: 0, argsForm: 2, appOwn: 2},                   // relative paths, the importer has a nested call of its own that is retyped
		{hops: 0, argsForm: 3},                              // import paths
		{hops: 0, argsForm: 0, extTest: true, importers: 3}, // external test package next to the imported package, three importers
		{midCalls: true, argsForm: 0},                       // the type crosses two package boundaries through generated code
		{hops: 2, argsForm: 2, direct: true},                // two packages outside the run in between, and a direct import as well
		{hops: 1, argsForm: 4, appOwn: 1},                   // one relative, one by import path
	}
	var sh modShape
	if i < len(table) {
		sh = table[i]
		sh.nested = r.Intn(2) == 0
		sh.lone = r.Intn(3) == 0
	} else {
		sh = modShape{hops: r.Intn(3), midCalls: r.Intn(4) == 0, nested: r.Intn(2) == 0, extTest: r.Intn(4) == 0,
			appOwn: r.Intn(3), importers: 1 + r.Intn(3), lone: r.Intn(3) == 0, argsForm: r.Intn(5), direct: r.Intn(3) == 0}
	}
	if sh.importers == 0 {
		sh.importers = 1 + r.Intn(5)/4
	}
	if sh.midCalls {
		sh.hops = 0
	}
	sh.appFile = hx.Pick(r, []string{"app.go", "main.go", "use.go"})
	p := modParams{k: hx.Pick(r, modK), v: hx.Pick(r, modV), k2: hx.Pick(r, modK2), storeGen: true, appCall: true}
	other := func(l []int, cur int) int {
		for {
			if n := hx.Pick(r, l); n != cur {
				return n
			}
		}
	}
	h := modHist{name: fmt.Sprintf("module%d", i)}
	for si := 0; si < nver; si++ {
		d := "initial"
		if si == 1 { // the edit everything here is about: the key type of store.Index
			p.k = other(modK, p.k)
			d = "retype-imported-key"
			if sh.appOwn > 0 {
				p.k2 = other(modK2, p.k2)
				d += "+retype-own-key"
			}
		} else if si > 1 {
			switch c := r.Intn(8); {
			case c < 2:
				p.k = other(modK, p.k)
				d = "retype-imported-key"
			case c == 2:
				p.v = other(modV, p.v)
				d = "retype-imported-value"
			case c == 3 && sh.appOwn > 0:
				p.k2 = other(modK2, p.k2)
				d = "retype-own-key"
			case c == 4:
				p.storeGen = !p.storeGen
				p.k = other(modK, p.k)
				d = map[bool]string{true: "imported-derives-again+retype", false: "imported-stops-deriving+retype"}[p.storeGen]
			case c == 5:
				p.appCall = !p.appCall
				p.k = other(modK, p.k)
				d = map[bool]string{true: "importer-call-back+retype", false: "importer-call-removed+retype"}[p.appCall]
			default:
				p.k = other(modK, p.k)
				p.v = other(modV, p.v)
				d = "retype-imported-key-and-value"
			}
		}
		mv := sh.version(p)
		h.args = sh.args(&mv)
		h.vers = append(h.vers, mv)
		h.desc = append(h.desc, d)
	}
	return h
}

// ---------- running ----------

// moduleDirect: at most four direct records per class from the module histories (one seeded change shows in dozens of
// old states; the observations keep them all).
func (c *collector) moduleDirect(class string) bool {
	c.mu.Lock()
	defer c.mu.Unlock()
	if c.modDirect == nil {
		c.modDirect = map[string]int{}
	}
	c.modDirect[class]++
	return c.modDirect[class] <= 4
}

type modState map[string][]byte // package name -> derived.gen.go (absent: no entry)

func writeModule(root string, mv modVersion, old modState) {
	os.RemoveAll(root)
	os.MkdirAll(root, 0o755)
	hx.Module(root)
	for _, p := range mv.pkgs {
		d := filepath.Join(root, p.name)
		os.MkdirAll(d, 0o755)
		for f, s := range p.files {
			os.WriteFile(filepath.Join(d, f), []byte(s), 0o644)
		}
		if b, ok := old[p.name]; ok {
			os.WriteFile(filepath.Join(d, "derived.gen.go"), b, 0o644)
		}
	}
}

func readModule(root string, mv modVersion) modState {
	st := modState{}
	for _, p := range mv.pkgs {
		if b, err := os.ReadFile(filepath.Join(root, p.name, "derived.gen.go")); err == nil {
			st[p.name] = b
		}
	}
	return st
}

func goderiveRetry(cfg hx.Config, root string, mv modVersion, old modState, args []string) hx.RunResult {
	var g hx.RunResult
	for attempt := 0; attempt < 3; attempt++ {
		writeModule(root, mv, old)
		g = goderiveRun(cfg, root, args...)
		if !g.TimedOut && g.Exit != -2 {
			break
		}
	}
	return g
}

func modFiles(mv modVersion, old modState) map[string]string {
	fs := map[string]string{"go.mod": "module p\n\ngo 1.24\n"}
	for _, p := range mv.pkgs {
		for f, s := range p.files {
			fs[p.name+"/"+f] = s
		}
		if b, ok := old[p.name]; ok {
			fs[p.name+"/derived.gen.go (before the run)"] = string(b)
		}
	}
	return fs
}

func runModules(cfg hx.Config, col *collector, r *hx.Rand) {
	nh, nver := 8, 3
	if cfg.Tier == "thorough" {
		nh, nver = 20, 4
	}
	hists := make([]modHist, nh)
	for i := range hists {
		hists[i] = genModHist(r.Fork(uint64(5000+i)), i, nver)
	}
	hx.Parallel(nh, 8, func(hi int) {
		h := hists[hi]
		cmd := "goderive " + strings.Join(h.args, " ") + "  (in the module root)"
		col.meta.CountSafe("module/invocation/" + strings.Join(h.args, " "))
		base := filepath.Join(cfg.Work, fmt.Sprintf("mod%d", hi))
		prev := modState{}
		for si, mv := range h.vers {
			where := fmt.Sprintf("%s step %d (%s)", h.name, si, h.desc[si])
			col.meta.CountSafe("module/edit/" + h.desc[si])
			// from scratch, same command
			sroot := base + "-scratch"
			gs := goderiveRetry(cfg, sroot, mv, nil, h.args)
			S := readModule(sroot, mv)
			// the sources are fine: one package per run, in dependency order, generates and type-checks
			if gs.Exit != 0 {
				rroot := base + "-ref"
				writeModule(rroot, mv, nil)
				ok := true
				for _, p := range mv.pkgs {
					if p.calls && goderiveRun(cfg, rroot, "./"+p.name).Exit != 0 {
						ok = false
					}
				}
				if ok && vetRun(rroot, "", "./...").Exit == 0 {
					col.meta.AddDirect(hx.Direct{Class: "c07-scratch-run-fails",
						What:  where + ": one run over the module without any derived.gen.go fails, although one run per package (dependencies first) generates everything and the module type-checks",
						Files: modFiles(mv, nil), Cmd: cmd, Output: hx.Truncate(gs.Out, 1500)})
				}
				os.RemoveAll(rroot)
			}
			// old states
			type oldT struct {
				what string
				st   modState
			}
			olds := []oldT{{"the files of the previous version", prev}}
			cutOf := func(name string, ks []int) {
				b, ok := prev[name]
				if !ok {
					return
				}
				seen := map[int]bool{}
				for _, k := range ks {
					if k < 0 {
						k += len(b)
					}
					if k < 0 || k > len(b) || seen[k] {
						continue
					}
					seen[k] = true
					st := modState{}
					for n, x := range prev {
						st[n] = x
					}
					st[name] = b[:k]
					olds = append(olds, oldT{fmt.Sprintf("%s/derived.gen.go = first %d bytes of the previous output, the other files of the previous version", name, k), st})
				}
			}
			if si > 0 {
				full := cfg.Tier == "thorough"
				pick := func(quick, thorough []int) []int {
					if full {
						return thorough
					}
					return quick
				}
				n := len(prev["store"])
				cutOf("store", pick([]int{0, 53, 55, n / 2}, []int{0, 20, 52, 53, 54, 55, 56, 57, n / 2, -1}))
				n = len(prev["app"])
				cutOf("app", pick([]int{54, n / 2}, []int{0, 53, 54, 55, n / 2, -1}))
				cutOf("mid", pick([]int{54}, []int{54, len(prev["mid"]) / 2}))
				for _, only := range []string{"store", "app"} {
					if b, ok := prev[only]; ok && len(prev) > 1 {
						olds = append(olds, oldT{"only " + only + " still has its derived.gen.go of the previous version", modState{only: b}})
					}
				}
				// the new output cut off (an interrupted write of this very version)
				for ni, name := range []string{"store", "app"} {
					if b, ok := S[name]; ok && gs.Exit == 0 {
						for _, k := range pick([]int{[]int{54, len(b) / 2}[ni]}, []int{53, 54, len(b) / 2}) {
							if k <= len(b) {
								st := modState{}
								for n, x := range prev {
									st[n] = x
								}
								st[name] = b[:k]
								olds = append(olds, oldT{fmt.Sprintf("%s/derived.gen.go = first %d bytes of the NEW output, the other files of the previous version", name, k), st})
							}
						}
					}
				}
			}
			var next modState
			for oi, o := range olds {
				root := base
				if oi > 0 {
					root = base + "-old"
				}
				g := goderiveRetry(cfg, root, mv, o.st, h.args)
				A := readModule(root, mv)
				col.meta.CountSafe("module/old-state/" + map[bool]string{true: "previous-version", false: "cut-or-partial"}[oi == 0])
				bothFail := g.Exit != 0 && gs.Exit != 0
				reported := false
				for _, p := range mv.pkgs {
					a, aex := A[p.name]
					s, sex := S[p.name]
					same := bothFail || (g.Exit == 0 && gs.Exit == 0 && aex == sex && bytes.Equal(a, s))
					if !p.inRun {
						// not part of the run: goderive must leave its file alone (it has none here)
						if _, had := o.st[p.name]; !had && aex {
							same = false
						} else {
							continue
						}
					}
					ob, oex := o.st[p.name]
					oldS, _ := classifyOld(ob, oex, p.v)
					sm := 0
					if same {
						sm = 1
					}
					col.add(fmt.Sprintf("(regen %s %s %s %d %s)", p.v.pkg, oldS, parseReal(g.Exit, a, aex, p.v), sm, p.ctx))
					col.mu.Lock()
					col.nrun++
					col.mu.Unlock()
					if !same && !reported && col.moduleDirect("differs") {
						reported = true
						fs := modFiles(mv, o.st)
						fs[p.name+"/derived.gen.go (after the run)"] = string(a)
						fs[p.name+"/derived.gen.go (from scratch)"] = string(s)
						col.meta.AddDirect(hx.Direct{Class: "c07-differs-from-scratch",
							What:  fmt.Sprintf("%s, old state: %s: one goderive run over the module does not leave the from-scratch result in package %s (exit %d vs %d from scratch)", where, o.what, p.name, g.Exit, gs.Exit),
							Files: fs, Cmd: cmd, Output: hx.Truncate(g.Out, 1500)})
					}
				}
				if oi == 0 {
					next = A
					if g.Exit == 0 && gs.Exit == 0 {
						if vet := vetRun(root, "", "./..."); vet.Exit != 0 && col.moduleDirect("vet") {
							fs := modFiles(mv, o.st)
							for n, b := range A {
								fs[n+"/derived.gen.go (after the run)"] = string(b)
							}
							col.meta.AddDirect(hx.Direct{Class: "c07-vet-fails",
								What:  where + ": goderive exit 0 but the module does not type-check",
								Files: fs, Cmd: cmd + " && go vet ./...", Output: hx.Truncate(vet.Out, 1500)})
						}
						g2 := goderiveRun(cfg, root, h.args...)
						A2 := readModule(root, mv)
						changed := g2.Exit != 0 || len(A2) != len(A)
						for n, b := range A {
							if b2, ok := A2[n]; !ok || !bytes.Equal(b, b2) {
								changed = true
							}
						}
						if changed && col.moduleDirect("second") {
							fs := modFiles(mv, o.st)
							for n, b := range A {
								fs[n+"/derived.gen.go (after run 1)"] = string(b)
							}
							for n, b := range A2 {
								fs[n+"/derived.gen.go (after run 2)"] = string(b)
							}
							col.meta.AddDirect(hx.Direct{Class: "c07-second-run-changes",
								What:  fmt.Sprintf("%s: a second goderive run over the module changes a derived.gen.go (exit %d)", where, g2.Exit),
								Files: fs, Cmd: cmd + " (twice)", Output: hx.Truncate(g2.Out, 1500)})
						}
					}
				}
			}
			// the next step starts from whatever is on disk now
			prev = next
			os.RemoveAll(base + "-old")
			os.RemoveAll(sroot)
		}
		os.RemoveAll(base)
	})
	var shapes []string
	for _, h := range hists {
		shapes = append(shapes, h.name+": "+strings.Join(h.args, " "))
	}
	sort.Strings(shapes)
	col.meta.Sample("module histories: " + hx.Truncate(strings.Join(shapes, "; "), 400))
}
