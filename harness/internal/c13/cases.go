package c13

import (
	"fmt"
	"strings"

	"verifharness/internal/ga"
	"verifharness/internal/hx"
)

// cases accumulates the driver input of one batch ("op idx args...", one call per line) and what
// the second phase needs to know about each line.
type cases struct {
	r        *hx.Rand
	gen      *ga.Gen
	thorough bool
	meta     *hx.Meta
	text     strings.Builder
	info     []caseInfo
}

func (c *cases) line(ci caseInfo, format string, args ...interface{}) {
	fmt.Fprintf(&c.text, format+"\n", args...)
	c.info = append(c.info, ci)
}

func slice(loc int, elems, spare []*ga.Val) *ga.Val {
	return &ga.Val{K: "sl", Loc: loc, Elems: elems, Spare: spare}
}

// lists builds the boundary-biased lists over a pool of element values: nil, empty, singletons,
// duplicates (identical and Equal-but-not-identical), the pool in both directions, spare
// capacity, random longer lists with repetitions.
func (c *cases) lists(vals []*ga.Val) (out []*ga.Val, seeds []bool) {
	g := c.gen
	add := func(seed bool, v *ga.Val) { out = append(out, v); seeds = append(seeds, seed) }
	v0 := vals[0]
	vl := vals[len(vals)-1]
	v1 := vals[len(vals)/2]
	add(false, &ga.Val{K: "nils"})
	add(false, slice(g.Fresh(), nil, nil))
	add(false, slice(g.Fresh(), []*ga.Val{v0}, nil))
	add(false, slice(g.Fresh(), []*ga.Val{vl}, []*ga.Val{v0}))
	add(false, slice(g.Fresh(), []*ga.Val{v1, v0, v1, v0}, nil))                              // identical duplicates
	add(false, slice(g.Fresh(), []*ga.Val{vl, vl.Clone(g.Fresh), v0, vl.Clone(g.Fresh)}, nil)) // Equal, not identical
	add(false, slice(g.Fresh(), []*ga.Val{v0, v0, v0}, nil))
	add(false, slice(g.Fresh(), []*ga.Val{v1, vl}, nil))
	add(false, slice(g.Fresh(), []*ga.Val{vl, v1}, nil))
	all := append([]*ga.Val{}, vals...)
	add(true, slice(g.Fresh(), all, nil))
	rev := make([]*ga.Val, len(vals))
	for i, v := range vals {
		rev[len(vals)-1-i] = v
	}
	add(false, slice(g.Fresh(), rev, []*ga.Val{v1}))
	nrand, maxlen := 3, 9
	if c.thorough {
		nrand, maxlen = 8, 40
	}
	for k := 0; k < nrand; k++ {
		n := 3 + c.r.Intn(maxlen-2)
		var es []*ga.Val
		for i := 0; i < n; i++ {
			v := hx.Pick(c.r, vals)
			if c.r.Intn(4) == 0 {
				v = v.Clone(g.Fresh)
			}
			es = append(es, v)
		}
		add(k == 0, slice(g.Fresh(), es, nil))
	}
	// sort.Slice switches from insertion sort to pdqsort above 12 elements: one list beyond that
	// in every tier (heap sort / ninther paths need far longer lists: thorough only)
	long := []int{13 + c.r.Intn(8)}
	if c.thorough {
		long = append(long, 50+c.r.Intn(30))
	}
	for _, n := range long {
		var es []*ga.Val
		for i := 0; i < n; i++ {
			es = append(es, hx.Pick(c.r, vals))
		}
		add(false, slice(g.Fresh(), es, nil))
	}
	return
}

func (c *cases) forType(idx int, t *ga.Type, vals []*ga.Val, doSort, doMinMax, doKeys bool) {
	if len(vals) == 0 {
		return
	}
	if doSort || doMinMax {
		ls, seeds := c.lists(vals)
		for i, l := range ls {
			def := vals[(i*3+1)%len(vals)]
			if len(l.Elems) == 0 {
				def = vals[len(vals)-1] // not the zero value: the default must come back, not T{}
			}
			ci := caseInfo{idx: idx, def: def.Sexp()}
			if doSort {
				ci2 := ci
				ci2.seedSort = seeds[i]
				c.line(ci2, "sort %d %s", idx, l.Sexp())
				c.meta.CountSafe("calls/sort")
			}
			if doMinMax {
				c.line(ci, "min+ %d %s %s", idx, l.Sexp(), def.Sexp())
				c.line(ci, "max+ %d %s %s", idx, l.Sexp(), def.Sexp())
				c.meta.CountSafe("calls/min")
				c.meta.CountSafe("calls/max")
			}
			c.meta.CountSafe(fmt.Sprintf("list-length/%s", lenClass(len(l.Elems))))
		}
	}
	if doMinMax {
		var pairs [][2]*ga.Val
		if len(vals) <= 7 {
			for _, a := range vals {
				for _, b := range vals {
					pairs = append(pairs, [2]*ga.Val{a, b})
				}
			}
		} else {
			for k := 0; k < 40; k++ {
				pairs = append(pairs, [2]*ga.Val{hx.Pick(c.r, vals), hx.Pick(c.r, vals)})
			}
			for _, a := range vals {
				pairs = append(pairs, [2]*ga.Val{a, a})
			}
		}
		for _, a := range vals[:min(3, len(vals))] {
			pairs = append(pairs, [2]*ga.Val{a, a.Clone(c.gen.Fresh)}) // Equal, distinct addresses
		}
		for _, p := range pairs {
			c.line(caseInfo{idx: idx}, "min2+ %d %s %s", idx, p[0].Sexp(), p[1].Sexp())
			c.line(caseInfo{idx: idx}, "max2+ %d %s %s", idx, p[0].Sexp(), p[1].Sexp())
			c.meta.CountSafe("calls/min2")
			c.meta.CountSafe("calls/max2")
		}
	}
	if doKeys {
		for _, m := range vals {
			c.line(caseInfo{idx: idx}, "keys+ %d %s", idx, m.Sexp())
			c.meta.CountSafe("calls/keys")
		}
		for _, m := range c.bigMaps(t) {
			c.line(caseInfo{idx: idx}, "keys+ %d %s", idx, m.Sexp())
			c.meta.CountSafe("calls/keys")
			c.meta.CountSafe("calls/keys-big-map")
		}
	}
}

func lenClass(n int) string {
	switch {
	case n <= 2:
		return fmt.Sprintf("%d", n)
	case n <= 4:
		return "3-4"
	case n <= 9:
		return "5-9"
	case n <= 12:
		return "10-12"
	case n <= 50:
		return "13-50"
	}
	return "51+"
}

// canon of a key value (keys are pointer-free): -0 is mapped to +0 so that two keys are == in Go
// exactly when their canonical texts agree.
func canon(v *ga.Val) string {
	c := *v
	if c.K == "f" && c.Mag == 0 {
		c.Neg = false
	}
	if c.K == "c" {
		if c.Mag == 0 {
			c.Neg = false
		}
		if c.IMag == 0 {
			c.INeg = false
		}
	}
	if len(c.Elems) > 0 {
		var parts []string
		for _, e := range c.Elems {
			parts = append(parts, canon(e))
		}
		return "(" + c.K + " " + strings.Join(parts, " ") + ")"
	}
	c.Elems = nil
	return c.Sexp()
}

// bigMaps: maps with as many pairwise different keys as the key pool gives (plus synthesised
// integer / string keys), so that the runtime's iteration order is really a permutation.
func (c *cases) bigMaps(t *ga.Type) []*ga.Val {
	m := mapOf(t)
	env := map[int]*ga.Type{}
	if t.K == ga.KNamed {
		env[t.ID] = t
	}
	g := ga.NewGen(c.r, 0)
	kp := g.Pool(m.Key, env, 2)
	ku := m.Key.Under(env)
	nextra := 12
	if c.thorough {
		nextra = 60
	}
	if ku.K == ga.KBasic {
		for i := 0; i < nextra; i++ {
			switch ku.Basic {
			case "int", "int64", "int32", "uint64", "uint", "uint32":
				kp = append(kp, &ga.Val{K: "i", Int: fmt.Sprint(1000 + 37*i)})
			case "string":
				kp = append(kp, &ga.Val{K: "s", Str: []byte(fmt.Sprintf("key%03d", (i*7)%101))})
			}
		}
	}
	var keys []*ga.Val
	seen := map[string]bool{}
	for _, k := range kp {
		if s := canon(k); !seen[s] {
			seen[s] = true
			keys = append(keys, k)
		}
	}
	vp := c.gen.Pool(m.Elem, env, 1)
	mk := func(ks []*ga.Val) *ga.Val {
		mv := &ga.Val{K: "m", Loc: c.gen.Fresh()}
		for _, k := range ks {
			mv.KVs = append(mv.KVs, [2]*ga.Val{k, hx.Pick(c.r, vp).Clone(c.gen.Fresh)})
		}
		return mv
	}
	out := []*ga.Val{mk(keys)}
	if len(keys) > 4 {
		sh := append([]*ga.Val{}, keys...)
		hx.Shuffle(c.r, sh)
		out = append(out, mk(sh[:len(sh)/2+1]), mk(sh))
	}
	return out
}

// ---------- second phase ----------

// splitTop returns the top-level items of a parenthesised list "(a (b c) d)" -> ["a", "(b c)", "d"].
func splitTop(s string) []string {
	s = strings.TrimSpace(s)
	if len(s) < 2 || s[0] != '(' || s[len(s)-1] != ')' {
		return nil
	}
	s = s[1 : len(s)-1]
	var out []string
	depth, start := 0, -1
	for i := 0; i < len(s); i++ {
		ch := s[i]
		switch {
		case ch == '(':
			if depth == 0 && start < 0 {
				start = i
			}
			depth++
		case ch == ')':
			depth--
			if depth == 0 {
				out = append(out, s[start:i+1])
				start = -1
			}
		case ch == ' ' || ch == '\t':
			if depth == 0 && start >= 0 {
				out = append(out, s[start:i])
				start = -1
			}
		default:
			if start < 0 {
				start = i
			}
		}
	}
	if start >= 0 {
		out = append(out, s[start:])
	}
	return out
}

// secondPhase builds, from the sort results of the seeding lines, the sorted list and its reversal
// as new inputs of sort, min and max.
func (c *cases) secondPhase(stdout string, doMinMax bool) string {
	lines := strings.Split(strings.TrimRight(stdout, "\n"), "\n")
	if len(lines) != len(c.info) {
		return ""
	}
	var b strings.Builder
	for i, ci := range c.info {
		if !ci.seedSort {
			continue
		}
		items := splitTop(lines[i])
		if len(items) != 4 || items[0] != "sort" {
			continue
		}
		ret := splitTop(items[3])
		if len(ret) != 2 || ret[0] != "ret" {
			continue
		}
		sl := splitTop(ret[1])
		if len(sl) != 4 || sl[0] != "sl" {
			continue
		}
		es := splitTop(sl[2])
		if len(es) < 2 {
			continue
		}
		rev := make([]string, len(es))
		for k, e := range es {
			rev[len(es)-1-k] = e
		}
		for _, l := range []string{"(sl 1 (" + strings.Join(es, " ") + ") ())", "(sl 1 (" + strings.Join(rev, " ") + ") ())"} {
			fmt.Fprintf(&b, "sort %d %s\n", ci.idx, l)
			c.meta.CountSafe("calls/sort-second-phase")
			if doMinMax {
				fmt.Fprintf(&b, "min+ %d %s %s\n", ci.idx, l, ci.def)
				fmt.Fprintf(&b, "max+ %d %s %s\n", ci.idx, l, ci.def)
				c.meta.CountSafe("calls/minmax-second-phase")
			}
		}
	}
	return b.String()
}
