// Package c13: correspondence harness of C13 (stub: replaced when C13 is built).
package c13

import (
	"fmt"

	"verifharness/internal/hx"
)

func Run(cfg hx.Config) (*hx.Meta, error) {
	return nil, fmt.Errorf("C13: harness not built yet")
}
