// Package c13: derived Sort / Keys / Min / Max on real inputs vs the models of
// coq/theories/Ord/Model.v and the specification predicates (coq/theories/Eval13.v).
//
// Element types T come from the shared catalogue (internal/ga); every T is wrapped as []T for
// deriveSort / deriveMin / deriveMax (list form with default, and the two-value form on T
// itself); deriveKeys is called on every T whose underlying type is a map.  The flow is the one
// of ga.ValueRun (probe every type, batch the accepted ones, one driver per batch), extended by
// per-group probing (a type may be usable for Sort but not for Min/Max) and by a second driver
// phase whose inputs are the outputs of the first (already sorted and reversed lists).
package c13

import (
	"fmt"
	"os"
	"path/filepath"
	"sort"
	"strings"
	"sync"

	"verifharness/internal/ga"
	"verifharness/internal/hx"
)

var (
	byGoMu sync.Mutex
	byGo   = map[string]*ga.Type{}
)

func lookup(tgo string) *ga.Type {
	byGoMu.Lock()
	defer byGoMu.Unlock()
	return byGo[tgo]
}

func mapOf(t *ga.Type) *ga.Type {
	if t == nil {
		return nil
	}
	u := t.Under(map[int]*ga.Type{})
	if u != nil && u.K == ga.KMap {
		return u
	}
	return nil
}

func wrap(op, format string, nT int) ga.Call {
	return ga.Call{
		Op: op,
		Wrap: func(idx int, tgo string) string {
			args := []interface{}{idx}
			for i := 0; i < nT; i++ {
				args = append(args, tgo)
			}
			args = append(args, idx)
			return fmt.Sprintf(format, args...)
		},
		WrapFn: func(idx int) string { return fmt.Sprintf("%s_%d", op, idx) },
	}
}

var (
	callSort = wrap("sort", "func sort_%d(l []%s) []%s { return deriveSort_%d(l) }\n", 2)
	callMin  = wrap("min", "func min_%d(l []%s, d %s) %s { return deriveMin_%d(l, d) }\n", 3)
	callMax  = wrap("max", "func max_%d(l []%s, d %s) %s { return deriveMax_%d(l, d) }\n", 3)
	callMin2 = wrap("min2", "func min2_%d(a, b %s) %s { return deriveMin2_%d(a, b) }\n", 2)
	callMax2 = wrap("max2", "func max2_%d(a, b %s) %s { return deriveMax2_%d(a, b) }\n", 2)
	callKeys = ga.Call{
		Op: "keys",
		Wrap: func(idx int, tgo string) string {
			if m := mapOf(lookup(tgo)); m != nil {
				return fmt.Sprintf("func keys_%d(m %s) []%s { return deriveKeys_%d(m) }\n", idx, tgo, m.Key.Go(0), idx)
			}
			return fmt.Sprintf("func keys_%d() {}\n", idx) // not a map: registered, never called
		},
		WrapFn: func(idx int) string { return fmt.Sprintf("keys_%d", idx) },
	}
)

type group struct {
	name  string
	calls []ga.Call
}

var groups = []group{
	{"sort", []ga.Call{callSort}},
	{"minmax", []ga.Call{callMin, callMax, callMin2, callMax2}},
	{"keys", []ga.Call{callKeys}},
}

func allCalls() []ga.Call {
	var cs []ga.Call
	for _, g := range groups {
		cs = append(cs, g.calls...)
	}
	return cs
}

// class of one probe: ok | typecheck-error | generator-error | panic | timeout | ...
func classOf(pr ga.ProbeResult) string {
	if pr.GenClass == "ok" && !pr.VetOK {
		return "typecheck-error"
	}
	return pr.GenClass
}

func isBoolOrComplex(t *ga.Type) bool {
	return t.K == ga.KBasic && (t.Basic == "bool" || t.Basic == "complex64" || t.Basic == "complex128")
}

type caseInfo struct {
	idx      int
	seedSort bool   // a sort line whose output seeds the second phase
	def      string // default value used with this list
}

func Run(cfg hx.Config) (*hx.Meta, error) {
	meta := &hx.Meta{Property: "C13", Seed: cfg.Seed, Tier: cfg.Tier}
	r := hx.NewRand(cfg.Seed)
	cat := ga.NewCatalogue()
	// element types with user Equal/Compare methods: ME, MP (methods look at F0, results -1/0/+1) and
	// MG, MGP (methods look at F1 and return a difference), see Go/Methods.v
	cat.WithMethods = true
	cat.WithMagMethods = true
	thorough := cfg.Tier == "thorough"
	var types []*ga.Type
	pool := 10
	if thorough {
		types = cat.Shapes(r, 2, 300)
		pool = 16
	} else {
		types = cat.Shapes(r, 1, 20)
		d2 := cat.Shapes(r, 2, 0)
		hx.Shuffle(r, d2)
		types = ga.Dedup(append(types, d2[:40]...))
	}
	// word-sized unsigned element types (uint, uintptr and named types over them): their pools hold values above
	// math.MaxInt, which a sort through []int would put in front (seeded change C13-m11)
	wordTypes := []*ga.Type{ga.B("uint"), ga.B("uintptr"), ga.Named(60, "NUint", 0, ga.B("uint")), ga.Named(61, "NUptr", 0, ga.B("uintptr"))}
	types = ga.Dedup(append(wordTypes, types...))
	types = ga.Dedup(append(methodTypes(cat), types...))
	types = corpusFirst(cfg.Corpus, cat, r, types, meta)
	for _, t := range types {
		byGo[t.Go(0)] = t
	}

	// ---- probing: the whole call set first, the groups separately where that fails
	full := ga.Probe(cfg.Goderive, filepath.Join(cfg.Work, "probe"), types, allCalls(), true)
	meta.GoderiveRuns += len(types)
	usable := make([]map[string]bool, len(types))
	var sup strings.Builder
	var redo []int
	for i, t := range types {
		usable[i] = map[string]bool{}
		if classOf(full[i]) == "ok" {
			for _, g := range groups {
				if g.name == "keys" && mapOf(t) == nil {
					continue
				}
				usable[i][g.name] = true
				fmt.Fprintf(&sup, "(sup %s %s ok)\n", g.name, t.Sexp())
			}
			meta.Count("probe/all-groups-ok")
		} else {
			redo = append(redo, i)
		}
	}
	for _, g := range groups {
		var sub []*ga.Type
		var subIdx []int
		for _, i := range redo {
			if g.name == "keys" && mapOf(types[i]) == nil {
				continue
			}
			sub = append(sub, types[i])
			subIdx = append(subIdx, i)
		}
		if len(sub) == 0 {
			continue
		}
		prs := ga.Probe(cfg.Goderive, filepath.Join(cfg.Work, "probe-"+g.name), sub, g.calls, true)
		meta.GoderiveRuns += len(sub)
		for k, pr := range prs {
			i := subIdx[k]
			t := types[i]
			cls := classOf(pr)
			meta.Count("probe/" + g.name + "/" + cls)
			switch cls {
			case "ok":
				usable[i][g.name] = true
				fmt.Fprintf(&sup, "(sup %s %s ok)\n", g.name, t.Sexp())
			case "typecheck-error":
				// goderive exit 0, output does not compile: reported directly (no model needed)
				class := "c13-generated-code-does-not-typecheck"
				if g.name == "minmax" && isBoolOrComplex(t) {
					class = "c13-minmax-bool-complex"
				}
				meta.AddDirect(hx.Direct{Class: class,
					What:   fmt.Sprintf("goderive exits 0 for derive %s over element type %s but the generated code does not type-check", g.name, t.Go(0)),
					Files:  map[string]string{"derived.gen.go": hx.Truncate(pr.Derived, 6000)},
					Cmd:    "goderive . && go vet ./...   (scratch package with the " + g.name + " wrappers for " + t.Go(0) + ")",
					Output: hx.Truncate(pr.VetOut, 1500)})
			default:
				fmt.Fprintf(&sup, "(sup %s %s %s)\n", g.name, t.Sexp(), cls)
				if cls == "panic" || cls == "timeout" {
					meta.Notes = append(meta.Notes, "goderive "+cls+" for "+g.name+" over "+t.Go(0)+" (see C09)")
				}
			}
		}
	}
	// a type whose groups all pass separately but not together: unexpected
	for _, i := range redo {
		all := true
		for _, g := range groups {
			if g.name == "keys" && mapOf(types[i]) == nil {
				continue
			}
			all = all && usable[i][g.name]
		}
		if all {
			meta.AddDirect(hx.Direct{Class: "c13-combined-package-fails",
				What:   "sort, min/max and keys over " + types[i].Go(0) + " are accepted one by one but not in one package",
				Cmd:    "goderive . && go vet ./...",
				Output: hx.Truncate(full[i].GenOut+"\n"+full[i].VetOut, 2000)})
		}
	}
	supf := filepath.Join(cfg.Out, "c13-support.obs")
	if err := os.WriteFile(supf, []byte(sup.String()), 0o644); err != nil {
		return nil, err
	}
	meta.ObsFiles = append(meta.ObsFiles, supf)

	// ---- batches per signature of usable groups
	sigTypes := map[string][]*ga.Type{}
	sigIdx := map[string][]int{}
	for i, t := range types {
		var names []string
		for _, g := range groups {
			if usable[i][g.name] {
				names = append(names, g.name)
			}
		}
		if len(names) == 0 {
			continue
		}
		// the keys wrapper of a non-map type is a dummy: such a type batches with the full set
		sig := strings.Join(names, "+")
		if sig == "sort+minmax" && mapOf(t) == nil {
			sig = "sort+minmax+keys"
		}
		sigTypes[sig] = append(sigTypes[sig], t)
		sigIdx[sig] = append(sigIdx[sig], i)
	}
	var sigs []string
	for s := range sigTypes {
		sigs = append(sigs, s)
	}
	sort.Strings(sigs)
	type batch struct {
		types []*ga.Type
		idx   []int
		calls []ga.Call
		sig   string
	}
	var batches []batch
	for _, s := range sigs {
		var calls []ga.Call
		for _, g := range groups {
			if strings.Contains("+"+s+"+", "+"+g.name+"+") {
				calls = append(calls, g.calls...)
			}
		}
		bts, bis := ga.Batches(sigTypes[s], sigIdx[s], 50)
		for b := range bts {
			batches = append(batches, batch{bts[b], bis[b], calls, s})
		}
	}
	nb := len(batches)
	obsFiles := make([]string, nb)
	errs := make([]error, nb)
	rs := make([]*hx.Rand, nb)
	for b := range rs {
		rs[b] = r.Fork(uint64(b))
	}
	hx.Parallel(nb, 8, func(b int) {
		bt := batches[b]
		p := &ga.Pkg{Dir: filepath.Join(cfg.Work, fmt.Sprintf("batch%02d", b)), Types: bt.types, Idx: bt.idx, Calls: bt.calls}
		if errs[b] = p.Write(); errs[b] != nil {
			return
		}
		g := p.Generate(cfg.Goderive)
		if g.Exit != 0 {
			meta.AddDirect(hx.Direct{Class: "c13-batch-generate-failed", What: "goderive fails on a batch of types that it accepts one by one", Cmd: "goderive .", Output: hx.Truncate(g.Out, 3000)})
			return
		}
		if bd := p.BuildDriver(); bd.Exit != 0 {
			meta.AddDirect(hx.Direct{Class: "c13-batch-build-failed", What: "batch of individually type-correct packages does not build", Cmd: "go build -tags drv", Output: hx.Truncate(bd.Out, 3000)})
			return
		}
		has := func(g string) bool { return strings.Contains("+"+bt.sig+"+", "+"+g+"+") }
		gen := ga.NewGen(rs[b], pool)
		cb := &cases{r: rs[b], gen: gen, thorough: thorough, meta: meta}
		for i, t := range bt.types {
			vals := append(gen.Pool(t, map[int]*ga.Type{}, 3), methodVals(cat, t, gen)...)
			cb.forType(bt.idx[i], t, vals, has("sort"), has("minmax"), has("keys") && mapOf(t) != nil)
		}
		res := p.RunDriver(cb.text.String())
		if res.Exit != 0 {
			meta.AddDirect(hx.Direct{Class: "c13-driver-failed", What: "driver crashed", Cmd: "./drv cases.txt", Output: hx.Truncate(res.Out, 3000)})
			return
		}
		out := res.Stdout
		// second phase: the sorted outputs and their reversals as inputs
		if second := cb.secondPhase(res.Stdout, has("minmax")); second != "" {
			res2 := p.RunDriver(second)
			if res2.Exit != 0 {
				meta.AddDirect(hx.Direct{Class: "c13-driver-failed", What: "driver crashed (second phase)", Cmd: "./drv cases.txt", Output: hx.Truncate(res2.Out, 3000)})
				return
			}
			out += res2.Stdout
		}
		obsFiles[b] = filepath.Join(cfg.Out, fmt.Sprintf("c13-batch%02d.obs", b))
		errs[b] = os.WriteFile(obsFiles[b], []byte(out), 0o644)
		for _, l := range pickSamples(out) {
			meta.Sample(hx.Truncate(l, 300))
		}
	})
	for b := range obsFiles {
		if errs[b] != nil {
			return nil, errs[b]
		}
		if obsFiles[b] != "" {
			meta.ObsFiles = append(meta.ObsFiles, obsFiles[b])
			meta.GoderiveRuns++
			meta.Packages++
		}
	}
	nuse := 0
	for i := range types {
		if len(usable[i]) > 0 {
			nuse++
		}
	}
	meta.Count(fmt.Sprintf("types=%d usable=%d", len(types), nuse))
	nanKeys(cfg, meta)
	return meta, nil
}

// methodTypes: the positions in which an element type can carry a user Compare method — the struct
// VALUE itself, a pointer to it, a struct field (value and pointer), slice / array elements, map
// values, and (for the comparable value-method structs) map keys.  Always part of the battery.
func methodTypes(c *ga.Catalogue) []*ga.Type {
	var out []*ga.Type
	for _, l := range []*ga.Type{c.ME, c.MP, c.MG, c.MGP} {
		out = append(out, l, ga.P(l), ga.Sl(l), ga.Sl(ga.P(l)), ga.Ar(2, l),
			ga.M(ga.B("string"), l), ga.M(ga.B("int"), ga.P(l)))
	}
	for _, w := range c.MW { // a method type as a field of a named struct
		out = append(out, w, ga.P(w), ga.Sl(w))
	}
	for _, k := range []*ga.Type{c.ME, c.MG} {
		out = append(out, ga.M(k, ga.B("int")), ga.M(k, c.S0), ga.Sl(ga.M(k, ga.B("string"))))
	}
	out = append(out, ga.M(c.ME, c.MG))
	return out
}

// methodVals: for a method struct itself (and a pointer to it) values on which the method's order and the
// field-by-field order disagree, which the method identifies although they differ, and (magnitude
// class) whose keys are further apart than 1.  They are appended after the pool cap, so every such
// list holds them.
func methodVals(c *ga.Catalogue, t *ga.Type, g *ga.Gen) []*ga.Val {
	ptr := false
	if t.K == ga.KPtr {
		ptr = true
		t = t.Elem
	}
	if t.K != ga.KNamed {
		return nil
	}
	i := func(n int) *ga.Val { return &ga.Val{K: "i", Int: fmt.Sprint(n)} }
	s := func(x string) *ga.Val { return &ga.Val{K: "s", Str: []byte(x)} }
	st := func(es ...*ga.Val) *ga.Val { return &ga.Val{K: "st", Elems: es} }
	ints := func(ns ...int) *ga.Val {
		v := &ga.Val{K: "sl", Loc: g.Fresh()}
		for _, n := range ns {
			v.Elems = append(v.Elems, i(n))
		}
		return v
	}
	var vs []*ga.Val
	switch t.ID {
	case c.ME.ID: // F0 int decides, F1 string ignored
		vs = []*ga.Val{st(i(2), s("z")), st(i(5), s("a")), st(i(5), s("b")), st(i(2), s("a")), st(i(-40), s("m"))}
	case c.MP.ID: // F0 string decides, F1 []int ignored
		vs = []*ga.Val{st(s("b"), ints(1)), st(s("a"), ints(9, 9)), st(s("a"), &ga.Val{K: "nils"}), st(s("b"), ints()), st(s("c"), ints(0))}
	case c.MG.ID:
		for _, x := range c.MG.ExtraVals {
			vs = append(vs, x.Clone(g.Fresh))
		}
	case c.MGP.ID:
		for _, x := range c.MGP.ExtraVals {
			vs = append(vs, x.Clone(g.Fresh))
		}
		vs = append(vs, st(s("a"), i(5), ints(3)), st(s("y"), i(1), ints(1, 2)))
	default:
		return nil
	}
	if ptr {
		for k, v := range vs {
			vs[k] = &ga.Val{K: "p", Loc: g.Fresh(), Elems: []*ga.Val{v}}
		}
	}
	return vs
}

// pickSamples: one observation of each kind from a batch output.
func pickSamples(out string) []string {
	seen := map[string]bool{}
	var res []string
	for _, l := range strings.Split(out, "\n") {
		i := strings.IndexByte(l, ' ')
		if i < 2 || len(l) > 420 || len(l) < 140 {
			continue
		}
		if k := l[1:i]; !seen[k] {
			seen[k] = true
			res = append(res, l)
		}
	}
	return res
}

// corpusFirst puts the types named in corpus/C13/*.txt (lines `type <Go spelling>`) in front, adding
// them from the full catalogue when the seeded selection does not contain them.
func corpusFirst(dir string, cat *ga.Catalogue, r *hx.Rand, types []*ga.Type, meta *hx.Meta) []*ga.Type {
	ents, err := os.ReadDir(dir)
	if err != nil {
		return types
	}
	var want []string
	for _, e := range ents {
		if !strings.HasSuffix(e.Name(), ".txt") {
			continue
		}
		b, err := os.ReadFile(filepath.Join(dir, e.Name()))
		if err != nil {
			continue
		}
		for _, l := range strings.Split(string(b), "\n") {
			if strings.HasPrefix(l, "type ") {
				want = append(want, strings.TrimSpace(strings.TrimPrefix(l, "type ")))
			}
		}
	}
	if len(want) == 0 {
		return types
	}
	all := cat.Shapes(hx.NewRand(0), 2, 0)
	bySpelling := map[string]*ga.Type{}
	for _, t := range all {
		bySpelling[t.Go(0)] = t
	}
	var front []*ga.Type
	for _, w := range want {
		if t, ok := bySpelling[w]; ok {
			front = append(front, t)
			meta.Count("corpus-types")
		} else {
			meta.Notes = append(meta.Notes, "corpus type not in the catalogue: "+w)
		}
	}
	return ga.Dedup(append(front, types...))
}
