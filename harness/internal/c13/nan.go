package c13

import (
	"path/filepath"

	"verifharness/internal/hx"
)

// nanKeys: "Keys returns every key of the map exactly once" is not restricted to NaN-free maps:
// every NaN key is an entry of its own (NaN != NaN), and Keys must return as many keys as the map
// has entries.  The value model has no NaN, so this is a harness-side (direct) check on float and
// complex keyed maps, named key types and struct/array keys containing a float.
const nanSrc = `package main

import (
	"fmt"
	"math"
	"os"
)

type NF float64

type PK struct {
	X float64
	S string
}

func main() {
	nan := math.NaN()
	bad := 0
	m1 := map[float64]int{nan: 1, math.NaN(): 2, 1: 3, math.Inf(1): 4}
	if k := deriveKeysF64(m1); len(k) != len(m1) {
		fmt.Println("float64 keys:", len(k), "of", len(m1))
		bad++
	}
	m2 := map[float32]string{float32(nan): "a", float32(nan): "b", 2: "c"}
	if k := deriveKeysF32(m2); len(k) != len(m2) {
		fmt.Println("float32 keys:", len(k), "of", len(m2))
		bad++
	}
	m3 := map[complex128]bool{complex(nan, 0): true, complex(0, nan): false, complex(1, 1): true}
	if k := deriveKeysC(m3); len(k) != len(m3) {
		fmt.Println("complex128 keys:", len(k), "of", len(m3))
		bad++
	}
	m4 := map[NF]int{NF(nan): 1, NF(nan): 2, 0: 3}
	if k := deriveKeysNF(m4); len(k) != len(m4) {
		fmt.Println("named float keys:", len(k), "of", len(m4))
		bad++
	}
	m5 := map[PK]int{{nan, "a"}: 1, {nan, "a"}: 2, {1, "b"}: 3}
	if k := deriveKeysPK(m5); len(k) != len(m5) {
		fmt.Println("struct keys:", len(k), "of", len(m5))
		bad++
	}
	m6 := map[[2]float64]int{{nan, 1}: 1, {nan, 1}: 2}
	if k := deriveKeysArr(m6); len(k) != len(m6) {
		fmt.Println("array keys:", len(k), "of", len(m6))
		bad++
	}
	if bad > 0 {
		os.Exit(1)
	}
}
`

func nanKeys(cfg hx.Config, meta *hx.Meta) {
	dir := filepath.Join(cfg.Work, "nankeys")
	if err := hx.Module(dir); err != nil {
		return
	}
	if err := hx.WriteFiles(dir, map[string]string{"main.go": nanSrc}); err != nil {
		return
	}
	g := hx.Goderive(cfg.Goderive, dir, ".")
	meta.GoderiveRuns++
	if g.Exit != 0 {
		meta.AddDirect(hx.Direct{Class: "c13-keys-nan", What: "goderive fails on float/complex keyed maps", Files: map[string]string{"main.go": nanSrc}, Cmd: "goderive .", Output: hx.Truncate(g.Out, 2000)})
		return
	}
	b := hx.GoBuild(dir, filepath.Join(dir, "nan"), "")
	if b.Exit != 0 {
		meta.AddDirect(hx.Direct{Class: "c13-keys-nan", What: "deriveKeys over float/complex keyed maps does not compile", Files: map[string]string{"main.go": nanSrc}, Cmd: "goderive . && go build", Output: hx.Truncate(b.Out, 2000)})
		return
	}
	res := hx.Run(dir, 60e9, 0, nil, filepath.Join(dir, "nan"))
	meta.CountSafe("calls/keys-nan-maps")
	if res.Exit != 0 {
		meta.AddDirect(hx.Direct{Class: "c13-keys-nan", What: "deriveKeys does not return every key of a map with NaN keys exactly once", Files: map[string]string{"main.go": nanSrc}, Cmd: "goderive . && go run .", Output: hx.Truncate(res.Out, 2000)})
	}
}
