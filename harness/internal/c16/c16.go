// Package c16: correspondence harness of C16 (stub: replaced when C16 is built).
package c16

import (
	"fmt"

	"verifharness/internal/hx"
)

func Run(cfg hx.Config) (*hx.Meta, error) {
	return nil, fmt.Errorf("C16: harness not built yet")
}
