// Package c16: error-propagating helpers (Compose, Fmap/Join error forms, Traverse, ToError):
// behavioural correspondence of call logs, results (zero-ness per result) and error identity,
// plus the structural observation of the zero literals the generator wrote.
package c16

import (
	"fmt"
	"go/ast"
	"go/parser"
	"go/printer"
	"go/token"
	"os"
	"path/filepath"
	"sort"
	"strings"

	"verifharness/internal/hx"
)

// carrier: a Go type whose non-zero values can carry an id >= 1.
type carrier struct {
	name  string // identifier-safe
	typ   string
	enc   string // expression in x (int)
	dec   string // expression in v
	kind  string // bool string numeric unsafeptr ptr slice map chan func iface struct array
	named bool
}

var carriers = []carrier{
	{"int", "int", "x", "v", "numeric", false},
	{"string", "string", "strconv.Itoa(x)", "atoi(v)", "string", false},
	{"f64", "float64", "float64(x)", "int(v)", "numeric", false},
	{"NI", "NI", "NI(x)", "int(v)", "numeric", true},
	{"NS", "NS", "NS(strconv.Itoa(x))", "atoi(string(v))", "string", true},
	{"S", "S", "S{A: x, B: \"b\"}", "v.A", "struct", true},
	{"US", "struct{ X int }", "struct{ X int }{X: x}", "v.X", "struct", false},
	{"arr2", "[2]int", "[2]int{x, x}", "v[0]", "array", false},
	{"NA", "NA", "NA{x, 5}", "v[0]", "array", true},
	{"ptrS", "*S", "&S{A: x}", "v.A", "ptr", false},
	{"NP", "NP", "NP(&S{A: x})", "v.A", "ptr", true},
	{"slint", "[]int", "[]int{x, 7}", "v[0]", "slice", false},
	{"NSl", "NSl", "NSl{x}", "v[0]", "slice", true},
	{"mapsi", "map[string]int", "map[string]int{\"k\": x}", "v[\"k\"]", "map", false},
	{"iface", "interface{}", "interface{}(x)", "v.(int)", "iface", false},
	{"NIf", "I", "I(idv(x))", "v.ID()", "iface", true},
	{"chint", "chan int", "make(chan int, x)", "cap(v)", "chan", false},
	{"fnint", "func() int", "func() int { return x }", "v()", "func", false},
}

const typeDecls = `type S struct {
	A int
	B string
}

type NI int
type NS string
type NA [2]int
type NSl []int
type NP *S
type I interface{ ID() int }
type idv int

func (i idv) ID() int { return int(i) }

// concrete types of every kind that implement I (compose: a result of such a type handed to a
// parameter of type I); the methods are never called by the drivers
type PM struct{ A int }

func (p *PM) ID() int {
	if p == nil {
		return 0
	}
	return p.A
}

type MM map[string]int

func (m MM) ID() int { return m["k"] }

type SM []int

func (s SM) ID() int { return len(s) }

type FM func() int

func (f FM) ID() int { return 0 }

type CM chan int

func (c CM) ID() int { return cap(c) }

type VM struct{ A int }

func (v VM) ID() int { return v.A }

`

// methodCarriers: not in the rotation; they occur only as converted intermediate results of compose
var methodCarriers = []carrier{
	{"idv", "idv", "idv(x)", "int(v)", "numeric", true},
	{"PM", "*PM", "&PM{A: x}", "v.A", "ptr", false},
	{"MM", "MM", "MM{\"k\": x}", "v[\"k\"]", "map", true},
	{"SM", "SM", "SM{x}", "v[0]", "slice", true},
	{"FM", "FM", "FM(func() int { return x })", "v()", "func", true},
	{"CM", "CM", "make(CM, x)", "cap(v)", "chan", true},
	{"VM", "VM", "VM{A: x}", "v.A", "struct", true},
}

// clashCarriers: not in the rotation; parameter types of ToError's f under which a parameter that
// carries one of the generated function's own names (err, success) still type-checks there
var clashCarriers = []carrier{
	{"errv", "error", "error(idErr(x))", "int(v.(idErr))", "iface", true},
	{"boolv", "bool", "true", "1", "bool", false},
}

// conv: a result of type src handed to a parameter of the assignable, not identical, type dst.
// The stage decodes its parameter as "which value of src does it hold": 0 = the zero value of src
// (for a nillable src inside an interface: a non-nil interface holding the typed nil), id >= 1,
// -1 = a nil interface where src is concrete (no value of src was handed over), -2 = another type.
type conv struct {
	name string
	src  carrier
	dst  string
	body string // decoder body over p (type dst)
}

func carrierByName(n string) carrier {
	for _, c := range append(append(append([]carrier{}, carriers...), methodCarriers...), clashCarriers...) {
		if c.name == n {
			return c
		}
	}
	panic("no carrier " + n)
}

func convs() []conv {
	var l []conv
	viaIface := func(c carrier, dst, tag string) {
		body := fmt.Sprintf("if p == nil {\n\t\treturn -1\n\t}\n\tv, ok := p.(%s)\n\tif !ok {\n\t\treturn -2\n\t}\n\treturn obs_%s(v)", c.typ, c.name)
		if c.kind == "iface" {
			// interface to wider interface: the nil interface stays nil
			body = fmt.Sprintf("if p == nil {\n\t\treturn 0\n\t}\n\tv, ok := p.(%s)\n\tif !ok {\n\t\treturn -2\n\t}\n\treturn obs_%s(v)", c.typ, c.name)
		}
		l = append(l, conv{c.name + "_to_" + tag, c, dst, body})
	}
	for _, c := range carriers {
		if c.name != "iface" {
			viaIface(c, "interface{}", "any")
		}
	}
	for _, c := range methodCarriers {
		viaIface(c, "I", "I")
		viaIface(c, "interface{}", "any")
	}
	direct := func(src, dst, tag string) {
		c := carrierByName(src)
		l = append(l, conv{c.name + "_to_" + tag, c, dst, fmt.Sprintf("return obs_%s(%s(p))", c.name, parenType(c.typ))})
	}
	direct("NSl", "[]int", "slint")
	direct("slint", "NSl", "NSl")
	direct("NA", "[2]int", "arr2")
	direct("arr2", "NA", "NA")
	direct("NP", "*S", "ptrS")
	direct("ptrS", "NP", "NP")
	direct("SM", "[]int", "slint")
	direct("MM", "map[string]int", "mapsi")
	direct("CM", "chan int", "chint")
	direct("FM", "func() int", "fnint")
	ch := carrierByName("chint")
	l = append(l, conv{"chint_to_recv", ch, "<-chan int", "if p == nil {\n\t\treturn 0\n\t}\n\treturn cap(p)"})
	l = append(l, conv{"chint_to_send", ch, "chan<- int", "if p == nil {\n\t\treturn 0\n\t}\n\treturn cap(p)"})
	return l
}

func parenType(t string) string {
	for _, r := range t {
		if !(r == '_' || r >= '0' && r <= '9' || r >= 'a' && r <= 'z' || r >= 'A' && r <= 'Z') {
			return "(" + t + ")"
		}
	}
	return t
}

// pslot: a parameter of an instrumented stage: its type and the decoder of its value
type pslot struct {
	typ string
	dec string
}

func plain(cs []carrier) []pslot {
	l := make([]pslot, len(cs))
	for i, c := range cs {
		l[i] = pslot{c.typ, "obs_" + c.name}
	}
	return l
}

func ptyps(ps []pslot) []string {
	l := make([]string, len(ps))
	for i, p := range ps {
		l[i] = p.typ
	}
	return l
}

func pparams(prefix string, ps []pslot) string {
	l := make([]string, len(ps))
	for i, p := range ps {
		l[i] = fmt.Sprintf("%s%d %s", prefix, i, p.typ)
	}
	return strings.Join(l, ", ")
}

// types that cannot carry an id, or are rarely spelled: only their zero literal and
// well-typedness are observed (package c16zero)
type exotic struct {
	typ   string
	kind  string
	named bool
}

var exotics = []exotic{
	{"bool", "bool", false}, {"NB", "bool", true}, {"uint8", "numeric", false}, {"rune", "numeric", false},
	{"complex128", "numeric", false}, {"NC", "numeric", true}, {"unsafe.Pointer", "unsafeptr", false},
	{"NUP", "unsafeptr", true}, {"error", "iface", true}, {"AI", "numeric", true}, {"AS", "struct", true},
	{"<-chan int", "chan", false}, {"*int", "ptr", false}, {"**S", "ptr", false}, {"NP", "ptr", true},
	{"[0]int", "array", false}, {"struct{}", "struct", false}, {"NM", "map", true}, {"NF", "func", true},
	{"[][]S", "slice", false}, {"[1]S", "array", false}, {"NCh", "chan", true}, {"uintptr", "numeric", false},
	{"NI", "numeric", true}, {"NS", "string", true}, {"string", "string", false},
}

const exoticDecls = `type S struct {
	A int
	B string
}
type NI int
type NS string
type NB bool
type NC complex64
type NUP unsafe.Pointer
type AI = int
type AS = S
type NP *int
type NM map[int]S
type NF func(int) S
type NCh chan S

`

type gen struct {
	calls, drv, cases strings.Builder
	ncase             int
	r                 *hx.Rand
	rot               int
	order             []carrier
	// function name -> carriers of its zeroed results, for the literal extraction
	zeroSlots map[string][]slot
	meta      *hx.Meta
	seen      map[string]bool  // plugin + argument types: goderive wants one name per type tuple
	composeAr map[string][]int // generated function name -> arity vector, for the translation
	convs     []conv
}

// fresh draws types with draw() until the (plugin, key) pair is new; false if 30 draws collide
func (g *gen) fresh(plugin string, draw func() string) bool {
	for try := 0; try < 30; try++ {
		k := plugin + "|" + draw()
		if !g.seen[k] {
			g.seen[k] = true
			return true
		}
	}
	g.meta.Count("skipped-duplicate-signature/" + plugin)
	return false
}

type slot struct {
	typ   string
	kind  string
	named bool
}

func (g *gen) next() carrier {
	c := g.order[g.rot%len(g.order)]
	g.rot++
	if g.rot%len(g.order) == 0 {
		hx.Shuffle(g.r, g.order)
	}
	return c
}

func (g *gen) nexts(n int) []carrier {
	l := make([]carrier, n)
	for i := range l {
		l[i] = g.next()
	}
	return l
}

func typs(cs []carrier) []string {
	l := make([]string, len(cs))
	for i, c := range cs {
		l[i] = c.typ
	}
	return l
}

func slots(cs []carrier) []slot {
	l := make([]slot, len(cs))
	for i, c := range cs {
		l[i] = slot{c.typ, c.kind, c.named}
	}
	return l
}

// results renders "(T0, T1, last)" / "last"
func results(ts []string, last string) string {
	all := append(append([]string{}, ts...), last)
	if last == "" {
		all = all[:len(all)-1]
	}
	switch len(all) {
	case 0:
		return ""
	case 1:
		return all[0]
	}
	return "(" + strings.Join(all, ", ") + ")"
}

func params(prefix string, cs []carrier) string {
	l := make([]string, len(cs))
	for i, c := range cs {
		l[i] = fmt.Sprintf("%s%d %s", prefix, i, c.typ)
	}
	return strings.Join(l, ", ")
}

func names(prefix string, n int) []string {
	l := make([]string, n)
	for i := range l {
		l[i] = fmt.Sprintf("%s%d", prefix, i)
	}
	return l
}

// stageFunc renders an instrumented stage: logs (idx, decoded args), returns encoded mix values and `last`.
// mask is an int expression: bit j set = result j is the zero value of its type (id 0).
// Parameters are decoded zero-safely (0 = the zero value of the type).
func stageFunc(idx int, withIdx bool, ins []pslot, outs []carrier, last, lastType, mask string) string {
	var b strings.Builder
	fmt.Fprintf(&b, "func(%s) %s {\n", pparams("p", ins), results(typs(outs), lastType))
	decs := make([]string, len(ins))
	for i, c := range ins {
		decs[i] = fmt.Sprintf("%s(p%d)", c.dec, i)
	}
	fmt.Fprintf(&b, "\t\t\tin := []int{%s}\n", strings.Join(decs, ", "))
	if withIdx {
		fmt.Fprintf(&b, "\t\t\tlog = append(log, append([]int{%d}, in...))\n", idx)
	} else {
		fmt.Fprintf(&b, "\t\t\tlog = append(log, in)\n")
	}
	rets := make([]string, 0, len(outs)+1)
	for j, c := range outs {
		rets = append(rets, fmt.Sprintf("enc_%s(mixz(%d, %d, in, %s))", c.name, idx, j, mask))
	}
	if last != "" {
		rets = append(rets, last)
	}
	if len(rets) > 0 {
		fmt.Fprintf(&b, "\t\t\treturn %s\n", strings.Join(rets, ", "))
	}
	b.WriteString("\t\t}")
	return b.String()
}

func obsList(prefix string, cs []carrier) string {
	l := make([]string, len(cs))
	for i, c := range cs {
		l[i] = fmt.Sprintf("obs_%s(%s%d)", c.name, prefix, i)
	}
	return "[]int{" + strings.Join(l, ", ") + "}"
}

func encArgs(cs []carrier) string {
	l := make([]string, len(cs))
	for i, c := range cs {
		l[i] = fmt.Sprintf("enc_%s(args[%d])", c.name, i)
	}
	return strings.Join(l, ", ")
}

func lhs(ns []string, last string) string {
	all := append(append([]string{}, ns...), last)
	return strings.Join(all, ", ")
}

func (g *gen) randArgs(n int) []int {
	l := make([]int, n)
	for i := range l {
		l[i] = 1 + g.r.Intn(90)
	}
	return l
}

// ---- compose ----
// convMode 0: every parameter has exactly the type of the result it receives; 1: every intermediate
// slot is converted (result type src, parameter type dst: assignable, not identical); 2: each
// intermediate slot is converted with probability 1/2.  first, if not nil, is the conversion of
// the intermediate slot (1, 0).
func (g *gen) compose(id int, ar []int, convMode int, first *conv) {
	n := len(ar) - 1
	sl := make([][]carrier, n+1) // result types; sl[0]: parameter types of stage 0
	ps := make([][]pslot, n)     // parameters of stage i
	var used []string
	if !g.fresh("compose", func() string {
		k := ""
		used = nil
		for i := range sl {
			sl[i] = g.nexts(ar[i])
			if i < n {
				ps[i] = plain(sl[i])
			}
			if i >= 1 && i < n {
				for j := range sl[i] {
					var cv *conv
					switch {
					case first != nil && i == 1 && j == 0:
						cv = first
					case convMode == 1 || convMode == 2 && g.r.Intn(2) == 0:
						cv = &g.convs[g.r.Intn(len(g.convs))]
					}
					if cv != nil {
						sl[i][j] = cv.src
						ps[i][j] = pslot{cv.dst, "cdec_" + cv.name}
						used = append(used, cv.name)
					}
				}
			}
			k += strings.Join(typs(sl[i]), ",") + ";"
			if i < n {
				k += strings.Join(ptyps(ps[i]), ",") + "|"
			}
		}
		return k
	}) {
		return
	}
	fn := fmt.Sprintf("compose_%d", id)
	dn := fmt.Sprintf("deriveCompose_%d", id)
	g.zeroSlots[dn] = slots(sl[n])
	g.composeAr[dn] = ar
	var sig []string
	for i := 0; i < n; i++ {
		sig = append(sig, fmt.Sprintf("f%d func(%s) %s", i, pparams("a", ps[i]), results(typs(sl[i+1]), "error")))
	}
	fmt.Fprintf(&g.calls, "func %s(%s) func(%s) %s {\n\treturn %s(%s)\n}\n", fn, strings.Join(sig, ", "),
		strings.Join(ptyps(ps[0]), ", "), results(typs(sl[n]), "error"), dn, strings.Join(names("f", n), ", "))
	fmt.Fprintf(&g.drv, "\nfunc init() {\n\tcomposeAr[%d] = %s\n\tcomposeT[%d] = func(errs, zs, args []int) (res []int, et int, log [][]int) {\n", id, goInts(ar), id)
	for i := 0; i < n; i++ {
		fmt.Fprintf(&g.drv, "\t\tf%d := %s\n", i, stageFunc(i, true, ps[i], sl[i+1], fmt.Sprintf("sentinel(errs[%d])", i), "error", fmt.Sprintf("zs[%d]", i)))
	}
	fmt.Fprintf(&g.drv, "\t\t%s := %s(%s)(%s)\n", lhs(names("r", ar[n]), "err"), fn, strings.Join(names("f", n), ", "), encArgs(sl[0]))
	fmt.Fprintf(&g.drv, "\t\tres = %s\n\t\tet = tagOf(err)\n\t\treturn\n\t}\n}\n", obsList("r", sl[n]))
	// cases: no failure; each position x each sentinel; each position with every later stage failing too
	emitz := func(errs, zs, args []int) {
		fmt.Fprintf(&g.cases, "compose %d %s %s %s\n", id, csv(errs), csv(zs), csv(args))
		g.ncase++
	}
	emit := func(errs []int) { emitz(errs, make([]int, n), g.randArgs(ar[0])) }
	emit(make([]int, n))
	for k := 0; k < n; k++ {
		for t := 1; t <= 2; t++ {
			e := make([]int, n)
			e[k] = t
			emit(e)
		}
		if k < n-1 {
			e := make([]int, n)
			t := 1 + (id+k)%2
			e[k] = t
			for j := k + 1; j < n; j++ {
				e[j] = 3 - t
			}
			emit(e)
		}
	}
	{
		// the typed-nil error at a seeded position
		e := make([]int, n)
		e[g.r.Intn(n)] = 3
		emit(e)
	}
	// zero values are values: arguments and (intermediate, final) results that are the zero value
	// of their type (nil pointer, nil map, 0, "", ...) next to a nil error are passed on like any other
	if ar[0] > 0 {
		emitz(make([]int, n), make([]int, n), make([]int, ar[0]))
	}
	nres := 0
	for _, a := range ar[1:] {
		nres += a
	}
	if nres > 0 {
		all := make([]int, n)
		for i := range all {
			all[i] = 7
		}
		emitz(make([]int, n), all, g.randArgs(ar[0]))
		// every stage before the last returns zero values; the last one fails
		e := make([]int, n)
		e[n-1] = 1 + id%2
		z := append([]int{}, all...)
		z[n-1] = 0
		emitz(e, z, g.randArgs(ar[0]))
		rz := func() []int {
			z := make([]int, n)
			for i := range z {
				z[i] = g.r.Intn(8)
			}
			return z
		}
		emitz(make([]int, n), rz(), g.randArgs(ar[0]))
		e = make([]int, n)
		e[g.r.Intn(n)] = 1 + g.r.Intn(2)
		emitz(e, rz(), g.randArgs(ar[0]))
	}
	g.meta.Count(fmt.Sprintf("compose/stages=%d", n))
	for _, c := range sl[n] {
		g.meta.Count("compose/final-kind=" + kindName(c))
	}
	for _, u := range used {
		g.meta.Count("compose/converted-slot=" + u)
	}
	if len(used) > 0 {
		g.meta.Count(fmt.Sprintf("compose/with-converted-slots/stages=%d", n))
	}
}

func kindName(c carrier) string {
	if c.named {
		return "named-" + c.kind
	}
	return c.kind
}

// deriveTuple is looked up in goderive's name table by types.AssignableTo: once a tuple with an
// interface{} component exists in a package, a later request for (T, ...) with any T can be
// answered with that function (depending on Go's map iteration order) and the package does not
// compile.  That is the name table's defect (C08/C11: typesMap.nameOf), not a property of the
// emitted chains, so interface{} (and one of every pair of mutually assignable types) is kept
// out of the tuple positions here; they still occur as results of compose, join, fmap with one
// result, traverse and toerror.
func hasEmptyIface(cs []carrier) bool {
	for _, c := range cs {
		// NSl/[]int, NA/[2]int and NP/*S are assignable to each other as well
		if c.name == "iface" || c.name == "NSl" || c.name == "NA" || c.name == "NP" {
			return true
		}
	}
	return false
}

// ---- fmap (error forms) ----
// fixed, if not nil, is the value type A of g
func (g *gen) fmap(id, arity int, fixed *carrier) {
	var a carrier
	var outs []carrier
	if !g.fresh("fmap", func() string {
		if fixed != nil {
			a = *fixed
		} else {
			a = g.next()
		}
		outs = g.nexts(arity)
		for arity >= 2 && hasEmptyIface(outs) {
			outs = g.nexts(arity)
		}
		return a.typ + ";" + strings.Join(typs(outs), ",")
	}) {
		return
	}
	fn := fmt.Sprintf("fmap_%d", id)
	dn := fmt.Sprintf("deriveFmap_%d", id)
	var ret string
	switch arity {
	case 0:
		ret = "error"
	case 1:
		ret = "(" + outs[0].typ + ", error)"
		g.zeroSlots[dn] = slots(outs)
	default:
		ret = "(func() (" + strings.Join(typs(outs), ", ") + "), error)"
		g.zeroSlots[dn] = []slot{{"func", "func", false}}
	}
	fmt.Fprintf(&g.calls, "func %s(f func(%s) %s, g func() (%s, error)) %s {\n\treturn %s(f, g)\n}\n",
		fn, a.typ, results(typs(outs), ""), a.typ, ret, dn)
	fmt.Fprintf(&g.drv, "\nfunc init() {\n\tfmapAr[%d] = %d\n\tfmapT[%d] = func(gerr, gval int) (res string, et int, log [][]int) {\n", id, arity, id)
	fmt.Fprintf(&g.drv, "\t\tg := func() (%s, error) {\n\t\t\tlog = append(log, []int{0})\n\t\t\treturn enc_%s(gval), sentinel(gerr)\n\t\t}\n", a.typ, a.name)
	fmt.Fprintf(&g.drv, "\t\tf := %s\n", stageFunc(1, true, plain([]carrier{a}), outs, "", "", "0"))
	switch arity {
	case 0:
		fmt.Fprintf(&g.drv, "\t\terr := %s(f, g)\n\t\tres = \"()\"\n", fn)
	case 1:
		fmt.Fprintf(&g.drv, "\t\tr0, err := %s(f, g)\n\t\tres = ints(%s)\n", fn, obsList("r", outs))
	default:
		fmt.Fprintf(&g.drv, "\t\tth, err := %s(f, g)\n\t\tif th == nil {\n\t\t\tres = \"nil\"\n\t\t} else {\n", fn)
		fmt.Fprintf(&g.drv, "\t\t\t%s := th()\n\t\t\t%s := th()\n", strings.Join(names("r", arity), ", "), strings.Join(names("s", arity), ", "))
		fmt.Fprintf(&g.drv, "\t\t\tres = \"(tuple \" + ints(%s) + \" \" + ints(%s) + \")\"\n\t\t}\n", obsList("r", outs), obsList("s", outs))
	}
	fmt.Fprintf(&g.drv, "\t\tet = tagOf(err)\n\t\treturn\n\t}\n}\n")
	for _, ge := range []int{0, 1, 2, 3} {
		fmt.Fprintf(&g.cases, "fmap %d %d %d\n", id, ge, 1+g.r.Intn(90))
		g.ncase++
	}
	// g returns the zero value of A (nil pointer, nil map, 0, ...) without an error: f is applied to it
	fmt.Fprintf(&g.cases, "fmap %d 0 0\nfmap %d %d 0\n", id, id, 1+id%3)
	g.ncase += 2
	g.meta.Count(fmt.Sprintf("fmap/arity=%d", arity))
	g.meta.Count("fmap/value-kind=" + kindName(a))
}

// deriveJoin(deriveFmap(f, g)) with f : A -> (C, error)
func (g *gen) bind(id int) {
	var a, c carrier
	if !g.fresh("join", func() string {
		a, c = g.next(), g.next()
		for hasEmptyIface([]carrier{c}) {
			c = g.next()
		}
		return c.typ
	}) {
		return
	}
	g.seen["fmap|"+a.typ+";"+c.typ+",error"] = true
	fn := fmt.Sprintf("bind_%d", id)
	g.zeroSlots[fmt.Sprintf("deriveJoin_b%d", id)] = slots([]carrier{c})
	g.zeroSlots[fmt.Sprintf("deriveFmap_b%d", id)] = []slot{{"func", "func", false}}
	fmt.Fprintf(&g.calls, "func %s(f func(%s) (%s, error), g func() (%s, error)) (%s, error) {\n\treturn deriveJoin_b%d(deriveFmap_b%d(f, g))\n}\n",
		fn, a.typ, c.typ, a.typ, c.typ, id, id)
	fmt.Fprintf(&g.drv, "\nfunc init() {\n\tbindT[%d] = func(gerr, gval, ferr int) (res []int, et int, log [][]int) {\n", id)
	fmt.Fprintf(&g.drv, "\t\tg := func() (%s, error) {\n\t\t\tlog = append(log, []int{0})\n\t\t\treturn enc_%s(gval), sentinel(gerr)\n\t\t}\n", a.typ, a.name)
	fmt.Fprintf(&g.drv, "\t\tf := %s\n", stageFunc(1, true, plain([]carrier{a}), []carrier{c}, "sentinel(ferr)", "error", "0"))
	fmt.Fprintf(&g.drv, "\t\tr0, err := %s(f, g)\n\t\tres = %s\n\t\tet = tagOf(err)\n\t\treturn\n\t}\n}\n", fn, obsList("r", []carrier{c}))
	for _, ge := range []int{0, 1, 2, 3} {
		for _, fe := range []int{0, 1, 2, 3} {
			if ge != 0 && fe == ge {
				continue
			}
			fmt.Fprintf(&g.cases, "bind %d %d %d %d\n", id, ge, 1+g.r.Intn(90), fe)
			g.ncase++
		}
	}
	fmt.Fprintf(&g.cases, "bind %d 0 0 0\nbind %d 0 0 %d\n", id, id, 1+id%3)
	g.ncase += 2
	g.meta.Count("bind")
}

// ---- join (error form) ----
func (g *gen) join(id, n int) {
	var outs []carrier
	if !g.fresh("join", func() string {
		outs = g.nexts(n)
		return strings.Join(typs(outs), ",")
	}) {
		return
	}
	fn := fmt.Sprintf("join_%d", id)
	dn := fmt.Sprintf("deriveJoin_%d", id)
	if n > 0 {
		g.zeroSlots[dn] = slots(outs)
	}
	rt := results(typs(outs), "error")
	fmt.Fprintf(&g.calls, "func %s(f func() %s, err error) %s {\n\treturn %s(f, err)\n}\n", fn, rt, rt, dn)
	fmt.Fprintf(&g.drv, "\nfunc init() {\n\tjoinAr[%d] = %d\n\tjoinT[%d] = func(e, ferr, conv int) (res []int, et int, log [][]int) {\n", id, n, id)
	fmt.Fprintf(&g.drv, "\t\tf := func() %s {\n\t\t\tlog = append(log, []int{0})\n", rt)
	if n > 0 {
		fmt.Fprintf(&g.drv, "\t\t\tif conv != 0 && ferr != 0 {\n")
		for i, c := range outs {
			fmt.Fprintf(&g.drv, "\t\t\t\tvar z%d %s\n", i, c.typ)
		}
		fmt.Fprintf(&g.drv, "\t\t\t\treturn %s\n\t\t\t}\n", lhs(names("z", n), "sentinel(ferr)"))
	}
	rets := []string{}
	for j, c := range outs {
		rets = append(rets, fmt.Sprintf("enc_%s(mix(0, %d, nil))", c.name, j))
	}
	rets = append(rets, "sentinel(ferr)")
	fmt.Fprintf(&g.drv, "\t\t\treturn %s\n\t\t}\n", strings.Join(rets, ", "))
	fmt.Fprintf(&g.drv, "\t\t%s := %s(f, sentinel(e))\n\t\tres = %s\n\t\tet = tagOf(err)\n\t\treturn\n\t}\n}\n", lhs(names("r", n), "err"), fn, obsList("r", outs))
	for _, e := range []int{0, 1, 2, 3} {
		for _, fe := range []int{0, 1, 2, 3} {
			for conv := 0; conv <= 1; conv++ {
				if conv == 1 && (fe == 0 || n == 0) {
					continue
				}
				if e != 0 && fe == e {
					continue
				}
				fmt.Fprintf(&g.cases, "join %d %d %d %d\n", id, e, fe, conv)
				g.ncase++
			}
		}
	}
	g.meta.Count(fmt.Sprintf("join/results=%d", n))
}

// ---- traverse ----
// fixed, if not nil, is the element type of the list
func (g *gen) traverse(id int, maxLen int, fixed *carrier) {
	var a, b carrier
	if !g.fresh("traverse", func() string {
		a, b = g.next(), g.next()
		if fixed != nil {
			a = *fixed
		}
		return a.typ + ";" + b.typ
	}) {
		return
	}
	fn := fmt.Sprintf("trav_%d", id)
	fmt.Fprintf(&g.calls, "func %s(f func(%s) (%s, error), l []%s) ([]%s, error) {\n\treturn deriveTraverse_%d(f, l)\n}\n",
		fn, a.typ, b.typ, a.typ, b.typ, id)
	fmt.Fprintf(&g.drv, "\nfunc init() {\n\ttravT[%d] = func(ids []int, isNil bool, tbl map[int]int) (res string, et int, log []int) {\n", id)
	fmt.Fprintf(&g.drv, "\t\tvar in []%s\n\t\tif !isNil {\n\t\t\tin = make([]%s, 0, len(ids))\n\t\t}\n\t\tfor _, x := range ids {\n\t\t\tin = append(in, enc_%s(x))\n\t\t}\n", a.typ, a.typ, a.name)
	fmt.Fprintf(&g.drv, "\t\tf := func(p %s) (%s, error) {\n\t\t\tx := obs_%s(p)\n\t\t\tlog = append(log, x)\n\t\t\tif tbl[x] == 4 {\n\t\t\t\treturn enc_%s(0), nil\n\t\t\t}\n\t\t\treturn enc_%s(mix(0, 0, []int{x})), sentinel(tbl[x])\n\t\t}\n", a.typ, b.typ, a.name, b.name, b.name)
	fmt.Fprintf(&g.drv, "\t\tout, err := %s(f, in)\n\t\tet = tagOf(err)\n", fn)
	fmt.Fprintf(&g.drv, "\t\tswitch {\n\t\tcase err == nil && len(out) == 0 && out != nil:\n\t\t\tres = \"()\"\n\t\tcase out == nil:\n\t\t\tres = \"nil\"\n\t\tdefault:\n\t\t\tl := make([]int, len(out))\n\t\t\tfor i, v := range out {\n\t\t\t\tl[i] = obs_%s(v)\n\t\t\t}\n\t\t\tres = ints(l)\n\t\t}\n\t\treturn\n\t}\n}\n", b.name)
	emit := func(ids []int, isNil bool, tbl [][2]int) {
		ts := make([]string, len(tbl))
		for i, p := range tbl {
			ts[i] = fmt.Sprintf("%d:%d", p[0], p[1])
		}
		nl := "list"
		if isNil {
			nl = "nil"
		}
		fmt.Fprintf(&g.cases, "traverse %d %s %s %s\n", id, nl, csv(ids), strings.Join(ts, ","))
		g.ncase++
	}
	emit(nil, true, nil)
	for n := 0; n <= maxLen; n++ {
		// distinct ids
		perm := make([]int, 90)
		for i := range perm {
			perm[i] = i + 1
		}
		hx.Shuffle(g.r, perm)
		ids := perm[:n]
		emit(ids, false, nil)
		for k := 0; k < n; k++ {
			t := 1 + (k+n)%2
			emit(ids, false, [][2]int{{ids[k], t}})
			if k < n-1 {
				// a later element fails too, with the other error
				emit(ids, false, [][2]int{{ids[k], t}, {ids[n-1], 3 - t}})
			}
		}
		if n >= 1 {
			emit(ids, false, [][2]int{{ids[n/2], 3}})
		}
		if n >= 3 {
			// a repeated element that fails: the first occurrence stops the loop
			d := append([]int{}, ids...)
			d[n-1] = d[1]
			emit(d, false, [][2]int{{d[1], 2}})
		}
		if n >= 1 {
			// an element that is the zero value of its type (nil pointer, 0, ...) is an element
			d := append([]int{}, ids...)
			d[n/2] = 0
			emit(d, false, nil)
			emit(d, false, [][2]int{{d[n-1], 1 + n%2}})
			if n >= 2 {
				emit(d, false, [][2]int{{0, 2 - n%2}})
			}
			// table entry 4: f returns the zero value of its result type and a nil error
			emit(ids, false, [][2]int{{ids[n/2], 4}})
			if n >= 2 {
				emit(ids, false, [][2]int{{ids[0], 4}, {ids[n-1], 1 + n%2}})
			}
		}
	}
	g.meta.Count("traverse/instances")
	g.meta.Count("traverse/element-kind=" + kindName(a))
}

// ---- toerror ----
func (g *gen) toerror(id, np, nout int) {
	var ins, outs []carrier
	if !g.fresh("toerror", func() string {
		ins = g.nexts(np)
		outs = g.nexts(nout)
		return strings.Join(typs(ins), ",") + ";" + strings.Join(typs(outs), ",")
	}) {
		return
	}
	fn := fmt.Sprintf("toerr_%d", id)
	fres := results(typs(outs), "bool")
	if id%2 == 1 {
		// every second instance: f names its results (as net/http.ParseHTTPVersion does)
		var nr []string
		for i, t := range typs(outs) {
			nr = append(nr, fmt.Sprintf("out%d %s", i, t))
		}
		fres = "(" + strings.Join(append(nr, "ok bool"), ", ") + ")"
		g.meta.Count("toerror/named-results")
	}
	fmt.Fprintf(&g.calls, "func %s(e error, f func(%s) %s) func(%s) %s {\n\treturn deriveToError_%d(e, f)\n}\n",
		fn, params("a", ins), fres, strings.Join(typs(ins), ", "), results(typs(outs), "error"), id)
	fmt.Fprintf(&g.drv, "\nfunc init() {\n\ttoerrAr[%d] = [2]int{%d, %d}\n\ttoerrT[%d] = func(args []int, success bool, etag int) (res []int, et int, log [][]int) {\n", id, np, nout, id)
	fmt.Fprintf(&g.drv, "\t\tf := %s\n", stageFunc(0, false, plain(ins), outs, "success", "bool", "0"))
	fmt.Fprintf(&g.drv, "\t\t%s := %s(sentinel(etag), f)(%s)\n\t\tres = %s\n\t\tet = tagOf(err)\n\t\treturn\n\t}\n}\n",
		lhs(names("r", nout), "err"), fn, encArgs(ins), obsList("r", outs))
	for _, sc := range []int{1, 0} {
		for _, t := range []int{1, 2, 3, 0} {
			fmt.Fprintf(&g.cases, "toerror %d %s %d %d\n", id, csv(g.randArgs(np)), sc, t)
			g.ncase++
		}
	}
	if np > 0 {
		// zero-valued arguments
		fmt.Fprintf(&g.cases, "toerror %d %s 1 1\ntoerror %d %s 0 2\n", id, csv(make([]int, np)), id, csv(make([]int, np)))
		g.ncase += 2
	}
	g.meta.Count(fmt.Sprintf("toerror/params=%d,outs=%d", np, nout))
}

// ---- toerror: parameters of f named like the variables the generated function declares ----
// deriveToError(err, f) returns a closure that has f's parameters under f's own parameter names and
// declares out0.., success next to them, so the names the generator chooses for itself (err, f,
// success, out<i>) must stay apart from them.  A clashParam is one parameter of f: its name and how
// its type is chosen so that the shadowed text would still type-check:
//   "error"  the type error (a parameter err of this type can be returned in place of the supplied error)
//   "self"   a named type RF<id> whose underlying type is f's own signature (a parameter f of this
//            type can be called on the parameters in place of the supplied f)
//   "bool"   bool (success)
//   "out<j>" the type of result j of f
//   "any"    the next carrier of the rotation
type clashParam struct {
	name string
	typ  string
}

type clashShape struct {
	ps   []clashParam
	nout int
}

// Every shape below stays well-typed when a name is shadowed, so that a generator that lets a
// name clash is seen by what the closure does; shapes whose clash cannot compile are in namesPackage.
var clashShapes = []clashShape{
	// the supplied error and a parameter called err (err_, both) of type error
	{[]clashParam{{"err", "error"}}, 0},
	{[]clashParam{{"err", "error"}}, 1},
	{[]clashParam{{"err", "error"}}, 2},
	{[]clashParam{{"err_", "error"}}, 1},
	{[]clashParam{{"err", "error"}, {"err_", "error"}}, 1},
	{[]clashParam{{"err_", "error"}, {"err", "error"}, {"err__", "error"}}, 0},
	{[]clashParam{{"a0", "any"}, {"err", "error"}}, 1},
	{[]clashParam{{"err", "error"}, {"a1", "any"}}, 2},
	// the supplied function and a parameter called f that can be called on the same arguments
	{[]clashParam{{"f", "self"}}, 0},
	{[]clashParam{{"f", "self"}}, 1},
	{[]clashParam{{"f", "self"}, {"f_", "self"}}, 1},
	{[]clashParam{{"a0", "any"}, {"f", "self"}}, 2},
	{[]clashParam{{"f_", "self"}, {"a1", "any"}}, 1},
	// success and out<i>
	{[]clashParam{{"success", "bool"}}, 0},
	{[]clashParam{{"success", "bool"}}, 1},
	{[]clashParam{{"success", "bool"}, {"success_", "bool"}}, 2},
	{[]clashParam{{"out0", "out0"}}, 1},
	{[]clashParam{{"out0", "out0"}, {"out1", "out1"}}, 3},
	{[]clashParam{{"out1", "out1"}, {"out0", "out0"}, {"out0_", "out0"}}, 2},
	{[]clashParam{{"out0", "out0"}, {"out2", "out2"}}, 3},
	// everything at once
	{[]clashParam{{"err", "error"}, {"f", "self"}, {"success", "bool"}, {"out0", "out0"}}, 2},
	{[]clashParam{{"success", "bool"}, {"err", "error"}, {"err_", "error"}, {"f", "self"}}, 1},
}

func (g *gen) toerrorClash(id int, sh clashShape) {
	np, nout := len(sh.ps), sh.nout
	rf := fmt.Sprintf("RF%d", id)
	var ins, outs []carrier
	self := false
	if !g.fresh("toerror", func() string {
		outs = g.nexts(nout)
		ins = make([]carrier, np)
		self = false
		for i, p := range sh.ps {
			switch {
			case p.typ == "error":
				ins[i] = carrierByName("errv")
			case p.typ == "bool":
				ins[i] = carrierByName("boolv")
			case p.typ == "self":
				ins[i] = carrier{rf, rf, "", "", "func", true}
				self = true
			case strings.HasPrefix(p.typ, "out"):
				ins[i] = outs[atoiGo(p.typ[3:])]
			default:
				ins[i] = g.next()
			}
		}
		return strings.Join(typs(ins), ",") + ";" + strings.Join(typs(outs), ",")
	}) {
		return
	}
	fn := fmt.Sprintf("toerr_%d", id)
	pl := make([]string, np)
	pnames := make([]string, np)
	for i, p := range sh.ps {
		pl[i] = p.name + " " + ins[i].typ
		pnames[i] = p.name
	}
	fres := results(typs(outs), "bool")
	if id%2 == 1 {
		// named results, called like the variables the closure declares for them where the
		// parameters leave those names free (parameters and results share one scope)
		used := map[string]bool{}
		for _, n := range pnames {
			used[n] = true
		}
		pick := func(cands ...string) string {
			for _, c := range cands {
				if !used[c] {
					used[c] = true
					return c
				}
			}
			panic("no result name")
		}
		var nr []string
		for i, t := range typs(outs) {
			nr = append(nr, pick(fmt.Sprintf("out%d", i), "err", "f", fmt.Sprintf("res%d", i))+" "+t)
		}
		fres = "(" + strings.Join(append(nr, pick("success", "err", "isOk")+" bool"), ", ") + ")"
		g.meta.Count("toerror/named-results")
	}
	if self {
		fmt.Fprintf(&g.calls, "type %s func(%s) %s\n\n", rf, strings.Join(pl, ", "), fres)
	}
	fmt.Fprintf(&g.calls, "func %s(e error, f func(%s) %s) func(%s) %s {\n\treturn deriveToError_%d(e, f)\n}\n",
		fn, strings.Join(pl, ", "), fres, strings.Join(typs(ins), ", "), results(typs(outs), "error"), id)
	if self {
		// a value of RF<id> with id x: a function that records that it was called; read by calling it in probe mode
		var zs, qs []string
		for j, c := range outs {
			zs = append(zs, fmt.Sprintf("z%d %s", j, c.typ))
		}
		for i := range ins {
			qs = append(qs, fmt.Sprintf("q%d", i))
		}
		fmt.Fprintf(&g.drv, "\nfunc enc_%s(x int) %s {\n\tif x == 0 {\n\t\treturn nil\n\t}\n\treturn func(%s) (%s) {\n\t\trfLast = x\n\t\tif !rfProbe {\n\t\t\trfCalls = append(rfCalls, x)\n\t\t}\n\t\treturn\n\t}\n}\n",
			rf, rf, pparams("p", plain(ins)), strings.Join(append(zs, "ok bool"), ", "))
		fmt.Fprintf(&g.drv, "func obs_%s(v %s) int {\n\tif v == nil {\n\t\treturn 0\n\t}\n", rf, rf)
		for i, c := range ins {
			fmt.Fprintf(&g.drv, "\tvar q%d %s\n", i, c.typ)
		}
		fmt.Fprintf(&g.drv, "\trfProbe, rfLast = true, -3\n\tv(%s)\n\trfProbe = false\n\treturn rfLast\n}\n", strings.Join(qs, ", "))
	}
	fmt.Fprintf(&g.drv, "\nfunc init() {\n\ttoerrAr[%d] = [2]int{%d, %d}\n\ttoerrNames[%d] = \"(%s)\"\n\ttoerrT[%d] = func(args []int, success bool, etag int) (res []int, et int, log [][]int) {\n",
		id, np, nout, id, strings.Join(pnames, " "), id)
	fmt.Fprintf(&g.drv, "\t\trfCalls = nil\n")
	fmt.Fprintf(&g.drv, "\t\tf := %s\n", stageFunc(0, false, plain(ins), outs, "success", "bool", "0"))
	fmt.Fprintf(&g.drv, "\t\t%s := %s(sentinel(etag), f)(%s)\n\t\tres = %s\n\t\tet = tagOf(err)\n",
		lhs(names("r", nout), "err"), fn, encArgs(ins), obsList("r", outs))
	// a call of an argument (a function value handed to f, not f itself) shows in the log as (-9 id)
	fmt.Fprintf(&g.drv, "\t\tfor _, x := range rfCalls {\n\t\t\tlog = append(log, []int{-9, x})\n\t\t}\n\t\treturn\n\t}\n}\n")
	args := func(zero bool) []int {
		l := g.randArgs(np)
		for i, c := range ins {
			if zero {
				l[i] = 0
			} else if c.name == "boolv" {
				l[i] = 1
			}
		}
		return l
	}
	for _, sc := range []int{1, 0} {
		for _, t := range []int{1, 2, 3, 0} {
			fmt.Fprintf(&g.cases, "toerror %d %s %d %d\n", id, csv(args(false)), sc, t)
			g.ncase++
		}
	}
	// zero-valued arguments: a nil error, a nil func, false
	fmt.Fprintf(&g.cases, "toerror %d %s 1 1\ntoerror %d %s 0 2\n", id, csv(args(true)), id, csv(args(true)))
	g.ncase += 2
	if np >= 2 {
		// the first / the last argument alone is the zero value
		a := args(false)
		a[0] = 0
		b := args(false)
		b[np-1] = 0
		fmt.Fprintf(&g.cases, "toerror %d %s 0 1\ntoerror %d %s 0 2\n", id, csv(a), id, csv(b))
		g.ncase += 2
	}
	g.meta.Count(fmt.Sprintf("toerror/params=%d,outs=%d", np, nout))
	g.meta.Count("toerror/parameter-names=" + strings.Join(pnames, ","))
}

func atoiGo(s string) int {
	n := 0
	fmt.Sscan(s, &n)
	return n
}

func csv(l []int) string {
	if len(l) == 0 {
		return "-"
	}
	s := make([]string, len(l))
	for i, x := range l {
		s[i] = fmt.Sprint(x)
	}
	return strings.Join(s, ",")
}

func goInts(l []int) string {
	s := make([]string, len(l))
	for i, x := range l {
		s[i] = fmt.Sprint(x)
	}
	return "[]int{" + strings.Join(s, ", ") + "}"
}

// arity vectors of length n over 0..max
func arityVectors(n, max int) [][]int {
	if n == 0 {
		return [][]int{{}}
	}
	var out [][]int
	for _, v := range arityVectors(n-1, max) {
		for a := 0; a <= max; a++ {
			out = append(out, append(append([]int{}, v...), a))
		}
	}
	return out
}

func Run(cfg hx.Config) (*hx.Meta, error) {
	meta := &hx.Meta{Property: "C16", Seed: cfg.Seed, Tier: cfg.Tier}
	thorough := cfg.Tier == "thorough"

	// ---- regression corpus first: packages that once failed (must generate and vet) ----
	if err := runCorpus(cfg, meta); err != nil {
		return nil, err
	}

	g := &gen{r: hx.NewRand(cfg.Seed), zeroSlots: map[string][]slot{}, meta: meta, seen: map[string]bool{}, composeAr: map[string][]int{}}
	g.order = append([]carrier{}, carriers...)
	hx.Shuffle(g.r, g.order)
	g.convs = convs()
	g.calls.WriteString("package main\n\n" + typeDecls)
	g.drv.WriteString(driverHeader)
	for _, c := range append(append(append([]carrier{}, carriers...), methodCarriers...), clashCarriers...) {
		// id 0 is the zero value of the type, ids >= 1 are non-zero values
		fmt.Fprintf(&g.drv, "func enc_%s(x int) %s {\n\tif x == 0 {\n\t\tvar z %s\n\t\treturn z\n\t}\n\treturn %s\n}\nfunc dec_%s(v %s) int { return %s }\nfunc obs_%s(v %s) int {\n\tif isZero(&v) {\n\t\treturn 0\n\t}\n\treturn dec_%s(v)\n}\n",
			c.name, c.typ, c.typ, c.enc, c.name, c.typ, c.dec, c.name, c.typ, c.name)
	}
	for _, cv := range g.convs {
		fmt.Fprintf(&g.drv, "func cdec_%s(p %s) int {\n\t%s\n}\n", cv.name, cv.dst, cv.body)
	}

	id := 0
	// all chains of 2..3 (thorough: 4) stages with 0..3 parameters / intermediate / final results
	maxStages, reps := 3, 1
	if thorough {
		maxStages, reps = 4, 3
	}
	for n := 2; n <= maxStages; n++ {
		vs := arityVectors(n+1, 3)
		rr := reps
		if n == 4 {
			rr = 2
		}
		for rep := 0; rep < rr; rep++ {
			for _, ar := range vs {
				g.compose(id, ar, 0, nil)
				id++
			}
		}
	}
	if !thorough {
		// a seeded sample of the 1024 four-stage shapes (thorough has them all)
		vs := arityVectors(5, 3)
		hx.Shuffle(g.r, vs)
		for _, ar := range vs[:48] {
			g.compose(id, ar, 0, nil)
			id++
		}
	} else {
		// beyond the quantifier (the theorem is for every length): a sample of five- and six-stage chains
		for _, n := range []int{5, 6} {
			vs := arityVectors(n+1, 3)
			hx.Shuffle(g.r, vs)
			for _, ar := range vs[:128] {
				g.compose(id, ar, 0, nil)
				id++
			}
		}
	}
	// chains whose neighbouring types are assignable but not identical (concrete type -> interface,
	// named <-> unnamed, chan -> directional chan): every conversion once as the only intermediate
	// value of a two-stage chain, then seeded shapes of 2..4 stages with all / half of the
	// intermediate slots converted
	for i := range g.convs {
		g.compose(id, []int{i % 3, 1, 1 + i%2}, 0, &g.convs[i])
		id++
	}
	{
		nconv := 16
		if thorough {
			nconv = 96
		}
		for _, n := range []int{2, 3, 4} {
			var vs [][]int
			for _, ar := range arityVectors(n+1, 3) {
				mid := 0
				for _, a := range ar[1:n] {
					mid += a
				}
				if mid > 0 {
					vs = append(vs, ar)
				}
			}
			hx.Shuffle(g.r, vs)
			if len(vs) > nconv {
				vs = vs[:nconv]
			}
			for k, ar := range vs {
				g.compose(id, ar, 1+k%2, nil)
				id++
			}
		}
	}
	ncomp := id
	// the error forms of fmap over every value type (arity 0, 1, 2 of f)
	for i := range carriers {
		for arity := 0; arity <= 2; arity++ {
			g.fmap(id, arity, &carriers[i])
			id++
		}
	}
	nf := 3
	if thorough {
		nf = 12
	}
	for k := 0; k < nf; k++ {
		for arity := 0; arity <= 3; arity++ {
			g.fmap(id, arity, nil)
			id++
		}
		for n := 0; n <= 3; n++ {
			g.join(id, n)
			id++
		}
		g.bind(id)
		id++
		g.bind(id)
		id++
	}
	// every carrier is the element type of a list once (thorough: four times)
	ntrav, maxLen := len(carriers), 5
	if thorough {
		ntrav, maxLen = 4*len(carriers), 9
	}
	for k := 0; k < ntrav; k++ {
		g.traverse(id, maxLen, &carriers[k%len(carriers)])
		id++
	}
	nte := 1
	if thorough {
		nte = 4
	}
	for k := 0; k < nte; k++ {
		for np := 0; np <= 2; np++ {
			for nout := 0; nout <= 3; nout++ {
				g.toerror(id, np, nout)
				id++
			}
		}
	}
	// parameters of f that are called err, f, success, out<i> (with and without trailing underscores)
	for _, sh := range clashShapes {
		g.toerrorClash(id, sh)
		id++
	}
	meta.Count(fmt.Sprintf("instances=%d (compose %d)", id, ncomp))

	dir := filepath.Join(cfg.Work, "c16pkg")
	if err := hx.Module(dir); err != nil {
		return nil, err
	}
	files := map[string]string{"calls.go": g.calls.String(), "driver.go": g.drv.String(), "cases.txt": g.cases.String()}
	if err := hx.WriteFiles(dir, files); err != nil {
		return nil, err
	}
	meta.Packages++
	gr := hx.Goderive(cfg.Goderive, dir, ".")
	meta.GoderiveRuns++
	_ = os.WriteFile(filepath.Join(cfg.Out, "c16.calls.go"), []byte(files["calls.go"]), 0o644)
	if gr.Exit != 0 {
		meta.AddDirect(hx.Direct{Class: "c16-generate-failed", What: "goderive failed on the C16 package",
			Files: map[string]string{"calls.go": hx.Truncate(files["calls.go"], 20000)}, Cmd: "goderive .", Output: hx.Truncate(gr.Out, 4000)})
		return meta, nil
	}
	genSrc, _ := os.ReadFile(filepath.Join(dir, "derived.gen.go"))
	_ = os.WriteFile(filepath.Join(cfg.Out, "c16.derived.gen.go"), genSrc, 0o644)

	var obs strings.Builder
	// the exotic-type package: zero literals + vet only
	zeroObs, err := zeroPackage(cfg, meta)
	if err != nil {
		return nil, err
	}
	if err := namesPackage(cfg, meta); err != nil {
		return nil, err
	}
	lits := extractZeros(string(genSrc), g.zeroSlots, meta)
	all := append(zeroObs, lits...)
	all = append(all, translateCompose(string(genSrc), g.composeAr, meta)...)
	sort.Strings(all)
	prev := ""
	for _, l := range all {
		if l != prev {
			obs.WriteString(l + "\n")
			g.ncase++
		}
		prev = l
	}

	b := hx.GoBuild(dir, filepath.Join(dir, "drv"), "drv")
	if b.Exit != 0 {
		meta.AddDirect(hx.Direct{Class: "c16-build-failed", What: "the package generated for C16 does not compile: " + firstLines(b.Out, 3),
			Files: map[string]string{"calls.go": hx.Truncate(files["calls.go"], 20000), "derived.gen.go": hx.Truncate(string(genSrc), 20000)},
			Cmd:   "goderive . && go build -tags drv", Output: hx.Truncate(b.Out, 4000)})
	} else {
		res := hx.Run(dir, 300e9, 4000000, nil, filepath.Join(dir, "drv"), "cases.txt")
		if res.Exit != 0 {
			meta.AddDirect(hx.Direct{Class: "c16-driver-failed", What: "driver crashed", Cmd: "./drv cases.txt", Output: hx.Truncate(res.Out, 4000)})
			return meta, nil
		}
		obs.WriteString(res.Stdout)
		seen := map[string]bool{}
		for _, l := range strings.Split(res.Stdout, "\n") {
			k := strings.SplitN(l, " ", 2)[0]
			min := 30
			switch k {
			case "(compose":
				min = 70
			case "(traverse", "(toerror", "(toerrorp":
				min = 44
			}
			if len(l) > min && !seen[k] && !strings.Contains(l, ") 0 (") {
				seen[k] = true
				meta.Sample(hx.Truncate(l, 220))
			}
		}
	}
	of := filepath.Join(cfg.Out, "c16.obs")
	if err := os.WriteFile(of, []byte(obs.String()), 0o644); err != nil {
		return nil, err
	}
	meta.ObsFiles = append(meta.ObsFiles, of)
	meta.Cases = g.ncase
	return meta, nil
}

func firstLines(s string, n int) string {
	l := strings.Split(strings.TrimSpace(s), "\n")
	if len(l) > n {
		l = l[:n]
	}
	return strings.Join(l, " | ")
}

// ---- corpus: each corpus/C16/*.go.txt is the single source file of a package main ----
func runCorpus(cfg hx.Config, meta *hx.Meta) error {
	ents, _ := filepath.Glob(filepath.Join(cfg.Corpus, "*.go.txt"))
	sort.Strings(ents)
	for i, e := range ents {
		src, err := os.ReadFile(e)
		if err != nil {
			return err
		}
		dir := filepath.Join(cfg.Work, fmt.Sprintf("corpus%d", i))
		if err := hx.Module(dir); err != nil {
			return err
		}
		if err := hx.WriteFiles(dir, map[string]string{"a.go": string(src)}); err != nil {
			return err
		}
		meta.Packages++
		meta.GoderiveRuns++
		meta.Count("corpus")
		gr := hx.Goderive(cfg.Goderive, dir, ".")
		if gr.Exit != 0 {
			meta.AddDirect(hx.Direct{Class: "c16-corpus-generate-failed", What: "goderive failed on corpus entry " + filepath.Base(e),
				Files: map[string]string{"a.go": string(src)}, Cmd: "goderive .", Output: hx.Truncate(gr.Out, 4000)})
			continue
		}
		v := hx.GoVet(dir, "")
		if v.Exit != 0 {
			genSrc, _ := os.ReadFile(filepath.Join(dir, "derived.gen.go"))
			meta.AddDirect(hx.Direct{Class: "c16-zero-ill-typed", What: "corpus entry " + filepath.Base(e) + ": generated code does not type-check: " + firstLines(v.Out, 3),
				Files: map[string]string{"a.go": string(src), "derived.gen.go": hx.Truncate(string(genSrc), 20000)}, Cmd: "goderive . && go vet .", Output: hx.Truncate(v.Out, 4000)})
		}
	}
	return nil
}

// ---- exotic result types: generate, vet, read the literals ----
func zeroPackage(cfg hx.Config, meta *hx.Meta) ([]string, error) {
	dir := filepath.Join(cfg.Work, "c16zero")
	if err := hx.Module(dir); err != nil {
		return nil, err
	}
	var b strings.Builder
	b.WriteString("package main\n\nimport \"unsafe\"\n\n" + exoticDecls)
	zs := map[string][]slot{}
	// three results per function, so that every exotic type occurs in compose, join and fmap
	for i := 0; i < len(exotics); i += 3 {
		var grp []exotic
		for j := i; j < i+3 && j < len(exotics); j++ {
			grp = append(grp, exotics[j])
		}
		ts := make([]string, len(grp))
		sl := make([]slot, len(grp))
		for j, e := range grp {
			ts[j] = e.typ
			sl[j] = slot{e.typ, e.kind, e.named}
		}
		rt := "(" + strings.Join(ts, ", ") + ", error)"
		fmt.Fprintf(&b, "func zc_%d(f0 func(a int) (int, error), f1 func(a int) %s) func(int) %s {\n\treturn deriveCompose_z%d(f0, f1)\n}\n", i, rt, rt, i)
		zs[fmt.Sprintf("deriveCompose_z%d", i)] = sl
		fmt.Fprintf(&b, "func zj_%d(f func() %s, err error) %s {\n\treturn deriveJoin_z%d(f, err)\n}\n", i, rt, rt, i)
		zs[fmt.Sprintf("deriveJoin_z%d", i)] = sl
		for j, e := range grp {
			fmt.Fprintf(&b, "func zf_%d(f func(int) %s, g func() (int, error)) (%s, error) {\n\treturn deriveFmap_z%d(f, g)\n}\n", i+j, e.typ, e.typ, i+j)
			zs[fmt.Sprintf("deriveFmap_z%d", i+j)] = []slot{sl[j]}
		}
	}
	b.WriteString("\nvar _ = unsafe.Sizeof(0)\n\nfunc main() {}\n")
	if err := hx.WriteFiles(dir, map[string]string{"z.go": b.String()}); err != nil {
		return nil, err
	}
	meta.Packages++
	meta.GoderiveRuns++
	gr := hx.Goderive(cfg.Goderive, dir, ".")
	if gr.Exit != 0 {
		meta.AddDirect(hx.Direct{Class: "c16-generate-failed", What: "goderive failed on the C16 zero-value package",
			Files: map[string]string{"z.go": b.String()}, Cmd: "goderive .", Output: hx.Truncate(gr.Out, 4000)})
		return nil, nil
	}
	genSrc, _ := os.ReadFile(filepath.Join(dir, "derived.gen.go"))
	_ = os.WriteFile(filepath.Join(cfg.Out, "c16.zero.derived.gen.go"), genSrc, 0o644)
	lines := extractZeros(string(genSrc), zs, meta)
	v := hx.GoVet(dir, "")
	if v.Exit != 0 {
		meta.AddDirect(hx.Direct{Class: "c16-zero-ill-typed", What: "zero values written for exotic result types do not type-check: " + firstLines(v.Out, 3),
			Files: map[string]string{"z.go": b.String(), "derived.gen.go": hx.Truncate(string(genSrc), 20000)}, Cmd: "goderive . && go vet .", Output: hx.Truncate(v.Out, 4000)})
	}
	for _, e := range exotics {
		k := e.kind
		if e.named {
			k = "named-" + k
		}
		meta.Count("zero-package/kind=" + k)
	}
	return lines, nil
}

// ---- parameters called err, f, success, out<i> of types under which a clash cannot compile:
// generate + vet only ----
const namesSrc = `package main

func n0(e error, f func(e2 error, err string) (int, bool)) func(error, string) (int, error) {
	return deriveToErrorN0(e, f)
}
func n1(e error, f func(f int) (int, bool)) func(int) (int, error) {
	return deriveToErrorN1(e, f)
}
func n2(e error, f func(success string, ok bool) (int, bool)) func(string, bool) (int, error) {
	return deriveToErrorN2(e, f)
}
func n3(e error, f func(out0 string, out2 int) (a, b, c int, ok bool)) func(string, int) (int, int, int, error) {
	return deriveToErrorN3(e, f)
}
func n4(e error, f func(out1 int, out0 string, out0_ bool) (int, string, bool)) func(int, string, bool) (int, string, error) {
	return deriveToErrorN4(e, f)
}
func n5(e error, f func(f int, err string, success float64, f_ bool) (int, bool)) func(int, string, float64, bool) (int, error) {
	return deriveToErrorN5(e, f)
}
func n6(e error, f func(err_ error, err int) bool) func(error, int) error {
	return deriveToErrorN6(e, f)
}

func main() {}
`

func namesPackage(cfg hx.Config, meta *hx.Meta) error {
	dir := filepath.Join(cfg.Work, "c16names")
	if err := hx.Module(dir); err != nil {
		return err
	}
	if err := hx.WriteFiles(dir, map[string]string{"n.go": namesSrc}); err != nil {
		return err
	}
	meta.Packages++
	meta.GoderiveRuns++
	meta.Count("toerror/names-package")
	gr := hx.Goderive(cfg.Goderive, dir, ".")
	if gr.Exit != 0 {
		meta.AddDirect(hx.Direct{Class: "c16-generate-failed", What: "goderive failed on the C16 parameter-names package",
			Files: map[string]string{"n.go": namesSrc}, Cmd: "goderive .", Output: hx.Truncate(gr.Out, 4000)})
		return nil
	}
	v := hx.GoVet(dir, "")
	if v.Exit != 0 {
		genSrc, _ := os.ReadFile(filepath.Join(dir, "derived.gen.go"))
		meta.AddDirect(hx.Direct{Class: "c16-names-ill-typed", What: "deriveToError over parameters called err, f, success, out<i> does not type-check: " + firstLines(v.Out, 3),
			Files: map[string]string{"n.go": namesSrc, "derived.gen.go": hx.Truncate(string(genSrc), 20000)}, Cmd: "goderive . && go vet .", Output: hx.Truncate(v.Out, 4000)})
	}
	return nil
}

// extractZeros finds, in every listed generated function, the first `if err.. != nil { return Z..., err }`
// and classifies the literals Z against the result types the harness asked for.
func extractZeros(src string, want map[string][]slot, meta *hx.Meta) []string {
	fset := token.NewFileSet()
	f, err := parser.ParseFile(fset, "derived.gen.go", src, 0)
	if err != nil {
		meta.AddDirect(hx.Direct{Class: "c16-unparsable", What: "derived.gen.go does not parse", Output: err.Error()})
		return nil
	}
	var out []string
	found := map[string]bool{}
	for _, d := range f.Decls {
		fd, ok := d.(*ast.FuncDecl)
		if !ok || fd.Body == nil {
			continue
		}
		sl, ok := want[fd.Name.Name]
		if !ok {
			continue
		}
		found[fd.Name.Name] = true
		var ret *ast.ReturnStmt
		ast.Inspect(fd.Body, func(n ast.Node) bool {
			if ret != nil {
				return false
			}
			if is, ok := n.(*ast.IfStmt); ok {
				for _, st := range is.Body.List {
					if r, ok := st.(*ast.ReturnStmt); ok {
						ret = r
						return false
					}
				}
			}
			return true
		})
		if ret == nil || len(ret.Results) != len(sl)+1 {
			// the shape of the function changed: nothing to read; the behavioural run decides
			meta.Notes = append(meta.Notes, "zero literals of "+fd.Name.Name+" not found in the expected place")
			continue
		}
		for i, s := range sl {
			lit := "other"
			switch e := ret.Results[i].(type) {
			case *ast.Ident:
				if e.Name == "nil" || e.Name == "false" {
					lit = e.Name
				}
			case *ast.BasicLit:
				if e.Kind == token.INT && e.Value == "0" {
					lit = "zero"
				}
				if e.Kind == token.STRING && (e.Value == `""` || e.Value == "``") {
					lit = "empty"
				}
			case *ast.CompositeLit:
				var tb strings.Builder
				printer.Fprint(&tb, fset, e.Type)
				if len(e.Elts) == 0 && squash(tb.String()) == squash(s.typ) {
					lit = "composite"
				}
			}
			nm := 0
			if s.named {
				nm = 1
			}
			out = append(out, fmt.Sprintf("(zero %s %d %s)", s.kind, nm, lit))
		}
	}
	for name := range want {
		if !found[name] {
			meta.Notes = append(meta.Notes, "function "+name+" not generated")
		}
	}
	return out
}

func squash(s string) string {
	return strings.Join(strings.Fields(s), "")
}

const driverHeader = `//go:build drv

package main

import (
	"bufio"
	"errors"
	"fmt"
	"os"
	"reflect"
	"strconv"
	"strings"
)

var errA = errors.New("boom")
var errB = errors.New("boom")

// a non-nil error value holding a nil pointer: err != nil is true for it
type perr struct{}

func (*perr) Error() string { return "boom" }

var errC error = (*perr)(nil)

// an error value that carries an id: an argument of type error
type idErr int

func (e idErr) Error() string { return "boom" }

// function-valued arguments of ToError's f: who was called (outside probe mode), who was probed
var rfCalls []int
var rfLast int
var rfProbe bool

func sentinel(t int) error {
	switch t {
	case 1:
		return errA
	case 2:
		return errB
	case 3:
		return errC
	}
	return nil
}

func tagOf(err error) int {
	switch {
	case err == nil:
		return 0
	case err == errA:
		return 1
	case err == errB:
		return 2
	case err == errC:
		return 3
	}
	return 9
}

func mix(i, j int, in []int) int {
	w := 0
	for k, x := range in {
		w += (k + 1) * x
	}
	return 1 + ((31*i+7*j+3*w)%97+97)%97
}

// mixz: result j of stage i, or 0 (the zero value) when bit j of mask is set
func mixz(i, j int, in []int, mask int) int {
	if mask>>uint(j)&1 == 1 {
		return 0
	}
	return mix(i, j, in)
}

func allZero(l []int) bool {
	for _, x := range l {
		if x != 0 {
			return false
		}
	}
	return true
}

func isZero(p interface{}) bool { return reflect.ValueOf(p).Elem().IsZero() }
func atoi(s string) int        { n, _ := strconv.Atoi(s); return n }

var composeT = map[int]func(errs, zs, args []int) (res []int, et int, log [][]int){}
var composeAr = map[int][]int{}
var fmapT = map[int]func(gerr, gval int) (res string, et int, log [][]int){}
var fmapAr = map[int]int{}
var bindT = map[int]func(gerr, gval, ferr int) (res []int, et int, log [][]int){}
var joinT = map[int]func(e, ferr, conv int) (res []int, et int, log [][]int){}
var joinAr = map[int]int{}
var travT = map[int]func(ids []int, isNil bool, tbl map[int]int) (res string, et int, log []int){}
var toerrT = map[int]func(args []int, success bool, etag int) (res []int, et int, log [][]int){}
var toerrAr = map[int][2]int{}
var toerrNames = map[int]string{}

func ints(l []int) string {
	var b strings.Builder
	b.WriteByte('(')
	for i, x := range l {
		if i > 0 {
			b.WriteByte(' ')
		}
		b.WriteString(strconv.Itoa(x))
	}
	b.WriteByte(')')
	return b.String()
}

func intss(l [][]int) string {
	s := make([]string, len(l))
	for i, x := range l {
		s[i] = ints(x)
	}
	return "(" + strings.Join(s, " ") + ")"
}

func parseCSV(s string) []int {
	if s == "-" || s == "" {
		return []int{}
	}
	var out []int
	for _, f := range strings.Split(s, ",") {
		out = append(out, atoi(f))
	}
	return out
}

func main() {
	f, err := os.Open(os.Args[1])
	if err != nil {
		panic(err)
	}
	sc := bufio.NewScanner(f)
	sc.Buffer(make([]byte, 1<<20), 1<<24)
	w := bufio.NewWriter(os.Stdout)
	defer w.Flush()
	for sc.Scan() {
		p := strings.Fields(sc.Text())
		if len(p) < 2 {
			continue
		}
		id := atoi(p[1])
		var head string
		func() {
			defer func() {
				if r := recover(); r != nil {
					fmt.Fprintf(w, "(%s panic)\n", head)
				}
			}()
			switch p[0] {
			case "compose":
				errs, zs, args := parseCSV(p[2]), parseCSV(p[3]), parseCSV(p[4])
				if allZero(zs) {
					head = fmt.Sprintf("compose %s %s %s", ints(composeAr[id]), ints(errs), ints(args))
				} else {
					head = fmt.Sprintf("composez %s %s %s %s", ints(composeAr[id]), ints(errs), ints(zs), ints(args))
				}
				res, et, log := composeT[id](errs, zs, args)
				fmt.Fprintf(w, "(%s (ret %s %d %s))\n", head, ints(res), et, intss(log))
			case "fmap":
				gerr, gval := atoi(p[2]), atoi(p[3])
				head = fmt.Sprintf("fmap %d %d %d", fmapAr[id], gerr, gval)
				res, et, log := fmapT[id](gerr, gval)
				fmt.Fprintf(w, "(%s (ret %s %d %s))\n", head, res, et, intss(log))
			case "bind":
				gerr, gval, ferr := atoi(p[2]), atoi(p[3]), atoi(p[4])
				head = fmt.Sprintf("bind %d %d %d", gerr, gval, ferr)
				res, et, log := bindT[id](gerr, gval, ferr)
				fmt.Fprintf(w, "(%s (ret %s %d %s))\n", head, ints(res), et, intss(log))
			case "join":
				e, ferr, conv := atoi(p[2]), atoi(p[3]), atoi(p[4])
				head = fmt.Sprintf("join %d %d %d %d", joinAr[id], e, ferr, conv)
				res, et, log := joinT[id](e, ferr, conv)
				fmt.Fprintf(w, "(%s (ret %s %d %s))\n", head, ints(res), et, intss(log))
			case "traverse":
				ids := parseCSV(p[3])
				tbl := map[int]int{}
				var tb []string
				if len(p) > 4 {
					for _, kv := range strings.Split(p[4], ",") {
						q := strings.Split(kv, ":")
						tbl[atoi(q[0])] = atoi(q[1])
						tb = append(tb, "("+q[0]+" "+q[1]+")")
					}
				}
				head = fmt.Sprintf("traverse %s (%s)", ints(ids), strings.Join(tb, " "))
				res, et, log := travT[id](ids, p[2] == "nil", tbl)
				fmt.Fprintf(w, "(%s (ret %s %d %s))\n", head, res, et, ints(log))
			case "toerror":
				args, sc, t := parseCSV(p[2]), atoi(p[3]), atoi(p[4])
				head = fmt.Sprintf("toerror %d %s %d %d", toerrAr[id][1], ints(args), sc, t)
				if nm, ok := toerrNames[id]; ok {
					head = fmt.Sprintf("toerrorp %d %s %s %d %d", toerrAr[id][1], nm, ints(args), sc, t)
				}
				res, et, log := toerrT[id](args, sc != 0, t)
				fmt.Fprintf(w, "(%s (ret %s %d %s))\n", head, ints(res), et, intss(log))
			}
		}()
	}
}

`

// translateCompose turns the body of every generated deriveCompose into the statement IR of
// coq/theories/Chain/ComposeIR.v.  Variables are numbered by their place of definition
// (parameter j of the returned func = (0, j); value j defined by the k-th call = (k+1, j); the
// error variable of the k-th call = k), so the names chosen by the generator do not matter.
// A function whose text is outside the IR (another statement form) is only counted.
func translateCompose(src string, want map[string][]int, meta *hx.Meta) []string {
	fset := token.NewFileSet()
	f, err := parser.ParseFile(fset, "derived.gen.go", src, 0)
	if err != nil {
		return nil
	}
	var out []string
	for _, d := range f.Decls {
		fd, ok := d.(*ast.FuncDecl)
		if !ok || fd.Body == nil {
			continue
		}
		ar, ok := want[fd.Name.Name]
		if !ok {
			continue
		}
		ir, ok := translateOne(fd)
		if !ok {
			meta.Count("compose-text/outside-the-IR")
			continue
		}
		out = append(out, fmt.Sprintf("(ir %s (%s))", hx.Ints(ar), strings.Join(ir, " ")))
		meta.Count("compose-text/translated")
	}
	return out
}

func translateOne(fd *ast.FuncDecl) ([]string, bool) {
	fns := map[string]int{}
	k := 0
	for _, fl := range fd.Type.Params.List {
		for _, nm := range fl.Names {
			fns[nm.Name] = k
			k++
		}
	}
	if len(fd.Body.List) != 1 {
		return nil, false
	}
	rs, ok := fd.Body.List[0].(*ast.ReturnStmt)
	if !ok || len(rs.Results) != 1 {
		return nil, false
	}
	lit, ok := rs.Results[0].(*ast.FuncLit)
	if !ok {
		return nil, false
	}
	vals := map[string][2]int{}
	errs := map[string]int{}
	j := 0
	if lit.Type.Params != nil {
		for _, fl := range lit.Type.Params.List {
			for _, nm := range fl.Names {
				vals[nm.Name] = [2]int{0, j}
				j++
			}
		}
	}
	refs := func(es []ast.Expr) (string, bool) {
		var l []string
		for _, e := range es {
			id, ok := e.(*ast.Ident)
			if !ok {
				return "", false
			}
			v, ok := vals[id.Name]
			if !ok {
				return "", false
			}
			l = append(l, fmt.Sprintf("(%d %d)", v[0], v[1]))
		}
		return "(" + strings.Join(l, " ") + ")", true
	}
	var ir []string
	calls := 0
	for _, st := range lit.Body.List {
		switch s := st.(type) {
		case *ast.AssignStmt:
			if s.Tok != token.DEFINE || len(s.Rhs) != 1 || len(s.Lhs) == 0 {
				return nil, false
			}
			ce, ok := s.Rhs[0].(*ast.CallExpr)
			if !ok {
				return nil, false
			}
			fid, ok := ce.Fun.(*ast.Ident)
			if !ok {
				return nil, false
			}
			fn, ok := fns[fid.Name]
			if !ok {
				return nil, false
			}
			args, ok := refs(ce.Args)
			if !ok {
				return nil, false
			}
			var outs []string
			for i, e := range s.Lhs {
				id, ok := e.(*ast.Ident)
				if !ok {
					return nil, false
				}
				if i == len(s.Lhs)-1 {
					errs[id.Name] = calls
				} else {
					vals[id.Name] = [2]int{calls + 1, i}
					outs = append(outs, fmt.Sprintf("(%d %d)", calls+1, i))
				}
			}
			ir = append(ir, fmt.Sprintf("(call (%s) %d %d %s)", strings.Join(outs, " "), calls, fn, args))
			calls++
		case *ast.IfStmt:
			be, ok := s.Cond.(*ast.BinaryExpr)
			if !ok || be.Op != token.NEQ || s.Init != nil || s.Else != nil || len(s.Body.List) != 1 {
				return nil, false
			}
			x, ok1 := be.X.(*ast.Ident)
			y, ok2 := be.Y.(*ast.Ident)
			if !ok1 || !ok2 || y.Name != "nil" {
				return nil, false
			}
			ev, ok := errs[x.Name]
			if !ok {
				return nil, false
			}
			r, ok := s.Body.List[0].(*ast.ReturnStmt)
			if !ok || len(r.Results) == 0 {
				return nil, false
			}
			last, ok := r.Results[len(r.Results)-1].(*ast.Ident)
			if !ok || last.Name != x.Name {
				return nil, false
			}
			for _, e := range r.Results[:len(r.Results)-1] {
				// a zero slot must not mention a variable
				bad := false
				ast.Inspect(e, func(n ast.Node) bool {
					if id, ok := n.(*ast.Ident); ok {
						if _, isVal := vals[id.Name]; isVal {
							bad = true
						}
						if _, isErr := errs[id.Name]; isErr {
							bad = true
						}
					}
					return true
				})
				if bad {
					return nil, false
				}
			}
			ir = append(ir, fmt.Sprintf("(iferr %d %d)", ev, len(r.Results)-1))
		case *ast.ReturnStmt:
			if len(s.Results) == 0 {
				return nil, false
			}
			last, ok := s.Results[len(s.Results)-1].(*ast.Ident)
			if !ok || last.Name != "nil" {
				return nil, false
			}
			vs, ok := refs(s.Results[:len(s.Results)-1])
			if !ok {
				return nil, false
			}
			ir = append(ir, fmt.Sprintf("(ret %s)", vs))
		default:
			return nil, false
		}
	}
	return ir, true
}
