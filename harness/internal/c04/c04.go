// Package c04: correspondence harness of C04 (stub: replaced when C04 is built).
package c04

import (
	"fmt"

	"verifharness/internal/hx"
)

func Run(cfg hx.Config) (*hx.Meta, error) {
	return nil, fmt.Errorf("C04: harness not built yet")
}
