// Package c04: derived Hash vs the model of plugin/hash; Equal values hash alike.
package c04

import (
	"fmt"
	"strings"

	"verifharness/internal/ga"
	"verifharness/internal/hx"
)

func Run(cfg hx.Config) (*hx.Meta, error) {
	vr := &ga.ValueRun{
		Prop: "C04", Calls: []ga.Call{ga.CallHash, ga.CallEq}, SupObs: "sup-hash", PoolQuick: 14, PoolThorough: 24, TwoProcess: true,
		Cases: func(idx int, t *ga.Type, vals []*ga.Val, r *hx.Rand, out *strings.Builder) {
			for _, x := range vals {
				// hash of the value, with the argument serialised before and after the call
				fmt.Fprintf(out, "hash+ %d %s\n", idx, x.Sexp())
			}
			for _, x := range vals {
				for _, y := range vals {
					fmt.Fprintf(out, "hasheq %d %s %s\n", idx, x.Sexp(), y.Sexp())
				}
			}
		},
	}
	return vr.Run(cfg)
}
