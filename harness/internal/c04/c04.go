// Package c04: derived Hash vs the model of plugin/hash; Equal values hash alike.
package c04

import (
	"fmt"
	"strings"

	"verifharness/internal/ga"
	"verifharness/internal/hx"
)

func Run(cfg hx.Config) (*hx.Meta, error) {
	vr := &ga.ValueRun{
		Prop: "C04", Calls: []ga.Call{ga.CallHash, ga.CallEq}, SupObs: "sup-hash", PoolQuick: 14, PoolThorough: 24, TwoProcess: true,
		Cases: func(idx int, t *ga.Type, vals []*ga.Val, r *hx.Rand, out *strings.Builder) {
			for _, x := range vals {
				// hash of the value, with the argument serialised before and after the call
				fmt.Fprintf(out, "hash+ %d %s\n", idx, x.Sexp())
			}
			for _, x := range vals {
				for _, y := range vals {
					fmt.Fprintf(out, "hasheq %d %s %s\n", idx, x.Sexp(), y.Sexp())
				}
			}
		},
	}
	meta, err := vr.Run(cfg)
	if err != nil {
		return nil, err
	}
	// hardening round 4: the equality-preserving rewrite +0 <-> -0 applied INSIDE MAP KEYS: maps keyed by
	// structs and arrays that contain floats (their keys are ordered with derived Compare before they are
	// hashed), the same key set under several sign patterns of the zeros and several insertion orders
	cat := ga.NewCatalogue()
	x := &ga.ExtraRun{VR: vr, Name: "floatkeys", Types: cat.FloatKeyShapesHB(), Pool: ga.FloatKeyPoolHB, Probe: cfg.Tier == "thorough"}
	if err := x.Run(cfg, meta); err != nil {
		return nil, err
	}
	// hardening round 5: maps whose keys are (or contain) structs of an IMPORTED package with unexported
	// fields: derived Hash leaves those fields out, so keys that agree in their exported fields hash alike
	// and only the order derived Compare gives them (through reflect+unsafe) keeps the hash of the map
	// independent of the order in which it was populated; keys that differ in unexported fields only,
	// different values under them, many insertion orders
	y := &ga.ExtraRun{VR: vr, Name: "privkeys", Types: cat.PrivKeyShapesR5(), Pool: ga.PrivKeyPoolR5, Probe: cfg.Tier == "thorough"}
	if err := y.Run(cfg, meta); err != nil {
		return nil, err
	}
	// ... and types recursive through a map, with pairs of Equal two-level trees whose inner maps outgrow
	// every map of the type hashed before in the process (scratch state kept between calls shows when it has
	// to grow): the pairs are hashed FIRST, in ascending size, then every value alone, then all pairs
	vr2 := *vr
	vr2.Cases = func(idx int, t *ga.Type, vals []*ga.Val, r *hx.Rand, out *strings.Builder) {
		for i := 0; i+1 < len(vals); i += 2 {
			fmt.Fprintf(out, "hasheq %d %s %s\n", idx, vals[i].Sexp(), vals[i+1].Sexp())
		}
		vr.Cases(idx, t, vals, r, out)
	}
	z := &ga.ExtraRun{VR: &vr2, Name: "recmaps", Types: cat.RecMapShapesR5(), Pool: ga.RecMapPoolR5, Probe: cfg.Tier == "thorough"}
	if err := z.Run(cfg, meta); err != nil {
		return nil, err
	}
	return meta, nil
}
