// Package c17: Fmap and Join over slices and strings (behavioural correspondence).
package c17

import (
	"fmt"
	"os"
	"path/filepath"
	"strings"

	"verifharness/internal/hx"
)

// carrier: a Go type that can carry an element id, with encoder/decoder expressions.
// Id 0 is carried by the zero value of the type wherever the type has one that differs from
// the encoding of a number (nil pointer/slice/map/interface, empty string).
type carrier struct {
	name string // identifier-safe
	typ  string
	enc  string // expression in x (int)
	dec  string // expression in v
	// ids the type can carry: lo..hi inclusive; lo == hi == 0 means any int of modest size
	lo, hi  int
	special []int // the awkward values of the type
}

var anySpecial = []int{0, -1, 1, -1000, 1 << 31, -(1 << 31) - 1}
var runeSpecial = []int{-1, -16, 0, 0x7f, 0x80, 0xff, 0xd7ff, 0xd800, 0xdbff, 0xdc00, 0xdfff, 0xe000, 0xfffd, 0xfffe, 0xffff,
	0x10000, 0x10ffff, 0x110000, 1<<31 - 1, -(1 << 31)}
var byteSpecial = []int{0, 0x7f, 0x80, 0xa9, 0xbf, 0xc0, 0xc3, 0xe2, 0xf0, 0xff}
var u16Special = []int{0, 0x7f, 0x80, 0xff, 0xd7ff, 0xd800, 0xdbff, 0xdc00, 0xdfff, 0xfffd, 0xffff}

var carriers = []carrier{
	{name: "int", typ: "int", enc: "int(x)", dec: "int(v)"},
	{name: "string", typ: "string", enc: "itoaz(x)", dec: "atoi(v)"},
	{name: "ptrS", typ: "*S", enc: "pS(x)", dec: "dpS(v)"},
	{name: "S", typ: "S", enc: "S{A: x, B: \"b\"}", dec: "v.A"},
	{name: "slint", typ: "[]int", enc: "sl(x)", dec: "dsl(v)"},
	{name: "NI", typ: "NI", enc: "NI(x)", dec: "int(v)"},
	{name: "mapsi", typ: "map[string]int", enc: "mp(x)", dec: "dmp(v)"},
	{name: "arr2", typ: "[2]int", enc: "[2]int{x, x}", dec: "v[0]"},
	{name: "f64", typ: "float64", enc: "float64(x)", dec: "int(v)"},
	{name: "iface", typ: "interface{}", enc: "ifc(x)", dec: "difc(v)"},
	{name: "i8", typ: "int64", enc: "int64(x)", dec: "int(v)"},
	{name: "pp", typ: "**int", enc: "ppint(x)", dec: "dpp(v)"},
}

// byte-like and rune-like element types, for which library shortcuts exist (strings.Map, bytes.Map,
// string(runes), utf16.Encode, ...) that interpret the values instead of carrying them; bool (two values).
var extraCarriers = []carrier{
	{name: "u8", typ: "uint8", enc: "uint8(x)", dec: "int(v)", lo: 0, hi: 255, special: byteSpecial},
	{name: "NU8", typ: "NU8", enc: "NU8(x)", dec: "int(v)", lo: 0, hi: 255, special: byteSpecial},
	{name: "rune", typ: "rune", enc: "rune(x)", dec: "int(v)", lo: -(1 << 31), hi: 1<<31 - 1, special: runeSpecial},
	{name: "NR", typ: "NR", enc: "NR(x)", dec: "int(v)", lo: -(1 << 31), hi: 1<<31 - 1, special: runeSpecial},
	{name: "u16", typ: "uint16", enc: "uint16(x)", dec: "int(v)", lo: 0, hi: 65535, special: u16Special},
	{name: "bool", typ: "bool", enc: "x != 0", dec: "b2i(v)", lo: 0, hi: 1, special: []int{0, 1}},
}

var allCarriers = append(append([]carrier{}, carriers...), extraCarriers...)

// joinCarriers: Join is also exercised on byte-like element types (element ids stay below 256)
var joinCarriers = allCarriers[:len(carriers)+3]

func (c carrier) restricted() bool { return c.hi > c.lo }

func (c carrier) specials() []int {
	if c.special != nil {
		return c.special
	}
	return anySpecial
}

// randVal: an id the carrier can carry, biased to the awkward values
func (c carrier) randVal(r *hx.Rand) int {
	switch k := r.Intn(10); {
	case k < 4:
		return hx.Pick(r, c.specials())
	case !c.restricted():
		return r.Intn(200) - 40
	case k < 7 && c.hi >= 126:
		return 32 + r.Intn(95)
	case c.hi-c.lo < 1<<16:
		return c.lo + r.Intn(c.hi-c.lo+1)
	default: // rune-like: mostly code points
		return r.Intn(0x110000+0x800) - 0x400
	}
}

// fspec: the function handed to Fmap, on ids: f x = wrap(tbl[x] or m*x+b); wrap into lo..lo+q-1 when q > 0
// (Eval17.fn_of is the same function).
type fspec struct {
	m, b, q, lo int
	tbl         [][2]int
}

func (f fspec) String() string {
	var b strings.Builder
	fmt.Fprintf(&b, "(%d %d %d %d", f.m, f.b, f.q, f.lo)
	for _, kv := range f.tbl {
		fmt.Fprintf(&b, " (%d %d)", kv[0], kv[1])
	}
	b.WriteByte(')')
	return b.String()
}

const nFKinds = 8

// mkF: the k-th kind of function into carrier c, given the ids it will be applied to
func mkF(k int, c carrier, ids []int, r *hx.Rand) fspec {
	f := fspec{m: 1}
	if c.restricted() {
		f.q, f.lo = c.hi-c.lo+1, c.lo
	}
	sp := c.specials()
	switch k % nFKinds {
	case 0: // identity on ids (wrapped into the type)
	case 1: // digit value: negative below '0'
		f.b = -48
	case 2: // negation
		f.m = -1
	case 3: // constant: an awkward value
		f.m, f.b = 0, hx.Pick(r, sp)
	case 4: // shift so that one of the elements lands exactly on an awkward value (its neighbours next to it)
		f.b = hx.Pick(r, sp)
		if len(ids) > 0 {
			f.b -= hx.Pick(r, ids)
		}
	case 5: // some elements map to awkward values, the others to id+1000
		f.b = 1000
		seen := map[int]bool{}
		for _, x := range ids {
			if !seen[x] && r.Intn(2) == 0 {
				f.tbl = append(f.tbl, [2]int{x, hx.Pick(r, sp)})
			}
			seen[x] = true
		}
	case 6: // successor
		f.b = 1
	case 7: // constant zero value
		f.m = 0
	}
	return f
}

// idsFor: n element ids for carrier c: awkward values, duplicates, and for byte/rune-like carriers the
// bytes/runes of a string of the pool (so that valid and invalid UTF-8 sequences occur as element sequences)
func idsFor(c carrier, n int, strs []string, r *hx.Rand) []int {
	ids := make([]int, 0, n)
	if c.restricted() && c.hi >= 255 && r.Intn(3) == 0 {
		for len(ids) < n {
			s := hx.Pick(r, strs)
			if s == "" {
				continue
			}
			if c.hi == 255 {
				for i := 0; i < len(s) && len(ids) < n; i++ {
					ids = append(ids, int(s[i]))
				}
			} else {
				for _, x := range s {
					if len(ids) < n && int(x) <= c.hi {
						ids = append(ids, int(x))
					}
				}
			}
		}
		return ids
	}
	for i := 0; i < n; i++ {
		if i > 0 && r.Intn(4) == 0 {
			ids = append(ids, ids[r.Intn(i)]) // equal elements: f is still called once for each
		} else {
			ids = append(ids, c.randVal(r))
		}
	}
	return ids
}

func Run(cfg hx.Config) (*hx.Meta, error) {
	meta := &hx.Meta{Property: "C17", Seed: cfg.Seed, Tier: cfg.Tier}
	r := hx.NewRand(cfg.Seed)
	dir := filepath.Join(cfg.Work, "c17pkg")
	if err := hx.Module(dir); err != nil {
		return nil, err
	}
	nc := len(carriers)
	type inst struct{ a, b carrier }
	var insts []inst
	if cfg.Tier == "thorough" {
		for _, a := range carriers {
			for _, b := range carriers {
				insts = append(insts, inst{a, b})
			}
		}
	} else {
		// every carrier at least once as input and once as output, plus seeded extras
		for i := 0; i < nc; i++ {
			insts = append(insts, inst{carriers[i], carriers[(i+1+r.Intn(nc-1))%nc]})
		}
		for i := 0; i < 12; i++ {
			insts = append(insts, inst{carriers[r.Intn(nc)], carriers[r.Intn(nc)]})
		}
		// functions whose result type is their parameter type (the result could be written over the input)
		for i := 0; i < nc; i += 2 {
			insts = append(insts, inst{carriers[i], carriers[i]})
		}
		seen := map[string]bool{}
		var u []inst
		for _, in := range insts {
			k := in.a.name + "/" + in.b.name
			if !seen[k] {
				seen[k] = true
				u = append(u, in)
			}
		}
		insts = u
	}
	// everything added in hardening round 4 draws from its own stream (the cases above stay what they were)
	r2 := hx.NewRand(cfg.Seed ^ 0xC17C17C17)
	nOld := len(insts)
	{
		byName := map[string]carrier{}
		for _, c := range allCarriers {
			byName[c.name] = c
		}
		seen := map[string]bool{}
		for _, in := range insts {
			seen[in.a.name+"/"+in.b.name] = true
		}
		add := func(a, b carrier) {
			if k := a.name + "/" + b.name; !seen[k] {
				seen[k] = true
				insts = append(insts, inst{a, b})
			}
		}
		// the pairs for which a library shortcut exists: rune/byte/string to rune/byte/string, same named type
		for _, p := range [][2]string{{"rune", "rune"}, {"u8", "u8"}, {"u8", "rune"}, {"rune", "u8"}, {"string", "string"},
			{"rune", "string"}, {"string", "rune"}, {"u8", "string"}, {"string", "u8"}, {"NR", "NR"}, {"NU8", "NU8"},
			{"u16", "rune"}, {"rune", "u16"}, {"u16", "u16"}, {"bool", "bool"}, {"int", "rune"}, {"rune", "int"}, {"int", "bool"}} {
			add(byName[p[0]], byName[p[1]])
		}
		if cfg.Tier == "thorough" {
			for _, a := range allCarriers {
				for _, b := range extraCarriers {
					add(a, b)
					add(b, a)
				}
			}
		} else {
			na := len(allCarriers)
			for _, c := range extraCarriers { // each new carrier also with a random partner, both ways
				add(c, allCarriers[r2.Intn(na)])
				add(allCarriers[r2.Intn(na)], c)
			}
		}
	}

	var calls, drv strings.Builder
	calls.WriteString("package main\n\ntype S struct {\n\tA int\n\tB string\n}\n\ntype NI int\n\ntype NU8 uint8\n\ntype NR rune\n\n")
	drv.WriteString(driverHeader)
	for _, in := range insts {
		fn := "fmap_" + in.a.name + "_" + in.b.name
		fmt.Fprintf(&calls, "func %s(f func(%s) %s, l []%s) []%s { return deriveFmap_%s_%s(f, l) }\n",
			fn, in.a.typ, in.b.typ, in.a.typ, in.b.typ, in.a.name, in.b.name)
		fmt.Fprintf(&drv, `
func init() {
	fmapSlice[%q] = func(ids []int, isNil bool, fn func(int) int) (out, log, after []int) {
		var in []%s
		if !isNil {
			in = make([]%s, len(ids))
		}
		for i, x := range ids {
			in[i] = func(x int) %s { return %s }(x)
		}
		res := %s(func(v %s) %s {
			id := %s
			log = append(log, id)
			x := fn(id)
			return %s
		}, in)
		for _, v := range res {
			out = append(out, %s)
		}
		for _, v := range in {
			after = append(after, func(v %s) int { return %s }(v))
		}
		if !isNil {
			// the same elements as a prefix of a longer backing array (xs[:k], a slice grown by append):
			// the result and the calls of f must be the same
			in2 := make([]%s, len(ids), len(ids)+3)
			copy(in2, in)
			var log2 []int
			res2 := %s(func(v %s) %s {
				id := %s
				log2 = append(log2, id)
				x := fn(id)
				return %s
			}, in2)
			if !reflect.DeepEqual(res, res2) || !reflect.DeepEqual(log, log2) {
				out = append(out, -424242, len(res2)) // result depends on the spare capacity of the input
			}
		}
		return
	}
}
`, in.a.name+"/"+in.b.name, in.a.typ, in.a.typ, in.a.typ, in.a.enc, fn, in.a.typ, in.b.typ, in.a.dec, in.b.enc, in.b.dec, in.a.typ, in.a.dec,
			in.a.typ, fn, in.a.typ, in.b.typ, in.a.dec, in.b.enc)
	}
	for _, b := range allCarriers {
		fn := "fmapstr_" + b.name
		fmt.Fprintf(&calls, "func %s(f func(rune) %s, s string) []%s { return deriveFmapStr_%s(f, s) }\n", fn, b.typ, b.typ, b.name)
		fmt.Fprintf(&drv, `
func init() {
	fmapString[%q] = func(s string, fn func(int) int) (out, log []int) {
		res := %s(func(r rune) %s {
			log = append(log, int(r))
			x := fn(int(r))
			return %s
		}, s)
		for _, v := range res {
			out = append(out, %s)
		}
		return
	}
}
`, b.name, fn, b.typ, b.enc, b.dec)
	}
	for _, a := range allCarriers {
		fn := "join_" + a.name
		fmt.Fprintf(&calls, "func %s(l [][]%s) []%s { return deriveJoin_%s(l) }\n", fn, a.typ, a.typ, a.name)
		fmt.Fprintf(&drv, `
func init() {
	joinSlices[%q] = func(ll [][]int, nils []bool, isNil bool) (out []int, outNil bool, after [][]int) {
		var in [][]%s
		if !isNil {
			in = make([][]%s, len(ll))
		}
		for i, l := range ll {
			if !nils[i] {
				in[i] = make([]%s, len(l), len(l)+3) // spare capacity: append into an input would show
			}
			for j, x := range l {
				in[i][j] = func(x int) %s { return %s }(x)
			}
		}
		res := %s(in)
		outNil = res == nil
		for _, v := range res {
			out = append(out, %s)
		}
		for _, l := range in {
			var a []int
			for _, v := range l {
				a = append(a, func(v %s) int { return %s }(v))
			}
			for _, v := range l[len(l):cap(l)] {
				if !reflect.ValueOf(&v).Elem().IsZero() {
					a = append(a, -1) // something was appended into an input's spare capacity
				}
			}
			after = append(after, a)
		}
		return
	}
}
`, a.name, a.typ, a.typ, a.typ, a.typ, a.enc, fn, a.dec, a.typ, a.dec)
	}
	calls.WriteString("func joinstr(l []string) string { return deriveJoinStr(l) }\n")

	// ---- cases ----
	var cases strings.Builder
	ncase := 0
	lens := []int{0, 1, 2, 3, 5}
	if cfg.Tier == "thorough" {
		lens = []int{0, 1, 2, 3, 4, 5, 8, 17}
	}
	for _, in := range insts[:nOld] {
		key := in.a.name + "/" + in.b.name
		fmt.Fprintf(&cases, "fmap-slice %s nil ()\n", key)
		ncase++
		for _, n := range lens {
			ids := make([]int, n)
			for i := range ids {
				ids[i] = 1 + r.Intn(90)
			}
			fmt.Fprintf(&cases, "fmap-slice %s list %s\n", key, hx.Ints(ids))
			ncase++
		}
	}
	strs := stringPool(r, cfg.Tier)
	for i, s := range strs {
		b := carriers[i%nc]
		fmt.Fprintf(&cases, "fmap-string %s %s\n", b.name, hx.Bytes([]byte(s)))
		fmt.Fprintf(&cases, "range-string - %s\n", hx.Bytes([]byte(s)))
		ncase += 2
		if strings.IndexFunc(s, func(r rune) bool { return r >= 0x80 }) >= 0 {
			meta.Count("string/non-ascii")
		} else {
			meta.Count("string/ascii")
		}
	}
	// join: shapes of list-of-lists
	njoin := 8
	if cfg.Tier == "thorough" {
		njoin = 40
	}
	for _, a := range joinCarriers {
		fmt.Fprintf(&cases, "join-slices %s nil\n", a.name)
		fmt.Fprintf(&cases, "join-slices %s ()\n", a.name)
		fmt.Fprintf(&cases, "join-slices %s (nil)\n", a.name)
		fmt.Fprintf(&cases, "join-slices %s (() nil ())\n", a.name)
		ncase += 4
		for k := 0; k < njoin; k++ {
			n := r.Intn(5)
			parts := make([]string, n)
			for i := range parts {
				switch r.Intn(5) {
				case 0:
					parts[i] = "nil"
				case 1:
					parts[i] = "()"
				default:
					m := 1 + r.Intn(4)
					ids := make([]int, m)
					for j := range ids {
						ids[j] = 1 + r.Intn(90)
					}
					parts[i] = hx.Ints(ids)
				}
			}
			fmt.Fprintf(&cases, "join-slices %s (%s)\n", a.name, strings.Join(parts, " "))
			ncase++
		}
	}
	for k := 0; k < 3*njoin; k++ {
		n := r.Intn(5)
		parts := make([]string, n)
		for i := range parts {
			parts[i] = hx.Bytes([]byte(hx.Pick(r, strs)))
		}
		fmt.Fprintf(&cases, "join-strings - (%s)\n", strings.Join(parts, " "))
		ncase++
	}
	fmt.Fprintf(&cases, "join-strings - nil\n")
	ncase++

	// ---- hardening round 4: f is part of the case ----
	// Fmap over slices: every instance with functions of every kind (results that are negative, zero values,
	// surrogates / beyond 0x10FFFF for rune-like results, bytes >= 0x80 for byte-like results), inputs with
	// awkward and repeated elements.
	fnLens := []int{1, 2, 3, 5, 6}
	if cfg.Tier == "thorough" {
		fnLens = []int{0, 1, 2, 3, 4, 5, 6, 8, 9, 13, 17, 33}
	}
	for ii, in := range insts {
		key := in.a.name + "/" + in.b.name
		fmt.Fprintf(&cases, "fmap-slice-fn %s %s;nil ()\n", key, mkF(r2.Intn(nFKinds), in.b, nil, r2))
		fmt.Fprintf(&cases, "fmap-slice-fn %s %s;list ()\n", key, mkF(r2.Intn(nFKinds), in.b, nil, r2))
		ncase += 2
		for j, n := range fnLens {
			ids := idsFor(in.a, n, strs, r2)
			k := ii + j // every kind of function on every instance over a few runs; all kinds on each run
			if cfg.Tier == "thorough" || in.b.restricted() && in.a.restricted() {
				k = r2.Intn(nFKinds)
			}
			fmt.Fprintf(&cases, "fmap-slice-fn %s %s;list %s\n", key, mkF(k, in.b, ids, r2), hx.Ints(ids))
			ncase++
			meta.Count(fmt.Sprintf("fn-kind/%d", k%nFKinds))
		}
		if in.b.restricted() { // byte/rune-like results: every kind of function, each time
			for k := 0; k < nFKinds; k++ {
				ids := idsFor(in.a, 2+r2.Intn(5), strs, r2)
				fmt.Fprintf(&cases, "fmap-slice-fn %s %s;list %s\n", key, mkF(k, in.b, ids, r2), hx.Ints(ids))
				ncase++
				meta.Count(fmt.Sprintf("fn-kind/%d", k))
			}
		}
	}
	// Fmap over strings: every result carrier; rune-like and byte-like results with every kind of function
	nstr := 3
	if cfg.Tier == "thorough" {
		nstr = 40
	}
	for bi, b := range allCarriers {
		for k := 0; k < nFKinds; k++ {
			if !b.restricted() && cfg.Tier != "thorough" && (k+bi)%2 == 0 {
				continue
			}
			for j := 0; j < nstr; j++ {
				s := hx.Pick(r2, strs)
				if j == 0 { // at least one string that is not empty
					for s == "" {
						s = hx.Pick(r2, strs)
					}
				}
				rs := []rune(s)
				ids := make([]int, len(rs))
				for i, x := range rs {
					ids[i] = int(x)
				}
				fmt.Fprintf(&cases, "fmap-string-fn %s %s;%s\n", b.name, mkF(k, b, ids, r2), hx.Bytes([]byte(s)))
				ncase++
			}
		}
	}
	// Join over the remaining carriers
	for _, a := range allCarriers[len(joinCarriers):] {
		fmt.Fprintf(&cases, "join-slices %s nil\n", a.name)
		fmt.Fprintf(&cases, "join-slices %s ()\n", a.name)
		fmt.Fprintf(&cases, "join-slices %s (() nil ())\n", a.name)
		ncase += 3
		for k := 0; k < njoin; k++ {
			parts := make([]string, r2.Intn(5))
			for i := range parts {
				switch r2.Intn(5) {
				case 0:
					parts[i] = "nil"
				case 1:
					parts[i] = "()"
				default:
					parts[i] = hx.Ints(idsFor(a, 1+r2.Intn(4), strs, r2))
				}
			}
			fmt.Fprintf(&cases, "join-slices %s (%s)\n", a.name, strings.Join(parts, " "))
			ncase++
		}
	}

	files := map[string]string{"calls.go": calls.String(), "driver.go": drv.String(), "cases.txt": cases.String()}
	if err := hx.WriteFiles(dir, files); err != nil {
		return nil, err
	}
	meta.Packages = 1
	g := hx.Goderive(cfg.Goderive, dir, ".")
	meta.GoderiveRuns++
	if g.Exit != 0 {
		meta.AddDirect(hx.Direct{Class: "c17-generate-failed", What: "goderive failed on the C17 package",
			Files: map[string]string{"calls.go": files["calls.go"]}, Cmd: "goderive .", Output: hx.Truncate(g.Out, 4000)})
		return meta, nil
	}
	b := hx.GoBuild(dir, filepath.Join(dir, "drv"), "")
	if b.Exit != 0 {
		gen, _ := os.ReadFile(filepath.Join(dir, "derived.gen.go"))
		meta.AddDirect(hx.Direct{Class: "c17-build-failed", What: "generated C17 package does not compile",
			Files: map[string]string{"calls.go": files["calls.go"], "derived.gen.go": string(gen)}, Cmd: "goderive . && go build", Output: hx.Truncate(b.Out, 4000)})
		return meta, nil
	}
	res := hx.Run(dir, 120e9, 4000000, nil, filepath.Join(dir, "drv"), "cases.txt")
	if res.Exit != 0 {
		meta.AddDirect(hx.Direct{Class: "c17-driver-failed", What: "driver crashed", Cmd: "./drv cases.txt", Output: hx.Truncate(res.Out, 4000)})
		return meta, nil
	}
	obs := filepath.Join(cfg.Out, "c17.obs")
	if err := os.WriteFile(obs, []byte(res.Stdout), 0o644); err != nil {
		return nil, err
	}
	meta.ObsFiles = append(meta.ObsFiles, obs)
	meta.Cases = ncase
	meta.Count(fmt.Sprintf("fmap-instances=%d", len(insts)))
	sampled := map[string]int{}
	for _, l := range strings.Split(res.Stdout, "\n") {
		for _, k := range []string{"(fmap-string ", "(join-slices ", "(fmap-slice-fn ", "(fmap-string-fn "} {
			if strings.HasPrefix(l, k) && sampled[k] < 2 && len(l) > 60 {
				sampled[k]++
				meta.Sample(hx.Truncate(l, 200))
			}
		}
	}
	gen, _ := os.ReadFile(filepath.Join(dir, "derived.gen.go"))
	_ = os.WriteFile(filepath.Join(cfg.Out, "c17.derived.gen.go"), gen, 0o644)
	_ = os.WriteFile(filepath.Join(cfg.Out, "c17.calls.go"), []byte(files["calls.go"]), 0o644)
	return meta, nil
}

func stringPool(r *hx.Rand, tier string) []string {
	pool := []string{
		"", "a", "abc", "é", "éa", "aé", "aéb", "日本語", "a日b本c", "\U0001F600", "x\U0001F600y",
		"\xff", "a\xffb", "\xc3", "\xc3\x28", "\xe2\x82", "\xe2\x28\xa1", "\xf0\x9f\x98", "\xf0\x28\x8c\xbc",
		"\xed\xa0\x80", "\xed\x9f\xbf", "\xee\x80\x80", "\xf4\x8f\xbf\xbf", "\xf4\x90\x80\x80", "\xc0\x80", "\xc1\xbf",
		"\xe0\x80\x80", "\xe0\x9f\xbf", "\xe0\xa0\x80", "\xf0\x80\x80\x80", "\xf0\x8f\xbf\xbf", "\xf0\x90\x80\x80",
		"\x80", "\xbf", "\xf5", "\xf8\x88\x80\x80\x80", "\x00", "a\x00b", "\xef\xbf\xbd", "\"quote\"\n\t",
	}
	n := 60
	if tier == "thorough" {
		n = 1500
	}
	alphabet := []string{"a", "z", "0", "é", "ß", "日", "€", "\U0001F600", "\U00010000", "\xff", "\x80", "\xc3", "\xe2\x82", "\xf0\x9f", "\xed\xa0\x80", "\xf4\x90"}
	for i := 0; i < n; i++ {
		var b strings.Builder
		k := r.Intn(6)
		for j := 0; j < k; j++ {
			if r.Intn(8) == 0 {
				b.WriteByte(byte(r.Intn(256)))
			} else {
				b.WriteString(hx.Pick(r, alphabet))
			}
		}
		pool = append(pool, b.String())
	}
	return pool
}

const driverHeader = `package main

import (
	"bufio"
	"fmt"
	"os"
	"reflect"
	"strconv"
	"strings"
)

var fmapSlice = map[string]func(ids []int, isNil bool, fn func(int) int) (out, log, after []int){}
var fmapString = map[string]func(s string, fn func(int) int) (out, log []int){}
var joinSlices = map[string]func(ll [][]int, nils []bool, isNil bool) (out []int, outNil bool, after [][]int){}

func atoi(s string) int { n, _ := strconv.Atoi(s); return n }

// id 0 is carried by the zero value of the type
func itoaz(x int) string {
	if x == 0 {
		return ""
	}
	return strconv.Itoa(x)
}
func ppint(x int) **int {
	if x == 0 {
		return nil
	}
	p := &x
	return &p
}
func dpp(v **int) int {
	if v == nil {
		return 0
	}
	return **v
}
func pS(x int) *S {
	if x == 0 {
		return nil
	}
	return &S{A: x}
}
func dpS(v *S) int {
	if v == nil {
		return 0
	}
	return v.A
}
func sl(x int) []int {
	if x == 0 {
		return nil
	}
	return []int{x, 7}
}
func dsl(v []int) int {
	if v == nil {
		return 0
	}
	return v[0]
}
func mp(x int) map[string]int {
	if x == 0 {
		return nil
	}
	return map[string]int{"k": x}
}
func dmp(v map[string]int) int {
	if v == nil {
		return 0
	}
	return v["k"]
}
func ifc(x int) interface{} {
	if x == 0 {
		return nil
	}
	return x
}
func difc(v interface{}) int {
	if v == nil {
		return 0
	}
	return v.(int)
}
func b2i(b bool) int {
	if b {
		return 1
	}
	return 0
}

func plus1000(x int) int { return x + 1000 }

// fspec: "(m b q lo (k v) ...)" — see Eval17.fn_of
func parseF(s string) func(int) int {
	l := parseInts(strings.NewReplacer("(", " ", ")", " ").Replace(s))
	m, b, q, lo := l[0], l[1], l[2], l[3]
	tbl := map[int]int{}
	for i := len(l) - 2; i >= 4; i -= 2 { // the first entry of a key wins
		tbl[l[i]] = l[i+1]
	}
	return func(x int) int {
		y, ok := tbl[x]
		if !ok {
			y = m*x + b
		}
		if q > 0 {
			y = lo + (((y-lo)%q)+q)%q
		}
		return y
	}
}

func ints(l []int) string {
	var b strings.Builder
	b.WriteByte('(')
	for i, x := range l {
		if i > 0 {
			b.WriteByte(' ')
		}
		b.WriteString(strconv.Itoa(x))
	}
	b.WriteByte(')')
	return b.String()
}

func parseInts(s string) []int {
	s = strings.TrimSpace(s)
	s = strings.TrimPrefix(s, "(")
	s = strings.TrimSuffix(s, ")")
	var out []int
	for _, f := range strings.Fields(s) {
		out = append(out, atoi(f))
	}
	return out
}

// parseLL parses "nil" or "(item item ...)" where item is nil or (ints)
func parseLL(s string) (ll [][]int, nils []bool, isNil bool) {
	s = strings.TrimSpace(s)
	if s == "nil" {
		return nil, nil, true
	}
	s = s[1 : len(s)-1]
	i := 0
	for i < len(s) {
		switch {
		case s[i] == ' ':
			i++
		case strings.HasPrefix(s[i:], "nil"):
			ll = append(ll, nil)
			nils = append(nils, true)
			i += 3
		case s[i] == '(':
			j := strings.IndexByte(s[i:], ')')
			ll = append(ll, parseInts(s[i:i+j+1]))
			nils = append(nils, false)
			i += j + 1
		default:
			panic("bad list of lists: " + s)
		}
	}
	return
}

func bytesOf(l []int) string {
	b := make([]byte, len(l))
	for i, x := range l {
		b[i] = byte(x)
	}
	return string(b)
}

func bytesSexp(s string) string {
	l := make([]int, len(s))
	for i := 0; i < len(s); i++ {
		l[i] = int(s[i])
	}
	return ints(l)
}

func main() {
	f, err := os.Open(os.Args[1])
	if err != nil {
		panic(err)
	}
	sc := bufio.NewScanner(f)
	sc.Buffer(make([]byte, 1<<20), 1<<24)
	w := bufio.NewWriter(os.Stdout)
	defer w.Flush()
	for sc.Scan() {
		line := sc.Text()
		parts := strings.SplitN(line, " ", 3)
		kind, inst, rest := parts[0], parts[1], parts[2]
		func() {
			defer func() {
				if r := recover(); r != nil {
					switch kind {
					case "fmap-slice":
						fmt.Fprintf(w, "(fmap-slice %s panic)\n", strings.SplitN(rest, " ", 2)[1])
					case "fmap-string":
						fmt.Fprintf(w, "(fmap-string %s panic)\n", rest)
					case "fmap-slice-fn":
						fs := strings.SplitN(rest, ";", 2)
						fmt.Fprintf(w, "(fmap-slice-fn (%s %s) panic)\n", fs[0], strings.SplitN(fs[1], " ", 2)[1])
					case "fmap-string-fn":
						fs := strings.SplitN(rest, ";", 2)
						fmt.Fprintf(w, "(fmap-string-fn (%s %s) panic)\n", fs[0], fs[1])
					default:
						fmt.Fprintf(w, "(%s %s panic)\n", kind, rest)
					}
				}
			}()
			switch kind {
			case "fmap-slice":
				p := strings.SplitN(rest, " ", 2)
				ids := parseInts(p[1])
				out, log, after := fmapSlice[inst](ids, p[0] == "nil", plus1000)
				fmt.Fprintf(w, "(fmap-slice %s (ret %s %s %s))\n", ints(ids), ints(out), ints(log), ints(after))
			case "fmap-string":
				s := bytesOf(parseInts(rest))
				out, log := fmapString[inst](s, plus1000)
				fmt.Fprintf(w, "(fmap-string %s (ret %s %s))\n", rest, ints(out), ints(log))
			case "fmap-slice-fn":
				fs := strings.SplitN(rest, ";", 2)
				p := strings.SplitN(fs[1], " ", 2)
				ids := parseInts(p[1])
				out, log, after := fmapSlice[inst](ids, p[0] == "nil", parseF(fs[0]))
				fmt.Fprintf(w, "(fmap-slice-fn (%s %s) (ret %s %s %s))\n", fs[0], ints(ids), ints(out), ints(log), ints(after))
			case "fmap-string-fn":
				fs := strings.SplitN(rest, ";", 2)
				s := bytesOf(parseInts(fs[1]))
				out, log := fmapString[inst](s, parseF(fs[0]))
				fmt.Fprintf(w, "(fmap-string-fn (%s %s) (ret %s %s))\n", fs[0], fs[1], ints(out), ints(log))
			case "range-string":
				s := bytesOf(parseInts(rest))
				var b strings.Builder
				b.WriteByte('(')
				first := true
				for i, r := range s {
					if !first {
						b.WriteByte(' ')
					}
					first = false
					fmt.Fprintf(&b, "(%d %d)", i, r)
				}
				b.WriteByte(')')
				fmt.Fprintf(w, "(range-string %s %s)\n", rest, b.String())
			case "join-slices":
				ll, nils, isNil := parseLL(rest)
				out, outNil, after := joinSlices[inst](ll, nils, isNil)
				o := ints(out)
				if outNil {
					o = "nil"
				}
				// inputs unmodified: report a panic-like marker if not
				for i := range ll {
					if ints(after[i]) != ints(ll[i]) {
						o = "input-modified"
					}
				}
				fmt.Fprintf(w, "(join-slices %s %s)\n", rest, o)
			case "join-strings":
				if rest == "nil" {
					fmt.Fprintf(w, "(join-strings () %s)\n", bytesSexp(joinstr(nil)))
					return
				}
				ll, _, _ := parseLL(rest)
				ss := make([]string, len(ll))
				for i, l := range ll {
					ss[i] = bytesOf(l)
				}
				fmt.Fprintf(w, "(join-strings %s %s)\n", rest, bytesSexp(joinstr(ss)))
			}
		}()
	}
}
`
