// Package c17: Fmap and Join over slices and strings (behavioural correspondence).
package c17

import (
	"fmt"
	"os"
	"path/filepath"
	"strings"

	"verifharness/internal/hx"
)

// carrier: a Go type that can carry an element id, with encoder/decoder expressions.
type carrier struct {
	name string // identifier-safe
	typ  string
	enc  string // expression in x (int)
	dec  string // expression in v
}

var carriers = []carrier{
	{"int", "int", "int(x)", "int(v)"},
	{"string", "string", "strconv.Itoa(x)", "atoi(v)"},
	{"ptrS", "*S", "&S{A: x}", "v.A"},
	{"S", "S", "S{A: x, B: \"b\"}", "v.A"},
	{"slint", "[]int", "[]int{x, 7}", "v[0]"},
	{"NI", "NI", "NI(x)", "int(v)"},
	{"mapsi", "map[string]int", "map[string]int{\"k\": x}", "v[\"k\"]"},
	{"arr2", "[2]int", "[2]int{x, x}", "v[0]"},
	{"f64", "float64", "float64(x)", "int(v)"},
	{"iface", "interface{}", "interface{}(x)", "v.(int)"},
	{"i8", "int64", "int64(x)", "int(v)"},
	{"pp", "**int", "ppint(x)", "**v"},
}

// joinCarriers: Join is also exercised on byte-like element types (element ids stay below 256)
var joinCarriers = append(append([]carrier{}, carriers...),
	carrier{"u8", "uint8", "uint8(x)", "int(v)"},
	carrier{"NU8", "NU8", "NU8(x)", "int(v)"},
	carrier{"rune", "rune", "rune(x)", "int(v)"},
)

func Run(cfg hx.Config) (*hx.Meta, error) {
	meta := &hx.Meta{Property: "C17", Seed: cfg.Seed, Tier: cfg.Tier}
	r := hx.NewRand(cfg.Seed)
	dir := filepath.Join(cfg.Work, "c17pkg")
	if err := hx.Module(dir); err != nil {
		return nil, err
	}
	nc := len(carriers)
	type inst struct{ a, b carrier }
	var insts []inst
	if cfg.Tier == "thorough" {
		for _, a := range carriers {
			for _, b := range carriers {
				insts = append(insts, inst{a, b})
			}
		}
	} else {
		// every carrier at least once as input and once as output, plus seeded extras
		for i := 0; i < nc; i++ {
			insts = append(insts, inst{carriers[i], carriers[(i+1+r.Intn(nc-1))%nc]})
		}
		for i := 0; i < 12; i++ {
			insts = append(insts, inst{carriers[r.Intn(nc)], carriers[r.Intn(nc)]})
		}
		// functions whose result type is their parameter type (the result could be written over the input)
		for i := 0; i < nc; i += 2 {
			insts = append(insts, inst{carriers[i], carriers[i]})
		}
		seen := map[string]bool{}
		var u []inst
		for _, in := range insts {
			k := in.a.name + "/" + in.b.name
			if !seen[k] {
				seen[k] = true
				u = append(u, in)
			}
		}
		insts = u
	}

	var calls, drv strings.Builder
	calls.WriteString("package main\n\ntype S struct {\n\tA int\n\tB string\n}\n\ntype NI int\n\ntype NU8 uint8\n\n")
	drv.WriteString(driverHeader)
	for _, in := range insts {
		fn := "fmap_" + in.a.name + "_" + in.b.name
		fmt.Fprintf(&calls, "func %s(f func(%s) %s, l []%s) []%s { return deriveFmap_%s_%s(f, l) }\n",
			fn, in.a.typ, in.b.typ, in.a.typ, in.b.typ, in.a.name, in.b.name)
		fmt.Fprintf(&drv, `
func init() {
	fmapSlice[%q] = func(ids []int, isNil bool) (out, log, after []int) {
		var in []%s
		if !isNil {
			in = make([]%s, len(ids))
		}
		for i, x := range ids {
			in[i] = func(x int) %s { return %s }(x)
		}
		res := %s(func(v %s) %s {
			id := %s
			log = append(log, id)
			x := id + 1000
			return %s
		}, in)
		for _, v := range res {
			out = append(out, %s)
		}
		for _, v := range in {
			after = append(after, func(v %s) int { return %s }(v))
		}
		return
	}
}
`, in.a.name+"/"+in.b.name, in.a.typ, in.a.typ, in.a.typ, in.a.enc, fn, in.a.typ, in.b.typ, in.a.dec, in.b.enc, in.b.dec, in.a.typ, in.a.dec)
	}
	for _, b := range carriers {
		fn := "fmapstr_" + b.name
		fmt.Fprintf(&calls, "func %s(f func(rune) %s, s string) []%s { return deriveFmapStr_%s(f, s) }\n", fn, b.typ, b.typ, b.name)
		fmt.Fprintf(&drv, `
func init() {
	fmapString[%q] = func(s string) (out, log []int) {
		res := %s(func(r rune) %s {
			log = append(log, int(r))
			x := int(r) + 1000
			return %s
		}, s)
		for _, v := range res {
			out = append(out, %s)
		}
		return
	}
}
`, b.name, fn, b.typ, b.enc, b.dec)
	}
	for _, a := range joinCarriers {
		fn := "join_" + a.name
		fmt.Fprintf(&calls, "func %s(l [][]%s) []%s { return deriveJoin_%s(l) }\n", fn, a.typ, a.typ, a.name)
		fmt.Fprintf(&drv, `
func init() {
	joinSlices[%q] = func(ll [][]int, nils []bool, isNil bool) (out []int, outNil bool, after [][]int) {
		var in [][]%s
		if !isNil {
			in = make([][]%s, len(ll))
		}
		for i, l := range ll {
			if !nils[i] {
				in[i] = make([]%s, len(l), len(l)+3) // spare capacity: append into an input would show
			}
			for j, x := range l {
				in[i][j] = func(x int) %s { return %s }(x)
			}
		}
		res := %s(in)
		outNil = res == nil
		for _, v := range res {
			out = append(out, %s)
		}
		for _, l := range in {
			var a []int
			for _, v := range l {
				a = append(a, func(v %s) int { return %s }(v))
			}
			for _, v := range l[len(l):cap(l)] {
				if !reflect.ValueOf(&v).Elem().IsZero() {
					a = append(a, -1) // something was appended into an input's spare capacity
				}
			}
			after = append(after, a)
		}
		return
	}
}
`, a.name, a.typ, a.typ, a.typ, a.typ, a.enc, fn, a.dec, a.typ, a.dec)
	}
	calls.WriteString("func joinstr(l []string) string { return deriveJoinStr(l) }\n")

	// ---- cases ----
	var cases strings.Builder
	ncase := 0
	lens := []int{0, 1, 2, 3, 5}
	if cfg.Tier == "thorough" {
		lens = []int{0, 1, 2, 3, 4, 5, 8, 17}
	}
	for _, in := range insts {
		key := in.a.name + "/" + in.b.name
		fmt.Fprintf(&cases, "fmap-slice %s nil ()\n", key)
		ncase++
		for _, n := range lens {
			ids := make([]int, n)
			for i := range ids {
				ids[i] = 1 + r.Intn(90)
			}
			fmt.Fprintf(&cases, "fmap-slice %s list %s\n", key, hx.Ints(ids))
			ncase++
		}
	}
	strs := stringPool(r, cfg.Tier)
	for i, s := range strs {
		b := carriers[i%nc]
		fmt.Fprintf(&cases, "fmap-string %s %s\n", b.name, hx.Bytes([]byte(s)))
		fmt.Fprintf(&cases, "range-string - %s\n", hx.Bytes([]byte(s)))
		ncase += 2
		if strings.IndexFunc(s, func(r rune) bool { return r >= 0x80 }) >= 0 {
			meta.Count("string/non-ascii")
		} else {
			meta.Count("string/ascii")
		}
	}
	// join: shapes of list-of-lists
	njoin := 8
	if cfg.Tier == "thorough" {
		njoin = 40
	}
	for _, a := range joinCarriers {
		fmt.Fprintf(&cases, "join-slices %s nil\n", a.name)
		fmt.Fprintf(&cases, "join-slices %s ()\n", a.name)
		fmt.Fprintf(&cases, "join-slices %s (nil)\n", a.name)
		fmt.Fprintf(&cases, "join-slices %s (() nil ())\n", a.name)
		ncase += 4
		for k := 0; k < njoin; k++ {
			n := r.Intn(5)
			parts := make([]string, n)
			for i := range parts {
				switch r.Intn(5) {
				case 0:
					parts[i] = "nil"
				case 1:
					parts[i] = "()"
				default:
					m := 1 + r.Intn(4)
					ids := make([]int, m)
					for j := range ids {
						ids[j] = 1 + r.Intn(90)
					}
					parts[i] = hx.Ints(ids)
				}
			}
			fmt.Fprintf(&cases, "join-slices %s (%s)\n", a.name, strings.Join(parts, " "))
			ncase++
		}
	}
	for k := 0; k < 3*njoin; k++ {
		n := r.Intn(5)
		parts := make([]string, n)
		for i := range parts {
			parts[i] = hx.Bytes([]byte(hx.Pick(r, strs)))
		}
		fmt.Fprintf(&cases, "join-strings - (%s)\n", strings.Join(parts, " "))
		ncase++
	}
	fmt.Fprintf(&cases, "join-strings - nil\n")
	ncase++

	files := map[string]string{"calls.go": calls.String(), "driver.go": drv.String(), "cases.txt": cases.String()}
	if err := hx.WriteFiles(dir, files); err != nil {
		return nil, err
	}
	meta.Packages = 1
	g := hx.Goderive(cfg.Goderive, dir, ".")
	meta.GoderiveRuns++
	if g.Exit != 0 {
		meta.AddDirect(hx.Direct{Class: "c17-generate-failed", What: "goderive failed on the C17 package",
			Files: map[string]string{"calls.go": files["calls.go"]}, Cmd: "goderive .", Output: hx.Truncate(g.Out, 4000)})
		return meta, nil
	}
	b := hx.GoBuild(dir, filepath.Join(dir, "drv"), "")
	if b.Exit != 0 {
		gen, _ := os.ReadFile(filepath.Join(dir, "derived.gen.go"))
		meta.AddDirect(hx.Direct{Class: "c17-build-failed", What: "generated C17 package does not compile",
			Files: map[string]string{"calls.go": files["calls.go"], "derived.gen.go": string(gen)}, Cmd: "goderive . && go build", Output: hx.Truncate(b.Out, 4000)})
		return meta, nil
	}
	res := hx.Run(dir, 120e9, 4000000, nil, filepath.Join(dir, "drv"), "cases.txt")
	if res.Exit != 0 {
		meta.AddDirect(hx.Direct{Class: "c17-driver-failed", What: "driver crashed", Cmd: "./drv cases.txt", Output: hx.Truncate(res.Out, 4000)})
		return meta, nil
	}
	obs := filepath.Join(cfg.Out, "c17.obs")
	if err := os.WriteFile(obs, []byte(res.Stdout), 0o644); err != nil {
		return nil, err
	}
	meta.ObsFiles = append(meta.ObsFiles, obs)
	meta.Cases = ncase
	meta.Count(fmt.Sprintf("fmap-instances=%d", len(insts)))
	for _, l := range strings.SplitN(res.Stdout, "\n", 400) {
		if strings.HasPrefix(l, "(fmap-string") || strings.HasPrefix(l, "(join-slices") {
			meta.Sample(hx.Truncate(l, 200))
		}
	}
	gen, _ := os.ReadFile(filepath.Join(dir, "derived.gen.go"))
	_ = os.WriteFile(filepath.Join(cfg.Out, "c17.derived.gen.go"), gen, 0o644)
	_ = os.WriteFile(filepath.Join(cfg.Out, "c17.calls.go"), []byte(files["calls.go"]), 0o644)
	return meta, nil
}

func stringPool(r *hx.Rand, tier string) []string {
	pool := []string{
		"", "a", "abc", "é", "éa", "aé", "aéb", "日本語", "a日b本c", "\U0001F600", "x\U0001F600y",
		"\xff", "a\xffb", "\xc3", "\xc3\x28", "\xe2\x82", "\xe2\x28\xa1", "\xf0\x9f\x98", "\xf0\x28\x8c\xbc",
		"\xed\xa0\x80", "\xed\x9f\xbf", "\xee\x80\x80", "\xf4\x8f\xbf\xbf", "\xf4\x90\x80\x80", "\xc0\x80", "\xc1\xbf",
		"\xe0\x80\x80", "\xe0\x9f\xbf", "\xe0\xa0\x80", "\xf0\x80\x80\x80", "\xf0\x8f\xbf\xbf", "\xf0\x90\x80\x80",
		"\x80", "\xbf", "\xf5", "\xf8\x88\x80\x80\x80", "\x00", "a\x00b", "\xef\xbf\xbd", "\"quote\"\n\t",
	}
	n := 60
	if tier == "thorough" {
		n = 1500
	}
	alphabet := []string{"a", "z", "0", "é", "ß", "日", "€", "\U0001F600", "\U00010000", "\xff", "\x80", "\xc3", "\xe2\x82", "\xf0\x9f", "\xed\xa0\x80", "\xf4\x90"}
	for i := 0; i < n; i++ {
		var b strings.Builder
		k := r.Intn(6)
		for j := 0; j < k; j++ {
			if r.Intn(8) == 0 {
				b.WriteByte(byte(r.Intn(256)))
			} else {
				b.WriteString(hx.Pick(r, alphabet))
			}
		}
		pool = append(pool, b.String())
	}
	return pool
}

const driverHeader = `package main

import (
	"bufio"
	"fmt"
	"os"
	"reflect"
	"strconv"
	"strings"
)

var fmapSlice = map[string]func(ids []int, isNil bool) (out, log, after []int){}
var fmapString = map[string]func(s string) (out, log []int){}
var joinSlices = map[string]func(ll [][]int, nils []bool, isNil bool) (out []int, outNil bool, after [][]int){}

func atoi(s string) int { n, _ := strconv.Atoi(s); return n }
func ppint(x int) **int { p := &x; return &p }

func ints(l []int) string {
	var b strings.Builder
	b.WriteByte('(')
	for i, x := range l {
		if i > 0 {
			b.WriteByte(' ')
		}
		b.WriteString(strconv.Itoa(x))
	}
	b.WriteByte(')')
	return b.String()
}

func parseInts(s string) []int {
	s = strings.TrimSpace(s)
	s = strings.TrimPrefix(s, "(")
	s = strings.TrimSuffix(s, ")")
	var out []int
	for _, f := range strings.Fields(s) {
		out = append(out, atoi(f))
	}
	return out
}

// parseLL parses "nil" or "(item item ...)" where item is nil or (ints)
func parseLL(s string) (ll [][]int, nils []bool, isNil bool) {
	s = strings.TrimSpace(s)
	if s == "nil" {
		return nil, nil, true
	}
	s = s[1 : len(s)-1]
	i := 0
	for i < len(s) {
		switch {
		case s[i] == ' ':
			i++
		case strings.HasPrefix(s[i:], "nil"):
			ll = append(ll, nil)
			nils = append(nils, true)
			i += 3
		case s[i] == '(':
			j := strings.IndexByte(s[i:], ')')
			ll = append(ll, parseInts(s[i:i+j+1]))
			nils = append(nils, false)
			i += j + 1
		default:
			panic("bad list of lists: " + s)
		}
	}
	return
}

func bytesOf(l []int) string {
	b := make([]byte, len(l))
	for i, x := range l {
		b[i] = byte(x)
	}
	return string(b)
}

func bytesSexp(s string) string {
	l := make([]int, len(s))
	for i := 0; i < len(s); i++ {
		l[i] = int(s[i])
	}
	return ints(l)
}

func main() {
	f, err := os.Open(os.Args[1])
	if err != nil {
		panic(err)
	}
	sc := bufio.NewScanner(f)
	sc.Buffer(make([]byte, 1<<20), 1<<24)
	w := bufio.NewWriter(os.Stdout)
	defer w.Flush()
	for sc.Scan() {
		line := sc.Text()
		parts := strings.SplitN(line, " ", 3)
		kind, inst, rest := parts[0], parts[1], parts[2]
		func() {
			defer func() {
				if r := recover(); r != nil {
					switch kind {
					case "fmap-slice":
						fmt.Fprintf(w, "(fmap-slice %s panic)\n", strings.SplitN(rest, " ", 2)[1])
					case "fmap-string":
						fmt.Fprintf(w, "(fmap-string %s panic)\n", rest)
					default:
						fmt.Fprintf(w, "(%s %s panic)\n", kind, rest)
					}
				}
			}()
			switch kind {
			case "fmap-slice":
				p := strings.SplitN(rest, " ", 2)
				ids := parseInts(p[1])
				out, log, after := fmapSlice[inst](ids, p[0] == "nil")
				fmt.Fprintf(w, "(fmap-slice %s (ret %s %s %s))\n", ints(ids), ints(out), ints(log), ints(after))
			case "fmap-string":
				s := bytesOf(parseInts(rest))
				out, log := fmapString[inst](s)
				fmt.Fprintf(w, "(fmap-string %s (ret %s %s))\n", rest, ints(out), ints(log))
			case "range-string":
				s := bytesOf(parseInts(rest))
				var b strings.Builder
				b.WriteByte('(')
				first := true
				for i, r := range s {
					if !first {
						b.WriteByte(' ')
					}
					first = false
					fmt.Fprintf(&b, "(%d %d)", i, r)
				}
				b.WriteByte(')')
				fmt.Fprintf(w, "(range-string %s %s)\n", rest, b.String())
			case "join-slices":
				ll, nils, isNil := parseLL(rest)
				out, outNil, after := joinSlices[inst](ll, nils, isNil)
				o := ints(out)
				if outNil {
					o = "nil"
				}
				// inputs unmodified: report a panic-like marker if not
				for i := range ll {
					if ints(after[i]) != ints(ll[i]) {
						o = "input-modified"
					}
				}
				fmt.Fprintf(w, "(join-slices %s %s)\n", rest, o)
			case "join-strings":
				if rest == "nil" {
					fmt.Fprintf(w, "(join-strings () %s)\n", bytesSexp(joinstr(nil)))
					return
				}
				ll, _, _ := parseLL(rest)
				ss := make([]string, len(ll))
				for i, l := range ll {
					ss[i] = bytesOf(l)
				}
				fmt.Fprintf(w, "(join-strings %s %s)\n", rest, bytesSexp(joinstr(ss)))
			}
		}()
	}
}
`
