// Package c15: correspondence harness of C15 (stub: replaced when C15 is built).
package c15

import (
	"fmt"

	"verifharness/internal/hx"
)

func Run(cfg hx.Config) (*hx.Meta, error) {
	return nil, fmt.Errorf("C15: harness not built yet")
}
