// Package c15: Curry, Uncurry, Flip, Apply, Tuple only re-plumb arguments (behavioural
// correspondence with coq/theories/Plumb/Model.v through Eval15.v).
//
// For every generated signature shape the harness records
//
//	(wf PLUGIN SIG 0|1)            does the derived function type-check (decided per function,
//	                                in process, on the text goderive printed; validated against the
//	                                real `go vet`/`go build` on the well-formed set and on samples
//	                                of the ill-formed set)
//	(call PLUGIN SIG ARGS (ret (EVENT...) (RESULT...)))
//	                                the call log and the results of an instrumented original
//	                                function, called through the derived wrapper
//
// and the extracted model predicts both.
package c15

import (
	"bufio"
	"fmt"
	"go/ast"
	"go/parser"
	"go/token"
	"go/types"
	"os"
	"path/filepath"
	"sort"
	"strings"

	"verifharness/internal/hx"
)

// ---------- types that can carry an argument id ----------

type carrier struct {
	sym string // symbol in the observation
	typ string // Go type (K: per-shape unique named type, %d = shape id)
	enc string // expression in x (int)
	dec string // expression in v
}

var carriers = []carrier{
	{"K", "K%d", "K%d(x)", "int(v)"},
	{"int", "int", "x", "v"},
	{"string", "string", "strconv.Itoa(x)", "atoi(v)"},
	{"ptrS", "*S", "&S{A: x}", "v.A"},
	{"S", "S", "S{A: x}", "v.A"},
	{"slint", "[]int", "[]int{x, 7}", "v[0]"},
	{"f64", "float64", "float64(x)", "int(v)"},
	{"iface", "interface{}", "interface{}(x)", "v.(int)"},
	// higher-order signatures: a parameter or a RESULT of the original function is itself a function. The id is
	// carried by a closure (enc) and read back by calling it (dec): a wrapper that returns f's result unchanged
	// hands that closure through, and one that calls it "on the way" (uncurrying one level too many) changes the
	// type of the derived function. The function types differ in what a generator could look at: named /
	// unnamed / blank parameters, names that also occur in the surrounding signature (a, b, f, param_0), several
	// parameters, named results, variadic, no parameter, two levels, a function parameter, a named function type.
	{"fnN", "func(x float64) string", "func(float64) string { return strconv.Itoa(x) }", "atoi(v(0))"},
	{"fnU", "func(string) int", "func(string) int { return x }", "v(\"\")"},
	{"fnB", "func(_ int8) int", "func(int8) int { return x }", "v(0)"},
	{"fn2", "func(x int, y string) int", "func(int, string) int { return x }", "v(0, \"\")"},
	{"fnA", "func(a int, b int) int", "func(int, int) int { return x }", "v(0, 0)"},
	{"fnF", "func(f int16) int", "func(int16) int { return x }", "v(0)"},
	{"fnP", "func(param_0 int32, innerParam_0 int32) int", "func(int32, int32) int { return x }", "v(0, 0)"},
	{"fnR", "func(n uint) (r int, ok bool)", "func(uint) (int, bool) { return x, true }", "func() int { r, _ := v(0); return r }()"},
	{"fnV", "func(xs ...int) int", "func(...int) int { return x }", "v()"},
	{"fn0", "func() int", "func() int { return x }", "v()"},
	{"fnFn", "func(x uint8) func(y uint8) int", "func(uint8) func(uint8) int { return func(uint8) int { return x } }", "v(0)(0)"},
	{"fnG", "func(g func(z int) int) int", "func(func(int) int) int { return x }", "v(nil)"},
	{"HF", "HF", "HF(func(int) string { return strconv.Itoa(x) })", "atoi(v(0))"},
}

// declarations every package needs: the struct of the S carriers and the named function type of HF
const preamble = "type S struct{ A int }\ntype HF func(x int) string\n"

func isFuncCarrier(c int) bool { return strings.HasPrefix(carriers[c].sym, "fn") || carriers[c].sym == "HF" }

// the function-typed carriers (indices into carriers)
func funcCarriers() []int {
	var l []int
	for i := range carriers {
		if isFuncCarrier(i) {
			l = append(l, i)
		}
	}
	return l
}

type param struct {
	name string
	c    int // carrier index
}

type shape struct {
	id       int
	plugin   string // curry flip apply uncurry rt tuple
	outer    []param
	inner    []param // uncurry only
	results  []param
	variadic bool
	mode     string
	// tuple only: the call is deriveTuple(g()) with g returning the values (the argument is a tuple of results)
	tupleCall bool
	// id of the unique type K this signature uses, if it is not the shape's own (call sites that share a type)
	kid int
}

func (s *shape) kID() int {
	if s.kid != 0 {
		return s.kid
	}
	return s.id
}

func (s *shape) goType(c int) string {
	if carriers[c].sym == "K" {
		return fmt.Sprintf("K%d", s.kID())
	}
	return carriers[c].typ
}
func (s *shape) enc(c int, x string) string {
	e := carriers[c].enc
	if carriers[c].sym == "K" {
		e = fmt.Sprintf("K%d(x)", s.kID())
	}
	return "func(x int) " + s.goType(c) + " { return " + e + " }(" + x + ")"
}
func (s *shape) dec(c int, v string) string {
	return "func(v " + s.goType(c) + ") int { return " + carriers[c].dec + " }(" + v + ")"
}

func (s *shape) paramList(ps []param, variadicLast bool) string {
	var l []string
	for i, p := range ps {
		t := s.goType(p.c)
		if variadicLast && i == len(ps)-1 {
			t = "..." + t
		}
		if p.name == "" {
			l = append(l, t)
		} else {
			l = append(l, p.name+" "+t)
		}
	}
	return strings.Join(l, ", ")
}

func (s *shape) resultList() string {
	if len(s.results) == 0 {
		return ""
	}
	r := s.paramList(s.results, false)
	if len(s.results) == 1 && s.results[0].name == "" {
		return " " + r
	}
	return " (" + r + ")"
}

// the Go type of the original function
func (s *shape) funcType() string {
	switch s.plugin {
	case "uncurry":
		return "func(" + s.paramList(s.outer, false) + ") func(" + s.paramList(s.inner, s.variadic) + ")" + s.resultList()
	default:
		return "func(" + s.paramList(s.outer, s.variadic) + ")" + s.resultList()
	}
}

func sexpParams(ps []param) string {
	var l []string
	for _, p := range ps {
		if p.name == "" {
			l = append(l, "("+carriers[p.c].sym+")")
		} else {
			l = append(l, "("+p.name+" "+carriers[p.c].sym+")")
		}
	}
	return "(" + strings.Join(l, " ") + ")"
}

func b2i(b bool) int {
	if b {
		return 1
	}
	return 0
}

func (s *shape) sexp() string {
	switch s.plugin {
	case "tuple":
		return fmt.Sprintf("(tuple %d)", len(s.outer))
	case "uncurry":
		return fmt.Sprintf("(csig %s %s %s %d)", sexpParams(s.outer), sexpParams(s.inner), sexpParams(s.results), b2i(s.variadic))
	default:
		return fmt.Sprintf("(sig %s %s %d)", sexpParams(s.outer), sexpParams(s.results), b2i(s.variadic))
	}
}

// names of the derived functions this shape asks for
func (s *shape) derivedNames() []string {
	switch s.plugin {
	case "curry":
		return []string{fmt.Sprintf("deriveCurry%d", s.id)}
	case "flip":
		return []string{fmt.Sprintf("deriveFlip%d", s.id)}
	case "apply":
		return []string{fmt.Sprintf("deriveApply%d", s.id)}
	case "uncurry":
		return []string{fmt.Sprintf("deriveUncurry%d", s.id)}
	case "rt":
		return []string{fmt.Sprintf("deriveCurry%d", s.id), fmt.Sprintf("deriveUncurry%d", s.id)}
	case "tuple":
		return []string{fmt.Sprintf("deriveTuple%d", s.id)}
	}
	return nil
}

// typeAsserts declares, for every derived function of the shape, that it has the type the property speaks of
// (`var _ T = deriveX`; identity of function types ignores parameter names): the function derived for
// f : func(A, B) R has exactly the parameters of f, redistributed, and f's results -- Curry func(F) func(A) func(B) R,
// Flip func(F) func(B, A) R, Apply func(F, B) func(A) R, Uncurry of func(A) func(B) R func(F) func(A, B) R whatever R
// is (a result of f that is itself a function is a result, not a further level), Tuple func(A, B) func() (A, B).
// The drivers rely on these types anyway; stating them per function makes a deviation an observation about one
// shape instead of a package that does not build. Variadic signatures are outside the property: no assertion.
func (s *shape) typeAsserts() string {
	if s.variadic {
		return ""
	}
	all := append(append([]param{}, s.outer...), s.inner...)
	n := len(all)
	T := s.paramListTypesOnly
	R := s.resultListTypesOnly()
	F := s.funcType()
	var b strings.Builder
	line := func(name, typ string) { fmt.Fprintf(&b, "var _ %s = %s\n", typ, name) }
	switch s.plugin {
	case "curry":
		line(fmt.Sprintf("deriveCurry%d", s.id), "func("+F+") func("+T(all[:1])+") func("+T(all[1:])+")"+R)
	case "flip":
		sw := append([]param{}, all...)
		sw[0], sw[1] = sw[1], sw[0]
		line(fmt.Sprintf("deriveFlip%d", s.id), "func("+F+") func("+T(sw)+")"+R)
	case "apply":
		line(fmt.Sprintf("deriveApply%d", s.id), "func("+F+", "+T(all[n-1:])+") func("+T(all[:n-1])+")"+R)
	case "uncurry":
		line(fmt.Sprintf("deriveUncurry%d", s.id), "func("+F+") func("+T(all)+")"+R)
	case "rt":
		curried := "func(" + T(all[:1]) + ") func(" + T(all[1:]) + ")" + R
		line(fmt.Sprintf("deriveCurry%d", s.id), "func("+F+") "+curried)
		line(fmt.Sprintf("deriveUncurry%d", s.id), "func("+curried+") func("+T(all)+")"+R)
	case "tuple":
		line(fmt.Sprintf("deriveTuple%d", s.id), "func("+T(all)+") func() ("+T(all)+")")
	}
	return b.String()
}

func (s *shape) hasK() bool {
	for _, l := range [][]param{s.outer, s.inner, s.results} {
		for _, p := range l {
			if carriers[p.c].sym == "K" {
				return true
			}
		}
	}
	return false
}

// ---------- the user file goderive sees (imports nothing) ----------

func (s *shape) userDecls(b *strings.Builder) {
	fmt.Fprintf(b, "type K%d int\n", s.id)
	if s.plugin == "tuple" {
		var vs []string
		for i, p := range s.outer {
			fmt.Fprintf(b, "var t%d_%d %s\n", s.id, i, s.goType(p.c))
			vs = append(vs, fmt.Sprintf("t%d_%d", s.id, i))
		}
		if s.tupleCall {
			fmt.Fprintf(b, "func pair%d() (%s) { return %s }\n", s.id, s.paramListTypesOnly(s.outer), strings.Join(vs, ", "))
		}
		return
	}
	fmt.Fprintf(b, "var f%d %s\n", s.id, s.funcType())
	if s.plugin == "apply" {
		fmt.Fprintf(b, "var l%d %s\nvar _ = l%d\n", s.id, s.goType(s.outer[len(s.outer)-1].c), s.id)
	}
}

// the user's declarations and call of this shape alone (for replays)
func (s *shape) userText() string {
	var b strings.Builder
	s.userDecls(&b)
	b.WriteString("\nfunc use() {\n")
	s.userCall(&b)
	b.WriteString("}\n")
	return b.String()
}

func (s *shape) userCall(b *strings.Builder) {
	switch s.plugin {
	case "curry":
		fmt.Fprintf(b, "\tderiveCurry%d(f%d)\n", s.id, s.id)
	case "flip":
		fmt.Fprintf(b, "\tderiveFlip%d(f%d)\n", s.id, s.id)
	case "apply":
		// every second shape whose last parameter accepts one pre-binds an untyped constant instead of a
		// variable (2 is assignable to float64 or a named integer although its default type int is not)
		switch sym := carriers[s.outer[len(s.outer)-1].c].sym; {
		case s.id%2 == 0 && (sym == "K" || sym == "int" || sym == "f64" || sym == "iface"):
			fmt.Fprintf(b, "\tderiveApply%d(f%d, 2)\n", s.id, s.id)
		case s.id%2 == 0 && sym == "string":
			fmt.Fprintf(b, "\tderiveApply%d(f%d, \"2\")\n", s.id, s.id)
		default:
			fmt.Fprintf(b, "\tderiveApply%d(f%d, l%d)\n", s.id, s.id, s.id)
		}
	case "uncurry":
		fmt.Fprintf(b, "\tderiveUncurry%d(f%d)\n", s.id, s.id)
	case "rt":
		fmt.Fprintf(b, "\tderiveUncurry%d(deriveCurry%d(f%d))\n", s.id, s.id, s.id)
	case "tuple":
		if s.tupleCall {
			fmt.Fprintf(b, "\tderiveTuple%d(pair%d())\n", s.id, s.id)
			return
		}
		var a []string
		for i := range s.outer {
			a = append(a, fmt.Sprintf("t%d_%d", s.id, i))
		}
		fmt.Fprintf(b, "\tderiveTuple%d(%s)\n", s.id, strings.Join(a, ", "))
	}
}

// ---------- the driver (added after generation, only for well-formed functions) ----------

func idList(ids []int) string { return hx.Ints(ids) }

// callee says how the driver reaches the derived function: directly under the name the shape asked for, or
// through a function of the user's file (call sites that goderive may have renamed, sites.go)
type callee struct {
	head string // what the observation starts with, after "(": `call PLUGIN SIG` or `site PLUGIN FLAGS SIGS J`
	// expr returns the statements to run before the call and the call expression; args are the encoded arguments
	// in the order of the derived function's parameters
	expr func(s *shape, args []string) (pre []string, call string)
}

func directCallee(s *shape) callee {
	return callee{head: fmt.Sprintf("call %s %s", s.plugin, s.sexp()), expr: func(s *shape, args []string) ([]string, string) {
		n := len(args)
		switch s.plugin {
		case "curry":
			return nil, fmt.Sprintf("deriveCurry%d(f)(%s)(%s)", s.id, args[0], strings.Join(args[1:], ", "))
		case "flip":
			return nil, fmt.Sprintf("deriveFlip%d(f)(%s)", s.id, strings.Join(args, ", "))
		case "apply":
			return nil, fmt.Sprintf("deriveApply%d(f, %s)(%s)", s.id, args[n-1], strings.Join(args[:n-1], ", "))
		case "uncurry":
			return nil, fmt.Sprintf("deriveUncurry%d(f)(%s)", s.id, strings.Join(args, ", "))
		case "rt":
			return nil, fmt.Sprintf("deriveUncurry%d(deriveCurry%d(f))(%s)", s.id, s.id, strings.Join(args, ", "))
		case "tuple":
			if s.tupleCall {
				return nil, fmt.Sprintf("deriveTuple%d(func() (%s) { return %s }())()", s.id, s.paramListTypesOnly(s.outer), strings.Join(args, ", "))
			}
			return nil, fmt.Sprintf("deriveTuple%d(%s)()", s.id, strings.Join(args, ", "))
		}
		return nil, ""
	}}
}

func (s *shape) driver(b *strings.Builder, argvs [][]int) { s.driverVia(b, argvs, directCallee(s)) }

func (s *shape) driverVia(b *strings.Builder, argvs [][]int, via callee) {
	all := append(append([]param{}, s.outer...), s.inner...)
	n := len(all)
	nres := len(s.results)
	if s.plugin == "tuple" {
		nres = n
	}
	resVars := make([]string, nres)
	for i := range resVars {
		resVars[i] = fmt.Sprintf("r%d", i)
	}
	assign := ""
	if nres > 0 {
		assign = strings.Join(resVars, ", ") + " := "
	}
	for _, ids := range argvs {
		fmt.Fprintf(b, "func init() {\n\tcases = append(cases, kase{%q, func(w *bufio.Writer) {\n", fmt.Sprintf("(%s %s", via.head, idList(ids)))
		// the i-th argument the caller supplies has the type of the i-th parameter of the *derived*
		// function: for flip that is the original list with its first two entries swapped
		callParams := append([]param{}, all...)
		if s.plugin == "flip" && n >= 2 {
			callParams[0], callParams[1] = callParams[1], callParams[0]
		}
		args := make([]string, n)
		for i, p := range callParams {
			args[i] = s.enc(p.c, fmt.Sprint(ids[i]))
		}
		var decs []string
		if s.plugin == "tuple" {
			pre, call := via.expr(s, args)
			for _, st := range pre {
				fmt.Fprintf(b, "\t\t%s\n", st)
			}
			fmt.Fprintf(b, "\t\t%s%s\n", assign, call)
			for i, p := range s.outer {
				decs = append(decs, s.dec(p.c, resVars[i]))
			}
			fmt.Fprintf(b, "\t\tfmt.Fprintf(w, \"(%s %s (ret () %%s))\\n\", ints([]int{%s}))\n", via.head, idList(ids), strings.Join(decs, ", "))
			fmt.Fprintf(b, "\t}})\n}\n\n")
			continue
		}
		fmt.Fprintf(b, "\t\tvar log []string\n")
		// the instrumented original function; its own parameter names are p0.., q0..
		retExprs := make([]string, len(s.results))
		for j, r := range s.results {
			retExprs[j] = s.enc(r.c, fmt.Sprintf("%d+base", 1000*(j+1)))
		}
		ret := ""
		if len(retExprs) > 0 {
			ret = "return " + strings.Join(retExprs, ", ")
		}
		mk := func(prefix string, ps []param) (decl string, ids string) {
			var d, e []string
			for i, p := range ps {
				d = append(d, fmt.Sprintf("%s%d %s", prefix, i, s.goType(p.c)))
				e = append(e, s.dec(p.c, fmt.Sprintf("%s%d", prefix, i)))
			}
			return strings.Join(d, ", "), strings.Join(e, ", ")
		}
		if s.plugin == "uncurry" {
			od, oe := mk("p", s.outer)
			id_, ie := mk("q", s.inner)
			fmt.Fprintf(b, "\t\tf := func(%s) func(%s)%s {\n", od, s.paramListTypesOnly(s.inner), s.resultListTypesOnly())
			fmt.Fprintf(b, "\t\t\tids0 := []int{%s}\n\t\t\tlog = append(log, \"(0 \"+ints(ids0)+\")\")\n", oe)
			fmt.Fprintf(b, "\t\t\treturn func(%s)%s {\n", id_, s.resultListTypesOnly())
			fmt.Fprintf(b, "\t\t\t\tids1 := []int{%s}\n\t\t\t\tlog = append(log, \"(1 \"+ints(ids1)+\")\")\n", ie)
			fmt.Fprintf(b, "\t\t\t\tbase := weighted(append(append([]int{}, ids0...), ids1...))\n\t\t\t\t_ = base\n\t\t\t\t%s\n\t\t\t}\n\t\t}\n", ret)
		} else {
			od, oe := mk("p", s.outer)
			fmt.Fprintf(b, "\t\tf := func(%s)%s {\n", od, s.resultListTypesOnly())
			fmt.Fprintf(b, "\t\t\tids0 := []int{%s}\n\t\t\tlog = append(log, \"(0 \"+ints(ids0)+\")\")\n", oe)
			fmt.Fprintf(b, "\t\t\tbase := weighted(ids0)\n\t\t\t_ = base\n\t\t\t%s\n\t\t}\n", ret)
		}
		pre, call := via.expr(s, args)
		for _, st := range pre {
			fmt.Fprintf(b, "\t\t%s\n", st)
		}
		fmt.Fprintf(b, "\t\t%s%s\n", assign, call)
		for j, r := range s.results {
			decs = append(decs, s.dec(r.c, resVars[j]))
		}
		obsArgs := ids // what the caller of the derived function passes, in that order
		fmt.Fprintf(b, "\t\tfmt.Fprintf(w, \"(%s %s (ret (%%s) %%s))\\n\", strings.Join(log, \" \"), ints([]int{%s}))\n",
			via.head, idList(obsArgs), strings.Join(decs, ", "))
		fmt.Fprintf(b, "\t}})\n}\n\n")
	}
}

func (s *shape) paramListTypesOnly(ps []param) string {
	var l []string
	for _, p := range ps {
		l = append(l, s.goType(p.c))
	}
	return strings.Join(l, ", ")
}

func (s *shape) resultListTypesOnly() string {
	if len(s.results) == 0 {
		return ""
	}
	return " (" + s.paramListTypesOnly(s.results) + ")"
}

const driverHeader = `package main

import (
	"bufio"
	"fmt"
	"os"
	"strconv"
	"strings"
)

type kase struct {
	prefix string // "(call PLUGIN SIG ARGS": completed by the result or by " panic)"
	run    func(w *bufio.Writer)
}

var cases []kase

var _ = strings.Join
var _ = strconv.Itoa

func atoi(s string) int { n, _ := strconv.Atoi(s); return n }

func ints(l []int) string {
	var b strings.Builder
	b.WriteByte('(')
	for i, x := range l {
		if i > 0 {
			b.WriteByte(' ')
		}
		b.WriteString(strconv.Itoa(x))
	}
	b.WriteByte(')')
	return b.String()
}

func weighted(ids []int) int {
	s := 0
	for i, x := range ids {
		s += (i + 1) * x
	}
	return s
}

func main() {
	w := bufio.NewWriter(os.Stdout)
	defer w.Flush()
	for _, c := range cases {
		func() {
			defer func() {
				if r := recover(); r != nil {
					fmt.Fprintf(w, "%s panic)\n", c.prefix)
				}
			}()
			c.run(w)
		}()
	}
}
`

// ---------- shape generation ----------

var plainNames = []string{"a", "b", "c", "d", "e", "g"}

// naming modes of a flat parameter list of length n
var flatModes = []string{"named", "blank-some", "blank-all", "unnamed", "one-f", "prefix-clash", "prefix-mix", "prefix-plain", "gen-names", "blank-f", "common-names", "f-chain", "prefix-underscore"}

func nameParams(r *hx.Rand, mode string, n int) []string {
	ns := make([]string, n)
	for i := range ns {
		ns[i] = plainNames[i]
	}
	switch mode {
	case "named":
	case "blank-some":
		k := r.Intn(n)
		ns[k] = "_"
		for i := range ns {
			if i != k && r.Intn(3) == 0 {
				ns[i] = "_"
			}
		}
	case "blank-all":
		for i := range ns {
			ns[i] = "_"
		}
	case "unnamed":
		for i := range ns {
			ns[i] = ""
		}
	case "one-f":
		ns[r.Intn(n)] = "f"
	case "prefix-clash":
		// `_` at index k and another parameter already called param_k: only the renaming of
		// names that start with the prefix keeps them apart
		k := r.Intn(n)
		j := (k + 1 + r.Intn(n-1)) % n
		ns[k] = "_"
		ns[j] = fmt.Sprintf("param_%d", k)
	case "prefix-mix":
		// several blanks among several user names with the generator's prefix: whatever the blanks are
		// called must differ from each other and from the user's names
		if n == 3 && r.Intn(2) == 0 {
			return []string{"_", "_", "param_0"}
		}
		used := map[string]bool{}
		nb := 0
		for i := range ns {
			if r.Intn(2) == 0 {
				ns[i] = "_"
				nb++
				continue
			}
			for {
				c := fmt.Sprintf("param_%d", r.Intn(n+1))
				if !used[c] {
					used[c] = true
					ns[i] = c
					break
				}
			}
		}
		for i := 0; nb < 2 && i < n; i++ {
			if ns[i] != "_" && len(used) > 1 {
				delete(used, ns[i])
				ns[i] = "_"
				nb++
			}
		}
	case "prefix-plain":
		// a name with the generator's prefix but no blank parameter: nothing is renamed
		ns[r.Intn(n)] = fmt.Sprintf("param_%d", r.Intn(n))
	case "gen-names":
		pool := []string{"v0", "v1", "innerParam_0", "first", "as", "gStr", "name", "p", "sig"}
		hx.Shuffle(r, pool)
		for i := range ns {
			if r.Intn(2) == 0 {
				ns[i] = pool[i]
			}
		}
		ns[r.Intn(n)] = pool[n]
	case "blank-f":
		k := r.Intn(n)
		j := (k + 1 + r.Intn(n-1)) % n
		ns[k] = "_"
		ns[j] = "f"
	case "f-chain":
		// f, f_, f__ ...: the wrapper's own parameter has to skip all of them (derive.UnusedName)
		k := 1 + r.Intn(n)
		perm := make([]int, n)
		for i := range perm {
			perm[i] = i
		}
		hx.Shuffle(r, perm)
		for i := 0; i < k; i++ {
			ns[perm[i]] = "f" + strings.Repeat("_", i)
		}
	case "prefix-underscore":
		// `_` at index k and other parameters called param_k_ / param_k__: names the renaming makes up
		// when param_k is taken; every name that carries the prefix is renamed to its own index
		k := r.Intn(n)
		ns[k] = "_"
		u := 1
		for i := range ns {
			if i != k && r.Intn(2) == 0 {
				ns[i] = fmt.Sprintf("param_%d%s", k, strings.Repeat("_", u))
				u++
			}
		}
	case "common-names":
		// identifiers a generator is likely to pick for a name of its own (the bound value of apply,
		// a temporary, the returned closure): a wrapper that starts using one of them is shadowed by a
		// parameter of that name
		pool := []string{"arg", "args", "v", "x", "val", "value", "fn", "h", "res", "result", "out", "in", "err", "ok", "i", "n", "tmp", "curried", "flipped", "applied", "last", "first", "rest", "this", "that"}
		hx.Shuffle(r, pool)
		for i := range ns {
			ns[i] = pool[i]
		}
	}
	return ns
}

// types: "mixed" puts the unique type K at a random position among random carriers;
// "uniform" makes every parameter K, so that any permutation of the arguments still compiles and
// only the call log can tell
func typeParams(r *hx.Rand, kind string, n int) []int {
	cs := make([]int, n)
	if kind == "uniform" {
		return cs // all K (index 0)
	}
	for i := range cs {
		cs[i] = pickCarrier(r)
	}
	cs[r.Intn(n)] = 0
	return cs
}

// pickCarrier draws a type other than K: one time in four a function type (the hof-* modes go through all of them
// systematically; drivers full of closures compile more slowly), otherwise one of the first-order types
func pickCarrier(r *hx.Rand) int {
	fcs := funcCarriers()
	if r.Intn(4) == 0 {
		return fcs[r.Intn(len(fcs))]
	}
	return 1 + r.Intn(len(carriers)-len(fcs)-1)
}

// shift appends suffix to every name that is f followed by underscores (f -> f_, f_ -> f__): for signatures whose
// result is called f
func shift(names []string, suffix string) []string {
	for i, n := range names {
		if strings.HasPrefix(n, "f") && strings.Trim(n, "_") == "f" {
			names[i] = n + suffix
		}
	}
	return names
}

func mkParams(names []string, cs []int) []param {
	ps := make([]param, len(names))
	for i := range ps {
		ps[i] = param{names[i], cs[i]}
	}
	return ps
}

func mkResults(r *hx.Rand, n int, named string) []param {
	rs := make([]param, n)
	for i := range rs {
		rs[i] = param{"", pickCarrier(r)}
		switch named {
		case "named":
			rs[i].name = fmt.Sprintf("r%d", i)
		case "blank":
			rs[i].name = "_"
		}
	}
	if named == "f" && n > 0 {
		for i := range rs {
			rs[i].name = fmt.Sprintf("r%d", i)
		}
		rs[r.Intn(n)].name = "f"
	}
	if strings.HasPrefix(named, "as:") && n > 0 {
		// named results r0.., one of them with the given name
		for i := range rs {
			rs[i].name = fmt.Sprintf("r%d", i)
		}
		rs[r.Intn(n)].name = strings.TrimPrefix(named, "as:")
	}
	if strings.HasPrefix(named, "seq:") {
		// results called <prefix>0, <prefix>1, ...: the names the renaming of blank parameters makes up
		for i := range rs {
			rs[i].name = fmt.Sprintf("%s%d", strings.TrimPrefix(named, "seq:"), i)
		}
	}
	return rs
}

// pickNames draws n names for one parameter or result list from a pool: either no name at all (one time in
// six, if allowed) or names of which those that can be referred to are pairwise distinct and not in avoid
// (`_` may repeat). The pool contains `_`, so the loop ends.
func pickNames(r *hx.Rand, n int, pool []string, avoid map[string]bool, unnamedOK bool) []string {
	out := make([]string, 0, n)
	if unnamedOK && r.Intn(6) == 0 {
		for len(out) < n {
			out = append(out, "")
		}
		return out
	}
	used := map[string]bool{}
	for len(out) < n {
		c := pool[r.Intn(len(pool))]
		if c != "_" && (used[c] || avoid[c]) {
			continue
		}
		used[c] = true
		out = append(out, c)
	}
	return out
}

func nameSet(l ...[]string) map[string]bool {
	m := map[string]bool{}
	for _, ns := range l {
		for _, n := range ns {
			m[n] = true
		}
	}
	return m
}

// pools of the "combo" shapes: every cause of a renaming (blank, unnamed, the wrapper's own name and the names it
// falls back to, the names the renaming makes up and falls back to, a name of the other level) can meet every other
var (
	comboParams  = []string{"a", "b", "c", "d", "e", "_", "_", "f", "f_", "f__", "param_0", "param_1", "param_0_", "param_2", "param_1_"}
	comboOuter   = []string{"a", "b", "_", "_", "f", "f_", "param_0", "param_0_", "innerParam_0", "innerParam_1"}
	comboInner   = []string{"a", "b", "c", "d", "_", "_", "f", "f_", "param_0", "param_0_", "param_0__", "innerParam_0", "innerParam_1", "innerParam_0_"}
	comboResults = []string{"r0", "r1", "a", "b", "f", "f_", "f__", "param_0", "param_0_", "param_1", "innerParam_0", "innerParam_1", "_"}
)

func comboResultList(r *hx.Rand, avoid map[string]bool) []param {
	n := r.Intn(4)
	rs := mkResults(r, n, "")
	if n > 0 && r.Intn(3) != 0 {
		for i, name := range pickNames(r, n, comboResults, avoid, false) {
			rs[i].name = name
		}
	}
	return rs
}

type uncurryMode struct {
	name         string
	outer, inner func(r *hx.Rand, n int) []string
}

func fixedNames(l ...string) func(*hx.Rand, int) []string {
	return func(r *hx.Rand, n int) []string {
		ns := make([]string, n)
		for i := range ns {
			if i < len(l) {
				ns[i] = l[i]
			} else {
				ns[i] = plainNames[i+1]
			}
		}
		return ns
	}
}

func allOf(s string) func(*hx.Rand, int) []string {
	return func(r *hx.Rand, n int) []string {
		ns := make([]string, n)
		for i := range ns {
			ns[i] = s
		}
		return ns
	}
}

var innerPlain = func(r *hx.Rand, n int) []string { return append([]string{}, plainNames[1:1+n]...) }

var uncurryModes = []uncurryMode{
	{"named", fixedNames("a"), innerPlain},
	{"blank-both", allOf("_"), allOf("_")},
	{"blank-outer", allOf("_"), innerPlain},
	{"blank-inner", fixedNames("a"), allOf("_")},
	{"blank-inner-some", fixedNames("a"), func(r *hx.Rand, n int) []string {
		ns := innerPlain(r, n)
		ns[r.Intn(n)] = "_"
		return ns
	}},
	{"unnamed-both", allOf(""), allOf("")},
	{"unnamed-outer", allOf(""), innerPlain},
	{"unnamed-inner", fixedNames("a"), allOf("")},
	{"inner-prefix-clash", fixedNames("a"), func(r *hx.Rand, n int) []string {
		ns := innerPlain(r, n)
		if n < 2 {
			ns[0] = "innerParam_0" // no blank: stays
			return ns
		}
		k := r.Intn(n)
		j := (k + 1 + r.Intn(n-1)) % n
		ns[k] = "_"
		ns[j] = fmt.Sprintf("innerParam_%d", k)
		return ns
	}},
	{"outer-f", fixedNames("f"), innerPlain},
	{"inner-f", fixedNames("a"), func(r *hx.Rand, n int) []string {
		ns := innerPlain(r, n)
		ns[r.Intn(n)] = "f"
		return ns
	}},
	{"dup-levels", fixedNames("a"), func(r *hx.Rand, n int) []string {
		ns := innerPlain(r, n)
		ns[r.Intn(n)] = "a"
		return ns
	}},
	{"dup-innerParam", fixedNames("innerParam_0"), func(r *hx.Rand, n int) []string {
		ns := innerPlain(r, n)
		ns[0] = "_"
		return ns
	}},
	{"dup-param", allOf("_"), func(r *hx.Rand, n int) []string {
		ns := innerPlain(r, n)
		ns[r.Intn(n)] = "param_0"
		return ns
	}},
	{"both-f", fixedNames("f"), func(r *hx.Rand, n int) []string {
		ns := innerPlain(r, n)
		ns[r.Intn(n)] = "f"
		if n >= 2 {
			j := r.Intn(n)
			if ns[j] != "f" {
				ns[j] = "f_"
			}
		}
		return ns
	}},
	{"dup-param-chain", fixedNames("param_0"), func(r *hx.Rand, n int) []string {
		// the outer parameter clashes and so does the first name made up for it
		ns := innerPlain(r, n)
		ns[0] = "param_0"
		if n >= 2 {
			ns[1] = "param_0_"
		}
		if n >= 3 {
			ns[2] = "_"
		}
		return ns
	}},
	{"unnamed-outer-dup-param", allOf(""), func(r *hx.Rand, n int) []string {
		ns := innerPlain(r, n)
		ns[r.Intn(n)] = "param_0"
		return ns
	}},
	{"dup-levels-blank", fixedNames("b"), func(r *hx.Rand, n int) []string {
		// the inner list is renamed (it has a blank) and still has the outer name
		ns := innerPlain(r, n)
		if n >= 2 {
			for i := range ns {
				ns[i] = fmt.Sprintf("q%d", i)
			}
			k := r.Intn(n)
			ns[k] = "_"
			ns[(k+1)%n] = "b"
		}
		return ns
	}},
}

func genShapes(r *hx.Rand, tier string) []*shape {
	var out []*shape
	add := func(s *shape) {
		s.id = len(out) + 1
		if s.plugin != "tuple" && !s.hasK() {
			// every signature must be a distinct type for goderive: force the unique type somewhere
			s.outer[r.Intn(len(s.outer))].c = 0
		}
		out = append(out, s)
	}
	maxN := 4
	typeKinds := []string{"mixed", "uniform"}
	if tier == "thorough" {
		maxN = 5
		typeKinds = []string{"mixed", "uniform", "mixed", "mixed", "mixed", "uniform", "mixed", "mixed"}
	}
	for _, plugin := range []string{"curry", "flip", "apply"} {
		for n := 2; n <= maxN; n++ {
			for _, mode := range flatModes {
				for nres := 0; nres <= 3; nres++ {
					for _, tk := range typeKinds {
						add(&shape{plugin: plugin, mode: mode, outer: mkParams(nameParams(r, mode, n), typeParams(r, tk, n)),
							results: mkResults(r, nres, "")})
					}
				}
			}
			// named / blank results, a result called f, variadic
			add(&shape{plugin: plugin, mode: "results-named", outer: mkParams(nameParams(r, "named", n), typeParams(r, "mixed", n)), results: mkResults(r, 2, "named")})
			add(&shape{plugin: plugin, mode: "results-blank", outer: mkParams(nameParams(r, "blank-some", n), typeParams(r, "mixed", n)), results: mkResults(r, 2, "blank")})
			add(&shape{plugin: plugin, mode: "results-f", outer: mkParams(nameParams(r, "named", n), typeParams(r, "mixed", n)), results: mkResults(r, 2, "f")})
			// a result called f and parameters f_, f__: the wrapper's own parameter is f___ or so
			add(&shape{plugin: plugin, mode: "results-f-chain", outer: mkParams(shift(nameParams(r, "f-chain", n), "_"), typeParams(r, "mixed", n)), results: mkResults(r, 1+r.Intn(3), "f")})
			// results called param_0, param_1, ...: the names made up for blank / unnamed parameters must avoid them
			add(&shape{plugin: plugin, mode: "results-prefix", outer: mkParams(nameParams(r, "blank-some", n), typeParams(r, "mixed", n)), results: mkResults(r, 1+r.Intn(3), "seq:param_")})
			add(&shape{plugin: plugin, mode: "results-prefix-unnamed", outer: mkParams(nameParams(r, "unnamed", n), typeParams(r, "uniform", n)), results: mkResults(r, n, "seq:param_")})
			add(&shape{plugin: plugin, mode: "results-prefix-underscore", outer: mkParams(nameParams(r, "blank-all", n), typeParams(r, "uniform", n)), results: mkResults(r, 2, "as:param_0_")})
			// variadic signatures are outside the property; flip with two parameters and apply make
			// goderive itself crash (types.NewSignature panics: a C09 matter), so only these
			if plugin == "curry" || (plugin == "flip" && n >= 3) {
				add(&shape{plugin: plugin, mode: "variadic", outer: mkParams(nameParams(r, "named", n), typeParams(r, "mixed", n)), results: mkResults(r, 1, ""), variadic: true})
			}
		}
	}
	// combinations: parameter and result names drawn independently from pools of all troublesome names
	ncombo := 6
	if tier == "thorough" {
		ncombo = 30
	}
	for _, plugin := range []string{"curry", "flip", "apply", "rt"} {
		for n := 2; n <= maxN; n++ {
			for k := 0; k < ncombo; k++ {
				ps := pickNames(r, n, comboParams, nil, true)
				add(&shape{plugin: plugin, mode: "combo", outer: mkParams(ps, typeParams(r, typeKinds[k%2], n)), results: comboResultList(r, nameSet(ps))})
			}
		}
	}
	for nin := 1; nin <= maxN-1; nin++ {
		for k := 0; k < 3*ncombo; k++ {
			in := pickNames(r, nin, comboInner, nil, true)
			out := pickNames(r, 1, comboOuter, nil, true)
			cs := typeParams(r, typeKinds[k%2], 1+nin)
			add(&shape{plugin: "uncurry", mode: "combo", outer: mkParams(out, cs[:1]), inner: mkParams(in, cs[1:]), results: comboResultList(r, nameSet(in))})
		}
	}
	// higher-order signatures (hardening round 5): the original function returns a function, returns one among other
	// results, or takes one. "Returns its results unchanged" and "Uncurry of Curry of f behaves as f" are about any
	// result type: a function that f returns is handed through, it is not another level of currying. Every
	// function-typed carrier appears as the single result of every plugin (for uncurry behind one and two inner
	// parameters), with the naming modes rotating, so that none of this depends on the random mixed types.
	fcs := funcCarriers()
	hofFlat := []string{"named", "common-names", "blank-some", "unnamed", "one-f", "named"}
	for _, plugin := range []string{"curry", "flip", "apply", "rt"} {
		for i, fc := range fcs {
			n := 2 + i%(maxN-1)
			mode := hofFlat[i%len(hofFlat)]
			add(&shape{plugin: plugin, mode: "hof-result", outer: mkParams(nameParams(r, mode, n), typeParams(r, typeKinds[i%2], n)), results: []param{{"", fc}}})
		}
		for k := 0; k < 3; k++ {
			n := 2 + k%(maxN-1)
			fc, fc2 := fcs[r.Intn(len(fcs))], fcs[r.Intn(len(fcs))]
			// a named function result; a function among / beside other results; functions as parameters
			add(&shape{plugin: plugin, mode: "hof-result-named", outer: mkParams(nameParams(r, "named", n), typeParams(r, "uniform", n)), results: []param{{"r", fc}}})
			add(&shape{plugin: plugin, mode: "hof-results", outer: mkParams(nameParams(r, hofFlat[k], n), typeParams(r, "mixed", n)), results: []param{{"", fc}, {"", pickCarrier(r)}}})
			add(&shape{plugin: plugin, mode: "hof-results", outer: mkParams(nameParams(r, "named", n), typeParams(r, "uniform", n)), results: []param{{"", fc}, {"", fc2}}})
			ps := mkParams(nameParams(r, hofFlat[k], n), typeParams(r, "uniform", n))
			ps[r.Intn(n)].c = fc
			if k == 1 {
				ps[n-1].c = fc2 // the value apply pre-binds is a function
			}
			add(&shape{plugin: plugin, mode: "hof-param", outer: ps, results: mkResults(r, k, "")})
			ps = mkParams(nameParams(r, "named", n), typeParams(r, "uniform", n))
			ps[0].c, ps[1].c = fc, fc2
			add(&shape{plugin: plugin, mode: "hof-param", outer: ps, results: []param{{"", fc}}})
		}
	}
	hofUncurry := []string{"named", "named", "blank-both", "unnamed-both", "blank-inner-some", "unnamed-outer", "outer-f", "inner-f"}
	umode := func(name string) uncurryMode {
		for _, m := range uncurryModes {
			if m.name == name {
				return m
			}
		}
		return uncurryModes[0]
	}
	for i, fc := range fcs {
		for nin := 1; nin <= 2; nin++ {
			m := umode(hofUncurry[(i+nin)%len(hofUncurry)])
			cs := typeParams(r, typeKinds[(i+nin)%2], 1+nin)
			add(&shape{plugin: "uncurry", mode: "hof-result", outer: mkParams(m.outer(r, 1), cs[:1]), inner: mkParams(m.inner(r, nin), cs[1:]), results: []param{{"", fc}}})
		}
		cs := typeParams(r, "uniform", 2)
		add(&shape{plugin: "uncurry", mode: "hof-result-named", outer: mkParams([]string{"a"}, cs[:1]), inner: mkParams([]string{"b"}, cs[1:]), results: []param{{[]string{"r", "f", "x"}[i%3], fc}}})
	}
	for k := 0; k < 4; k++ {
		nin := 1 + k%(maxN-1)
		fc, fc2 := fcs[r.Intn(len(fcs))], fcs[r.Intn(len(fcs))]
		cs := typeParams(r, "uniform", 1+nin)
		add(&shape{plugin: "uncurry", mode: "hof-results", outer: mkParams([]string{"a"}, cs[:1]), inner: mkParams(innerPlain(r, nin), cs[1:]), results: []param{{"", fc}, {"", fc2}}})
		// the outer parameter is a function (the inner ones keep the unique type), an inner parameter is one
		cs = typeParams(r, "uniform", 1+nin)
		cs[0] = fc
		add(&shape{plugin: "uncurry", mode: "hof-param", outer: mkParams([]string{[]string{"a", "_", "", "g"}[k]}, cs[:1]), inner: mkParams(innerPlain(r, nin), cs[1:]), results: mkResults(r, k%3, "")})
		cs = typeParams(r, "uniform", 1+nin)
		cs[1+r.Intn(nin)] = fc2
		add(&shape{plugin: "uncurry", mode: "hof-param", outer: mkParams([]string{"a"}, cs[:1]), inner: mkParams(innerPlain(r, nin), cs[1:]), results: []param{{"", fc}}})
	}
	// tuples of functions
	for n := 1; n <= 3; n++ {
		cs := make([]int, n)
		for i := range cs {
			cs[i] = fcs[r.Intn(len(fcs))]
		}
		add(&shape{plugin: "tuple", mode: "hof-tuple", outer: mkParams(make([]string, n), cs), tupleCall: n == 2})
	}
	// apply also accepts a single parameter (outside the 2..5 of the property, inside the model)
	add(&shape{plugin: "apply", mode: "named", outer: mkParams([]string{"a"}, []int{0}), results: mkResults(r, 1, "")})
	for nin := 1; nin <= maxN-1; nin++ {
		for _, m := range uncurryModes {
			for nres := 0; nres <= 3; nres++ {
				for _, tk := range typeKinds[:2] {
					cs := typeParams(r, tk, 1+nin)
					add(&shape{plugin: "uncurry", mode: m.name, outer: mkParams(m.outer(r, 1), cs[:1]), inner: mkParams(m.inner(r, nin), cs[1:]),
						results: mkResults(r, nres, "")})
				}
			}
		}
		add(&shape{plugin: "uncurry", mode: "results-named", outer: mkParams([]string{"a"}, []int{0}), inner: mkParams(innerPlain(r, nin), typeParams(r, "mixed", nin)), results: mkResults(r, 2, "named")})
		// the outer parameter has the name of an inner result; a result has the name the renaming makes up for the
		// outer / an inner parameter; a result is called f
		for _, tk := range typeKinds[:2] {
			cs := typeParams(r, tk, 1+nin)
			add(&shape{plugin: "uncurry", mode: "outer-is-result", outer: mkParams([]string{"a"}, cs[:1]), inner: mkParams(innerPlain(r, nin), cs[1:]), results: mkResults(r, 1+r.Intn(3), "as:a")})
			cs = typeParams(r, tk, 1+nin)
			add(&shape{plugin: "uncurry", mode: "result-param0", outer: mkParams([]string{[]string{"_", ""}[r.Intn(2)]}, cs[:1]), inner: mkParams(innerPlain(r, nin), cs[1:]), results: mkResults(r, 1+r.Intn(3), "as:param_0")})
			cs = typeParams(r, tk, 1+nin)
			add(&shape{plugin: "uncurry", mode: "result-innerParam", outer: mkParams([]string{"a"}, cs[:1]), inner: mkParams(allOf([]string{"_", ""}[r.Intn(2)])(r, nin), cs[1:]), results: mkResults(r, nin, "seq:innerParam_")})
			cs = typeParams(r, tk, 1+nin)
			add(&shape{plugin: "uncurry", mode: "result-f", outer: mkParams([]string{[]string{"a", "f_", "f__"}[r.Intn(3)]}, cs[:1]), inner: mkParams(innerPlain(r, nin), cs[1:]), results: mkResults(r, 1+r.Intn(3), "f")})
		}
	}
	for n := 2; n <= maxN; n++ {
		for _, mode := range []string{"named", "blank-some", "blank-all", "unnamed", "prefix-clash", "gen-names", "one-f", "blank-f", "f-chain", "prefix-underscore"} {
			for nres := 0; nres <= 3; nres++ {
				add(&shape{plugin: "rt", mode: mode, outer: mkParams(nameParams(r, mode, n), typeParams(r, typeKinds[nres%2], n)), results: mkResults(r, nres, "")})
			}
		}
	}
	for n := 1; n <= maxN+1; n++ {
		for k := 0; k < 3; k++ {
			cs := typeParams(r, typeKinds[k%2], n)
			ns := make([]string, n)
			add(&shape{plugin: "tuple", mode: "tuple", outer: mkParams(ns, cs)})
		}
	}
	// the other form of a tuple call: deriveTuple(g()), whose single argument is the tuple of g's results
	for n := 1; n <= maxN+1; n++ {
		for k := 0; k < 2; k++ {
			add(&shape{plugin: "tuple", mode: "tuple-of-call", outer: mkParams(make([]string, n), typeParams(r, typeKinds[k%2], n)), tupleCall: true})
		}
	}
	return out
}

// corpus line: plugin;params;inner;results;variadic   with params = name:type,... (name may be empty)
func parseCorpus(path string) ([]*shape, error) {
	data, err := os.ReadFile(path)
	if err != nil {
		return nil, err
	}
	sym := map[string]int{}
	for i, c := range carriers {
		sym[c.sym] = i
	}
	parseList := func(s string) ([]param, error) {
		var ps []param
		if strings.TrimSpace(s) == "" {
			return nil, nil
		}
		for _, f := range strings.Split(s, ",") {
			nt := strings.SplitN(strings.TrimSpace(f), ":", 2)
			if len(nt) != 2 {
				return nil, fmt.Errorf("bad parameter %q", f)
			}
			c, ok := sym[nt[1]]
			if !ok {
				return nil, fmt.Errorf("unknown type %q", nt[1])
			}
			ps = append(ps, param{nt[0], c})
		}
		return ps, nil
	}
	var out []*shape
	for _, line := range strings.Split(string(data), "\n") {
		if i := strings.Index(line, "#"); i >= 0 {
			line = line[:i]
		}
		line = strings.TrimSpace(line)
		if line == "" {
			continue
		}
		f := strings.Split(line, ";")
		if len(f) != 5 {
			return nil, fmt.Errorf("%s: bad corpus line %q", path, line)
		}
		s := &shape{plugin: f[0], mode: "corpus", variadic: f[4] == "1"}
		if s.outer, err = parseList(f[1]); err != nil {
			return nil, err
		}
		if s.inner, err = parseList(f[2]); err != nil {
			return nil, err
		}
		if s.results, err = parseList(f[3]); err != nil {
			return nil, err
		}
		out = append(out, s)
	}
	return out, nil
}

// ---------- splitting derived.gen.go and checking one function at a time ----------

func splitFuncs(src string) map[string]string {
	out := map[string]string{}
	lines := strings.Split(src, "\n")
	for i := 0; i < len(lines); i++ {
		if !strings.HasPrefix(lines[i], "func ") {
			continue
		}
		name := strings.TrimPrefix(lines[i], "func ")
		if k := strings.IndexByte(name, '('); k >= 0 {
			name = name[:k]
		}
		j := i
		for j < len(lines) && lines[j] != "}" {
			j++
		}
		if j >= len(lines) {
			j = len(lines) - 1
		}
		out[name] = strings.Join(lines[i:j+1], "\n") + "\n"
		i = j
	}
	return out
}

// checkFunc type-checks the text of derived functions together with the declarations they need.
func checkFunc(decls string, chunks ...string) (bool, string) {
	src := "package main\n\n" + decls + "\n" + strings.Join(chunks, "\n")
	fset := token.NewFileSet()
	f, err := parser.ParseFile(fset, "derived.gen.go", src, parser.AllErrors)
	if err != nil {
		return false, "syntax: " + firstLine(err.Error())
	}
	var first string
	conf := types.Config{Error: func(e error) {
		if first == "" {
			first = e.Error()
		}
	}}
	conf.Check("main", fset, []*ast.File{f}, nil)
	if first != "" {
		return false, "types: " + firstLine(first)
	}
	return true, ""
}

func firstLine(s string) string {
	if i := strings.IndexByte(s, '\n'); i >= 0 {
		return s[:i]
	}
	return s
}

// ---------- Run ----------

func Run(cfg hx.Config) (*hx.Meta, error) {
	meta := &hx.Meta{Property: "C15", Seed: cfg.Seed, Tier: cfg.Tier}
	r := hx.NewRand(cfg.Seed)

	var shapes []*shape
	if ents, err := os.ReadDir(cfg.Corpus); err == nil {
		var names []string
		for _, e := range ents {
			if strings.HasSuffix(e.Name(), ".txt") {
				names = append(names, e.Name())
			}
		}
		sort.Strings(names)
		for _, n := range names {
			cs, err := parseCorpus(filepath.Join(cfg.Corpus, n))
			if err != nil {
				return nil, err
			}
			shapes = append(shapes, cs...)
		}
	}
	ncorpus := len(shapes)
	shapes = append(shapes, genShapes(r, cfg.Tier)...)
	for i, s := range shapes {
		s.id = i + 1
		if s.plugin != "tuple" && !s.hasK() {
			s.outer[0].c = 0
		}
	}
	meta.Count(fmt.Sprintf("corpus-shapes=%d", ncorpus))

	// ---- packages of at most perPkg shapes: one goderive run each ----
	perPkg := 250
	type pkg struct {
		dir    string
		shapes []*shape
	}
	var pkgs []*pkg
	// variadic signatures are outside the property, and goderive refuses them since 80a8213/7af0c3a (a
	// refusal stops the whole package): each gets a package of its own, where a refusal is accepted
	var plain, variadic []*shape
	for _, s := range shapes {
		if s.variadic {
			variadic = append(variadic, s)
		} else {
			plain = append(plain, s)
		}
	}
	for i := 0; i < len(plain); i += perPkg {
		j := i + perPkg
		if j > len(plain) {
			j = len(plain)
		}
		pkgs = append(pkgs, &pkg{dir: filepath.Join(cfg.Work, fmt.Sprintf("c15pkg%d", len(pkgs))), shapes: plain[i:j]})
	}
	for _, s := range variadic {
		pkgs = append(pkgs, &pkg{dir: filepath.Join(cfg.Work, fmt.Sprintf("c15pkg%d", len(pkgs))), shapes: []*shape{s}})
	}
	meta.Packages = len(pkgs)

	var obs strings.Builder
	nargv := 2
	if cfg.Tier == "thorough" {
		nargv = 6
	}
	vetSamples := map[string]bool{}
	for pi, p := range pkgs {
		if err := hx.Module(p.dir); err != nil {
			return nil, err
		}
		var user strings.Builder
		user.WriteString("package main\n\n" + preamble + "\n")
		for _, s := range p.shapes {
			s.userDecls(&user)
		}
		user.WriteString("\nfunc use() {\n")
		for _, s := range p.shapes {
			s.userCall(&user)
		}
		user.WriteString("}\n")
		files := map[string]string{"user.go": user.String()}
		if err := hx.WriteFiles(p.dir, files); err != nil {
			return nil, err
		}
		g := hx.Goderive(cfg.Goderive, p.dir, ".")
		meta.GoderiveRuns++
		if g.Exit != 0 && len(p.shapes) == 1 && p.shapes[0].variadic && !g.TimedOut && !strings.Contains(g.Out, "panic:") {
			meta.Count("variadic-refused (outside the property)")
			continue
		}
		if g.Exit != 0 {
			meta.AddDirect(hx.Direct{Class: "c15-generate-failed", What: "goderive failed on a package of curry/uncurry/flip/apply/tuple calls",
				Files: files, Cmd: "goderive .", Output: hx.Truncate(g.Out, 4000)})
			continue
		}
		genb, _ := os.ReadFile(filepath.Join(p.dir, "derived.gen.go"))
		gen := string(genb)
		if pi == 0 {
			_ = os.WriteFile(filepath.Join(cfg.Out, "c15.derived.gen.go"), genb, 0o644)
			_ = os.WriteFile(filepath.Join(cfg.Out, "c15.user.go"), []byte(files["user.go"]), 0o644)
		}
		funcs := splitFuncs(gen)

		// ---- well-formedness of every derived function, one at a time ----
		var good []*shape
		var goodGen strings.Builder
		goodGen.WriteString("package main\n\n")
		for _, s := range p.shapes {
			decls := preamble + fmt.Sprintf("type K%d int\n", s.id)
			var chunks []string
			missing := ""
			for _, dn := range s.derivedNames() {
				c, ok := funcs[dn]
				if !ok {
					missing = dn
				}
				chunks = append(chunks, c)
			}
			ok, why := false, ""
			if missing != "" {
				why = "not generated: " + missing
			} else if ok, why = checkFunc(decls, chunks...); ok {
				// the derived function compiles; it must also be the function the property speaks of
				asserts := s.typeAsserts()
				chunks = append(chunks, asserts)
				if ok, why = checkFunc(decls, chunks...); !ok {
					why = "the derived function does not have the type of a wrapper that only re-plumbs the arguments: " + why
					if key := "type/" + s.plugin; !vetSamples[key] {
						vetSamples[key] = true
						meta.AddDirect(hx.Direct{Class: "c15-derived-type-differs",
							What: fmt.Sprintf("goderive exits 0 and the function derived by %s for %s compiles, but it is not of the type %s", s.plugin, s.funcType(), strings.TrimSpace(asserts)),
							Files: map[string]string{"user.go": "package main\n\n" + preamble + s.userText(), "derived.gen.go (this function)": strings.Join(chunks[:len(chunks)-1], "\n")},
							Cmd:   "goderive . && go vet .   (with `" + strings.TrimSpace(asserts) + "` added to the package)", Output: why})
					}
				}
			}
			fmt.Fprintf(&obs, "(wf %s %s %d)\n", s.plugin, s.sexp(), b2i(ok))
			meta.Count("wf/" + s.plugin + "/" + s.mode + fmt.Sprintf("/ok=%d", b2i(ok)))
			meta.Cases++
			if ok {
				if s.variadic {
					continue // outside the property (`b ...interface{}` happens to compile); no driver
				}
				good = append(good, s)
				for _, c := range chunks {
					goodGen.WriteString(c)
					goodGen.WriteString("\n")
				}
			} else {
				key := s.plugin + "/" + s.mode
				if !vetSamples[key] {
					vetSamples[key] = true
					// the in-process verdict must be the toolchain's verdict: go vet on this function alone
					d := filepath.Join(cfg.Work, fmt.Sprintf("c15ill%d", s.id))
					if err := hx.Module(d); err != nil {
						return nil, err
					}
					src := "package main\n\n" + decls + "\n" + strings.Join(chunks, "\n") + "\nfunc main() {}\n"
					if err := hx.WriteFiles(d, map[string]string{"derived.gen.go": src}); err != nil {
						return nil, err
					}
					v := hx.GoVet(d, "")
					if v.Exit == 0 {
						meta.AddDirect(hx.Direct{Class: "c15-checker-disagrees", What: "in-process type check rejects a derived function that go vet accepts (" + why + ")",
							Files: map[string]string{"derived.gen.go": src}, Cmd: "go vet .", Output: hx.Truncate(v.Out, 2000)})
					}
					meta.Count("go-vet-confirmed-ill")
					if len(meta.Samples) < 5 {
						meta.Sample(fmt.Sprintf("ill-formed %s %s: %s", s.plugin, s.funcType(), why))
					}
				}
			}
		}

		// ---- behaviour of the well-formed ones: real go vet + go build + run ----
		bdir := filepath.Join(cfg.Work, fmt.Sprintf("c15run%d", pi))
		if err := hx.Module(bdir); err != nil {
			return nil, err
		}
		var decl, drv strings.Builder
		decl.WriteString("package main\n\n" + preamble + "\n")
		drv.WriteString(driverHeader)
		for _, s := range good {
			fmt.Fprintf(&decl, "type K%d int\n", s.id)
			n := len(s.outer) + len(s.inner)
			var argvs [][]int
			for k := 0; k < nargv; k++ {
				ids := make([]int, n)
				for i := range ids {
					ids[i] = 1 + r.Intn(97)
				}
				if k == 1 {
					// all arguments equal but one: a wrapper that duplicates an argument shows
					for i := range ids {
						ids[i] = ids[0]
					}
					ids[r.Intn(n)] = ids[0] + 1
				}
				argvs = append(argvs, ids)
				meta.Cases++
			}
			s.driver(&drv, argvs)
			meta.Count("call/" + s.plugin + "/" + s.mode)
		}
		bfiles := map[string]string{"decl.go": decl.String(), "derived.gen.go": goodGen.String(), "driver.go": drv.String()}
		if err := hx.WriteFiles(bdir, bfiles); err != nil {
			return nil, err
		}
		if v := hx.GoVet(bdir, ""); v.Exit != 0 {
			meta.AddDirect(hx.Direct{Class: "c15-vet-failed", What: "go vet rejects derived functions that type-checked one by one",
				Files: map[string]string{"derived.gen.go": bfiles["derived.gen.go"]}, Cmd: "go vet .", Output: hx.Truncate(v.Out, 4000)})
			continue
		}
		exe := filepath.Join(bdir, "drv")
		if b := hx.GoBuild(bdir, exe, ""); b.Exit != 0 {
			meta.AddDirect(hx.Direct{Class: "c15-build-failed", What: "derived functions that type-checked one by one do not build with their driver",
				Files: map[string]string{"derived.gen.go": bfiles["derived.gen.go"]}, Cmd: "go build", Output: hx.Truncate(b.Out, 4000)})
			continue
		}
		res := hx.Run(bdir, 120e9, 4000000, nil, exe)
		if res.Exit != 0 {
			meta.AddDirect(hx.Direct{Class: "c15-driver-failed", What: "driver crashed (a derived wrapper panicked?)", Cmd: "./drv", Output: hx.Truncate(res.Out, 4000)})
			continue
		}
		obs.WriteString(res.Stdout)
		sc := bufio.NewScanner(strings.NewReader(res.Stdout))
		for k := 0; sc.Scan() && k < 400; k++ {
			if k%97 == 3 {
				meta.Sample(hx.Truncate(sc.Text(), 240))
			}
		}
	}
	// ---- derived functions with several call sites; call sites renamed under --dedup / --autoname (sites.go) ----
	nsites := 0
	for _, sc := range genScenarios(r, cfg.Tier, len(shapes)+1) {
		if err := runScenario(cfg, meta, r, sc, &obs, nargv); err != nil {
			return nil, err
		}
		for _, g := range sc.groups {
			nsites += len(g.sites)
		}
	}
	meta.Count(fmt.Sprintf("call-sites-of-shared-or-renamed-functions=%d", nsites))
	of := filepath.Join(cfg.Out, "c15.obs")
	if err := os.WriteFile(of, []byte(obs.String()), 0o644); err != nil {
		return nil, err
	}
	meta.ObsFiles = append(meta.ObsFiles, of)
	meta.Count(fmt.Sprintf("shapes=%d", len(shapes)))
	return meta, nil
}
