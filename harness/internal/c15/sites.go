// sites.go: one derived function reached from several call sites, and call sites that goderive renames.
//
// The shapes of c15.go give every derived function exactly one call site and run goderive without flags. Here
//
//   - several call sites ask for the SAME derived function with functions of identical type whose parameter
//     (and result) names differ: names permuted among same-typed parameters, unrelated names, blank / unnamed /
//     `f` at one site and plain names at the other.  goderive identifies functions by type, so one function is
//     generated (from the signature of one of the sites) and has to serve all of them;
//   - the same packages are generated with --dedup (call sites that ask for differently named functions of one
//     type are rewritten to the first name), with --autoname (one name asked for with several types: the later
//     call sites are rewritten to a made-up name) and with both; some packages contain nested calls
//     (Uncurry(Curry(f))), which make goderive load and visit the package a second time.
//
// The driver never names a derived function: it goes through a function of the user's file
// (`func site7(f func(a K3, b int) int) func(K3) func(int) int { return deriveCurryD3x1(f) }`), which is read back
// after goderive has possibly rewritten it.  Each group of sites is type-checked on its own together with the
// derived functions its sites call (a site whose callee does not exist, or has another type, is a direct
// finding); the others are built and run.  Observation:
//
//	(site PLUGIN (FLAG...) (SIG...) J ARGS (ret LOG RESULTS))
//
// SIG... are the signatures of all the sites of the group in source order (the generator works from the first),
// J the site that was called.
package c15

import (
	"fmt"
	"go/ast"
	"go/parser"
	"go/token"
	"os"
	"path/filepath"
	"sort"
	"strings"

	"verifharness/internal/hx"
)

type siteGroup struct {
	plugin  string
	sites   []*shape
	req     [][]string // per site: the derived function(s) the user asks for (rt: curry, uncurry)
	file    []int      // per site: index of the user file it is written in
	variant []string   // per site: how its names relate to the first site's
}

type scenario struct {
	name   string
	flags  []string
	nested bool // has Uncurry(Curry(f)) groups: goderive makes a second pass
	files  int
	groups []*siteGroup
}

func (sc *scenario) flagSexp() string {
	var l []string
	for _, f := range sc.flags {
		l = append(l, strings.TrimLeft(f, "-"))
	}
	return "(" + strings.Join(l, " ") + ")"
}

func (g *siteGroup) sigsSexp() string {
	var l []string
	for _, s := range g.sites {
		l = append(l, s.sexp())
	}
	return "(" + strings.Join(l, " ") + ")"
}

// the type of the function the derived function returns (types only)
func (s *shape) derivedType() string {
	all := append(append([]param{}, s.outer...), s.inner...)
	n := len(all)
	R := s.resultListTypesOnly()
	switch s.plugin {
	case "curry":
		return "func(" + s.paramListTypesOnly(all[:1]) + ") func(" + s.paramListTypesOnly(all[1:]) + ")" + R
	case "flip":
		sw := append([]param{}, all...)
		sw[0], sw[1] = sw[1], sw[0]
		return "func(" + s.paramListTypesOnly(sw) + ")" + R
	case "apply":
		return "func(" + s.paramListTypesOnly(all[:n-1]) + ")" + R
	case "uncurry", "rt":
		return "func(" + s.paramListTypesOnly(all) + ")" + R
	case "tuple":
		return "func() (" + s.paramListTypesOnly(s.outer) + ")"
	}
	return ""
}

// the declarations of one call site in the user's file
func (s *shape) siteDecl(req []string) string {
	var b strings.Builder
	switch s.plugin {
	case "curry", "flip", "uncurry":
		fmt.Fprintf(&b, "func site%d(f %s) %s { return %s(f) }\n", s.id, s.funcType(), s.derivedType(), req[0])
	case "rt":
		fmt.Fprintf(&b, "func site%d(f %s) %s { return %s(%s(f)) }\n", s.id, s.funcType(), s.derivedType(), req[1], req[0])
	case "apply":
		fmt.Fprintf(&b, "func site%d(f %s, l %s) %s { return %s(f, l) }\n", s.id, s.funcType(), s.goType(s.outer[len(s.outer)-1].c), s.derivedType(), req[0])
	case "tuple":
		if s.tupleCall {
			var vs []string
			for i := range s.outer {
				vs = append(vs, fmt.Sprintf("pv%d_%d", s.id, i))
			}
			fmt.Fprintf(&b, "func pair%d() (%s) { return %s }\n", s.id, s.paramListTypesOnly(s.outer), strings.Join(vs, ", "))
			fmt.Fprintf(&b, "func site%d() %s { return %s(pair%d()) }\n", s.id, s.derivedType(), req[0], s.id)
			break
		}
		var ps, as []string
		for i, p := range s.outer {
			ps = append(ps, fmt.Sprintf("t%d %s", i, s.goType(p.c)))
			as = append(as, fmt.Sprintf("t%d", i))
		}
		fmt.Fprintf(&b, "func site%d(%s) %s { return %s(%s) }\n", s.id, strings.Join(ps, ", "), s.derivedType(), req[0], strings.Join(as, ", "))
	}
	return b.String()
}

// package level variables a site needs (kept apart from the functions, which are read back from the user's file)
func (s *shape) siteVars() string {
	if s.plugin != "tuple" || !s.tupleCall {
		return ""
	}
	var b strings.Builder
	for i, p := range s.outer {
		fmt.Fprintf(&b, "var pv%d_%d %s\n", s.id, i, s.goType(p.c))
	}
	return b.String()
}

func siteCallee(sc *scenario, g *siteGroup, j int) callee {
	head := fmt.Sprintf("site %s %s %s %d", g.plugin, sc.flagSexp(), g.sigsSexp(), j)
	return callee{head: head, expr: func(s *shape, args []string) ([]string, string) {
		n := len(args)
		switch s.plugin {
		case "curry":
			return nil, fmt.Sprintf("site%d(f)(%s)(%s)", s.id, args[0], strings.Join(args[1:], ", "))
		case "flip", "uncurry", "rt":
			return nil, fmt.Sprintf("site%d(f)(%s)", s.id, strings.Join(args, ", "))
		case "apply":
			return nil, fmt.Sprintf("site%d(f, %s)(%s)", s.id, args[n-1], strings.Join(args[:n-1], ", "))
		case "tuple":
			if s.tupleCall {
				var pre []string
				for i, a := range args {
					pre = append(pre, fmt.Sprintf("pv%d_%d = %s", s.id, i, a))
				}
				return pre, fmt.Sprintf("site%d()()", s.id)
			}
			return nil, fmt.Sprintf("site%d(%s)()", s.id, strings.Join(args, ", "))
		}
		return nil, ""
	}}
}

// ---------- generation ----------

var freshNames = []string{"x", "y", "z", "u", "w", "t"}

var site0Modes = []string{"named", "named", "blank-some", "unnamed", "one-f", "common-names", "gen-names"}
var siteVariants = []string{"perm", "perm", "fresh", "blank-some", "unnamed", "one-f", "f-chain", "prefix-clash", "same", "common-names"}

func allSame(l []string) bool {
	for _, x := range l {
		if x != l[0] {
			return false
		}
	}
	return true
}

// names of the j-th site, given the first site's
func variantNames(r *hx.Rand, variant string, first []string) []string {
	n := len(first)
	switch variant {
	case "perm":
		// the first site's names on other parameters
		if n < 2 || allSame(first) {
			return append([]string{}, freshNames[:n]...)
		}
		k := 1 + r.Intn(n-1)
		out := make([]string, n)
		for i := range out {
			out[i] = first[(i+k)%n]
		}
		return out
	case "fresh":
		return append([]string{}, freshNames[:n]...)
	case "same":
		return append([]string{}, first...)
	}
	if n < 2 && (variant == "prefix-clash" || variant == "blank-f") {
		variant = "blank-some"
	}
	return nameParams(r, variant, n)
}

func renamed(rs []param, style int) []param {
	out := append([]param{}, rs...)
	for i := range out {
		switch style {
		case 0:
			out[i].name = ""
		case 1:
			out[i].name = fmt.Sprintf("r%d", i)
		case 2:
			out[i].name = fmt.Sprintf("out%d", len(out)-1-i)
		}
	}
	return out
}

func pluginFunc(plugin string) string {
	return "derive" + strings.ToUpper(plugin[:1]) + plugin[1:]
}

func genScenarios(r *hx.Rand, tier string, nextID int) []*scenario {
	scs := []*scenario{
		{name: "shared", files: 1},
		{name: "shared-nested", nested: true, files: 2},
		{name: "dedup", flags: []string{"--dedup"}, nested: true, files: 2},
		{name: "autoname", flags: []string{"--autoname"}, nested: true, files: 1},
		{name: "dedup-autoname", flags: []string{"--dedup", "--autoname"}, nested: true, files: 2},
	}
	perPlugin := 4
	if tier == "thorough" {
		perPlugin = 12
	}
	gid := 0
	for _, sc := range scs {
		dedup, autoname := false, false
		for _, f := range sc.flags {
			dedup = dedup || f == "--dedup"
			autoname = autoname || f == "--autoname"
		}
		plugins := []string{"curry", "flip", "apply", "uncurry", "tuple"}
		if sc.nested {
			plugins = append(plugins, "rt")
		}
		for _, plugin := range plugins {
			for gi := 0; gi < perPlugin; gi++ {
				gid++
				n := 2 + gi%3
				if plugin == "tuple" {
					n = 1 + gi%4
				}
				kind := "uniform"
				if gi%2 == 1 {
					kind = "mixed"
				}
				cs := typeParams(r, kind, n)
				var results []param
				if plugin != "tuple" {
					results = mkResults(r, r.Intn(3), "")
				}
				k := 2 + r.Intn(2)
				if autoname && !dedup && (gi > 0 || plugin == "rt") {
					// without --dedup a second site of a renamed function is a duplicate, which goderive refuses
					// (only the first group of a plugin keeps the name it asked for)
					k = 1
				}
				g := &siteGroup{plugin: plugin}
				var first []string
				for j := 0; j < k; j++ {
					variant := site0Modes[r.Intn(len(site0Modes))]
					if j > 0 {
						variant = siteVariants[r.Intn(len(siteVariants))]
					}
					if gi == 0 {
						// one group per plugin and scenario whose sites only permute plain names of same-typed parameters
						variant = []string{"named", "perm", "perm"}[j]
					}
					var names []string
					switch {
					case plugin == "tuple":
						names = make([]string, n)
					case j == 0:
						names = nameParams(r, variant, n)
						first = names
					default:
						names = variantNames(r, variant, first)
					}
					s := &shape{id: nextID, plugin: plugin, mode: "site/" + sc.name + "/" + variant}
					nextID++
					ps := mkParams(names, cs)
					if plugin == "uncurry" {
						s.outer, s.inner = ps[:1], ps[1:]
					} else {
						s.outer = ps
					}
					if plugin == "tuple" {
						s.tupleCall = (gi+j)%2 == 1
					} else if j == 0 {
						s.results = renamed(results, 0)
					} else {
						s.results = renamed(results, r.Intn(3))
					}
					g.sites = append(g.sites, s)
					g.variant = append(g.variant, variant)
					g.file = append(g.file, (gi+j)%sc.files)
					// the name(s) this site asks for
					base := []string{pluginFunc(plugin)}
					if plugin == "rt" {
						base = []string{"deriveCurry", "deriveUncurry"}
					}
					var req []string
					for _, b := range base {
						name := fmt.Sprintf("%sS%d", b, gid)
						switch {
						case autoname && (j == 0 || !dedup || r.Intn(2) == 0):
							name = b + "Q" // every group asks for this one
						case dedup && gi%3 != 2:
							name = fmt.Sprintf("%sD%dx%d", b, gid, j) // every site asks for its own
						}
						req = append(req, name)
					}
					g.req = append(g.req, req)
				}
				for _, s := range g.sites {
					s.kid = g.sites[0].id
				}
				sc.groups = append(sc.groups, g)
			}
		}
	}
	return scs
}

// ---------- reading the user's files back ----------

type userFunc struct {
	text    string
	callees []string // derive* functions it calls
}

func readUserFuncs(paths []string) (map[string]userFunc, error) {
	out := map[string]userFunc{}
	for _, p := range paths {
		src, err := os.ReadFile(p)
		if err != nil {
			return nil, err
		}
		fset := token.NewFileSet()
		f, err := parser.ParseFile(fset, p, src, 0)
		if err != nil {
			return nil, fmt.Errorf("%s after goderive: %v", p, err)
		}
		for _, d := range f.Decls {
			fd, ok := d.(*ast.FuncDecl)
			if !ok || fd.Body == nil {
				continue
			}
			uf := userFunc{text: string(src[fset.Position(fd.Pos()).Offset:fset.Position(fd.End()).Offset]) + "\n"}
			ast.Inspect(fd.Body, func(n ast.Node) bool {
				if c, ok := n.(*ast.CallExpr); ok {
					if id, ok := c.Fun.(*ast.Ident); ok && strings.HasPrefix(id.Name, "derive") {
						uf.callees = append(uf.callees, id.Name)
					}
				}
				return true
			})
			out[fd.Name.Name] = uf
		}
	}
	return out, nil
}

// ---------- running one scenario ----------

func runScenario(cfg hx.Config, meta *hx.Meta, r *hx.Rand, sc *scenario, obs *strings.Builder, nargv int) error {
	dir := filepath.Join(cfg.Work, "c15sites-"+sc.name)
	if err := hx.Module(dir); err != nil {
		return err
	}
	texts := make([]strings.Builder, sc.files)
	for i := range texts {
		texts[i].WriteString("package main\n\n")
	}
	texts[0].WriteString(preamble + "\n")
	for _, g := range sc.groups {
		fmt.Fprintf(&texts[g.file[0]], "type K%d int\n", g.sites[0].kID())
		for j, s := range g.sites {
			texts[g.file[j]].WriteString(s.siteVars())
			texts[g.file[j]].WriteString(s.siteDecl(g.req[j]))
		}
	}
	files := map[string]string{}
	var paths []string
	for i := range texts {
		name := "user.go"
		if i > 0 {
			name = fmt.Sprintf("user%d.go", i+1)
		}
		files[name] = texts[i].String()
		paths = append(paths, filepath.Join(dir, name))
	}
	if err := hx.WriteFiles(dir, files); err != nil {
		return err
	}
	cmd := strings.Join(append(append([]string{"goderive"}, sc.flags...), "."), " ")
	g := hx.Goderive(cfg.Goderive, dir, append(append([]string{}, sc.flags...), ".")...)
	meta.GoderiveRuns++
	meta.Packages++
	if g.Exit != 0 {
		meta.AddDirect(hx.Direct{Class: "c15-sites-generate-failed", What: "goderive failed on a package whose curry/uncurry/flip/apply/tuple functions have several call sites (" + sc.name + ")",
			Files: files, Cmd: cmd, Output: hx.Truncate(g.Out, 4000)})
		return nil
	}
	genb, _ := os.ReadFile(filepath.Join(dir, "derived.gen.go"))
	funcs := splitFuncs(string(genb))
	after := map[string]string{}
	for _, p := range paths {
		b, _ := os.ReadFile(p)
		after["after/"+filepath.Base(p)] = string(b)
	}
	ufuncs, err := readUserFuncs(paths)
	if err != nil {
		meta.AddDirect(hx.Direct{Class: "c15-sites-user-file-broken", What: "a user file does not parse after goderive rewrote it (" + sc.name + "): " + err.Error(),
			Files: files, Cmd: cmd, Output: hx.Truncate(g.Out, 2000)})
		return nil
	}

	// ---- every group on its own: its sites as they now read, and the derived functions they call ----
	var decl, sites, drv strings.Builder
	decl.WriteString("package main\n\n" + preamble + "\n")
	sites.WriteString("package main\n\n")
	drv.WriteString(driverHeader)
	derived := map[string]bool{}
	var derivedOrder []string
	nill := 0
	for _, grp := range sc.groups {
		gdecls := preamble + fmt.Sprintf("type K%d int\n", grp.sites[0].kID())
		var chunks, names []string
		seen := map[string]bool{}
		for _, s := range grp.sites {
			gdecls += s.siteVars()
			for _, fn := range []string{fmt.Sprintf("pair%d", s.id), fmt.Sprintf("site%d", s.id)} {
				uf, ok := ufuncs[fn]
				if !ok {
					continue
				}
				chunks = append(chunks, uf.text)
				for _, c := range uf.callees {
					if !seen[c] {
						seen[c] = true
						names = append(names, c)
					}
				}
			}
		}
		nuser := len(chunks)
		for _, c := range names {
			if t, ok := funcs[c]; ok {
				chunks = append(chunks, t)
			}
		}
		ok, why := checkFunc(gdecls, chunks...)
		for j := range grp.sites {
			meta.Count(fmt.Sprintf("%s/%s/%s/ok=%d", grp.sites[j].mode, grp.plugin, siteKind(j), b2i(ok)))
		}
		meta.Cases++
		if !ok {
			nill++
			if nill <= 4 {
				fs := map[string]string{"group.go": "package main\n\n" + gdecls + "\n" + strings.Join(chunks, "\n")}
				for k, v := range files {
					fs[k] = v
				}
				for k, v := range after {
					fs[k] = v
				}
				meta.AddDirect(hx.Direct{Class: "c15-site-ill-formed",
					What:  fmt.Sprintf("%s (%s): goderive exits 0, but the call sites of one %s function and the functions generated for them do not type-check together: %s; sites %s", sc.name, cmd, grp.plugin, why, grp.sigsSexp()),
					Files: fs, Cmd: cmd + " && go vet .", Output: hx.Truncate(why+"\n"+g.Out, 3000)})
			}
			continue
		}
		fmt.Fprintf(&decl, "type K%d int\n", grp.sites[0].kID())
		for _, c := range chunks[:nuser] {
			sites.WriteString(c)
		}
		for _, c := range names {
			if !derived[c] {
				derived[c] = true
				derivedOrder = append(derivedOrder, c)
			}
		}
		for j, s := range grp.sites {
			decl.WriteString(s.siteVars())
			nn := len(s.outer) + len(s.inner)
			var argvs [][]int
			for k := 0; k < nargv; k++ {
				ids := make([]int, nn)
				for i := range ids {
					ids[i] = 1 + r.Intn(97)
				}
				if k == 1 {
					for i := range ids {
						ids[i] = ids[0]
					}
					ids[r.Intn(nn)] = ids[0] + 1
				}
				argvs = append(argvs, ids)
				meta.Cases++
			}
			s.driverVia(&drv, argvs, siteCallee(sc, grp, j))
		}
	}
	if nill > 4 {
		meta.Count(fmt.Sprintf("site-groups-ill-formed-not-listed/%s=%d", sc.name, nill-4))
	}
	var gen strings.Builder
	gen.WriteString("package main\n\n")
	sort.Strings(derivedOrder)
	for _, c := range derivedOrder {
		gen.WriteString(funcs[c])
		gen.WriteString("\n")
	}
	bdir := filepath.Join(cfg.Work, "c15sites-run-"+sc.name)
	if err := hx.Module(bdir); err != nil {
		return err
	}
	bfiles := map[string]string{"decl.go": decl.String(), "sites.go": sites.String(), "derived.gen.go": gen.String(), "driver.go": drv.String()}
	if err := hx.WriteFiles(bdir, bfiles); err != nil {
		return err
	}
	exe := filepath.Join(bdir, "drv")
	if b := hx.GoBuild(bdir, exe, ""); b.Exit != 0 {
		meta.AddDirect(hx.Direct{Class: "c15-build-failed", What: "call sites and derived functions that type-checked group by group do not build with their driver (" + sc.name + ")",
			Files: map[string]string{"derived.gen.go": bfiles["derived.gen.go"], "sites.go": bfiles["sites.go"]}, Cmd: "go build", Output: hx.Truncate(b.Out, 4000)})
		return nil
	}
	res := hx.Run(bdir, 120e9, 4000000, nil, exe)
	if res.Exit != 0 {
		meta.AddDirect(hx.Direct{Class: "c15-driver-failed", What: "driver crashed (" + sc.name + ")", Cmd: "./drv", Output: hx.Truncate(res.Out, 4000)})
		return nil
	}
	obs.WriteString(res.Stdout)
	if i := strings.IndexByte(res.Stdout, '\n'); i > 0 {
		meta.Sample(hx.Truncate(res.Stdout[:i], 400))
	}
	return nil
}

func siteKind(j int) string {
	if j == 0 {
		return "first"
	}
	return "later"
}
