package c19

// Hardening round 5: two more classes of input for the real-runtime battery.
//
//	shared channels (env 7): the inputs of a join need not be pairwise distinct channels: the same channel
//	    twice on the channel of channels, twice in the slice, for two parameters of the variadic form,
//	    returned for two different items by the second stage of a pipeline;
//	zero items (env 8): the zero value of the element type is an item like any other, also for element types
//	    other than int (error, interface{}, *int: nil): the typed instances below exist for that.

import "verifharness/internal/hx"

// instances of the combinators over other element types (same package main; goderive tells the instances
// apart because the channel types are not assignable to each other).  They are translated and compared
// with the expected IR like the int instances, and run in the zero-items environment.
var typedForms = []form{
	{"fmap_e", "", "deriveFmapE", "fmap", 1, 1},
	{"dup_e", "", "deriveDupE", "dup", 2, 1},
	{"join_cc_e", "", "deriveJoinCCE", "joincc", 1, 1},
	{"join_cc_a", "", "deriveJoinCCA", "joincc", 1, 2},
	{"join_sl_e", "", "deriveJoinSlE", "joinsl", 1, 1},
	{"join_sl_sa", "", "deriveJoinSlSA", "joinsl", 1, 2},
	{"join_sl_p", "", "deriveJoinSlP", "joinsl", 1, 3},
	{"join_var2_e", "", "deriveJoinV2E", "joinvar", 1, 1},
	{"join_var3_p", "", "deriveJoinV3P", "joinvar", 1, 3},
	{"pipeline_e", "", "derivePipelineE", "pipeline", 1, 1},
}

// appended to calls.go (no imports: error and interface{} are predeclared)
const callsTyped = `
func callFmapE(f func(error) error, in <-chan error) <-chan error { return deriveFmapE(f, in) }
func callDupE(c chan error) (<-chan error, <-chan error)          { return deriveDupE(c) }
func callJoinCCE(in <-chan (<-chan error)) <-chan error            { return deriveJoinCCE(in) }
func callJoinCCA(in <-chan (<-chan interface{})) <-chan interface{} {
	return deriveJoinCCA(in)
}
func callJoinSlE(in []<-chan error) <-chan error            { return deriveJoinSlE(in) }
func callJoinSlSA(in []chan interface{}) <-chan interface{} { return deriveJoinSlSA(in) }
func callJoinSlP(in []<-chan *int) <-chan *int              { return deriveJoinSlP(in) }
func callJoinV2E(c0, c1 chan error) <-chan error            { return deriveJoinV2E(c0, c1) }
func callJoinV3P(c0, c1, c2 chan *int) <-chan *int          { return deriveJoinV3P(c0, c1, c2) }
func callPipelineE(f func([]int) <-chan error, g func(error) <-chan error) func([]int) <-chan error {
	return derivePipelineE(f, g)
}
`

// second file of the driver: the typed instances.  An item x of a configuration is conv(x) on the typed
// channel (0 = nil) and back(conv(x)) = x in the history.
const driverTypedSrc = `//go:build drv

package main

import "strings"

type el[T any] struct {
	conv func(int) T
	back func(T) int
}

type errItem int

func (e errItem) Error() string { return "item" }

var elErr = el[error]{
	conv: func(x int) error {
		if x == 0 {
			return nil
		}
		return errItem(x)
	},
	back: func(e error) int {
		if e == nil {
			return 0
		}
		return int(e.(errItem))
	},
}
var elAny = el[interface{}]{
	conv: func(x int) interface{} {
		if x == 0 {
			return nil
		}
		return x
	},
	back: func(a interface{}) int {
		if a == nil {
			return 0
		}
		return a.(int)
	},
}
var elPtr = el[*int]{
	conv: func(x int) *int {
		if x == 0 {
			return nil
		}
		y := x
		return &y
	},
	back: func(p *int) int {
		if p == nil {
			return 0
		}
		return *p
	},
}

func typedForm(form string) bool {
	return strings.HasSuffix(form, "_e") || strings.HasSuffix(form, "_a") || strings.HasSuffix(form, "_sa") || strings.HasSuffix(form, "_p")
}

// input j with its own jittered producer
func tProd[T any](c config, e el[T], j int) chan T {
	ch := make(chan T, c.ins[j].cap)
	r := fork(c.seed, 10+j)
	items := c.ins[j].items
	go func() {
		for _, x := range items {
			r.jitter()
			ch <- e.conv(x)
		}
		r.jitter()
		close(ch)
	}()
	return ch
}

func tIn[T any](c config, e el[T]) []chan T {
	l := make([]chan T, len(c.ins))
	for j := range l {
		l[j] = tProd(c, e, j)
	}
	return l
}

func tRecv[T any](l []chan T) []<-chan T {
	r := make([]<-chan T, len(l))
	for j := range l {
		r[j] = l[j]
	}
	return r
}

func tOuter[T any](c config, e el[T]) chan (<-chan T) {
	o := make(chan (<-chan T), c.outer)
	l := tIn(c, e)
	r := fork(c.seed, 5)
	go func() {
		for _, ch := range l {
			r.jitter()
			o <- ch
		}
		r.jitter()
		close(o)
	}()
	return o
}

// the output as ints (ends when the output is closed)
func tOut[T any](in <-chan T, e el[T]) <-chan int {
	out := make(chan int)
	go func() {
		for v := range in {
			out <- e.back(v)
		}
		close(out)
	}()
	return out
}

func startTyped(c config) []<-chan int {
	rf := fork(c.seed, 1)
	switch c.form {
	case "fmap_e":
		f := func(e error) error { rf.jitter(); return elErr.conv(elErr.back(e) + 1000) }
		return []<-chan int{tOut(callFmapE(f, tIn(c, elErr)[0]), elErr)}
	case "dup_e":
		c1, c2 := callDupE(tIn(c, elErr)[0])
		return []<-chan int{tOut(c1, elErr), tOut(c2, elErr)}
	case "join_cc_e":
		return []<-chan int{tOut(callJoinCCE(tOuter(c, elErr)), elErr)}
	case "join_cc_a":
		return []<-chan int{tOut(callJoinCCA(tOuter(c, elAny)), elAny)}
	case "join_sl_e":
		return []<-chan int{tOut(callJoinSlE(tRecv(tIn(c, elErr))), elErr)}
	case "join_sl_sa":
		return []<-chan int{tOut(callJoinSlSA(tIn(c, elAny)), elAny)}
	case "join_sl_p":
		return []<-chan int{tOut(callJoinSlP(tRecv(tIn(c, elPtr))), elPtr)}
	case "join_var2_e":
		l := tIn(c, elErr)
		return []<-chan int{tOut(callJoinV2E(l[0], l[1]), elErr)}
	case "join_var3_p":
		l := tIn(c, elPtr)
		return []<-chan int{tOut(callJoinV3P(l[0], l[1], l[2]), elPtr)}
	case "pipeline_e": // f(a) carries the indexes as errors (index 0 = nil); g(e) is the input with that index
		f := func(a []int) <-chan error {
			ch := make(chan error, c.outer)
			r := fork(c.seed, 5)
			go func() {
				for _, x := range a {
					r.jitter()
					ch <- elErr.conv(x)
				}
				r.jitter()
				close(ch)
			}()
			return ch
		}
		g := func(e error) <-chan error { rf.jitter(); return tProd(c, elErr, elErr.back(e)) }
		idx := make([]int, len(c.ins))
		for j := range idx {
			idx[j] = j
		}
		pl := callPipelineE(f, g)
		for range pl([]int{}) {
		}
		return []<-chan int{tOut(pl(idx), elErr)}
	}
	panic("unknown typed form " + c.form)
}
`

// zeroInputs: items as in mkInputs, then the positions listed in zero[j] of input j hold the zero value.
func zeroInputs(caps, lens []int, zero map[int][]int) []input {
	ins := mkInputs(caps, lens)
	for j, ps := range zero {
		for _, p := range ps {
			ins[j].items[p] = 0
		}
	}
	return ins
}

func fixedInputs(f form) int {
	switch f.kind {
	case "fmap", "dup":
		return 1
	case "joinvar":
		if f.id == "join_var2" || f.id == "join_var2_e" {
			return 2
		}
		return 3
	}
	return 0
}

// round5Cfgs: the shared-channel and zero-item environments of one form.
func round5Cfgs(r *hx.Rand, f form, tier, variant string) (res []runCfg) {
	fixedN := fixedInputs(f)
	all := []int{1, 4, 16}
	if variant != "" {
		all = []int{4}
	}
	thorough := tier == "thorough"
	outerOf := func(o int) int {
		if f.kind != "joincc" && f.kind != "pipeline" {
			return 0
		}
		return o
	}
	add := func(env int, ins []input, outer int, order []int, procs []int) {
		for _, p := range procs {
			res = append(res, runCfg{f: f, procs: p, outer: outerOf(outer), seed: r.U64() >> 1, ins: ins, env: env, rounds: 1, order: order})
		}
	}
	// ---- zero items: every form, every element type ----
	{
		n := fixedN
		if n == 0 {
			n = 3
		}
		caps := func(v ...int) []int { return v[:n] }
		// one zero in the middle of one input (the last input that exists)
		add(8, zeroInputs(caps(0, 0, 0), caps(3, 2, 3), map[int][]int{n - 1: {1}}), 0, []int{f.elem}, all)
		// only zeros; first / last item zero
		lens := caps(2, 1, 2)
		zs := map[int][]int{}
		for j := 0; j < n; j++ {
			for p := 0; p < lens[j]; p++ {
				zs[j] = append(zs[j], p)
			}
		}
		add(8, zeroInputs(caps(1, 0, 2), lens, zs), 1, []int{f.elem}, all)
		add(8, zeroInputs(caps(0, 1, 0), caps(3, 3, 1), map[int][]int{0: {0}, n - 1: {caps(3, 3, 1)[n-1] - 1}}), 2, []int{f.elem}, all[:1])
		nrand := 1
		if thorough {
			nrand = 12
		}
		for k := 0; k < nrand; k++ {
			m := fixedN
			if m == 0 {
				m = 1 + r.Intn(4)
			}
			cs, ls := make([]int, m), make([]int, m)
			z := map[int][]int{}
			nz := 0
			for j := range cs {
				cs[j], ls[j] = r.Intn(3), r.Intn(4)
				for p := 0; p < ls[j]; p++ {
					if nz < 5 && r.Intn(3) == 0 {
						z[j] = append(z[j], p)
						nz++
					}
				}
			}
			add(8, zeroInputs(cs, ls, z), r.Intn(3), []int{f.elem}, all)
		}
	}
	// ---- shared channels: the int instances of the join forms and the pipeline ----
	if f.elem != 0 || fixedN == 1 {
		return
	}
	switch fixedN {
	case 2:
		add(7, mkInputs([]int{0}, []int{3}), 0, []int{0, 0}, all)
		add(7, mkInputs([]int{2}, []int{0}), 0, []int{0, 0}, all[:1])
	case 3:
		add(7, mkInputs([]int{0}, []int{3}), 0, []int{0, 0, 0}, all[:1])
		add(7, mkInputs([]int{0, 1}, []int{3, 2}), 0, []int{0, 1, 0}, all)
		add(7, mkInputs([]int{1, 0}, []int{2, 2}), 0, []int{1, 1, 0}, all[:1])
	default:
		// a channel that comes twice, between and after other channels, outer capacity 0 1 2
		add(7, mkInputs([]int{0, 0}, []int{3, 2}), 0, []int{0, 1, 0}, all)
		add(7, mkInputs([]int{1, 1}, []int{3, 2}), 1, []int{0, 1, 0}, all[:1])
		add(7, mkInputs([]int{0, 2}, []int{2, 3}), 2, []int{0, 1, 1}, all[len(all)-1:])
		add(7, mkInputs([]int{0}, []int{2}), 0, []int{0, 0}, all)
		add(7, mkInputs([]int{2}, []int{3}), 1, []int{0, 0, 0}, all[len(all)-1:])
		add(7, mkInputs([]int{0, 0, 1}, []int{1, 0, 2}), 0, []int{2, 0, 1, 0, 2, 2}, all[:1])
	}
	nrand := 1
	if thorough {
		nrand = 15
	}
	for k := 0; k < nrand; k++ {
		m := fixedN // number of places; n <= m distinct channels
		if m == 0 {
			m = 2 + r.Intn(4)
		}
		n := 1 + r.Intn(m)
		if n == m && m > 1 {
			n = m - 1 // at least one channel twice
		}
		order := make([]int, m)
		for i := range order {
			if i < n {
				order[i] = i
			} else {
				order[i] = r.Intn(n)
			}
		}
		for i := len(order) - 1; i > 0; i-- {
			j := r.Intn(i + 1)
			order[i], order[j] = order[j], order[i]
		}
		cs, ls := make([]int, n), make([]int, n)
		for j := range cs {
			cs[j], ls[j] = r.Intn(3), r.Intn(5)
		}
		add(7, mkInputs(cs, ls), r.Intn(3), order, all)
	}
	return
}
